/-
  Deep/Verifies — C07, second sentence: a conforming message that an independent implementation
  of RFC 9052 signed over its wire bytes is not only accepted (Deep/Accept) but VERIFIES:
  the library recomputes exactly the RFC Sig_structure from the bytes it retained.
  * C07: COSE_Sign1 (attached and detached payload), COSE_Signature, COSE_Sign with any number
    of signers.
  * C13: direction symmetry of header validation — whatever the decoder accepted is accepted by
    the encoder's validation as well.
-/
import CoseSpec
import CoseModel.Messages
import CoseProofs.Lemmas.Parse
import CoseProofs.Props.C03
import CoseProofs.Props.C04
import CoseProofs.Props.C07
import CoseProofs.Props.C11
import CoseProofs.Props.C13
import CoseProofs.Deep.Headers
import CoseProofs.Deep.Tbs
import CoseProofs.Deep.Reencode
import CoseProofs.Deep.Accept
import CoseProofs.Deep.SignMsg
import CoseProofs.Deep.Chain
open CoseModel CoseSpec

/-! ### C13 — decode ⇒ encode (unprotected bucket) -/
namespace C13

/-- an unprotected bucket accepted by the decoder passes the encoder's validation -/
theorem decoded_unprot_reencodable (u : Wire) (um : GoMap) (h : decUnprot u = .ok um) :
    validateHeaderParameters um false = true :=
  C05.unprot_accept_rules u um h

end C13

/-! ### helpers -/
namespace Verifies

/-- a header set that retained the bytes of a wire item and whose protected map is in the
    modelled region marshals its protected bucket to exactly those bytes -/
theorem marshalProtected_raw {h : Hdrs} {p : Wire} (hrp : h.rawP = some p.bytes)
    (hm : GoVal.modelledPairs h.p = true) : marshalProtected h = .ok p.bytes := by
  obtain ⟨x, xs, hx⟩ := C09.bytes_cons p
  simp [marshalProtected, hm, hrp, hx, encodeBucket]

/-- the bytes of a well-formed byte-string item are a byte-string encoding of its content -/
theorem isBstrEncoding_of_wf {hw : HW} {content : Bytes} (hwf : (Wire.bstr hw content).wf = true) :
    IsBstrEncoding (Wire.bstr hw content).bytes content :=
  ⟨hw, by simpa [Wire.wf] using hwf, by simp [Wire.bytes]⟩

theorem blen_some_ne {c : Bytes} (hc : c ≠ []) : blen (some c) ≠ 0 := by
  cases c with
  | nil => exact absurd rfl hc
  | cons x xs => simp [blen]

/-- a byte-string encoding starts with a major-type-2 head -/
theorem bodyProtOK_of_enc {raw content : Bytes} (h : IsBstrEncoding raw content) :
    bodyProtOK raw = true := by
  obtain ⟨w, hf, rfl⟩ := h
  cases hr : headBytes 2 w content.length ++ content with
  | nil => cases w <;> simp [headBytes] at hr
  | cons b0 rest =>
    have := C02.first_major (by omega : 2 < 8) hf hr.symm
    simp [bodyProtOK, this]

theorem enc_length_lt {raw content : Bytes} (h : IsBstrEncoding raw content) :
    content.length < 18446744073709551616 := by
  obtain ⟨w, hf, -⟩ := h
  exact Reencode.fits_lt hf

theorem wfList_getElem : ∀ (xs : List Wire) (i : Nat) (h : i < xs.length),
    Wire.wfList xs = true → xs[i].wf = true
  | [], _, h, _ => absurd h (Nat.not_lt_zero _)
  | x :: xs, 0, _, hw => by
    simp only [Wire.wfList, Bool.and_eq_true] at hw
    simpa using hw.1
  | x :: xs, i + 1, h, hw => by
    simp only [Wire.wfList, Bool.and_eq_true] at hw
    simpa using wfList_getElem xs i (by simpa using h) hw.2

/-- an accepted protected bucket that is a well-formed item is a byte-string encoding of its
    content -/
theorem protected_isBstrEncoding {p : Wire} {pm : GoMap} (hp : decProtected p = .ok pm)
    (hwf : p.wf = true) : ∃ content, IsBstrEncoding p.bytes content := by
  obtain ⟨hw, enc, rfl, -⟩ := C05.protected_is_bstr_of_map p pm hp
  exact ⟨enc, isBstrEncoding_of_wf hwf⟩

end Verifies

/-! ### C07 — COSE_Sign1 -/
namespace C07

/-- If the signature `c` is valid, under the verifier, over the RFC 9052 Sig_structure built from
    the protected bucket's CONTENT bytes as sent (whatever head width `hwp` the sender used for
    that byte string, however its inner map is encoded), the external data and the payload, then
    the library decodes the message and `Verify` returns nil. -/
theorem wf_sign1_verifies (tagged : Bool) {p u pl : Wire} {hw hwp hwpl : HW}
    {c content payload : Bytes} {pm um : GoMap}
    (hwf : (Wire.arr .imm [p, u, pl, .bstr hw c]).wf = true)
    (hlim : (Wire.arr .imm [p, u, pl, .bstr hw c]).inLimits false 0 = true)
    (hp : decProtected p = .ok pm) (hu : decUnprot u = .ok um) (hiv : ensureIV pm um = true)
    (hpw : p = .bstr hwp content) (hpl : pl = .bstr hwpl payload) (hc : c ≠ [])
    (ext : Option Bytes) (v : Verifier)
    (hgate : ensureVerificationAlgorithm pm v.alg ext = .ok ())
    (hsigned : v.verify (detEnc (sigStructure1 content (ext.getD []) payload)) c = .ok ()) :
    ∃ m, Sign1.unmarshal tagged
        ((if tagged then [0xd2] else []) ++ (Wire.arr .imm [p, u, pl, .bstr hw c]).bytes) = .ok m ∧
      (Sign1.verify m ext v).1 = .ok () := by
  subst hpw hpl
  have hpwf : (Wire.bstr hwp content).wf = true := by
    simp only [Wire.wf, Wire.wfList, Bool.and_eq_true] at hwf
    simpa [Wire.wf] using hwf.2.1
  have henc := Verifies.isBstrEncoding_of_wf hpwf
  have hlen : content.length < 18446744073709551616 :=
    Reencode.fits_lt (by simpa [Wire.wf] using hpwf)
  refine ⟨_, wf_sign1_accepted_full tagged hwf hlim hp hu hiv (.inr ⟨_, _, rfl⟩) hc, ?_⟩
  rw [C03.verify1_iff]
  refine ⟨rfl, Verifies.blen_some_ne hc, hgate, _, ?_, hsigned⟩
  exact C02.tbs1_eq_rfc _ ext _ content payload
    (Verifies.marshalProtected_raw (p := .bstr hwp content) rfl (C01.decProtected_modelled hp))
    henc hlen rfl

/-- Detached payload (`nil` on the wire): after decoding, the verifier supplies the payload. -/
theorem wf_sign1_detached_verifies (tagged : Bool) {p u pl : Wire} {hw hwp : HW}
    {c content : Bytes} {pm um : GoMap}
    (hwf : (Wire.arr .imm [p, u, pl, .bstr hw c]).wf = true)
    (hlim : (Wire.arr .imm [p, u, pl, .bstr hw c]).inLimits false 0 = true)
    (hp : decProtected p = .ok pm) (hu : decUnprot u = .ok um) (hiv : ensureIV pm um = true)
    (hpw : p = .bstr hwp content) (hpl : pl = .prim .imm 22) (hc : c ≠ [])
    (payload : Bytes) (ext : Option Bytes) (v : Verifier)
    (hgate : ensureVerificationAlgorithm pm v.alg ext = .ok ())
    (hsigned : v.verify (detEnc (sigStructure1 content (ext.getD []) payload)) c = .ok ()) :
    ∃ m, Sign1.unmarshal tagged
        ((if tagged then [0xd2] else []) ++ (Wire.arr .imm [p, u, pl, .bstr hw c]).bytes) = .ok m ∧
      m.payload = none ∧
      (Sign1.verify { m with payload := some payload } ext v).1 = .ok () := by
  subst hpw hpl
  have hpwf : (Wire.bstr hwp content).wf = true := by
    simp only [Wire.wf, Wire.wfList, Bool.and_eq_true] at hwf
    simpa [Wire.wf] using hwf.2.1
  have henc := Verifies.isBstrEncoding_of_wf hpwf
  have hlen : content.length < 18446744073709551616 := Verifies.enc_length_lt henc
  refine ⟨_, wf_sign1_accepted_full tagged hwf hlim hp hu hiv (.inl rfl) hc, rfl, ?_⟩
  rw [C03.verify1_iff]
  refine ⟨rfl, Verifies.blen_some_ne hc, hgate, _, ?_, hsigned⟩
  exact C02.tbs1_eq_rfc _ ext _ content payload
    (Verifies.marshalProtected_raw (p := .bstr hwp content) rfl (C01.decProtected_modelled hp))
    henc hlen rfl

/-! ### C07 — COSE_Signature (one signer of a COSE_Sign) -/

/-- A COSE_Signature `[p, u, sig]` inside a COSE_Sign whose body protected bucket arrived as
    `bprot` (ANY byte-string encoding of `bodyContent`): if the signature is valid over the
    RFC 9052 Sig_structure of (body protected content, signer protected content, external data,
    payload), the decoded signer entry verifies. -/
theorem wf_signature_verifies {p u : Wire} {hw hwp : HW} {c signContent : Bytes} {pm um : GoMap}
    (hwf : (Wire.arr .imm [p, u, .bstr hw c]).wf = true)
    (hlim : (Wire.arr .imm [p, u, .bstr hw c]).inLimits false 0 = true)
    (hp : decProtected p = .ok pm) (hu : decUnprot u = .ok um) (hiv : ensureIV pm um = true)
    (hpw : p = .bstr hwp signContent) (hc : c ≠ [])
    (bprot bodyContent payload : Bytes) (hb : IsBstrEncoding bprot bodyContent)
    (ext : Option Bytes) (v : Verifier)
    (hgate : ensureVerificationAlgorithm pm v.alg ext = .ok ())
    (hsigned : v.verify
      (detEnc (sigStructure bodyContent signContent (ext.getD []) payload)) c = .ok ()) :
    ∃ s, Signature.unmarshal (Wire.arr .imm [p, u, .bstr hw c]).bytes = .ok s ∧
      (Signature.verify s v bprot (some payload) ext).1 = .ok () := by
  subst hpw
  have hpwf : (Wire.bstr hwp signContent).wf = true := by
    simp only [Wire.wf, Wire.wfList, Bool.and_eq_true] at hwf
    simpa [Wire.wf] using hwf.2.1
  have henc := Verifies.isBstrEncoding_of_wf hpwf
  refine ⟨_, wf_signature_accepted_full hwf hlim hp hu hiv hc, ?_⟩
  rw [C03.verifySig_iff]
  refine ⟨rfl, Verifies.blen_some_ne hc, Verifies.bodyProtOK_of_enc hb, hgate, _, ?_, hsigned⟩
  exact C02.tbsSig_eq_rfc _ bprot (some payload) ext bodyContent _ signContent payload hb
    (Verifies.enc_length_lt hb)
    (Verifies.marshalProtected_raw (p := .bstr hwp signContent) rfl
      (C01.decProtected_modelled hp))
    henc (Verifies.enc_length_lt henc) rfl

/-! ### C07 — COSE_Sign, any number of signers -/

/-- A decoded COSE_Sign with attached payload verifies under verifiers `vs` as soon as, for every
    signer `i`, the algorithm gate passes and `vs[i]` accepts the signer's signature over the
    RFC 9052 Sig_structure built from the CONTENTS of the retained protected byte strings (body
    and signer), the external data and the payload. -/
theorem wf_sign_verifies (b : Bytes) (m : SignMsg) (hd : Sign.unmarshal b = .ok m)
    (payload : Bytes) (hpl : m.payload = some payload)
    (rawBody bodyContent : Bytes) (hrb : m.h.rawP = some rawBody)
    (hbc : IsBstrEncoding rawBody bodyContent)
    (ext : Option Bytes) (vs : List Verifier) (hlen : vs.length = m.sigs.length)
    (hall : ∀ i (h1 : i < m.sigs.length) (h2 : i < vs.length),
      ensureVerificationAlgorithm m.sigs[i].h.p vs[i].alg ext = .ok () ∧
      ∃ rawSign signContent sig, m.sigs[i].h.rawP = some rawSign ∧
        IsBstrEncoding rawSign signContent ∧ m.sigs[i].sig = some sig ∧
        vs[i].verify (detEnc (sigStructure bodyContent signContent (ext.getD []) payload)) sig
          = .ok ()) :
    (Sign.verify m ext vs).1 = .ok () := by
  obtain ⟨hw, hws, p, u, pl, sgs, -, -, -, -, -, -, hh, hne, hs⟩ := C05.sign_accept_envelope b m hd
  obtain ⟨hpd, -, -, hrp, -⟩ := C09.decHeaders_ok hh
  obtain ⟨hsl, hidx⟩ := C05.decSigList_ok sgs m.sigs hs
  have hbody : marshalProtected m.h = .ok rawBody := by
    have := Verifies.marshalProtected_raw hrp (C01.decProtected_modelled hpd)
    rw [hrp] at hrb
    cases hrb
    exact this
  rw [C11.signmsg_verify_iff]
  refine ⟨by simp [hpl], ?_, hlen.symm, rawBody, hbody, ?_⟩
  · intro he
    rw [he] at hsl
    cases sgs with
    | nil => exact hne rfl
    | cons x xs => simp at hsl
  · intro i h1 h2
    obtain ⟨hgate, rawSign, signContent, sig, hrs, hse, hsig, hsigned⟩ := hall i h1 h2
    obtain ⟨pi, ui, sgi, -, hpi, -, -, hrpi, -, -, hz⟩ := hidx i (hsl ▸ h1) h1
    have hmp : marshalProtected m.sigs[i].h = .ok rawSign := by
      have := Verifies.marshalProtected_raw hrpi (C01.decProtected_modelled hpi)
      rw [hrpi] at hrs
      cases hrs
      exact this
    rw [C03.verifySig_iff]
    refine ⟨by simp [hpl], hz, Verifies.bodyProtOK_of_enc hbc, hgate,
      detEnc (sigStructure bodyContent signContent (ext.getD []) payload), ?_, ?_⟩
    · exact C02.tbsSig_eq_rfc _ rawBody m.payload ext bodyContent rawSign signContent payload hbc
        (Verifies.enc_length_lt hbc) hmp hse (Verifies.enc_length_lt hse) hpl
    · rw [hsig]
      exact hsigned

/-- the hypotheses of `wf_sign_verifies` are satisfiable for every accepted COSE_Sign: the body
    and every signer retained protected bytes that ARE a byte-string encoding of some content
    (and every signer has a non-empty signature) -/
theorem decoded_sign_protected_bstr (b : Bytes) (m : SignMsg) (hd : Sign.unmarshal b = .ok m) :
    (∃ rawBody bodyContent, m.h.rawP = some rawBody ∧ IsBstrEncoding rawBody bodyContent) ∧
    ∀ i (h1 : i < m.sigs.length), ∃ rawSign signContent sig,
      m.sigs[i].h.rawP = some rawSign ∧ IsBstrEncoding rawSign signContent ∧
      m.sigs[i].sig = some sig ∧ sig ≠ [] := by
  obtain ⟨hw, hws, p, u, pl, sgs, -, -, hwf, -, -, -, hh, -, hs⟩ :=
    C05.sign_accept_envelope b m hd
  obtain ⟨hpd, -, -, hrp, -⟩ := C09.decHeaders_ok hh
  obtain ⟨hsl, hidx⟩ := C05.decSigList_ok sgs m.sigs hs
  simp only [Wire.wf, Wire.wfList, Bool.and_eq_true] at hwf
  constructor
  · obtain ⟨content, hc⟩ := Verifies.protected_isBstrEncoding hpd hwf.2.1
    exact ⟨_, content, hrp, hc⟩
  · intro i h1
    have h1' : i < sgs.length := hsl ▸ h1
    obtain ⟨pi, ui, sgi, hx, hpi, -, -, hrpi, -, hsg, hz⟩ := hidx i h1' h1
    have hxwf := Verifies.wfList_getElem sgs i h1' hwf.2.2.2.2.1.2
    rw [hx] at hxwf
    simp only [Wire.wf, Wire.wfList, Bool.and_eq_true] at hxwf
    obtain ⟨content, hc⟩ := Verifies.protected_isBstrEncoding hpi hxwf.2.1
    obtain ⟨hw', c, -, hcne, hsome⟩ := Accept.wfsig_of_dec hsg hz
    exact ⟨_, content, c, hrpi, hc, hsome, hcne⟩

end C07

/-! ### C13 — decode ⇒ encode (protected bucket) -/
namespace C13

/-- a key that, when it is a label at all, is its own normal form (`int64` in range, or text) -/
def KeyNormal (k : GoVal) : Prop := normalizeLabel k = none ∨ normalizeLabel k = some k

theorem wrap64_nat {n : Nat} (h : n ≤ maxInt64) : wrap64 (n : Int) = (n : Int) := by
  unfold maxInt64 at h
  unfold wrap64
  simp only []
  split <;> omega

theorem wrap64_neg {n : Nat} (h : n ≤ maxInt64) : wrap64 (-1 - (n : Int)) = -1 - (n : Int) := by
  unfold maxInt64 at h
  unfold wrap64
  simp only []
  split <;> omega

/-- the generic decoder produces integer keys only as in-range `int64` -/
theorem decodeAny_keyNormal {w : Wire} {v : GoVal} (h : decodeAny w = .ok v) : KeyNormal v := by
  cases w with
  | uint hw n =>
    unfold decodeAny at h
    split at h
    · rename_i hn
      cases h
      exact .inr (by simp [normalizeLabel, wrap64_nat hn])
    · cases h
  | nint hw n =>
    unfold decodeAny at h
    split at h
    · rename_i hn
      cases h
      exact .inr (by simp [normalizeLabel, wrap64_neg hn])
    · cases h
  | bstr hw b => unfold decodeAny at h; cases h; exact .inl rfl
  | tstr hw b =>
    unfold decodeAny at h
    split at h
    · cases h; exact .inr rfl
    · cases h
  | tag hw t x => unfold decodeAny at h; cases h
  | prim hw n =>
    cases hw <;> unfold decodeAny at h
    · split at h
      · cases h; exact .inl rfl
      · split at h
        · cases h; exact .inl rfl
        · split at h <;> cases h <;> exact .inl rfl
    · cases h; exact .inl rfl
    · cases h
    · cases h
    · cases h; exact .inl rfl
  | arr hw xs =>
    unfold decodeAny at h
    cases hl : decodeList xs <;> simp [hl] at h
    subst h; exact .inl rfl
  | map hw kvs =>
    unfold decodeAny at h
    cases hl : decodePairs kvs [] <;> simp [hl] at h
    subst h; exact .inl rfl

/-- every key of a generically decoded map is in normal form -/
theorem decodePairs_keys_normal : ∀ (kvs : List (Wire × Wire)) (acc out : GoMap),
    decodePairs kvs acc = .ok out → (∀ e ∈ acc, KeyNormal e.1) → ∀ e ∈ out, KeyNormal e.1
  | [], acc, out, h, hacc => by
    unfold decodePairs at h; cases h
    intro e he; exact hacc e (List.mem_reverse.mp he)
  | (k, v) :: r, acc, out, h, hacc => by
    unfold decodePairs at h
    cases hk : decodeAny k with
    | ok key =>
      have hkn := decodeAny_keyNormal hk
      simp only [hk] at h
      split at h
      · cases h
      · cases h
      · split at h
        · cases h
        · cases hv : decodeAny v with
          | ok value =>
            simp only [hv] at h
            split at h
            · cases h
            · refine decodePairs_keys_normal r _ out h ?_
              intro e he
              rcases List.mem_cons.mp he with rfl | he
              · exact hkn
              · exact hacc e he
          | err e => simp [hv] at h
          | panic => simp [hv] at h
          | unmodelled => simp [hv] at h
    | err e => simp [hk] at h
    | panic => simp [hk] at h
    | unmodelled => simp [hk] at h

/-- what the protected-bucket decoder accepts, keeping the generic decode of the inner map -/
theorem decProtectedContent_ok {enc : Bytes} {m : GoMap} (h : decProtectedContent enc = .ok m) :
    enc = [] ∧ m = [] ∨ ∃ hw kvs m0, parseTop true enc = some (.map hw kvs) ∧
      decodePairs kvs [] = .ok m0 ∧ validateHeaderParameters m0 true = true ∧ m = castAlg m0 := by
  unfold decProtectedContent at h
  split at h
  · left; cases h; exact ⟨rfl, rfl⟩
  · right
    split at h
    · cases h
    · split at h
      · rename_i hw kvs hpt
        cases hl : labelsOK kvs [] with
        | ok u =>
          simp only [hl, bind, Out.bind] at h
          split at h
          · cases h
          cases hd : decodePairs kvs [] with
          | ok m0 =>
            simp only [hd] at h
            by_cases hv : validateHeaderParameters m0 true = true
            · simp only [hv, Bool.not_true, Bool.false_eq_true, if_false] at h
              cases h; exact ⟨hw, kvs, m0, hpt, hd, hv, rfl⟩
            · simp [hv] at h
          | err e => simp [hd] at h
          | panic => simp [hd] at h
          | unmodelled => simp [hd] at h
        | err e => simp [hl, bind, Out.bind] at h
        | panic => simp [hl, bind, Out.bind] at h
        | unmodelled => simp [hl, bind, Out.bind] at h
      · cases h

theorem normalize_lbl1 : normalizeLabel (lbl 1) = some (lbl 1) := by
  have : wrap64 1 = 1 := by decide
  simp [lbl, normalizeLabel, this]

/-- overwriting the value stored under the exact key `lbl 1` by a typed algorithm keeps a valid
    bucket valid -/
theorem validate_retype_alg (m0 : GoMap) (prot : Bool) (a : Int)
    (hv : validateHeaderParameters m0 prot = true) :
    validateHeaderParameters
      (m0.map (fun e => if e.1.keyEq (lbl 1) then (e.1, GoVal.alg a) else e)) prot = true := by
  have hnl : normLabels (m0.map (fun e => if e.1.keyEq (lbl 1) then (e.1, GoVal.alg a) else e))
      = normLabels m0 := by
    unfold normLabels
    rw [List.map_map]
    apply List.map_congr_left
    intro e _
    simp only [Function.comp]
    split <;> rfl
  rw [validate_iff] at hv ⊢
  obtain ⟨hok, hall⟩ := hv
  have hok' : LabelsOK (m0.map (fun e => if e.1.keyEq (lbl 1) then (e.1, GoVal.alg a) else e)) := by
    rw [labelsOK_iff_normLabels] at hok ⊢
    rw [hnl]; exact hok
  refine ⟨hok', ?_⟩
  · intro e' he'
    obtain ⟨e, he, rfl⟩ := List.mem_map.mp he'
    obtain ⟨l, h1, h2⟩ := hall e he
    have hcongr : ∀ l v, checkParam
        (m0.map (fun e => if e.1.keyEq (lbl 1) then (e.1, GoVal.alg a) else e)) prot l v
        = checkParam m0 prot l v :=
      fun l v => checkParam_congr _ _
        (fun l' hl' => hasLabel_congr_norm _ _ hnl l' l' rfl hl') hok'.1 hok.1 prot l v
    by_cases hk : e.1.keyEq (lbl 1) = true
    · simp only [hk, if_true]
      have heq : e.1 = lbl 1 :=
        eq_of_keyEq_of_normalizes' (by simp [lbl, normalizeLabel]) hk
      rw [heq] at h1
      have hl : l = .int .i64 1 := by
        rw [normalize_lbl1] at h1
        exact (Option.some.inj h1).symm
      refine ⟨l, by rw [heq]; exact h1, ?_⟩
      rw [hcongr, hl]
      simp [checkParam]
    · simp only [hk, Bool.false_eq_true, if_false]
      exact ⟨l, h1, by rw [hcongr]; exact h2⟩

/-- for a bucket whose keys are in normal form, an algorithm that `Algorithm()` finds is stored
    under the exact key `lbl 1` -/
theorem has_alg_of_found {m0 : GoMap} {a : Int} (hkn : ∀ e ∈ m0, KeyNormal e.1)
    (hf : algorithmOf m0 = .found a) : m0.has (lbl 1) = true := by
  have hhas : hasLabel m0 (lbl 1) = true := by
    unfold hasLabel
    unfold algorithmOf at hf
    cases hlk : lookupLabel m0 (lbl 1) with
    | none => simp [hlk] at hf
    | some x => rfl
  obtain ⟨e, he, hne⟩ := (hasLabel_norm' m0 (lbl 1) (lbl 1) normalize_lbl1).mp hhas
  have heq : e.1 = lbl 1 := by
    rcases hkn e he with h | h
    · rw [h] at hne; cases hne
    · rw [h] at hne; exact Option.some.inj hne
  unfold GoMap.has GoMap.lookup
  cases hfind : m0.find? (fun e => e.1.keyEq (lbl 1)) with
  | some x => rfl
  | none =>
    rw [List.find?_eq_none] at hfind
    have := hfind e he
    rw [heq] at this
    exact absurd (by simp [lbl, GoVal.keyEq] : (lbl 1).keyEq (lbl 1) = true) this

/-- decoded maps have only in-range `int64` / text keys, so the alg retyping of the protected
    decoder overwrites in place and keeps the bucket valid -/
theorem castAlg_valid {m0 : GoMap} (hkn : ∀ e ∈ m0, KeyNormal e.1)
    (hv : validateHeaderParameters m0 true = true) :
    validateHeaderParameters (castAlg m0) true = true := by
  unfold castAlg
  split
  · rename_i a hf
    have hh := has_alg_of_found hkn hf
    unfold GoMap.set
    rw [if_pos hh]
    exact validate_retype_alg m0 true a hv
  · exact hv

theorem castAlg_keys {m0 : GoMap} (hkn : ∀ e ∈ m0, KeyNormal e.1) :
    ∀ e ∈ castAlg m0, ∃ e0 ∈ m0, e.1 = e0.1 := by
  unfold castAlg
  split
  · rename_i a hf
    have hh := has_alg_of_found hkn hf
    unfold GoMap.set
    rw [if_pos hh]
    intro e he
    obtain ⟨e0, he0, rfl⟩ := List.mem_map.mp he
    refine ⟨e0, he0, ?_⟩
    split <;> rfl
  · intro e he; exact ⟨e, he, rfl⟩

/-- every key of a decoded protected map is an in-range `int64` or a text string -/
theorem decoded_keys_normal (enc : Bytes) (m : GoMap) (h : decProtectedContent enc = .ok m) :
    ∀ e ∈ m, (∃ v, e.1 = GoVal.int .i64 v ∧ wrap64 v = v) ∨ ∃ b, e.1 = GoVal.str b := by
  rcases decProtectedContent_ok h with ⟨-, rfl⟩ | ⟨hw, kvs, m0, -, hd, hv, rfl⟩
  · intro e he; cases he
  · have hkn := decodePairs_keys_normal kvs [] m0 hd (by intro e he; cases he)
    intro e he
    obtain ⟨e0, he0, heq⟩ := castAlg_keys hkn e he
    have hne := (validate_labels m0 true hv).1 e0 he0
    have hself : normalizeLabel e0.1 = some e0.1 := by
      rcases hkn e0 he0 with h' | h'
      · exact absurd h' hne
      · exact h'
    rw [heq]
    cases hk : e0.1 with
    | int k v =>
      rw [hk] at hself
      have hself' := normalizeLabel_int_eq_some hself
      simp only [GoVal.int.injEq] at hself'
      exact .inl ⟨v, by rw [hself'.1], hself'.2.symm⟩
    | str b => exact .inr ⟨b, rfl⟩
    | _ => rw [hk] at hself; simp [normalizeLabel] at hself

/-- direction symmetry, decode ⇒ encode: a protected header set accepted by the decoder is
    accepted by the encoder's validation too -/
theorem decoded_reencodable (enc : Bytes) (m : GoMap) (h : decProtectedContent enc = .ok m) :
    validateHeaderParameters m true = true := by
  rcases decProtectedContent_ok h with ⟨-, rfl⟩ | ⟨hw, kvs, m0, -, hd, hv, rfl⟩
  · rfl
  · exact castAlg_valid
      (decodePairs_keys_normal kvs [] m0 hd (by intro e he; cases he)) hv

end C13

/-! ### the hypotheses are satisfiable -/
namespace VerifiesExamples
open C01 (exU exV7 ex_decP ex_decU)

/-- the protected bucket `{1: -7}` sent with a NON-shortest (one-byte) length head -/
def exPw : Wire := .bstr .w1 [0xa1, 0x01, 0x26]

theorem ex_decPw : decProtected exPw = .ok [(lbl 1, .alg (-7))] := ex_decP

/-- a COSE_Sign1 whose protected bucket uses a non-preferred head: decoded, and verified against
    the RFC Sig_structure over the CONTENT `a1 01 26` -/
example : ∃ m, Sign1.unmarshal true
      ([0xd2] ++ (Wire.arr .imm [exPw, exU, .bstr .imm [1, 2, 3], .bstr .w2 [7]]).bytes) = .ok m ∧
    (Sign1.verify m none exV7).1 = .ok () :=
  C07.wf_sign1_verifies true (hwp := .w1) (hwpl := .imm)
    (by simp [Wire.wf, Wire.wfList, Wire.wfPairs, HW.fits, exPw, exU])
    (by simp [Wire.inLimits, Wire.inLimitsList, Wire.inLimitsPairs, exPw, exU, maxNested, maxElems])
    ex_decPw ex_decU (by decide) rfl rfl (by decide) none exV7 (by rfl) (by simp [exV7])

/-- the same with a detached payload -/
example : ∃ m, Sign1.unmarshal false
      (Wire.arr .imm [exPw, exU, .prim .imm 22, .bstr .imm [7]]).bytes = .ok m ∧
    m.payload = none ∧ (Sign1.verify { m with payload := some [1, 2, 3] } none exV7).1 = .ok () := by
  have := C07.wf_sign1_detached_verifies false (hw := .imm) (hwp := .w1) (c := [7])
    (p := exPw) (u := exU) (pl := .prim .imm 22)
    (by simp [Wire.wf, Wire.wfList, Wire.wfPairs, HW.fits, exPw, exU])
    (by simp [Wire.inLimits, Wire.inLimitsList, Wire.inLimitsPairs, exPw, exU, maxNested, maxElems])
    ex_decPw ex_decU (by decide) rfl rfl (by decide) [1, 2, 3] none exV7 (by rfl) (by simp [exV7])
  simpa using this

/-- a signer entry with a non-shortest protected head inside a COSE_Sign whose body protected
    bucket is the 9-byte spelling of the empty byte string -/
example : ∃ s, Signature.unmarshal (Wire.arr .imm [exPw, exU, .bstr .imm [7]]).bytes = .ok s ∧
    (Signature.verify s exV7 [0x5b, 0, 0, 0, 0, 0, 0, 0, 0] (some [1, 2, 3]) none).1 = .ok () :=
  C07.wf_signature_verifies (hwp := .w1)
    (by simp [Wire.wf, Wire.wfList, Wire.wfPairs, HW.fits, exPw, exU])
    (by simp [Wire.inLimits, Wire.inLimitsList, Wire.inLimitsPairs, exPw, exU, maxNested, maxElems])
    ex_decPw ex_decU (by decide) rfl (by decide) _ [] [1, 2, 3] ⟨.w8, by decide, rfl⟩ none exV7
    (by rfl) (by simp [exV7])

end VerifiesExamples
