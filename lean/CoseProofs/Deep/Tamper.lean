/-
  CoseProofs.Deep.Tamper — tamper evidence (C03, C10), the algorithm gate for the remaining
  structures (C04) and fault behaviour of the remaining entry points (C20).

  Computational unforgeability is not a proposition about a function.  The idealisation used
  here: a verifier is `Unique` when it accepts at most one message per signature value.  Under a
  unique verifier, "the same signature verifies for two inputs" forces the two ToBeSigned byte
  strings to coincide, and the injectivity of the RFC structures (`C02.sig1_binding`,
  `C02.sig_binding`, `C10.countersign_binding`) then forces every signed field to coincide.
-/
import CoseSpec
import CoseModel.Messages
import CoseModel.HashEnvelope
import CoseProofs.Props.C01
import CoseProofs.Props.C03
import CoseProofs.Props.C04
import CoseProofs.Props.C11
import CoseProofs.Props.C20
import CoseProofs.Deep.Tbs
import CoseProofs.Deep.Chain
open CoseModel CoseSpec

namespace C03

/-- idealised unforgeability: at most one message is accepted per signature value -/
def Unique (v : Verifier) : Prop :=
  ∀ t t' s, v.verify t s = .ok () → v.verify t' s = .ok () → t = t'

/-- the transparent scheme of the test harness (sig = 0x01 ‖ keyid ‖ content) is unique -/
theorem unique_transparent (alg : Int) (keyid : UInt8) :
    Unique { alg := alg,
             verify := fun t sg => if sg = 1 :: keyid :: t then .ok () else .err .verification } := by
  intro t t' s h h'
  simp only at h h'
  split at h
  · rename_i hs
    split at h'
    · rename_i hs'
      rw [hs] at hs'
      exact (List.cons.inj (List.cons.inj hs').2).2
    · cases h'
  · cases h

/-- non-vacuity: `Unique` is a real restriction (a verifier accepting everything is not unique) -/
example : ¬ Unique { alg := -7, verify := fun _ _ => .ok () } := by
  intro h
  have := h [] [0] [] rfl rfl
  cases this

/-- a byte string item determines its content, whatever the head width -/
theorem isBstrEncoding_content_unique {raw c c' : Bytes}
    (h : IsBstrEncoding raw c) (h' : IsBstrEncoding raw c') : c = c' := by
  obtain ⟨w, hf, rfl⟩ := h
  obtain ⟨w', hf', he⟩ := h'
  have hw := wire_bytes_append_inj (t := false)
    (w := .bstr w c) (w' := .bstr w' c') (r := []) (r' := [])
    (by simpa [Wire.wf] using hf) (by simpa [Wire.wf] using hf')
    (by simp [Wire.inLimits]) (by simp [Wire.inLimits])
    (by simpa [Wire.bytes] using he)
  exact (Wire.bstr.inj hw.1).2

theorem isBstrEncoding_length {raw c : Bytes} (h : IsBstrEncoding raw c) :
    c.length < 18446744073709551616 := by
  obtain ⟨w, hf, -⟩ := h
  cases w <;> simp only [HW.fits, decide_eq_true_eq] at hf <;> omega

/-- whenever `Sign1.toBeSigned` succeeds on a message with a payload, the result is the RFC 9052
    Sig_structure over the content of the protected bucket -/
theorem tbs1_rfc_of_ok {m : Sign1Msg} {ext : Option Bytes} {t pl : Bytes}
    (h : Sign1.toBeSigned m ext = .ok t) (hpl : m.payload = some pl) :
    ∃ raw c, marshalProtected m.h = .ok raw ∧ IsBstrEncoding raw c ∧
      c.length < 18446744073709551616 ∧ t = detEnc (sigStructure1 c (ext.getD []) pl) := by
  obtain ⟨P, P', hP, hd, -⟩ := C01.toBeSigned1_ok_inv h
  obtain ⟨c, hc, hl, -⟩ := C02.detBstr_ok_inv P P' hd
  refine ⟨P, c, hP, hc, hl, ?_⟩
  have := C02.tbs1_eq_rfc m ext P c pl hP hc hl hpl
  rw [h] at this
  exact Out.ok.inj this

/-- the same for one signer of a COSE_Sign -/
theorem tbsSig_rfc_of_ok {s : SigV} {bprot : Bytes} {payload ext : Option Bytes} {t pl : Bytes}
    (h : Signature.toBeSigned s bprot payload ext = .ok t) (hpl : payload = some pl) :
    ∃ bc raw sc, IsBstrEncoding bprot bc ∧ bc.length < 18446744073709551616 ∧
      marshalProtected s.h = .ok raw ∧ IsBstrEncoding raw sc ∧
      sc.length < 18446744073709551616 ∧
      t = detEnc (sigStructure bc sc (ext.getD []) pl) := by
  have h0 := h
  unfold Signature.toBeSigned at h
  cases hb : detBstr bprot with
  | ok bp =>
    cases hP : marshalProtected s.h with
    | ok raw =>
      cases hd : detBstr raw with
      | ok sp =>
        obtain ⟨bc, hbc, hbl, -⟩ := C02.detBstr_ok_inv _ _ hb
        obtain ⟨sc, hsc, hsl, -⟩ := C02.detBstr_ok_inv _ _ hd
        refine ⟨bc, raw, sc, hbc, hbl, rfl, hsc, hsl, ?_⟩
        have := C02.tbsSig_eq_rfc s bprot payload ext bc raw sc pl hbc hbl hP hsc hsl hpl
        rw [h0] at this
        exact Out.ok.inj this
      | err e => simp [hb, hP, hd, bind, Out.bind] at h
      | panic => simp [hb, hP, hd, bind, Out.bind] at h
      | unmodelled => simp [hb, hP, hd, bind, Out.bind] at h
    | err e => simp [hb, hP, bind, Out.bind] at h
    | panic => simp [hb, hP, bind, Out.bind] at h
    | unmodelled => simp [hb, hP, bind, Out.bind] at h
  | err e => simp [hb, bind, Out.bind] at h
  | panic => simp [hb, bind, Out.bind] at h
  | unmodelled => simp [hb, bind, Out.bind] at h

/-- `Countersignature.toBeSigned` is `countersignToBeSigned false` on the marshalled protected
    bucket of the countersignature -/
theorem ctbs_of_ok {cs : SigV} {parent : Parent} {ext : Option Bytes} {t : Bytes}
    (h : Countersignature.toBeSigned cs parent ext = .ok t) :
    ∃ sp, marshalProtected cs.h = .ok sp ∧ countersignToBeSigned false parent sp ext = .ok t := by
  unfold Countersignature.toBeSigned at h
  cases hP : marshalProtected cs.h with
  | ok sp => refine ⟨sp, rfl, ?_⟩; simpa [hP, bind, Out.bind] using h
  | err e => simp [hP, bind, Out.bind] at h
  | panic => simp [hP, bind, Out.bind] at h
  | unmodelled => simp [hP, bind, Out.bind] at h

theorem isSome_inv {o : Option Bytes} (h : o.isSome = true) : ∃ b, o = some b := by
  cases o with
  | none => cases h
  | some b => exact ⟨b, rfl⟩

/-- what an accepting `Sign1.verify` handed to the verifier: the RFC Sig_structure -/
theorem verify1_ok_rfc {m : Sign1Msg} {ext : Option Bytes} {v : Verifier}
    (h : (Sign1.verify m ext v).1 = .ok ()) :
    ∃ pl raw c, m.payload = some pl ∧ marshalProtected m.h = .ok raw ∧ IsBstrEncoding raw c ∧
      v.verify (detEnc (sigStructure1 c (ext.getD []) pl)) (m.sig.getD []) = .ok () := by
  obtain ⟨hp, -, -, t, ht, hv⟩ := (verify1_iff m ext v).mp h
  obtain ⟨pl, hpl⟩ := isSome_inv hp
  obtain ⟨raw, c, hraw, hc, -, rfl⟩ := tbs1_rfc_of_ok ht hpl
  exact ⟨pl, raw, c, hpl, hraw, hc, hv⟩

theorem verifySig_ok_rfc {sg : SigV} {v : Verifier} {bprot : Bytes} {payload ext : Option Bytes}
    (h : (Signature.verify sg v bprot payload ext).1 = .ok ()) :
    ∃ pl bc raw sc, payload = some pl ∧ IsBstrEncoding bprot bc ∧
      marshalProtected sg.h = .ok raw ∧ IsBstrEncoding raw sc ∧
      v.verify (detEnc (sigStructure bc sc (ext.getD []) pl)) (sg.sig.getD []) = .ok () := by
  obtain ⟨hp, -, -, -, t, ht, hv⟩ := (verifySig_iff sg v bprot payload ext).mp h
  obtain ⟨pl, hpl⟩ := isSome_inv hp
  obtain ⟨bc, raw, sc, hbc, -, hraw, hsc, -, rfl⟩ := tbsSig_rfc_of_ok ht hpl
  exact ⟨pl, bc, raw, sc, hpl, hbc, hraw, hsc, hv⟩

/-- 1. COSE_Sign1: if one signature value verifies for two messages under a unique verifier, the
    content of the protected bucket, the payload and the external data coincide.  `c`, `c'` are
    the contents of the two protected byte strings (whatever head width they were received with). -/
theorem tamper_sign1 (m m' : Sign1Msg) (ext ext' : Option Bytes) (v : Verifier) (hu : Unique v)
    (hsig : m.sig = m'.sig)
    (h1 : (Sign1.verify m ext v).1 = .ok ()) (h2 : (Sign1.verify m' ext' v).1 = .ok ())
    (c c' raw raw' : Bytes)
    (hp : marshalProtected m.h = .ok raw) (hp' : marshalProtected m'.h = .ok raw')
    (hc : IsBstrEncoding raw c) (hc' : IsBstrEncoding raw' c')
    (hpl : blen m.payload < 2^64) (hpl' : blen m'.payload < 2^64)
    (he : blen ext < 2^64) (he' : blen ext' < 2^64) :
    c = c' ∧ m.payload = m'.payload ∧ ext.getD [] = ext'.getD [] := by
  obtain ⟨pl, r, d, hpay, hr, hd, hv⟩ := verify1_ok_rfc h1
  obtain ⟨pl', r', d', hpay', hr', hd', hv'⟩ := verify1_ok_rfc h2
  rw [hp] at hr; cases hr
  rw [hp'] at hr'; cases hr'
  cases isBstrEncoding_content_unique hc hd
  cases isBstrEncoding_content_unique hc' hd'
  rw [← hsig] at hv'
  have ht := hu _ _ _ hv hv'
  have hcl := isBstrEncoding_length hc
  have hcl' := isBstrEncoding_length hc'
  simp only [blen, hpay, hpay', Option.getD_some] at hpl hpl' he he'
  obtain ⟨h1, h2, h3⟩ := C02.sig1_binding c (ext.getD []) pl c' (ext'.getD []) pl'
    (by omega) he hpl (by omega) he' hpl' ht
  exact ⟨h1, by rw [hpay, hpay', h3], h2⟩

/-- the same without naming the protected bytes: both protected buckets exist and have one and
    the same content -/
theorem tamper_sign1_exists (m m' : Sign1Msg) (ext ext' : Option Bytes) (v : Verifier)
    (hu : Unique v) (hsig : m.sig = m'.sig)
    (h1 : (Sign1.verify m ext v).1 = .ok ()) (h2 : (Sign1.verify m' ext' v).1 = .ok ())
    (hpl : blen m.payload < 2^64) (hpl' : blen m'.payload < 2^64)
    (he : blen ext < 2^64) (he' : blen ext' < 2^64) :
    (∃ raw raw' c, marshalProtected m.h = .ok raw ∧ marshalProtected m'.h = .ok raw' ∧
      IsBstrEncoding raw c ∧ IsBstrEncoding raw' c) ∧
    m.payload = m'.payload ∧ ext.getD [] = ext'.getD [] := by
  obtain ⟨pl, r, d, -, hr, hd, -⟩ := verify1_ok_rfc h1
  obtain ⟨pl', r', d', -, hr', hd', -⟩ := verify1_ok_rfc h2
  obtain ⟨rfl, h2, h3⟩ := tamper_sign1 m m' ext ext' v hu hsig h1 h2 d d' r r' hr hr' hd hd'
    hpl hpl' he he'
  exact ⟨⟨r, r', d, hr, hr', hd, hd'⟩, h2, h3⟩

/-- contrapositive: a received message that differs from a verifying one in protected content,
    payload or external data (same signature bytes) is rejected -/
theorem tamper_sign1_rejected (m m' : Sign1Msg) (ext ext' : Option Bytes) (v : Verifier)
    (hu : Unique v) (hsig : m.sig = m'.sig) (h1 : (Sign1.verify m ext v).1 = .ok ())
    (c c' raw raw' : Bytes)
    (hp : marshalProtected m.h = .ok raw) (hp' : marshalProtected m'.h = .ok raw')
    (hc : IsBstrEncoding raw c) (hc' : IsBstrEncoding raw' c')
    (hpl : blen m.payload < 2^64) (hpl' : blen m'.payload < 2^64)
    (he : blen ext < 2^64) (he' : blen ext' < 2^64)
    (hdiff : c ≠ c' ∨ m.payload ≠ m'.payload ∨ ext.getD [] ≠ ext'.getD []) :
    (Sign1.verify m' ext' v).1 ≠ .ok () := by
  intro h2
  obtain ⟨a, b, d⟩ := tamper_sign1 m m' ext ext' v hu hsig h1 h2 c c' raw raw' hp hp' hc hc'
    hpl hpl' he he'
  rcases hdiff with h | h | h
  · exact h a
  · exact h b
  · exact h d

/-- 2. a COSE_Sign1 signature never verifies as a COSE_Signature of a COSE_Sign -/
theorem tamper_kind (m : Sign1Msg) (sg : SigV) (bprot : Bytes) (payload ext ext' : Option Bytes)
    (v : Verifier) (hu : Unique v) (hsig : m.sig = sg.sig)
    (h1 : (Sign1.verify m ext v).1 = .ok ()) :
    (Signature.verify sg v bprot payload ext').1 ≠ .ok () := by
  intro h2
  obtain ⟨pl, r, d, -, -, -, hv⟩ := verify1_ok_rfc h1
  obtain ⟨pl', bc, r', sc, -, -, -, -, hv'⟩ := verifySig_ok_rfc h2
  rw [← hsig] at hv'
  exact C02.kinds_separated _ _ _ _ _ _ _ (hu _ _ _ hv hv')

/-- 2'. … nor as a countersignature, full or abbreviated, on any parent -/
theorem tamper_kind_csig (m : Sign1Msg) (ext : Option Bytes) (v : Verifier) (hu : Unique v)
    (h1 : (Sign1.verify m ext v).1 = .ok ()) :
    (∀ (cs : SigV) (parent : Parent) (ext' : Option Bytes), cs.sig = m.sig →
      (Countersignature.verify cs v parent ext').1 ≠ .ok ()) ∧
    (∀ (s : Bytes) (parent : Parent) (ext' : Option Bytes), m.sig = some s →
      (verifyCountersign0 v parent ext' s).1 ≠ .ok ()) := by
  obtain ⟨pl, r, d, -, -, -, hv⟩ := verify1_ok_rfc h1
  constructor
  · intro cs parent ext' hsig h2
    obtain ⟨-, -, t, ht, hv'⟩ := (verifyCsig_iff cs v parent ext').mp h2
    obtain ⟨sp, -, hct⟩ := ctbs_of_ok ht
    rw [hsig] at hv'
    exact (C10.ctbs_ne_message_tbs false parent sp ext' t hct).1 _ _ _ (hu _ _ _ hv' hv)
  · intro s parent ext' hsig h2
    obtain ⟨t, hct, hv'⟩ := (verifyCsign0_iff v parent ext' s).mp h2
    rw [hsig] at hv
    exact (C10.ctbs_ne_message_tbs true parent _ ext' t hct).1 _ _ _ (hu _ _ _ hv' hv)

/-- 3. COSE_Signature of a COSE_Sign: the body protected content, the signer's protected
    content, the payload and the external data are all bound -/
theorem tamper_signature (sg sg' : SigV) (v : Verifier) (hu : Unique v)
    (bprot bprot' : Bytes) (payload payload' ext ext' : Option Bytes)
    (hsig : sg.sig = sg'.sig)
    (h1 : (Signature.verify sg v bprot payload ext).1 = .ok ())
    (h2 : (Signature.verify sg' v bprot' payload' ext').1 = .ok ())
    (bc bc' raw raw' sc sc' : Bytes)
    (hb : IsBstrEncoding bprot bc) (hb' : IsBstrEncoding bprot' bc')
    (hp : marshalProtected sg.h = .ok raw) (hp' : marshalProtected sg'.h = .ok raw')
    (hs : IsBstrEncoding raw sc) (hs' : IsBstrEncoding raw' sc')
    (hpl : blen payload < 2^64) (hpl' : blen payload' < 2^64)
    (he : blen ext < 2^64) (he' : blen ext' < 2^64) :
    bc = bc' ∧ sc = sc' ∧ payload = payload' ∧ ext.getD [] = ext'.getD [] := by
  obtain ⟨pl, b, r, d, hpay, hbb, hr, hd, hv⟩ := verifySig_ok_rfc h1
  obtain ⟨pl', b', r', d', hpay', hbb', hr', hd', hv'⟩ := verifySig_ok_rfc h2
  rw [hp] at hr; cases hr
  rw [hp'] at hr'; cases hr'
  cases isBstrEncoding_content_unique hb hbb
  cases isBstrEncoding_content_unique hb' hbb'
  cases isBstrEncoding_content_unique hs hd
  cases isBstrEncoding_content_unique hs' hd'
  rw [← hsig] at hv'
  have ht := hu _ _ _ hv hv'
  have l1 := isBstrEncoding_length hb
  have l2 := isBstrEncoding_length hb'
  have l3 := isBstrEncoding_length hs
  have l4 := isBstrEncoding_length hs'
  simp only [blen, hpay, hpay', Option.getD_some] at hpl hpl' he he'
  obtain ⟨h1, h2, h3, h4⟩ := C02.sig_binding bc sc (ext.getD []) pl bc' sc' (ext'.getD []) pl'
    (by omega) (by omega) he hpl (by omega) (by omega) he' hpl' ht
  exact ⟨h1, h2, by rw [hpay, hpay', h4], h3⟩

end C03

namespace C10
open C02 C03

/-- a full-form Countersign_structure never equals an abbreviated-form one, whatever the parents,
    protected buckets and external data on the two sides (the context strings differ, or the
    array lengths do) -/
theorem ctbsBytes_full_ne_abbrev_any (o o' : Option Bytes) (bp sp ext bp' sp' ext' : Bytes)
    (pl pl' : Option Bytes) :
    ctbsBytes false o bp sp ext pl ≠ ctbsBytes true o' bp' sp' ext' pl' := by
  intro h
  cases o <;> cases o' <;>
    simp only [ctbsBytes, ctxOf, encHead_4_5, encHead_4_6, encTstr_ctxCounterSignature,
      encTstr_ctxCounterSignature0, encTstr_ctxCounterSignatureV2, encTstr_ctxCounterSignature0V2,
      List.cons_append, List.nil_append] at h <;>
    first
      | exact absurd (List.cons.inj h).1 (by decide)
      | exact absurd (List.cons.inj (List.cons.inj h).2).1 (by decide)

theorem ctbs_full_ne_abbrev_any (parent parent' : Parent) (sp sp' : Bytes) (ext ext' : Option Bytes)
    (t t' : Bytes) (h : countersignToBeSigned false parent sp ext = .ok t)
    (h' : countersignToBeSigned true parent' sp' ext' = .ok t') : t ≠ t' := by
  obtain ⟨o, pl, bp, s1, hall⟩ := ctbs_ok_shape h
  obtain ⟨o', pl', bp', s1', hall'⟩ := ctbs_ok_shape h'
  rw [hall false] at h
  rw [hall' true] at h'
  rw [← Out.ok.inj h, ← Out.ok.inj h']
  exact ctbsBytes_full_ne_abbrev_any _ _ _ _ _ _ _ _ _ _

/-- whenever `countersignToBeSigned` succeeds on a COSE_Sign1 parent, the result is the RFC 9338
    Countersign_structure (V2 form: the parent's signature is in `other_fields`) -/
theorem ctbs_sign1_ok_inv {abbr : Bool} {m : Sign1Msg} {sp : Bytes} {ext : Option Bytes} {t : Bytes}
    (h : countersignToBeSigned abbr (.sign1 m) sp ext = .ok t) :
    ∃ raw bc sc pl sig, marshalProtected m.h = .ok raw ∧ IsBstrEncoding raw bc ∧
      IsBstrEncoding sp sc ∧ m.payload = some pl ∧ m.sig = some sig ∧ sig ≠ [] ∧
      t = detEnc (countersignStructure (if abbr then "CounterSignature0V2" else "CounterSignatureV2")
        bc sc (ext.getD []) pl (some sig)) := by
  have h0 := h
  simp only [countersignToBeSigned] at h
  by_cases hz : blen m.sig = 0
  · simp [hz] at h
  · cases hP : marshalProtected m.h with
    | ok raw =>
      cases hpl : m.payload with
      | none => simp [hz, hP, hpl] at h
      | some pl =>
        cases hb : detBstr raw with
        | ok bp =>
          cases hs : detBstr sp with
          | ok sp' =>
            obtain ⟨bc, hbc, hbl, -⟩ := detBstr_ok_inv _ _ hb
            obtain ⟨sc, hsc, hsl, -⟩ := detBstr_ok_inv _ _ hs
            cases hsg : m.sig with
            | none => simp [blen, hsg] at hz
            | some sig =>
              have hne : sig ≠ [] := by
                intro hc; rw [hsg, hc] at hz; exact hz rfl
              refine ⟨raw, bc, sc, pl, sig, rfl, hbc, hsc, rfl, rfl, hne, ?_⟩
              have := ctbs_eq_rfc_sign1 abbr m sp ext raw bc sc pl sig hP hbc hsc hbl hsl hpl hsg hne
              rw [h0] at this
              exact Out.ok.inj this
          | err e => simp [hz, hP, hpl, hb, hs] at h
          | panic => simp [hz, hP, hpl, hb, hs] at h
          | unmodelled => simp [hz, hP, hpl, hb, hs] at h
        | err e => simp [hz, hP, hpl, hb] at h
        | panic => simp [hz, hP, hpl, hb] at h
        | unmodelled => simp [hz, hP, hpl, hb] at h
    | err e => simp [hz, hP] at h
    | panic => simp [hz, hP] at h
    | unmodelled => simp [hz, hP] at h

theorem ctxV2_len : (utf8 "CounterSignatureV2").length < 2^64 := by
  show ctxCounterSignatureV2.length < 2^64
  rw [ctxCounterSignatureV2_bytes]; decide

/-- 4 (general form). Two countersignature values carrying the same signature bytes verify, under
    a unique verifier, against COSE_Sign1 parents `m`, `m'` with external data `ext`, `ext'`.
    Then the parents' protected content, payloads and signatures, the external data and the
    countersigners' protected content all coincide. -/
theorem csig_binds_all (cs cs' : SigV) (v : Verifier) (hu : Unique v) (m m' : Sign1Msg)
    (ext ext' : Option Bytes) (hsig : cs.sig = cs'.sig)
    (h1 : (Countersignature.verify cs v (.sign1 m) ext).1 = .ok ())
    (h2 : (Countersignature.verify cs' v (.sign1 m') ext').1 = .ok ())
    (c c' raw raw' : Bytes)
    (hp : marshalProtected m.h = .ok raw) (hp' : marshalProtected m'.h = .ok raw')
    (hc : IsBstrEncoding raw c) (hc' : IsBstrEncoding raw' c')
    (hpl : blen m.payload < 2^64) (hpl' : blen m'.payload < 2^64)
    (hsl : blen m.sig < 2^64) (hsl' : blen m'.sig < 2^64)
    (he : blen ext < 2^64) (he' : blen ext' < 2^64) :
    c = c' ∧ m.payload = m'.payload ∧ m.sig = m'.sig ∧ ext.getD [] = ext'.getD [] ∧
    ∀ sraw sraw' sc sc', marshalProtected cs.h = .ok sraw → marshalProtected cs'.h = .ok sraw' →
      IsBstrEncoding sraw sc → IsBstrEncoding sraw' sc' → sc = sc' := by
  obtain ⟨-, -, t, ht, hv⟩ := (verifyCsig_iff cs v _ ext).mp h1
  obtain ⟨-, -, t', ht', hv'⟩ := (verifyCsig_iff cs' v _ ext').mp h2
  obtain ⟨sp, hsp, hct⟩ := ctbs_of_ok ht
  obtain ⟨sp', hsp', hct'⟩ := ctbs_of_ok ht'
  obtain ⟨r, bc, sc, pl, sig, hr, hbc, hsc, hpay, hsg, -, rfl⟩ := ctbs_sign1_ok_inv hct
  obtain ⟨r', bc', sc', pl', sig', hr', hbc', hsc', hpay', hsg', -, rfl⟩ := ctbs_sign1_ok_inv hct'
  rw [hp] at hr; cases hr
  rw [hp'] at hr'; cases hr'
  cases isBstrEncoding_content_unique hc hbc
  cases isBstrEncoding_content_unique hc' hbc'
  rw [← hsig] at hv'
  have hteq := hu _ _ _ hv hv'
  have l1 := isBstrEncoding_length hc
  have l2 := isBstrEncoding_length hc'
  have l3 := isBstrEncoding_length hsc
  have l4 := isBstrEncoding_length hsc'
  simp only [blen, hpay, hpay', hsg, hsg', Option.getD_some] at hpl hpl' hsl hsl' he he'
  simp only [Bool.false_eq_true, if_false] at hteq
  obtain ⟨-, a1, a2, a3, a4, a5⟩ := countersign_binding _ _ c sc (ext.getD []) pl c' sc'
    (ext'.getD []) pl' (some sig) (some sig') ctxV2_len ctxV2_len (by omega) (by omega) he hpl
    (by omega) (by omega) he' hpl'
    (by intro x hx; cases hx; exact hsl) (by intro x hx; cases hx; exact hsl') hteq
  refine ⟨a1, by rw [hpay, hpay', a4], by rw [hsg, hsg', Option.some.inj a5], a3, ?_⟩
  intro sraw sraw' s1 s1' e1 e1' i1 i1'
  rw [hsp] at e1; cases e1
  rw [hsp'] at e1'; cases e1'
  rw [isBstrEncoding_content_unique i1 hsc, isBstrEncoding_content_unique i1' hsc']
  exact a2

/-- 4. one countersignature value (fixed headers and signature bytes) that verifies against two
    COSE_Sign1 parents: the parents agree on protected content, payload and signature, and the
    external data agree -/
theorem csig_binds_parent (cs : SigV) (v : Verifier) (hu : Unique v) (m m' : Sign1Msg)
    (ext ext' : Option Bytes)
    (h1 : (Countersignature.verify cs v (.sign1 m) ext).1 = .ok ())
    (h2 : (Countersignature.verify cs v (.sign1 m') ext').1 = .ok ())
    (c c' raw raw' : Bytes)
    (hp : marshalProtected m.h = .ok raw) (hp' : marshalProtected m'.h = .ok raw')
    (hc : IsBstrEncoding raw c) (hc' : IsBstrEncoding raw' c')
    (hpl : blen m.payload < 2^64) (hpl' : blen m'.payload < 2^64)
    (hsl : blen m.sig < 2^64) (hsl' : blen m'.sig < 2^64)
    (he : blen ext < 2^64) (he' : blen ext' < 2^64) :
    c = c' ∧ m.payload = m'.payload ∧ m.sig = m'.sig ∧ ext.getD [] = ext'.getD [] := by
  obtain ⟨a, b, d, e, -⟩ := csig_binds_all cs cs v hu m m' ext ext' rfl h1 h2 c c' raw raw' hp hp'
    hc hc' hpl hpl' hsl hsl' he he'
  exact ⟨a, b, d, e⟩

/-- the signature bytes of a verifying full countersignature never verify through
    `VerifyCountersign0` — for the same parent or any other, any external data -/
theorem csig_full_not_abbrev (cs : SigV) (v : Verifier) (hu : Unique v) (parent parent' : Parent)
    (ext ext' : Option Bytes) (h1 : (Countersignature.verify cs v parent ext).1 = .ok ()) :
    (verifyCountersign0 v parent' ext' (cs.sig.getD [])).1 ≠ .ok () := by
  intro h2
  obtain ⟨-, -, t, ht, hv⟩ := (verifyCsig_iff cs v parent ext).mp h1
  obtain ⟨sp, -, hct⟩ := ctbs_of_ok ht
  obtain ⟨t', hct', hv'⟩ := (verifyCsign0_iff v parent' ext' _).mp h2
  exact ctbs_full_ne_abbrev_any parent parent' sp _ ext ext' t t' hct hct' (hu _ _ _ hv hv')

/-- and conversely: an abbreviated countersignature never verifies as a full one -/
theorem csig_abbrev_not_full (cs : SigV) (v : Verifier) (hu : Unique v) (parent parent' : Parent)
    (ext ext' : Option Bytes)
    (h1 : (verifyCountersign0 v parent ext (cs.sig.getD [])).1 = .ok ()) :
    (Countersignature.verify cs v parent' ext').1 ≠ .ok () :=
  fun h2 => csig_full_not_abbrev cs v hu parent' parent ext' ext h2 h1

end C10

namespace C04

/-! The other structures go through the same two functions `ensureSigningAlgorithm` /
    `ensureVerificationAlgorithm` as COSE_Sign1, before ToBeSigned is built and before the key is
    used: every call of the key implies the gate had passed. -/

theorem signature_call_implies_gate (sg : SigV) (s : Signer) (bprot : Bytes)
    (payload ext : Option Bytes) (h : (Signature.sign sg s bprot payload ext).calls ≠ []) :
    ∃ p', ensureSigningAlgorithm sg.h.rawP sg.h.p s.alg ext = .ok p' := by
  unfold Signature.sign at h
  by_cases hp : payload.isNone
  · simp [hp] at h
  · by_cases hs : blen sg.sig > 0
    · simp [hp, hs] at h
    · by_cases hb : bodyProtOK bprot
      · simp only [hp, hs, hb, if_false, Bool.not_true, Bool.false_eq_true] at h
        cases hg : ensureSigningAlgorithm sg.h.rawP sg.h.p s.alg ext with
        | ok p' => exact ⟨p', rfl⟩
        | err e => simp [hg] at h
        | panic => simp [hg] at h
        | unmodelled => simp [hg] at h
      · simp [hp, hs, hb] at h

theorem signature_verify_call_implies_gate (sg : SigV) (v : Verifier) (bprot : Bytes)
    (payload ext : Option Bytes) (h : (Signature.verify sg v bprot payload ext).2 ≠ []) :
    ensureVerificationAlgorithm sg.h.p v.alg ext = .ok () := by
  unfold Signature.verify at h
  by_cases hp : payload.isNone
  · simp [hp] at h
  · by_cases hs : blen sg.sig = 0
    · simp [hp, hs] at h
    · by_cases hb : bodyProtOK bprot
      · simp only [hp, hs, hb, if_false, Bool.not_true, Bool.false_eq_true] at h
        cases hg : ensureVerificationAlgorithm sg.h.p v.alg ext with
        | ok u => cases u; rfl
        | err e => simp [hg] at h
        | panic => simp [hg] at h
        | unmodelled => simp [hg] at h
      · simp [hp, hs, hb] at h

theorem countersignature_call_implies_gate (cs : SigV) (s : Signer) (parent : Parent)
    (ext : Option Bytes) (h : (Countersignature.sign cs s parent ext).calls ≠ []) :
    ∃ p', ensureSigningAlgorithm cs.h.rawP cs.h.p s.alg ext = .ok p' := by
  unfold Countersignature.sign at h
  by_cases hs : blen cs.sig > 0
  · simp [hs] at h
  · simp only [hs, if_false] at h
    cases hg : ensureSigningAlgorithm cs.h.rawP cs.h.p s.alg ext with
    | ok p' => exact ⟨p', rfl⟩
    | err e => simp [hg] at h
    | panic => simp [hg] at h
    | unmodelled => simp [hg] at h

theorem countersignature_verify_call_implies_gate (cs : SigV) (v : Verifier) (parent : Parent)
    (ext : Option Bytes) (h : (Countersignature.verify cs v parent ext).2 ≠ []) :
    ensureVerificationAlgorithm cs.h.p v.alg ext = .ok () := by
  unfold Countersignature.verify at h
  by_cases hs : blen cs.sig = 0
  · simp [hs] at h
  · simp only [hs, if_false] at h
    cases hg : ensureVerificationAlgorithm cs.h.p v.alg ext with
    | ok u => cases u; rfl
    | err e => simp [hg] at h
    | panic => simp [hg] at h
    | unmodelled => simp [hg] at h

/-- 5a. COSE_Signature, signing: with an integer alg different from the signer's, the mismatch
    error is returned, the key is never invoked and the slot is left untouched -/
theorem signature_mismatch_no_call (sg : SigV) (s : Signer) (bprot : Bytes)
    (payload ext : Option Bytes) (c : Int)
    (hp : payload.isSome) (hs : blen sg.sig = 0) (hb : bodyProtOK bprot = true)
    (h : algorithmOf sg.h.p = .found c) (hne : c ≠ s.alg) :
    (Signature.sign sg s bprot payload ext).out = .err .algMismatch ∧
    (Signature.sign sg s bprot payload ext).calls = [] ∧
    (Signature.sign sg s bprot payload ext).state = sg := by
  have hp' : payload.isNone = false := by cases payload <;> simp_all
  simp [Signature.sign, hp', hs, hb, sign_mismatch _ _ _ _ _ h hne]

/-- 5a'. COSE_Signature, verification: the verifier is never invoked and the result is not
    success (no preconditions); it is the mismatch error when the argument checks pass -/
theorem signature_verify_mismatch_no_call (sg : SigV) (v : Verifier) (bprot : Bytes)
    (payload ext : Option Bytes) (c : Int)
    (h : algorithmOf sg.h.p = .found c) (hne : c ≠ v.alg) :
    (Signature.verify sg v bprot payload ext).2 = [] ∧
    (Signature.verify sg v bprot payload ext).1 ≠ .ok () ∧
    (payload.isSome → blen sg.sig ≠ 0 → bodyProtOK bprot = true →
      (Signature.verify sg v bprot payload ext).1 = .err .algMismatch) := by
  have hg := verify_mismatch _ _ _ ext h hne
  refine ⟨?_, ?_, ?_⟩
  · apply Classical.byContradiction
    intro hc
    have := signature_verify_call_implies_gate sg v bprot payload ext hc
    rw [hg] at this; cases this
  · intro hc
    have := ((C03.verifySig_iff sg v bprot payload ext).mp hc).2.2.2.1
    rw [hg] at this; cases this
  · intro hp hs hb
    have hp' : payload.isNone = false := by cases payload <;> simp_all
    simp [Signature.verify, hp', hs, hb, hg]

/-- 5b. countersignature, signing -/
theorem countersignature_mismatch_no_call (cs : SigV) (s : Signer) (parent : Parent)
    (ext : Option Bytes) (c : Int) (hs : blen cs.sig = 0)
    (h : algorithmOf cs.h.p = .found c) (hne : c ≠ s.alg) :
    (Countersignature.sign cs s parent ext).out = .err .algMismatch ∧
    (Countersignature.sign cs s parent ext).calls = [] ∧
    (Countersignature.sign cs s parent ext).state = cs := by
  simp [Countersignature.sign, hs, sign_mismatch _ _ _ _ _ h hne]

/-- 5b'. countersignature, verification -/
theorem countersignature_verify_mismatch_no_call (cs : SigV) (v : Verifier) (parent : Parent)
    (ext : Option Bytes) (c : Int)
    (h : algorithmOf cs.h.p = .found c) (hne : c ≠ v.alg) :
    (Countersignature.verify cs v parent ext).2 = [] ∧
    (Countersignature.verify cs v parent ext).1 ≠ .ok () ∧
    (blen cs.sig ≠ 0 → (Countersignature.verify cs v parent ext).1 = .err .algMismatch) := by
  have hg := verify_mismatch _ _ _ ext h hne
  refine ⟨?_, ?_, ?_⟩
  · apply Classical.byContradiction
    intro hc
    have := countersignature_verify_call_implies_gate cs v parent ext hc
    rw [hg] at this; cases this
  · intro hc
    have := ((C03.verifyCsig_iff cs v parent ext).mp hc).2.1
    rw [hg] at this; cases this
  · intro hs
    simp [Countersignature.verify, hs, hg]

/-- 5c. `SignHashEnvelope`: the emitted bytes are the serialisation of a COSE_Sign1 state whose
    protected map passes the verification gate for the signer's algorithm — with no external
    data this means the alg found in the emitted protected map is the signer's -/
theorem henv_alg_gate (s : Signer) (h : Hdrs) (p : HashPayload) (b : Bytes)
    (hs : (signHashEnvelope s h p).1 = .ok b) :
    ∃ u st, st = (Sign1.sign { h := { h with p := setHashEnvelopeProtectedHeader h.p p,
                                              rawP := none, u := u },
                               payload := p.value, sig := none } none s).state ∧
      Sign1.marshal true st = .ok b ∧
      ensureVerificationAlgorithm st.h.p s.alg none = .ok () ∧
      algorithmOf st.h.p = .found s.alg := by
  obtain ⟨u, -, -, hh⟩ := C01.signHashEnvelope_ok_inv s h p b hs
  obtain ⟨hok, hm⟩ := C01.sign1Helper_ok_inv true _ _ _ s b hh
  obtain ⟨p', tbs, sig, -, hgate, -, -, hst⟩ := C01.sign1_sign_ok_inv _ none s hok
  have hv := C01.gate_after_sign _ _ _ _ _ hgate (C01.algorithmOf_set _ _)
  refine ⟨u, _, rfl, hm, ?_, ?_⟩
  · rw [hst]; exact hv
  · rw [hst]
    rcases (verify_gate_iff _ _ _).mp hv with hf | ⟨-, hl⟩
    · exact hf
    · simp at hl

end C04

namespace C20

/-- Sign1, the precise outcome: once the signer was reached, its error is what is returned -/
theorem sign1_fault_err (m : Sign1Msg) (ext : Option Bytes) (s : Signer) (e : Err)
    (hs : ∀ tbs, s.sign tbs = .err e) (hc : (Sign1.sign m ext s).calls ≠ []) :
    (Sign1.sign m ext s).out = .err e := by
  unfold Sign1.sign at hc ⊢
  by_cases hp : m.payload.isNone
  · simp [hp] at hc
  · by_cases hg : blen m.sig > 0
    · simp [hp, hg] at hc
    · simp only [hp, hg, if_false, Bool.false_eq_true] at hc ⊢
      cases hgate : ensureSigningAlgorithm m.h.rawP m.h.p s.alg ext with
      | ok p' =>
        simp only [hgate] at hc ⊢
        cases ht : Sign1.toBeSigned { m with h := { m.h with p := p' } } ext with
        | ok tbs => simp [hs tbs]
        | err e' => simp [ht] at hc
        | panic => simp [ht] at hc
        | unmodelled => simp [ht] at hc
      | err e' => simp [hgate] at hc
      | panic => simp [hgate] at hc
      | unmodelled => simp [hgate] at hc

/-- 6a. COSE_Signature with a failing signer: never success; the signer's error once the signer
    was reached; no signature stored -/
theorem signature_fault (sg : SigV) (s : Signer) (bprot : Bytes) (payload ext : Option Bytes)
    (e : Err) (hs : ∀ tbs, s.sign tbs = .err e) :
    (Signature.sign sg s bprot payload ext).out ≠ .ok () ∧
    ((Signature.sign sg s bprot payload ext).calls ≠ [] →
      (Signature.sign sg s bprot payload ext).out = .err e) ∧
    (Signature.sign sg s bprot payload ext).state.sig = sg.sig := by
  have key : (Signature.sign sg s bprot payload ext).out ≠ .ok () ∧
      ((Signature.sign sg s bprot payload ext).calls ≠ [] →
        (Signature.sign sg s bprot payload ext).out = .err e) := by
    unfold Signature.sign
    by_cases hp : payload.isNone
    · simp [hp]
    · by_cases hg : blen sg.sig > 0
      · simp [hp, hg]
      · by_cases hb : bodyProtOK bprot
        · simp only [hp, hg, hb, if_false, Bool.false_eq_true, Bool.not_true]
          cases ensureSigningAlgorithm sg.h.rawP sg.h.p s.alg ext with
          | ok p' =>
            simp only []
            cases Signature.toBeSigned { sg with h := { sg.h with p := p' } } bprot payload ext with
            | ok tbs => simp [hs tbs]
            | err e' => simp
            | panic => simp
            | unmodelled => simp
          | err e' => simp
          | panic => simp
          | unmodelled => simp
        · simp [hp, hg, hb]
  exact ⟨key.1, key.2, signature_sign_fail_keeps_sig sg s bprot payload ext key.1⟩

/-- 6b. full countersignature with a failing signer -/
theorem countersignature_fault (cs : SigV) (s : Signer) (parent : Parent) (ext : Option Bytes)
    (e : Err) (hs : ∀ tbs, s.sign tbs = .err e) :
    (Countersignature.sign cs s parent ext).out ≠ .ok () ∧
    ((Countersignature.sign cs s parent ext).calls ≠ [] →
      (Countersignature.sign cs s parent ext).out = .err e) ∧
    (Countersignature.sign cs s parent ext).state.sig = cs.sig := by
  unfold Countersignature.sign
  by_cases hg : blen cs.sig > 0
  · simp [hg]
  · simp only [hg, if_false]
    cases ensureSigningAlgorithm cs.h.rawP cs.h.p s.alg ext with
    | ok p' =>
      simp only []
      cases Countersignature.toBeSigned { cs with h := { cs.h with p := p' } } parent ext with
      | ok tbs => simp [hs tbs]
      | err e' => simp
      | panic => simp
      | unmodelled => simp
    | err e' => simp
    | panic => simp
    | unmodelled => simp

/-- 6c. `Countersign0` with a failing signer: no bytes are returned; the signer's error once the
    signer was reached -/
theorem countersign0_fault (s : Signer) (parent : Parent) (ext : Option Bytes)
    (e : Err) (hs : ∀ tbs, s.sign tbs = .err e) :
    (∀ b, (countersign0 s parent ext).1 ≠ .ok b) ∧
    ((countersign0 s parent ext).2 ≠ [] → (countersign0 s parent ext).1 = .err e) := by
  unfold countersign0
  cases countersignToBeSigned true parent [0x40] ext with
  | ok tbs => simp [hs tbs]
  | err e' => simp
  | panic => simp
  | unmodelled => simp

/-- 6d. the `Sign1` / `Sign1Untagged` helpers with a failing signer -/
theorem sign1Helper_fault (tagged : Bool) (h : Hdrs) (payload ext : Option Bytes) (s : Signer)
    (e : Err) (hs : ∀ tbs, s.sign tbs = .err e) :
    (∀ b, (sign1Helper tagged h payload ext s).1 ≠ .ok b) ∧
    ((sign1Helper tagged h payload ext s).2 ≠ [] →
      (sign1Helper tagged h payload ext s).1 = .err e) := by
  have h1 := (sign1_fault { h := h, payload := payload, sig := none } ext s e hs).1
  have h2 := sign1_fault_err { h := h, payload := payload, sig := none } ext s e hs
  unfold sign1Helper
  cases ho : (Sign1.sign { h := h, payload := payload, sig := none } ext s).out with
  | ok u => cases u; exact absurd ho h1
  | err e' =>
    simp only [ho] at h2 ⊢
    exact ⟨fun b hc => (nomatch hc), fun hc => by cases h2 hc; rfl⟩
  | panic =>
    simp only [ho] at h2 ⊢
    exact ⟨fun b hc => (nomatch hc), fun hc => (nomatch h2 hc)⟩
  | unmodelled =>
    simp only [ho] at h2 ⊢
    exact ⟨fun b hc => (nomatch hc), fun hc => (nomatch h2 hc)⟩

/-- `SignHashEnvelope` either stops before signing (no call, not ok) or is the `Sign1` helper on
    the amended headers -/
theorem signHashEnvelope_cases (s : Signer) (h : Hdrs) (p : HashPayload) :
    (∃ x, signHashEnvelope s h p = (x, []) ∧ ∀ b, x ≠ .ok b) ∨
    ∃ u, signHashEnvelope s h p =
      sign1Helper true { h with p := setHashEnvelopeProtectedHeader h.p p, rawP := none, u := u }
        p.value none s := by
  unfold signHashEnvelope
  split
  · exact .inl ⟨_, rfl, fun b hc => nomatch hc⟩
  · dsimp only
    split
    · split
      · exact .inl ⟨_, rfl, fun b hc => nomatch hc⟩
      · exact .inr ⟨_, rfl⟩
    · exact .inl ⟨_, rfl, fun b hc => nomatch hc⟩
    · exact .inl ⟨_, rfl, fun b hc => nomatch hc⟩
    · exact .inl ⟨_, rfl, fun b hc => nomatch hc⟩

/-- 6d'. `SignHashEnvelope` with a failing signer -/
theorem henv_fault (s : Signer) (h : Hdrs) (p : HashPayload)
    (e : Err) (hs : ∀ tbs, s.sign tbs = .err e) :
    (∀ b, (signHashEnvelope s h p).1 ≠ .ok b) ∧
    ((signHashEnvelope s h p).2 ≠ [] → (signHashEnvelope s h p).1 = .err e) := by
  rcases signHashEnvelope_cases s h p with ⟨x, hx, hne⟩ | ⟨u, hu⟩
  · rw [hx]; exact ⟨hne, fun hc => absurd rfl hc⟩
  · rw [hu]; exact sign1Helper_fault true _ _ _ s e hs

/-! ### verifier errors -/

/-- whatever the verifier returns for the single (content, signature) pair it is handed is the
    result; if it is handed nothing, the result is not success -/
theorem verifySig_calls (sg : SigV) (v : Verifier) (bprot : Bytes) (payload ext : Option Bytes) :
    ((Signature.verify sg v bprot payload ext).2 = [] ∧
      (Signature.verify sg v bprot payload ext).1 ≠ .ok ()) ∨
    ∃ t, (Signature.verify sg v bprot payload ext).2 = [t] ∧
      (Signature.verify sg v bprot payload ext).1 = v.verify t (sg.sig.getD []) := by
  unfold Signature.verify
  by_cases hp : payload.isNone
  · simp [hp]
  · by_cases hs : blen sg.sig = 0
    · simp [hp, hs]
    · by_cases hb : bodyProtOK bprot
      · simp only [hp, hs, hb, if_false, Bool.false_eq_true, Bool.not_true]
        cases ensureVerificationAlgorithm sg.h.p v.alg ext with
        | ok u =>
          simp only []
          cases Signature.toBeSigned sg bprot payload ext with
          | ok t => simp
          | err e => simp
          | panic => simp
          | unmodelled => simp
        | err e => simp
        | panic => simp
        | unmodelled => simp
      · simp [hp, hs, hb]

theorem verifyCsig_calls (cs : SigV) (v : Verifier) (parent : Parent) (ext : Option Bytes) :
    ((Countersignature.verify cs v parent ext).2 = [] ∧
      (Countersignature.verify cs v parent ext).1 ≠ .ok ()) ∨
    ∃ t, (Countersignature.verify cs v parent ext).2 = [t] ∧
      (Countersignature.verify cs v parent ext).1 = v.verify t (cs.sig.getD []) := by
  unfold Countersignature.verify
  by_cases hs : blen cs.sig = 0
  · simp [hs]
  · simp only [hs, if_false]
    cases ensureVerificationAlgorithm cs.h.p v.alg ext with
    | ok u =>
      simp only []
      cases Countersignature.toBeSigned cs parent ext with
      | ok t => simp
      | err e => simp
      | panic => simp
      | unmodelled => simp
    | err e => simp
    | panic => simp
    | unmodelled => simp

theorem verifyCsign0_calls (v : Verifier) (parent : Parent) (ext : Option Bytes) (sig : Bytes) :
    ((verifyCountersign0 v parent ext sig).2 = [] ∧
      (verifyCountersign0 v parent ext sig).1 ≠ .ok ()) ∨
    ∃ t, (verifyCountersign0 v parent ext sig).2 = [t] ∧
      (verifyCountersign0 v parent ext sig).1 = v.verify t sig := by
  unfold verifyCountersign0
  cases countersignToBeSigned true parent [0x40] ext with
  | ok t => simp
  | err e => simp
  | panic => simp
  | unmodelled => simp

/-- 6e. a verifier that returns `.err e` for every input: no entry point reports success, and
    each reports exactly `.err e` once the verifier was reached -/
theorem verify_error_propagates_all (v : Verifier) (e : Err) (hv : ∀ t s, v.verify t s = .err e) :
    (∀ sg bprot payload ext,
      (Signature.verify sg v bprot payload ext).1 ≠ .ok () ∧
      ((Signature.verify sg v bprot payload ext).2 ≠ [] →
        (Signature.verify sg v bprot payload ext).1 = .err e)) ∧
    (∀ cs parent ext,
      (Countersignature.verify cs v parent ext).1 ≠ .ok () ∧
      ((Countersignature.verify cs v parent ext).2 ≠ [] →
        (Countersignature.verify cs v parent ext).1 = .err e)) ∧
    (∀ parent ext sig,
      (verifyCountersign0 v parent ext sig).1 ≠ .ok () ∧
      ((verifyCountersign0 v parent ext sig).2 ≠ [] →
        (verifyCountersign0 v parent ext sig).1 = .err e)) := by
  refine ⟨fun sg bprot payload ext => ?_, fun cs parent ext => ?_, fun parent ext sig => ?_⟩
  · rcases verifySig_calls sg v bprot payload ext with ⟨h1, h2⟩ | ⟨t, h1, h2⟩
    · exact ⟨h2, fun hc => absurd h1 hc⟩
    · rw [h2, hv]; exact ⟨fun hc => (nomatch hc), fun _ => rfl⟩
  · rcases verifyCsig_calls cs v parent ext with ⟨h1, h2⟩ | ⟨t, h1, h2⟩
    · exact ⟨h2, fun hc => absurd h1 hc⟩
    · rw [h2, hv]; exact ⟨fun hc => (nomatch hc), fun _ => rfl⟩
  · rcases verifyCsign0_calls v parent ext sig with ⟨h1, h2⟩ | ⟨t, h1, h2⟩
    · exact ⟨h2, fun hc => absurd h1 hc⟩
    · rw [h2, hv]; exact ⟨fun hc => (nomatch hc), fun _ => rfl⟩

/-! ### COSE_Sign -/

/-- when the signing loop reports a non-ok outcome there is a first failing index: every earlier
    slot was signed, the slot itself failed, its outcome is the loop's outcome, later slots are
    untouched, and the slot holds the state `Signature.sign` left -/
theorem signLoop_not_ok_has_first_failure (bprot : Bytes) (payload ext : Option Bytes) :
    ∀ (sgs : List SigV) (ss : List Signer),
      (signLoop bprot payload ext sgs ss).2.1 ≠ .ok () →
      ∃ (i : Nat) (h1 : i < sgs.length) (h2 : i < ss.length),
        (∀ j (hj1 : j < sgs.length) (hj2 : j < ss.length), j < i →
          (Signature.sign sgs[j] ss[j] bprot payload ext).out = .ok ()) ∧
        (Signature.sign sgs[i] ss[i] bprot payload ext).out ≠ .ok () ∧
        (signLoop bprot payload ext sgs ss).2.1 = (Signature.sign sgs[i] ss[i] bprot payload ext).out ∧
        (signLoop bprot payload ext sgs ss).1.drop (i + 1) = sgs.drop (i + 1) ∧
        (signLoop bprot payload ext sgs ss).1[i]? =
          some (Signature.sign sgs[i] ss[i] bprot payload ext).state
  | [], ss, h => by simp [signLoop] at h
  | _ :: _, [], h => by simp [signLoop] at h
  | sg :: sgs, s :: ss, h => by
    by_cases ho : (Signature.sign sg s bprot payload ext).out = .ok ()
    · have hrec : (signLoop bprot payload ext sgs ss).2.1 ≠ .ok () := by
        intro hc
        apply h
        unfold signLoop
        simp only [ho]
        exact hc
      obtain ⟨i, h1, h2, hbefore, hfail, -, -, hat⟩ :=
        signLoop_not_ok_has_first_failure bprot payload ext sgs ss hrec
      have hb' : ∀ j (hj1 : j < (sg :: sgs).length) (hj2 : j < (s :: ss).length), j < i + 1 →
          (Signature.sign (sg :: sgs)[j] (s :: ss)[j] bprot payload ext).out = .ok () := by
        intro j hj1 hj2 hlt
        cases j with
        | zero => simpa using ho
        | succ k =>
          simp only [List.getElem_cons_succ]
          exact hbefore k (by simpa using hj1) (by simpa using hj2) (by omega)
      have hi1 : i + 1 < (sg :: sgs).length := by simpa using h1
      have hi2 : i + 1 < (s :: ss).length := by simpa using h2
      have hf' : (Signature.sign (sg :: sgs)[i + 1] (s :: ss)[i + 1] bprot payload ext).out ≠ .ok () := by
        simpa using hfail
      have hff := signLoop_first_failure bprot payload ext (sg :: sgs) (s :: ss) (i + 1)
        hi1 hi2 hb' hf'
      refine ⟨i + 1, hi1, hi2, hb', hf', hff.1, hff.2, ?_⟩
      unfold signLoop
      simp only [ho, List.getElem_cons_succ]
      simpa using hat
    · have hb' : ∀ j (hj1 : j < (sg :: sgs).length) (hj2 : j < (s :: ss).length), j < 0 →
          (Signature.sign (sg :: sgs)[j] (s :: ss)[j] bprot payload ext).out = .ok () := by
        intro j _ _ hlt; omega
      have hf' : (Signature.sign (sg :: sgs)[0] (s :: ss)[0] bprot payload ext).out ≠ .ok () := by
        simpa using ho
      have hff := signLoop_first_failure bprot payload ext (sg :: sgs) (s :: ss) 0
        (by simp) (by simp) hb' hf'
      refine ⟨0, by simp, by simp, hb', hf', hff.1, hff.2, ?_⟩
      unfold signLoop
      cases hq : (Signature.sign sg s bprot payload ext).out with
      | ok u => cases u; exact absurd hq ho
      | err e => simp [hq]
      | panic => simp [hq]
      | unmodelled => simp [hq]

/-- a failed signing loop over unsigned slots leaves an unsigned slot -/
theorem signLoop_not_ok_leaves_empty_slot (bprot : Bytes) (payload ext : Option Bytes)
    (sgs : List SigV) (ss : List Signer)
    (h : (signLoop bprot payload ext sgs ss).2.1 ≠ .ok ())
    (h0 : ∀ s ∈ sgs, blen s.sig = 0) :
    ∃ s ∈ (signLoop bprot payload ext sgs ss).1, blen s.sig = 0 := by
  obtain ⟨i, h1, h2, -, hfail, -, -, hat⟩ :=
    signLoop_not_ok_has_first_failure bprot payload ext sgs ss h
  refine ⟨_, List.mem_of_getElem? hat, ?_⟩
  rw [signature_sign_fail_keeps_sig _ _ _ _ _ hfail]
  exact h0 _ (List.getElem_mem h1)

/-- 6f. a COSE_Sign whose signing failed (starting from unsigned slots) cannot be serialised:
    some slot is still empty.  (`m.sigs.length = signers.length` and `m.payload.isSome` are not
    needed: when they fail nothing was signed at all.) -/
theorem signmsg_fault_marshal (m : SignMsg) (ext : Option Bytes) (signers : List Signer)
    (h : (Sign.sign m ext signers).out ≠ .ok ())
    (h0 : ∀ s ∈ m.sigs, blen s.sig = 0) (hne : m.sigs ≠ []) :
    ∀ b, Sign.marshal (Sign.sign m ext signers).state ≠ .ok b := by
  have hm : ∃ s ∈ m.sigs, blen s.sig = 0 := by
    cases hq : m.sigs with
    | nil => exact absurd hq hne
    | cons a r => exact ⟨a, by simp, h0 a (by simp [hq])⟩
  suffices hx : ∃ s ∈ (Sign.sign m ext signers).state.sigs, blen s.sig = 0 by
    obtain ⟨s, hs, hz⟩ := hx
    exact C11.signmsg_no_empty_on_wire _ s hs hz
  unfold Sign.sign at h ⊢
  by_cases hp : m.payload.isNone
  · simpa [hp] using hm
  · by_cases he : m.sigs.isEmpty
    · simpa [hp, he] using hm
    · by_cases hl : m.sigs.length ≠ signers.length
      · simpa [hp, he, hl] using hm
      · simp only [hp, he, hl, if_false, Bool.false_eq_true] at h ⊢
        cases hb : marshalProtected m.h with
        | ok bprot =>
          simp only [hb] at h ⊢
          exact signLoop_not_ok_leaves_empty_slot bprot m.payload ext m.sigs signers h h0
        | err e => simpa using hm
        | panic => simpa using hm
        | unmodelled => simpa using hm

end C20

/-! ### the hypotheses are satisfiable -/
namespace TamperExamples
open TbsExamples

/-- the harness's transparent verifier with key id 7 -/
def tv : Verifier :=
  { alg := -7, verify := fun t sg => if sg = 1 :: 7 :: t then .ok () else .err .verification }

theorem tv_unique : C03.Unique tv := C03.unique_transparent (-7) 7

/-- `m1` (non-minimal protected bucket `58 01 a0`, payload 01 02 03) signed with the transparent
    scheme over external data 01 -/
def signed : Sign1Msg :=
  { m1 with sig := some (1 :: 7 :: detEnc (sigStructure1 [0xa0] [1] [1, 2, 3])) }

theorem signed_verifies : (Sign1.verify signed (some [1]) tv).1 = .ok () := by
  rw [C03.verify1_iff]
  refine ⟨rfl, by simp [signed, blen], by decide,
    detEnc (sigStructure1 [0xa0] [1] [1, 2, 3]), ?_, ?_⟩
  · exact C02.tbs1_eq_rfc signed (some [1]) [0x58, 0x01, 0xa0] [0xa0] [1, 2, 3] m1_protected
      ⟨.w1, by decide, rfl⟩ (by decide) rfl
  · simp [tv, signed]

/-- the same signature bytes on a message with another payload are rejected -/
example : (Sign1.verify { signed with payload := some [1, 2, 4] } (some [1]) tv).1 ≠ .ok () :=
  C03.tamper_sign1_rejected signed _ (some [1]) (some [1]) tv tv_unique rfl signed_verifies
    [0xa0] [0xa0] [0x58, 0x01, 0xa0] [0x58, 0x01, 0xa0] m1_protected m1_protected
    ⟨.w1, by decide, rfl⟩ ⟨.w1, by decide, rfl⟩ (by decide) (by decide) (by decide) (by decide)
    (.inr (.inl (by decide)))

/-- … and so are they with other external data, or when offered as a COSE_Signature or as an
    abbreviated countersignature -/
example : (Sign1.verify signed (some [2]) tv).1 ≠ .ok () :=
  C03.tamper_sign1_rejected signed signed (some [1]) (some [2]) tv tv_unique rfl signed_verifies
    [0xa0] [0xa0] [0x58, 0x01, 0xa0] [0x58, 0x01, 0xa0] m1_protected m1_protected
    ⟨.w1, by decide, rfl⟩ ⟨.w1, by decide, rfl⟩ (by decide) (by decide) (by decide) (by decide)
    (.inr (.inr (by decide)))

example (bprot : Bytes) (payload ext' : Option Bytes) :
    (Signature.verify { sig := signed.sig } tv bprot payload ext').1 ≠ .ok () :=
  C03.tamper_kind signed _ bprot payload (some [1]) ext' tv tv_unique rfl signed_verifies

example (parent : Parent) (ext' : Option Bytes) :
    (verifyCountersign0 tv parent ext' (1 :: 7 :: detEnc (sigStructure1 [0xa0] [1] [1, 2, 3]))).1
      ≠ .ok () :=
  (C03.tamper_kind_csig signed (some [1]) tv tv_unique signed_verifies).2 _ parent ext' rfl

end TamperExamples
