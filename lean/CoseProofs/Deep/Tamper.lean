/-
  CoseProofs.Deep.Tamper — tamper evidence (C03, C10), the algorithm gate for the remaining
  structures (C04) and fault behaviour of the remaining entry points (C20).

  Computational unforgeability is not a proposition about a function.  The idealisation used
  here: a verifier is `Unique` when it accepts at most one message per signature value.  Under a
  unique verifier, "the same signature verifies for two inputs" forces the two ToBeSigned byte
  strings to coincide, and the injectivity of the RFC structures (`C02.sig1_binding`,
  `C02.sig_binding`, `C10.countersign_binding`) then forces every signed field to coincide.
-/
import CoseSpec
import CoseModel.Messages
import CoseModel.HashEnvelope
import CoseProofs.Props.C01
import CoseProofs.Props.C03
import CoseProofs.Props.C04
import CoseProofs.Props.C11
import CoseProofs.Props.C20
import CoseProofs.Deep.Tbs
import CoseProofs.Deep.Chain
open CoseModel CoseSpec

namespace C03

/-- idealised unforgeability: at most one message is accepted per signature value -/
def Unique (v : Verifier) : Prop :=
  ∀ t t' s, v.verify t s = .ok () → v.verify t' s = .ok () → t = t'

/-- the transparent scheme of the test harness (sig = 0x01 ‖ keyid ‖ content) is unique -/
theorem unique_transparent (alg : Int) (keyid : UInt8) :
    Unique { alg := alg,
             verify := fun t sg => if sg = 1 :: keyid :: t then .ok () else .err .verification } := by
  intro t t' s h h'
  simp only at h h'
  split at h
  · rename_i hs
    split at h'
    · rename_i hs'
      rw [hs] at hs'
      exact (List.cons.inj (List.cons.inj hs').2).2
    · cases h'
  · cases h

/-- non-vacuity: `Unique` is a real restriction (a verifier accepting everything is not unique) -/
example : ¬ Unique { alg := -7, verify := fun _ _ => .ok () } := by
  intro h
  have := h [] [0] [] rfl rfl
  cases this

/-- a byte string item determines its content, whatever the head width -/
theorem isBstrEncoding_content_unique {raw c c' : Bytes}
    (h : IsBstrEncoding raw c) (h' : IsBstrEncoding raw c') : c = c' := by
  obtain ⟨w, hf, rfl⟩ := h
  obtain ⟨w', hf', he⟩ := h'
  have hw := wire_bytes_append_inj (t := false)
    (w := .bstr w c) (w' := .bstr w' c') (r := []) (r' := [])
    (by simpa [Wire.wf] using hf) (by simpa [Wire.wf] using hf')
    (by simp [Wire.inLimits]) (by simp [Wire.inLimits])
    (by simpa [Wire.bytes] using he)
  exact (Wire.bstr.inj hw.1).2

theorem isBstrEncoding_length {raw c : Bytes} (h : IsBstrEncoding raw c) :
    c.length < 18446744073709551616 := by
  obtain ⟨w, hf, -⟩ := h
  cases w <;> simp only [HW.fits, decide_eq_true_eq] at hf <;> omega

/-- whenever `Sign1.toBeSigned` succeeds on a message with a payload, the result is the RFC 9052
    Sig_structure over the content of the protected bucket -/
theorem tbs1_rfc_of_ok {m : Sign1Msg} {ext : Option Bytes} {t pl : Bytes}
    (h : Sign1.toBeSigned m ext = .ok t) (hpl : m.payload = some pl) :
    ∃ raw c, marshalProtected m.h = .ok raw ∧ IsBstrEncoding raw c ∧
      c.length < 18446744073709551616 ∧ t = detEnc (sigStructure1 c (ext.getD []) pl) := by
  obtain ⟨P, P', hP, hd, -⟩ := C01.toBeSigned1_ok_inv h
  obtain ⟨c, hc, hl, -⟩ := C02.detBstr_ok_inv P P' hd
  refine ⟨P, c, hP, hc, hl, ?_⟩
  have := C02.tbs1_eq_rfc m ext P c pl hP hc hl hpl
  rw [h] at this
  exact Out.ok.inj this

/-- the same for one signer of a COSE_Sign -/
theorem tbsSig_rfc_of_ok {s : SigV} {bprot : Bytes} {payload ext : Option Bytes} {t pl : Bytes}
    (h : Signature.toBeSigned s bprot payload ext = .ok t) (hpl : payload = some pl) :
    ∃ bc raw sc, IsBstrEncoding bprot bc ∧ bc.length < 18446744073709551616 ∧
      marshalProtected s.h = .ok raw ∧ IsBstrEncoding raw sc ∧
      sc.length < 18446744073709551616 ∧
      t = detEnc (sigStructure bc sc (ext.getD []) pl) := by
  have h0 := h
  unfold Signature.toBeSigned at h
  cases hb : detBstr bprot with
  | ok bp =>
    cases hP : marshalProtected s.h with
    | ok raw =>
      cases hd : detBstr raw with
      | ok sp =>
        obtain ⟨bc, hbc, hbl, -⟩ := C02.detBstr_ok_inv _ _ hb
        obtain ⟨sc, hsc, hsl, -⟩ := C02.detBstr_ok_inv _ _ hd
        refine ⟨bc, raw, sc, hbc, hbl, rfl, hsc, hsl, ?_⟩
        have := C02.tbsSig_eq_rfc s bprot payload ext bc raw sc pl hbc hbl hP hsc hsl hpl
        rw [h0] at this
        exact Out.ok.inj this
      | err e => simp [hb, hP, hd, bind, Out.bind] at h
      | panic => simp [hb, hP, hd, bind, Out.bind] at h
      | unmodelled => simp [hb, hP, hd, bind, Out.bind] at h
    | err e => simp [hb, hP, bind, Out.bind] at h
    | panic => simp [hb, hP, bind, Out.bind] at h
    | unmodelled => simp [hb, hP, bind, Out.bind] at h
  | err e => simp [hb, bind, Out.bind] at h
  | panic => simp [hb, bind, Out.bind] at h
  | unmodelled => simp [hb, bind, Out.bind] at h

/-- `Countersignature.toBeSigned` is `countersignToBeSigned false` on the marshalled protected
    bucket of the countersignature -/
theorem ctbs_of_ok {cs : SigV} {parent : Parent} {ext : Option Bytes} {t : Bytes}
    (h : Countersignature.toBeSigned cs parent ext = .ok t) :
    ∃ sp, marshalProtected cs.h = .ok sp ∧ countersignToBeSigned false parent sp ext = .ok t := by
  unfold Countersignature.toBeSigned at h
  cases hP : marshalProtected cs.h with
  | ok sp => refine ⟨sp, rfl, ?_⟩; simpa [hP, bind, Out.bind] using h
  | err e => simp [hP, bind, Out.bind] at h
  | panic => simp [hP, bind, Out.bind] at h
  | unmodelled => simp [hP, bind, Out.bind] at h

theorem isSome_inv {o : Option Bytes} (h : o.isSome = true) : ∃ b, o = some b := by
  cases o with
  | none => cases h
  | some b => exact ⟨b, rfl⟩

/-- what an accepting `Sign1.verify` handed to the verifier: the RFC Sig_structure -/
theorem verify1_ok_rfc {m : Sign1Msg} {ext : Option Bytes} {v : Verifier}
    (h : (Sign1.verify m ext v).1 = .ok ()) :
    ∃ pl raw c, m.payload = some pl ∧ marshalProtected m.h = .ok raw ∧ IsBstrEncoding raw c ∧
      v.verify (detEnc (sigStructure1 c (ext.getD []) pl)) (m.sig.getD []) = .ok () := by
  obtain ⟨hp, -, -, t, ht, hv⟩ := (verify1_iff m ext v).mp h
  obtain ⟨pl, hpl⟩ := isSome_inv hp
  obtain ⟨raw, c, hraw, hc, -, rfl⟩ := tbs1_rfc_of_ok ht hpl
  exact ⟨pl, raw, c, hpl, hraw, hc, hv⟩

theorem verifySig_ok_rfc {sg : SigV} {v : Verifier} {bprot : Bytes} {payload ext : Option Bytes}
    (h : (Signature.verify sg v bprot payload ext).1 = .ok ()) :
    ∃ pl bc raw sc, payload = some pl ∧ IsBstrEncoding bprot bc ∧
      marshalProtected sg.h = .ok raw ∧ IsBstrEncoding raw sc ∧
      v.verify (detEnc (sigStructure bc sc (ext.getD []) pl)) (sg.sig.getD []) = .ok () := by
  obtain ⟨hp, -, -, -, t, ht, hv⟩ := (verifySig_iff sg v bprot payload ext).mp h
  obtain ⟨pl, hpl⟩ := isSome_inv hp
  obtain ⟨bc, raw, sc, hbc, -, hraw, hsc, -, rfl⟩ := tbsSig_rfc_of_ok ht hpl
  exact ⟨pl, bc, raw, sc, hpl, hbc, hraw, hsc, hv⟩

/-- 1. COSE_Sign1: if one signature value verifies for two messages under a unique verifier, the
    content of the protected bucket, the payload and the external data coincide.  `c`, `c'` are
    the contents of the two protected byte strings (whatever head width they were received with). -/
theorem tamper_sign1 (m m' : Sign1Msg) (ext ext' : Option Bytes) (v : Verifier) (hu : Unique v)
    (hsig : m.sig = m'.sig)
    (h1 : (Sign1.verify m ext v).1 = .ok ()) (h2 : (Sign1.verify m' ext' v).1 = .ok ())
    (c c' raw raw' : Bytes)
    (hp : marshalProtected m.h = .ok raw) (hp' : marshalProtected m'.h = .ok raw')
    (hc : IsBstrEncoding raw c) (hc' : IsBstrEncoding raw' c')
    (hpl : blen m.payload < 2^64) (hpl' : blen m'.payload < 2^64)
    (he : blen ext < 2^64) (he' : blen ext' < 2^64) :
    c = c' ∧ m.payload = m'.payload ∧ ext.getD [] = ext'.getD [] := by
  obtain ⟨pl, r, d, hpay, hr, hd, hv⟩ := verify1_ok_rfc h1
  obtain ⟨pl', r', d', hpay', hr', hd', hv'⟩ := verify1_ok_rfc h2
  rw [hp] at hr; cases hr
  rw [hp'] at hr'; cases hr'
  cases isBstrEncoding_content_unique hc hd
  cases isBstrEncoding_content_unique hc' hd'
  rw [← hsig] at hv'
  have ht := hu _ _ _ hv hv'
  have hcl := isBstrEncoding_length hc
  have hcl' := isBstrEncoding_length hc'
  simp only [blen, hpay, hpay', Option.getD_some] at hpl hpl' he he'
  obtain ⟨h1, h2, h3⟩ := C02.sig1_binding c (ext.getD []) pl c' (ext'.getD []) pl'
    (by omega) he hpl (by omega) he' hpl' ht
  exact ⟨h1, by rw [hpay, hpay', h3], h2⟩

/-- the same without naming the protected bytes: both protected buckets exist and have one and
    the same content -/
theorem tamper_sign1_exists (m m' : Sign1Msg) (ext ext' : Option Bytes) (v : Verifier)
    (hu : Unique v) (hsig : m.sig = m'.sig)
    (h1 : (Sign1.verify m ext v).1 = .ok ()) (h2 : (Sign1.verify m' ext' v).1 = .ok ())
    (hpl : blen m.payload < 2^64) (hpl' : blen m'.payload < 2^64)
    (he : blen ext < 2^64) (he' : blen ext' < 2^64) :
    (∃ raw raw' c, marshalProtected m.h = .ok raw ∧ marshalProtected m'.h = .ok raw' ∧
      IsBstrEncoding raw c ∧ IsBstrEncoding raw' c) ∧
    m.payload = m'.payload ∧ ext.getD [] = ext'.getD [] := by
  obtain ⟨pl, r, d, -, hr, hd, -⟩ := verify1_ok_rfc h1
  obtain ⟨pl', r', d', -, hr', hd', -⟩ := verify1_ok_rfc h2
  obtain ⟨rfl, h2, h3⟩ := tamper_sign1 m m' ext ext' v hu hsig h1 h2 d d' r r' hr hr' hd hd'
    hpl hpl' he he'
  exact ⟨⟨r, r', d, hr, hr', hd, hd'⟩, h2, h3⟩

/-- contrapositive: a received message that differs from a verifying one in protected content,
    payload or external data (same signature bytes) is rejected -/
theorem tamper_sign1_rejected (m m' : Sign1Msg) (ext ext' : Option Bytes) (v : Verifier)
    (hu : Unique v) (hsig : m.sig = m'.sig) (h1 : (Sign1.verify m ext v).1 = .ok ())
    (c c' raw raw' : Bytes)
    (hp : marshalProtected m.h = .ok raw) (hp' : marshalProtected m'.h = .ok raw')
    (hc : IsBstrEncoding raw c) (hc' : IsBstrEncoding raw' c')
    (hpl : blen m.payload < 2^64) (hpl' : blen m'.payload < 2^64)
    (he : blen ext < 2^64) (he' : blen ext' < 2^64)
    (hdiff : c ≠ c' ∨ m.payload ≠ m'.payload ∨ ext.getD [] ≠ ext'.getD []) :
    (Sign1.verify m' ext' v).1 ≠ .ok () := by
  intro h2
  obtain ⟨a, b, d⟩ := tamper_sign1 m m' ext ext' v hu hsig h1 h2 c c' raw raw' hp hp' hc hc'
    hpl hpl' he he'
  rcases hdiff with h | h | h
  · exact h a
  · exact h b
  · exact h d

/-- 2. a COSE_Sign1 signature never verifies as a COSE_Signature of a COSE_Sign -/
theorem tamper_kind (m : Sign1Msg) (sg : SigV) (bprot : Bytes) (payload ext ext' : Option Bytes)
    (v : Verifier) (hu : Unique v) (hsig : m.sig = sg.sig)
    (h1 : (Sign1.verify m ext v).1 = .ok ()) :
    (Signature.verify sg v bprot payload ext').1 ≠ .ok () := by
  intro h2
  obtain ⟨pl, r, d, -, -, -, hv⟩ := verify1_ok_rfc h1
  obtain ⟨pl', bc, r', sc, -, -, -, -, hv'⟩ := verifySig_ok_rfc h2
  rw [← hsig] at hv'
  exact C02.kinds_separated _ _ _ _ _ _ _ (hu _ _ _ hv hv')

/-- 2'. … nor as a countersignature, full or abbreviated, on any parent -/
theorem tamper_kind_csig (m : Sign1Msg) (ext : Option Bytes) (v : Verifier) (hu : Unique v)
    (h1 : (Sign1.verify m ext v).1 = .ok ()) :
    (∀ (cs : SigV) (parent : Parent) (ext' : Option Bytes), cs.sig = m.sig →
      (Countersignature.verify cs v parent ext').1 ≠ .ok ()) ∧
    (∀ (s : Bytes) (parent : Parent) (ext' : Option Bytes), m.sig = some s →
      (verifyCountersign0 v parent ext' s).1 ≠ .ok ()) := by
  obtain ⟨pl, r, d, -, -, -, hv⟩ := verify1_ok_rfc h1
  constructor
  · intro cs parent ext' hsig h2
    obtain ⟨-, -, t, ht, hv'⟩ := (verifyCsig_iff cs v parent ext').mp h2
    obtain ⟨sp, -, hct⟩ := ctbs_of_ok ht
    rw [hsig] at hv'
    exact (C10.ctbs_ne_message_tbs false parent sp ext' t hct).1 _ _ _ (hu _ _ _ hv' hv)
  · intro s parent ext' hsig h2
    obtain ⟨t, hct, hv'⟩ := (verifyCsign0_iff v parent ext' s).mp h2
    rw [hsig] at hv
    exact (C10.ctbs_ne_message_tbs true parent _ ext' t hct).1 _ _ _ (hu _ _ _ hv' hv)

/-- 3. COSE_Signature of a COSE_Sign: the body protected content, the signer's protected
    content, the payload and the external data are all bound -/
theorem tamper_signature (sg sg' : SigV) (v : Verifier) (hu : Unique v)
    (bprot bprot' : Bytes) (payload payload' ext ext' : Option Bytes)
    (hsig : sg.sig = sg'.sig)
    (h1 : (Signature.verify sg v bprot payload ext).1 = .ok ())
    (h2 : (Signature.verify sg' v bprot' payload' ext').1 = .ok ())
    (bc bc' raw raw' sc sc' : Bytes)
    (hb : IsBstrEncoding bprot bc) (hb' : IsBstrEncoding bprot' bc')
    (hp : marshalProtected sg.h = .ok raw) (hp' : marshalProtected sg'.h = .ok raw')
    (hs : IsBstrEncoding raw sc) (hs' : IsBstrEncoding raw' sc')
    (hpl : blen payload < 2^64) (hpl' : blen payload' < 2^64)
    (he : blen ext < 2^64) (he' : blen ext' < 2^64) :
    bc = bc' ∧ sc = sc' ∧ payload = payload' ∧ ext.getD [] = ext'.getD [] := by
  obtain ⟨pl, b, r, d, hpay, hbb, hr, hd, hv⟩ := verifySig_ok_rfc h1
  obtain ⟨pl', b', r', d', hpay', hbb', hr', hd', hv'⟩ := verifySig_ok_rfc h2
  rw [hp] at hr; cases hr
  rw [hp'] at hr'; cases hr'
  cases isBstrEncoding_content_unique hb hbb
  cases isBstrEncoding_content_unique hb' hbb'
  cases isBstrEncoding_content_unique hs hd
  cases isBstrEncoding_content_unique hs' hd'
  rw [← hsig] at hv'
  have ht := hu _ _ _ hv hv'
  have l1 := isBstrEncoding_length hb
  have l2 := isBstrEncoding_length hb'
  have l3 := isBstrEncoding_length hs
  have l4 := isBstrEncoding_length hs'
  simp only [blen, hpay, hpay', Option.getD_some] at hpl hpl' he he'
  obtain ⟨h1, h2, h3, h4⟩ := C02.sig_binding bc sc (ext.getD []) pl bc' sc' (ext'.getD []) pl'
    (by omega) (by omega) he hpl (by omega) (by omega) he' hpl' ht
  exact ⟨h1, h2, by rw [hpay, hpay', h4], h3⟩

end C03
