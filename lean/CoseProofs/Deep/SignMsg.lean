/-
  Deep/SignMsg — COSE_Sign (multi-signer message, tag 98): the counterparts of the COSE_Sign1 /
  COSE_Signature theorems of Deep/Reencode and Deep/Accept.
  * C05: inversion of the signature-list decoder; envelope of an accepted COSE_Sign.
  * C11: a COSE_Sign with zero signatures or with an empty signature cannot be decoded.
  * C09: re-encoding a decoded COSE_Sign copies the header buckets of the body and of every signer
    verbatim, and is a fixpoint after the first cycle (same decoded value).
-/
import CoseModel.Messages
import CoseProofs.Lemmas.Parse
import CoseProofs.Props.C05
import CoseProofs.Props.C09
import CoseProofs.Props.C11
import CoseProofs.Deep.Reencode
import CoseProofs.Deep.Accept
open CoseModel

/-! ### C05 — what the decoder accepts -/
namespace C05

/-- what one signer entry decodes to: a COSE_Signature-shaped 3-array `x`, value `s` -/
def SigElem (x : Wire) (s : SigV) : Prop :=
  ∃ p u sg, x = .arr .imm [p, u, sg] ∧ decProtected p = .ok s.h.p ∧ decUnprot u = .ok s.h.u ∧
    ensureIV s.h.p s.h.u = true ∧ s.h.rawP = some p.bytes ∧ s.h.rawU = some u.bytes ∧
    decByteString sg = .ok s.sig ∧ blen s.sig ≠ 0

/-- one step of `decSigList` -/
theorem decSigList_cons_ok {x : Wire} {xs : List Wire} {l : List SigV}
    (h : decSigList (x :: xs) = .ok l) :
    ∃ (ys : List Wire) (v : GoVal) (s : SigV) (r : List SigV),
      x = .arr .imm ys ∧ decSigFields ys = .ok v ∧ sigOfVal v = some s ∧
      decSigList xs = .ok r ∧ l = s :: r := by
  unfold decSigList at h
  simp only [] at h
  split at h
  · rename_i a r hone hr
    split at h
    · rename_i s hs
      cases h
      split at hone
      · exact ⟨_, a, s, r, rfl, hone, hs, hr, rfl⟩
      · cases hone
    · cases h
  all_goals cases h

/-- a 3-array accepted by `decSigFields`, read as a signer entry -/
theorem sigElem_of_fields {ys : List Wire} {v : GoVal} {s : SigV}
    (hf : decSigFields ys = .ok v) (hs : sigOfVal v = some s) : SigElem (.arr .imm ys) s := by
  obtain ⟨p, u, sg, sig, pm, um, rfl, hsg, hz, hp, hu, hiv, rfl⟩ := decSigFields_ok hf
  simp only [sigOfVal, Option.some.injEq] at hs
  subst hs
  exact ⟨p, u, sg, rfl, hp, hu, hiv, rfl, rfl, hsg, hz⟩

theorem decSigList_cons_elem {x : Wire} {xs : List Wire} {l : List SigV}
    (h : decSigList (x :: xs) = .ok l) :
    ∃ s r, SigElem x s ∧ decSigList xs = .ok r ∧ l = s :: r := by
  obtain ⟨ys, v, s, r, rfl, hf, hs, hr, rfl⟩ := decSigList_cons_ok h
  exact ⟨s, r, sigElem_of_fields hf hs, hr, rfl⟩

theorem decSigList_nil : decSigList [] = .ok [] := by
  unfold decSigList; rfl

/-- 1. inversion of the signature-list decoder: the result has one entry per array element, and
    each element is a COSE_Signature-shaped 3-array with an immediate head whose protected /
    unprotected buckets decode to the entry's headers (raw bytes retained) and whose third field
    is a NON-EMPTY byte string -/
theorem decSigList_ok (xs : List Wire) (l : List SigV) (h : decSigList xs = .ok l) :
    l.length = xs.length ∧ ∀ i (h1 : i < xs.length) (h2 : i < l.length),
      ∃ p u sg, xs[i] = .arr .imm [p, u, sg] ∧ decProtected p = .ok l[i].h.p ∧
        decUnprot u = .ok l[i].h.u ∧ ensureIV l[i].h.p l[i].h.u = true ∧
        l[i].h.rawP = some p.bytes ∧ l[i].h.rawU = some u.bytes ∧
        decByteString sg = .ok l[i].sig ∧ blen l[i].sig ≠ 0 := by
  induction xs generalizing l with
  | nil =>
    rw [decSigList_nil] at h
    cases h
    exact ⟨rfl, fun i h1 => absurd h1 (Nat.not_lt_zero _)⟩
  | cons x xs ih =>
    obtain ⟨s, r, hel, hr, rfl⟩ := decSigList_cons_elem h
    obtain ⟨hlen, hidx⟩ := ih r hr
    refine ⟨by simp [hlen], ?_⟩
    intro i h1 h2
    cases i with
    | zero => simpa [SigElem] using hel
    | succ j =>
      simp only [List.length_cons, Nat.add_lt_add_iff_right] at h1 h2
      simpa using hidx j h1 h2

/-- no decoded signer entry carries an empty signature -/
theorem decSigList_sig_nonempty {xs : List Wire} {l : List SigV} (h : decSigList xs = .ok l) :
    ∀ s ∈ l, blen s.sig ≠ 0 := by
  intro s hs
  obtain ⟨hlen, hidx⟩ := decSigList_ok xs l h
  obtain ⟨i, hi, rfl⟩ := List.getElem_of_mem hs
  obtain ⟨p, u, sg, -, -, -, -, -, -, -, hz⟩ := hidx i (hlen ▸ hi) hi
  exact hz

/-- `Sign.unmarshal` accepts exactly: prefix `d8 62 84`, the rest (from `84`) is one item in
    tag-forbidding mode, a 4-array whose last element is an ARRAY (not `null`/`undefined`) that
    is non-empty and accepted by `decSigList` -/
theorem sign_unmarshal_ok {b : Bytes} {m : SignMsg} (h : Sign.unmarshal b = .ok m) :
    ∃ (r : Bytes) (hw hws : HW) (p u pl : Wire) (sgs : List Wire),
      b = 0xd8 :: 0x62 :: 0x84 :: r ∧
      parseTop false (0x84 :: r) = some (.arr hw [p, u, pl, .arr hws sgs]) ∧
      decByteString pl = .ok m.payload ∧ sgs ≠ [] ∧ decSigList sgs = .ok m.sigs ∧
      decHeaders p u = .ok m.h := by
  unfold Sign.unmarshal at h
  split at h
  · rename_i r
    split at h
    · rename_i hw p u pl sgs hpt
      cases hpl : decByteString pl with
      | ok payload =>
        simp only [hpl, Out.bind_ok] at h
        split at h
        · rename_i _ hws items
          simp only [Out.bind_ok, List.isEmpty_iff] at h
          by_cases hemp : items = []
          · simp [hemp] at h
          · simp only [hemp, if_false] at h
            cases hs : decSigList items with
            | ok sigs =>
              cases hh : decHeaders p u with
              | ok hd =>
                simp only [hs, hh, Out.bind_ok] at h
                cases h
                exact ⟨r, hw, hws, p, u, pl, items, rfl, hpt, hpl, hemp, hs, hh⟩
              | err e => simp [hs, hh] at h
              | panic => simp [hs, hh] at h
              | unmodelled => simp [hs, hh] at h
            | err e => simp [hs] at h
            | panic => simp [hs] at h
            | unmodelled => simp [hs] at h
        · simp at h
        · simp at h
        · simp at h
      | err e => simp [hpl] at h
      | panic => simp [hpl] at h
      | unmodelled => simp [hpl] at h
    · cases h
  · cases h

/-- the envelope of an accepted COSE_Sign, with the parser facts the re-encoding theorems need -/
theorem sign_accept_envelope_full {b : Bytes} {m : SignMsg} (h : Sign.unmarshal b = .ok m) :
    ∃ (hws : HW) (p u pl : Wire) (sgs : List Wire),
      b = 0xd8 :: 0x62 :: (Wire.arr .imm [p, u, pl, .arr hws sgs]).bytes ∧
      parseTop false (Wire.arr .imm [p, u, pl, .arr hws sgs]).bytes
        = some (Wire.arr .imm [p, u, pl, .arr hws sgs]) ∧
      (Wire.arr .imm [p, u, pl, .arr hws sgs]).wf = true ∧
      (Wire.arr .imm [p, u, pl, .arr hws sgs]).hasTag = false ∧
      (Wire.arr .imm [p, u, pl, .arr hws sgs]).inLimits false 0 = true ∧
      decByteString pl = .ok m.payload ∧ decHeaders p u = .ok m.h ∧ sgs ≠ [] ∧
      decSigList sgs = .ok m.sigs := by
  obtain ⟨r, hw, hws, p, u, pl, sgs, hb, hpt, hpl, hne, hs, hh⟩ := sign_unmarshal_ok h
  obtain ⟨hbytes, hwf, hlim⟩ := parseTop_sound hpt
  have hhw : hw = .imm := by
    have hwf' := hwf
    simp only [Wire.wf, Bool.and_eq_true] at hwf'
    have hb' : headBytes 4 hw [p, u, pl, Wire.arr hws sgs].length
        ++ Wire.bytesList [p, u, pl, Wire.arr hws sgs] = 0x84 :: r := by
      rw [hbytes]; simp [Wire.bytes]
    exact (Reencode.arrHead_first hwf'.1 hb' (by decide)).1
  subst hhw
  have hnt := parseTop_noTag hpt
  rw [hbytes] at hpt
  refine ⟨hws, p, u, pl, sgs, ?_, hpt, hwf, hnt, hlim, hpl, hh, hne, hs⟩
  rw [hb, hbytes]

/-- 2. the envelope of an accepted COSE_Sign: exactly tag 98 (`d8 62`) followed by one definite
    4-array with an immediate head and nothing after it, no tag inside, well-formed heads, within
    the decoder's limits; payload a byte string or `null`; the fourth element is an ARRAY
    (`null` / `undefined` there are let through by the CBOR layer as a nil slice but then refused
    with `ErrNoSignatures`, so they never occur in an accepted message), NON-EMPTY, and every
    element is accepted by the per-signer decoder (`decSigList_ok`) -/
theorem sign_accept_envelope (b : Bytes) (m : SignMsg) (h : Sign.unmarshal b = .ok m) :
    ∃ (hw hws : HW) (p u pl : Wire) (sgs : List Wire),
      b = 0xd8 :: 0x62 :: (Wire.arr hw [p, u, pl, .arr hws sgs]).bytes ∧ hw = .imm ∧
      (Wire.arr hw [p, u, pl, .arr hws sgs]).wf = true ∧
      (Wire.arr hw [p, u, pl, .arr hws sgs]).hasTag = false ∧
      (Wire.arr hw [p, u, pl, .arr hws sgs]).inLimits false 0 = true ∧
      decByteString pl = .ok m.payload ∧ decHeaders p u = .ok m.h ∧ sgs ≠ [] ∧
      decSigList sgs = .ok m.sigs := by
  obtain ⟨hws, p, u, pl, sgs, hb, -, hwf, hnt, hlim, hpl, hh, hne, hs⟩ :=
    sign_accept_envelope_full h
  exact ⟨.imm, hws, p, u, pl, sgs, hb, rfl, hwf, hnt, hlim, hpl, hh, hne, hs⟩

end C05

/-! ### C11 — decode side -/
namespace C11

/-- 3. a COSE_Sign with zero signatures, or with an empty signature anywhere, cannot be decoded:
    every decoded message has at least one signer entry and every entry a non-empty signature
    (the encode side is `signmsg_no_signatures` / `signmsg_no_empty_on_wire`) -/
theorem decoded_no_empty_signature (b : Bytes) (m : SignMsg) (h : Sign.unmarshal b = .ok m) :
    m.sigs ≠ [] ∧ ∀ s ∈ m.sigs, blen s.sig ≠ 0 := by
  obtain ⟨r, hw, hws, p, u, pl, sgs, -, -, -, hne, hs, -⟩ := C05.sign_unmarshal_ok h
  refine ⟨?_, C05.decSigList_sig_nonempty hs⟩
  intro hnil
  have hlen := (C05.decSigList_ok sgs m.sigs hs).1
  rw [hnil] at hlen
  exact hne (List.eq_nil_of_length_eq_zero hlen.symm)

end C11

/-! ### C09 — re-encoding -/
namespace C09

/-- content of a byte-string item (`[]` for anything else) -/
def sigContent : Wire → Bytes
  | .bstr _ c => c
  | _ => []

/-- what the encoder emits for a decoded signer entry whose wire form was the 3-array `x`: head
    `83`, both header items of `x` verbatim, the signature content under the shortest head -/
def reSig : Wire → Bytes
  | .arr _ [p, u, sg] => 0x83 :: (p.bytes ++ (u.bytes ++ encBstr (sigContent sg)))
  | _ => []

/-- the modelling side condition on a COSE_Sign value: every header map of the body and of every
    signer lies in the region whose encoding the model mirrors -/
def SignModelled (m : SignMsg) : Prop :=
  (GoVal.modelledPairs m.h.p = true ∧ GoVal.modelledPairs m.h.u = true) ∧
  ∀ s ∈ m.sigs, GoVal.modelledPairs s.h.p = true ∧ GoVal.modelledPairs s.h.u = true

/-- the shape of a decoded signer entry, with its signature content -/
theorem sigElem_shape {x : Wire} {s : SigV} (h : C05.SigElem x s) :
    ∃ p u hw c, x = .arr .imm [p, u, .bstr hw c] ∧ c ≠ [] ∧ s.sig = some c ∧
      decProtected p = .ok s.h.p ∧ decUnprot u = .ok s.h.u ∧ ensureIV s.h.p s.h.u = true ∧
      s.h.rawP = some p.bytes ∧ s.h.rawU = some u.bytes := by
  obtain ⟨p, u, sg, rfl, hp, hu, hiv, hrp, hru, hsg, hz⟩ := h
  obtain ⟨hw, c, rfl, hc, hs⟩ := Accept.wfsig_of_dec hsg hz
  exact ⟨p, u, hw, c, rfl, hc, hs, hp, hu, hiv, hrp, hru⟩

theorem blen_some_ne {c : Bytes} (hc : c ≠ []) : blen (some c) ≠ 0 := by
  cases c with
  | nil => exact absurd rfl hc
  | cons x xs => simp [blen]

/-- per signer: encoding the decoded entry gives `reSig` of its wire form -/
theorem sigElem_marshal {x : Wire} {s : SigV} (h : C05.SigElem x s)
    (hm : GoVal.modelledPairs s.h.p = true ∧ GoVal.modelledPairs s.h.u = true) :
    Signature.marshal s = .ok (reSig x) := by
  obtain ⟨p, u, hw, c, rfl, hc, hs, hp, hu, hiv, hrp, hru⟩ := sigElem_shape h
  have hz : blen s.sig ≠ 0 := by rw [hs]; exact blen_some_ne hc
  rw [signature_marshal_of_decoded hrp hru hiv hz hm, hs]
  rfl

/-- all signers: the concatenation the encoder emits -/
theorem marshalSigs_of_decoded : ∀ (xs : List Wire) (l : List SigV), decSigList xs = .ok l →
    (∀ s ∈ l, GoVal.modelledPairs s.h.p = true ∧ GoVal.modelledPairs s.h.u = true) →
    marshalSigs l = .ok (xs.map reSig).flatten
  | [], l, h, _ => by
    rw [C05.decSigList_nil] at h
    cases h
    rfl
  | x :: xs, l, h, hm => by
    obtain ⟨s, r, hel, hr, rfl⟩ := C05.decSigList_cons_elem h
    have h1 := sigElem_marshal hel (hm s (List.mem_cons_self ..))
    have h2 := marshalSigs_of_decoded xs r hr (fun t ht => hm t (List.mem_cons_of_mem _ ht))
    simp [marshalSigs, h1, h2]

/-- encoding a decoded COSE_Sign, in terms of the items the decoder saw -/
theorem sign_marshal_of_decoded {m : SignMsg} {p u : Wire} {sgs : List Wire}
    (hh : decHeaders p u = .ok m.h) (hne : sgs ≠ []) (hs : decSigList sgs = .ok m.sigs)
    (hm : SignModelled m) :
    Sign.marshal m = .ok (0xd8 :: 0x62 :: 0x84 :: (p.bytes ++ (u.bytes ++
      (optBytesEnc m.payload ++ (encHead 4 m.sigs.length ++ (sgs.map reSig).flatten))))) := by
  obtain ⟨-, -, hiv, hrp, hru⟩ := decHeaders_ok hh
  have h1 := hdrs_marshal_verbatim hrp hru hiv hm.1
  have h2 := marshalSigs_of_decoded sgs m.sigs hs hm.2
  have hlen := (C05.decSigList_ok sgs m.sigs hs).1
  have hemp : m.sigs.isEmpty = false := by
    cases hl : m.sigs with
    | nil =>
      rw [hl] at hlen
      exact absurd (List.eq_nil_of_length_eq_zero hlen.symm) hne
    | cons a r => rfl
  simp [Sign.marshal, hemp, h1, h2]

/-- 4. decoding then encoding a COSE_Sign reproduces BOTH header buckets of the body (`p.bytes`,
    `u.bytes`) AND of every signer (inside `reSig`) byte for byte — they are the input's own
    sub-slices; tag, outer array head (`84`) and each signer's array head (`83`) are the ones
    the decoder required; the output differs from the input at most in the heads of the payload,
    of each signature byte string and of the signatures array (all re-emitted shortest) -/
theorem reencode_sign (b : Bytes) (m : SignMsg) (hd : Sign.unmarshal b = .ok m)
    (hm : (GoVal.modelledPairs m.h.p = true ∧ GoVal.modelledPairs m.h.u = true) ∧
      ∀ s ∈ m.sigs, GoVal.modelledPairs s.h.p = true ∧ GoVal.modelledPairs s.h.u = true) :
    ∃ (p u pl : Wire) (hws : HW) (sgs : List Wire),
      b = 0xd8 :: 0x62 :: (Wire.arr .imm [p, u, pl, .arr hws sgs]).bytes ∧
      Sign.marshal m = .ok (0xd8 :: 0x62 :: 0x84 :: (p.bytes ++ (u.bytes ++
        (optBytesEnc m.payload ++ (encHead 4 m.sigs.length ++ (sgs.map reSig).flatten))))) ∧
      (Wire.arr .imm [p, u, pl, .arr hws sgs]).wf = true ∧
      (Wire.arr .imm [p, u, pl, .arr hws sgs]).inLimits false 0 = true ∧
      m.h.rawP = some p.bytes ∧ m.h.rawU = some u.bytes ∧
      ((m.payload = none ∧ pl.bytes = [0xf6]) ∨
        ∃ (w : HW) (c : Bytes), m.payload = some c ∧ pl.bytes = headBytes 2 w c.length ++ c) ∧
      sgs ≠ [] ∧ m.sigs.length = sgs.length ∧
      ∀ i (h1 : i < sgs.length) (h2 : i < m.sigs.length),
        ∃ (pi ui : Wire) (wi : HW) (ci : Bytes),
          sgs[i] = .arr .imm [pi, ui, .bstr wi ci] ∧ ci ≠ [] ∧
          m.sigs[i].h.rawP = some pi.bytes ∧ m.sigs[i].h.rawU = some ui.bytes ∧
          m.sigs[i].sig = some ci ∧
          reSig sgs[i] = 0x83 :: (pi.bytes ++ (ui.bytes ++ encBstr ci)) := by
  obtain ⟨hws, p, u, pl, sgs, hb, -, hwf, -, hlim, hpl, hh, hne, hs⟩ :=
    C05.sign_accept_envelope_full hd
  obtain ⟨-, -, -, hrp, hru⟩ := decHeaders_ok hh
  obtain ⟨hlen, hidx⟩ := C05.decSigList_ok sgs m.sigs hs
  refine ⟨p, u, pl, hws, sgs, hb, sign_marshal_of_decoded hh hne hs hm, hwf, hlim, hrp, hru,
    item_bytes hpl, hne, hlen, ?_⟩
  intro i h1 h2
  obtain ⟨pi, ui, wi, ci, hx, hc, hsi, -, -, -, hrpi, hrui⟩ :=
    sigElem_shape (x := sgs[i]) (s := m.sigs[i]) (hidx i h1 h2)
  exact ⟨pi, ui, wi, ci, hx, hc, hrpi, hrui, hsi, by rw [hx]; rfl⟩

/-! #### the fixpoint -/

/-- the wire form the encoder gives a signer entry: immediate array head, both header items
    unchanged, the signature content under the shortest head -/
def shortSig : Wire → Wire
  | .arr _ [p, u, sg] =>
      .arr .imm [p, u, .bstr (HW.shortest (sigContent sg).length) (sigContent sg)]
  | x => x

theorem shortSig_bytes (w : HW) (p u sg : Wire) :
    (shortSig (.arr w [p, u, sg])).bytes = reSig (.arr w [p, u, sg]) := by
  have h83 : headBytes 4 .imm 3 = [0x83] := by decide
  simp [shortSig, reSig, Wire.bytes, Wire.bytesList, h83, encBstr, encHead]

/-- every element of an accepted signatures array is a signer entry -/
theorem decSigList_elems : ∀ (xs : List Wire) (l : List SigV), decSigList xs = .ok l →
    ∀ x ∈ xs, ∃ s, C05.SigElem x s
  | [], _, _, _, hx => by cases hx
  | y :: ys, l, h, x, hx => by
    obtain ⟨s, r, hel, hr, rfl⟩ := C05.decSigList_cons_elem h
    rcases List.mem_cons.mp hx with rfl | hx'
    · exact ⟨s, hel⟩
    · exact decSigList_elems ys r hr x hx'

/-- the re-encoded entry decodes to the same value -/
theorem sigElem_short {x : Wire} {s : SigV} (h : C05.SigElem x s) : C05.SigElem (shortSig x) s := by
  obtain ⟨p, u, hw, c, rfl, hc, hs, hp, hu, hiv, hrp, hru⟩ := sigElem_shape h
  refine ⟨p, u, .bstr (HW.shortest c.length) c, rfl, hp, hu, hiv, hrp, hru, ?_, ?_⟩
  · rw [hs]; rfl
  · rw [hs]; exact blen_some_ne hc

theorem shortSig_wf {x : Wire} {s : SigV} (h : C05.SigElem x s) (hwf : x.wf = true) :
    (shortSig x).wf = true := by
  obtain ⟨p, u, hw, c, rfl, -⟩ := sigElem_shape h
  simp only [Wire.wf, Wire.wfList, Bool.and_eq_true] at hwf
  simp only [shortSig, sigContent, Wire.wf, Wire.wfList, Bool.and_eq_true]
  exact ⟨hwf.1, hwf.2.1, hwf.2.2.1, Reencode.shortest_fits (Reencode.fits_lt hwf.2.2.2.1), trivial⟩

theorem shortSig_inLimits {x : Wire} {s : SigV} (h : C05.SigElem x s) {d : Nat}
    (hl : x.inLimits false d = true) : (shortSig x).inLimits false d = true := by
  obtain ⟨p, u, hw, c, rfl, -⟩ := sigElem_shape h
  simp only [Wire.inLimits, Wire.inLimitsList, Bool.and_eq_true] at hl
  simp only [shortSig, sigContent, Wire.inLimits, Wire.inLimitsList, Bool.and_eq_true]
  exact ⟨hl.1, hl.2.1, hl.2.2.1, trivial, trivial⟩

theorem shortSig_list_wf : ∀ (xs : List Wire), (∀ x ∈ xs, ∃ s, C05.SigElem x s) →
    Wire.wfList xs = true → Wire.wfList (xs.map shortSig) = true
  | [], _, _ => rfl
  | x :: xs, hel, hwf => by
    simp only [Wire.wfList, Bool.and_eq_true] at hwf
    obtain ⟨s, hs⟩ := hel x (List.mem_cons_self ..)
    simp only [List.map_cons, Wire.wfList, Bool.and_eq_true]
    exact ⟨shortSig_wf hs hwf.1,
      shortSig_list_wf xs (fun y hy => hel y (List.mem_cons_of_mem _ hy)) hwf.2⟩

theorem shortSig_list_inLimits (d : Nat) : ∀ (xs : List Wire),
    (∀ x ∈ xs, ∃ s, C05.SigElem x s) → Wire.inLimitsList false d xs = true →
    Wire.inLimitsList false d (xs.map shortSig) = true
  | [], _, _ => rfl
  | x :: xs, hel, hl => by
    simp only [Wire.inLimitsList, Bool.and_eq_true] at hl
    obtain ⟨s, hs⟩ := hel x (List.mem_cons_self ..)
    simp only [List.map_cons, Wire.inLimitsList, Bool.and_eq_true]
    exact ⟨shortSig_inLimits hs hl.1,
      shortSig_list_inLimits d xs (fun y hy => hel y (List.mem_cons_of_mem _ hy)) hl.2⟩

theorem shortSig_list_bytes : ∀ (xs : List Wire), (∀ x ∈ xs, ∃ s, C05.SigElem x s) →
    Wire.bytesList (xs.map shortSig) = (xs.map reSig).flatten
  | [], _ => rfl
  | x :: xs, hel => by
    obtain ⟨s, p, u, sg, rfl, -⟩ := hel x (List.mem_cons_self ..)
    simp only [List.map_cons, Wire.bytesList, List.flatten_cons, shortSig_bytes,
      shortSig_list_bytes xs (fun y hy => hel y (List.mem_cons_of_mem _ hy))]

/-- one step of `decSigList`, forwards -/
theorem decSigList_cons_of {x : Wire} {xs : List Wire} {s : SigV} {r : List SigV}
    (hel : C05.SigElem x s) (hr : decSigList xs = .ok r) :
    decSigList (x :: xs) = .ok (s :: r) := by
  obtain ⟨p, u, sg, rfl, hp, hu, hiv, hrp, hru, hsg, hz⟩ := hel
  have hf := decSigFields_of hsg hz hp hu hiv
  have hv : sigOfVal (.csig (some p.bytes) s.h.p (some u.bytes) s.h.u s.sig) = some s := by
    obtain ⟨⟨rp, pm, ru, um⟩, sig⟩ := s
    simp only at hrp hru
    subst hrp hru
    rfl
  unfold decSigList
  simp only [hf, hr, hv]

/-- the re-encoded signatures array decodes to the same list of values -/
theorem decSigList_short : ∀ (xs : List Wire) (l : List SigV), decSigList xs = .ok l →
    decSigList (xs.map shortSig) = .ok l
  | [], l, h => h
  | x :: xs, l, h => by
    obtain ⟨s, r, hel, hr, rfl⟩ := C05.decSigList_cons_elem h
    exact decSigList_cons_of (sigElem_short hel) (decSigList_short xs r hr)

theorem sign_unmarshal_of {r : Bytes} {hw hws : HW} {p u pl : Wire} {xs : List Wire}
    {pay : Option Bytes} {sigs : List SigV} {h : Hdrs}
    (hpt : parseTop false (0x84 :: r) = some (.arr hw [p, u, pl, .arr hws xs]))
    (hpl : decByteString pl = .ok pay) (hne : xs ≠ []) (hs : decSigList xs = .ok sigs)
    (hh : decHeaders p u = .ok h) :
    Sign.unmarshal (0xd8 :: 0x62 :: 0x84 :: r) = .ok { h := h, payload := pay, sigs := sigs } := by
  simp [Sign.unmarshal, hpt, hpl, hne, hs, hh]

/-- the tree the encoder's output is the encoding of -/
def shortSignTree (p u : Wire) (pay : Option Bytes) (sgs : List Wire) : Wire :=
  .arr .imm [p, u, shortItem pay, .arr (HW.shortest sgs.length) (sgs.map shortSig)]

theorem shortSignTree_bytes (p u : Wire) (pay : Option Bytes) (sgs : List Wire)
    (hel : ∀ x ∈ sgs, ∃ s, C05.SigElem x s) :
    (shortSignTree p u pay sgs).bytes = 0x84 :: (p.bytes ++ (u.bytes ++
      (optBytesEnc pay ++ (encHead 4 sgs.length ++ (sgs.map reSig).flatten)))) := by
  have h84 : headBytes 4 .imm 4 = [0x84] := by decide
  simp [shortSignTree, Wire.bytes, Wire.bytesList, h84, shortItem_bytes, shortSig_list_bytes sgs hel,
    encHead]

/-- core of 5: the re-encoded bytes decode to the same value -/
theorem sign_unmarshal_marshal_tree {m : SignMsg} {p u pl : Wire} {hws : HW} {sgs : List Wire}
    (hwf : (Wire.arr .imm [p, u, pl, .arr hws sgs]).wf = true)
    (hlim : (Wire.arr .imm [p, u, pl, .arr hws sgs]).inLimits false 0 = true)
    (hpl : decByteString pl = .ok m.payload) (hh : decHeaders p u = .ok m.h) (hne : sgs ≠ [])
    (hs : decSigList sgs = .ok m.sigs) :
    Sign.unmarshal (0xd8 :: 0x62 :: (shortSignTree p u m.payload sgs).bytes) = .ok m := by
  have hel := decSigList_elems sgs m.sigs hs
  have hwf' : (shortSignTree p u m.payload sgs).wf = true := by
    simp only [Wire.wf, Wire.wfList, Bool.and_eq_true] at hwf
    simp only [shortSignTree, Wire.wf, Wire.wfList, Bool.and_eq_true, List.length_map]
    exact ⟨hwf.1, hwf.2.1, hwf.2.2.1, shortItem_wf hwf.2.2.2.1 hpl,
      ⟨Reencode.shortest_fits (Reencode.fits_lt hwf.2.2.2.2.1.1),
        shortSig_list_wf sgs hel hwf.2.2.2.2.1.2⟩, trivial⟩
  have hlim' : (shortSignTree p u m.payload sgs).inLimits false 0 = true := by
    simp only [Wire.inLimits, Wire.inLimitsList, Bool.and_eq_true] at hlim
    simp only [shortSignTree, Wire.inLimits, Wire.inLimitsList, Bool.and_eq_true, List.length_map]
    exact ⟨hlim.1, hlim.2.1, hlim.2.2.1, shortItem_inLimits _ _,
      ⟨hlim.2.2.2.2.1.1, shortSig_list_inLimits _ sgs hel hlim.2.2.2.2.1.2⟩, trivial⟩
  have hpt := parseTop_complete hwf' hlim'
  rw [shortSignTree_bytes p u m.payload sgs hel] at hpt ⊢
  have hne' : sgs.map shortSig ≠ [] := by
    intro hc
    exact hne (List.map_eq_nil_iff.mp hc)
  exact sign_unmarshal_of hpt (shortItem_dec _) hne' (decSigList_short sgs m.sigs hs) hh

theorem marshalSigs_modelled : ∀ (l : List SigV) (b : Bytes), marshalSigs l = .ok b →
    ∀ s ∈ l, GoVal.modelledPairs s.h.p = true ∧ GoVal.modelledPairs s.h.u = true
  | [], _, _, _, hs => by cases hs
  | x :: r, b, h, s, hs => by
    unfold marshalSigs at h
    cases hx : Signature.marshal x with
    | ok a =>
      cases hr : marshalSigs r with
      | ok bb =>
        rcases List.mem_cons.mp hs with rfl | hs'
        · exact signature_modelled_of_marshal_ok hx
        · exact marshalSigs_modelled r bb hr s hs'
      | err e => simp [hx, hr] at h
      | panic => simp [hx, hr] at h
      | unmodelled => simp [hx, hr] at h
    | err e => simp [hx] at h
    | panic => simp [hx] at h
    | unmodelled => simp [hx] at h

/-- a successful encoding implies every header map is in the modelled region (otherwise the
    model answers `unmodelled`) -/
theorem sign_modelled_of_marshal_ok {m : SignMsg} {b1 : Bytes} (he : Sign.marshal m = .ok b1) :
    SignModelled m := by
  unfold Sign.marshal at he
  split at he
  · cases he
  · cases hh : m.h.marshal with
    | ok x =>
      cases hs : marshalSigs m.sigs with
      | ok ss => exact ⟨hdrs_modelled_of_marshal_ok hh, marshalSigs_modelled m.sigs ss hs⟩
      | err e => simp [hh, hs] at he
      | panic => simp [hh, hs] at he
      | unmodelled => simp [hh, hs] at he
    | err e => simp [hh] at he
    | panic => simp [hh] at he
    | unmodelled => simp [hh] at he

/-- 5. decode/encode cycles of a COSE_Sign are a fixpoint after the first: the re-encoded bytes
    decode to the SAME value (body headers with their retained raw bytes, payload, and every
    signer's headers, raw bytes and signature), so all signatures still verify (`Sign.verify` is
    a function of the value), and that value encodes to the same bytes again.  No modelling
    hypothesis is needed: a successful encoding implies it. -/
theorem reencode_sign_fixpoint (b b1 : Bytes) (m : SignMsg) (hd : Sign.unmarshal b = .ok m)
    (he : Sign.marshal m = .ok b1) :
    ∃ m1, Sign.unmarshal b1 = .ok m1 ∧ m1 = m ∧ Sign.marshal m1 = .ok b1 := by
  obtain ⟨hws, p, u, pl, sgs, -, -, hwf, -, hlim, hpl, hh, hne, hs⟩ :=
    C05.sign_accept_envelope_full hd
  have h1 := sign_marshal_of_decoded hh hne hs (sign_modelled_of_marshal_ok he)
  rw [he, (C05.decSigList_ok sgs m.sigs hs).1,
    ← shortSignTree_bytes p u m.payload sgs (decSigList_elems sgs m.sigs hs)] at h1
  cases h1
  exact ⟨m, sign_unmarshal_marshal_tree hwf hlim hpl hh hne hs, rfl, he⟩

/-! #### corollaries: round trip, idempotent cycle, deterministic inputs reproduced -/

theorem shortSig_length_le {x : Wire} {s : SigV} (h : C05.SigElem x s) (hwf : x.wf = true) :
    (shortSig x).bytes.length ≤ x.bytes.length := by
  obtain ⟨p, u, hw, c, rfl, -⟩ := sigElem_shape h
  simp only [Wire.wf, Wire.wfList, Bool.and_eq_true] at hwf
  have := shortest_head_le 2 hwf.2.2.2.1
  simp only [shortSig, sigContent, Wire.bytes, Wire.bytesList, List.length_append,
    List.length_cons, List.length_nil]
  omega

theorem shortSig_list_length_le : ∀ (xs : List Wire), (∀ x ∈ xs, ∃ s, C05.SigElem x s) →
    Wire.wfList xs = true →
    (Wire.bytesList (xs.map shortSig)).length ≤ (Wire.bytesList xs).length
  | [], _, _ => Nat.le_refl _
  | x :: xs, hel, hwf => by
    simp only [Wire.wfList, Bool.and_eq_true] at hwf
    obtain ⟨s, hs⟩ := hel x (List.mem_cons_self ..)
    have h1 := shortSig_length_le hs hwf.1
    have h2 := shortSig_list_length_le xs (fun y hy => hel y (List.mem_cons_of_mem _ hy)) hwf.2
    simp only [List.map_cons, Wire.bytesList, List.length_append]
    omega

/-- 5'. encoding a decoded COSE_Sign always succeeds (in the modelled region), round-trips to
    the same value, and never lengthens the message -/
theorem reencode_sign_roundtrip (b : Bytes) (m : SignMsg) (hd : Sign.unmarshal b = .ok m)
    (hm : SignModelled m) :
    ∃ b1, Sign.marshal m = .ok b1 ∧ Sign.unmarshal b1 = .ok m ∧ b1.length ≤ b.length := by
  obtain ⟨hws, p, u, pl, sgs, hb, -, hwf, -, hlim, hpl, hh, hne, hs⟩ :=
    C05.sign_accept_envelope_full hd
  have hel := decSigList_elems sgs m.sigs hs
  have h1 := sign_marshal_of_decoded hh hne hs hm
  rw [(C05.decSigList_ok sgs m.sigs hs).1, ← shortSignTree_bytes p u m.payload sgs hel] at h1
  refine ⟨_, h1, sign_unmarshal_marshal_tree hwf hlim hpl hh hne hs, ?_⟩
  simp only [Wire.wf, Wire.wfList, Bool.and_eq_true] at hwf
  have l1 := shortItem_length_le hwf.2.2.2.1 hpl
  have l2 := shortSig_list_length_le sgs hel hwf.2.2.2.2.1.2
  have l3 := shortest_head_le 4 hwf.2.2.2.2.1.1
  rw [hb]
  simp only [shortSignTree, Wire.bytes, Wire.bytesList, List.length_append, List.length_cons,
    List.length_nil, List.length_map] at l3 ⊢
  omega

/-- one decode/encode cycle of a COSE_Sign -/
def signCycle (b : Bytes) : Out Bytes := Sign.unmarshal b >>= Sign.marshal

/-- 5''. the COSE_Sign cycle is idempotent -/
theorem signCycle_idempotent (b b1 : Bytes) (h : signCycle b = .ok b1) : signCycle b1 = .ok b1 := by
  unfold signCycle at h
  cases hd : Sign.unmarshal b with
  | ok m =>
    simp only [hd, Out.bind_ok] at h
    obtain ⟨m1, h1, rfl, h2⟩ := reencode_sign_fixpoint b b1 m hd h
    simp [signCycle, h1, h2]
  | err e => simp [hd] at h
  | panic => simp [hd] at h
  | unmodelled => simp [hd] at h

/-- a signer entry whose signature byte string already carries the shortest head is re-emitted
    as it is -/
theorem shortSig_id_of_shortest {x : Wire}
    (h : ∃ p u c, x = .arr .imm [p, u, .bstr (HW.shortest c.length) c]) : shortSig x = x := by
  obtain ⟨p, u, c, rfl⟩ := h
  rfl

/-- 4'. a deterministically encoded COSE_Sign is reproduced identically: if the payload, the
    signatures array and every signature byte string of the input carry shortest heads, encoding
    the decoded message gives back the input.  Nothing is assumed about the header buckets of
    the body or of the signers — they are copied verbatim.  Well-formedness identifies the tree
    as *the* parse of the input (`Reencode.bytes_inj`). -/
theorem reencode_sign_det_identity (b : Bytes) (m : SignMsg) (hd : Sign.unmarshal b = .ok m)
    (hm : SignModelled m) (hw hws : HW) (p u pl : Wire) (sgs : List Wire)
    (hb : b = 0xd8 :: 0x62 :: (Wire.arr hw [p, u, pl, .arr hws sgs]).bytes)
    (hwf : (Wire.arr hw [p, u, pl, .arr hws sgs]).wf = true)
    (hspl : pl = .prim .imm 22 ∨ ∃ c, pl = .bstr (HW.shortest c.length) c)
    (hshw : hws = HW.shortest sgs.length)
    (hssg : ∀ x ∈ sgs, ∃ p u c, x = .arr .imm [p, u, .bstr (HW.shortest c.length) c]) :
    Sign.marshal m = .ok b := by
  obtain ⟨hws0, p0, u0, pl0, sgs0, hb0, -, hwf0, -, hlim0, hpl, hh, hne, hs⟩ :=
    C05.sign_accept_envelope_full hd
  have hbytes : (Wire.arr hw [p, u, pl, .arr hws sgs]).bytes
      = (Wire.arr .imm [p0, u0, pl0, .arr hws0 sgs0]).bytes := by
    have := hb.symm.trans hb0
    simpa using this
  have heq := Reencode.bytes_inj hwf hwf0 hbytes
  simp only [Wire.arr.injEq, List.cons.injEq, and_true] at heq
  obtain ⟨rfl, rfl, rfl, rfl, rfl, rfl⟩ := heq
  have hel := decSigList_elems sgs m.sigs hs
  have h1 := sign_marshal_of_decoded hh hne hs hm
  rw [(C05.decSigList_ok sgs m.sigs hs).1, ← shortSignTree_bytes p u m.payload sgs hel] at h1
  have hmap : sgs.map shortSig = sgs := by
    have : ∀ x ∈ sgs, shortSig x = id x := fun x hx => shortSig_id_of_shortest (hssg x hx)
    rw [List.map_congr_left this, List.map_id]
  rw [h1, hb, shortSignTree, hmap, ← shortest_eq_shortItem hspl hpl, hshw]

end C09
