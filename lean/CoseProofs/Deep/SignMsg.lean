/-
  Deep/SignMsg — COSE_Sign (multi-signer message, tag 98): the counterparts of the COSE_Sign1 /
  COSE_Signature theorems of Deep/Reencode and Deep/Accept.
  * C05: inversion of the signature-list decoder; envelope of an accepted COSE_Sign.
  * C11: a COSE_Sign with zero signatures or with an empty signature cannot be decoded.
  * C09: re-encoding a decoded COSE_Sign copies the header buckets of the body and of every signer
    verbatim, and is a fixpoint after the first cycle (same decoded value).
-/
import CoseModel.Messages
import CoseProofs.Lemmas.Parse
import CoseProofs.Props.C05
import CoseProofs.Props.C09
import CoseProofs.Props.C11
import CoseProofs.Deep.Reencode
import CoseProofs.Deep.Accept
open CoseModel

/-! ### C05 — what the decoder accepts -/
namespace C05

/-- what one signer entry decodes to: a COSE_Signature-shaped 3-array `x`, value `s` -/
def SigElem (x : Wire) (s : SigV) : Prop :=
  ∃ p u sg, x = .arr .imm [p, u, sg] ∧ decProtected p = .ok s.h.p ∧ decUnprot u = .ok s.h.u ∧
    ensureIV s.h.p s.h.u = true ∧ s.h.rawP = some p.bytes ∧ s.h.rawU = some u.bytes ∧
    decByteString sg = .ok s.sig ∧ blen s.sig ≠ 0

/-- one step of `decSigList` -/
theorem decSigList_cons_ok {x : Wire} {xs : List Wire} {l : List SigV}
    (h : decSigList (x :: xs) = .ok l) :
    ∃ (ys : List Wire) (v : GoVal) (s : SigV) (r : List SigV),
      x = .arr .imm ys ∧ decSigFields ys = .ok v ∧ sigOfVal v = some s ∧
      decSigList xs = .ok r ∧ l = s :: r := by
  unfold decSigList at h
  simp only [] at h
  split at h
  · rename_i a r hone hr
    split at h
    · rename_i s hs
      cases h
      split at hone
      · exact ⟨_, a, s, r, rfl, hone, hs, hr, rfl⟩
      · cases hone
    · cases h
  all_goals cases h

/-- a 3-array accepted by `decSigFields`, read as a signer entry -/
theorem sigElem_of_fields {ys : List Wire} {v : GoVal} {s : SigV}
    (hf : decSigFields ys = .ok v) (hs : sigOfVal v = some s) : SigElem (.arr .imm ys) s := by
  obtain ⟨p, u, sg, sig, pm, um, rfl, hsg, hz, hp, hu, hiv, rfl⟩ := decSigFields_ok hf
  simp only [sigOfVal, Option.some.injEq] at hs
  subst hs
  exact ⟨p, u, sg, rfl, hp, hu, hiv, rfl, rfl, hsg, hz⟩

theorem decSigList_cons_elem {x : Wire} {xs : List Wire} {l : List SigV}
    (h : decSigList (x :: xs) = .ok l) :
    ∃ s r, SigElem x s ∧ decSigList xs = .ok r ∧ l = s :: r := by
  obtain ⟨ys, v, s, r, rfl, hf, hs, hr, rfl⟩ := decSigList_cons_ok h
  exact ⟨s, r, sigElem_of_fields hf hs, hr, rfl⟩

theorem decSigList_nil : decSigList [] = .ok [] := by
  unfold decSigList; rfl

/-- 1. inversion of the signature-list decoder: the result has one entry per array element, and
    each element is a COSE_Signature-shaped 3-array with an immediate head whose protected /
    unprotected buckets decode to the entry's headers (raw bytes retained) and whose third field
    is a NON-EMPTY byte string -/
theorem decSigList_ok (xs : List Wire) (l : List SigV) (h : decSigList xs = .ok l) :
    l.length = xs.length ∧ ∀ i (h1 : i < xs.length) (h2 : i < l.length),
      ∃ p u sg, xs[i] = .arr .imm [p, u, sg] ∧ decProtected p = .ok l[i].h.p ∧
        decUnprot u = .ok l[i].h.u ∧ ensureIV l[i].h.p l[i].h.u = true ∧
        l[i].h.rawP = some p.bytes ∧ l[i].h.rawU = some u.bytes ∧
        decByteString sg = .ok l[i].sig ∧ blen l[i].sig ≠ 0 := by
  induction xs generalizing l with
  | nil =>
    rw [decSigList_nil] at h
    cases h
    exact ⟨rfl, fun i h1 => absurd h1 (Nat.not_lt_zero _)⟩
  | cons x xs ih =>
    obtain ⟨s, r, hel, hr, rfl⟩ := decSigList_cons_elem h
    obtain ⟨hlen, hidx⟩ := ih r hr
    refine ⟨by simp [hlen], ?_⟩
    intro i h1 h2
    cases i with
    | zero => simpa [SigElem] using hel
    | succ j =>
      simp only [List.length_cons, Nat.add_lt_add_iff_right] at h1 h2
      simpa using hidx j h1 h2

/-- no decoded signer entry carries an empty signature -/
theorem decSigList_sig_nonempty {xs : List Wire} {l : List SigV} (h : decSigList xs = .ok l) :
    ∀ s ∈ l, blen s.sig ≠ 0 := by
  intro s hs
  obtain ⟨hlen, hidx⟩ := decSigList_ok xs l h
  obtain ⟨i, hi, rfl⟩ := List.getElem_of_mem hs
  obtain ⟨p, u, sg, -, -, -, -, -, -, -, hz⟩ := hidx i (hlen ▸ hi) hi
  exact hz

/-- `Sign.unmarshal` accepts exactly: prefix `d8 62 84`, the rest (from `84`) is one item in
    tag-forbidding mode, a 4-array whose last element is an ARRAY (not `null`/`undefined`) that
    is non-empty and accepted by `decSigList` -/
theorem sign_unmarshal_ok {b : Bytes} {m : SignMsg} (h : Sign.unmarshal b = .ok m) :
    ∃ (r : Bytes) (hw hws : HW) (p u pl : Wire) (sgs : List Wire),
      b = 0xd8 :: 0x62 :: 0x84 :: r ∧
      parseTop false (0x84 :: r) = some (.arr hw [p, u, pl, .arr hws sgs]) ∧
      decByteString pl = .ok m.payload ∧ sgs ≠ [] ∧ decSigList sgs = .ok m.sigs ∧
      decHeaders p u = .ok m.h := by
  unfold Sign.unmarshal at h
  split at h
  · rename_i r
    split at h
    · rename_i hw p u pl sgs hpt
      cases hpl : decByteString pl with
      | ok payload =>
        simp only [hpl, Out.bind_ok] at h
        split at h
        · rename_i _ hws items
          simp only [Out.bind_ok, List.isEmpty_iff] at h
          by_cases hemp : items = []
          · simp [hemp] at h
          · simp only [hemp, if_false] at h
            cases hs : decSigList items with
            | ok sigs =>
              cases hh : decHeaders p u with
              | ok hd =>
                simp only [hs, hh, Out.bind_ok] at h
                cases h
                exact ⟨r, hw, hws, p, u, pl, items, rfl, hpt, hpl, hemp, hs, hh⟩
              | err e => simp [hs, hh] at h
              | panic => simp [hs, hh] at h
              | unmodelled => simp [hs, hh] at h
            | err e => simp [hs] at h
            | panic => simp [hs] at h
            | unmodelled => simp [hs] at h
        · simp at h
        · simp at h
        · simp at h
      | err e => simp [hpl] at h
      | panic => simp [hpl] at h
      | unmodelled => simp [hpl] at h
    · cases h
  · cases h

/-- the envelope of an accepted COSE_Sign, with the parser facts the re-encoding theorems need -/
theorem sign_accept_envelope_full {b : Bytes} {m : SignMsg} (h : Sign.unmarshal b = .ok m) :
    ∃ (hws : HW) (p u pl : Wire) (sgs : List Wire),
      b = 0xd8 :: 0x62 :: (Wire.arr .imm [p, u, pl, .arr hws sgs]).bytes ∧
      parseTop false (Wire.arr .imm [p, u, pl, .arr hws sgs]).bytes
        = some (Wire.arr .imm [p, u, pl, .arr hws sgs]) ∧
      (Wire.arr .imm [p, u, pl, .arr hws sgs]).wf = true ∧
      (Wire.arr .imm [p, u, pl, .arr hws sgs]).hasTag = false ∧
      (Wire.arr .imm [p, u, pl, .arr hws sgs]).inLimits false 0 = true ∧
      decByteString pl = .ok m.payload ∧ decHeaders p u = .ok m.h ∧ sgs ≠ [] ∧
      decSigList sgs = .ok m.sigs := by
  obtain ⟨r, hw, hws, p, u, pl, sgs, hb, hpt, hpl, hne, hs, hh⟩ := sign_unmarshal_ok h
  obtain ⟨hbytes, hwf, hlim⟩ := parseTop_sound hpt
  have hhw : hw = .imm := by
    have hwf' := hwf
    simp only [Wire.wf, Bool.and_eq_true] at hwf'
    have hb' : headBytes 4 hw [p, u, pl, Wire.arr hws sgs].length
        ++ Wire.bytesList [p, u, pl, Wire.arr hws sgs] = 0x84 :: r := by
      rw [hbytes]; simp [Wire.bytes]
    exact (Reencode.arrHead_first hwf'.1 hb' (by decide)).1
  subst hhw
  have hnt := parseTop_noTag hpt
  rw [hbytes] at hpt
  refine ⟨hws, p, u, pl, sgs, ?_, hpt, hwf, hnt, hlim, hpl, hh, hne, hs⟩
  rw [hb, hbytes]

/-- 2. the envelope of an accepted COSE_Sign: exactly tag 98 (`d8 62`) followed by one definite
    4-array with an immediate head and nothing after it, no tag inside, well-formed heads, within
    the decoder's limits; payload a byte string or `null`; the fourth element is an ARRAY
    (`null` / `undefined` there are let through by the CBOR layer as a nil slice but then refused
    with `ErrNoSignatures`, so they never occur in an accepted message), NON-EMPTY, and every
    element is accepted by the per-signer decoder (`decSigList_ok`) -/
theorem sign_accept_envelope (b : Bytes) (m : SignMsg) (h : Sign.unmarshal b = .ok m) :
    ∃ (hw hws : HW) (p u pl : Wire) (sgs : List Wire),
      b = 0xd8 :: 0x62 :: (Wire.arr hw [p, u, pl, .arr hws sgs]).bytes ∧ hw = .imm ∧
      (Wire.arr hw [p, u, pl, .arr hws sgs]).wf = true ∧
      (Wire.arr hw [p, u, pl, .arr hws sgs]).hasTag = false ∧
      (Wire.arr hw [p, u, pl, .arr hws sgs]).inLimits false 0 = true ∧
      decByteString pl = .ok m.payload ∧ decHeaders p u = .ok m.h ∧ sgs ≠ [] ∧
      decSigList sgs = .ok m.sigs := by
  obtain ⟨hws, p, u, pl, sgs, hb, -, hwf, hnt, hlim, hpl, hh, hne, hs⟩ :=
    sign_accept_envelope_full h
  exact ⟨.imm, hws, p, u, pl, sgs, hb, rfl, hwf, hnt, hlim, hpl, hh, hne, hs⟩

end C05

/-! ### C11 — decode side -/
namespace C11

/-- 3. a COSE_Sign with zero signatures, or with an empty signature anywhere, cannot be decoded:
    every decoded message has at least one signer entry and every entry a non-empty signature
    (the encode side is `signmsg_no_signatures` / `signmsg_no_empty_on_wire`) -/
theorem decoded_no_empty_signature (b : Bytes) (m : SignMsg) (h : Sign.unmarshal b = .ok m) :
    m.sigs ≠ [] ∧ ∀ s ∈ m.sigs, blen s.sig ≠ 0 := by
  obtain ⟨r, hw, hws, p, u, pl, sgs, -, -, -, hne, hs, -⟩ := C05.sign_unmarshal_ok h
  refine ⟨?_, C05.decSigList_sig_nonempty hs⟩
  intro hnil
  have hlen := (C05.decSigList_ok sgs m.sigs hs).1
  rw [hnil] at hlen
  exact hne (List.eq_nil_of_length_eq_zero hlen.symm)

end C11

/-! ### C09 — re-encoding -/
namespace C09

/-- content of a byte-string item (`[]` for anything else) -/
def sigContent : Wire → Bytes
  | .bstr _ c => c
  | _ => []

/-- what the encoder emits for a decoded signer entry whose wire form was the 3-array `x`: head
    `83`, both header items of `x` verbatim, the signature content under the shortest head -/
def reSig : Wire → Bytes
  | .arr _ [p, u, sg] => 0x83 :: (p.bytes ++ (u.bytes ++ encBstr (sigContent sg)))
  | _ => []

/-- the modelling side condition on a COSE_Sign value: every header map of the body and of every
    signer lies in the region whose encoding the model mirrors -/
def SignModelled (m : SignMsg) : Prop :=
  (GoVal.modelledPairs m.h.p = true ∧ GoVal.modelledPairs m.h.u = true) ∧
  ∀ s ∈ m.sigs, GoVal.modelledPairs s.h.p = true ∧ GoVal.modelledPairs s.h.u = true

/-- the shape of a decoded signer entry, with its signature content -/
theorem sigElem_shape {x : Wire} {s : SigV} (h : C05.SigElem x s) :
    ∃ p u hw c, x = .arr .imm [p, u, .bstr hw c] ∧ c ≠ [] ∧ s.sig = some c ∧
      decProtected p = .ok s.h.p ∧ decUnprot u = .ok s.h.u ∧ ensureIV s.h.p s.h.u = true ∧
      s.h.rawP = some p.bytes ∧ s.h.rawU = some u.bytes := by
  obtain ⟨p, u, sg, rfl, hp, hu, hiv, hrp, hru, hsg, hz⟩ := h
  obtain ⟨hw, c, rfl, hc, hs⟩ := Accept.wfsig_of_dec hsg hz
  exact ⟨p, u, hw, c, rfl, hc, hs, hp, hu, hiv, hrp, hru⟩

theorem blen_some_ne {c : Bytes} (hc : c ≠ []) : blen (some c) ≠ 0 := by
  cases c with
  | nil => exact absurd rfl hc
  | cons x xs => simp [blen]

/-- per signer: encoding the decoded entry gives `reSig` of its wire form -/
theorem sigElem_marshal {x : Wire} {s : SigV} (h : C05.SigElem x s)
    (hm : GoVal.modelledPairs s.h.p = true ∧ GoVal.modelledPairs s.h.u = true) :
    Signature.marshal s = .ok (reSig x) := by
  obtain ⟨p, u, hw, c, rfl, hc, hs, hp, hu, hiv, hrp, hru⟩ := sigElem_shape h
  have hz : blen s.sig ≠ 0 := by rw [hs]; exact blen_some_ne hc
  rw [signature_marshal_of_decoded hrp hru hiv hz hm, hs]
  rfl

/-- all signers: the concatenation the encoder emits -/
theorem marshalSigs_of_decoded : ∀ (xs : List Wire) (l : List SigV), decSigList xs = .ok l →
    (∀ s ∈ l, GoVal.modelledPairs s.h.p = true ∧ GoVal.modelledPairs s.h.u = true) →
    marshalSigs l = .ok (xs.map reSig).flatten
  | [], l, h, _ => by
    rw [C05.decSigList_nil] at h
    cases h
    rfl
  | x :: xs, l, h, hm => by
    obtain ⟨s, r, hel, hr, rfl⟩ := C05.decSigList_cons_elem h
    have h1 := sigElem_marshal hel (hm s (List.mem_cons_self ..))
    have h2 := marshalSigs_of_decoded xs r hr (fun t ht => hm t (List.mem_cons_of_mem _ ht))
    simp [marshalSigs, h1, h2]

/-- encoding a decoded COSE_Sign, in terms of the items the decoder saw -/
theorem sign_marshal_of_decoded {m : SignMsg} {p u : Wire} {sgs : List Wire}
    (hh : decHeaders p u = .ok m.h) (hne : sgs ≠ []) (hs : decSigList sgs = .ok m.sigs)
    (hm : SignModelled m) :
    Sign.marshal m = .ok (0xd8 :: 0x62 :: 0x84 :: (p.bytes ++ (u.bytes ++
      (optBytesEnc m.payload ++ (encHead 4 m.sigs.length ++ (sgs.map reSig).flatten))))) := by
  obtain ⟨-, -, hiv, hrp, hru⟩ := decHeaders_ok hh
  have h1 := hdrs_marshal_verbatim hrp hru hiv hm.1
  have h2 := marshalSigs_of_decoded sgs m.sigs hs hm.2
  have hlen := (C05.decSigList_ok sgs m.sigs hs).1
  have hemp : m.sigs.isEmpty = false := by
    cases hl : m.sigs with
    | nil =>
      rw [hl] at hlen
      exact absurd (List.eq_nil_of_length_eq_zero hlen.symm) hne
    | cons a r => rfl
  simp [Sign.marshal, hemp, h1, h2]

/-- 4. decoding then encoding a COSE_Sign reproduces BOTH header buckets of the body (`p.bytes`,
    `u.bytes`) AND of every signer (inside `reSig`) byte for byte — they are the input's own
    sub-slices; tag, outer array head (`84`) and each signer's array head (`83`) are the ones
    the decoder required; the output differs from the input at most in the heads of the payload,
    of each signature byte string and of the signatures array (all re-emitted shortest) -/
theorem reencode_sign (b : Bytes) (m : SignMsg) (hd : Sign.unmarshal b = .ok m)
    (hm : (GoVal.modelledPairs m.h.p = true ∧ GoVal.modelledPairs m.h.u = true) ∧
      ∀ s ∈ m.sigs, GoVal.modelledPairs s.h.p = true ∧ GoVal.modelledPairs s.h.u = true) :
    ∃ (p u pl : Wire) (hws : HW) (sgs : List Wire),
      b = 0xd8 :: 0x62 :: (Wire.arr .imm [p, u, pl, .arr hws sgs]).bytes ∧
      Sign.marshal m = .ok (0xd8 :: 0x62 :: 0x84 :: (p.bytes ++ (u.bytes ++
        (optBytesEnc m.payload ++ (encHead 4 m.sigs.length ++ (sgs.map reSig).flatten))))) ∧
      (Wire.arr .imm [p, u, pl, .arr hws sgs]).wf = true ∧
      (Wire.arr .imm [p, u, pl, .arr hws sgs]).inLimits false 0 = true ∧
      m.h.rawP = some p.bytes ∧ m.h.rawU = some u.bytes ∧
      ((m.payload = none ∧ pl.bytes = [0xf6]) ∨
        ∃ (w : HW) (c : Bytes), m.payload = some c ∧ pl.bytes = headBytes 2 w c.length ++ c) ∧
      sgs ≠ [] ∧ m.sigs.length = sgs.length ∧
      ∀ i (h1 : i < sgs.length) (h2 : i < m.sigs.length),
        ∃ (pi ui : Wire) (wi : HW) (ci : Bytes),
          sgs[i] = .arr .imm [pi, ui, .bstr wi ci] ∧ ci ≠ [] ∧
          m.sigs[i].h.rawP = some pi.bytes ∧ m.sigs[i].h.rawU = some ui.bytes ∧
          m.sigs[i].sig = some ci ∧
          reSig sgs[i] = 0x83 :: (pi.bytes ++ (ui.bytes ++ encBstr ci)) := by
  obtain ⟨hws, p, u, pl, sgs, hb, -, hwf, -, hlim, hpl, hh, hne, hs⟩ :=
    C05.sign_accept_envelope_full hd
  obtain ⟨-, -, -, hrp, hru⟩ := decHeaders_ok hh
  obtain ⟨hlen, hidx⟩ := C05.decSigList_ok sgs m.sigs hs
  refine ⟨p, u, pl, hws, sgs, hb, sign_marshal_of_decoded hh hne hs hm, hwf, hlim, hrp, hru,
    item_bytes hpl, hne, hlen, ?_⟩
  intro i h1 h2
  obtain ⟨pi, ui, wi, ci, hx, hc, hsi, -, -, -, hrpi, hrui⟩ :=
    sigElem_shape (x := sgs[i]) (s := m.sigs[i]) (hidx i h1 h2)
  exact ⟨pi, ui, wi, ci, hx, hc, hrpi, hrui, hsi, by rw [hx]; rfl⟩

end C09
