/-
  CoseProofs.Deep.NestedRoundTrip — the value-level encode → parse → decode round trip of the
  model's CBOR layer, lifted from scalars (`Deep/RoundTrip.lean`) to NESTED values: arrays and maps
  of any shape inside a header value (crit = array of labels, CWT claims = map, key_ops = array,
  arrays of maps of arrays ...).  Core Lean only; nothing outside this file is modified.

  THE DATA MODEL  (`RoundTrip.RTVal d v`: "`v`, met at nesting depth `d`, makes the round trip")
    * scalars: exactly `FlatVal` (integers of any Go integer kind / `Algorithm` / `Curve` in the
      int64 range, valid UTF-8 text, byte strings, booleans, nil).  `UintOK` is NOT needed at the
      value level (it only matters for header validation), so every `FlatVal` is covered.
    * `.arr xs`: every element `RTVal (d+1)`, `xs.length ≤ maxElems`, `d + 1 ≤ maxNested`.
    * `.map kvs`: every key `RTKey` (a flat value other than a byte string: integer, text, bool,
      nil), every value `RTVal (d+1)`, keys pairwise `KeyDistinct` = distinct AFTER encoding
      (`keyDistinct_iff_bytes`: the encoded key bytes differ; equivalently the keys the decoder
      reads back are not `==`), `kvs.length ≤ maxElems`, `d + 1 ≤ maxNested`.
    The depth / size clauses are the parser's (`Wire.inLimits`, `maxNested` = 32, `maxElems` =
    131072), counted the way the parser counts them.  `RTVal.mono`: fitting at depth `d` implies
    fitting at any smaller depth.
    EXCLUDED (the predicate is `False` on them): floats, simple values, `[]byte(nil)`,
    countersignature structs / lists, opaque values; tags and bignums do not exist in `GoVal`.
    Byte-string map keys are excluded (`[]byte` is not a Go map key; the model's decoder marks
    them `unmodelled`).

  WHAT IS PROVED
    C08.value_roundtrip_nested       for `RTVal d v` the encoder emits ONE item `w` with
                                     `w.wf`, `∀ t, w.inLimits t d`, `w.hasTag = false` and
                                     `decodeAny w = .ok (normValN v)`  (same five conjuncts, same
                                     order, as `C08.flat_value_roundtrip`)
    C08.value_roundtrip_nested_wire  the item is `wireN v` and is `Plain`
    C08.value_roundtrip_nested_top   at depth 0 also `∀ t, parseTop t w.bytes = some w`
    C08.nested_map_roundtrip         `C08.flat_map_roundtrip` conjunct for conjunct for a header map
                                     with flat labels and NESTED values (`NestedMap`); every
                                     `FlatMap` is a `NestedMap` (`FlatMap.nested`)
    C08.normValN_idem                `normValN (normValN v) = normValN v`, no hypothesis
    C08.normValN_closed              `RTVal d v → RTVal d (normValN v)` and normalising does not
                                     change the encoding (`wireN_normValN`, no hypothesis)
    C08.decoded_rtVal                DECODER CLOSURE: `decodeAny w = .ok v`, `w` well formed, in
                                     limits at depth `d` and `Plain` ⟹ `RTVal d v`, `TypedN v`,
                                     and `SortedN v → normValN v = v`
    C08.parsed_decoded_rtVal         the same from `parseTop t bs = some w`
    C08.nested_reencode_fixpoint     clear-raw fixpoint for one value: decoded ⟹ re-encodes ⟹
                                     decodes to `normValN v`, which is in the model, is its own
                                     normal form and encodes to the same bytes
    C08.encoded_decodes_to_normal    what the ENCODER emits decodes to a value with
                                     `normValN v' = v'`
    C05.decoded_no_duplicate_keys    `decodeAny w = .ok v → NoDupKeys v`: no map at any depth of a
                                     decoded value has two `==` keys (no hypothesis at all)
    C05.decoded_map_keys_distinct    the top-level entries, both directions of `keyEq`

  NORMAL FORM  `normValN`: `normVal` on scalars, element-wise on arrays, on maps entry-wise
  (`normEntryN`: key `normVal`, value `normValN`) and sorted bytewise by encoded key
  (`sortEntries`, the function `Deep/RoundTrip.lean` uses, so flat and nested statements compose).

  HYPOTHESES THAT REMAIN, AND WHY
    * `Pairwise KeyDistinct` inside `RTVal`: needed — `value_roundtrip_nested_needs_distinct`:
      `[{int64(1): nil, int(1): nil}]` is encoded (`81 a2 01 f6 01 f6`), parsed, and REFUSED by
      the decoder.  Nothing in the library checks keys of nested maps on the way out
      (`validateHeaderParameters` only looks at the top-level labels).
    * the depth clause: needed and tight — `value_roundtrip_nested_needs_depth`: 32 nested arrays
      make the round trip, 33 are encoded but the parser refuses the bytes.  (The size clause
      `≤ maxElems` is the same limit of the same parser; no concrete 131073-element witness is
      evaluated here.)
    * `Plain w` in the closure theorems (wire side; the nested form of `ClearRaw.ScalarItem`): a
      float value or a simple value other than false/true/null/undefined decodes fine but is
      outside `RTVal`.  Tags and half/single floats need no hypothesis: `decodeAny` is
      `unmodelled` on them, so `decodeAny w = .ok v` already excludes them.
    * `SortedN v` for `normValN v = v` on DECODED values: needed — `decoded_normal_needs_sorted`:
      the decoder keeps wire order and accepts non-canonical key order (`a2 02 00 01 00`), so a
      decoded map is its own normal form only if the sender sorted its keys; `TypedN v` (every
      integer at every depth is `int64`) holds unconditionally.  Values decoded from what the
      library's own encoder emitted are always normal (`C08.encoded_decodes_to_normal`).

  NOT DONE HERE: the bucket level (`encodeBucket` / `decProtected` / `decUnprot` with nested
  values needs `validateHeaderParameters` / `checkParam` / `ensureCritical` on `normValN`-typed
  values: crit entries change Go type under decoding) — `nested_map_roundtrip` is the generic-map
  half of that.

  Proof technique: two induction principles (`goVal_ind`, `wire_ind`) are derived once from the
  nested inductives by mutual structural recursion; everything else is ordinary induction with
  per-element hypotheses (`∀ x ∈ xs, …`).
-/
import CoseProofs.Deep.RoundTrip
open CoseModel

namespace RoundTrip

/-! ### C05: duplicate map keys are rejected at every depth -/

/-- Go `==` says the keys of the two entries differ -/
def KeyNe (a b : GoVal × GoVal) : Prop := a.1.keyEq b.1 = false

mutual
/-- no map anywhere inside the value (any depth, also inside keys and countersignature header
    buckets) has two entries whose keys are `==` -/
def NoDupKeys : GoVal → Prop
  | .arr xs => NoDupKeysList xs
  | .map kvs => kvs.Pairwise KeyNe ∧ NoDupKeysPairs kvs
  | .csig _ p _ u _ =>
      (p.Pairwise KeyNe ∧ NoDupKeysPairs p) ∧ (u.Pairwise KeyNe ∧ NoDupKeysPairs u)
  | .csigs cs => NoDupKeysList cs
  | _ => True
def NoDupKeysList : List GoVal → Prop
  | [] => True
  | x :: xs => NoDupKeys x ∧ NoDupKeysList xs
def NoDupKeysPairs : List (GoVal × GoVal) → Prop
  | [] => True
  | (k, v) :: r => NoDupKeys k ∧ NoDupKeys v ∧ NoDupKeysPairs r
end

theorem noDupKeysPairs_iff (l : GoMap) :
    NoDupKeysPairs l ↔ ∀ e ∈ l, NoDupKeys e.1 ∧ NoDupKeys e.2 := by
  induction l with
  | nil => simp [NoDupKeysPairs]
  | cons e r ih =>
    obtain ⟨k, v⟩ := e
    simp only [NoDupKeysPairs, ih, List.forall_mem_cons, and_assoc]

theorem noDupKeysList_iff (l : List GoVal) : NoDupKeysList l ↔ ∀ x ∈ l, NoDupKeys x := by
  induction l with
  | nil => simp [NoDupKeysList]
  | cons e r ih => simp only [NoDupKeysList, ih, List.forall_mem_cons]

theorem keyEq_comm (a b : GoVal) : a.keyEq b = b.keyEq a := by
  cases a <;> cases b <;> simp only [GoVal.keyEq] <;> simp only [eq_comm]

mutual
theorem decodeAny_noDup : ∀ (w : Wire) (v : GoVal), decodeAny w = .ok v → NoDupKeys v
  | .uint _ n, v, h => by
    unfold decodeAny at h; split at h <;> cases h; simp [NoDupKeys]
  | .nint _ n, v, h => by
    unfold decodeAny at h; split at h <;> cases h; simp [NoDupKeys]
  | .bstr _ b, v, h => by
    unfold decodeAny at h; cases h; simp [NoDupKeys]
  | .tstr _ b, v, h => by
    unfold decodeAny at h; split at h <;> cases h; simp [NoDupKeys]
  | .tag _ _ _, v, h => by simp [decodeAny] at h
  | .prim hw n, v, h => by
    cases hw <;> simp only [decodeAny] at h
    · repeat' split at h
      all_goals (cases h; simp [NoDupKeys])
    all_goals first | (cases h; simp [NoDupKeys]) | cases h
  | .arr _ xs, v, h => by
    unfold decodeAny at h
    cases hl : decodeList xs with
    | ok l =>
      simp only [hl] at h; cases h
      simp only [NoDupKeys]
      exact decodeList_noDup xs l hl
    | err e => simp [hl] at h
    | panic => simp [hl] at h
    | unmodelled => simp [hl] at h
  | .map _ kvs, v, h => by
    unfold decodeAny at h
    cases hl : decodePairs kvs [] with
    | ok l =>
      simp only [hl] at h; cases h
      simp only [NoDupKeys]
      have := decodePairs_noDup kvs [] l hl (by simp) (by intro e he; cases he)
      exact ⟨this.1, (noDupKeysPairs_iff l).mpr this.2⟩
    | err e => simp [hl] at h
    | panic => simp [hl] at h
    | unmodelled => simp [hl] at h
theorem decodeList_noDup : ∀ (xs : List Wire) (l : List GoVal), decodeList xs = .ok l →
    NoDupKeysList l
  | [], l, h => by unfold decodeList at h; cases h; simp [NoDupKeysList]
  | x :: xs, l, h => by
    unfold decodeList at h
    cases hx : decodeAny x <;> cases hxs : decodeList xs <;> simp [hx, hxs] at h
    subst h
    exact ⟨decodeAny_noDup x _ hx, decodeList_noDup xs _ hxs⟩
theorem decodePairs_noDup : ∀ (kvs : List (Wire × Wire)) (acc out : GoMap),
    decodePairs kvs acc = .ok out → acc.reverse.Pairwise KeyNe →
    (∀ e ∈ acc, NoDupKeys e.1 ∧ NoDupKeys e.2) →
    out.Pairwise KeyNe ∧ ∀ e ∈ out, NoDupKeys e.1 ∧ NoDupKeys e.2
  | [], acc, out, h, hp, hacc => by
    unfold decodePairs at h; cases h
    exact ⟨hp, fun e he => hacc e (List.mem_reverse.mp he)⟩
  | (k, v) :: r, acc, out, h, hp, hacc => by
    unfold decodePairs at h
    cases hk : decodeAny k with
    | ok key =>
      have hkm := decodeAny_noDup k key hk
      simp only [hk] at h
      split at h
      · cases h
      · cases h
      · split at h
        · cases h
        · cases hv : decodeAny v with
          | ok value =>
            have hvm := decodeAny_noDup v value hv
            simp only [hv] at h
            split at h
            · cases h
            · rename_i hany
              refine decodePairs_noDup r _ out h ?_ ?_
              · rw [List.reverse_cons, List.pairwise_append]
                refine ⟨hp, List.pairwise_singleton _ _, ?_⟩
                intro a ha b hb
                simp only [List.mem_singleton] at hb
                subst hb
                simp only [List.any_eq_true, not_exists, not_and, Bool.not_eq_true] at hany
                exact hany a (List.mem_reverse.mp ha)
              · intro e he
                rcases List.mem_cons.mp he with rfl | he
                · exact ⟨hkm, hvm⟩
                · exact hacc e he
          | err e => simp [hv] at h
          | panic => simp [hv] at h
          | unmodelled => simp [hv] at h
    | err e => simp [hk] at h
    | panic => simp [hk] at h
    | unmodelled => simp [hk] at h
end

/-! ### induction principles for the two nested inductives -/

def isNode : GoVal → Bool
  | .arr _ => true
  | .map _ => true
  | _ => false

mutual
theorem goVal_ind {P : GoVal → Prop} (harr : ∀ xs, (∀ x ∈ xs, P x) → P (.arr xs))
    (hmap : ∀ kvs : GoMap, (∀ e ∈ kvs, P e.2) → P (.map kvs))
    (hleaf : ∀ v, isNode v = false → P v) : ∀ v, P v
  | .arr xs => harr xs (goValList_ind harr hmap hleaf xs)
  | .map kvs => hmap kvs (goValPairs_ind harr hmap hleaf kvs)
  | .nil => hleaf _ rfl
  | .int _ _ => hleaf _ rfl
  | .alg _ => hleaf _ rfl
  | .crv _ => hleaf _ rfl
  | .str _ => hleaf _ rfl
  | .bytes _ => hleaf _ rfl
  | .bytesNil => hleaf _ rfl
  | .bool _ => hleaf _ rfl
  | .simple _ => hleaf _ rfl
  | .float _ => hleaf _ rfl
  | .csig .. => hleaf _ rfl
  | .csigNil => hleaf _ rfl
  | .csigs _ => hleaf _ rfl
  | .csigsNil => hleaf _ rfl
  | .opaque => hleaf _ rfl
theorem goValList_ind {P : GoVal → Prop} (harr : ∀ xs, (∀ x ∈ xs, P x) → P (.arr xs))
    (hmap : ∀ kvs : GoMap, (∀ e ∈ kvs, P e.2) → P (.map kvs))
    (hleaf : ∀ v, isNode v = false → P v) : ∀ (xs : List GoVal), ∀ x ∈ xs, P x
  | [] => fun _ h => nomatch h
  | y :: ys => List.forall_mem_cons.mpr
      ⟨goVal_ind harr hmap hleaf y, goValList_ind harr hmap hleaf ys⟩
theorem goValPairs_ind {P : GoVal → Prop} (harr : ∀ xs, (∀ x ∈ xs, P x) → P (.arr xs))
    (hmap : ∀ kvs : GoMap, (∀ e ∈ kvs, P e.2) → P (.map kvs))
    (hleaf : ∀ v, isNode v = false → P v) : ∀ (kvs : List (GoVal × GoVal)), ∀ e ∈ kvs, P e.2
  | [] => fun _ h => nomatch h
  | (_, v) :: r => List.forall_mem_cons.mpr
      ⟨goVal_ind harr hmap hleaf v, goValPairs_ind harr hmap hleaf r⟩
end

mutual
theorem wire_ind {P : Wire → Prop} (harr : ∀ hw xs, (∀ x ∈ xs, P x) → P (.arr hw xs))
    (hmap : ∀ hw (kvs : List (Wire × Wire)), (∀ e ∈ kvs, P e.1 ∧ P e.2) → P (.map hw kvs))
    (hleaf : ∀ w, (∀ hw xs, w ≠ .arr hw xs) → (∀ hw kvs, w ≠ .map hw kvs) → P w) : ∀ w, P w
  | .arr hw xs => harr hw xs (wireList_ind harr hmap hleaf xs)
  | .map hw kvs => hmap hw kvs (wirePairs_ind harr hmap hleaf kvs)
  | .uint .. => hleaf _ (fun _ _ h => by cases h) (fun _ _ h => by cases h)
  | .nint .. => hleaf _ (fun _ _ h => by cases h) (fun _ _ h => by cases h)
  | .bstr .. => hleaf _ (fun _ _ h => by cases h) (fun _ _ h => by cases h)
  | .tstr .. => hleaf _ (fun _ _ h => by cases h) (fun _ _ h => by cases h)
  | .tag .. => hleaf _ (fun _ _ h => by cases h) (fun _ _ h => by cases h)
  | .prim .. => hleaf _ (fun _ _ h => by cases h) (fun _ _ h => by cases h)
theorem wireList_ind {P : Wire → Prop} (harr : ∀ hw xs, (∀ x ∈ xs, P x) → P (.arr hw xs))
    (hmap : ∀ hw (kvs : List (Wire × Wire)), (∀ e ∈ kvs, P e.1 ∧ P e.2) → P (.map hw kvs))
    (hleaf : ∀ w, (∀ hw xs, w ≠ .arr hw xs) → (∀ hw kvs, w ≠ .map hw kvs) → P w) :
    ∀ (xs : List Wire), ∀ x ∈ xs, P x
  | [] => fun _ h => nomatch h
  | y :: ys => List.forall_mem_cons.mpr
      ⟨wire_ind harr hmap hleaf y, wireList_ind harr hmap hleaf ys⟩
theorem wirePairs_ind {P : Wire → Prop} (harr : ∀ hw xs, (∀ x ∈ xs, P x) → P (.arr hw xs))
    (hmap : ∀ hw (kvs : List (Wire × Wire)), (∀ e ∈ kvs, P e.1 ∧ P e.2) → P (.map hw kvs))
    (hleaf : ∀ w, (∀ hw xs, w ≠ .arr hw xs) → (∀ hw kvs, w ≠ .map hw kvs) → P w) :
    ∀ (kvs : List (Wire × Wire)), ∀ e ∈ kvs, P e.1 ∧ P e.2
  | [] => fun _ h => nomatch h
  | (k, v) :: r => List.forall_mem_cons.mpr
      ⟨⟨wire_ind harr hmap hleaf k, wire_ind harr hmap hleaf v⟩, wirePairs_ind harr hmap hleaf r⟩
end

/-! ### the nested data model -/

/-- map keys that make the round trip: the flat values Go can hash and the generic decoder reads
    back inside the modelled region (integers of any Go integer kind / `Algorithm` / `Curve` in the
    int64 range, valid UTF-8 text, booleans, nil).  Byte-string keys are excluded: `[]byte` is not
    a Go map key and the decoder side of the model marks them `unmodelled`. -/
def RTKey : GoVal → Prop
  | .int _ n => int64Range n
  | .alg n => int64Range n
  | .crv n => int64Range n
  | .str b => utf8Valid b = true ∧ b.length < 18446744073709551616
  | .bool _ => True
  | .nil => True
  | _ => False

/-- the two entries have different keys AFTER encoding: the keys the decoder reads back
    (`normVal`) are not `==`.  (`keyDistinct_iff_bytes`: the same as different encoded key
    bytes.) -/
def KeyDistinct (a b : GoVal × GoVal) : Prop := (normVal a.1).keyEq (normVal b.1) = false

mutual
/-- `RTVal d v`: `v`, met at nesting depth `d`, is inside the region the round trip is proved
    for — a flat scalar, an array of such values, or a map with `RTKey` keys that are pairwise
    distinct after encoding and such values; array / map sizes within `maxElems`, nesting within
    `maxNested` (the decoder's limits, `Wire.inLimits`). -/
def RTVal : Nat → GoVal → Prop
  | d, .arr xs => d + 1 ≤ maxNested ∧ xs.length ≤ maxElems ∧ RTList (d + 1) xs
  | d, .map kvs =>
      d + 1 ≤ maxNested ∧ kvs.length ≤ maxElems ∧ kvs.Pairwise KeyDistinct ∧ RTPairs (d + 1) kvs
  | _, v => FlatVal v
def RTList : Nat → List GoVal → Prop
  | _, [] => True
  | d, x :: xs => RTVal d x ∧ RTList d xs
def RTPairs : Nat → List (GoVal × GoVal) → Prop
  | _, [] => True
  | d, (k, v) :: r => RTKey k ∧ RTVal d v ∧ RTPairs d r
end

theorem rtList_iff (d : Nat) (l : List GoVal) : RTList d l ↔ ∀ x ∈ l, RTVal d x := by
  induction l with
  | nil => simp [RTList]
  | cons e r ih => simp only [RTList, ih, List.forall_mem_cons]

theorem rtPairs_iff (d : Nat) (l : GoMap) :
    RTPairs d l ↔ ∀ e ∈ l, RTKey e.1 ∧ RTVal d e.2 := by
  induction l with
  | nil => simp [RTPairs]
  | cons e r ih =>
    obtain ⟨k, v⟩ := e
    simp only [RTPairs, ih, List.forall_mem_cons, and_assoc]

theorem rtVal_leaf {v : GoVal} (d : Nat) (h : isNode v = false) : RTVal d v ↔ FlatVal v := by
  cases v <;> simp only [isNode, reduceCtorEq] at h <;> simp only [RTVal]

theorem RTVal.of_flat {v : GoVal} (d : Nat) (h : FlatVal v) : RTVal d v := by
  cases v <;> simp only [FlatVal] at h <;> simp only [RTVal, FlatVal] <;> exact h

theorem RTKey.flatVal {k : GoVal} (h : RTKey k) : FlatVal k := by
  cases k <;> simp only [RTKey] at h <;> exact h

theorem FlatLabel.rtKey {k : GoVal} (h : FlatLabel k) : RTKey k := by
  cases k <;> simp only [FlatLabel] at h <;> exact h

/-! ### the wire item and the normal form of a nested value -/

/-- wire pairs sorted bytewise by encoded key -/
def sortWire (l : List (Wire × Wire)) : List (Wire × Wire) :=
  l.mergeSort (fun a b => bytesLe a.1.bytes b.1.bytes)

mutual
/-- the item the encoder emits: shortest heads, map entries sorted bytewise by encoded key -/
def wireN : GoVal → Wire
  | .arr xs => .arr (HW.shortest xs.length) (wireListN xs)
  | .map kvs => .map (HW.shortest kvs.length) (sortWire (wirePairsN kvs))
  | v => valWire v
def wireListN : List GoVal → List Wire
  | [] => []
  | x :: xs => wireN x :: wireListN xs
def wirePairsN : List (GoVal × GoVal) → List (Wire × Wire)
  | [] => []
  | (k, v) :: r => (valWire k, wireN v) :: wirePairsN r
end

mutual
/-- what the generic decoder returns for the encoding: scalars as `normVal` types them, arrays
    element-wise, maps entry-wise and in wire order, i.e. sorted bytewise by encoded key -/
def normValN : GoVal → GoVal
  | .arr xs => .arr (normListN xs)
  | .map kvs => .map (sortEntries (normPairsN kvs))
  | v => normVal v
def normListN : List GoVal → List GoVal
  | [] => []
  | x :: xs => normValN x :: normListN xs
def normPairsN : List (GoVal × GoVal) → List (GoVal × GoVal)
  | [] => []
  | (k, v) :: r => (normVal k, normValN v) :: normPairsN r
end

def entryWireN (e : GoVal × GoVal) : Wire × Wire := (valWire e.1, wireN e.2)
def normEntryN (e : GoVal × GoVal) : GoVal × GoVal := (normVal e.1, normValN e.2)

theorem wireListN_eq (xs : List GoVal) : wireListN xs = xs.map wireN := by
  induction xs with
  | nil => rfl
  | cons x r ih => simp only [wireListN, ih, List.map_cons]

theorem wirePairsN_eq (g : GoMap) : wirePairsN g = g.map entryWireN := by
  induction g with
  | nil => rfl
  | cons e r ih => obtain ⟨k, v⟩ := e; simp only [wirePairsN, ih, List.map_cons, entryWireN]

theorem normListN_eq (xs : List GoVal) : normListN xs = xs.map normValN := by
  induction xs with
  | nil => rfl
  | cons x r ih => simp only [normListN, ih, List.map_cons]

theorem normPairsN_eq (g : GoMap) : normPairsN g = g.map normEntryN := by
  induction g with
  | nil => rfl
  | cons e r ih => obtain ⟨k, v⟩ := e; simp only [normPairsN, ih, List.map_cons, normEntryN]

theorem wireN_leaf {v : GoVal} (h : isNode v = false) : wireN v = valWire v := by
  cases v <;> simp only [isNode, reduceCtorEq] at h <;> simp only [wireN]

theorem normValN_leaf {v : GoVal} (h : isNode v = false) : normValN v = normVal v := by
  cases v <;> simp only [isNode, reduceCtorEq] at h <;> simp only [normValN]

theorem valWire_of_normVal (k : GoVal) : valWire (normVal k) = valWire k := by
  cases k <;> rfl

theorem normVal_normVal (k : GoVal) : normVal (normVal k) = normVal k := by
  cases k <;> rfl

theorem sortWire_map (g : GoMap) :
    sortWire (g.map entryWireN) = (sortEntries g).map entryWireN := by
  unfold sortWire sortEntries
  exact (List.map_mergeSort
    (r := fun (a b : GoVal × GoVal) => bytesLe (valWire a.1).bytes (valWire b.1).bytes)
    (s := fun (a b : Wire × Wire) => bytesLe a.1.bytes b.1.bytes) (f := entryWireN)
    (fun _ _ _ _ => rfl)).symm

theorem sortPairs_mapN (g : GoMap) :
    sortPairs (g.map (fun e => wireBytes (entryWireN e)))
      = (sortEntries g).map (fun e => wireBytes (entryWireN e)) := by
  unfold sortPairs sortEntries
  exact (List.map_mergeSort
    (r := fun (a b : GoVal × GoVal) => bytesLe (valWire a.1).bytes (valWire b.1).bytes)
    (s := fun (a b : Bytes × Bytes) => bytesLe a.1 b.1) (f := fun e => wireBytes (entryWireN e))
    (fun _ _ _ _ => rfl)).symm

theorem sortEntries_mapN (g : GoMap) :
    sortEntries (g.map normEntryN) = (sortEntries g).map normEntryN := by
  unfold sortEntries
  exact (List.map_mergeSort
    (r := fun (a b : GoVal × GoVal) => bytesLe (valWire a.1).bytes (valWire b.1).bytes)
    (s := fun (a b : GoVal × GoVal) => bytesLe (valWire a.1).bytes (valWire b.1).bytes)
    (f := normEntryN)
    (fun a _ b _ => by simp only [normEntryN, valWire_of_normVal])).symm

theorem wireN_arr (xs : List GoVal) :
    wireN (.arr xs) = .arr (HW.shortest xs.length) (xs.map wireN) := by
  simp only [wireN, wireListN_eq]

theorem wireN_map (g : GoMap) :
    wireN (.map g) = .map (HW.shortest g.length) ((sortEntries g).map entryWireN) := by
  simp only [wireN, wirePairsN_eq, sortWire_map]

theorem normValN_arr (xs : List GoVal) : normValN (.arr xs) = .arr (xs.map normValN) := by
  simp only [normValN, normListN_eq]

theorem normValN_map (g : GoMap) :
    normValN (.map g) = .map ((sortEntries g).map normEntryN) := by
  simp only [normValN, normPairsN_eq, sortEntries_mapN]

/-! ### scalar-only wire items, nested -/

mutual
/-- no float, no simple value other than false / true / null / undefined, no tag, at any depth
    (the nested form of `ClearRaw.ScalarItem`) -/
def Plain : Wire → Bool
  | .uint .. => true
  | .nint .. => true
  | .bstr .. => true
  | .tstr .. => true
  | .prim .imm n => decide (20 ≤ n)
  | .prim _ _ => false
  | .tag .. => false
  | .arr _ xs => PlainList xs
  | .map _ kvs => PlainPairs kvs
def PlainList : List Wire → Bool
  | [] => true
  | x :: xs => Plain x && PlainList xs
def PlainPairs : List (Wire × Wire) → Bool
  | [] => true
  | (k, v) :: r => Plain k && Plain v && PlainPairs r
end

theorem wfList_iff (ws : List Wire) : Wire.wfList ws = true ↔ ∀ w ∈ ws, w.wf = true := by
  induction ws with
  | nil => simp [Wire.wfList]
  | cons w r ih => simp only [Wire.wfList, Bool.and_eq_true, ih, List.forall_mem_cons]

theorem wfPairs_iff (ps : List (Wire × Wire)) :
    Wire.wfPairs ps = true ↔ ∀ p ∈ ps, p.1.wf = true ∧ p.2.wf = true := by
  induction ps with
  | nil => simp [Wire.wfPairs]
  | cons p r ih =>
    obtain ⟨k, v⟩ := p
    simp only [Wire.wfPairs, Bool.and_eq_true, ih, List.forall_mem_cons]

theorem inLimitsList_iff (t : Bool) (d : Nat) (ws : List Wire) :
    Wire.inLimitsList t d ws = true ↔ ∀ w ∈ ws, w.inLimits t d = true := by
  induction ws with
  | nil => simp [Wire.inLimitsList]
  | cons w r ih => simp only [Wire.inLimitsList, Bool.and_eq_true, ih, List.forall_mem_cons]

theorem inLimitsPairs_iff (t : Bool) (d : Nat) (ps : List (Wire × Wire)) :
    Wire.inLimitsPairs t d ps = true ↔
      ∀ p ∈ ps, p.1.inLimits t d = true ∧ p.2.inLimits t d = true := by
  induction ps with
  | nil => simp [Wire.inLimitsPairs]
  | cons p r ih =>
    obtain ⟨k, v⟩ := p
    simp only [Wire.inLimitsPairs, Bool.and_eq_true, ih, List.forall_mem_cons]

theorem hasTagList_iff (ws : List Wire) :
    Wire.hasTagList ws = false ↔ ∀ w ∈ ws, w.hasTag = false := by
  induction ws with
  | nil => simp [Wire.hasTagList]
  | cons w r ih => simp only [Wire.hasTagList, Bool.or_eq_false_iff, ih, List.forall_mem_cons]

theorem hasTagPairs_iff (ps : List (Wire × Wire)) :
    Wire.hasTagPairs ps = false ↔ ∀ p ∈ ps, p.1.hasTag = false ∧ p.2.hasTag = false := by
  induction ps with
  | nil => simp [Wire.hasTagPairs]
  | cons p r ih =>
    obtain ⟨k, v⟩ := p
    simp only [Wire.hasTagPairs, Bool.or_eq_false_iff, ih, List.forall_mem_cons]

theorem plainList_iff (ws : List Wire) : PlainList ws = true ↔ ∀ w ∈ ws, Plain w = true := by
  induction ws with
  | nil => simp [PlainList]
  | cons w r ih => simp only [PlainList, Bool.and_eq_true, ih, List.forall_mem_cons]

theorem plainPairs_iff (ps : List (Wire × Wire)) :
    PlainPairs ps = true ↔ ∀ p ∈ ps, Plain p.1 = true ∧ Plain p.2 = true := by
  induction ps with
  | nil => simp [PlainPairs]
  | cons p r ih =>
    obtain ⟨k, v⟩ := p
    simp only [PlainPairs, Bool.and_eq_true, ih, List.forall_mem_cons]

theorem valWire_plain (v : GoVal) : Plain (valWire v) = true := by
  cases v <;> simp only [valWire, Plain, intWire] <;> first | rfl | (split <;> rfl)

/-! ### encoder → decoder -/

/-- what the round trip establishes for one value met at depth `d` -/
def VOK (cfg : EncCfg) (d : Nat) (v : GoVal) : Prop :=
  encodeAny cfg v = some (wireN v).bytes ∧ (wireN v).wf = true ∧
  (∀ t, (wireN v).inLimits t d = true) ∧ (wireN v).hasTag = false ∧ Plain (wireN v) = true ∧
  decodeAny (wireN v) = .ok (normValN v)

theorem vok_leaf (cfg : EncCfg) (d : Nat) {v : GoVal} (hn : isNode v = false) (hv : FlatVal v) :
    VOK cfg d v := by
  unfold VOK
  rw [wireN_leaf hn, normValN_leaf hn]
  exact ⟨valWire_bytes cfg hv, valWire_wf hv, fun t => valWire_inLimits v t d, valWire_noTag v,
    valWire_plain v, valWire_decode hv⟩

theorem encodeList_of (cfg : EncCfg) : ∀ xs : List GoVal,
    (∀ x ∈ xs, encodeAny cfg x = some (wireN x).bytes) →
    encodeList cfg xs = some (Wire.bytesList (xs.map wireN))
  | [], _ => by simp only [encodeList, List.map_nil, Wire.bytesList]
  | x :: xs, h => by
    have h1 := h x (List.mem_cons_self ..)
    have h2 := encodeList_of cfg xs (fun y hy => h y (List.mem_cons_of_mem _ hy))
    simp only [encodeList, h1, h2, List.map_cons, Wire.bytesList]

theorem decodeList_of : ∀ xs : List GoVal,
    (∀ x ∈ xs, decodeAny (wireN x) = .ok (normValN x)) →
    decodeList (xs.map wireN) = .ok (xs.map normValN)
  | [], _ => by simp only [List.map_nil, decodeList]
  | x :: xs, h => by
    have h1 := h x (List.mem_cons_self ..)
    have h2 := decodeList_of xs (fun y hy => h y (List.mem_cons_of_mem _ hy))
    simp only [List.map_cons, decodeList, h1, h2]

theorem vok_arr (cfg : EncCfg) (d : Nat) (xs : List GoVal) (hd : d + 1 ≤ maxNested)
    (hlen : xs.length ≤ maxElems) (ih : ∀ x ∈ xs, VOK cfg (d + 1) x) : VOK cfg d (.arr xs) := by
  unfold VOK
  rw [wireN_arr, normValN_arr]
  refine ⟨?_, ?_, ?_, ?_, ?_, ?_⟩
  · simp only [encodeAny, encodeList_of cfg xs (fun x hx => (ih x hx).1), Wire.bytes,
      List.length_map, encHead]
  · simp only [Wire.wf, List.length_map, shortest_fits_elems hlen, Bool.true_and]
    rw [wfList_iff]
    intro w hw
    obtain ⟨x, hx, rfl⟩ := List.mem_map.mp hw
    exact (ih x hx).2.1
  · intro t
    simp only [Wire.inLimits, List.length_map, hd, hlen, decide_true, Bool.true_and]
    rw [inLimitsList_iff]
    intro w hw
    obtain ⟨x, hx, rfl⟩ := List.mem_map.mp hw
    exact (ih x hx).2.2.1 t
  · simp only [Wire.hasTag]
    rw [hasTagList_iff]
    intro w hw
    obtain ⟨x, hx, rfl⟩ := List.mem_map.mp hw
    exact (ih x hx).2.2.2.1
  · simp only [Plain]
    rw [plainList_iff]
    intro w hw
    obtain ⟨x, hx, rfl⟩ := List.mem_map.mp hw
    exact (ih x hx).2.2.2.2.1
  · simp only [decodeAny, decodeList_of xs (fun x hx => (ih x hx).2.2.2.2.2)]

theorem KeyDistinct.symm {a b : GoVal × GoVal} (h : KeyDistinct a b) : KeyDistinct b a := by
  unfold KeyDistinct at *
  rw [keyEq_comm]; exact h

theorem keyDistinct_sorted {g : GoMap} (h : g.Pairwise KeyDistinct) :
    (sortEntries g).Pairwise KeyDistinct :=
  ((sortEntries_perm g).pairwise_iff (fun h => KeyDistinct.symm h)).mpr h

theorem encodePairs_N (cfg : EncCfg) {g : GoMap}
    (h : ∀ e ∈ g, RTKey e.1 ∧ encodeAny cfg e.2 = some (wireN e.2).bytes) :
    encodePairs cfg g = some (g.map (fun e => wireBytes (entryWireN e))) := by
  rw [C08.encodePairs_eq_some_iff, List.map_map]
  apply List.map_congr_left
  intro e he
  obtain ⟨h1, h2⟩ := h e he
  simp only [C08.encPair, valWire_bytes cfg h1.flatVal, h2, Function.comp, wireBytes, entryWireN]

theorem decodePairs_cons_N {e : GoVal × GoVal} (h1 : RTKey e.1)
    (h2 : decodeAny (wireN e.2) = .ok (normValN e.2)) (r : List (Wire × Wire)) (acc : GoMap) :
    decodePairs (entryWireN e :: r) acc =
      if acc.any (fun x => x.1.keyEq (normVal e.1)) then .err .other
      else decodePairs r (normEntryN e :: acc) := by
  obtain ⟨k, v⟩ := e
  simp only [entryWireN, decodePairs, valWire_decode h1.flatVal, h2, normEntryN]
  cases k <;> simp only [RTKey] at h1 <;>
    simp only [normVal, keyHashable, Bool.not_true, Bool.false_eq_true, if_false]

theorem decodePairs_N : ∀ (g : GoMap) (acc : GoMap),
    (∀ e ∈ g, RTKey e.1 ∧ decodeAny (wireN e.2) = .ok (normValN e.2)) →
    g.Pairwise KeyDistinct →
    (∀ e ∈ g, acc.any (fun x => x.1.keyEq (normVal e.1)) = false) →
    decodePairs (g.map entryWireN) acc = .ok (acc.reverse ++ g.map normEntryN)
  | [], acc, _, _, _ => by simp [decodePairs]
  | e :: r, acc, hf, hp, hs => by
    obtain ⟨h1, h2⟩ := hf e (List.mem_cons_self ..)
    rw [List.pairwise_cons] at hp
    rw [List.map_cons, decodePairs_cons_N h1 h2, hs e (List.mem_cons_self ..)]
    simp only [Bool.false_eq_true, if_false]
    rw [decodePairs_N r _ (fun x hx => hf x (List.mem_cons_of_mem _ hx)) hp.2]
    · simp
    · intro e' he'
      rw [List.any_cons, hs e' (List.mem_cons_of_mem _ he'), Bool.or_false]
      exact hp.1 e' he'

theorem vok_map (cfg : EncCfg) (d : Nat) (g : GoMap) (hd : d + 1 ≤ maxNested)
    (hlen : g.length ≤ maxElems) (hdist : g.Pairwise KeyDistinct)
    (ih : ∀ e ∈ g, RTKey e.1 ∧ VOK cfg (d + 1) e.2) : VOK cfg d (.map g) := by
  have ihs : ∀ e ∈ sortEntries g, RTKey e.1 ∧ VOK cfg (d + 1) e.2 :=
    fun e he => ih e ((sortEntries_perm g).mem_iff.mp he)
  unfold VOK
  rw [wireN_map, normValN_map]
  refine ⟨?_, ?_, ?_, ?_, ?_, ?_⟩
  · rw [C08.encodeAny_map, encodePairs_N cfg (fun e he => ⟨(ih e he).1, (ih e he).2.1⟩)]
    simp only [sortPairs_mapN, Wire.bytes, List.length_map, sortEntries_length, encHead]
    rw [← concatPairs_wireBytes, List.map_map]
    rfl
  · simp only [Wire.wf, List.length_map, sortEntries_length, shortest_fits_elems hlen,
      Bool.true_and]
    rw [wfPairs_iff]
    intro p hp
    obtain ⟨e, he, rfl⟩ := List.mem_map.mp hp
    exact ⟨valWire_wf (ihs e he).1.flatVal, (ihs e he).2.2.1⟩
  · intro t
    simp only [Wire.inLimits, List.length_map, sortEntries_length, hd, hlen, decide_true,
      Bool.true_and]
    rw [inLimitsPairs_iff]
    intro p hp
    obtain ⟨e, he, rfl⟩ := List.mem_map.mp hp
    exact ⟨valWire_inLimits _ _ _, (ihs e he).2.2.2.1 t⟩
  · simp only [Wire.hasTag]
    rw [hasTagPairs_iff]
    intro p hp
    obtain ⟨e, he, rfl⟩ := List.mem_map.mp hp
    exact ⟨valWire_noTag _, (ihs e he).2.2.2.2.1⟩
  · simp only [Plain]
    rw [plainPairs_iff]
    intro p hp
    obtain ⟨e, he, rfl⟩ := List.mem_map.mp hp
    exact ⟨valWire_plain _, (ihs e he).2.2.2.2.2.1⟩
  · have hdec := decodePairs_N (sortEntries g) []
      (fun e he => ⟨(ihs e he).1, (ihs e he).2.2.2.2.2.2⟩) (keyDistinct_sorted hdist)
      (by intro e _; rfl)
    simp only [List.reverse_nil, List.nil_append] at hdec
    simp only [decodeAny, hdec]

/-- every value of the nested data model is encoded as the item `wireN v`, which is well formed,
    within the parser's limits at depth `d`, free of tags / floats / simple values, and decoded
    back to the normal form `normValN v` -/
theorem vok_of_rtVal (cfg : EncCfg) : ∀ (v : GoVal) (d : Nat), RTVal d v → VOK cfg d v := by
  intro v
  induction v using goVal_ind with
  | harr xs ih =>
    intro d h
    simp only [RTVal, rtList_iff] at h
    exact vok_arr cfg d xs h.1 h.2.1 (fun x hx => ih x hx (d + 1) (h.2.2 x hx))
  | hmap kvs ih =>
    intro d h
    simp only [RTVal, rtPairs_iff] at h
    exact vok_map cfg d kvs h.1 h.2.1 h.2.2.1
      (fun e he => ⟨(h.2.2.2 e he).1, ih e he (d + 1) (h.2.2.2 e he).2⟩)
  | hleaf v hn =>
    intro d h
    exact vok_leaf cfg d hn ((rtVal_leaf d hn).mp h)

/-! ### decoder side: what `decodeAny` returns, entry by entry -/

/-- pointwise relation between two lists (core Lean has no `List.Forall₂`) -/
def Pointwise {α β : Type} (R : α → β → Prop) : List α → List β → Prop
  | [], [] => True
  | a :: as, b :: bs => R a b ∧ Pointwise R as bs
  | _, _ => False

theorem Pointwise.length_eq {α β : Type} {R : α → β → Prop} : ∀ {l : List α} {l' : List β},
    Pointwise R l l' → l.length = l'.length
  | [], [], _ => rfl
  | _ :: as, _ :: bs, h => by simp [Pointwise.length_eq (l := as) (l' := bs) h.2]
  | [], _ :: _, h => h.elim
  | _ :: _, [], h => h.elim

theorem Pointwise.mem_right {α β : Type} {R : α → β → Prop} : ∀ {l : List α} {l' : List β},
    Pointwise R l l' → ∀ b ∈ l', ∃ a ∈ l, R a b
  | [], [], _, b, hb => by cases hb
  | a :: as, b' :: bs, h, b, hb => by
    rcases List.mem_cons.mp hb with rfl | hb
    · exact ⟨a, List.mem_cons_self .., h.1⟩
    · obtain ⟨a', ha', hr⟩ := Pointwise.mem_right (l := as) (l' := bs) h.2 b hb
      exact ⟨a', List.mem_cons_of_mem _ ha', hr⟩
  | [], _ :: _, h, _, _ => h.elim
  | _ :: _, [], h, _, _ => h.elim

/-- the entry relation of the generic map decoder: key and value decoded, the decoded key is
    hashable and neither a byte string nor a float -/
def DecKV (kv : Wire × Wire) (e : GoVal × GoVal) : Prop :=
  decodeAny kv.1 = .ok e.1 ∧ decodeAny kv.2 = .ok e.2 ∧ keyHashable e.1 = true ∧
    (∀ b, e.1 ≠ .bytes b)

theorem decodeList_rel : ∀ (xs : List Wire) (l : List GoVal), decodeList xs = .ok l →
    Pointwise (fun x y => decodeAny x = .ok y) xs l
  | [], l, h => by unfold decodeList at h; cases h; trivial
  | x :: xs, l, h => by
    unfold decodeList at h
    cases hx : decodeAny x <;> cases hxs : decodeList xs <;> simp [hx, hxs] at h
    subst h
    exact ⟨hx, decodeList_rel xs _ hxs⟩

theorem decodePairs_relN : ∀ (kvs : List (Wire × Wire)) (acc out : GoMap),
    decodePairs kvs acc = .ok out → ∃ t, out = acc.reverse ++ t ∧ Pointwise DecKV kvs t
  | [], acc, out, h => by
    unfold decodePairs at h; cases h
    exact ⟨[], by simp, trivial⟩
  | (k, v) :: r, acc, out, h => by
    unfold decodePairs at h
    cases hk : decodeAny k with
    | ok key =>
      simp only [hk] at h
      split at h
      · cases h
      · cases h
      · rename_i hnb hnf
        split at h
        · cases h
        · rename_i hh
          cases hv : decodeAny v with
          | ok value =>
            simp only [hv] at h
            split at h
            · cases h
            · obtain ⟨t, ht, hr⟩ := decodePairs_relN r _ out h
              refine ⟨(key, value) :: t, ?_, ⟨hk, hv, by simpa using hh, ?_⟩, hr⟩
              · rw [ht]; simp
              · intro b hb; exact hnb b hb
          | err e => simp [hv] at h
          | panic => simp [hv] at h
          | unmodelled => simp [hv] at h
    | err e => simp [hk] at h
    | panic => simp [hk] at h
    | unmodelled => simp [hk] at h

theorem decodeAny_arr_ok {hw : HW} {xs : List Wire} {v : GoVal}
    (h : decodeAny (.arr hw xs) = .ok v) : ∃ l, decodeList xs = .ok l ∧ v = .arr l := by
  unfold decodeAny at h
  cases hl : decodeList xs <;> simp [hl] at h
  exact ⟨_, rfl, h.symm⟩

theorem decodeAny_map_ok {hw : HW} {kvs : List (Wire × Wire)} {v : GoVal}
    (h : decodeAny (.map hw kvs) = .ok v) : ∃ l, decodePairs kvs [] = .ok l ∧ v = .map l := by
  unfold decodeAny at h
  cases hl : decodePairs kvs [] <;> simp [hl] at h
  exact ⟨_, rfl, h.symm⟩

/-- every generically decoded value is typed as `normVal` types it (at the top) -/
theorem normVal_of_decoded {w : Wire} {v : GoVal} (h : decodeAny w = .ok v) : normVal v = v := by
  cases w with
  | uint hw n => unfold decodeAny at h; split at h <;> cases h; rfl
  | nint hw n => unfold decodeAny at h; split at h <;> cases h; rfl
  | bstr hw b => unfold decodeAny at h; cases h; rfl
  | tstr hw b => unfold decodeAny at h; split at h <;> cases h; rfl
  | tag hw t x => unfold decodeAny at h; cases h
  | prim hw n =>
    cases hw <;> unfold decodeAny at h
    · split at h
      · cases h; rfl
      · split at h
        · cases h; rfl
        · split at h <;> cases h <;> rfl
    · cases h; rfl
    · cases h
    · cases h
    · cases h; rfl
  | arr hw xs => obtain ⟨l, -, rfl⟩ := decodeAny_arr_ok h; rfl
  | map hw kvs => obtain ⟨l, -, rfl⟩ := decodeAny_map_ok h; rfl

/-- a leaf item decodes to a leaf value -/
theorem decoded_leaf {w : Wire} {v : GoVal} (ha : ∀ hw xs, w ≠ .arr hw xs)
    (hm : ∀ hw kvs, w ≠ .map hw kvs) (h : decodeAny w = .ok v) : isNode v = false := by
  cases w with
  | uint hw n => unfold decodeAny at h; split at h <;> cases h; rfl
  | nint hw n => unfold decodeAny at h; split at h <;> cases h; rfl
  | bstr hw b => unfold decodeAny at h; cases h; rfl
  | tstr hw b => unfold decodeAny at h; split at h <;> cases h; rfl
  | tag hw t x => unfold decodeAny at h; cases h
  | prim hw n =>
    cases hw <;> unfold decodeAny at h
    · split at h
      · cases h; rfl
      · split at h
        · cases h; rfl
        · split at h <;> cases h <;> rfl
    · cases h; rfl
    · cases h
    · cases h
    · cases h; rfl
  | arr hw xs => exact absurd rfl (ha hw xs)
  | map hw kvs => exact absurd rfl (hm hw kvs)

theorem fitsLt {w : HW} {n : Nat} (h : w.fits n = true) : n < 18446744073709551616 := by
  cases w <;> simp only [HW.fits, decide_eq_true_eq] at h <;> omega

/-- a well-formed plain leaf item decodes to a flat value -/
theorem flatVal_of_plain_leaf {w : Wire} {v : GoVal} (ha : ∀ hw xs, w ≠ .arr hw xs)
    (hm : ∀ hw kvs, w ≠ .map hw kvs) (h : decodeAny w = .ok v) (hwf : w.wf = true)
    (hp : Plain w = true) : FlatVal v := by
  cases w with
  | uint hw n =>
    unfold decodeAny at h
    split at h <;> cases h
    rename_i hn
    unfold maxInt64 at hn
    simp only [FlatVal, int64Range]
    omega
  | nint hw n =>
    unfold decodeAny at h
    split at h <;> cases h
    rename_i hn
    unfold maxInt64 at hn
    simp only [FlatVal, int64Range]
    omega
  | bstr hw b => unfold decodeAny at h; cases h; exact fitsLt hwf
  | tstr hw b =>
    unfold decodeAny at h
    split at h <;> cases h
    rename_i hu
    exact ⟨hu, fitsLt hwf⟩
  | tag hw t x => simp [Plain] at hp
  | prim hw n =>
    cases hw
    · unfold decodeAny at h
      simp only [Plain, decide_eq_true_eq] at hp
      split at h
      · omega
      · split at h
        · cases h; trivial
        · split at h <;> cases h <;> trivial
    all_goals simp [Plain] at hp
  | arr hw xs => exact absurd rfl (ha hw xs)
  | map hw kvs => exact absurd rfl (hm hw kvs)

theorem rtKey_of_rtVal {d : Nat} {k : GoVal} (h : RTVal d k) (hh : keyHashable k = true)
    (hb : ∀ b, k ≠ .bytes b) : RTKey k := by
  cases k <;> simp only [RTVal, FlatVal] at h <;> simp only [RTKey] <;>
    first | exact h | exact absurd rfl (hb _) | (simp [keyHashable] at hh)

/-- CLOSURE: whatever the generic decoder returns for a well-formed, in-limits, plain item is in
    the nested data model, at the depth the item was met -/
theorem rtVal_of_decoded : ∀ (w : Wire) (v : GoVal) (t : Bool) (d : Nat), decodeAny w = .ok v →
    w.wf = true → w.inLimits t d = true → Plain w = true → RTVal d v := by
  intro w
  induction w using wire_ind with
  | harr hw xs ih =>
    intro v t d h hwf hlim hp
    obtain ⟨l, hl, rfl⟩ := decodeAny_arr_ok h
    have hrel := decodeList_rel xs l hl
    simp only [Wire.wf, Bool.and_eq_true, wfList_iff] at hwf
    simp only [Wire.inLimits, Bool.and_eq_true, decide_eq_true_eq, inLimitsList_iff] at hlim
    simp only [Plain, plainList_iff] at hp
    simp only [RTVal, rtList_iff, ← hrel.length_eq]
    refine ⟨hlim.1.1, hlim.1.2, ?_⟩
    intro y hy
    obtain ⟨x, hx, hxy⟩ := hrel.mem_right y hy
    exact ih x hx y t (d + 1) hxy (hwf.2 x hx) (hlim.2 x hx) (hp x hx)
  | hmap hw kvs ih =>
    intro v t d h hwf hlim hp
    obtain ⟨l, hl, rfl⟩ := decodeAny_map_ok h
    obtain ⟨l', hl', hrel⟩ := decodePairs_relN kvs [] l hl
    simp only [List.reverse_nil, List.nil_append] at hl'
    subst hl'
    have hnd := (decodePairs_noDup kvs [] l hl (by simp) (by intro e he; cases he)).1
    simp only [Wire.wf, Bool.and_eq_true, wfPairs_iff] at hwf
    simp only [Wire.inLimits, Bool.and_eq_true, decide_eq_true_eq, inLimitsPairs_iff] at hlim
    simp only [Plain, plainPairs_iff] at hp
    simp only [RTVal, rtPairs_iff, ← hrel.length_eq]
    refine ⟨hlim.1.1, hlim.1.2, ?_, ?_⟩
    · refine hnd.imp_of_mem ?_
      intro a b ha hb hab
      obtain ⟨p, _, hpa⟩ := hrel.mem_right a ha
      obtain ⟨q, _, hqb⟩ := hrel.mem_right b hb
      unfold KeyDistinct
      rw [normVal_of_decoded hpa.1, normVal_of_decoded hqb.1]
      exact hab
    · intro e he
      obtain ⟨p, hpm, hk, hv, hh, hnb⟩ := hrel.mem_right e he
      have h1 := (ih p hpm).1 e.1 t (d + 1) hk (hwf.2 p hpm).1 (hlim.2 p hpm).1 (hp p hpm).1
      have h2 := (ih p hpm).2 e.2 t (d + 1) hv (hwf.2 p hpm).2 (hlim.2 p hpm).2 (hp p hpm).2
      exact ⟨rtKey_of_rtVal h1 hh hnb, h2⟩
  | hleaf w ha hm =>
    intro v t d h hwf _ hp
    exact RTVal.of_flat d (flatVal_of_plain_leaf ha hm h hwf hp)

/-! ### normal forms -/

mutual
/-- every scalar inside the value (map keys included) is typed as the generic decoder types it:
    integers are `int64` (`normVal x = x`) -/
def TypedN : GoVal → Prop
  | .arr xs => TypedListN xs
  | .map kvs => TypedPairsN kvs
  | v => normVal v = v
def TypedListN : List GoVal → Prop
  | [] => True
  | x :: xs => TypedN x ∧ TypedListN xs
def TypedPairsN : List (GoVal × GoVal) → Prop
  | [] => True
  | (k, v) :: r => normVal k = k ∧ TypedN v ∧ TypedPairsN r
end

/-- the encoder's order on entries: bytewise on the encoded key -/
def EntryLe (a b : GoVal × GoVal) : Prop := bytesLe (valWire a.1).bytes (valWire b.1).bytes = true

mutual
/-- the entries of every map inside the value are in the encoder's order -/
def SortedN : GoVal → Prop
  | .arr xs => SortedListN xs
  | .map kvs => kvs.Pairwise EntryLe ∧ SortedPairsN kvs
  | _ => True
def SortedListN : List GoVal → Prop
  | [] => True
  | x :: xs => SortedN x ∧ SortedListN xs
def SortedPairsN : List (GoVal × GoVal) → Prop
  | [] => True
  | (_, v) :: r => SortedN v ∧ SortedPairsN r
end

theorem typedListN_iff (l : List GoVal) : TypedListN l ↔ ∀ x ∈ l, TypedN x := by
  induction l with
  | nil => simp [TypedListN]
  | cons e r ih => simp only [TypedListN, ih, List.forall_mem_cons]

theorem typedPairsN_iff (l : GoMap) :
    TypedPairsN l ↔ ∀ e ∈ l, normVal e.1 = e.1 ∧ TypedN e.2 := by
  induction l with
  | nil => simp [TypedPairsN]
  | cons e r ih =>
    obtain ⟨k, v⟩ := e
    simp only [TypedPairsN, ih, List.forall_mem_cons, and_assoc]

theorem sortedListN_iff (l : List GoVal) : SortedListN l ↔ ∀ x ∈ l, SortedN x := by
  induction l with
  | nil => simp [SortedListN]
  | cons e r ih => simp only [SortedListN, ih, List.forall_mem_cons]

theorem sortedPairsN_iff (l : GoMap) : SortedPairsN l ↔ ∀ e ∈ l, SortedN e.2 := by
  induction l with
  | nil => simp [SortedPairsN]
  | cons e r ih =>
    obtain ⟨k, v⟩ := e
    simp only [SortedPairsN, ih, List.forall_mem_cons]

theorem typedN_leaf {v : GoVal} (h : isNode v = false) : TypedN v ↔ normVal v = v := by
  cases v <;> simp only [isNode, reduceCtorEq] at h <;> simp only [TypedN]

theorem sortedN_leaf {v : GoVal} (h : isNode v = false) : SortedN v := by
  cases v <;> simp only [isNode, reduceCtorEq] at h <;> simp only [SortedN]

theorem isNode_normVal (v : GoVal) : isNode (normVal v) = isNode v := by
  cases v <;> rfl

theorem map_eq_self {α : Type} {f : α → α} : ∀ {l : List α}, (∀ x ∈ l, f x = x) → l.map f = l
  | [], _ => rfl
  | x :: xs, h => by
    rw [List.map_cons, h x (List.mem_cons_self ..),
      map_eq_self (fun y hy => h y (List.mem_cons_of_mem _ hy))]

theorem sortEntries_of_sorted {g : GoMap} (h : g.Pairwise EntryLe) : sortEntries g = g :=
  List.mergeSort_of_pairwise
    (le := fun (a b : GoVal × GoVal) => bytesLe (valWire a.1).bytes (valWire b.1).bytes) h

theorem sortEntries_sortEntries (g : GoMap) : sortEntries (sortEntries g) = sortEntries g :=
  sortEntries_of_sorted (sortEntries_sorted g)

/-- the normal form is typed as the decoder types values -/
theorem normValN_typed : ∀ v : GoVal, TypedN (normValN v) := by
  intro v
  induction v using goVal_ind with
  | harr xs ih =>
    rw [normValN_arr]
    simp only [TypedN, typedListN_iff]
    intro y hy
    obtain ⟨x, hx, rfl⟩ := List.mem_map.mp hy
    exact ih x hx
  | hmap g ih =>
    rw [normValN_map]
    simp only [TypedN, typedPairsN_iff]
    intro e he
    obtain ⟨e0, he0, rfl⟩ := List.mem_map.mp he
    exact ⟨normVal_normVal _, ih e0 ((sortEntries_perm g).mem_iff.mp he0)⟩
  | hleaf v hn =>
    rw [normValN_leaf hn, typedN_leaf (by rw [isNode_normVal]; exact hn)]
    exact normVal_normVal v

/-- in the normal form every map is in the encoder's order -/
theorem normValN_sorted : ∀ v : GoVal, SortedN (normValN v) := by
  intro v
  induction v using goVal_ind with
  | harr xs ih =>
    rw [normValN_arr]
    simp only [SortedN, sortedListN_iff]
    intro y hy
    obtain ⟨x, hx, rfl⟩ := List.mem_map.mp hy
    exact ih x hx
  | hmap g ih =>
    rw [normValN_map]
    simp only [SortedN, sortedPairsN_iff]
    refine ⟨?_, ?_⟩
    · rw [← sortEntries_mapN]
      exact sortEntries_sorted _
    · intro e he
      obtain ⟨e0, he0, rfl⟩ := List.mem_map.mp he
      exact ih e0 ((sortEntries_perm g).mem_iff.mp he0)
  | hleaf v hn =>
    rw [normValN_leaf hn]
    exact sortedN_leaf (by rw [isNode_normVal]; exact hn)

/-- a value that is typed as the decoder types values and whose maps are in the encoder's order
    is its own normal form -/
theorem normValN_fixed : ∀ v : GoVal, TypedN v → SortedN v → normValN v = v := by
  intro v
  induction v using goVal_ind with
  | harr xs ih =>
    intro ht hs
    simp only [TypedN, typedListN_iff] at ht
    simp only [SortedN, sortedListN_iff] at hs
    rw [normValN_arr, map_eq_self (fun x hx => ih x hx (ht x hx) (hs x hx))]
  | hmap g ih =>
    intro ht hs
    simp only [TypedN, typedPairsN_iff] at ht
    simp only [SortedN, sortedPairsN_iff] at hs
    rw [normValN_map, sortEntries_of_sorted hs.1, map_eq_self]
    intro e he
    obtain ⟨k, v⟩ := e
    simp only [normEntryN, (ht _ he).1, ih _ he (ht _ he).2 (hs.2 _ he)]
  | hleaf v hn =>
    intro ht _
    rw [normValN_leaf hn]
    exact (typedN_leaf hn).mp ht

/-- every generically decoded value is typed as the decoder types values, at every depth -/
theorem typedN_of_decoded : ∀ (w : Wire) (v : GoVal), decodeAny w = .ok v → TypedN v := by
  intro w
  induction w using wire_ind with
  | harr hw xs ih =>
    intro v h
    obtain ⟨l, hl, rfl⟩ := decodeAny_arr_ok h
    have hrel := decodeList_rel xs l hl
    simp only [TypedN, typedListN_iff]
    intro y hy
    obtain ⟨x, hx, hxy⟩ := hrel.mem_right y hy
    exact ih x hx y hxy
  | hmap hw kvs ih =>
    intro v h
    obtain ⟨l, hl, rfl⟩ := decodeAny_map_ok h
    obtain ⟨l', hl', hrel⟩ := decodePairs_relN kvs [] l hl
    simp only [List.reverse_nil, List.nil_append] at hl'
    subst hl'
    simp only [TypedN, typedPairsN_iff]
    intro e he
    obtain ⟨p, hpm, hk, hv, -, -⟩ := hrel.mem_right e he
    exact ⟨normVal_of_decoded hk, (ih p hpm).2 e.2 hv⟩
  | hleaf w ha hm =>
    intro v h
    rw [typedN_leaf (decoded_leaf ha hm h)]
    exact normVal_of_decoded h

/-- normalising does not change the encoding -/
theorem wireN_normValN : ∀ v : GoVal, wireN (normValN v) = wireN v := by
  intro v
  induction v using goVal_ind with
  | harr xs ih =>
    rw [normValN_arr, wireN_arr, wireN_arr, List.length_map, List.map_map]
    congr 1
    apply List.map_congr_left
    intro x hx
    exact ih x hx
  | hmap g ih =>
    rw [normValN_map, wireN_map, wireN_map, List.length_map, sortEntries_length,
      ← sortEntries_mapN, sortEntries_sortEntries, sortEntries_mapN, List.map_map]
    congr 1
    apply List.map_congr_left
    intro e he
    simp only [Function.comp, entryWireN, normEntryN, valWire_of_normVal,
      ih e ((sortEntries_perm g).mem_iff.mp he)]
  | hleaf v hn =>
    rw [normValN_leaf hn, wireN_leaf hn, wireN_leaf (by rw [isNode_normVal]; exact hn),
      valWire_of_normVal]

/-! ### "distinct after encoding", depth monotonicity, header maps with nested values -/

theorem keyEq_normVal_iff {a b : GoVal} (ha : RTKey a) (hb : RTKey b) :
    (normVal a).keyEq (normVal b) = true ↔ normVal a = normVal b := by
  cases a <;> simp only [RTKey] at ha <;> cases b <;> simp only [RTKey] at hb <;>
    simp [normVal, GoVal.keyEq]

/-- `KeyDistinct` is literally "the encoded keys are different byte strings" -/
theorem keyDistinct_iff_bytes {a b : GoVal × GoVal} (ha : RTKey a.1) (hb : RTKey b.1) :
    KeyDistinct a b ↔ (valWire a.1).bytes ≠ (valWire b.1).bytes := by
  constructor
  · intro h heq
    have hw : valWire a.1 = valWire b.1 :=
      wire_bytes_inj (t := true) (valWire_wf ha.flatVal) (valWire_wf hb.flatVal)
        (valWire_inLimits _ _ _) (valWire_inLimits _ _ _) heq
    have h1 := valWire_decode ha.flatVal
    rw [hw, valWire_decode hb.flatVal] at h1
    have h2 : normVal b.1 = normVal a.1 := Out.ok.inj h1
    unfold KeyDistinct at h
    rw [← h2, (keyEq_normVal_iff hb hb).mpr rfl] at h
    cases h
  · intro hne
    unfold KeyDistinct
    cases hk : (normVal a.1).keyEq (normVal b.1) with
    | false => rfl
    | true =>
      exfalso
      apply hne
      rw [← valWire_of_normVal a.1, (keyEq_normVal_iff ha hb).mp hk, valWire_of_normVal]

/-- a value that fits at depth `d` fits at any smaller depth -/
theorem RTVal.mono : ∀ (v : GoVal) (d d' : Nat), d' ≤ d → RTVal d v → RTVal d' v := by
  intro v
  induction v using goVal_ind with
  | harr xs ih =>
    intro d d' hle h
    simp only [RTVal, rtList_iff] at h ⊢
    exact ⟨by omega, h.2.1, fun x hx => ih x hx (d + 1) (d' + 1) (by omega) (h.2.2 x hx)⟩
  | hmap g ih =>
    intro d d' hle h
    simp only [RTVal, rtPairs_iff] at h ⊢
    exact ⟨by omega, h.2.1, h.2.2.1, fun e he =>
      ⟨(h.2.2.2 e he).1, ih e he (d + 1) (d' + 1) (by omega) (h.2.2.2 e he).2⟩⟩
  | hleaf v hn =>
    intro d d' _ h
    exact (rtVal_leaf d' hn).mpr ((rtVal_leaf d hn).mp h)

/-- a header map with flat labels and nested values (met one level below the map) -/
def NestedMap (h : GoMap) : Prop := ∀ e ∈ h, FlatLabel e.1 ∧ RTVal 1 e.2

theorem FlatMap.nested {h : GoMap} (hf : FlatMap h) : NestedMap h :=
  fun e he => ⟨(hf e he).1, RTVal.of_flat 1 (hf e he).2⟩

theorem keyDistinct_of_labelDistinct {a b : GoVal × GoVal} (ha : FlatLabel a.1)
    (hb : FlatLabel b.1) (h : LabelDistinct a b) : KeyDistinct a b :=
  h _ _ (normalizeLabel_flat ha) (normalizeLabel_flat hb)

theorem NestedMap.rtVal {h : GoMap} (hf : NestedMap h) (hok : LabelsOK h)
    (hlen : h.length ≤ maxElems) : RTVal 0 (.map h) := by
  simp only [RTVal, rtPairs_iff]
  refine ⟨by unfold maxNested; omega, hlen, ?_, fun e he => ⟨(hf e he).1.rtKey, (hf e he).2⟩⟩
  exact hok.2.imp_of_mem
    (fun ha hb hab => keyDistinct_of_labelDistinct (hf _ ha).1 (hf _ hb).1 hab)

theorem concat_sortedN (g : GoMap) :
    concatPairs (sortPairs (g.map (fun e => wireBytes (entryWireN e))))
      = Wire.bytesPairs ((sortEntries g).map entryWireN) := by
  rw [sortPairs_mapN, ← concatPairs_wireBytes, List.map_map]
  rfl

theorem labelsOK_N : ∀ (g : GoMap) (seen : List GoVal), (∀ e ∈ g, FlatLabel e.1) →
    g.Pairwise LabelDistinct →
    (∀ e ∈ g, seen.any (fun x => x.keyEq (normVal e.1)) = false) →
    labelsOK (g.map entryWireN) seen = .ok ()
  | [], _, _, _, _ => rfl
  | e :: r, seen, hf, hp, hs => by
    have h1 := hf e (List.mem_cons_self ..)
    rw [List.pairwise_cons] at hp
    rw [List.map_cons, entryWireN, labelsOK_cons_flat h1, hs e (List.mem_cons_self ..)]
    simp only [Bool.false_eq_true, if_false]
    apply labelsOK_N r _ (fun x hx => hf x (List.mem_cons_of_mem _ hx)) hp.2
    intro e' he'
    rw [List.any_cons, hs e' (List.mem_cons_of_mem _ he'), Bool.or_false]
    exact hp.1 e' he' _ _ (normalizeLabel_flat h1)
      (normalizeLabel_flat (hf e' (List.mem_cons_of_mem _ he')))

end RoundTrip

/-! ## headline theorems -/

namespace C08
open RoundTrip

/-- 1N. NESTED VALUE ROUND TRIP (the nested form of `flat_value_roundtrip`).  Every value of the
    nested data model met at depth `d` is encoded as ONE item that is well formed, within the
    parser's depth / size limits at depth `d` in either decode mode, tag-free, and that the
    generic decoder maps back to the normal form `normValN v`. -/
theorem value_roundtrip_nested (cfg : EncCfg) (v : GoVal) (d : Nat) (hv : RTVal d v) :
    ∃ w : Wire, encodeAny cfg v = some w.bytes ∧ w.wf = true ∧ (∀ t, w.inLimits t d = true) ∧
      w.hasTag = false ∧ decodeAny w = .ok (normValN v) := by
  obtain ⟨h1, h2, h3, h4, -, h6⟩ := vok_of_rtVal cfg v d hv
  exact ⟨wireN v, h1, h2, h3, h4, h6⟩

/-- 1N, naming the item: it is `wireN v` (shortest heads, map entries sorted bytewise by encoded
    key), and it is plain (no tag, float or simple value at any depth) -/
theorem value_roundtrip_nested_wire (cfg : EncCfg) (v : GoVal) (d : Nat) (hv : RTVal d v) :
    encodeAny cfg v = some (wireN v).bytes ∧ (wireN v).wf = true ∧
      (∀ t, (wireN v).inLimits t d = true) ∧ (wireN v).hasTag = false ∧
      Plain (wireN v) = true ∧ decodeAny (wireN v) = .ok (normValN v) :=
  vok_of_rtVal cfg v d hv

/-- 1N at top level: the bytes the encoder returns are accepted by `parseTop` in either decode
    mode, which returns exactly the item the decoder then maps to `normValN v` -/
theorem value_roundtrip_nested_top (cfg : EncCfg) (v : GoVal) (hv : RTVal 0 v) :
    ∃ w : Wire, encodeAny cfg v = some w.bytes ∧ w.wf = true ∧ (∀ t, w.inLimits t 0 = true) ∧
      w.hasTag = false ∧ (∀ t, parseTop t w.bytes = some w) ∧
      decodeAny w = .ok (normValN v) := by
  obtain ⟨h1, h2, h3, h4, -, h6⟩ := vok_of_rtVal cfg v 0 hv
  exact ⟨wireN v, h1, h2, h3, h4, fun t => parseTop_complete h2 (h3 t), h6⟩

/-- 3N. HEADER MAP WITH NESTED VALUES (the nested form of `flat_map_roundtrip`, conjunct for
    conjunct, with `entryWireN` / `normEntryN` for `entryWire` / `normEntry`): flat labels that
    are pairwise distinct once normalised, values in the nested data model. -/
theorem nested_map_roundtrip (cfg : EncCfg) (h : GoMap) (hf : NestedMap h) (hok : LabelsOK h)
    (hlen : h.length ≤ maxElems) :
    ∃ (ps : List (Bytes × Bytes)) (kvs : List (Wire × Wire)) (m' : GoMap),
      encodePairs cfg h = some ps ∧
      kvs = (sortEntries h).map entryWireN ∧ kvs.Perm (h.map entryWireN) ∧
      kvs.Pairwise (fun a b => bytesLe a.1.bytes b.1.bytes = true) ∧
      concatPairs (sortPairs ps) = Wire.bytesPairs kvs ∧
      (Wire.map (HW.shortest h.length) kvs).wf = true ∧
      (∀ t, (Wire.map (HW.shortest h.length) kvs).inLimits t 0 = true) ∧
      (Wire.map (HW.shortest h.length) kvs).hasTag = false ∧
      encodeAny cfg (.map h) = some (Wire.map (HW.shortest h.length) kvs).bytes ∧
      (∀ t, parseTop t (Wire.map (HW.shortest h.length) kvs).bytes
              = some (Wire.map (HW.shortest h.length) kvs)) ∧
      labelsOK kvs [] = .ok () ∧
      decodePairs kvs [] = .ok m' ∧
      m' = (sortEntries h).map normEntryN ∧ m'.Perm (h.map normEntryN) ∧
      decodeAny (Wire.map (HW.shortest h.length) kvs) = .ok (.map m') := by
  have hrt := hf.rtVal hok hlen
  obtain ⟨h1, h2, h3, h4, -, h6⟩ := vok_of_rtVal cfg (.map h) 0 hrt
  rw [wireN_map] at h1 h2 h3 h4 h6
  rw [normValN_map] at h6
  have hoks := labelsOK_sorted hok
  have hmem : ∀ e ∈ sortEntries h, e ∈ h := fun e he => (sortEntries_perm h).mem_iff.mp he
  have hent : ∀ e ∈ h, RTKey e.1 ∧ VOK cfg 1 e.2 :=
    fun e he => ⟨(hf e he).1.rtKey, vok_of_rtVal cfg e.2 1 (hf e he).2⟩
  have hdec : decodePairs ((sortEntries h).map entryWireN) []
      = .ok ((sortEntries h).map normEntryN) := by
    have := decodePairs_N (sortEntries h) []
      (fun e he => ⟨(hent e (hmem e he)).1, (hent e (hmem e he)).2.2.2.2.2.2⟩)
      (keyDistinct_sorted (by simpa [RTVal] using hrt.2.2.1)) (by intro e _; rfl)
    simpa using this
  refine ⟨_, (sortEntries h).map entryWireN, (sortEntries h).map normEntryN,
    encodePairs_N cfg (fun e he => ⟨(hent e he).1, (hent e he).2.1⟩), rfl,
    (sortEntries_perm h).map entryWireN, ?_, concat_sortedN h, h2, h3, h4, h1,
    fun t => parseTop_complete h2 (h3 t), ?_, hdec, rfl, (sortEntries_perm h).map normEntryN, h6⟩
  · rw [List.pairwise_map]
    exact sortEntries_sorted h
  · exact labelsOK_N (sortEntries h) [] (fun e he => (hf e (hmem e he)).1) hoks.2
      (by intro e _; rfl)

/-- 2N. the normal form is idempotent (no hypothesis) -/
theorem normValN_idem (v : GoVal) : normValN (normValN v) = normValN v :=
  normValN_fixed _ (normValN_typed v) (normValN_sorted v)

/-- normalising leaves the data model, and does not change the encoding -/
theorem normValN_closed (cfg : EncCfg) (v : GoVal) (d : Nat) (hv : RTVal d v) :
    RTVal d (normValN v) ∧ encodeAny cfg (normValN v) = encodeAny cfg v := by
  obtain ⟨h1, h2, h3, -, h5, h6⟩ := vok_of_rtVal cfg v d hv
  have hr := rtVal_of_decoded (wireN v) (normValN v) true d h6 h2 (h3 true) h5
  exact ⟨hr, by rw [(vok_of_rtVal cfg _ d hr).1, wireN_normValN, h1]⟩

/-- 3. DECODER CLOSURE.  Whatever the generic decoder returns for a well-formed item within the
    parser's limits at depth `d` that is plain (`Plain`: no float, no simple value other than
    false / true / null / undefined, at any depth; tags and half/single floats make `decodeAny`
    `unmodelled` anyway) is in the nested data model at depth `d`, is typed as the decoder types
    values at every depth (`TypedN`), and — when its maps are in the encoder's key order — is its
    own normal form. -/
theorem decoded_rtVal (w : Wire) (v : GoVal) (t : Bool) (d : Nat) (h : decodeAny w = .ok v)
    (hwf : w.wf = true) (hlim : w.inLimits t d = true) (hp : Plain w = true) :
    RTVal d v ∧ TypedN v ∧ (SortedN v → normValN v = v) :=
  ⟨rtVal_of_decoded w v t d h hwf hlim hp, typedN_of_decoded w v h,
    normValN_fixed v (typedN_of_decoded w v h)⟩

/-- 3, from the parser: bytes accepted by `parseTop` in either mode -/
theorem parsed_decoded_rtVal (t : Bool) (bs : Bytes) (w : Wire) (v : GoVal)
    (hparse : parseTop t bs = some w) (hp : Plain w = true) (h : decodeAny w = .ok v) :
    RTVal 0 v ∧ TypedN v ∧ (SortedN v → normValN v = v) := by
  obtain ⟨-, hwf, hlim⟩ := parseTop_sound hparse
  exact decoded_rtVal w v t 0 h hwf hlim hp

/-- 3, CLEAR-RAW FIXPOINT for one value.  Whatever plain item the decoder accepted (any head
    widths, any key order), the decoded value re-encodes; the re-encoding decodes to the normal
    form of the decoded value, which is again in the data model, is its own normal form, and
    encodes to the same bytes. -/
theorem nested_reencode_fixpoint (cfg : EncCfg) (w : Wire) (v : GoVal) (t : Bool) (d : Nat)
    (h : decodeAny w = .ok v) (hwf : w.wf = true) (hlim : w.inLimits t d = true)
    (hp : Plain w = true) :
    ∃ w' : Wire, encodeAny cfg v = some w'.bytes ∧ w'.wf = true ∧
      (∀ t, w'.inLimits t d = true) ∧ w'.hasTag = false ∧ Plain w' = true ∧
      decodeAny w' = .ok (normValN v) ∧ RTVal d (normValN v) ∧
      normValN (normValN v) = normValN v ∧ encodeAny cfg (normValN v) = some w'.bytes := by
  have hr := rtVal_of_decoded w v t d h hwf hlim hp
  obtain ⟨h1, h2, h3, h4, h5, h6⟩ := vok_of_rtVal cfg v d hr
  obtain ⟨h7, h8⟩ := normValN_closed cfg v d hr
  exact ⟨wireN v, h1, h2, h3, h4, h5, h6, h7, normValN_idem v, by rw [h8, h1]⟩

/-- what the encoder emits decodes to a value that IS its own normal form -/
theorem encoded_decodes_to_normal (cfg : EncCfg) (v : GoVal) (d : Nat) (hv : RTVal d v) :
    ∃ (w : Wire) (v' : GoVal), encodeAny cfg v = some w.bytes ∧ decodeAny w = .ok v' ∧
      RTVal d v' ∧ normValN v' = v' := by
  obtain ⟨h1, -, -, -, -, h6⟩ := vok_of_rtVal cfg v d hv
  exact ⟨wireN v, normValN v, h1, h6, (normValN_closed cfg v d hv).1, normValN_idem v⟩

end C08

namespace C05
open RoundTrip

/-- DUPLICATE MAP KEYS ARE REJECTED AT EVERY DEPTH.  If the generic decoder accepts an item, no
    map anywhere inside the decoded value — nested in arrays, in map values, at any depth — has
    two entries whose keys are `==` (`GoVal.keyEq`, the test `decodePairs` performs on the
    converted keys). -/
theorem decoded_no_duplicate_keys (w : Wire) (v : GoVal) (h : decodeAny w = .ok v) :
    NoDupKeys v :=
  decodeAny_noDup w v h

/-- the same for the entries of a decoded map, spelt out in both directions -/
theorem decoded_map_keys_distinct (w : Wire) (m : GoMap) (h : decodeAny w = .ok (.map m)) :
    m.Pairwise (fun a b => a.1.keyEq b.1 = false ∧ b.1.keyEq a.1 = false) := by
  have := decodeAny_noDup w _ h
  simp only [NoDupKeys] at this
  exact this.1.imp (fun hab => ⟨hab, by rw [keyEq_comm]; exact hab⟩)

end C05

/-! ## why the hypotheses are needed, and non-vacuity -/

namespace NestedExamples
open RoundTrip

/-! ### the key-distinctness hypothesis (and C05 at depth 2) -/

/-- `[{int64(1): nil, int(1): nil}]`: a legal Go value (the two keys are different `any` keys) -/
def dupEx : GoVal := .arr [.map [(.int .i64 1, .nil), (.int .i 1, .nil)]]

def dupWire : Wire :=
  .arr .imm [.map .imm [(.uint .imm 1, .prim .imm 22), (.uint .imm 1, .prim .imm 22)]]

/-- `Pairwise KeyDistinct` in `RTVal` cannot be dropped: `dupEx` satisfies every other clause,
    the encoder emits `81 a2 01 f6 01 f6` for it, the parser accepts these bytes in either mode,
    and the generic decoder refuses the item (duplicate key inside a nested map — which is also
    C05 at depth 2). -/
theorem value_roundtrip_nested_needs_distinct :
    (GoVal.int .i64 1).keyEq (.int .i 1) = false ∧
    encodeAny encCfg dupEx = some [0x81, 0xa2, 0x01, 0xf6, 0x01, 0xf6] ∧
    (∀ t, parseTop t [0x81, 0xa2, 0x01, 0xf6, 0x01, 0xf6] = some dupWire) ∧
    decodeAny dupWire = .err .other := by
  refine ⟨by simp [GoVal.keyEq], ?_, ?_, ?_⟩
  · simp [dupEx, encodeAny, encodeList, encodePairs, encInt, encHead, HW.shortest, headBytes,
      sortPairs, concatPairs, List.mergeSort, List.MergeSort.Internal.splitInTwo, bytesLe, bytesLt]
  · intro t
    simp [dupWire, parseTop, parseItem, parseItems, parsePairs, fuelFor, parseHead, maxNested,
      maxElems]
  · simp [dupWire, decodeAny, decodeList, decodePairs, keyHashable, maxInt64, GoVal.keyEq]

/-! ### the depth bound -/

/-- `n` nested one-element arrays around `nil` -/
def nestArr : Nat → GoVal
  | 0 => .nil
  | n + 1 => .arr [nestArr n]

theorem nestArr_enc (cfg : EncCfg) :
    ∀ n, encodeAny cfg (nestArr n) = some (List.replicate n 0x81 ++ [0xf6])
  | 0 => by simp only [nestArr, encodeAny, List.replicate_zero, List.nil_append]
  | n + 1 => by
    simp only [nestArr, encodeAny, encodeList, nestArr_enc cfg n, List.append_nil,
      List.length_singleton, List.replicate_succ, List.cons_append]
    rfl

theorem nestArr_rt : ∀ n d, d + n ≤ maxNested → RTVal d (nestArr n)
  | 0, _, _ => by simp [nestArr, RTVal, FlatVal]
  | n + 1, d, h => by
    simp only [nestArr, RTVal, RTList, List.length_singleton, and_true]
    exact ⟨by omega, by unfold maxElems; omega, nestArr_rt n (d + 1) (by omega)⟩

/-- the depth clause of `RTVal` is the decoder's limit exactly: 32 nested arrays are inside the
    data model (and so make the round trip), 33 are still encoded but the parser refuses the
    bytes in either mode -/
theorem value_roundtrip_nested_needs_depth :
    RTVal 0 (nestArr 32) ∧
    encodeAny encCfg (nestArr 33) = some (List.replicate 33 0x81 ++ [0xf6]) ∧
    (∀ t, parseTop t (List.replicate 33 0x81 ++ [0xf6]) = none) := by
  refine ⟨nestArr_rt 32 0 (by unfold maxNested; omega), nestArr_enc encCfg 33, ?_⟩
  intro t
  simp [parseTop, parseItem, parseItems, fuelFor, parseHead, maxNested, maxElems, List.replicate]

/-! ### a decoded value is its own normal form only if the sender sorted the keys -/

/-- `SortedN` in `C08.decoded_rtVal` cannot be dropped: `a2 02 00 01 00` (keys 2, 1 in that
    order — not canonical CBOR, but accepted) decodes to a map in wire order; its normal form is
    the sorted map, a different value of the model. -/
theorem decoded_normal_needs_sorted :
    (∀ t, parseTop t [0xa2, 0x02, 0x00, 0x01, 0x00]
      = some (.map .imm [(.uint .imm 2, .uint .imm 0), (.uint .imm 1, .uint .imm 0)])) ∧
    decodeAny (.map .imm [(.uint .imm 2, .uint .imm 0), (.uint .imm 1, .uint .imm 0)])
      = .ok (.map [(.int .i64 2, .int .i64 0), (.int .i64 1, .int .i64 0)]) ∧
    normValN (.map [(.int .i64 2, .int .i64 0), (.int .i64 1, .int .i64 0)])
      = .map [(.int .i64 1, .int .i64 0), (.int .i64 2, .int .i64 0)] ∧
    normValN (.map [(.int .i64 2, .int .i64 0), (.int .i64 1, .int .i64 0)])
      ≠ .map [(.int .i64 2, .int .i64 0), (.int .i64 1, .int .i64 0)] := by
  have hn : normValN (.map [(.int .i64 2, .int .i64 0), (.int .i64 1, .int .i64 0)])
      = .map [(.int .i64 1, .int .i64 0), (.int .i64 2, .int .i64 0)] := by
    simp [normValN, normPairsN, normVal, sortEntries, List.mergeSort,
      List.MergeSort.Internal.splitInTwo, valWire, intWire, Wire.bytes, headBytes, HW.shortest,
      bytesLe, bytesLt]
  refine ⟨?_, ?_, hn, ?_⟩
  · intro t
    simp [parseTop, parseItem, parsePairs, fuelFor, parseHead, maxNested, maxElems]
  · simp [decodeAny, decodePairs, keyHashable, maxInt64, GoVal.keyEq]
  · rw [hn]; simp

/-! ### non-vacuity: a crit-like array -/

/-- `[int(1), "x", int8(-7)]` -/
def critEx : GoVal := .arr [.int .i 1, .str [0x78], .int .i8 (-7)]

theorem critEx_rt : RTVal 0 critEx := by
  simp [critEx, RTVal, RTList, FlatVal, int64Range, utf8Valid, maxNested, maxElems]

theorem critEx_norm : normValN critEx = .arr [.int .i64 1, .str [0x78], .int .i64 (-7)] := rfl

theorem critEx_enc : encodeAny encCfg critEx = some [0x83, 0x01, 0x61, 0x78, 0x26] := by
  simp [critEx, encodeAny, encodeList, encInt, encTstr, encHead, HW.shortest, headBytes]

example : ∃ w : Wire, encodeAny encCfg critEx = some w.bytes ∧
    w.bytes = [0x83, 0x01, 0x61, 0x78, 0x26] ∧ (∀ t, parseTop t w.bytes = some w) ∧
    decodeAny w = .ok (.arr [.int .i64 1, .str [0x78], .int .i64 (-7)]) := by
  obtain ⟨w, h1, -, -, -, h5, h6⟩ := C08.value_roundtrip_nested_top encCfg critEx critEx_rt
  rw [critEx_norm] at h6
  refine ⟨w, h1, ?_, h5, h6⟩
  rw [critEx_enc] at h1
  exact (Option.some.inj h1).symm

/-! ### non-vacuity: a CWT-claims-like map, keys given out of order -/

/-- `{-70000: [h'01', {2: true}], 4: 1700000000, 1: "iss"}` with Go `int` keys and values -/
def cwtEx : GoVal :=
  .map [(.int .i (-70000), .arr [.bytes [0x01], .map [(.int .i 2, .bool true)]]),
        (.int .i 4, .int .i 1700000000),
        (.int .i 1, .str [0x69, 0x73, 0x73])]

theorem cwtEx_rt : RTVal 0 cwtEx := by
  simp [cwtEx, RTVal, RTList, RTPairs, RTKey, FlatVal, int64Range, utf8Valid, maxNested, maxElems,
    KeyDistinct, normVal, GoVal.keyEq]

/-- the normal form: keys sorted bytewise by encoding (`01` < `04` < `3a 00 01 11 6f`), every
    integer typed `int64`, at every depth -/
theorem cwtEx_norm : normValN cwtEx =
    .map [(.int .i64 1, .str [0x69, 0x73, 0x73]),
          (.int .i64 4, .int .i64 1700000000),
          (.int .i64 (-70000), .arr [.bytes [0x01], .map [(.int .i64 2, .bool true)]])] := by
  simp [cwtEx, normValN, normPairsN, normListN, normVal, sortEntries, List.mergeSort,
    List.MergeSort.Internal.splitInTwo, valWire, intWire, Wire.bytes, headBytes, HW.shortest,
    bytesLe, bytesLt]

theorem cwtEx_enc : encodeAny encCfg cwtEx =
    some [0xa3, 0x01, 0x63, 0x69, 0x73, 0x73, 0x04, 0x1a, 0x65, 0x53, 0xf1, 0x00,
          0x3a, 0x00, 0x01, 0x11, 0x6f, 0x82, 0x41, 0x01, 0xa1, 0x02, 0xf5] := by
  simp [cwtEx, encodeAny, encodeList, encodePairs, encInt, encTstr, encBstr, encHead, HW.shortest,
    headBytes, sortPairs, concatPairs, List.mergeSort, List.MergeSort.Internal.splitInTwo, bytesLe,
    bytesLt]

example : ∃ w : Wire, encodeAny encCfg cwtEx = some w.bytes ∧
    w.bytes = [0xa3, 0x01, 0x63, 0x69, 0x73, 0x73, 0x04, 0x1a, 0x65, 0x53, 0xf1, 0x00,
               0x3a, 0x00, 0x01, 0x11, 0x6f, 0x82, 0x41, 0x01, 0xa1, 0x02, 0xf5] ∧
    (∀ t, parseTop t w.bytes = some w) ∧
    decodeAny w = .ok
      (.map [(.int .i64 1, .str [0x69, 0x73, 0x73]),
             (.int .i64 4, .int .i64 1700000000),
             (.int .i64 (-70000), .arr [.bytes [0x01], .map [(.int .i64 2, .bool true)]])]) := by
  obtain ⟨w, h1, -, -, -, h5, h6⟩ := C08.value_roundtrip_nested_top encCfg cwtEx cwtEx_rt
  rw [cwtEx_norm] at h6
  refine ⟨w, h1, ?_, h5, h6⟩
  rw [cwtEx_enc] at h1
  exact (Option.some.inj h1).symm

/-- the decoded claims map is again in the data model, is its own normal form, and re-encodes
    to the same bytes -/
example : RTVal 0 (normValN cwtEx) ∧ normValN (normValN cwtEx) = normValN cwtEx ∧
    encodeAny encCfg (normValN cwtEx) = encodeAny encCfg cwtEx :=
  ⟨(C08.normValN_closed encCfg cwtEx 0 cwtEx_rt).1, C08.normValN_idem cwtEx,
    (C08.normValN_closed encCfg cwtEx 0 cwtEx_rt).2⟩

/-- C05 on the examples: nothing the decoder returns has duplicate keys at any depth; the
    predicate is not vacuous (it fails on the nested duplicate) -/
example : NoDupKeys (normValN cwtEx) := by
  obtain ⟨-, -, -, -, -, h6⟩ := C08.value_roundtrip_nested_wire encCfg cwtEx 0 cwtEx_rt
  exact C05.decoded_no_duplicate_keys _ _ h6

example : ¬ NoDupKeys (.arr [.map [(.int .i64 1, .nil), (.int .i64 1, .bool true)]]) := by
  simp [NoDupKeys, NoDupKeysList, NoDupKeysPairs, KeyNe, GoVal.keyEq]

end NestedExamples
