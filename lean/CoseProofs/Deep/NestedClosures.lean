/-
  CoseProofs.Deep.NestedClosures — the remaining END-TO-END theorems, lifted from header maps with
  SCALAR values (`RoundTrip.FlatMap`) to header maps whose values are NESTED (`RoundTrip.NestedMap`,
  `NestedBuckets.NestedMapAt d`: arrays and maps of any shape — `crit`, CWT claims, application
  parameters holding arrays of maps of arrays …).  `Deep/NestedBuckets` did the two buckets and
  COSE_Sign1; this file does COSE_Sign (multi-signer), countersignatures, the hash envelope and
  the clear-raw fixpoint, reusing the bucket lemmas there.  Core Lean only; nothing outside this
  file is modified.

  DEPTHS.  `NestedMapAt d h`: every value of `h` fits when MET at nesting depth `d` (the parser
  counts arrays and maps from 0 at the top item; limit `maxNested` = 32).  Which `d` each bucket
  needs is dictated by where its map item sits on the wire:
    protected bucket, anywhere            d = 1 (`NestedMap`)  a byte string, parsed on its own
    stand-alone unprotected bucket        d = 1                the map item is the top item
    COSE_Sign1 / COSE_Sign body / stand-alone COSE_Countersignature, unprotected
                                          d = 2                map item inside the message array
    signer slot of a COSE_Sign, unprotected
                                          d = 4 (`NestedSlot`) message array ∋ signatures array ∋
                                                               slot array ∋ map item
  Every `FlatMap` is `NestedMapAt d` for every `d`, every `FlatSlot` a `NestedSlot`
  (`nestedSlot_of_flat`), so each theorem below implies its `_flat` original.

  WHAT IS PROVED, in plain words
    1. C01.signmsg_wire_nested          = `signmsg_wire_flat` with `NestedMap` / `NestedMapAt 2` for
         the body and `NestedSlot` for every signer slot: `SignMessage.Sign` ok ∧ `MarshalCBOR` ok
         ⟹ `UnmarshalCBOR` ok ∧ `Verify` ok with the positionally matching verifiers ∧ same
         payload, as many signer entries, the signers' signatures; additionally names the decoded
         body header maps.  C01.signmsg_wire_detached_nested: the detached-payload flow.
       C01.signmsg_wire_nested_needs_depth4: the slot depth cannot be relaxed to 3 — a slot with
         unprotected `{99: [[…[nil]…]]}` (29 nested arrays) satisfies every hypothesis with depth
         3 for 4, the library signs and encodes the message (`exDeepSB`, 55 bytes after the tag),
         `UnmarshalCBOR` REFUSES it (nesting 33 > 32).  Same encoder/decoder asymmetry as
         `NestedBuckets.sign1_wire_nested_needs_depth2` (the decoder has `MaxNestedLevels` 32
         counted from the message; the unprotected encoder's own gate, headers.go:256, counts
         from the bucket's map and lets 1 + 29 levels pass), one more place where it shows.
    2. C01.countersignature_wire_nested = `countersignature_wire_flat`, every parent kind, with
         `NestedMap` / `NestedMapAt 2`; additionally names the decoded header maps.
    3. C12.henv_closed_nested           = `henv_closed_flat` with nested values in the caller's
         headers (the preimage content type stays scalar: the envelope rules accept only uint / text).
    4. clear-raw (the application discards `RawProtected` / `RawUnprotected` of a DECODED message)
       C09.clear_raw_decodable_nested   decoded header values in the data model ⟹ the cleared
         message marshals to `b'`, which unmarshals to `m'` with the same payload and signature,
         `m'.h.p = (sortEntries m.h.p).map decEntryN`, `m'.h.u = (sortEntries m.h.u).map
         normEntryN` — same labels, entries in the encoder's order, and every map NESTED inside a
         value sorted too (the decoder keeps wire order at every depth and accepts non-canonical
         order: `NestedExamples.decoded_normal_needs_sorted`) — `Perm`, lookups under any
         spelling of a label (values up to `normValN`), equal `Algorithm()`, and `m'` is again in
         the data model.
       C09.clear_raw_fixpoint_nested    for ANY such `b'`, `m'`: clearing `m'` and marshalling
         gives `b'` again and `b'` decodes to `m'` again: ONE cycle reaches the fixpoint, as in
         the flat case, although that cycle may have re-sorted nested maps.
         C09.clearCycle_idempotent_nested is the composed form.
       C09.protected_clear_raw_fixpoint_nested, C09.unprotected_clear_raw_fixpoint_nested
         the bucket level: re-encoding succeeds, the protected content is NOT LONGER than the
         original (`wireN_length_le`: nested form of `valWire_length_le`), decodes to the canonical
         map, which is in the data model, encodes to the same bytes, and is its own canonical
         form (`canonP_idem`, `canonU_idem`).
       C09.clear_raw_sorted_nested      if the sender had sorted the nested maps, the canonical
         maps are just `sortEntries m.h.p` / `sortEntries m.h.u` — literally the flat statement.
       C09.nested_of_plain_items        WIRE-SIDE sufficient condition for the two data-model
         hypotheses (via `C08.decoded_rtVal`): every value item in the two header maps of the
         input is `Plain` (no float, no simple value other than false/true/null/undefined, at any
         depth; arrays and maps are fine) and the unprotected map has no label 7 / 11.
    5. non-vacuity, every hypothesis discharged by computation:
       `C01.exMsgNest` (COSE_Sign, TWO slots; body protected `{1: ES256, 2: [int(-70001)],
         -70001: [1, {2: true}]}` = `crit` + array-of-map, body unprotected = CWT claims; second
         slot unprotected `{99: [1, [2]]}`) for 1; a countersignature with those headers for 2; a
         SHA-256 envelope over those headers for 3; `NestedClearRawExamples.exBN` for 4: protected
         bucket on the wire `{2: [-70001], 1: -7, -70001: {2: true, 1: 0}}` — `crit`, top-level
         keys out of order AND the nested map's keys out of order — unprotected `{99: [1, [2]]}`;
         the cleared message encodes to `exBN' ≠ exBN`, the decoded protected map is `exPmN'`
         (both levels sorted) `≠ sortEntries` of the original, and `exBN'` is a fixpoint.

  HYPOTHESES THAT REMAIN, AND WHY
    * the data-model predicates at the depths above — the scope; the depth is needed (1:
      `signmsg_wire_nested_needs_depth4`; body / countersignature / Sign1:
      `NestedBuckets.sign1_wire_nested_needs_depth2`), and inside it `Pairwise KeyDistinct` for
      nested maps is needed (`NestedBuckets.protected_bucket_roundtrip_nested_needs_distinct`).
      Excluded as before: floats, simple values, `[]byte(nil)`, opaque values, countersignature
      VALUES (labels 7 / 11).
    * 1–3: `UintOK` on top-level values, `length ≤ maxElems`, `hn : m.sigs.length ≤ maxElems`,
      payload / signatures shorter than 2^64, `int64Range s.alg` (`GoSigner`), `Matches`, no
      retained raw buckets, `hok` / `henc` — exactly as in the flat theorems, for the reasons given
      in `Deep/SignWireClosure.lean` and `Deep/WireClosure.lean`.
    * 4: NOTHING but the two data-model hypotheses on the decoded maps (`UintOK`, sizes, validation,
      `ensureIV`, `modelledPairs`, the 2^64 bound on the protected content are all derived from
      "the decoder accepted it"); 3b keeps `hlim` (the item came out of the parser).
  No target statement turned out false in the model apart from the depth of a signer slot's
  unprotected bucket (4, not 2), which is stated with its counterexample.
  NOT DONE: countersignature-valued parameters (labels 7, 11) with nested values; `_alg` variants
  (C04 across the wire) for COSE_Sign slots.
  Axioms: propext, Quot.sound, Classical.choice.
-/
import CoseProofs.Deep.NestedBuckets
import CoseProofs.Deep.SignWireClosure
import CoseProofs.Deep.ClearRaw
open CoseModel CoseSpec RoundTrip

namespace NestedClosures
open WireClosure SignWireClosure NestedBuckets

/-! ### one header layer with nested values, at any depth -/

/-- the unprotected bucket whose map item is met at depth `d` (values at depth `d + 1`): the map
    item `mapWireN u`, well formed, within the parser's limits at every depth `≤ d`, accepted by
    `UnprotectedHeader.UnmarshalCBOR` -/
theorem unprot_itemAt {d : Nat} {u : GoMap} (hf : NestedMapAt (d + 1) u)
    (hu : ∀ e ∈ u, UintOK e.2) (hlen : u.length ≤ maxElems) (hd : d + 1 ≤ maxNested) {U : Bytes}
    (he : encodeBucket encCfg false none u = some U) :
    U = (mapWireN u).bytes ∧ (mapWireN u).wf = true ∧
      (∀ t d', d' ≤ d → (mapWireN u).inLimits t d' = true) ∧
      decUnprot (mapWireN u) = .ok ((sortEntries u).map normEntryN) := by
  have hv := validate_of_encodeBucket he
  have hok := C13.validate_labels u false hv
  have hb : U = (mapWireN u).bytes := by
    by_cases hne : u = []
    · subst hne
      simp only [encodeBucket, Bool.false_eq_true, if_false, Option.some.injEq] at he
      rw [mapWireN_nil_bytes, ← he]
    · rw [encodeBucket_N (d := d) hf false hv hlen hd hne] at he
      simpa using he.symm
  obtain ⟨-, hwf, -, -, -⟩ := mapWireN_ok encCfg (d := d) hf hok hlen hd
  refine ⟨hb, hwf, ?_, decUnprot_mapWireN (d := d) hf hu hv hlen hd⟩
  intro t d' hle
  obtain ⟨-, -, hlim, -⟩ :=
    mapWireN_ok encCfg (d := d') (hf.mono (by omega)) hok hlen (by omega)
  exact hlim t

/-- one header layer (body of a COSE_Sign, one signer entry, a countersignature) built from maps
    with nested values and no retained raw bytes; the unprotected map item is met at depth `d` -/
theorem layer_itemsN {d : Nat} {p u : GoMap} (hfp : NestedMap p) (hfu : NestedMapAt (d + 1) u)
    (hd : d + 1 ≤ maxNested)
    (hup : ∀ e ∈ p, UintOK e.2) (huu : ∀ e ∈ u, UintOK e.2)
    (hlp : p.length ≤ maxElems) (hlu : u.length ≤ maxElems) {P P' U : Bytes}
    (hP : marshalProtected { p := p, u := u } = .ok P) (hdet : detBstr P = .ok P')
    (hU : marshalUnprotected { p := p, u := u } = .ok U) (hiv : ensureIV p u = true) :
    ∃ (hw : HW) (content : Bytes), P = (Wire.bstr hw content).bytes ∧ U = (mapWireN u).bytes ∧
      (Wire.bstr hw content).wf = true ∧ (mapWireN u).wf = true ∧
      (∀ t d', d' ≤ d → (mapWireN u).inLimits t d' = true) ∧
      decProtected (.bstr hw content) = .ok ((sortEntries p).map decEntryN) ∧
      decUnprot (mapWireN u) = .ok ((sortEntries u).map normEntryN) ∧
      ensureIV ((sortEntries p).map decEntryN) ((sortEntries u).map normEntryN) = true ∧
      algorithmOf ((sortEntries p).map decEntryN) = algSpec p := by
  obtain ⟨-, heP⟩ := marshalProtected_ok_inv hP
  obtain ⟨-, heU⟩ := marshalUnprotected_ok_inv hU
  obtain ⟨hw, content, hPb, hpwf, hdp, halg⟩ := prot_itemN hfp hup hlp heP hdet
  obtain ⟨hUb, huwf, hulim, hdu⟩ := unprot_itemAt hfu huu hlu hd heU
  exact ⟨hw, content, hPb, hUb, hpwf, huwf, hulim, hdp, hdu,
    ensureIV_decodedN (dp := 1) hfp hfu hiv, halg⟩

/-! ### a COSE_Signature-shaped 3-array across the wire, nested header values -/

/-- CORE (nested form of `SignWireClosure.sigv_decodes_flat`): an entry whose 3-array is met at
    depth `d` — so its unprotected map item sits at depth `d + 1` and the values in it at depth
    `d + 2` — is emitted as ONE well-formed COSE_Signature tree `x`, within the parser's limits at
    every depth `≤ d`, which `Signature.unmarshal` (top level) and the per-signer decoder of
    COSE_Sign (`SigElem`) accept; the decoded header maps are named -/
theorem sigv_decodes_nested (d : Nat) (p u : GoMap) (sig b P P' : Bytes)
    (hfp : NestedMap p) (hfu : NestedMapAt (d + 2) u) (hd : d + 2 ≤ maxNested)
    (hup : ∀ e ∈ p, UintOK e.2) (huu : ∀ e ∈ u, UintOK e.2)
    (hlp : p.length ≤ maxElems) (hlu : u.length ≤ maxElems)
    (hsl : sig.length < 18446744073709551616) (hsne : sig ≠ [])
    (hP : marshalProtected { p := p, u := u } = .ok P) (hdet : detBstr P = .ok P')
    (henc : Signature.marshal { h := { p := p, u := u }, sig := some sig } = .ok b) :
    ∃ (x : Wire) (s2 : SigV), b = x.bytes ∧ x.wf = true ∧
      (∀ d', d' ≤ d → x.inLimits false d' = true) ∧ C05.SigElem x s2 ∧
      Signature.unmarshal b = .ok s2 ∧
      Same { h := { p := p, u := u }, sig := some sig } s2 ∧
      s2.h.p = (sortEntries p).map decEntryN ∧ s2.h.u = (sortEntries u).map normEntryN := by
  obtain ⟨P0, U, hz, hiv, hP0, hU, hb⟩ := signature_marshal_ok_inv henc
  have hP0' : marshalProtected { p := p, u := u } = .ok P0 := hP0
  rw [hP] at hP0'
  cases hP0'
  obtain ⟨hw, content, hPb, hUb, hpwf, huwf, hulim, hdp, hdu, hiv', halg⟩ :=
    layer_itemsN (d := d + 1) hfp hfu hd hup huu hlp hlu hP hdet hU hiv
  have hsgfit : (HW.shortest sig.length).fits sig.length = true := C02.shortest_fits hsl
  have hwf : (Wire.arr .imm [.bstr hw content, mapWireN u,
      .bstr (HW.shortest sig.length) sig]).wf = true := by
    have h3 : HW.fits .imm 3 = true := by decide
    simp only [Wire.wf] at hpwf
    simp [Wire.wf, Wire.wfList, h3, hpwf, huwf, hsgfit]
  have hlim : ∀ d', d' ≤ d → (Wire.arr .imm [.bstr hw content, mapWireN u,
      .bstr (HW.shortest sig.length) sig]).inLimits false d' = true := by
    intro d' hdd
    have hu1 := hulim false (d' + 1) (by omega)
    have hd1 : d' + 1 ≤ maxNested := by omega
    simp [Wire.inLimits, Wire.inLimitsList, hd1, maxElems, hu1]
  have hbytes : b = (Wire.arr .imm [.bstr hw content, mapWireN u,
      .bstr (HW.shortest sig.length) sig]).bytes := by
    rw [hb, hPb, hUb, Accept.arr3_bytes]
    rfl
  have hacc := C07.wf_signature_accepted_full hwf (hlim 0 (by omega)) hdp hdu hiv' hsne
  rw [← hbytes] at hacc
  have hmp : marshalProtected (Hdrs.mk (some (Wire.bstr hw content).bytes)
      ((sortEntries p).map decEntryN) (some (mapWireN u).bytes)
      ((sortEntries u).map normEntryN)) = .ok P :=
    (Verifies.marshalProtected_raw (p := .bstr hw content) rfl
      (C01.decProtected_modelled hdp)).trans (by rw [hPb])
  refine ⟨_, _, hbytes, hwf, hlim, ?_, hacc, ⟨rfl, ?_, halg⟩, rfl, rfl⟩
  · exact ⟨_, _, _, rfl, hdp, hdu, hiv', rfl, rfl, rfl, C01.blen_some_ne hsne⟩
  · exact hmp.trans hP.symm

/-! ### COSE_Sign: the signer entries -/

/-- the scope for one signer slot of a COSE_Sign: no caller-supplied raw buckets, header maps with
    flat labels and nested values — the protected bucket is a byte string parsed on its own, so
    its values are met at depth 1; the slot is the element of an array inside the message array,
    so its unprotected map item sits at depth 3 and the values in it at depth 4 — and room for the
    `alg` entry `Sign` may add -/
def NestedSlot (sg : SigV) : Prop :=
  sg.h.rawP = none ∧ sg.h.rawU = none ∧ NestedMap sg.h.p ∧ NestedMapAt 4 sg.h.u ∧
    (∀ e ∈ sg.h.p, UintOK e.2) ∧ (∀ e ∈ sg.h.u, UintOK e.2) ∧
    sg.h.p.length < maxElems ∧ sg.h.u.length ≤ maxElems

/-- every flat slot is a nested slot -/
theorem nestedSlot_of_flat {sg : SigV} (h : FlatSlot sg) : NestedSlot sg := by
  obtain ⟨h1, h2, h3, h4, h5, h6, h7, h8⟩ := h
  exact ⟨h1, h2, h3.nested, nestedMapAt_of_flat 4 h4, h5, h6, h7, h8⟩

/-- one signer slot (nested form of `SignWireClosure.slot_wire`) -/
theorem slot_wireN (sg : SigV) (s : Signer) (bprot : Bytes) (payload ext : Option Bytes)
    (b : Bytes) (hne : ∀ t x, s.sign t = .ok x → x ≠ []) (hslot : NestedSlot sg)
    (hgs : GoSigner s) (hok : (Signature.sign sg s bprot payload ext).out = .ok ())
    (henc : Signature.marshal (Signature.sign sg s bprot payload ext).state = .ok b) :
    ∃ (x : Wire) (s2 : SigV), b = x.bytes ∧ x.wf = true ∧ x.inLimits false 2 = true ∧
      C05.SigElem x s2 ∧ Same (Signature.sign sg s bprot payload ext).state s2 := by
  obtain ⟨p', tbs, sig, -, -, hgate, ht, hsg, hst⟩ :=
    C01.signature_sign_ok_inv sg s bprot payload ext hok
  obtain ⟨hrp, hru, hfp, hfu, hup, huu, hlp, hlu⟩ := hslot
  obtain ⟨⟨rp, p, ru, u⟩, sg0⟩ := sg
  simp only at hrp hru hfp hfu hup huu hlp hlu hgate ht hst
  subst hrp hru
  rw [hst] at henc ⊢
  obtain ⟨-, P, P', -, hP, hd⟩ := sigTbs_ok_inv ht
  obtain ⟨hfp', hup', hlp', -⟩ := sign_gate_nested (d := 1) hgate hfp hup hgs.1
  obtain ⟨x, s2, hb, hwf, hlim, hel, -, hsame, -, -⟩ :=
    sigv_decodes_nested 2 p' u sig b P P' hfp' hfu (by unfold maxNested; omega) hup' huu
      (by omega) hlu (hgs.2 _ _ hsg) (hne _ _ hsg) hP hd henc
  exact ⟨x, s2, hb, hwf, hlim 2 (Nat.le_refl _), hel, hsame⟩

/-- CORE (nested form of `SignWireClosure.signmsg_decodes_flat`) -/
theorem signmsg_decodes_nested (p u : GoMap) (o : Option Bytes) (l : List SigV) (b P P' : Bytes)
    (hfp : NestedMap p) (hfu : NestedMapAt 2 u)
    (hup : ∀ e ∈ p, UintOK e.2) (huu : ∀ e ∈ u, UintOK e.2)
    (hlp : p.length ≤ maxElems) (hlu : u.length ≤ maxElems)
    (ho : blen o < 18446744073709551616) (hn : l.length ≤ maxElems)
    (hall : ∀ st ∈ l, ∀ b, Signature.marshal st = .ok b →
      ∃ (x : Wire) (s2 : SigV), b = x.bytes ∧ x.wf = true ∧ x.inLimits false 2 = true ∧
        C05.SigElem x s2 ∧ Same st s2)
    (hP : marshalProtected { p := p, u := u } = .ok P) (hd : detBstr P = .ok P')
    (henc : Sign.marshal { h := { p := p, u := u }, payload := o, sigs := l } = .ok b) :
    ∃ m2, Sign.unmarshal b = .ok m2 ∧ m2.payload = o ∧ marshalProtected m2.h = .ok P ∧
      m2.h.p = (sortEntries p).map decEntryN ∧ m2.h.u = (sortEntries u).map normEntryN ∧
      m2.sigs.length = l.length ∧
      ∀ i (h1 : i < l.length) (h2 : i < m2.sigs.length), Same l[i] m2.sigs[i] := by
  obtain ⟨P0, U, ssb, hne, hiv, hP0, hU, hms, hb⟩ := sign_marshal_ok_inv henc
  have hP0' : marshalProtected { p := p, u := u } = .ok P0 := hP0
  rw [hP] at hP0'
  cases hP0'
  simp only at hne hiv hU hms hb
  obtain ⟨hw, content, hPb, hUb, hpwf, huwf, hulim, hdp, hdu, hiv', -⟩ :=
    layer_itemsN (d := 1) hfp hfu (by unfold maxNested; omega) hup huu hlp hlu hP hd hU hiv
  obtain ⟨xs, l2, hbs, hwfs, hlims, hdec, hlx, hl2, hidx⟩ := marshalSigs_decodes l ssb hall hms
  have hxn : xs ≠ [] := by
    intro hc
    rw [hc] at hlx
    exact hne (List.eq_nil_of_length_eq_zero hlx.symm)
  have hwf : (signTree (.bstr hw content) (mapWireN u) o xs).wf = true := by
    have h4 : HW.fits .imm 4 = true := by decide
    have hnf : (HW.shortest xs.length).fits xs.length = true :=
      shortest_fits_elems (by omega)
    simp only [Wire.wf] at hpwf
    simp [signTree, Wire.wf, Wire.wfList, h4, hpwf, huwf, C01.shortItem_wf_of_lt o ho, hnf, hwfs]
  have hlim : (signTree (.bstr hw content) (mapWireN u) o xs).inLimits false 0 = true := by
    have hu1 := hulim false 1 (Nat.le_refl _)
    have hxl : xs.length ≤ maxElems := by omega
    simp [signTree, Wire.inLimits, Wire.inLimitsList, maxNested, hu1, C09.shortItem_inLimits,
      hlims]
    constructor
    · unfold maxElems; omega
    · exact hxl
  have hpt := parseTop_complete hwf hlim
  have hbytes : b = 0xd8 :: 0x62 :: (signTree (.bstr hw content) (mapWireN u) o xs).bytes := by
    rw [hb, signTree_bytes, hPb, hUb, hbs, hlx]
  rw [signTree_bytes] at hpt hbytes
  have hacc := C09.sign_unmarshal_of hpt (C09.shortItem_dec o) hxn hdec
    (C09.decHeaders_of hdp hdu hiv')
  rw [← hbytes] at hacc
  refine ⟨_, hacc, rfl, ?_, rfl, rfl, hl2, ?_⟩
  · exact (Verifies.marshalProtected_raw (p := .bstr hw content) rfl
      (C01.decProtected_modelled hdp)).trans (by rw [hPb])
  · intro i h1 h2
    exact hidx i h1 h2

end NestedClosures


/-! ## clear-raw with nested header values: tools -/

namespace NestedClosures
open WireClosure NestedBuckets ClearRaw

/-! ### the retyping / normalisation of an entry does not change what is emitted -/

theorem wireN_algCast (v : GoVal) : wireN (algCast v) = wireN v := by
  cases v <;> try rfl
  case int k a => cases hs : k.signed <;> simp [algCast, hs, wireN, valWire]

theorem entryWireN_castEntry (e : GoVal × GoVal) : entryWireN (castEntry e) = entryWireN e := by
  unfold castEntry
  split
  · simp only [entryWireN, wireN_algCast]
  · rfl

theorem entryWireN_normEntryN (e : GoVal × GoVal) : entryWireN (normEntryN e) = entryWireN e := by
  simp only [entryWireN, normEntryN, valWire_of_normVal, wireN_normValN]

theorem entryWireN_decEntryN (e : GoVal × GoVal) : entryWireN (decEntryN e) = entryWireN e := by
  unfold decEntryN
  rw [entryWireN_castEntry, entryWireN_normEntryN]

/-- sorting commutes with an entry-wise map that keeps the encoded keys -/
theorem sortEntries_map_key (f : GoVal × GoVal → GoVal × GoVal)
    (hf : ∀ e, valWire (f e).1 = valWire e.1) (g : GoMap) :
    sortEntries (g.map f) = (sortEntries g).map f := by
  unfold sortEntries
  exact (List.map_mergeSort
    (r := fun (a b : GoVal × GoVal) => bytesLe (valWire a.1).bytes (valWire b.1).bytes)
    (s := fun (a b : GoVal × GoVal) => bytesLe (valWire a.1).bytes (valWire b.1).bytes)
    (f := f) (fun a _ b _ => by simp only [hf])).symm

/-- an entry-wise map that keeps the emitted entry keeps the emitted map item -/
theorem mapWireN_map (f : GoVal × GoVal → GoVal × GoVal)
    (hf : ∀ e, entryWireN (f e) = entryWireN e) (g : GoMap) : mapWireN (g.map f) = mapWireN g := by
  have hk : ∀ e, valWire (f e).1 = valWire e.1 := fun e => congrArg Prod.fst (hf e)
  unfold mapWireN
  rw [sortEntries_map_key f hk, List.length_map, List.map_map]
  congr 1
  apply List.map_congr_left
  intro e _
  exact hf e

theorem mapWireN_sortEntries (g : GoMap) : mapWireN (sortEntries g) = mapWireN g := by
  unfold mapWireN
  rw [sortEntries_sortEntries, sortEntries_length]

theorem mapWireN_canonP (g : GoMap) : mapWireN ((sortEntries g).map decEntryN) = mapWireN g := by
  rw [mapWireN_map decEntryN entryWireN_decEntryN, mapWireN_sortEntries]

theorem mapWireN_canonU (g : GoMap) : mapWireN ((sortEntries g).map normEntryN) = mapWireN g := by
  rw [mapWireN_map normEntryN entryWireN_normEntryN, mapWireN_sortEntries]

/-! ### the data model is closed under the decoder's retyping -/

theorem rtVal_algCast {d : Nat} {v : GoVal} (h : RTVal d v) : RTVal d (algCast v) := by
  cases v <;> try exact h
  case int k a => cases hs : k.signed <;> simpa [algCast, hs, RTVal, FlatVal] using h

theorem rtVal_of_algCast {d : Nat} {v : GoVal} (h : RTVal d (algCast v)) : RTVal d v := by
  cases v <;> try exact h
  case int k a => cases hs : k.signed <;> simpa [algCast, hs, RTVal, FlatVal] using h

theorem nestedMapAt_normEntryN {d : Nat} {g : GoMap} (hf : NestedMapAt d g) :
    NestedMapAt d (g.map normEntryN) := by
  intro e' he'
  obtain ⟨e, he, rfl⟩ := List.mem_map.mp he'
  exact ⟨flatLabel_normVal (hf e he).1, (C08.normValN_closed encCfg e.2 d (hf e he).2).1⟩

theorem nestedMapAt_decEntryN {d : Nat} {g : GoMap} (hf : NestedMapAt d g) :
    NestedMapAt d (g.map decEntryN) := by
  intro e' he'
  obtain ⟨e, he, rfl⟩ := List.mem_map.mp he'
  have h1 := flatLabel_normVal (hf e he).1
  have h2 := (C08.normValN_closed encCfg e.2 d (hf e he).2).1
  unfold decEntryN castEntry normEntryN
  split
  · exact ⟨h1, rtVal_algCast h2⟩
  · exact ⟨h1, h2⟩

theorem modelledList_iff (l : List GoVal) :
    GoVal.modelledList l = true ↔ ∀ x ∈ l, x.modelled = true := by
  induction l with
  | nil => simp [GoVal.modelledList]
  | cons x r ih => simp only [GoVal.modelledList, Bool.and_eq_true, ih, List.forall_mem_cons]

/-- every value of the nested data model is a value whose encoding the model mirrors -/
theorem rtVal_modelled : ∀ (v : GoVal) (d : Nat), RTVal d v → v.modelled = true := by
  intro v
  induction v using goVal_ind with
  | harr xs ih =>
    intro d h
    simp only [RTVal, rtList_iff] at h
    simp only [GoVal.modelled]
    rw [modelledList_iff]
    exact fun x hx => ih x hx _ (h.2.2 x hx)
  | hmap kvs ih =>
    intro d h
    simp only [RTVal, rtPairs_iff] at h
    simp only [GoVal.modelled]
    rw [C01.modelledPairs_iff]
    intro e he
    exact ⟨flatVal_modelled (h.2.2.2 e he).1.flatVal, ih e he _ (h.2.2.2 e he).2⟩
  | hleaf v hn =>
    intro d h
    exact flatVal_modelled ((rtVal_leaf d hn).mp h)

theorem nested_modelled {d : Nat} {h : GoMap} (hf : NestedMapAt d h) :
    GoVal.modelledPairs h = true := by
  rw [C01.modelledPairs_iff]
  intro e he
  exact ⟨flatVal_modelled (hf e he).1.flatVal, rtVal_modelled e.2 d (hf e he).2⟩

end NestedClosures


/-! ## clear-raw with nested header values: re-encoding never lengthens -/

namespace NestedClosures
open WireClosure NestedBuckets ClearRaw

theorem pointwise_of_rel2 {α β : Type} {R : α → β → Prop} : ∀ {l : List α} {l' : List β},
    Rel2 R l l' → Pointwise R l l'
  | [], [], _ => trivial
  | _ :: as, _ :: bs, h => ⟨h.1, pointwise_of_rel2 (l := as) (l' := bs) h.2⟩
  | [], _ :: _, h => h.elim
  | _ :: _, [], h => h.elim

theorem bytesList_le : ∀ (xs : List Wire) (l : List GoVal),
    Pointwise (fun x y => decodeAny x = .ok y) xs l →
    (∀ x ∈ xs, ∀ y ∈ l, decodeAny x = .ok y → (wireN y).bytes.length ≤ x.bytes.length) →
    (Wire.bytesList (l.map wireN)).length ≤ (Wire.bytesList xs).length
  | [], [], _, _ => Nat.le_refl _
  | x :: xs, y :: l, h, hp => by
    have h1 := hp x (List.mem_cons_self ..) y (List.mem_cons_self ..) h.1
    have ih := bytesList_le xs l h.2
      (fun x' hx' y' hy' => hp x' (List.mem_cons_of_mem _ hx') y' (List.mem_cons_of_mem _ hy'))
    simp only [List.map_cons, Wire.bytesList, List.length_append]
    omega
  | [], _ :: _, h, _ => h.elim
  | _ :: _, [], h, _ => h.elim

theorem bytesPairs_le {R : Wire × Wire → GoVal × GoVal → Prop} :
    ∀ (kvs : List (Wire × Wire)) (l : GoMap), Pointwise R kvs l →
    (∀ kv ∈ kvs, ∀ e ∈ l, R kv e → (valWire e.1).bytes.length ≤ kv.1.bytes.length ∧
      (wireN e.2).bytes.length ≤ kv.2.bytes.length) →
    (Wire.bytesPairs (l.map entryWireN)).length ≤ (Wire.bytesPairs kvs).length
  | [], [], _, _ => Nat.le_refl _
  | (k, v) :: kvs, e :: l, h, hp => by
    have h1 := hp (k, v) (List.mem_cons_self ..) e (List.mem_cons_self ..) h.1
    have ih := bytesPairs_le kvs l h.2
      (fun x' hx' y' hy' => hp x' (List.mem_cons_of_mem _ hx') y' (List.mem_cons_of_mem _ hy'))
    simp only [List.map_cons, entryWireN, Wire.bytesPairs, List.length_append]
    simp only at h1
    omega
  | [], _ :: _, h, _ => h.elim
  | _ :: _, [], h, _ => h.elim

theorem bytesPairs_sorted_length (g : GoMap) :
    (Wire.bytesPairs ((sortEntries g).map entryWireN)).length
      = (Wire.bytesPairs (g.map entryWireN)).length :=
  bytesPairs_length_perm ((sortEntries_perm g).map entryWireN)

/-- the item the encoder emits for a decoded value of the nested data model is not longer than
    the item it was decoded from (nested form of `ClearRaw.valWire_length_le`) -/
theorem wireN_length_le : ∀ (w : Wire) (v : GoVal) (d : Nat), decodeAny w = .ok v → w.wf = true →
    RTVal d v → (wireN v).bytes.length ≤ w.bytes.length := by
  intro w
  induction w using wire_ind with
  | harr hw xs ih =>
    intro v d h hwf hv
    obtain ⟨l, hl, rfl⟩ := decodeAny_arr_ok h
    have hrel := decodeList_rel xs l hl
    simp only [Wire.wf, Bool.and_eq_true, wfList_iff] at hwf
    simp only [RTVal, rtList_iff] at hv
    have hhead := C09.shortest_head_le 4 hwf.1
    have hbody := bytesList_le xs l hrel
      (fun x hx y hy hxy => ih x hx y (d + 1) hxy (hwf.2 x hx) (hv.2.2 y hy))
    rw [wireN_arr]
    simp only [Wire.bytes, List.length_map, List.length_append, ← hrel.length_eq]
    omega
  | hmap hw kvs ih =>
    intro v d h hwf hv
    obtain ⟨l, hl, rfl⟩ := decodeAny_map_ok h
    obtain ⟨l', hl', hrel⟩ := decodePairs_relN kvs [] l hl
    simp only [List.reverse_nil, List.nil_append] at hl'
    subst hl'
    simp only [Wire.wf, Bool.and_eq_true, wfPairs_iff] at hwf
    simp only [RTVal, rtPairs_iff] at hv
    have hhead := C09.shortest_head_le 5 hwf.1
    have hbody := bytesPairs_le kvs l hrel
      (fun kv hkv e he hr =>
        ⟨valWire_length_le hr.1 (hwf.2 kv hkv).1 (hv.2.2.2 e he).1.flatVal,
         (ih kv hkv).2 e.2 (d + 1) hr.2.1 (hwf.2 kv hkv).2 (hv.2.2.2 e he).2⟩)
    have hperm := bytesPairs_sorted_length l
    rw [wireN_map]
    simp only [Wire.bytes, List.length_map, sortEntries_length, List.length_append,
      ← hrel.length_eq]
    omega
  | hleaf w ha hm =>
    intro v d h hwf hv
    have hn := decoded_leaf ha hm h
    rw [wireN_leaf hn]
    exact valWire_length_le h hwf ((rtVal_leaf d hn).mp hv)

/-- the canonical encoding of a decoded protected map with nested values is not longer than the
    content it was decoded from (nested form of `ClearRaw.protected_decoded_bytes_le`) -/
theorem protected_decoded_bytes_leN {enc : Bytes} {m : GoMap}
    (h : decProtectedContent enc = .ok m) (hf : NestedMap m) (hne : m ≠ []) :
    (mapWireN m).bytes.length ≤ enc.length := by
  rcases decProtectedContent_shape h with ⟨-, rfl⟩ | ⟨hw, kvs, m0, rfl, hwf, -, hrel, rfl⟩
  · exact absurd rfl hne
  · simp only [Wire.wf, Bool.and_eq_true, wfPairs_iff] at hwf
    have hlen : (m0.map castEntry).length = kvs.length := by
      rw [List.length_map, ← hrel.length_eq]
    have hhead := C09.shortest_head_le 5 hwf.1
    have hbody := bytesPairs_le kvs m0 (pointwise_of_rel2 hrel)
      (fun kv hkv e he hr => by
        obtain ⟨g1, g2⟩ := hf (castEntry e) (List.mem_map_of_mem he)
        rw [castEntry_fst] at g1
        have g3 : RTVal 1 e.2 := by
          unfold castEntry at g2
          split at g2
          · exact rtVal_of_algCast g2
          · exact g2
        exact ⟨valWire_length_le hr.1 (hwf.2 kv hkv).1 g1.flatVal,
          wireN_length_le kv.2 e.2 1 hr.2 (hwf.2 kv hkv).2 g3⟩)
    have hperm := bytesPairs_sorted_length (m0.map castEntry)
    have hmap : (m0.map castEntry).map entryWireN = m0.map entryWireN := by
      rw [List.map_map]
      apply List.map_congr_left
      intro e _
      exact entryWireN_castEntry e
    rw [hmap] at hperm
    simp only [mapWireN, Wire.bytes, List.length_map, sortEntries_length, List.length_append,
      hlen]
    omega

end NestedClosures


/-! ## clear-raw with nested header values: canonical buckets -/

namespace NestedClosures
open WireClosure NestedBuckets ClearRaw

/-- what one clear-raw cycle makes of a decoded protected map: entries in the encoder's order,
    every nested map inside a value sorted (`decEntryN`; labels and the `alg` typing are already
    the decoder's) -/
def canonP (m : GoMap) : GoMap := (sortEntries m).map decEntryN

/-- the same for a decoded unprotected map -/
def canonU (m : GoMap) : GoMap := (sortEntries m).map normEntryN

theorem canonP_ne_nil {m : GoMap} (hne : m ≠ []) : canonP m ≠ [] := by
  intro hc
  have := congrArg List.length hc
  simp only [canonP, List.length_map, sortEntries_length, List.length_nil] at this
  exact hne (List.eq_nil_of_length_eq_zero this)

/-- a validated protected bucket of the nested data model: the encoder emits a byte string whose
    content the decoder reads back as `canonP m`, and encoding THAT gives the same bytes again
    (nested form of `ClearRaw.protected_canon`; no "already normal" hypothesis — the normal form
    is `canonP m`, not `sortEntries m`) -/
theorem protected_canonN {m : GoMap} (hf : NestedMap m) (hu : ∀ e ∈ m, UintOK e.2)
    (hv : validateHeaderParameters m true = true) (hlen : m.length ≤ maxElems) :
    ∃ content, encodeBucket encCfg true none m = some (encBstr content) ∧
      (m = [] → content = []) ∧ (m ≠ [] → content = (mapWireN m).bytes) ∧
      decProtectedContent content = .ok (canonP m) ∧
      encodeBucket encCfg true none (canonP m) = some (encBstr content) := by
  have hd0 : 0 + 1 ≤ maxNested := by unfold maxNested; omega
  by_cases hne : m = []
  · subst hne
    refine ⟨[], ?_, fun _ => rfl, fun h => absurd rfl h, ?_, ?_⟩
    · simp [encodeBucket, encBstr_nil]
    · simp [decProtectedContent, canonP, sortEntries_nil]
    · simp [encodeBucket, encBstr_nil, canonP, sortEntries_nil]
  · have hok := C13.validate_labels m true hv
    have hp := sortEntries_perm m
    have hvs : validateHeaderParameters (sortEntries m) true = true := by
      rw [C13.validate_perm_invariant _ _ hp]; exact hv
    have hvn := validate_normEntryN true (NestedMapAt.sorted (d := 1) hf)
      (fun e he => hu e (hp.mem_iff.mp he)) hvs
    have hdec : decProtectedContent (mapWireN m).bytes = .ok (canonP m) := by
      rw [decProtectedContent_mapWireN hf hok hlen, if_pos hvn]; rfl
    refine ⟨(mapWireN m).bytes, ?_, fun h => absurd h hne, fun _ => rfl, hdec, ?_⟩
    · rw [encodeBucket_N (d := 0) hf true hv hlen hd0 hne]; rfl
    · have hf1 : NestedMap (canonP m) := nestedMapAt_decEntryN (NestedMapAt.sorted (d := 1) hf)
      have hv1 := C13.decoded_reencodable _ _ hdec
      have hl1 : (canonP m).length ≤ maxElems := by
        simpa [canonP, sortEntries_length] using hlen
      rw [encodeBucket_N (d := 0) hf1 true hv1 hl1 hd0 (canonP_ne_nil hne)]
      simp only [canonP, mapWireN_canonP, if_true]

/-- what the encoder emits for a validated unprotected bucket met at depth `d` -/
theorem encodeBucket_unprotN {d : Nat} {g : GoMap} (hf : NestedMapAt (d + 1) g)
    (hv : validateHeaderParameters g false = true) (hlen : g.length ≤ maxElems)
    (hd : d + 1 ≤ maxNested) : encodeBucket encCfg false none g = some (mapWireN g).bytes := by
  by_cases hne : g = []
  · subst hne
    rw [mapWireN_nil_bytes]
    simp [encodeBucket]
  · rw [encodeBucket_N (d := d) hf false hv hlen hd hne]; rfl

/-- the same for the unprotected bucket whose map item is met at depth `d` (nested form of
    `ClearRaw.unprotected_canon`) -/
theorem unprotected_canonN {d : Nat} {um : GoMap} (hf : NestedMapAt (d + 1) um)
    (hu : ∀ e ∈ um, UintOK e.2) (hv : validateHeaderParameters um false = true)
    (hlen : um.length ≤ maxElems) (hd : d + 1 ≤ maxNested) :
    encodeBucket encCfg false none um = some (mapWireN um).bytes ∧ (mapWireN um).wf = true ∧
      (∀ t d', d' ≤ d → (mapWireN um).inLimits t d' = true) ∧
      decUnprot (mapWireN um) = .ok (canonU um) ∧
      encodeBucket encCfg false none (canonU um) = some (mapWireN um).bytes := by
  have he := encodeBucket_unprotN hf hv hlen hd
  obtain ⟨-, hwf, hlim, hdec⟩ := unprot_itemAt hf hu hlen hd he
  refine ⟨he, hwf, hlim, hdec, ?_⟩
  have hf1 : NestedMapAt (d + 1) (canonU um) := nestedMapAt_normEntryN hf.sorted
  have hv1 := C13.decoded_unprot_reencodable _ _ hdec
  have hl1 : (canonU um).length ≤ maxElems := by
    simpa [canonU, sortEntries_length] using hlen
  rw [encodeBucket_unprotN hf1 hv1 hl1 hd]
  simp only [canonU, mapWireN_canonU]

/-! ### what the decoder accepted needs no further hypothesis -/

theorem protected_decoded_uintOK {enc : Bytes} {m : GoMap} (h : decProtectedContent enc = .ok m) :
    ∀ e ∈ m, UintOK e.2 :=
  fun e he => uintOK_of_decEntry_fixed (protected_decoded_fixed h e he)

theorem unprotected_decoded_uintOK {u : Wire} {um : GoMap} (h : decUnprot u = .ok um) :
    ∀ e ∈ um, UintOK e.2 :=
  fun e he => uintOK_of_normEntry_fixed (unprotected_decoded_fixed h e he)

/-- `Algorithm()` is not changed by a clear-raw cycle.  No validation argument is needed: an
    entry the protected-header decoder produced under label 1 is an `Algorithm`, a text, or a
    value `Algorithm()` refuses both before and after. -/
theorem algorithmOf_canonP {enc : Bytes} {m : GoMap} (hd : decProtectedContent enc = .ok m)
    (hf : NestedMap m) : algorithmOf (canonP m) = algorithmOf m := by
  have hok := C13.validate_labels m true (C13.decoded_reencodable enc m hd)
  have hoks := labelsOK_sorted hok
  have hfs : NestedMapAt 1 (sortEntries m) := NestedMapAt.sorted (d := 1) hf
  have hokd := labelsOK_decEntryN hfs hoks
  by_cases hex : ∃ e0 ∈ m, normalizeLabel e0.1 = some (lbl 1)
  · obtain ⟨e0, he0, hn0⟩ := hex
    have hl0 := (hf e0 he0).1
    have hk0 : normVal e0.1 = lbl 1 := by
      rw [normalizeLabel_flat hl0] at hn0; exact Option.some.inj hn0
    have h1 : lookupLabel m (lbl 1) = some e0.2 :=
      lookupLabel_of_mem hok he0 normalizeLabel_lbl1 hn0
    have hde : decEntryN e0 = (lbl 1, algCast (normValN e0.2)) := by
      simp only [decEntryN, castEntry, normEntryN, hk0]
      rw [if_pos (by simp [lbl, GoVal.keyEq])]
    have hes : e0 ∈ sortEntries m := (sortEntries_perm m).mem_iff.mpr he0
    have h2 : lookupLabel (canonP m) (lbl 1) = some (algCast (normValN e0.2)) := by
      have := lookupLabel_of_mem hokd (List.mem_map_of_mem (f := decEntryN) hes)
        normalizeLabel_lbl1 (by rw [hde]; exact normalizeLabel_lbl1)
      rw [canonP, this, hde]
    have hfix := protected_decoded_fixed hd e0 he0
    have hv : e0.2 = algCast (normVal e0.2) := by
      have h3 := congrArg Prod.snd hfix
      simp only [decEntry, castEntry, normEntry, hk0] at h3
      rw [if_pos (by simp [lbl, GoVal.keyEq])] at h3
      exact h3.symm
    unfold algorithmOf
    rw [h1, h2]
    cases hv0 : e0.2 <;> rw [hv0] at hv <;>
      simp [normVal, algCast, IntKind.signed] at hv <;>
      simp [normValN, normVal, algCast, IntKind.signed]
  · have hno : ∀ e ∈ m, normalizeLabel e.1 ≠ some (lbl 1) := fun e he hc => hex ⟨e, he, hc⟩
    have h1 : lookupLabel m (lbl 1) = none := lookupLabel_none normalizeLabel_lbl1 hno
    have h2 : lookupLabel (canonP m) (lbl 1) = none := by
      apply lookupLabel_none normalizeLabel_lbl1
      intro e' he'
      obtain ⟨e, he, rfl⟩ := List.mem_map.mp he'
      have hem : e ∈ m := (sortEntries_perm m).mem_iff.mp he
      rw [decEntryN_fst, normalizeLabel_normVal (hf e hem).1]
      exact hno e hem
    unfold algorithmOf
    rw [h1, h2]

end NestedClosures


/-! ## clear-raw with nested header values: COSE_Sign1 -/

namespace NestedClosures
open WireClosure NestedBuckets ClearRaw

/-- the canonical form of a decoded message with nested header values: both header maps after one
    clear-raw cycle, no retained raw bytes -/
def canonMsgN (m : Sign1Msg) : Sign1Msg :=
  { h := { p := canonP m.h.p, u := canonU m.h.u }, payload := m.payload, sig := m.sig }

/-- CORE (nested form of `ClearRaw.clear_raw_core`): a decoded COSE_Sign1 whose header values are
    in the nested data model, raw bytes discarded, is emitted as bytes `b'` that decode to the
    canonical message, and that canonical message, raw bytes discarded, is emitted as `b'` again -/
theorem clear_raw_core_nested (tagged : Bool) (b : Bytes) (m : Sign1Msg)
    (hd : Sign1.unmarshal tagged b = .ok m) (hfp : NestedMap m.h.p) (hfu : NestedMapAt 2 m.h.u) :
    ∃ (b' P U : Bytes), Sign1.marshal tagged (clearRaw m) = .ok b' ∧
      Sign1.unmarshal tagged b' =
        .ok { h := { rawP := some P, p := canonP m.h.p, rawU := some U, u := canonU m.h.u },
              payload := m.payload, sig := m.sig } ∧
      Sign1.marshal tagged (canonMsgN m) = .ok b' := by
  obtain ⟨p, u, pl, sg, -, -, hwf, hlim, hpl, hsg, hz, hh⟩ := C09.sign1_envelope_full hd
  obtain ⟨hp, hu, hiv, -, -⟩ := C09.decHeaders_ok hh
  obtain ⟨hw, c, rfl, hc, hs⟩ := Accept.wfsig_of_dec hsg hz
  obtain ⟨hwp, enc, rfl, -⟩ := C05.protected_is_bstr_of_map p _ hp
  have hpc : decProtectedContent enc = .ok m.h.p := hp
  simp only [Wire.wf, Wire.wfList, Bool.and_eq_true] at hwf
  obtain ⟨-, hpwf, huwf, hplwf, hsgwf, -⟩ := hwf
  simp only [Wire.inLimits, Wire.inLimitsList, Bool.and_eq_true] at hlim
  obtain ⟨-, -, hulim, -⟩ := hlim
  -- the two buckets
  have hvp := C13.decoded_reencodable enc _ hpc
  have hvu := C13.decoded_unprot_reencodable u _ hu
  obtain ⟨content, hE1, hc0, hc1, hD, hE2⟩ :=
    protected_canonN hfp (protected_decoded_uintOK hpc) hvp (protected_decoded_length hpc)
  have hle : content.length ≤ enc.length := by
    by_cases hne : m.h.p = []
    · rw [hc0 hne]; simp
    · rw [hc1 hne]; exact protected_decoded_bytes_leN hpc hfp hne
  obtain ⟨hU1, hUwf, hUlim, hDu, hU2⟩ :=
    unprotected_canonN (d := 1) hfu (unprotected_decoded_uintOK hu) hvu
      (unprotected_decoded_length hu hulim) (by unfold maxNested; omega)
  have hiv' : ensureIV (canonP m.h.p) (canonU m.h.u) = true :=
    ensureIV_decodedN (dp := 1) hfp hfu hiv
  -- the emitted tree
  have hclen : content.length < 18446744073709551616 := by
    have := Reencode.fits_lt hpwf
    omega
  have hPfit : (HW.shortest content.length).fits content.length = true :=
    Reencode.shortest_fits hclen
  have hsgfit : (HW.shortest c.length).fits c.length = true :=
    Reencode.shortest_fits (Reencode.fits_lt hsgwf)
  have hplwf' := C09.shortItem_wf hplwf hpl
  have hwfT : (Wire.arr .imm [.bstr (HW.shortest content.length) content, mapWireN m.h.u,
      C09.shortItem m.payload, .bstr (HW.shortest c.length) c]).wf = true := by
    have h4 : HW.fits .imm 4 = true := by decide
    simp [Wire.wf, Wire.wfList, h4, hPfit, hUwf, hplwf', hsgfit]
  have hlimT : (Wire.arr .imm [.bstr (HW.shortest content.length) content, mapWireN m.h.u,
      C09.shortItem m.payload, .bstr (HW.shortest c.length) c]).inLimits false 0 = true := by
    have := hUlim false 1 (Nat.le_refl _)
    simp [Wire.inLimits, Wire.inLimitsList, maxNested, maxElems, this, C09.shortItem_inLimits]
  have hplW : WFPayload (C09.shortItem m.payload) := by
    cases m.payload with
    | none => exact .inl rfl
    | some x => exact .inr ⟨_, _, rfl⟩
  have hacc := C07.wf_sign1_accepted_full tagged hwfT hlimT
    (p := .bstr (HW.shortest content.length) content) hD hDu hiv' hplW hc
  have hpay : Accept.payloadOf (C09.shortItem m.payload) = m.payload := by
    cases m.payload <;> rfl
  rw [hpay, ← hs] at hacc
  -- the emitted bytes
  have hbytes : ∀ (P U : Bytes), P = encBstr content → U = (mapWireN m.h.u).bytes →
      C09.pre tagged ++ 0x84 :: (P ++ (U ++ (optBytesEnc m.payload ++ encBstr (m.sig.getD []))))
      = (if tagged then [0xd2] else []) ++ (Wire.arr .imm [.bstr (HW.shortest content.length)
          content, mapWireN m.h.u, C09.shortItem m.payload,
          .bstr (HW.shortest c.length) c]).bytes := by
    intro P U hP hU
    subst hP hU
    have := C09.marshal_tree_bytes (.bstr (HW.shortest content.length) content) (mapWireN m.h.u)
      m.payload m.sig hz
    have hsi : C09.shortItem m.sig = .bstr (HW.shortest c.length) c := by rw [hs]; rfl
    rw [hsi] at this
    rw [← this]
    rfl
  have hfp1 : NestedMap (canonP m.h.p) := nestedMapAt_decEntryN (NestedMapAt.sorted (d := 1) hfp)
  have hfu1 : NestedMapAt 2 (canonU m.h.u) := nestedMapAt_normEntryN hfu.sorted
  have hm1 : Sign1.marshal tagged (clearRaw m) = .ok (C09.pre tagged ++ 0x84 ::
      (encBstr content ++ ((mapWireN m.h.u).bytes ++
        (optBytesEnc m.payload ++ encBstr (m.sig.getD []))))) :=
    marshal_of_buckets (m := clearRaw m) hz hiv
      (marshalProtected_of_bucket rfl (nested_modelled hfp) hE1)
      (marshalUnprotected_of_bucket rfl (nested_modelled hfu) hU1)
  have hm2 : Sign1.marshal tagged (canonMsgN m) = .ok (C09.pre tagged ++ 0x84 ::
      (encBstr content ++ ((mapWireN m.h.u).bytes ++
        (optBytesEnc m.payload ++ encBstr (m.sig.getD []))))) :=
    marshal_of_buckets (m := canonMsgN m) hz hiv'
      (marshalProtected_of_bucket rfl (nested_modelled hfp1) hE2)
      (marshalUnprotected_of_bucket rfl (nested_modelled hfu1) hU2)
  rw [hbytes _ _ rfl rfl] at hm1 hm2
  exact ⟨_, _, _, hm1, hacc, hm2⟩

end NestedClosures


/-! ## clear-raw with nested header values: one cycle reaches the fixpoint; decoded maps -/

namespace NestedClosures
open WireClosure NestedBuckets ClearRaw

/-- `canonP` is idempotent on validated buckets of the nested data model: a second clear-raw
    cycle changes nothing -/
theorem canonP_idem {m : GoMap} (hf : NestedMap m) (hu : ∀ e ∈ m, UintOK e.2)
    (hv : validateHeaderParameters m true = true) (hlen : m.length ≤ maxElems) :
    canonP (canonP m) = canonP m := by
  obtain ⟨content, -, hc0, hc1, hD, -⟩ := protected_canonN hf hu hv hlen
  have hf1 : NestedMap (canonP m) := nestedMapAt_decEntryN (NestedMapAt.sorted (d := 1) hf)
  have hl1 : (canonP m).length ≤ maxElems := by simpa [canonP, sortEntries_length] using hlen
  obtain ⟨content2, -, hc0', hc1', hD', -⟩ :=
    protected_canonN hf1 (protected_decoded_uintOK hD) (C13.decoded_reencodable _ _ hD) hl1
  have hcc : content2 = content := by
    by_cases hne : m = []
    · subst hne
      rw [hc0 rfl, hc0' (by simp [canonP, sortEntries_nil])]
    · rw [hc1 hne, hc1' (canonP_ne_nil hne), canonP, mapWireN_canonP]
  rw [hcc, hD] at hD'
  exact (Out.ok.inj hD').symm

/-- the same for the unprotected bucket -/
theorem canonU_idem {d : Nat} {um : GoMap} (hf : NestedMapAt (d + 1) um)
    (hu : ∀ e ∈ um, UintOK e.2) (hv : validateHeaderParameters um false = true)
    (hlen : um.length ≤ maxElems) (hd : d + 1 ≤ maxNested) : canonU (canonU um) = canonU um := by
  obtain ⟨-, -, -, hD, -⟩ := unprotected_canonN hf hu hv hlen hd
  have hf1 : NestedMapAt (d + 1) (canonU um) := nestedMapAt_normEntryN hf.sorted
  have hl1 : (canonU um).length ≤ maxElems := by simpa [canonU, sortEntries_length] using hlen
  obtain ⟨-, -, -, hD', -⟩ := unprotected_canonN hf1 (unprotected_decoded_uintOK hD)
    (C13.decoded_unprot_reencodable _ _ hD) hl1 hd
  rw [canonU, mapWireN_canonU, hD] at hD'
  exact (Out.ok.inj hD').symm

theorem algCast_node {v : GoVal} (h : isNode (algCast v) = true) : algCast v = v := by
  cases v <;> try rfl
  case int k a => cases hs : k.signed <;> simp [algCast, hs, isNode] at h ⊢

theorem normVal_node {v : GoVal} (h : isNode v = true) : normVal v = v := by
  cases v <;> simp only [isNode, reduceCtorEq] at h <;> rfl

/-- a decoded protected entry whose value is an array or a map: the value is typed as the generic
    decoder types values, at every depth -/
theorem protected_decoded_typed {enc : Bytes} {m : GoMap} (hd : decProtectedContent enc = .ok m) :
    ∀ e ∈ m, isNode e.2 = true → TypedN e.2 := by
  rcases decProtectedContent_shape hd with ⟨-, rfl⟩ | ⟨hw, kvs, m0, -, -, -, hrel, rfl⟩
  · intro e he; cases he
  · intro e he hn
    obtain ⟨e0, he0, rfl⟩ := List.mem_map.mp he
    obtain ⟨kv, -, hr⟩ := hrel.mem_right e0 he0
    have ht := typedN_of_decoded kv.2 e0.2 hr.2
    rcases castEntry_snd e0.1 e0.2 with h3 | h3
    · rw [h3] at hn ⊢
      rw [algCast_node hn]
      exact ht
    · rw [h3]; exact ht

/-- a decoded protected entry whose nested maps the sender had sorted is not changed by a
    clear-raw cycle -/
theorem decEntryN_decoded_fixed {enc : Bytes} {m : GoMap} (hd : decProtectedContent enc = .ok m)
    (e : GoVal × GoVal) (he : e ∈ m) (hs : SortedN e.2) : decEntryN e = e := by
  have hfix := protected_decoded_fixed hd e he
  have hv : normValN e.2 = normVal e.2 := by
    cases hn : isNode e.2 with
    | false => exact normValN_leaf hn
    | true =>
      rw [normVal_node hn]
      exact normValN_fixed e.2 (protected_decoded_typed hd e he hn) hs
  have : decEntryN e = decEntry e := by
    simp only [decEntryN, decEntry, normEntryN, normEntry, hv]
  rw [this, hfix]

/-- the same for a decoded unprotected entry -/
theorem normEntryN_decoded_fixed {u : Wire} {um : GoMap} (hd : decUnprot u = .ok um)
    (e : GoVal × GoVal) (he : e ∈ um) (hs : SortedN e.2) : normEntryN e = e := by
  have hfix := unprotected_decoded_fixed hd e he
  have hv : normValN e.2 = normVal e.2 := by
    cases hn : isNode e.2 with
    | false => exact normValN_leaf hn
    | true =>
      rw [normVal_node hn]
      obtain ⟨hw, kvs, rfl, -, hdp, -⟩ := C05.decUnprot_ok hd
      obtain ⟨kv, -, -, h2⟩ := (decUnprotPairs_rel kvs um hdp).mem_right e he
      rcases h2 with ⟨-, h2⟩ | ⟨-, h2⟩
      · exact normValN_fixed e.2 (typedN_of_decoded kv.2 e.2 h2) hs
      · exfalso
        rcases C05.csig_value_accept _ _ h2 with ⟨xs, -, c, hc, hv⟩ | ⟨_, _, l, -, -, hv⟩ | ⟨-, hv⟩
        · obtain ⟨_, _, _, _, _, _, -, -, -, -, -, -, rfl⟩ := C05.decSigFields_ok hc
          rw [hv] at hn; cases hn
        · rw [hv] at hn; cases hn
        · rw [hv] at hn; cases hn
  have : normEntryN e = normEntry e := by
    simp only [normEntryN, normEntry, hv]
  rw [this, hfix]

/-! ### a wire-side condition that puts the decoded maps in the nested data model -/

/-- PROTECTED: if every value item of the map inside the protected byte string is plain (no
    float, no simple value other than false / true / null / undefined, at any depth), the decoded
    map is in the nested data model (nested form of `ClearRaw.protected_flat_of_scalar`) -/
theorem protected_nested_of_plain {enc : Bytes} {m : GoMap} (hd : decProtectedContent enc = .ok m)
    (hs : ∀ hw kvs, enc = (Wire.map hw kvs).bytes → (Wire.map hw kvs).wf = true →
      ∀ kv ∈ kvs, Plain kv.2 = true) : NestedMap m := by
  have hok := C13.validate_labels m true (C13.decoded_reencodable enc m hd)
  rcases decProtectedContent_shape hd with ⟨-, rfl⟩ | ⟨hw, kvs, m0, henc, hwf, hlim, hrel, rfl⟩
  · intro e he; cases he
  · have hsc := hs hw kvs henc hwf
    simp only [Wire.wf, Bool.and_eq_true, wfPairs_iff] at hwf
    simp only [Wire.inLimits, Bool.and_eq_true, inLimitsPairs_iff] at hlim
    intro e he
    have hne := hok.1 e he
    obtain ⟨e0, he0, rfl⟩ := List.mem_map.mp he
    obtain ⟨kv, hkv, h1, h2⟩ := hrel.mem_right e0 he0
    rw [castEntry_fst] at hne ⊢
    refine ⟨flatLabel_of_dec h1 (hwf.2 kv hkv).1 hne, ?_⟩
    have hv := rtVal_of_decoded kv.2 e0.2 true 1 h2 (hwf.2 kv hkv).2 (hlim.2 kv hkv).2
      (hsc kv hkv)
    rcases castEntry_snd e0.1 e0.2 with h3 | h3
    · rw [h3]; exact rtVal_algCast hv
    · rw [h3]; exact hv

/-- UNPROTECTED, map item met at depth `d`: plain value items and no countersignature label
    (7, 11 — their values are typed `*Countersignature`, outside the data model) -/
theorem unprotected_nested_of_plain {hw : HW} {kvs : List (Wire × Wire)} {um : GoMap}
    {t : Bool} {d : Nat}
    (hd : decUnprot (.map hw kvs) = .ok um) (hwf : (Wire.map hw kvs).wf = true)
    (hlim : (Wire.map hw kvs).inLimits t d = true)
    (hs : ∀ kv ∈ kvs, Plain kv.2 = true) (hnc : ∀ e ∈ um, isCsigLabel e.1 = false) :
    NestedMapAt (d + 1) um := by
  obtain ⟨hw', kvs', heq, -, hdp, hv⟩ := C05.decUnprot_ok hd
  cases heq
  have hok := C13.validate_labels um false hv
  simp only [Wire.wf, Bool.and_eq_true, wfPairs_iff] at hwf
  simp only [Wire.inLimits, Bool.and_eq_true, inLimitsPairs_iff] at hlim
  intro e he
  obtain ⟨kv, hkv, h1, h2⟩ := (decUnprotPairs_rel kvs um hdp).mem_right e he
  refine ⟨flatLabel_of_dec h1 (hwf.2 kv hkv).1 (hok.1 e he), ?_⟩
  rcases h2 with ⟨-, h2⟩ | ⟨hc, -⟩
  · exact rtVal_of_decoded kv.2 e.2 t (d + 1) h2 (hwf.2 kv hkv).2 (hlim.2 kv hkv).2 (hs kv hkv)
  · rw [hnc e he] at hc; cases hc

end NestedClosures


/-! ## hash envelope with nested header values: tools -/

namespace NestedClosures
open WireClosure NestedBuckets

/-- the protected map `SignHashEnvelope` builds from a map of the nested data model is in the
    nested data model (nested form of `WireClosure.flat_hashProt`) -/
theorem nested_hashProt {base : GoMap} {p : HashPayload} (hf : NestedMap base)
    (hu : ∀ e ∈ base, UintOK e.2) (hpa : int64Range p.alg)
    (hpct : ∀ x, p.pct = some x → FlatVal x ∧ UintOK x)
    (hloc : utf8Valid p.location = true ∧ p.location.length < 18446744073709551616) :
    NestedMap (setHashEnvelopeProtectedHeader base p) ∧
    (∀ e ∈ setHashEnvelopeProtectedHeader base p, UintOK e.2) ∧
    (setHashEnvelopeProtectedHeader base p).length ≤ base.length + 3 := by
  have fl : ∀ n : Int, int64Range n → FlatLabel (lbl n) := fun n hn => by
    simpa [lbl, FlatLabel] using hn
  have f1 : NestedMapAt 1 (base.set (lbl 258) (.alg p.alg)) :=
    nestedMapAt_set hf (fl 258 (by decide)) (RTVal.of_flat 1 (v := .alg p.alg) hpa)
  have u1 := uintOK_set (k := lbl 258) (v := .alg p.alg) hu (by simp [UintOK])
  have l1 := length_set_le base (lbl 258) (.alg p.alg)
  have hlocv : RTVal 1 (.str p.location) := RTVal.of_flat 1 (v := .str p.location) hloc
  unfold setHashEnvelopeProtectedHeader
  simp only []
  cases hp : p.pct with
  | none =>
    simp only []
    split
    · exact ⟨nestedMapAt_set f1 (fl 260 (by decide)) hlocv, uintOK_set u1 (by simp [UintOK]),
        by have := length_set_le (base.set (lbl 258) (.alg p.alg)) (lbl 260) (.str p.location); omega⟩
    · exact ⟨f1, u1, by omega⟩
  | some x =>
    obtain ⟨hx1, hx2⟩ := hpct x hp
    have f2 : NestedMapAt 1 ((base.set (lbl 258) (.alg p.alg)).set (lbl 259) x) :=
      nestedMapAt_set f1 (fl 259 (by decide)) (RTVal.of_flat 1 hx1)
    have u2 := uintOK_set (k := lbl 259) (v := x) u1 hx2
    have l2 := length_set_le (base.set (lbl 258) (.alg p.alg)) (lbl 259) x
    simp only []
    split
    · exact ⟨nestedMapAt_set f2 (fl 260 (by decide)) hlocv, uintOK_set u2 (by simp [UintOK]),
        by have := length_set_le ((base.set (lbl 258) (.alg p.alg)).set (lbl 259) x) (lbl 260)
             (.str p.location); omega⟩
    · exact ⟨f2, u2, by omega⟩

theorem kind_normValN {d : Nat} {v : GoVal} (hv : RTVal d v) (hu : UintOK v) :
    ((∃ a, v = .alg a) ∨ canInt v = true → canInt (normValN v) = true) ∧
    (canUint v = true → canUint (normValN v) = true) ∧
    (canText v = true → canText (normValN v) = true) := by
  cases hn : isNode v with
  | false =>
    rw [normValN_leaf hn]
    exact kind_normVal ((rtVal_leaf d hn).mp hv) hu
  | true =>
    cases v <;> simp only [isNode, reduceCtorEq] at hn <;> simp [canInt, canUint, canText]

/-- what the protected-header decoder makes of an entry of the nested data model passes the
    per-entry hash-envelope rule whenever the entry that was encoded did -/
theorem protEntry_decEntryN {d : Nat} {e : GoVal × GoVal} (hl : FlatLabel e.1) (hv : RTVal d e.2)
    (hu : UintOK e.2) {b : Bool} (h : protEntry e = some b) : protEntry (decEntryN e) = some b := by
  obtain ⟨k1, k2, k3⟩ := kind_normValN hv hu
  have hn : protEntry (normEntryN e) = some b :=
    protEntry_congr (e := e) (e' := normEntryN e) (normalizeLabel_normVal hl)
      (fun hc => .inr (k1 hc)) k2 k3 h
  unfold decEntryN castEntry
  split
  · rename_i hk
    have hk1 : (normEntryN e).1 = lbl 1 :=
      eq_of_keyEq_of_normalizes' (by rw [normalizeLabel_lbl1]; simp) hk
    have h0 : protEntry (normEntryN e) = some false := by
      have : normEntryN e = (lbl 1, (normEntryN e).2) := by rw [← hk1]
      rw [this]; exact protEntry_lbl1 _
    rw [h0] at hn
    rw [hk1, protEntry_lbl1]
    exact hn
  · exact hn

/-- the decoded buckets of an envelope with nested header values pass
    `validateHashEnvelopeHeaders` (nested form of `WireClosure.hashRules_decoded`) -/
theorem hashRules_decodedN {dp du : Nat} {p u : GoMap} (hfp : NestedMapAt dp p)
    (hup : ∀ e ∈ p, UintOK e.2) (hfu : NestedMapAt du u)
    (hr : validateHashEnvelopeHeaders p u = true) :
    validateHashEnvelopeHeaders ((sortEntries p).map decEntryN) ((sortEntries u).map normEntryN)
      = true := by
  obtain ⟨hp, hu⟩ := C12.headers_rule _ _ hr
  rw [hashProtLoop_iff] at hp
  obtain ⟨hp1, hp2⟩ := hp
  have hP : hashProtLoop ((sortEntries p).map decEntryN) false = some true := by
    rw [hashProtLoop_iff]
    refine ⟨?_, ?_⟩
    · intro e' he'
      obtain ⟨e, he, rfl⟩ := List.mem_map.mp he'
      have heg : e ∈ p := (sortEntries_perm p).mem_iff.mp he
      cases hb : protEntry e with
      | none => exact absurd hb (hp1 e heg)
      | some b => rw [protEntry_decEntryN (hfp e heg).1 (hfp e heg).2 (hup e heg) hb]; simp
    · rcases hp2 with h0 | ⟨e, he, h1⟩
      · cases h0
      · exact .inr ⟨decEntryN e,
          List.mem_map_of_mem ((sortEntries_perm p).mem_iff.mpr he),
          protEntry_decEntryN (hfp e he).1 (hfp e he).2 (hup e he) h1⟩
  have hU : hashUnprotOK ((sortEntries u).map normEntryN) = true := by
    rw [hashUnprotOK_iff] at hu ⊢
    intro e' he'
    obtain ⟨e, he, rfl⟩ := List.mem_map.mp he'
    have heg : e ∈ u := (sortEntries_perm u).mem_iff.mp he
    rw [unprotEntry_congr (e := e)
      (by simp only [normEntryN]; exact normalizeLabel_normVal (hfu e heg).1)]
    exact hu e heg
  simp only [validateHashEnvelopeHeaders, hP, hU]

/-- `PayloadHashAlgorithm()` on the decoded protected bucket (nested form of
    `WireClosure.payloadHashAlgorithm_decoded`) -/
theorem payloadHashAlgorithm_decodedN {p : GoMap} {a : Int} (hf : NestedMap p)
    (hv : validateHeaderParameters p true = true)
    (hl : lookupLabel p (lbl 258) = some (.alg a)) :
    payloadHashAlgorithm ((sortEntries p).map decEntryN) = .found a := by
  have hn : normalizeLabel (lbl 258) = some (lbl 258) :=
    normalizeLabel_flat (l := lbl 258) (by simp [lbl, FlatLabel, int64Range])
  have hhas : hasLabel p (lbl 258) = true := by unfold hasLabel; rw [hl]; rfl
  obtain ⟨e, he, hne⟩ := (C13.hasLabel_norm' p (lbl 258) (lbl 258) hn).mp hhas
  obtain ⟨h1, h2⟩ :=
    C08.protected_lookup_roundtrip_nested p hf hv e he (lbl 258) (by rw [hn, hne])
  rw [hl] at h1
  have hv2 : e.2 = .alg a := (Option.some.inj h1).symm
  have hk : normVal e.1 = lbl 258 := by
    rw [normalizeLabel_flat (hf e he).1] at hne; exact Option.some.inj hne
  have hde : decEntryN e = (lbl 258, .int .i64 a) := by
    simp only [decEntryN, castEntry, normEntryN, hk, hv2]
    rw [if_neg (by simp [lbl, GoVal.keyEq])]
    rfl
  unfold payloadHashAlgorithm
  rw [h2, hde]
  rfl

end NestedClosures

/-! ## headline theorems: COSE_Sign and countersignatures, nested header values -/

namespace C01
open WireClosure SignWireClosure NestedBuckets NestedClosures

/-- B-N. countersignature, END TO END, every parent kind, NESTED HEADER VALUES (the nested form
    of `countersignature_wire_flat`): a stand-alone COSE_Countersignature is a top-level 3-array,
    so — exactly as for COSE_Sign1 — the protected values are met at depth 1 (`NestedMap`) and
    the unprotected values at depth 2 (`NestedMapAt 2`).  Additionally names the decoded header
    maps. -/
theorem countersignature_wire_nested (cs : SigV) (s : Signer) (v : Verifier) (parent : Parent)
    (ext : Option Bytes) (b : Bytes) (hm : Matches s v)
    (hrp : cs.h.rawP = none) (hru : cs.h.rawU = none)
    (hfp : NestedMap cs.h.p) (hfu : NestedMapAt 2 cs.h.u)
    (hup : ∀ e ∈ cs.h.p, UintOK e.2) (huu : ∀ e ∈ cs.h.u, UintOK e.2)
    (hlp : cs.h.p.length < maxElems) (hlu : cs.h.u.length ≤ maxElems)
    (halg : int64Range s.alg)
    (hsl : ∀ t sg, s.sign t = .ok sg → sg.length < 18446744073709551616)
    (hok : (Countersignature.sign cs s parent ext).out = .ok ())
    (henc : Signature.marshal (Countersignature.sign cs s parent ext).state = .ok b) :
    ∃ c2, Signature.unmarshal b = .ok c2 ∧ (Countersignature.verify c2 v parent ext).1 = .ok () ∧
      c2.sig = (Countersignature.sign cs s parent ext).state.sig ∧
      c2.h.p = (sortEntries (Countersignature.sign cs s parent ext).state.h.p).map decEntryN ∧
      c2.h.u = (sortEntries cs.h.u).map normEntryN := by
  obtain ⟨p', tbs, sig, hgate, ht, hsg, hst⟩ := countersignature_sign_ok_inv cs s parent ext hok
  obtain ⟨⟨rp, p, ru, u⟩, sg0⟩ := cs
  simp only at hrp hru hfp hfu hup huu hlp hlu hgate ht hst
  subst hrp hru
  rw [hst] at henc ⊢
  obtain ⟨P, P', hP, hd⟩ := csTbs_ok_inv ht
  obtain ⟨hfp', hup', hlp', -⟩ := sign_gate_nested (d := 1) hgate hfp hup halg
  obtain ⟨x, c2, -, -, -, -, hdec, ⟨hs2, hP2, ha2⟩, hp2, hu2⟩ :=
    sigv_decodes_nested 0 p' u sig b P P' hfp' hfu (by unfold maxNested; omega) hup' huu
      (by omega) hlu (hsl _ _ hsg) (hm.nonempty _ _ hsg) hP hd henc
  refine ⟨c2, hdec, ?_, hs2, hp2, hu2⟩
  rw [C03.verifyCsig_iff]
  simp only at hs2 hP2 ha2
  refine ⟨by rw [hs2]; exact blen_some_ne (hm.nonempty _ _ hsg),
    gate_decoded hgate ha2 hm.alg, tbs, ?_, ?_⟩
  · rw [csTbs_congr (c := { h := { p := p', u := u }, sig := sg0 }) hP2]
    exact ht
  · rw [hs2]
    exact hm.correct _ _ hsg

/-- common part of the attached and the detached flow of COSE_Sign, nested header values: `o` is
    the payload field that is emitted -/
theorem signmsg_wire_nested_core (m : SignMsg) (ext : Option Bytes) (ss : List Signer)
    (vs : List Verifier) (o : Option Bytes) (b : Bytes) (hlen : ss.length = vs.length)
    (hm : ∀ i (h1 : i < ss.length) (h2 : i < vs.length), Matches ss[i] vs[i])
    (hrp : m.h.rawP = none) (hru : m.h.rawU = none)
    (hfp : NestedMap m.h.p) (hfu : NestedMapAt 2 m.h.u)
    (hup : ∀ e ∈ m.h.p, UintOK e.2) (huu : ∀ e ∈ m.h.u, UintOK e.2)
    (hlp : m.h.p.length ≤ maxElems) (hlu : m.h.u.length ≤ maxElems)
    (hslots : ∀ sg ∈ m.sigs, NestedSlot sg) (hn : m.sigs.length ≤ maxElems)
    (ho : blen o < 18446744073709551616) (hgs : ∀ s ∈ ss, GoSigner s)
    (hok : (Sign.sign m ext ss).out = .ok ())
    (henc : Sign.marshal { (Sign.sign m ext ss).state with payload := o } = .ok b) :
    ∃ m2, Sign.unmarshal b = .ok m2 ∧ m2.payload = o ∧
      (Sign.verify { m2 with payload := m.payload } ext vs).1 = .ok () ∧
      m2.sigs.length = m.sigs.length ∧
      (∀ i (h1 : i < m2.sigs.length) (h2 : i < (Sign.sign m ext ss).state.sigs.length),
        m2.sigs[i].sig = (Sign.sign m ext ss).state.sigs[i].sig) ∧
      m2.h.p = (sortEntries m.h.p).map decEntryN ∧ m2.h.u = (sortEntries m.h.u).map normEntryN := by
  obtain ⟨bprot, hpn, hemp, hl, hb, hloop, hst⟩ := signmsg_sign_ok_inv m ext ss hok
  obtain ⟨hll, hidx⟩ := signLoop_ok_inv bprot m.payload ext m.sigs ss hl hloop
  have hmem := signLoop_ok_mem bprot m.payload ext m.sigs ss hl hloop
  obtain ⟨⟨rp, p, ru, u⟩, pay, sgs⟩ := m
  simp only at hrp hru hfp hfu hup huu hlp hlu hslots hn hpn hemp hl hb hloop hll hidx hmem
  subst hrp hru
  have hsne : sgs ≠ [] := by
    intro hc
    rw [hc] at hemp
    exact absurd hemp (by simp)
  obtain ⟨bp', hd, hbok⟩ := body_det_of_loop bprot pay ext sgs ss hl hsne hloop
  rw [hst] at henc ⊢
  simp only at henc ⊢
  have hall : ∀ st ∈ (signLoop bprot pay ext sgs ss).1, ∀ b, Signature.marshal st = .ok b →
      ∃ (x : Wire) (s2 : SigV), b = x.bytes ∧ x.wf = true ∧ x.inLimits false 2 = true ∧
        C05.SigElem x s2 ∧ Same st s2 := by
    intro st hstm bb hbb
    obtain ⟨i, h1, h2, rfl, hout⟩ := hmem st hstm
    exact slot_wireN sgs[i] ss[i] bprot pay ext bb (hm i h2 (hlen ▸ h2)).nonempty
      (hslots _ (List.getElem_mem h1)) (hgs _ (List.getElem_mem h2)) hout hbb
  obtain ⟨m2, hdec, hpay, hP2, hp2, hu2, hl2, hsame⟩ :=
    signmsg_decodes_nested p u o (signLoop bprot pay ext sgs ss).1 b bprot bp' hfp hfu hup huu
      hlp hlu ho (by omega) hall hb hd henc
  refine ⟨m2, hdec, hpay, ?_, by omega, ?_, hp2, hu2⟩
  · rw [C11.signmsg_verify_iff]
    refine ⟨by cases pay <;> simp_all, ?_, by simp only; omega, bprot, hP2, ?_⟩
    · intro hc
      simp only at hc
      rw [hc] at hl2
      simp only [List.length_nil] at hl2
      exact hsne (List.eq_nil_of_length_eq_zero (by omega))
    · intro i h1 h2
      simp only at h1 ⊢
      have hi : i < sgs.length := by omega
      have hi' : i < ss.length := by omega
      obtain ⟨hsti, hout⟩ := hidx i hi hi'
      obtain ⟨p', tbs, sig, -, -, hgate, ht, hsg, hstate⟩ :=
        signature_sign_ok_inv sgs[i] ss[i] bprot pay ext hout
      obtain ⟨hs2, hmp2, ha2⟩ := hsame i (by omega) h1
      rw [hsti, hstate] at hs2 hmp2 ha2
      simp only at hs2 hmp2 ha2
      have hmi := hm i hi' h2
      have hrpi : sgs[i].h.rawP = none := (hslots _ (List.getElem_mem hi)).1
      rw [hrpi] at hgate
      rw [C03.verifySig_iff]
      refine ⟨by cases pay <;> simp_all, by rw [hs2]; exact blen_some_ne (hmi.nonempty _ _ hsg),
        hbok, gate_decoded hgate ha2 hmi.alg, tbs, ?_, ?_⟩
      · rw [sigTbs_congr (c := { sgs[i] with h := { sgs[i].h with p := p' } }) hmp2]
        exact ht
      · rw [hs2]
        exact hmi.correct _ _ hsg
  · intro i h1 h2
    exact (hsame i h2 h1).1

/-- A-N. COSE_Sign (any number n ≥ 1 of signers), END TO END, NESTED HEADER VALUES (the nested
    form of `signmsg_wire_flat`): a message whose body and signer slots have header maps with flat
    labels and values in the nested data model that the library signed and encoded is decoded by
    the library, the decoded message verifies under the positionally matching verifiers with the
    same external data, and carries the signed payload, as many signer entries, and the signers'
    signatures.  Depths: body protected / slot protected values at depth 1 (`NestedMap`: a
    protected bucket is a byte string parsed on its own), body unprotected values at depth 2
    (`NestedMapAt 2`), slot unprotected values at depth 4 (`NestedSlot`).  Additionally names the
    decoded body header maps. -/
theorem signmsg_wire_nested (m : SignMsg) (ext : Option Bytes) (ss : List Signer)
    (vs : List Verifier) (b : Bytes) (hlen : ss.length = vs.length)
    (hm : ∀ i (h1 : i < ss.length) (h2 : i < vs.length), Matches ss[i] vs[i])
    (hrp : m.h.rawP = none) (hru : m.h.rawU = none)
    (hfp : NestedMap m.h.p) (hfu : NestedMapAt 2 m.h.u)
    (hup : ∀ e ∈ m.h.p, UintOK e.2) (huu : ∀ e ∈ m.h.u, UintOK e.2)
    (hlp : m.h.p.length ≤ maxElems) (hlu : m.h.u.length ≤ maxElems)
    (hslots : ∀ sg ∈ m.sigs, NestedSlot sg) (hn : m.sigs.length ≤ maxElems)
    (hpl : blen m.payload < 18446744073709551616) (hgs : ∀ s ∈ ss, GoSigner s)
    (hok : (Sign.sign m ext ss).out = .ok ())
    (henc : Sign.marshal (Sign.sign m ext ss).state = .ok b) :
    ∃ m2, Sign.unmarshal b = .ok m2 ∧ (Sign.verify m2 ext vs).1 = .ok () ∧
      m2.payload = m.payload ∧ m2.sigs.length = m.sigs.length ∧
      (∀ i (h1 : i < m2.sigs.length) (h2 : i < (Sign.sign m ext ss).state.sigs.length),
        m2.sigs[i].sig = (Sign.sign m ext ss).state.sigs[i].sig) ∧
      m2.h.p = (sortEntries m.h.p).map decEntryN ∧ m2.h.u = (sortEntries m.h.u).map normEntryN := by
  obtain ⟨_, -, -, -, -, -, hst⟩ := signmsg_sign_ok_inv m ext ss hok
  have hpayst : (Sign.sign m ext ss).state.payload = m.payload := by rw [hst]
  have henc' : Sign.marshal { (Sign.sign m ext ss).state with payload := m.payload } = .ok b := by
    rw [← hpayst]; exact henc
  obtain ⟨m2, hdec, hpay, hver, hl2, hsigs, hp2, hu2⟩ :=
    signmsg_wire_nested_core m ext ss vs m.payload b hlen hm hrp hru hfp hfu hup huu hlp hlu hslots
      hn hpl hgs hok henc'
  refine ⟨m2, hdec, ?_, hpay, hl2, hsigs, hp2, hu2⟩
  obtain ⟨h2, pay2, sg2⟩ := m2
  simp only at hpay
  subst hpay
  exact hver

/-- A'-N. COSE_Sign with DETACHED payload, END TO END, nested header values -/
theorem signmsg_wire_detached_nested (m : SignMsg) (ext : Option Bytes) (ss : List Signer)
    (vs : List Verifier) (b : Bytes) (hlen : ss.length = vs.length)
    (hm : ∀ i (h1 : i < ss.length) (h2 : i < vs.length), Matches ss[i] vs[i])
    (hrp : m.h.rawP = none) (hru : m.h.rawU = none)
    (hfp : NestedMap m.h.p) (hfu : NestedMapAt 2 m.h.u)
    (hup : ∀ e ∈ m.h.p, UintOK e.2) (huu : ∀ e ∈ m.h.u, UintOK e.2)
    (hlp : m.h.p.length ≤ maxElems) (hlu : m.h.u.length ≤ maxElems)
    (hslots : ∀ sg ∈ m.sigs, NestedSlot sg) (hn : m.sigs.length ≤ maxElems)
    (hgs : ∀ s ∈ ss, GoSigner s)
    (hok : (Sign.sign m ext ss).out = .ok ())
    (henc : Sign.marshal { (Sign.sign m ext ss).state with payload := none } = .ok b) :
    ∃ m2, Sign.unmarshal b = .ok m2 ∧
      (Sign.verify { m2 with payload := m.payload } ext vs).1 = .ok () ∧ m2.payload = none ∧
      m2.sigs.length = m.sigs.length := by
  obtain ⟨m2, hdec, hpay, hver, hl2, -⟩ :=
    signmsg_wire_nested_core m ext ss vs none b hlen hm hrp hru hfp hfu hup huu hlp hlu hslots
      hn (by simp [blen]) hgs hok henc
  exact ⟨m2, hdec, hver, hpay, hl2⟩

end C01

/-! ## headline theorems: clear-raw fixpoint, nested header values -/

namespace C09
open WireClosure NestedBuckets NestedClosures ClearRaw

/-- 3a-N. PROTECTED BUCKET, clear-raw fixpoint, NESTED VALUES (the nested form of
    `protected_clear_raw_fixpoint`).  Whatever content `ProtectedHeader.UnmarshalCBOR` accepted
    (any head widths, any key order at any depth), if the decoded parameters are in the nested
    data model then encoding the decoded MAP (no retained bytes) succeeds, gives a byte string
    whose content is not longer than the original, which decodes to `m' = (sortEntries m).map
    decEntryN` — the same labels, entries in the encoder's order, every map nested inside a value
    sorted; `m'` is again in the data model, `Algorithm()` and every lookup (up to `normValN` of
    the value) agree, and ONE cycle is enough: encoding `m'` gives the same bytes again and `m'`
    is its own canonical form. -/
theorem protected_clear_raw_fixpoint_nested (enc : Bytes) (m : GoMap)
    (hd : decProtectedContent enc = .ok m) (hf : NestedMap m) :
    ∃ (content : Bytes) (m' : GoMap),
      encodeBucket encCfg true none m = some (encBstr content) ∧
      content.length ≤ enc.length ∧
      decProtectedContent content = .ok m' ∧
      m' = (sortEntries m).map decEntryN ∧ m'.Perm (m.map decEntryN) ∧
      (∀ e ∈ m, ∀ l, normalizeLabel l = normalizeLabel e.1 →
        lookupLabel m l = some e.2 ∧ lookupLabel m' l = some (decEntryN e).2) ∧
      algorithmOf m' = algorithmOf m ∧ NestedMap m' ∧
      encodeBucket encCfg true none m' = some (encBstr content) ∧
      (sortEntries m').map decEntryN = m' := by
  have hv := C13.decoded_reencodable enc m hd
  have hu := protected_decoded_uintOK hd
  have hlen := protected_decoded_length hd
  obtain ⟨content, h1, h2, h3, h4, h5⟩ := protected_canonN hf hu hv hlen
  refine ⟨content, canonP m, h1, ?_, h4, rfl, (sortEntries_perm m).map decEntryN, ?_,
    algorithmOf_canonP hd hf, nestedMapAt_decEntryN (NestedMapAt.sorted (d := 1) hf), h5,
    canonP_idem hf hu hv hlen⟩
  · by_cases hne : m = []
    · rw [h2 hne]; simp
    · rw [h3 hne]; exact protected_decoded_bytes_leN hd hf hne
  · intro e he l hl
    exact C08.protected_lookup_roundtrip_nested m hf hv e he l hl

/-- 3b-N. UNPROTECTED BUCKET (stand-alone), clear-raw fixpoint, nested values.  `hlim`: the item
    came out of the parser (at most 131072 pairs). -/
theorem unprotected_clear_raw_fixpoint_nested (u : Wire) (um : GoMap) (hd : decUnprot u = .ok um)
    (hf : NestedMap um) {t : Bool} {d : Nat} (hlim : u.inLimits t d = true) :
    ∃ (u' : Wire) (um' : GoMap),
      encodeBucket encCfg false none um = some u'.bytes ∧
      u'.wf = true ∧ (∀ t, parseTop t u'.bytes = some u') ∧
      decUnprot u' = .ok um' ∧
      um' = (sortEntries um).map normEntryN ∧ um'.Perm (um.map normEntryN) ∧
      (∀ e ∈ um, ∀ l, normalizeLabel l = normalizeLabel e.1 →
        lookupLabel um l = some e.2 ∧ lookupLabel um' l = some (normValN e.2)) ∧
      NestedMap um' ∧
      encodeBucket encCfg false none um' = some u'.bytes ∧
      (sortEntries um').map normEntryN = um' := by
  have hd0 : 0 + 1 ≤ maxNested := by unfold maxNested; omega
  have hv := C13.decoded_unprot_reencodable u um hd
  have hu := unprotected_decoded_uintOK hd
  have hlen := unprotected_decoded_length hd hlim
  obtain ⟨h1, h2, h3, h4, h5⟩ := unprotected_canonN (d := 0) hf hu hv hlen hd0
  refine ⟨mapWireN um, canonU um, h1, h2, ?_, h4, rfl, (sortEntries_perm um).map normEntryN, ?_,
    nestedMapAt_normEntryN (NestedMapAt.sorted (d := 1) hf), h5,
    canonU_idem (d := 0) hf hu hv hlen hd0⟩
  · intro t
    exact parseTop_complete h2 (h3 t 0 (Nat.le_refl _))
  · intro e he l hl
    exact C08.unprotected_lookup_roundtrip_nested um hf hv e he l hl

/-- 1-N. CLEAR-RAW, DECODABLE, NESTED HEADER VALUES (the nested form of `clear_raw_decodable`).
    A COSE_Sign1 the library decoded, whose decoded header values are in the nested data model
    (protected at depth 1, unprotected at depth 2 — where the parser met them), is re-encodable
    after the application discards the retained raw header bytes, and what is emitted is
    decodable again: same payload, same signature, the same header parameters in both buckets —
    entries in the encoder's order, maps nested inside values sorted (`decEntryN` / `normEntryN`;
    a decoded map is its own normal form only if the sender sorted it:
    `NestedExamples.decoded_normal_needs_sorted`) — every lookup agrees up to that normalisation,
    `Algorithm()` agrees, and the new maps are again in the data model. -/
theorem clear_raw_decodable_nested (tagged : Bool) (b : Bytes) (m : Sign1Msg)
    (hd : Sign1.unmarshal tagged b = .ok m) (hfp : NestedMap m.h.p) (hfu : NestedMapAt 2 m.h.u) :
    ∃ b', Sign1.marshal tagged { m with h := { m.h with rawP := none, rawU := none } } = .ok b' ∧
      ∃ m', Sign1.unmarshal tagged b' = .ok m' ∧ m'.payload = m.payload ∧ m'.sig = m.sig ∧
        m'.h.p = (sortEntries m.h.p).map decEntryN ∧
        m'.h.u = (sortEntries m.h.u).map normEntryN ∧
        m'.h.p.Perm (m.h.p.map decEntryN) ∧ m'.h.u.Perm (m.h.u.map normEntryN) ∧
        (∀ e ∈ m.h.p, ∀ l, normalizeLabel l = normalizeLabel e.1 →
          lookupLabel m.h.p l = some e.2 ∧ lookupLabel m'.h.p l = some (decEntryN e).2) ∧
        (∀ e ∈ m.h.u, ∀ l, normalizeLabel l = normalizeLabel e.1 →
          lookupLabel m.h.u l = some e.2 ∧ lookupLabel m'.h.u l = some (normValN e.2)) ∧
        algorithmOf m'.h.p = algorithmOf m.h.p ∧
        NestedMap m'.h.p ∧ NestedMapAt 2 m'.h.u := by
  obtain ⟨b', P, U, h1, h2, -⟩ := clear_raw_core_nested tagged b m hd hfp hfu
  obtain ⟨p, u, pl, sg, -, -, hp, hu, -⟩ := C05.sign1_accept_wf_full tagged b m hd
  obtain ⟨hwp, enc, rfl, -⟩ := C05.protected_is_bstr_of_map p _ hp
  have hpc : decProtectedContent enc = .ok m.h.p := hp
  have hvp := C13.decoded_reencodable enc _ hpc
  have hvu := C13.decoded_unprot_reencodable u _ hu
  refine ⟨b', h1, _, h2, rfl, rfl, rfl, rfl, (sortEntries_perm _).map decEntryN,
    (sortEntries_perm _).map normEntryN, ?_, ?_, algorithmOf_canonP hpc hfp,
    nestedMapAt_decEntryN (NestedMapAt.sorted (d := 1) hfp), nestedMapAt_normEntryN hfu.sorted⟩
  · intro e he l hl
    exact C08.protected_lookup_roundtrip_nested m.h.p hfp hvp e he l hl
  · intro e he l hl
    exact C08.unprotected_lookup_roundtrip_nested m.h.u
      (NestedMapAt.mono (d := 2) (d' := 1) (by omega) hfu) hvu e he l hl

/-- 2-N. CLEAR-RAW, FIXPOINT, NESTED HEADER VALUES (the nested form of `clear_raw_fixpoint`).
    With `b'`, `m'` as in 1-N (ANY result of encoding the cleared message and decoding that):
    discarding the raw bytes of `m'` and encoding again gives `b'` again — the canonical form is
    reached after ONE cycle, although the first cycle may have re-sorted maps nested inside header
    values — and decoding it gives `m'` again (exactly, raw fields included). -/
theorem clear_raw_fixpoint_nested (tagged : Bool) (b : Bytes) (m : Sign1Msg)
    (hd : Sign1.unmarshal tagged b = .ok m) (hfp : NestedMap m.h.p) (hfu : NestedMapAt 2 m.h.u)
    (b' : Bytes) (m' : Sign1Msg)
    (he : Sign1.marshal tagged { m with h := { m.h with rawP := none, rawU := none } } = .ok b')
    (hd' : Sign1.unmarshal tagged b' = .ok m') :
    ∃ b'', Sign1.marshal tagged { m' with h := { m'.h with rawP := none, rawU := none } }
        = .ok b'' ∧ b'' = b' ∧ Sign1.unmarshal tagged b'' = .ok m' := by
  obtain ⟨b1, P, U, h1, h2, h3⟩ := clear_raw_core_nested tagged b m hd hfp hfu
  have hb : b1 = b' := Out.ok.inj (h1.symm.trans he)
  subst hb
  rw [h2] at hd'
  cases hd'
  exact ⟨b1, h3, rfl, h2⟩

/-- 2'-N. the decode / discard-raw / encode cycle `clearCycle` is idempotent on inputs whose
    decoded header values are in the nested data model -/
theorem clearCycle_idempotent_nested (tagged : Bool) (b b1 : Bytes)
    (hnest : ∀ m, Sign1.unmarshal tagged b = .ok m → NestedMap m.h.p ∧ NestedMapAt 2 m.h.u)
    (h : clearCycle tagged b = .ok b1) : clearCycle tagged b1 = .ok b1 := by
  unfold clearCycle at h ⊢
  cases hd : Sign1.unmarshal tagged b with
  | ok m =>
    simp only [hd, bind, Out.bind] at h
    obtain ⟨hfp, hfu⟩ := hnest m hd
    obtain ⟨b', P, U, h1, h2, h3⟩ := clear_raw_core_nested tagged b m hd hfp hfu
    have hb : b' = b1 := Out.ok.inj (h1.symm.trans h)
    subst hb
    simp only [h2, bind, Out.bind]
    exact h3
  | err e => simp [hd, bind, Out.bind] at h
  | panic => simp [hd, bind, Out.bind] at h
  | unmodelled => simp [hd, bind, Out.bind] at h

/-- when the sender had sorted every map nested inside the header values, the clear-raw cycle
    only reorders the top-level entries, exactly as in the flat case: `m'.h.p = sortEntries
    m.h.p`, `m'.h.u = sortEntries m.h.u` -/
theorem clear_raw_sorted_nested (tagged : Bool) (b : Bytes) (m : Sign1Msg)
    (hd : Sign1.unmarshal tagged b = .ok m)
    (hsp : ∀ e ∈ m.h.p, SortedN e.2) (hsu : ∀ e ∈ m.h.u, SortedN e.2) :
    (sortEntries m.h.p).map decEntryN = sortEntries m.h.p ∧
      (sortEntries m.h.u).map normEntryN = sortEntries m.h.u := by
  obtain ⟨p, u, pl, sg, -, -, hp, hu, -⟩ := C05.sign1_accept_wf_full tagged b m hd
  obtain ⟨hwp, enc, rfl, -⟩ := C05.protected_is_bstr_of_map p _ hp
  have hpc : decProtectedContent enc = .ok m.h.p := hp
  constructor
  · exact map_id_of_fixed (fun e he =>
      have hem := (sortEntries_perm m.h.p).mem_iff.mp he
      decEntryN_decoded_fixed hpc e hem (hsp e hem))
  · exact map_id_of_fixed (fun e he =>
      have hem := (sortEntries_perm m.h.u).mem_iff.mp he
      normEntryN_decoded_fixed hu e hem (hsu e hem))

/-- 1'-N. WIRE-SIDE sufficient condition for the two data-model hypotheses of 1-N and 2-N (the
    nested form of `flat_of_scalar_items`): the accepted input is the (unique) well-formed tree
    `[bstr enc, {kvsu}, pl, sg]`; every VALUE item of the unprotected map, and of the map inside
    the protected byte string (if any), is plain (`Plain`: no float and no simple value other than
    false / true / null / undefined at any depth; arrays and maps of any shape are fine), and the
    unprotected map has no countersignature label (7, 11). -/
theorem nested_of_plain_items (tagged : Bool) (b : Bytes) (m : Sign1Msg)
    (hd : Sign1.unmarshal tagged b = .ok m)
    (hwp hwu : HW) (enc : Bytes) (kvsu : List (Wire × Wire)) (pl sg : Wire)
    (hb : b = (if tagged then [0xd2] else []) ++
      (Wire.arr .imm [.bstr hwp enc, .map hwu kvsu, pl, sg]).bytes)
    (hwf : (Wire.arr .imm [.bstr hwp enc, .map hwu kvsu, pl, sg]).wf = true)
    (hsp : ∀ hw kvs, enc = (Wire.map hw kvs).bytes → (Wire.map hw kvs).wf = true →
      ∀ kv ∈ kvs, Plain kv.2 = true)
    (hsu : ∀ kv ∈ kvsu, Plain kv.2 = true) (hnc : ∀ e ∈ m.h.u, isCsigLabel e.1 = false) :
    NestedMap m.h.p ∧ NestedMapAt 2 m.h.u := by
  obtain ⟨p, u, pl', sg', hb', -, hwf', hlim', -, -, -, hh⟩ := C09.sign1_envelope_full hd
  obtain ⟨hp, hu, -, -, -⟩ := C09.decHeaders_ok hh
  have hbytes : (Wire.arr .imm [.bstr hwp enc, .map hwu kvsu, pl, sg]).bytes
      = (Wire.arr .imm [p, u, pl', sg']).bytes :=
    List.append_cancel_left (hb.symm.trans hb')
  have heq := Reencode.bytes_inj hwf hwf' hbytes
  simp only [Wire.arr.injEq, List.cons.injEq, and_true, true_and] at heq
  obtain ⟨rfl, rfl, -, -⟩ := heq
  simp only [Wire.wf, Wire.wfList, Bool.and_eq_true] at hwf
  simp only [Wire.inLimits, Wire.inLimitsList, Bool.and_eq_true] at hlim'
  have hul : (Wire.map hwu kvsu).inLimits false 1 = true := by
    simpa [Wire.inLimits] using hlim'.2.2.1
  exact ⟨protected_nested_of_plain (enc := enc) hp hsp,
    unprotected_nested_of_plain (d := 1) hu (by simpa [Wire.wf] using hwf.2.2.1) hul hsu hnc⟩

end C09

/-! ## headline theorem: the hash envelope, nested header values -/

namespace C12
open WireClosure NestedBuckets NestedClosures

/-- 4-N. hash envelope, closed loop across the wire, END TO END, NESTED HEADER VALUES (the nested
    form of `henv_closed_flat`): what `SignHashEnvelope` emits for caller headers whose values are
    in the nested data model (`crit`, CWT claims, application arrays / maps; no retained raw
    unprotected bytes), `VerifyHashEnvelope` with the matching verifier accepts, returning the
    signed hash value.  The preimage content type stays a scalar (the hash-envelope rules accept
    only an unsigned integer or a text there). -/
theorem henv_closed_nested (s : Signer) (v : Verifier) (h : Hdrs) (p : HashPayload) (b : Bytes)
    (hm : C01.Matches s v) (hru : h.rawU = none)
    (hfp : NestedMap h.p) (hfu : NestedMapAt 2 h.u)
    (hup : ∀ e ∈ h.p, UintOK e.2) (huu : ∀ e ∈ h.u, UintOK e.2)
    (hlp : h.p.length + 3 < maxElems) (hlu : h.u.length ≤ maxElems)
    (hpa : int64Range p.alg) (hpct : ∀ x, p.pct = some x → FlatVal x ∧ UintOK x)
    (hloc : utf8Valid p.location = true ∧ p.location.length < 18446744073709551616)
    (halg : int64Range s.alg)
    (hsl : ∀ t sg, s.sign t = .ok sg → sg.length < 18446744073709551616)
    (hpl : hashSize p.alg = 0 → blen p.value < 18446744073709551616)
    (hsign : (signHashEnvelope s h p).1 = .ok b) :
    ∃ m3, (verifyHashEnvelope v b).1 = .ok m3 ∧ m3.payload = p.value := by
  obtain ⟨hvh, u, hmatch, hrules, hhelp⟩ := sign_envelope_rules_u s h p b hsign
  have hu : u = h.u := by
    rw [hru] at hmatch
    exact (Out.ok.inj hmatch).symm
  subst hu
  obtain ⟨hok, henc⟩ := C01.sign1Helper_ok_inv _ _ _ _ _ _ hhelp
  obtain ⟨hfprot, huprot, hlprot⟩ := nested_hashProt hfp hup hpa hpct hloc
  have hpl' : blen p.value < 18446744073709551616 := by
    by_cases hz : hashSize p.alg = 0
    · exact hpl hz
    · have := C01.hashSize_lt p.alg
      simp only [validateHash, hz, decide_false, Bool.false_or, decide_eq_true_eq] at hvh
      omega
  obtain ⟨p', tbs, sig, -, hgate, -, -, hst⟩ := C01.sign1_sign_ok_inv _ _ _ hok
  have henc' : Sign1.marshal true { (Sign1.sign
      { h := { h with p := setHashEnvelopeProtectedHeader h.p p, rawP := none, u := h.u },
        payload := p.value, sig := none } none s).state with payload := p.value } = .ok b := by
    rw [hst] at henc ⊢
    exact henc
  obtain ⟨m2, hdec, hpay, -, hver, hp2, hu2, -⟩ :=
    sign1_wire_nested_core true _ none s v p.value b hm rfl hru hfprot hfu huprot huu
      (by simp only; omega) hlu hpl' halg hsl hok henc'
  rw [hst] at hp2
  simp only at hp2 hu2
  -- the protected map that was encoded
  obtain ⟨hfp', hup', -, -⟩ := sign_gate_nested (d := 1) hgate hfprot huprot halg
  obtain ⟨hr', hl'⟩ := hashRules_after_gate hgate hrules (lookup_258 h.p p)
  have hv' : validateHeaderParameters p' true = true := by
    rw [hst] at henc
    obtain ⟨P, U, -, hP, -, -⟩ := C01.sign1_marshal_ok_inv henc
    exact validate_of_encodeBucket (marshalProtected_ok_inv hP).2
  have hrules2 : validateHashEnvelopeHeaders m2.h.p m2.h.u = true := by
    rw [hp2, hu2]; exact hashRules_decodedN hfp' hup' hfu hr'
  have halg2 : payloadHashAlgorithm m2.h.p = .found p.alg := by
    rw [hp2]; exact payloadHashAlgorithm_decodedN hfp' hv' hl'
  have hver' : (Sign1.verify m2 none v).1 = .ok () := by
    obtain ⟨h2, pay2, sg2⟩ := m2
    simp only at hpay
    subst hpay
    exact hver
  unfold verifyHashEnvelope
  simp only [hdec, hrules2, Bool.not_true, Bool.false_eq_true, if_false]
  cases hv : Sign1.verify m2 none v with
  | mk o calls =>
    rw [hv] at hver'
    simp only at hver'
    subst hver'
    simp only [halg2, hpay, hvh, if_true]
    exact ⟨_, rfl, rfl⟩

end C12

/-! ## non-vacuity: COSE_Sign with nested header values -/

namespace C01
open WireClosure SignWireClosure NestedBuckets NestedClosures

/-- slot headers with a NESTED ARRAY value in the unprotected bucket: protected `{1: ES256}`,
    unprotected `{99: [1, [2]]}` -/
def exHdA : Hdrs :=
  { p := [(lbl 1, .alg (-7))], u := [(lbl 99, .arr [.int .i 1, .arr [.int .i 2]])] }

theorem exHdA_mpP : marshalProtected exHdA = .ok [0x43, 0xa1, 0x01, 0x26] := exF_mpP

theorem exHdA_mpU : marshalUnprotected exHdA = .ok [0xa1, 0x18, 0x63, 0x82, 0x01, 0x81, 0x02] := by
  simp [marshalUnprotected, exHdA, GoVal.modelledPairs, GoVal.modelled, GoVal.modelledList,
    encodeBucket, encCfg, validateHeaderParameters, validateLoop, normalizeLabel, wrap64,
    checkParam, lbl, encodePairs, encodeAny, encodeList, encInt, encHead, HW.shortest, headBytes,
    sortPairs_one, concatPairs, wellformedNoTags, parseTop, fuelFor, parseItem, parseItems,
    parsePairs, parseHead, maxNested, maxElems]

theorem exHdA_marshal : exHdA.marshal
    = .ok ([0x43, 0xa1, 0x01, 0x26], [0xa1, 0x18, 0x63, 0x82, 0x01, 0x81, 0x02]) := by
  have hiv : ensureIV exHdA.p exHdA.u = true := by decide
  simp [Hdrs.marshal, hiv, exHdA_mpP, exHdA_mpU, bind, Out.bind]

theorem exHdA_slot : NestedSlot { h := exHdA } := by
  refine ⟨rfl, rfl, ?_, ?_, ?_, ?_, by simp [exHdA, maxElems], by simp [exHdA, maxElems]⟩ <;>
    intro e he <;> simp only [exHdA, List.mem_singleton] at he <;> subst he
  · simp [lbl, FlatLabel, RTVal, FlatVal, int64Range]
  · simp [lbl, FlatLabel, RTVal, RTList, FlatVal, int64Range, maxNested, maxElems]
  · simp [UintOK]
  · simp [UintOK]

/-- a COSE_Sign whose BODY is `exNest.h` — protected `{1: ES256, 2: [int(-70001)],
    -70001: [1, {2: true}]}` (a `crit` parameter naming an application parameter whose value is an
    array holding a map), unprotected `{15: {4: 1700000000, 1: "iss"}}` — with TWO signer slots:
    the flat `exHd` and `exHdA` (unprotected `{99: [1, [2]]}`) -/
def exMsgNest : SignMsg :=
  { h := exNest.h, payload := some [1, 2, 3], sigs := [{ h := exHd }, { h := exHdA }] }

theorem exSlotN_sign (hd : Hdrs) (hrp : hd.rawP = none) (hp : hd.p = [(lbl 1, .alg (-7))])
    (hmp : marshalProtected hd = .ok [0x43, 0xa1, 0x01, 0x26]) :
    (Signature.sign { h := hd } exS7 exNestP (some [1, 2, 3]) none).out = .ok () ∧
    (Signature.sign { h := hd } exS7 exNestP (some [1, 2, 3]) none).state
      = { h := hd, sig := some [7] } := by
  obtain ⟨rp, p, ru, u⟩ := hd
  simp only at hrp hp
  subst hrp hp
  have hg : ensureSigningAlgorithm none [(lbl 1, .alg (-7))] (-7) none
      = .ok [(lbl 1, .alg (-7))] := by rfl
  have hb : bodyProtOK exNestP = true := by decide
  obtain ⟨t, ht⟩ : ∃ t, Signature.toBeSigned
      { h := { rawP := none, p := [(lbl 1, .alg (-7))], rawU := ru, u := u }, sig := none }
      exNestP (some [1, 2, 3]) none = .ok t := by
    simp [Signature.toBeSigned, hmp, ex_det2, exNest_det, bind, Out.bind]
  simp [Signature.sign, blen, hb, hg, ht, exS7]

theorem exMsgNest_sign : (Sign.sign exMsgNest none [exS7, exS7]).out = .ok () ∧
    (Sign.sign exMsgNest none [exS7, exS7]).state =
      { h := exNest.h, payload := some [1, 2, 3],
        sigs := [{ h := exHd, sig := some [7] }, { h := exHdA, sig := some [7] }] } := by
  have hp : exMsgNest.payload = some [1, 2, 3] := rfl
  have hh : exMsgNest.h = exNest.h := rfl
  have hsg : exMsgNest.sigs = [{ h := exHd }, { h := exHdA }] := rfl
  have s1 := exSlotN_sign exHd rfl rfl exHd_mpP
  have s2 := exSlotN_sign exHdA rfl rfl exHdA_mpP
  simp [Sign.sign, hp, hh, hsg, exNest_mpP, signLoop, s1.1, s1.2, s2.1, s2.2]

theorem exMsgNest_marshal :
    ∃ b, Sign.marshal (Sign.sign exMsgNest none [exS7, exS7]).state = .ok b := by
  rw [exMsgNest_sign.2]
  have hiv : ensureIV exNest.h.p exNest.h.u = true := by decide
  have hbm : exNest.h.marshal = .ok (exNestP, exNestU) := by
    simp [Hdrs.marshal, hiv, exNest_mpP, exNest_mpU, bind, Out.bind]
  have hs1 : Signature.marshal { h := exHd, sig := some [7] }
      = .ok (0x83 :: ([0x43, 0xa1, 0x01, 0x26] ++ ([0xa1, 0x04, 0x42, 0x31, 0x31] ++ encBstr [7]))) := by
    simp [Signature.marshal, exHd_marshal, blen, bind, Out.bind]
  have hs2 : Signature.marshal { h := exHdA, sig := some [7] }
      = .ok (0x83 :: ([0x43, 0xa1, 0x01, 0x26] ++
          ([0xa1, 0x18, 0x63, 0x82, 0x01, 0x81, 0x02] ++ encBstr [7]))) := by
    simp [Signature.marshal, exHdA_marshal, blen, bind, Out.bind]
  simp [Sign.marshal, marshalSigs, hbm, hs1, hs2, bind, Out.bind]

/-- non-vacuity of `signmsg_wire_nested` with TWO signer slots: every hypothesis holds for
    `exMsgNest` (body protected bucket with `crit` and an array-of-map parameter, body unprotected
    bucket with CWT claims, one slot with a nested array in its unprotected bucket) with the
    matching pairs `exS7`/`exV7`; the theorem yields the decoded message, which verifies, carries
    the payload and two signer entries, and whose body header maps are the decoded normal forms
    spelt out in `exNest_decP` / `exNest_decU` -/
example : ∃ b m2, Sign.marshal (Sign.sign exMsgNest none [exS7, exS7]).state = .ok b ∧
    Sign.unmarshal b = .ok m2 ∧ (Sign.verify m2 none [exV7, exV7]).1 = .ok () ∧
    m2.payload = some [1, 2, 3] ∧ m2.sigs.length = 2 ∧
    m2.h.p = [(lbl 1, .alg (-7)), (lbl 2, .arr [.int .i64 (-70001)]),
              (lbl (-70001), .arr [.int .i64 1, .map [(.int .i64 2, .bool true)]])] ∧
    m2.h.u = [(lbl 15, .map [(.int .i64 1, .str [0x69, 0x73, 0x73]),
                             (.int .i64 4, .int .i64 1700000000)])] := by
  obtain ⟨b, hb⟩ := exMsgNest_marshal
  obtain ⟨h1, h2, h3, h4⟩ := exNest_model
  obtain ⟨m2, hdec, hver, hpay, hl2, -, hp2, hu2⟩ :=
    signmsg_wire_nested exMsgNest none [exS7, exS7] [exV7, exV7] b rfl
      (by
        intro i h1 h2
        have : i = 0 ∨ i = 1 := by simp at h1; omega
        rcases this with rfl | rfl <;> exact exSV7)
      rfl rfl h1 h2 h3 h4 (by simp [exMsgNest, exNest, maxElems])
      (by simp [exMsgNest, exNest, maxElems])
      (by
        intro sg hsg
        simp only [exMsgNest, List.mem_cons, List.not_mem_nil, or_false] at hsg
        rcases hsg with rfl | rfl
        · exact nestedSlot_of_flat exHd_flatSlot
        · exact exHdA_slot)
      (by simp [exMsgNest, maxElems]) (by simp [exMsgNest, blen])
      (by
        intro s hs
        simp only [List.mem_cons, List.not_mem_nil, or_false, or_self] at hs
        subst hs
        exact exS7_go)
      exMsgNest_sign.1 hb
  exact ⟨b, m2, hb, hdec, hver, hpay, hl2, hp2.trans exNest_decP, hu2.trans exNest_decU⟩

end C01

/-! ## non-vacuity: clear-raw on a message whose nested maps are NOT canonical on the wire -/

namespace NestedClearRawExamples
open WireClosure NestedBuckets NestedClosures ClearRaw

/-- the map inside the protected bucket, as sent: `{2: [-70001], 1: -7, -70001: {2: true, 1: 0}}`
    — a `crit` parameter naming the application parameter -70001, top-level keys OUT OF ORDER
    (`02` before `01`), and the keys of the NESTED map out of order too -/
def exPMapN : Wire :=
  .map .imm [(.uint .imm 2, .arr .imm [.nint .w4 70000]), (.uint .imm 1, .nint .imm 6),
    (.nint .w4 70000, .map .imm [(.uint .imm 2, .prim .imm 21), (.uint .imm 1, .uint .imm 0)])]

def exPContN : Bytes :=
  [0xa3, 0x02, 0x81, 0x3a, 0x00, 0x01, 0x11, 0x70, 0x01, 0x26, 0x3a, 0x00, 0x01, 0x11, 0x70,
   0xa2, 0x02, 0xf5, 0x01, 0x00]

theorem exPMapN_bytes : exPMapN.bytes = exPContN := by decide

/-- the protected bucket: a 20-byte byte string -/
def exPuN : Wire := .bstr .imm exPContN

/-- unprotected bucket `a1 18 63 82 01 81 02`: `{99: [1, [2]]}` -/
def exUnN : Wire := .map .imm [(.uint .w1 99, .arr .imm [.uint .imm 1, .arr .imm [.uint .imm 2]])]

/-- `18([h'a302…0100', {99: [1, [2]]}, h'010203', h'07'])` -/
def exBN : Bytes :=
  [0xd2, 0x84, 0x54, 0xa3, 0x02, 0x81, 0x3a, 0x00, 0x01, 0x11, 0x70, 0x01, 0x26, 0x3a, 0x00, 0x01,
   0x11, 0x70, 0xa2, 0x02, 0xf5, 0x01, 0x00, 0xa1, 0x18, 0x63, 0x82, 0x01, 0x81, 0x02,
   0x43, 1, 2, 3, 0x41, 7]

/-- the same message after one clear-raw cycle: protected
    `a3 01 26 02 81 3a00011170 3a00011170 a2 01 00 02 f5` (both levels sorted) -/
def exBN' : Bytes :=
  [0xd2, 0x84, 0x54, 0xa3, 0x01, 0x26, 0x02, 0x81, 0x3a, 0x00, 0x01, 0x11, 0x70, 0x3a, 0x00, 0x01,
   0x11, 0x70, 0xa2, 0x01, 0x00, 0x02, 0xf5, 0xa1, 0x18, 0x63, 0x82, 0x01, 0x81, 0x02,
   0x43, 1, 2, 3, 0x41, 7]

/-- the decoded protected map: wire order kept at both levels -/
def exPmN : GoMap :=
  [(lbl 2, .arr [.int .i64 (-70001)]), (lbl 1, .alg (-7)),
   (lbl (-70001), .map [(.int .i64 2, .bool true), (.int .i64 1, .int .i64 0)])]

def exUmN : GoMap := [(lbl 99, .arr [.int .i64 1, .arr [.int .i64 2]])]

/-- the protected map after one cycle: top level AND nested map sorted -/
def exPmN' : GoMap :=
  [(lbl 1, .alg (-7)), (lbl 2, .arr [.int .i64 (-70001)]),
   (lbl (-70001), .map [(.int .i64 1, .int .i64 0), (.int .i64 2, .bool true)])]

theorem exN_parse : parseTop true exPContN = some exPMapN := by
  rw [← exPMapN_bytes]
  exact parseTop_complete
    (by simp [exPMapN, Wire.wf, Wire.wfList, Wire.wfPairs, HW.fits])
    (by simp [exPMapN, Wire.inLimits, Wire.inLimitsList, Wire.inLimitsPairs, maxNested, maxElems])

theorem exN_decPu : decProtected exPuN = .ok exPmN := by
  have hp := exN_parse
  simp only [exPContN] at hp
  simp [exPuN, exPContN, exPmN, decProtected, decProtectedContent, hp, exPMapN, labelsOK,
    maxInt64, GoVal.keyEq, decodePairs, decodeAny, decodeList, keyHashable,
    validateHeaderParameters, validateLoop, normalizeLabel, wrap64, checkParam, ensureCritical,
    hasLabel, castAlg, algorithmOf, lookupLabel, GoMap.lookup, lbl, GoMap.set, GoMap.has, bind,
    Out.bind, canInt, canTstr, IntKind.signed, Wire.stripSelfDescribed,
    (by decide : headerLabelsUntagged [0xa3, 0x02, 0x81, 0x3a, 0x00, 0x01, 0x11, 0x70, 0x01, 0x26,
      0x3a, 0x00, 0x01, 0x11, 0x70, 0xa2, 0x02, 0xf5, 0x01, 0x00] = true)]

theorem exN_decUn : decUnprot exUnN = .ok exUmN := by
  simp [exUnN, exUmN, decUnprot, labelsOK, decUnprotPairs, decodeAny, decodeList, isCsigLabel,
    normalizeLabel, wrap64, maxInt64, validateHeaderParameters, validateLoop, checkParam,
    GoVal.keyEq, lbl, Wire.stripSelfDescribed,
    (by decide : headerLabelsUntagged (Wire.map .imm [(.uint .w1 99,
      .arr .imm [.uint .imm 1, .arr .imm [.uint .imm 2]])]).bytes = true)]

theorem exBN_tree : exBN = (if true then [0xd2] else []) ++
    (Wire.arr .imm [exPuN, exUnN, .bstr .imm [1, 2, 3], .bstr .imm [7]]).bytes := by decide

theorem exN_tree_wf :
    (Wire.arr .imm [exPuN, exUnN, .bstr .imm [1, 2, 3], .bstr .imm [7]]).wf = true := by
  simp [Wire.wf, Wire.wfList, Wire.wfPairs, HW.fits, exPuN, exPContN, exUnN]

theorem exN_unmarshal : Sign1.unmarshal true exBN =
    .ok { h := { rawP := some exPuN.bytes, p := exPmN, rawU := some exUnN.bytes, u := exUmN },
          payload := some [1, 2, 3], sig := some [7] } := by
  rw [exBN_tree]
  exact C07.wf_sign1_accepted_full true (p := exPuN) (u := exUnN) (pl := .bstr .imm [1, 2, 3])
    (hw := .imm) (c := [7]) exN_tree_wf
    (by simp [Wire.inLimits, Wire.inLimitsList, Wire.inLimitsPairs, exPuN, exUnN, maxNested,
      maxElems])
    exN_decPu exN_decUn (by decide) (.inr ⟨_, _, rfl⟩) (by decide)

/-- the data-model hypotheses follow from the wire-side condition `C09.nested_of_plain_items` -/
theorem exN_nested : NestedMap exPmN ∧ NestedMapAt 2 exUmN := by
  refine C09.nested_of_plain_items true exBN _ exN_unmarshal .imm .imm exPContN
    [(.uint .w1 99, .arr .imm [.uint .imm 1, .arr .imm [.uint .imm 2]])] (.bstr .imm [1, 2, 3])
    (.bstr .imm [7]) exBN_tree exN_tree_wf ?_ ?_ ?_
  · intro hw kvs he hwf
    have h1 : exPMapN.wf = true := by
      simp [exPMapN, Wire.wf, Wire.wfList, Wire.wfPairs, HW.fits]
    have h2 := Reencode.bytes_inj h1 hwf (by rw [← he]; exact exPMapN_bytes)
    simp only [exPMapN, Wire.map.injEq] at h2
    obtain ⟨-, rfl⟩ := h2
    intro kv hkv
    simp only [List.mem_cons, List.not_mem_nil, or_false] at hkv
    rcases hkv with rfl | rfl | rfl <;> simp [Plain, PlainList, PlainPairs]
  · intro kv hkv
    simp only [List.mem_cons, List.not_mem_nil, or_false] at hkv
    subst hkv
    simp [Plain, PlainList]
  · intro e he
    simp only [exUmN, List.mem_cons, List.not_mem_nil, or_false] at he
    subst he
    simp [isCsigLabel, normalizeLabel, wrap64, lbl]

theorem exN_sortTop :
    sortPairs [([2], [0x81, 0x3a, 0, 1, 0x11, 0x70]), ([1], [0x26]),
               ([0x3a, 0, 1, 0x11, 0x70], [0xa2, 1, 0, 2, 0xf5])]
      = [([1], [0x26]), ([2], [0x81, 0x3a, 0, 1, 0x11, 0x70]),
         ([0x3a, 0, 1, 0x11, 0x70], [0xa2, 1, 0, 2, 0xf5])] := by
  rw [sortPairs_perm_invariant _ [([1], [0x26]), ([2], [0x81, 0x3a, 0, 1, 0x11, 0x70]),
    ([0x3a, 0, 1, 0x11, 0x70], [0xa2, 1, 0, 2, 0xf5])] (List.Perm.swap ..) (by decide)]
  exact sortPairs_of_sorted _ (by decide)

theorem exN_sortIn : sortPairs [([2], [0xf5]), ([1], [0])] = [([1], [0]), ([2], [0xf5])] := by
  rw [sortPairs_perm_invariant _ [([1], [0]), ([2], [0xf5])] (List.Perm.swap ..) (by decide)]
  exact sortPairs_of_sorted _ (by decide)

/-- discarding the raw bytes and encoding gives `exBN'` -/
theorem exN_marshal_cleared (m : Sign1Msg) (hd : Sign1.unmarshal true exBN = .ok m) :
    Sign1.marshal true { m with h := { m.h with rawP := none, rawU := none } } = .ok exBN' := by
  rw [exN_unmarshal] at hd
  cases hd
  have hiv : ensureIV exPmN exUmN = true := by decide
  have hv : validateHeaderParameters exPmN true = true :=
    C13.decoded_reencodable exPContN _ exN_decPu
  simp only [exPmN, lbl] at hv
  have hP : marshalProtected { p := exPmN, u := exUmN }
      = .ok [0x54, 0xa3, 0x01, 0x26, 0x02, 0x81, 0x3a, 0x00, 0x01, 0x11, 0x70, 0x3a, 0x00, 0x01,
             0x11, 0x70, 0xa2, 0x01, 0x00, 0x02, 0xf5] := by
    simp [marshalProtected, exPmN, GoVal.modelledPairs, GoVal.modelled, GoVal.modelledList,
      encodeBucket, encCfg, hv, lbl, encodePairs, encodeAny, encodeList, encInt, encHead,
      encBstr, HW.shortest, headBytes, exN_sortTop, exN_sortIn, concatPairs]
  have hU : marshalUnprotected { p := exPmN, u := exUmN }
      = .ok [0xa1, 0x18, 0x63, 0x82, 0x01, 0x81, 0x02] := by
    simp [marshalUnprotected, exUmN, GoVal.modelledPairs, GoVal.modelled, GoVal.modelledList,
      encodeBucket, encCfg, validateHeaderParameters, validateLoop, normalizeLabel, wrap64,
      checkParam, lbl, encodePairs, encodeAny, encodeList, encInt, encHead, HW.shortest,
      headBytes, sortPairs_one, concatPairs, wellformedNoTags, parseTop, fuelFor, parseItem, parseItems,
    parsePairs, parseHead, maxNested, maxElems]
  simp [Sign1.marshal, Sign1.content, Hdrs.marshal, hP, hU, hiv, blen, bind, Out.bind, exBN',
    optBytesEnc, encBstr, encHead, HW.shortest, headBytes]

/-- what the cycle makes of the protected map: `decEntryN` sorts the nested map as well -/
theorem exN_canonP : (sortEntries exPmN).map decEntryN = exPmN' := by
  simp [exPmN, exPmN', decEntryN, castEntry, normEntryN, normValN, normListN, normPairsN, normVal,
    algCast, lbl, GoVal.keyEq, sortEntries, List.mergeSort, List.MergeSort.Internal.splitInTwo,
    valWire, intWire, Wire.bytes, headBytes, HW.shortest, bytesLe, bytesLt, IntKind.signed]

/-- NON-VACUITY of `clear_raw_decodable_nested` / `clear_raw_fixpoint_nested`.  `exBN` decodes;
    its protected bucket holds `crit` and a nested map whose keys are NOT in the encoder's order;
    the decoded header values are in the nested data model (by the wire-side condition); the
    theorems apply: the cleared message encodes to `exBN' ≠ exBN`, `exBN'` decodes to a message
    with the same payload and signature whose protected map is `exPmN'` — top level and nested
    map sorted — with the same `Algorithm()`, and clearing and encoding THAT gives `exBN'`
    again. -/
example : ∃ m m', Sign1.unmarshal true exBN = .ok m ∧ m.h.p = exPmN ∧
    Sign1.marshal true { m with h := { m.h with rawP := none, rawU := none } } = .ok exBN' ∧
    exBN' ≠ exBN ∧
    Sign1.unmarshal true exBN' = .ok m' ∧ m'.payload = some [1, 2, 3] ∧ m'.sig = some [7] ∧
    m'.h.p = exPmN' ∧ m'.h.p ≠ sortEntries m.h.p ∧ algorithmOf m'.h.p = .found (-7) ∧
    Sign1.marshal true { m' with h := { m'.h with rawP := none, rawU := none } } = .ok exBN' := by
  obtain ⟨hfp, hfu⟩ := exN_nested
  obtain ⟨b', h1, m', h2, hpay, hsig, hp', -, -, -, -, -, halg, -, -⟩ :=
    C09.clear_raw_decodable_nested true exBN _ exN_unmarshal hfp hfu
  have hb : b' = exBN' := Out.ok.inj (h1.symm.trans (exN_marshal_cleared _ exN_unmarshal))
  subst hb
  obtain ⟨b'', h3, rfl, -⟩ :=
    C09.clear_raw_fixpoint_nested true exBN _ exN_unmarshal hfp hfu _ m' h1 h2
  have hp'' : m'.h.p = exPmN' := hp'.trans exN_canonP
  refine ⟨_, m', exN_unmarshal, rfl, h1, by decide, h2, hpay, hsig, hp'', ?_, ?_, h3⟩
  · rw [hp'']
    simp [exPmN, exPmN', lbl, sortEntries, List.mergeSort, List.MergeSort.Internal.splitInTwo,
      valWire, intWire, Wire.bytes, headBytes, HW.shortest, bytesLe, bytesLt]
  · rw [halg]
    simp [exPmN, algorithmOf, lookupLabel, GoMap.lookup, lbl, GoVal.keyEq]

/-- the bucket theorem on the same data: the non-canonical protected content re-encodes to the
    canonical content, which decodes to `exPmN'`, a fixpoint -/
example : ∃ content, encodeBucket encCfg true none exPmN = some (encBstr content) ∧
    content.length ≤ exPContN.length ∧ decProtectedContent content = .ok exPmN' ∧
    encodeBucket encCfg true none exPmN' = some (encBstr content) ∧
    (sortEntries exPmN').map decEntryN = exPmN' := by
  obtain ⟨content, m', h1, h2, h3, h4, -, -, -, -, h5, h6⟩ :=
    C09.protected_clear_raw_fixpoint_nested exPContN exPmN exN_decPu exN_nested.1
  rw [exN_canonP] at h4
  subst h4
  exact ⟨content, h1, h2, h3, h5, h6⟩

end NestedClearRawExamples

/-! ## why a signer slot's unprotected values must fit at depth 4 -/

namespace NestedClosures
open WireClosure SignWireClosure NestedBuckets NestedExamples

/-- slot headers: protected `{1: ES256}`, unprotected `{99: [[…[nil]…]]}` with 29 nested arrays -/
def exHdDeep : Hdrs := { p := [(lbl 1, .alg (-7))], u := [(lbl 99, nestArr 29)] }

/-- a COSE_Sign with the flat body `exHd` and ONE signer slot with headers `exHdDeep` -/
def exMsgDeep : SignMsg :=
  { h := C01.exHd, payload := some [1, 2, 3], sigs := [{ h := exHdDeep }] }

def exDeepSU : Bytes := 0xa1 :: 0x18 :: 0x63 :: (List.replicate 29 0x81 ++ [0xf6])

theorem exHdDeep_mpP : marshalProtected exHdDeep = .ok [0x43, 0xa1, 0x01, 0x26] := C01.exF_mpP

set_option maxRecDepth 8192 in
theorem exHdDeep_mpU : marshalUnprotected exHdDeep = .ok exDeepSU := by
  simp [marshalUnprotected, exHdDeep, exDeepSU, GoVal.modelledPairs, GoVal.modelled,
    nestArr_modelled, encodeBucket,
    encCfg, validateHeaderParameters, validateLoop, normalizeLabel, wrap64, checkParam, lbl,
    encodePairs, nestArr_enc, encodeAny, encInt, encHead, HW.shortest, headBytes, sortPairs_one,
    concatPairs, wellformedNoTags, parseTop, fuelFor, parseItem, parseItems,
    parsePairs, parseHead, maxNested, maxElems]

theorem exHdDeep_marshal : exHdDeep.marshal = .ok ([0x43, 0xa1, 0x01, 0x26], exDeepSU) := by
  have hiv : ensureIV exHdDeep.p exHdDeep.u = true := by
    simp [ensureIV, exHdDeep, hasLabel, lookupLabel, GoMap.lookup, GoVal.keyEq, lbl,
      normalizeLabel, wrap64]
  simp [Hdrs.marshal, hiv, exHdDeep_mpP, exHdDeep_mpU, bind, Out.bind]

/-- the slot satisfies `NestedSlot` with depth 3 in place of depth 4 -/
theorem exHdDeep_slot3 : exHdDeep.rawP = none ∧ exHdDeep.rawU = none ∧ NestedMap exHdDeep.p ∧
    NestedMapAt 3 exHdDeep.u ∧ (∀ e ∈ exHdDeep.p, UintOK e.2) ∧ (∀ e ∈ exHdDeep.u, UintOK e.2) ∧
    exHdDeep.p.length < maxElems ∧ exHdDeep.u.length ≤ maxElems := by
  refine ⟨rfl, rfl, ?_, ?_, ?_, ?_, by simp [exHdDeep, maxElems], by simp [exHdDeep, maxElems]⟩ <;>
    intro e he <;> simp only [exHdDeep, List.mem_singleton] at he <;> subst he
  · simp [lbl, FlatLabel, RTVal, FlatVal, int64Range]
  · exact ⟨by simp [lbl, FlatLabel, int64Range], nestArr_rt 29 3 (by unfold maxNested; omega)⟩
  · simp [UintOK]
  · simp [UintOK, nestArr]

theorem exSlotDeep_sign :
    (Signature.sign { h := exHdDeep } C01.exS7 [0x43, 0xa1, 0x01, 0x26] (some [1, 2, 3]) none).out
      = .ok () ∧
    (Signature.sign { h := exHdDeep } C01.exS7 [0x43, 0xa1, 0x01, 0x26] (some [1, 2, 3]) none).state
      = { h := exHdDeep, sig := some [7] } := by
  have hg : ensureSigningAlgorithm exHdDeep.rawP exHdDeep.p (-7) none = .ok exHdDeep.p := by rfl
  obtain ⟨t, ht⟩ : ∃ t, Signature.toBeSigned
      { h := { rawP := exHdDeep.rawP, p := exHdDeep.p, rawU := exHdDeep.rawU, u := exHdDeep.u },
        sig := none } [0x43, 0xa1, 0x01, 0x26] (some [1, 2, 3]) none = .ok t := by
    have hmp : marshalProtected
        { rawP := exHdDeep.rawP, p := exHdDeep.p, rawU := exHdDeep.rawU, u := exHdDeep.u }
        = .ok [0x43, 0xa1, 0x01, 0x26] := exHdDeep_mpP
    simp [Signature.toBeSigned, hmp, C01.ex_det2, bind, Out.bind]
  simp [Signature.sign, blen, bodyProtOK, hg, ht, C01.exS7]

theorem exMsgDeep_sign : (Sign.sign exMsgDeep none [C01.exS7]).out = .ok () ∧
    (Sign.sign exMsgDeep none [C01.exS7]).state =
      { h := C01.exHd, payload := some [1, 2, 3], sigs := [{ h := exHdDeep, sig := some [7] }] } := by
  have hp : exMsgDeep.payload = some [1, 2, 3] := rfl
  have hh : exMsgDeep.h = C01.exHd := rfl
  have hsg : exMsgDeep.sigs = [{ h := exHdDeep }] := rfl
  simp [Sign.sign, hp, hh, hsg, C01.exHd_mpP, signLoop, exSlotDeep_sign.1, exSlotDeep_sign.2]

/-- the bytes `MarshalCBOR` returns for the signed `exMsgDeep` -/
def exDeepSB : Bytes :=
  0xd8 :: 0x62 :: 0x84 :: 0x43 :: 0xa1 :: 0x01 :: 0x26 :: 0xa1 :: 0x04 :: 0x42 :: 0x31 :: 0x31 ::
  0x43 :: 1 :: 2 :: 3 :: 0x81 :: 0x83 :: 0x43 :: 0xa1 :: 0x01 :: 0x26 :: 0xa1 :: 0x18 :: 0x63 ::
  (List.replicate 29 0x81 ++ [0xf6, 0x41, 7])

theorem exMsgDeep_marshal :
    Sign.marshal (Sign.sign exMsgDeep none [C01.exS7]).state = .ok exDeepSB := by
  rw [exMsgDeep_sign.2]
  have hsm : Signature.marshal { h := exHdDeep, sig := some [7] }
      = .ok (0x83 :: ([0x43, 0xa1, 0x01, 0x26] ++ (exDeepSU ++ encBstr [7]))) := by
    simp [Signature.marshal, exHdDeep_marshal, blen, bind, Out.bind]
  simp [Sign.marshal, marshalSigs, C01.exHd_marshal, hsm, bind, Out.bind, exDeepSB, exDeepSU,
    optBytesEnc, encBstr, encHead, HW.shortest, headBytes]

theorem exDeepS_parse (tail : Bytes) (hdeep : ∀ f, parseItem false f 4 tail = none) (f : Nat) :
    parseItem false (f + 13) 0
      (0x84 :: 0x43 :: 0xa1 :: 0x01 :: 0x26 :: 0xa1 :: 0x04 :: 0x42 :: 0x31 :: 0x31 ::
       0x43 :: 1 :: 2 :: 3 :: 0x81 :: 0x83 :: 0x43 :: 0xa1 :: 0x01 :: 0x26 :: 0xa1 :: 0x18 ::
       0x63 :: tail) = none := by
  simp [parseItem, parseItems, parsePairs, parseHead, maxNested, maxElems, hdeep]

end NestedClosures

namespace C01
open NestedBuckets NestedClosures NestedExamples

/-- In `signmsg_wire_nested` the unprotected values of a SIGNER SLOT must fit at depth 4
    (`NestedSlot`: `NestedMapAt 4`): the slot is an array (depth 2) inside the signatures array
    (depth 1) inside the message array (depth 0), its unprotected map item sits at depth 3.
    `exMsgDeep` — flat body, one slot with unprotected `{99: [[…[nil]…]]}`, 29 nested arrays —
    satisfies every hypothesis with depth 3 in place of 4 (so the same headers make the round
    trip as a stand-alone COSE_Countersignature or in a COSE_Sign1: `NestedMapAt 2`); the
    library signs and encodes the message, and `UnmarshalCBOR` refuses the bytes (nesting level
    33 > 32).  The decoder has `MaxNestedLevels` 32 counted from the message; the gate in
    `UnprotectedHeader.MarshalCBOR` (headers.go:256) applies the same limit to the slot's bucket
    alone, which has 30 levels (`C08.unprotected_depth_gate`). -/
theorem signmsg_wire_nested_needs_depth4 :
    (exHdDeep.rawP = none ∧ exHdDeep.rawU = none ∧ NestedMap exHdDeep.p ∧
      NestedMapAt 3 exHdDeep.u ∧ (∀ e ∈ exHdDeep.p, UintOK e.2) ∧ (∀ e ∈ exHdDeep.u, UintOK e.2) ∧
      exHdDeep.p.length < maxElems ∧ exHdDeep.u.length ≤ maxElems) ∧
    (Sign.sign exMsgDeep none [exS7]).out = .ok () ∧
    Sign.marshal (Sign.sign exMsgDeep none [exS7]).state = .ok exDeepSB ∧
    Sign.unmarshal exDeepSB = .err .other := by
  refine ⟨exHdDeep_slot3, exMsgDeep_sign.1, exMsgDeep_marshal, ?_⟩
  have hdeep := fun f => parseItem_too_deep false [0xf6, 0x41, 7] 29 f 4
    (by unfold maxNested; omega) (by unfold maxNested; omega)
  have hf : fuelFor (0x84 :: 0x43 :: 0xa1 :: 0x01 :: 0x26 :: 0xa1 :: 0x04 :: 0x42 :: 0x31 ::
      0x31 :: 0x43 :: 1 :: 2 :: 3 :: 0x81 :: 0x83 :: 0x43 :: 0xa1 :: 0x01 :: 0x26 :: 0xa1 ::
      0x18 :: 0x63 :: (List.replicate 29 0x81 ++ [0xf6, 0x41, 7])) = 99 + 13 := by
    simp [fuelFor]
  simp only [exDeepSB, Sign.unmarshal, parseTop, hf, exDeepS_parse _ hdeep]

end C01

/-! ## non-vacuity: a countersignature and a hash envelope with nested header values -/

namespace C01
open WireClosure SignWireClosure NestedBuckets NestedClosures

theorem exCsN_sign :
    (Countersignature.sign { h := exNest.h } exS7 (.sign1 exPar) none).out = .ok () ∧
    (Countersignature.sign { h := exNest.h } exS7 (.sign1 exPar) none).state
      = { h := exNest.h, sig := some [7] } := by
  have hps : exPar.sig = some [7] := rfl
  have hph : exPar.h = exHd := rfl
  have hpp : exPar.payload = some [1, 2, 3] := rfl
  have hg : ensureSigningAlgorithm exNest.h.rawP exNest.h.p (-7) none = .ok exNest.h.p := by rfl
  have hmp : marshalProtected
      { rawP := exNest.h.rawP, p := exNest.h.p, rawU := exNest.h.rawU, u := exNest.h.u }
      = .ok exNestP := exNest_mpP
  obtain ⟨t, ht⟩ : ∃ t, Countersignature.toBeSigned
      { h := { rawP := exNest.h.rawP, p := exNest.h.p, rawU := exNest.h.rawU, u := exNest.h.u },
        sig := none } (.sign1 exPar) none = .ok t := by
    simp [Countersignature.toBeSigned, countersignToBeSigned, hmp, exHd_mpP, hps, hph, hpp, blen,
      ex_det2, exNest_det, bind, Out.bind]
  simp [Countersignature.sign, blen, hg, ht, exS7]

/-- non-vacuity of `countersignature_wire_nested`: a fresh countersignature whose headers are
    `exNest.h` (protected bucket with `crit` and an array-of-map parameter, unprotected bucket
    with CWT claims) on a signed COSE_Sign1, with the matching pair `exS7`/`exV7` -/
example : ∃ b c2,
    Signature.marshal (Countersignature.sign { h := exNest.h } exS7 (.sign1 exPar) none).state
      = .ok b ∧ Signature.unmarshal b = .ok c2 ∧
    (Countersignature.verify c2 exV7 (.sign1 exPar) none).1 = .ok () ∧ c2.sig = some [7] ∧
    c2.h.p = [(lbl 1, .alg (-7)), (lbl 2, .arr [.int .i64 (-70001)]),
              (lbl (-70001), .arr [.int .i64 1, .map [(.int .i64 2, .bool true)]])] := by
  have hiv : ensureIV exNest.h.p exNest.h.u = true := by decide
  have hbm : exNest.h.marshal = .ok (exNestP, exNestU) := by
    simp [Hdrs.marshal, hiv, exNest_mpP, exNest_mpU, bind, Out.bind]
  have hb : Signature.marshal
      (Countersignature.sign { h := exNest.h } exS7 (.sign1 exPar) none).state
      = .ok (0x83 :: (exNestP ++ (exNestU ++ encBstr [7]))) := by
    rw [exCsN_sign.2]
    simp [Signature.marshal, hbm, blen, bind, Out.bind]
  obtain ⟨h1, h2, h3, h4⟩ := exNest_model
  obtain ⟨c2, hdec, hver, hsig, hp2, -⟩ :=
    countersignature_wire_nested { h := exNest.h } exS7 exV7 (.sign1 exPar) none _ exSV7 rfl rfl
      h1 h2 h3 h4 (by simp [exNest, maxElems]) (by simp [exNest, maxElems])
      exS7_go.1 exS7_go.2 exCsN_sign.1 hb
  refine ⟨_, c2, hb, hdec, hver, by rw [hsig, exCsN_sign.2], ?_⟩
  rw [hp2, exCsN_sign.2]
  exact exNest_decP

end C01

namespace C12
open WireClosure NestedBuckets NestedClosures

/-- the protected map `SignHashEnvelope` builds from the caller's `exNest.h.p` (`crit`, an
    array-of-map parameter) for a SHA-256 hash payload -/
def exHprotN : GoMap :=
  [(lbl 1, .alg (-7)), (lbl 2, .arr [.int .i (-70001)]),
   (lbl (-70001), .arr [.int .i 1, .map [(.int .i 2, .bool true)]]), (lbl 258, .alg (-16))]

def exHPN : Bytes :=
  [0x58, 0x18, 0xa4, 0x01, 0x26, 0x02, 0x81, 0x3a, 0x00, 0x01, 0x11, 0x70, 0x19, 0x01, 0x02, 0x2f,
   0x3a, 0x00, 0x01, 0x11, 0x70, 0x82, 0x01, 0xa1, 0x02, 0xf5]

theorem exHN_prot : setHashEnvelopeProtectedHeader C01.exNest.h.p exHp = exHprotN := by rfl

theorem exHN_sort :
    sortPairs [([1], [38]), ([2], [129, 58, 0, 1, 17, 112]),
               ([58, 0, 1, 17, 112], [130, 1, 161, 2, 245]), ([25, 1, 2], [47])]
      = [([1], [38]), ([2], [129, 58, 0, 1, 17, 112]), ([25, 1, 2], [47]),
         ([58, 0, 1, 17, 112], [130, 1, 161, 2, 245])] := by
  rw [sortPairs_perm_invariant _ [([1], [38]), ([2], [129, 58, 0, 1, 17, 112]), ([25, 1, 2], [47]),
    ([58, 0, 1, 17, 112], [130, 1, 161, 2, 245])]
    (List.Perm.cons _ (List.Perm.cons _ (List.Perm.swap ..))) (by decide)]
  exact sortPairs_of_sorted _ (by decide)

theorem exHN_valP : validateHeaderParameters exHprotN true = true := by
  simp [exHprotN, validateHeaderParameters, validateLoop, normalizeLabel, wrap64, checkParam, lbl,
    ensureCritical, canInt, canTstr, hasLabel, lookupLabel, GoMap.lookup, GoVal.keyEq]

theorem exHN_mpP : marshalProtected { p := exHprotN, u := C01.exNest.h.u } = .ok exHPN := by
  have hv : validateHeaderParameters exHprotN true = true := exHN_valP
  simp only [exHprotN, lbl] at hv
  simp [marshalProtected, exHprotN, exHPN, GoVal.modelledPairs, GoVal.modelled,
    GoVal.modelledList, encodeBucket, encCfg, hv, lbl, encodePairs, encodeAny, encodeList, encInt,
    encHead, encBstr, HW.shortest, headBytes, sortPairs_one, exHN_sort, concatPairs]

theorem exHN_det : detBstr exHPN = .ok exHPN := by
  simp [exHPN, detBstr, parseTop, parseItem, fuelFor, parseHead]

def exHmN : Sign1Msg :=
  { h := { p := exHprotN, u := C01.exNest.h.u }, payload := some exHval, sig := none }

theorem exHN_sign : (Sign1.sign exHmN none C01.exS7).out = .ok () ∧
    (Sign1.sign exHmN none C01.exS7).state = { exHmN with sig := some [7] } := by
  have hg : ensureSigningAlgorithm none exHprotN (-7) none = .ok exHprotN := by rfl
  obtain ⟨t, ht⟩ : ∃ t, Sign1.toBeSigned
      { h := { p := exHprotN, u := C01.exNest.h.u }, payload := some exHval } none = .ok t :=
    ⟨_, C01.toBeSigned1_of
      (m := { h := { p := exHprotN, u := C01.exNest.h.u }, payload := some exHval })
      exHN_mpP exHN_det⟩
  simp [Sign1.sign, exHmN, blen, hg, ht, C01.exS7]

theorem exHN_signs :
    ∃ b, (signHashEnvelope C01.exS7 { p := C01.exNest.h.p, u := C01.exNest.h.u } exHp).1
      = .ok b := by
  have hvh : validateHash exHp.alg exHp.value = true := by
    simp [validateHash, exHp, hashSize, blen, exHval_len]
  have hr : validateHashEnvelopeHeaders exHprotN C01.exNest.h.u = true := by
    simp [validateHashEnvelopeHeaders, exHprotN, C01.exNest, hashProtLoop, hashUnprotOK,
      normalizeLabel, wrap64, lbl]
  have hmU : marshalUnprotected { p := exHprotN, u := C01.exNest.h.u } = .ok C01.exNestU :=
    C01.exNest_mpU
  have hiv : ensureIV exHprotN C01.exNest.h.u = true := by decide
  refine ⟨0xd2 :: 0x84 :: (exHPN ++ (C01.exNestU ++
    (optBytesEnc (some exHval) ++ encBstr [7]))), ?_⟩
  have hhelp : sign1Helper true { p := exHprotN, u := C01.exNest.h.u } (some exHval) none C01.exS7 =
      (Sign1.marshal true { exHmN with sig := some [7] },
        (Sign1.sign exHmN none C01.exS7).calls) := by
    have h1 : (Sign1.sign { h := { p := exHprotN, u := C01.exNest.h.u }, payload := some exHval }
        none C01.exS7).out = .ok () := exHN_sign.1
    have h2 : (Sign1.sign { h := { p := exHprotN, u := C01.exNest.h.u }, payload := some exHval }
        none C01.exS7).state = { exHmN with sig := some [7] } := exHN_sign.2
    simp only [sign1Helper, h1, h2]
    rfl
  have hunf : signHashEnvelope C01.exS7 { p := C01.exNest.h.p, u := C01.exNest.h.u } exHp =
      sign1Helper true { p := exHprotN, u := C01.exNest.h.u } (some exHval) none C01.exS7 := by
    simp only [signHashEnvelope, hvh, exHN_prot, hr, Bool.not_true, Bool.false_eq_true,
      if_false]
    rfl
  rw [hunf, hhelp]
  simp [Sign1.marshal, Sign1.content, Hdrs.marshal, exHmN, exHN_mpP, hmU, hiv, blen, bind,
    Out.bind]

/-- non-vacuity of `henv_closed_nested`: a SHA-256 hash envelope over caller headers with a
    `crit` parameter, an array-of-map application parameter and CWT claims -/
example : ∃ b m3,
    (signHashEnvelope C01.exS7 { p := C01.exNest.h.p, u := C01.exNest.h.u } exHp).1 = .ok b ∧
    (verifyHashEnvelope C01.exV7 b).1 = .ok m3 ∧ m3.payload = some exHval := by
  obtain ⟨b, hb⟩ := exHN_signs
  obtain ⟨g1, g2, g3, g4⟩ := C01.exNest_model
  obtain ⟨m3, h1, h2⟩ := henv_closed_nested C01.exS7 C01.exV7
    { p := C01.exNest.h.p, u := C01.exNest.h.u } exHp b C01.exSV7 rfl g1 g2 g3 g4
    (by simp [C01.exNest, maxElems]) (by simp [C01.exNest, maxElems])
    (by simp [exHp, int64Range]) (by intro x hx; cases hx)
    (by simp [exHp, utf8Valid]) (by simp [C01.exS7, int64Range])
    (by intro t sg h; cases h; simp) (by intro hz; simp [exHp, hashSize] at hz) hb
  exact ⟨b, m3, hb, h1, h2⟩

end C12
