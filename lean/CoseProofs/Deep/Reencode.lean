/-
  Deep/Reencode — decode → encode → decode cycles.
  * C05: envelope of an accepted COSE_Signature, shape of accepted header buckets.
  * C09: re-encoding a decoded COSE_Sign1 / COSE_Signature copies both header buckets verbatim,
    changes at most the heads of payload / signature, reproduces a deterministically encoded
    input identically, and is a fixpoint after the first cycle (same decoded value).
-/
import CoseModel.Messages
import CoseProofs.Lemmas.Parse
import CoseProofs.Props.C05
import CoseProofs.Props.C09
open CoseModel

/-! ### helpers -/
namespace Reencode

theorem fits_lt {w : HW} {n : Nat} (h : w.fits n = true) : n < 18446744073709551616 := by
  cases w <;> simp only [HW.fits, decide_eq_true_eq] at h <;> omega

theorem shortest_fits {n : Nat} (h : n < 18446744073709551616) :
    (HW.shortest n).fits n = true := by
  unfold HW.shortest
  split
  · simpa [HW.fits]
  · split
    · simpa [HW.fits]
    · split
      · simpa [HW.fits]
      · split
        · simpa [HW.fits]
        · simpa [HW.fits]

/-- an array head whose first byte is `0x80 + k`, `k < 24`, is an immediate head of length `k` -/
theorem arrHead_first {hw : HW} {n : Nat} {c : UInt8} {r rest : Bytes} (hf : hw.fits n = true)
    (h : headBytes 4 hw n ++ rest = c :: r) (hc : 128 ≤ c.toNat ∧ c.toNat < 152) :
    hw = .imm ∧ n = c.toNat - 128 ∧ rest = r := by
  cases hw <;> simp only [HW.fits, decide_eq_true_eq] at hf <;>
    simp only [headBytes, List.cons_append, List.nil_append, List.cons.injEq] at h
  · obtain ⟨h1, h2⟩ := h
    have := congrArg UInt8.toNat h1
    simp only [UInt8.toNat_ofNat', Nat.reducePow] at this
    exact ⟨rfl, by omega, h2⟩
  all_goals
    have := congrArg UInt8.toNat h.1
    simp only [UInt8.toNat_ofNat', Nat.reducePow] at this
    omega

theorem null_bytes : (Wire.prim .imm 22).bytes = [0xf6] := by decide

/-- what `decByteString` accepts, with the item's bytes -/
theorem decByteString_ok {w : Wire} {o : Option Bytes} (h : decByteString w = .ok o) :
    (w = .prim .imm 22 ∧ o = none) ∨ ∃ hw b, w = .bstr hw b ∧ o = some b :=
  C05.payload_shape w o h

/-! #### prefix-freeness of well-formed encodings, without the parser's limits -/

def whw : Wire → HW
  | .uint w _ | .nint w _ | .bstr w _ | .tstr w _ | .arr w _ | .map w _ | .tag w _ _
  | .prim w _ => w

def warg : Wire → Nat
  | .uint _ n | .nint _ n | .prim _ n => n
  | .bstr _ b | .tstr _ b => b.length
  | .arr _ xs => xs.length
  | .map _ kvs => kvs.length
  | .tag _ t _ => t

def wbody : Wire → Bytes
  | .bstr _ b | .tstr _ b => b
  | .arr _ xs => Wire.bytesList xs
  | .map _ kvs => Wire.bytesPairs kvs
  | .tag _ _ x => x.bytes
  | _ => []

theorem bytes_decomp (x : Wire) : x.bytes = headBytes x.major (whw x) (warg x) ++ wbody x := by
  cases x <;> simp [Wire.bytes, Wire.major, whw, warg, wbody]

theorem major_lt (x : Wire) : x.major < 8 := by cases x <;> simp [Wire.major]

theorem wf_fits {x : Wire} (h : x.wf = true) : (whw x).fits (warg x) = true := by
  cases x with
  | prim w n => exact Wire.wf_prim h
  | uint w n => simpa [Wire.wf, whw, warg] using h
  | nint w n => simpa [Wire.wf, whw, warg] using h
  | bstr w b => simpa [Wire.wf, whw, warg] using h
  | tstr w b => simpa [Wire.wf, whw, warg] using h
  | arr w xs => simp only [Wire.wf, Bool.and_eq_true] at h; exact h.1
  | map w xs => simp only [Wire.wf, Bool.and_eq_true] at h; exact h.1
  | tag w t x => simp only [Wire.wf, Bool.and_eq_true] at h; exact h.1

theorem head_split {x y : Wire} {r r' : Bytes} (hx : x.wf = true) (hy : y.wf = true)
    (h : x.bytes ++ r = y.bytes ++ r') :
    x.major = y.major ∧ whw x = whw y ∧ warg x = warg y ∧ wbody x ++ r = wbody y ++ r' := by
  rw [bytes_decomp x, bytes_decomp y, List.append_assoc, List.append_assoc] at h
  have h1 := parseHead_headBytes x.major (warg x) (whw x) (wbody x ++ r) (major_lt x) (wf_fits hx)
  rw [h, parseHead_headBytes y.major (warg y) (whw y) (wbody y ++ r') (major_lt y) (wf_fits hy)] at h1
  simp only [Option.some.injEq, Prod.mk.injEq] at h1
  exact ⟨h1.1.symm, h1.2.1.symm, h1.2.2.1.symm, h1.2.2.2.symm⟩

mutual
/-- prefix-freeness of well-formed encodings, without the parser's limits -/
theorem bytes_append_inj : ∀ (x y : Wire) (r r' : Bytes), x.wf = true → y.wf = true →
    x.bytes ++ r = y.bytes ++ r' → x = y ∧ r = r'
  | .uint w n, y, r, r', hx, hy, h => by
    obtain ⟨hm, hw, ha, hb⟩ := head_split hx hy h
    cases y <;> simp only [Wire.major, reduceCtorEq] at hm <;> try omega
    simp only [whw, warg, wbody, List.nil_append] at hw ha hb
    subst hw ha hb; exact ⟨rfl, rfl⟩
  | .nint w n, y, r, r', hx, hy, h => by
    obtain ⟨hm, hw, ha, hb⟩ := head_split hx hy h
    cases y <;> simp only [Wire.major, reduceCtorEq] at hm <;> try omega
    simp only [whw, warg, wbody, List.nil_append] at hw ha hb
    subst hw ha hb; exact ⟨rfl, rfl⟩
  | .prim w n, y, r, r', hx, hy, h => by
    obtain ⟨hm, hw, ha, hb⟩ := head_split hx hy h
    cases y <;> simp only [Wire.major, reduceCtorEq] at hm <;> try omega
    simp only [whw, warg, wbody, List.nil_append] at hw ha hb
    subst hw ha hb; exact ⟨rfl, rfl⟩
  | .bstr w b, y, r, r', hx, hy, h => by
    obtain ⟨hm, hw, ha, hb⟩ := head_split hx hy h
    cases y <;> simp only [Wire.major, reduceCtorEq] at hm <;> try omega
    simp only [whw, warg, wbody] at hw ha hb
    obtain ⟨rfl, rfl⟩ := List.append_inj hb ha
    subst hw; exact ⟨rfl, rfl⟩
  | .tstr w b, y, r, r', hx, hy, h => by
    obtain ⟨hm, hw, ha, hb⟩ := head_split hx hy h
    cases y <;> simp only [Wire.major, reduceCtorEq] at hm <;> try omega
    simp only [whw, warg, wbody] at hw ha hb
    obtain ⟨rfl, rfl⟩ := List.append_inj hb ha
    subst hw; exact ⟨rfl, rfl⟩
  | .tag w t x, y, r, r', hx, hy, h => by
    obtain ⟨hm, hw, ha, hb⟩ := head_split hx hy h
    cases y <;> simp only [Wire.major, reduceCtorEq] at hm <;> try omega
    rename_i w' t' x'
    simp only [whw, warg, wbody] at hw ha hb
    simp only [Wire.wf, Bool.and_eq_true] at hx hy
    obtain ⟨rfl, rfl⟩ := bytes_append_inj x x' r r' hx.2 hy.2 hb
    subst hw ha; exact ⟨rfl, rfl⟩
  | .arr w xs, y, r, r', hx, hy, h => by
    obtain ⟨hm, hw, ha, hb⟩ := head_split hx hy h
    cases y <;> simp only [Wire.major, reduceCtorEq] at hm <;> try omega
    rename_i w' xs'
    simp only [whw, warg, wbody] at hw ha hb
    simp only [Wire.wf, Bool.and_eq_true] at hx hy
    obtain ⟨rfl, rfl⟩ := bytesList_append_inj xs xs' r r' hx.2 hy.2 ha hb
    subst hw; exact ⟨rfl, rfl⟩
  | .map w xs, y, r, r', hx, hy, h => by
    obtain ⟨hm, hw, ha, hb⟩ := head_split hx hy h
    cases y <;> simp only [Wire.major, reduceCtorEq] at hm <;> try omega
    rename_i w' xs'
    simp only [whw, warg, wbody] at hw ha hb
    simp only [Wire.wf, Bool.and_eq_true] at hx hy
    obtain ⟨rfl, rfl⟩ := bytesPairs_append_inj xs xs' r r' hx.2 hy.2 ha hb
    subst hw; exact ⟨rfl, rfl⟩
theorem bytesList_append_inj : ∀ (xs ys : List Wire) (r r' : Bytes), Wire.wfList xs = true →
    Wire.wfList ys = true → xs.length = ys.length →
    Wire.bytesList xs ++ r = Wire.bytesList ys ++ r' → xs = ys ∧ r = r'
  | [], [], r, r', _, _, _, h => by simpa [Wire.bytesList] using h
  | [], _ :: _, _, _, _, _, hl, _ => by simp at hl
  | _ :: _, [], _, _, _, _, hl, _ => by simp at hl
  | x :: xs, y :: ys, r, r', hx, hy, hl, h => by
    simp only [Wire.wfList, Bool.and_eq_true] at hx hy
    simp only [Wire.bytesList, List.append_assoc] at h
    obtain ⟨rfl, h'⟩ := bytes_append_inj x y _ _ hx.1 hy.1 h
    obtain ⟨rfl, rfl⟩ := bytesList_append_inj xs ys r r' hx.2 hy.2 (by simpa using hl) h'
    exact ⟨rfl, rfl⟩
theorem bytesPairs_append_inj : ∀ (xs ys : List (Wire × Wire)) (r r' : Bytes),
    Wire.wfPairs xs = true → Wire.wfPairs ys = true → xs.length = ys.length →
    Wire.bytesPairs xs ++ r = Wire.bytesPairs ys ++ r' → xs = ys ∧ r = r'
  | [], [], r, r', _, _, _, h => by simpa [Wire.bytesPairs] using h
  | [], _ :: _, _, _, _, _, hl, _ => by simp at hl
  | _ :: _, [], _, _, _, _, hl, _ => by simp at hl
  | (k, v) :: xs, (k', v') :: ys, r, r', hx, hy, hl, h => by
    simp only [Wire.wfPairs, Bool.and_eq_true] at hx hy
    simp only [Wire.bytesPairs, List.append_assoc] at h
    obtain ⟨rfl, h1⟩ := bytes_append_inj k k' _ _ hx.1.1 hy.1.1 h
    obtain ⟨rfl, h2⟩ := bytes_append_inj v v' _ _ hx.1.2 hy.1.2 h1
    obtain ⟨rfl, rfl⟩ := bytesPairs_append_inj xs ys r r' hx.2 hy.2 (by simpa using hl) h2
    exact ⟨rfl, rfl⟩
end

theorem bytes_inj {x y : Wire} (hx : x.wf = true) (hy : y.wf = true) (h : x.bytes = y.bytes) :
    x = y :=
  (bytes_append_inj x y [] [] hx hy (by simpa using h)).1

end Reencode

/-! ### C05 -/
namespace C05

/-- what `decSigFields` accepts -/
theorem decSigFields_ok {xs : List Wire} {v : GoVal} (h : decSigFields xs = .ok v) :
    ∃ (p u sg : Wire) (sig : Option Bytes) (pm um : GoMap),
      xs = [p, u, sg] ∧ decByteString sg = .ok sig ∧ blen sig ≠ 0 ∧
      decProtected p = .ok pm ∧ decUnprot u = .ok um ∧ ensureIV pm um = true ∧
      v = .csig (some p.bytes) pm (some u.bytes) um sig := by
  unfold decSigFields at h
  split at h
  · rename_i p u sg
    refine ⟨p, u, sg, ?_⟩
    cases hsg : decByteString sg with
    | ok sig =>
      simp only [hsg] at h
      by_cases hz : blen sig = 0
      · simp [hz] at h
      · simp only [hz, if_false] at h
        cases hp : decProtected p with
        | ok pm =>
          cases hu : decUnprot u with
          | ok um =>
            simp only [hp, hu] at h
            by_cases hiv : ensureIV pm um = true
            · simp only [hiv, Bool.not_true, Bool.false_eq_true, if_false] at h
              cases h
              exact ⟨sig, pm, um, rfl, rfl, hz, rfl, rfl, hiv, rfl⟩
            · simp [hiv] at h
          | err e => simp [hp, hu] at h
          | panic => simp [hp, hu] at h
          | unmodelled => simp [hp, hu] at h
        | err e => simp [hp] at h
        | panic => simp [hp] at h
        | unmodelled => simp [hp] at h
    | err e => simp [hsg] at h
    | panic => simp [hsg] at h
    | unmodelled => simp [hsg] at h
  · cases h

/-- `Signature.unmarshal` accepts exactly: first byte 0x83, the whole input is one item in
    tag-forbidding mode, that item is an array whose fields `decSigFields` accepts -/
theorem signature_unmarshal_ok {b : Bytes} {s : SigV} (h : Signature.unmarshal b = .ok s) :
    ∃ (r : Bytes) (hw : HW) (xs : List Wire) (v : GoVal),
      b = 0x83 :: r ∧ parseTop false b = some (.arr hw xs) ∧ decSigFields xs = .ok v ∧
      sigOfVal v = some s := by
  unfold Signature.unmarshal at h
  split at h
  · rename_i r
    split at h
    · rename_i hw xs hpt
      cases hf : decSigFields xs with
      | ok v =>
        simp only [hf] at h
        cases hs : sigOfVal v with
        | some s' =>
          simp only [hs] at h
          cases h
          exact ⟨r, hw, xs, v, rfl, hpt, hf, hs⟩
        | none => simp [hs] at h
      | err e => simp [hf] at h
      | panic => simp [hf] at h
      | unmodelled => simp [hf] at h
    · cases h
  · cases h

/-- the envelope of an accepted COSE_Signature / countersignature, with the parser facts
    (`parseTop`, limits) that the re-encoding theorems need -/
theorem signature_accept_envelope_full (b : Bytes) (s : SigV)
    (h : Signature.unmarshal b = .ok s) :
    ∃ (p u sg : Wire),
      parseTop false b = some (Wire.arr .imm [p, u, sg]) ∧
      b = (Wire.arr .imm [p, u, sg]).bytes ∧ (Wire.arr .imm [p, u, sg]).wf = true ∧
      (Wire.arr .imm [p, u, sg]).inLimits false 0 = true ∧
      (Wire.arr .imm [p, u, sg]).hasTag = false ∧
      decByteString sg = .ok s.sig ∧ blen s.sig ≠ 0 ∧
      decProtected p = .ok s.h.p ∧ decUnprot u = .ok s.h.u ∧ ensureIV s.h.p s.h.u = true ∧
      s.h.rawP = some p.bytes ∧ s.h.rawU = some u.bytes := by
  obtain ⟨r, hw, xs, v, hb, hpt, hf, hs⟩ := signature_unmarshal_ok h
  obtain ⟨p, u, sg, sig, pm, um, rfl, hsg, hz, hp, hu, hiv, rfl⟩ := decSigFields_ok hf
  simp only [sigOfVal, Option.some.injEq] at hs
  subst hs
  obtain ⟨hbytes, hwf, hlim⟩ := parseTop_sound hpt
  have hhw : hw = .imm := by
    have hwf' := hwf
    simp only [Wire.wf, Bool.and_eq_true] at hwf'
    have hb' : headBytes 4 hw [p, u, sg].length ++ Wire.bytesList [p, u, sg] = 0x83 :: r := by
      rw [← hb, hbytes]; simp [Wire.bytes]
    exact (Reencode.arrHead_first hwf'.1 hb' (by decide)).1
  subst hhw
  exact ⟨p, u, sg, hpt, hbytes, hwf, hlim, parseTop_noTag hpt, hsg, hz, hp, hu, hiv, rfl, rfl⟩

/-- 5. the envelope of an accepted COSE_Signature: exactly one definite-length 3-array with an
    immediate head (0x83), nothing after it, no tag inside, signature a non-empty byte string,
    protected bucket a byte string, unprotected bucket a map, raw bytes retained -/
theorem signature_accept_envelope (b : Bytes) (s : SigV) (h : Signature.unmarshal b = .ok s) :
    ∃ (p u sg : Wire), b = (Wire.arr .imm [p, u, sg]).bytes ∧
      (Wire.arr .imm [p, u, sg]).wf = true ∧ (Wire.arr .imm [p, u, sg]).hasTag = false ∧
      decByteString sg = .ok s.sig ∧ blen s.sig ≠ 0 ∧
      decProtected p = .ok s.h.p ∧ decUnprot u = .ok s.h.u ∧
      s.h.rawP = some p.bytes ∧ s.h.rawU = some u.bytes := by
  obtain ⟨p, u, sg, -, hb, hwf, -, hnt, hsg, hz, hp, hu, -, hrp, hru⟩ :=
    signature_accept_envelope_full b s h
  exact ⟨p, u, sg, hb, hwf, hnt, hsg, hz, hp, hu, hrp, hru⟩

/-- 6. an accepted protected bucket is a byte string that is empty or wraps exactly one map with
    nothing after it (`parseTop` demands the whole content be one item) -/
theorem protected_is_bstr_of_map (p : Wire) (m : GoMap) (h : decProtected p = .ok m) :
    ∃ hw enc, p = .bstr hw enc ∧
      (enc = [] ∨ ∃ hw' kvs, parseTop true enc = some (.map hw' kvs)) := by
  unfold decProtected at h
  split at h
  · rename_i hw enc
    refine ⟨hw, enc, rfl, ?_⟩
    unfold decProtectedContent at h
    split at h
    · left; rfl
    · right
      split at h
      · cases h
      · split at h
        · rename_i hw' kvs hpt
          exact ⟨hw', kvs, hpt⟩
        · cases h
  · cases h

/-- 6'. … and (soundness of the parser) the content bytes are exactly the bytes of that map -/
theorem protected_content_is_map_bytes (p : Wire) (m : GoMap) (h : decProtected p = .ok m) :
    ∃ hw enc, p = .bstr hw enc ∧
      (enc = [] ∨ ∃ hw' kvs, enc = (Wire.map hw' kvs).bytes ∧ (Wire.map hw' kvs).wf = true) := by
  obtain ⟨hw, enc, rfl, h'⟩ := protected_is_bstr_of_map p m h
  refine ⟨hw, enc, rfl, ?_⟩
  rcases h' with h' | ⟨hw', kvs, hpt⟩
  · left; exact h'
  · right
    have := parseTop_sound hpt
    exact ⟨hw', kvs, this.1, this.2.1⟩

/-- 7. an accepted unprotected bucket is a map -/
theorem unprotected_is_map (u : Wire) (m : GoMap) (h : decUnprot u = .ok m) :
    ∃ hw kvs, u = .map hw kvs := by
  unfold decUnprot at h
  split at h
  · exact ⟨_, _, rfl⟩
  · cases h

end C05

/-! ### C09 -/
namespace C09

/-- the tag-18 prefix of the tagged form -/
def pre (tagged : Bool) : Bytes := if tagged then [0xd2] else []

theorem decHeaders_ok {p u : Wire} {h : Hdrs} (hd : decHeaders p u = .ok h) :
    decProtected p = .ok h.p ∧ decUnprot u = .ok h.u ∧ ensureIV h.p h.u = true ∧
    h.rawP = some p.bytes ∧ h.rawU = some u.bytes := by
  unfold decHeaders at hd
  cases hp : decProtected p with
  | ok pm =>
    cases hu : decUnprot u with
    | ok um =>
      simp only [hp, hu, bind, Out.bind] at hd
      by_cases hiv : ensureIV pm um = true
      · simp only [hiv, Bool.not_true, Bool.false_eq_true, if_false] at hd
        cases hd
        exact ⟨rfl, rfl, hiv, rfl, rfl⟩
      · simp [hiv] at hd
    | err e => simp [hp, hu, bind, Out.bind] at hd
    | panic => simp [hp, hu, bind, Out.bind] at hd
    | unmodelled => simp [hp, hu, bind, Out.bind] at hd
  | err e => simp [hp, bind, Out.bind] at hd
  | panic => simp [hp, bind, Out.bind] at hd
  | unmodelled => simp [hp, bind, Out.bind] at hd

theorem decHeaders_of {p u : Wire} {pm um : GoMap} (hp : decProtected p = .ok pm)
    (hu : decUnprot u = .ok um) (hiv : ensureIV pm um = true) :
    decHeaders p u = .ok { rawP := some p.bytes, p := pm, rawU := some u.bytes, u := um } := by
  simp [decHeaders, hp, hu, hiv, bind, Out.bind]

/-- headers that retain the bytes of two wire items marshal to exactly those bytes -/
theorem hdrs_marshal_verbatim {h : Hdrs} {p u : Wire} (hrp : h.rawP = some p.bytes)
    (hru : h.rawU = some u.bytes) (hiv : ensureIV h.p h.u = true)
    (hm : GoVal.modelledPairs h.p = true ∧ GoVal.modelledPairs h.u = true) :
    h.marshal = .ok (p.bytes, u.bytes) := by
  obtain ⟨x, xs, hx⟩ := bytes_cons p
  obtain ⟨y, ys, hy⟩ := bytes_cons u
  simp [Hdrs.marshal, marshalProtected, marshalUnprotected, hiv, hm.1, hm.2, hrp, hru, hx, hy,
    encodeBucket, bind, Out.bind]

/-- what `Sign1.decodeArr` accepts -/
theorem decodeArr_ok {arr : Bytes} {m : Sign1Msg} (hd : Sign1.decodeArr arr = .ok m) :
    ∃ (hw : HW) (p u pl sg : Wire),
      parseTop false arr = some (.arr hw [p, u, pl, sg]) ∧
      decByteString pl = .ok m.payload ∧ decByteString sg = .ok m.sig ∧ blen m.sig ≠ 0 ∧
      decHeaders p u = .ok m.h := by
  unfold Sign1.decodeArr at hd
  split at hd
  · rename_i hw p u pl sg hpt
    refine ⟨hw, p, u, pl, sg, hpt, ?_⟩
    cases hpl : decByteString pl with
    | ok payload =>
      cases hsg : decByteString sg with
      | ok sig =>
        simp only [hpl, hsg, bind, Out.bind] at hd
        by_cases hz : blen sig = 0
        · simp [hz] at hd
        · simp only [hz, if_false] at hd
          cases hh : decHeaders p u with
          | ok h =>
            simp only [hh] at hd
            cases hd
            exact ⟨rfl, rfl, hz, rfl⟩
          | err e => simp [hh] at hd
          | panic => simp [hh] at hd
          | unmodelled => simp [hh] at hd
      | err e => simp [hpl, hsg, bind, Out.bind] at hd
      | panic => simp [hpl, hsg, bind, Out.bind] at hd
      | unmodelled => simp [hpl, hsg, bind, Out.bind] at hd
    | err e => simp [hpl, bind, Out.bind] at hd
    | panic => simp [hpl, bind, Out.bind] at hd
    | unmodelled => simp [hpl, bind, Out.bind] at hd
  · cases hd

theorem decodeArr_of {arr : Bytes} {hw : HW} {p u pl sg : Wire} {pay sig : Option Bytes}
    {h : Hdrs} (hpt : parseTop false arr = some (.arr hw [p, u, pl, sg]))
    (hpl : decByteString pl = .ok pay) (hsg : decByteString sg = .ok sig) (hz : blen sig ≠ 0)
    (hh : decHeaders p u = .ok h) :
    Sign1.decodeArr arr = .ok { h := h, payload := pay, sig := sig } := by
  simp [Sign1.decodeArr, hpt, hpl, hsg, hz, hh, bind, Out.bind]

/-- `Sign1.unmarshal` = prefix check + `decodeArr` on the array -/
theorem unmarshal_ok {tagged : Bool} {b : Bytes} {m : Sign1Msg}
    (h : Sign1.unmarshal tagged b = .ok m) :
    ∃ r, b = pre tagged ++ 0x84 :: r ∧ Sign1.decodeArr (0x84 :: r) = .ok m := by
  unfold Sign1.unmarshal at h
  cases tagged with
  | true =>
    simp only [if_true] at h
    split at h
    · rename_i r; exact ⟨r, by simp [pre], h⟩
    · cases h
  | false =>
    simp only [Bool.false_eq_true, if_false] at h
    split at h
    · rename_i r; exact ⟨r, by simp [pre], h⟩
    · cases h

theorem unmarshal_of (tagged : Bool) (r : Bytes) :
    Sign1.unmarshal tagged (pre tagged ++ 0x84 :: r) = Sign1.decodeArr (0x84 :: r) := by
  cases tagged <;> simp [Sign1.unmarshal, pre]

/-- everything the decoder establishes about an accepted COSE_Sign1 -/
theorem sign1_envelope_full {tagged : Bool} {b : Bytes} {m : Sign1Msg}
    (h : Sign1.unmarshal tagged b = .ok m) :
    ∃ (p u pl sg : Wire),
      b = pre tagged ++ (Wire.arr .imm [p, u, pl, sg]).bytes ∧
      parseTop false (Wire.arr .imm [p, u, pl, sg]).bytes = some (Wire.arr .imm [p, u, pl, sg]) ∧
      (Wire.arr .imm [p, u, pl, sg]).wf = true ∧
      (Wire.arr .imm [p, u, pl, sg]).inLimits false 0 = true ∧
      decByteString pl = .ok m.payload ∧ decByteString sg = .ok m.sig ∧ blen m.sig ≠ 0 ∧
      decHeaders p u = .ok m.h := by
  obtain ⟨r, hb, hd⟩ := unmarshal_ok h
  obtain ⟨hw, p, u, pl, sg, hpt, hpl, hsg, hz, hh⟩ := decodeArr_ok hd
  obtain ⟨hbytes, hwf, hlim⟩ := parseTop_sound hpt
  have hhw : hw = .imm := by
    have hwf' := hwf
    simp only [Wire.wf, Bool.and_eq_true] at hwf'
    have hb' : headBytes 4 hw [p, u, pl, sg].length ++ Wire.bytesList [p, u, pl, sg]
        = 0x84 :: r := by
      rw [hbytes]; simp [Wire.bytes]
    exact (Reencode.arrHead_first hwf'.1 hb' (by decide)).1
  subst hhw
  rw [hbytes] at hpt hb
  exact ⟨p, u, pl, sg, hb, hpt, hwf, hlim, hpl, hsg, hz, hh⟩

/-- the item the encoder emits for a `byteString` field: `f6` for nil, else a byte string with
    the shortest head -/
def shortItem : Option Bytes → Wire
  | none => .prim .imm 22
  | some b => .bstr (HW.shortest b.length) b

theorem shortItem_bytes (o : Option Bytes) : (shortItem o).bytes = optBytesEnc o := by
  cases o with
  | none => exact Reencode.null_bytes
  | some b => rfl

theorem shortItem_dec (o : Option Bytes) : decByteString (shortItem o) = .ok o := by
  cases o <;> rfl

theorem shortItem_inLimits (o : Option Bytes) (d : Nat) : (shortItem o).inLimits false d = true := by
  cases o <;> simp [shortItem, Wire.inLimits]

/-- the shortest-head item is well-formed whenever the original item was -/
theorem shortItem_wf {w : Wire} {o : Option Bytes} (hwf : w.wf = true)
    (hd : decByteString w = .ok o) : (shortItem o).wf = true := by
  rcases Reencode.decByteString_ok hd with ⟨rfl, rfl⟩ | ⟨hw, c, rfl, rfl⟩
  · exact hwf
  · simp only [Wire.wf] at hwf
    simpa [shortItem, Wire.wf] using Reencode.shortest_fits (Reencode.fits_lt hwf)

theorem shortest_head_le {w : HW} {n : Nat} (m : Nat) (hf : w.fits n = true) :
    (headBytes m (HW.shortest n) n).length ≤ (headBytes m w n).length := by
  unfold HW.shortest
  cases w <;> simp only [HW.fits, decide_eq_true_eq] at hf <;>
    (repeat' split) <;> simp only [headBytes, List.length_cons, List.length_nil] <;> omega

/-- the encoder never lengthens a `byteString` item -/
theorem shortItem_length_le {w : Wire} {o : Option Bytes} (hwf : w.wf = true)
    (hd : decByteString w = .ok o) : (shortItem o).bytes.length ≤ w.bytes.length := by
  rcases Reencode.decByteString_ok hd with ⟨rfl, rfl⟩ | ⟨hw, c, rfl, rfl⟩
  · exact Nat.le_refl _
  · simp only [Wire.wf] at hwf
    have := shortest_head_le 2 hwf
    simp only [shortItem, Wire.bytes, List.length_append]
    omega

/-- a non-empty `byteString` field is `some s`, and the encoder emits it as `shortItem` -/
theorem sig_some {o : Option Bytes} (hz : blen o ≠ 0) :
    ∃ s, o = some s ∧ encBstr (o.getD []) = (shortItem o).bytes := by
  cases o with
  | none => simp [blen] at hz
  | some s => exact ⟨s, rfl, rfl⟩

/-- an item with a shortest head is what the encoder emits for its decoded value -/
theorem shortest_eq_shortItem {w : Wire} {o : Option Bytes}
    (hs : w = .prim .imm 22 ∨ ∃ c, w = .bstr (HW.shortest c.length) c)
    (hd : decByteString w = .ok o) : w = shortItem o := by
  rcases hs with rfl | ⟨c, rfl⟩
  · cases hd; rfl
  · cases hd; rfl

/-- bytes of an item accepted by `decByteString`, relative to the decoded value -/
theorem item_bytes {w : Wire} {o : Option Bytes} (hd : decByteString w = .ok o) :
    (o = none ∧ w.bytes = [0xf6]) ∨
    ∃ (hw : HW) (c : Bytes), o = some c ∧ w.bytes = headBytes 2 hw c.length ++ c := by
  rcases Reencode.decByteString_ok hd with ⟨rfl, rfl⟩ | ⟨hw, c, rfl, rfl⟩
  · exact .inl ⟨rfl, Reencode.null_bytes⟩
  · exact .inr ⟨hw, c, rfl, rfl⟩

/-- encoding a message whose headers were decoded from the items `p`, `u` -/
theorem marshal_of_decoded {tagged : Bool} {m : Sign1Msg} {p u : Wire}
    (hh : decHeaders p u = .ok m.h) (hz : blen m.sig ≠ 0)
    (hm : GoVal.modelledPairs m.h.p = true ∧ GoVal.modelledPairs m.h.u = true) :
    Sign1.marshal tagged m = .ok (pre tagged ++ (0x84 :: (p.bytes ++ (u.bytes ++
      (optBytesEnc m.payload ++ encBstr (m.sig.getD [])))))) := by
  obtain ⟨-, -, hiv, hrp, hru⟩ := decHeaders_ok hh
  have := hdrs_marshal_verbatim hrp hru hiv hm
  cases tagged <;> simp [Sign1.marshal, Sign1.content, hz, this, bind, Out.bind, pre]

/-- the encoder's output is the encoding of the tree `[p, u, shortItem payload, shortItem sig]` -/
theorem marshal_tree_bytes (p u : Wire) (pay sig : Option Bytes) (hz : blen sig ≠ 0) :
    (0x84 :: (p.bytes ++ (u.bytes ++ (optBytesEnc pay ++ encBstr (sig.getD []))))) =
    (Wire.arr .imm [p, u, shortItem pay, shortItem sig]).bytes := by
  obtain ⟨s, -, hs⟩ := sig_some hz
  rw [hs, ← shortItem_bytes]
  have h84 : headBytes 4 .imm 4 = [0x84] := by decide
  simp [Wire.bytes, Wire.bytesList, h84]

/-- core of 2: in terms of the tree the decoder saw -/
theorem marshal_identity_of_shortest {tagged : Bool} {m : Sign1Msg} {p u pl sg : Wire}
    (hpl : decByteString pl = .ok m.payload) (hsg : decByteString sg = .ok m.sig)
    (hz : blen m.sig ≠ 0) (hh : decHeaders p u = .ok m.h)
    (hm : GoVal.modelledPairs m.h.p = true ∧ GoVal.modelledPairs m.h.u = true)
    (hspl : pl = .prim .imm 22 ∨ ∃ c, pl = .bstr (HW.shortest c.length) c)
    (hssg : sg = .prim .imm 22 ∨ ∃ c, sg = .bstr (HW.shortest c.length) c) :
    Sign1.marshal tagged m = .ok (pre tagged ++ (Wire.arr .imm [p, u, pl, sg]).bytes) := by
  rw [marshal_of_decoded hh hz hm, marshal_tree_bytes p u m.payload m.sig hz,
    ← shortest_eq_shortItem hspl hpl, ← shortest_eq_shortItem hssg hsg]

/-- 1. decoding then encoding reproduces BOTH header buckets byte for byte (`p.bytes`,
    `u.bytes` are the input's own sub-slices); the array head is the immediate head 0x84 the
    decoder required; the output differs from the input at most in the heads of payload and
    signature -/
theorem reencode_sign1 (tagged : Bool) (b : Bytes) (m : Sign1Msg)
    (hd : Sign1.unmarshal tagged b = .ok m)
    (hm : GoVal.modelledPairs m.h.p = true ∧ GoVal.modelledPairs m.h.u = true) :
    ∃ (hw : HW) (p u pl sg : Wire),
      b = (if tagged then [0xd2] else []) ++ (Wire.arr hw [p, u, pl, sg]).bytes ∧
      Sign1.marshal tagged m = .ok ((if tagged then [0xd2] else []) ++
        (0x84 :: (p.bytes ++ (u.bytes ++ (optBytesEnc m.payload ++ encBstr (m.sig.getD [])))))) ∧
      hw = .imm ∧
      (Wire.arr hw [p, u, pl, sg]).wf = true ∧
      (Wire.arr hw [p, u, pl, sg]).inLimits false 0 = true ∧
      m.h.rawP = some p.bytes ∧ m.h.rawU = some u.bytes ∧
      ((m.payload = none ∧ pl.bytes = [0xf6]) ∨
        ∃ (w : HW) (c : Bytes), m.payload = some c ∧ pl.bytes = headBytes 2 w c.length ++ c) ∧
      (∃ (w' : HW) (s : Bytes), m.sig = some s ∧ s ≠ [] ∧
        sg.bytes = headBytes 2 w' s.length ++ s) ∧
      ((pl = .prim .imm 22 ∨ ∃ c, pl = .bstr (HW.shortest c.length) c) →
       (sg = .prim .imm 22 ∨ ∃ c, sg = .bstr (HW.shortest c.length) c) →
       Sign1.marshal tagged m = .ok b) := by
  obtain ⟨p, u, pl, sg, hb, -, hwf, hlim, hpl, hsg, hz, hh⟩ := sign1_envelope_full hd
  obtain ⟨-, -, -, hrp, hru⟩ := decHeaders_ok hh
  refine ⟨.imm, p, u, pl, sg, hb, marshal_of_decoded hh hz hm, rfl, hwf, hlim, hrp, hru,
    item_bytes hpl, ?_, ?_⟩
  · rcases item_bytes hsg with ⟨hn, -⟩ | ⟨w', s, hs, hbs⟩
    · simp [hn, blen] at hz
    · refine ⟨w', s, hs, ?_, hbs⟩
      rintro rfl
      simp [hs, blen] at hz
  · intro hspl hssg
    rw [hb]
    exact marshal_identity_of_shortest hpl hsg hz hh hm hspl hssg

/-- 2. a deterministically encoded input is reproduced identically: if the payload and signature
    items of the input carry shortest heads, encoding the decoded message gives back the input.
    Nothing is assumed about the header buckets — they are copied verbatim.  Well-formedness
    (`Wire.wf`: every head argument fits its width) identifies the tree as *the* parse of the
    input (`Reencode.bytes_inj`). -/
theorem reencode_det_identity (tagged : Bool) (b : Bytes) (m : Sign1Msg)
    (hd : Sign1.unmarshal tagged b = .ok m)
    (hm : GoVal.modelledPairs m.h.p = true ∧ GoVal.modelledPairs m.h.u = true)
    (hw : HW) (p u pl sg : Wire)
    (hb : b = (if tagged then [0xd2] else []) ++ (Wire.arr hw [p, u, pl, sg]).bytes)
    (hwf : (Wire.arr hw [p, u, pl, sg]).wf = true)
    (hspl : pl = .prim .imm 22 ∨ ∃ c, pl = .bstr (HW.shortest c.length) c)
    (hssg : sg = .prim .imm 22 ∨ ∃ c, sg = .bstr (HW.shortest c.length) c) :
    Sign1.marshal tagged m = .ok b := by
  obtain ⟨p0, u0, pl0, sg0, hb0, -, hwf0, hlim0, hpl, hsg, hz, hh⟩ := sign1_envelope_full hd
  have hbytes : (Wire.arr hw [p, u, pl, sg]).bytes = (Wire.arr .imm [p0, u0, pl0, sg0]).bytes :=
    List.append_cancel_left (hb.symm.trans hb0)
  have heq := Reencode.bytes_inj hwf hwf0 hbytes
  simp only [Wire.arr.injEq, List.cons.injEq, and_true] at heq
  obtain ⟨rfl, rfl, rfl, rfl, rfl⟩ := heq
  rw [hb]
  exact marshal_identity_of_shortest hpl hsg hz hh hm hspl hssg

/-- 2'. the same, the tree being given as the parser's result on the array part of the input -/
theorem reencode_det_identity_parsed (tagged : Bool) (b arr : Bytes) (m : Sign1Msg)
    (hd : Sign1.unmarshal tagged b = .ok m)
    (hm : GoVal.modelledPairs m.h.p = true ∧ GoVal.modelledPairs m.h.u = true)
    (hw : HW) (p u pl sg : Wire)
    (hb : b = (if tagged then [0xd2] else []) ++ arr)
    (hpt : parseTop false arr = some (Wire.arr hw [p, u, pl, sg]))
    (hspl : pl = .prim .imm 22 ∨ ∃ c, pl = .bstr (HW.shortest c.length) c)
    (hssg : sg = .prim .imm 22 ∨ ∃ c, sg = .bstr (HW.shortest c.length) c) :
    Sign1.marshal tagged m = .ok b := by
  obtain ⟨hbytes, hwf, hlim⟩ := parseTop_sound hpt
  exact reencode_det_identity tagged b m hd hm hw p u pl sg (by rw [hb, hbytes]) hwf hspl hssg

/-- core of 3: the re-encoded bytes decode to the same value -/
theorem unmarshal_marshal_tree {tagged : Bool} {m : Sign1Msg} {p u pl sg : Wire}
    (hwf : (Wire.arr .imm [p, u, pl, sg]).wf = true)
    (hlim : (Wire.arr .imm [p, u, pl, sg]).inLimits false 0 = true)
    (hpl : decByteString pl = .ok m.payload) (hsg : decByteString sg = .ok m.sig)
    (hz : blen m.sig ≠ 0) (hh : decHeaders p u = .ok m.h) :
    Sign1.unmarshal tagged
      (pre tagged ++ (Wire.arr .imm [p, u, shortItem m.payload, shortItem m.sig]).bytes) = .ok m := by
  have hwf' : (Wire.arr .imm [p, u, shortItem m.payload, shortItem m.sig]).wf = true := by
    simp only [Wire.wf, Wire.wfList, Bool.and_eq_true] at hwf ⊢
    exact ⟨hwf.1, hwf.2.1, hwf.2.2.1, shortItem_wf hwf.2.2.2.1 hpl, shortItem_wf hwf.2.2.2.2.1 hsg,
      trivial⟩
  have hlim' : (Wire.arr .imm [p, u, shortItem m.payload, shortItem m.sig]).inLimits false 0
      = true := by
    simp only [Wire.inLimits, Wire.inLimitsList, Bool.and_eq_true] at hlim ⊢
    exact ⟨hlim.1, hlim.2.1, hlim.2.2.1, shortItem_inLimits _ _, shortItem_inLimits _ _, trivial⟩
  have hpt := parseTop_complete hwf' hlim'
  have h84 : (Wire.arr .imm [p, u, shortItem m.payload, shortItem m.sig]).bytes
      = 0x84 :: (p.bytes ++ (u.bytes ++ (optBytesEnc m.payload ++ encBstr (m.sig.getD [])))) :=
    (marshal_tree_bytes p u m.payload m.sig hz).symm
  rw [h84] at hpt ⊢
  rw [unmarshal_of, decodeArr_of hpt (shortItem_dec _) (shortItem_dec _) hz hh]

/-- 3. any number of decode/encode cycles: after the first, nothing changes — the re-encoded
    bytes decode to the SAME value (headers, retained raw bytes, payload, signature), so
    signatures still verify, and encoding that value gives the same bytes again -/
theorem reencode_fixpoint (tagged : Bool) (b b1 : Bytes) (m : Sign1Msg)
    (hd : Sign1.unmarshal tagged b = .ok m)
    (hm : GoVal.modelledPairs m.h.p = true ∧ GoVal.modelledPairs m.h.u = true)
    (he : Sign1.marshal tagged m = .ok b1) :
    ∃ m1, Sign1.unmarshal tagged b1 = .ok m1 ∧ m1 = m ∧ Sign1.marshal tagged m1 = .ok b1 := by
  obtain ⟨p, u, pl, sg, -, -, hwf, hlim, hpl, hsg, hz, hh⟩ := sign1_envelope_full hd
  have h1 := marshal_of_decoded (tagged := tagged) hh hz hm
  rw [he, marshal_tree_bytes p u m.payload m.sig hz] at h1
  cases h1
  exact ⟨m, unmarshal_marshal_tree hwf hlim hpl hsg hz hh, rfl, he⟩

/-- 3'. the hypothesis that encoding succeeds is not needed: it always does -/
theorem reencode_roundtrip (tagged : Bool) (b : Bytes) (m : Sign1Msg)
    (hd : Sign1.unmarshal tagged b = .ok m)
    (hm : GoVal.modelledPairs m.h.p = true ∧ GoVal.modelledPairs m.h.u = true) :
    ∃ b1, Sign1.marshal tagged m = .ok b1 ∧ Sign1.unmarshal tagged b1 = .ok m ∧
      b1.length ≤ b.length := by
  obtain ⟨p, u, pl, sg, hb, -, hwf, hlim, hpl, hsg, hz, hh⟩ := sign1_envelope_full hd
  have h1 := marshal_of_decoded (tagged := tagged) hh hz hm
  rw [marshal_tree_bytes p u m.payload m.sig hz] at h1
  refine ⟨_, h1, unmarshal_marshal_tree hwf hlim hpl hsg hz hh, ?_⟩
  simp only [Wire.wf, Wire.wfList, Bool.and_eq_true] at hwf
  have l1 := shortItem_length_le hwf.2.2.2.1 hpl
  have l2 := shortItem_length_le hwf.2.2.2.2.1 hsg
  rw [hb]
  simp only [Wire.bytes, Wire.bytesList, headBytes, List.length_append, List.length_cons,
    List.length_nil]
  omega

/-- a successful encoding implies both buckets are in the modelled region (otherwise the model
    answers `unmodelled`), so `hm` is implied by `he` in `reencode_fixpoint` -/
theorem hdrs_modelled_of_marshal_ok {h : Hdrs} {x : Bytes × Bytes} (he : h.marshal = .ok x) :
    GoVal.modelledPairs h.p = true ∧ GoVal.modelledPairs h.u = true := by
  unfold Hdrs.marshal at he
  split at he
  · cases he
  · cases hp : marshalProtected h with
    | ok pb =>
      cases hu : marshalUnprotected h with
      | ok ub =>
        constructor
        · cases hmp : GoVal.modelledPairs h.p with
          | true => rfl
          | false => simp [marshalProtected, hmp] at hp
        · cases hmu : GoVal.modelledPairs h.u with
          | true => rfl
          | false => simp [marshalUnprotected, hmu] at hu
      | err e => simp [hp, hu, bind, Out.bind] at he
      | panic => simp [hp, hu, bind, Out.bind] at he
      | unmodelled => simp [hp, hu, bind, Out.bind] at he
    | err e => simp [hp, bind, Out.bind] at he
    | panic => simp [hp, bind, Out.bind] at he
    | unmodelled => simp [hp, bind, Out.bind] at he

theorem modelled_of_marshal_ok {tagged : Bool} {m : Sign1Msg} {b1 : Bytes}
    (he : Sign1.marshal tagged m = .ok b1) :
    GoVal.modelledPairs m.h.p = true ∧ GoVal.modelledPairs m.h.u = true := by
  unfold Sign1.marshal Sign1.content at he
  split at he
  · cases he
  · cases hh : m.h.marshal with
    | ok x => exact hdrs_modelled_of_marshal_ok hh
    | err e => simp [hh, bind, Out.bind] at he
    | panic => simp [hh, bind, Out.bind] at he
    | unmodelled => simp [hh, bind, Out.bind] at he

/-- one decode/encode cycle -/
def cycle (tagged : Bool) (b : Bytes) : Out Bytes :=
  Sign1.unmarshal tagged b >>= Sign1.marshal tagged

/-- 3''. the cycle is idempotent — no modelling hypothesis needed (a successful cycle implies
    it), hence by induction any number of cycles gives the bytes of the first -/
theorem cycle_idempotent (tagged : Bool) (b b1 : Bytes) (h : cycle tagged b = .ok b1) :
    cycle tagged b1 = .ok b1 := by
  unfold cycle at h
  cases hd : Sign1.unmarshal tagged b with
  | ok m =>
    simp only [hd, Out.bind_ok] at h
    obtain ⟨m1, h1, rfl, h2⟩ := reencode_fixpoint tagged b b1 m hd (modelled_of_marshal_ok h) h
    simp [cycle, h1, h2]
  | err e => simp [hd] at h
  | panic => simp [hd] at h
  | unmodelled => simp [hd] at h

/-- `n` decode/encode cycles in sequence -/
def cycles (tagged : Bool) : Nat → Bytes → Out Bytes
  | 0, b => .ok b
  | n + 1, b => cycle tagged b >>= cycles tagged n

/-- any number (≥ 1) of cycles returns the bytes of the first -/
theorem cycles_stable (tagged : Bool) (b b1 : Bytes) (h : cycle tagged b = .ok b1) :
    ∀ n : Nat, cycles tagged (n + 1) b = .ok b1 := by
  have key : ∀ n : Nat, cycles tagged n b1 = .ok b1 := by
    intro n
    induction n with
    | zero => rfl
    | succ k ih => simp only [cycles, cycle_idempotent tagged b b1 h, Out.bind_ok, ih]
  intro n
  simp only [cycles, h, Out.bind_ok, key n]

/-! #### COSE_Signature / countersignature (3-array, prefix 0x83) -/

theorem decSigFields_of {p u sg : Wire} {sig : Option Bytes} {pm um : GoMap}
    (hsg : decByteString sg = .ok sig) (hz : blen sig ≠ 0) (hp : decProtected p = .ok pm)
    (hu : decUnprot u = .ok um) (hiv : ensureIV pm um = true) :
    decSigFields [p, u, sg] = .ok (.csig (some p.bytes) pm (some u.bytes) um sig) := by
  simp [decSigFields, hsg, hz, hp, hu, hiv]

theorem signature_unmarshal_of {r : Bytes} {hw : HW} {xs : List Wire} {v : GoVal} {s : SigV}
    (hpt : parseTop false (0x83 :: r) = some (.arr hw xs)) (hf : decSigFields xs = .ok v)
    (hs : sigOfVal v = some s) : Signature.unmarshal (0x83 :: r) = .ok s := by
  simp [Signature.unmarshal, hpt, hf, hs]

theorem signature_marshal_of_decoded {s : SigV} {p u : Wire} (hrp : s.h.rawP = some p.bytes)
    (hru : s.h.rawU = some u.bytes) (hiv : ensureIV s.h.p s.h.u = true) (hz : blen s.sig ≠ 0)
    (hm : GoVal.modelledPairs s.h.p = true ∧ GoVal.modelledPairs s.h.u = true) :
    Signature.marshal s = .ok (0x83 :: (p.bytes ++ (u.bytes ++ encBstr (s.sig.getD [])))) := by
  have := hdrs_marshal_verbatim hrp hru hiv hm
  simp [Signature.marshal, hz, this, bind, Out.bind]

theorem signature_tree_bytes (p u : Wire) (sig : Option Bytes) (hz : blen sig ≠ 0) :
    (0x83 :: (p.bytes ++ (u.bytes ++ encBstr (sig.getD [])))) =
    (Wire.arr .imm [p, u, shortItem sig]).bytes := by
  obtain ⟨s, -, hs⟩ := sig_some hz
  rw [hs]
  have h83 : headBytes 4 .imm 3 = [0x83] := by decide
  simp [Wire.bytes, Wire.bytesList, h83]

/-- 4a. decoding then encoding a COSE_Signature reproduces both header buckets byte for byte
    and differs from the input at most in the head of the signature byte string -/
theorem reencode_signature (b : Bytes) (s : SigV) (hd : Signature.unmarshal b = .ok s)
    (hm : GoVal.modelledPairs s.h.p = true ∧ GoVal.modelledPairs s.h.u = true) :
    ∃ (p u sg : Wire),
      b = (Wire.arr .imm [p, u, sg]).bytes ∧
      Signature.marshal s = .ok (0x83 :: (p.bytes ++ (u.bytes ++ encBstr (s.sig.getD [])))) ∧
      (Wire.arr .imm [p, u, sg]).wf = true ∧
      (Wire.arr .imm [p, u, sg]).inLimits false 0 = true ∧
      s.h.rawP = some p.bytes ∧ s.h.rawU = some u.bytes ∧
      (∃ (w' : HW) (c : Bytes), s.sig = some c ∧ c ≠ [] ∧
        sg.bytes = headBytes 2 w' c.length ++ c) := by
  obtain ⟨p, u, sg, -, hb, hwf, hlim, -, hsg, hz, hp, hu, hiv, hrp, hru⟩ :=
    C05.signature_accept_envelope_full b s hd
  refine ⟨p, u, sg, hb, signature_marshal_of_decoded hrp hru hiv hz hm, hwf, hlim, hrp, hru, ?_⟩
  rcases item_bytes hsg with ⟨hn, -⟩ | ⟨w', c, hs, hbs⟩
  · simp [hn, blen] at hz
  · refine ⟨w', c, hs, ?_, hbs⟩
    rintro rfl
    simp [hs, blen] at hz

/-- 4b. a COSE_Signature whose signature byte string carries the shortest head is reproduced
    identically (the header buckets are copied verbatim whatever their encoding) -/
theorem reencode_signature_det_identity (b : Bytes) (s : SigV)
    (hd : Signature.unmarshal b = .ok s)
    (hm : GoVal.modelledPairs s.h.p = true ∧ GoVal.modelledPairs s.h.u = true)
    (hw : HW) (p u sg : Wire) (hb : b = (Wire.arr hw [p, u, sg]).bytes)
    (hwf : (Wire.arr hw [p, u, sg]).wf = true)
    (hssg : sg = .prim .imm 22 ∨ ∃ c, sg = .bstr (HW.shortest c.length) c) :
    Signature.marshal s = .ok b := by
  obtain ⟨p0, u0, sg0, -, hb0, hwf0, hlim0, -, hsg, hz, hp, hu, hiv, hrp, hru⟩ :=
    C05.signature_accept_envelope_full b s hd
  have heq := Reencode.bytes_inj hwf hwf0 (hb.symm.trans hb0)
  simp only [Wire.arr.injEq, List.cons.injEq, and_true] at heq
  obtain ⟨rfl, rfl, rfl, rfl⟩ := heq
  rw [signature_marshal_of_decoded hrp hru hiv hz hm, signature_tree_bytes p u s.sig hz,
    ← shortest_eq_shortItem hssg hsg, hb]

/-- 4b'. the same, the tree being given as the parser's result on the input -/
theorem reencode_signature_det_identity_parsed (b : Bytes) (s : SigV)
    (hd : Signature.unmarshal b = .ok s)
    (hm : GoVal.modelledPairs s.h.p = true ∧ GoVal.modelledPairs s.h.u = true)
    (hw : HW) (p u sg : Wire) (hpt : parseTop false b = some (Wire.arr hw [p, u, sg]))
    (hssg : sg = .prim .imm 22 ∨ ∃ c, sg = .bstr (HW.shortest c.length) c) :
    Signature.marshal s = .ok b := by
  obtain ⟨hbytes, hwf, hlim⟩ := parseTop_sound hpt
  exact reencode_signature_det_identity b s hd hm hw p u sg hbytes hwf hssg

/-- core of 4c: the re-encoded bytes decode to the same value -/
theorem signature_unmarshal_marshal_tree {s : SigV} {p u sg : Wire}
    (hwf : (Wire.arr .imm [p, u, sg]).wf = true)
    (hlim : (Wire.arr .imm [p, u, sg]).inLimits false 0 = true)
    (hsg : decByteString sg = .ok s.sig) (hz : blen s.sig ≠ 0)
    (hp : decProtected p = .ok s.h.p) (hu : decUnprot u = .ok s.h.u)
    (hiv : ensureIV s.h.p s.h.u = true)
    (hrp : s.h.rawP = some p.bytes) (hru : s.h.rawU = some u.bytes) :
    Signature.unmarshal (Wire.arr .imm [p, u, shortItem s.sig]).bytes = .ok s := by
  have hwf' : (Wire.arr .imm [p, u, shortItem s.sig]).wf = true := by
    simp only [Wire.wf, Wire.wfList, Bool.and_eq_true] at hwf ⊢
    exact ⟨hwf.1, hwf.2.1, hwf.2.2.1, shortItem_wf hwf.2.2.2.1 hsg, trivial⟩
  have hlim' : (Wire.arr .imm [p, u, shortItem s.sig]).inLimits false 0 = true := by
    simp only [Wire.inLimits, Wire.inLimitsList, Bool.and_eq_true] at hlim ⊢
    exact ⟨hlim.1, hlim.2.1, hlim.2.2.1, shortItem_inLimits _ _, trivial⟩
  have hpt := parseTop_complete hwf' hlim'
  rw [← signature_tree_bytes p u s.sig hz] at hpt ⊢
  refine signature_unmarshal_of hpt (decSigFields_of (shortItem_dec _) hz hp hu hiv) ?_
  obtain ⟨⟨rp, pm, ru, um⟩, sig⟩ := s
  simp only at hrp hru
  subst hrp hru
  rfl

/-- 4c. decode/encode cycles of a COSE_Signature are a fixpoint after the first: the re-encoded
    bytes decode to the SAME value and that value encodes to the same bytes -/
theorem reencode_signature_fixpoint (b b1 : Bytes) (s : SigV)
    (hd : Signature.unmarshal b = .ok s)
    (hm : GoVal.modelledPairs s.h.p = true ∧ GoVal.modelledPairs s.h.u = true)
    (he : Signature.marshal s = .ok b1) :
    ∃ s1, Signature.unmarshal b1 = .ok s1 ∧ s1 = s ∧ Signature.marshal s1 = .ok b1 := by
  obtain ⟨p, u, sg, -, -, hwf, hlim, -, hsg, hz, hp, hu, hiv, hrp, hru⟩ :=
    C05.signature_accept_envelope_full b s hd
  have h1 := signature_marshal_of_decoded hrp hru hiv hz hm
  rw [he, signature_tree_bytes p u s.sig hz] at h1
  cases h1
  exact ⟨s, signature_unmarshal_marshal_tree hwf hlim hsg hz hp hu hiv hrp hru, rfl, he⟩

/-- 4c'. encoding a decoded COSE_Signature always succeeds, round-trips, and never lengthens -/
theorem reencode_signature_roundtrip (b : Bytes) (s : SigV)
    (hd : Signature.unmarshal b = .ok s)
    (hm : GoVal.modelledPairs s.h.p = true ∧ GoVal.modelledPairs s.h.u = true) :
    ∃ b1, Signature.marshal s = .ok b1 ∧ Signature.unmarshal b1 = .ok s ∧
      b1.length ≤ b.length := by
  obtain ⟨p, u, sg, -, hb, hwf, hlim, -, hsg, hz, hp, hu, hiv, hrp, hru⟩ :=
    C05.signature_accept_envelope_full b s hd
  have h1 := signature_marshal_of_decoded hrp hru hiv hz hm
  rw [signature_tree_bytes p u s.sig hz] at h1
  refine ⟨_, h1, signature_unmarshal_marshal_tree hwf hlim hsg hz hp hu hiv hrp hru, ?_⟩
  simp only [Wire.wf, Wire.wfList, Bool.and_eq_true] at hwf
  have l2 := shortItem_length_le hwf.2.2.2.1 hsg
  rw [hb]
  simp only [Wire.bytes, Wire.bytesList, headBytes, List.length_append, List.length_cons,
    List.length_nil]
  omega

theorem signature_modelled_of_marshal_ok {s : SigV} {b1 : Bytes}
    (he : Signature.marshal s = .ok b1) :
    GoVal.modelledPairs s.h.p = true ∧ GoVal.modelledPairs s.h.u = true := by
  unfold Signature.marshal at he
  split at he
  · cases he
  · cases hh : s.h.marshal with
    | ok x => exact hdrs_modelled_of_marshal_ok hh
    | err e => simp [hh, bind, Out.bind] at he
    | panic => simp [hh, bind, Out.bind] at he
    | unmodelled => simp [hh, bind, Out.bind] at he

/-- one decode/encode cycle of a COSE_Signature -/
def sigCycle (b : Bytes) : Out Bytes := Signature.unmarshal b >>= Signature.marshal

/-- 4c''. the COSE_Signature cycle is idempotent (no modelling hypothesis needed) -/
theorem sigCycle_idempotent (b b1 : Bytes) (h : sigCycle b = .ok b1) : sigCycle b1 = .ok b1 := by
  unfold sigCycle at h
  cases hd : Signature.unmarshal b with
  | ok s =>
    simp only [hd, Out.bind_ok] at h
    obtain ⟨s1, h1, rfl, h2⟩ :=
      reencode_signature_fixpoint b b1 s hd (signature_modelled_of_marshal_ok h) h
    simp [sigCycle, h1, h2]
  | err e => simp [hd] at h
  | panic => simp [hd] at h
  | unmodelled => simp [hd] at h

end C09
