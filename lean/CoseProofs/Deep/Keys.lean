/-
  CoseProofs.Deep.Keys — COSE_Key conversion at the level of the parameter map (C14), the
  consistency of accepted keys and the verifier gate (C15), and the hash-envelope header
  rules (C12).  Core Lean only.
-/
import CoseProofs.Lemmas.Ecdsa
import CoseProofs.Props.C12
import CoseProofs.Props.C14
import CoseProofs.Props.C15
open CoseModel

/-! ## C14 — COSE_Key conversion on the parameter map -/

namespace C14

/-! ### `GoMap.set` / `GoMap.lookup` -/

theorem keyEq_lbl_iff (a : GoVal) (n : Int) : a.keyEq (lbl n) = true ↔ a = lbl n := by
  cases a <;> simp [lbl, GoVal.keyEq]

theorem keyEq_lbl_lbl (n m : Int) : (lbl n).keyEq (lbl m) = decide (n = m) := by
  simp [lbl, GoVal.keyEq]

theorem lookup_nil (k : GoVal) : GoMap.lookup [] k = none := rfl

theorem lookup_cons (a b : GoVal) (t : GoMap) (k : GoVal) :
    GoMap.lookup ((a, b) :: t) k = if a.keyEq k = true then some b else GoMap.lookup t k := by
  unfold GoMap.lookup
  rw [List.find?_cons]
  by_cases h : a.keyEq k = true
  · simp [h]
  · simp [h]

theorem lookup_append_of_none (h t : GoMap) (k : GoVal) (hn : h.lookup k = none) :
    GoMap.lookup (h ++ t) k = GoMap.lookup t k := by
  induction h with
  | nil => rfl
  | cons e r ih =>
    obtain ⟨a, b⟩ := e
    rw [lookup_cons] at hn
    rw [List.cons_append, lookup_cons]
    by_cases hk : a.keyEq k = true
    · rw [if_pos hk] at hn; cases hn
    · rw [if_neg hk] at hn ⊢
      exact ih hn

theorem lookup_append_of_some (h t : GoMap) (k v : GoVal) (hs : h.lookup k = some v) :
    GoMap.lookup (h ++ t) k = some v := by
  induction h with
  | nil => cases hs
  | cons e r ih =>
    obtain ⟨a, b⟩ := e
    rw [lookup_cons] at hs
    rw [List.cons_append, lookup_cons]
    by_cases hk : a.keyEq k = true
    · rw [if_pos hk] at hs ⊢; exact hs
    · rw [if_neg hk] at hs ⊢
      exact ih hs

/-- overwrite in place: looking the written key up -/
theorem lookup_map_same (h : GoMap) (k v : GoVal) (hh : h.lookup k ≠ none) :
    GoMap.lookup (h.map (fun e => if e.1.keyEq k then (e.1, v) else e)) k = some v := by
  induction h with
  | nil => exact absurd rfl hh
  | cons e r ih =>
    obtain ⟨a, b⟩ := e
    rw [lookup_cons] at hh
    rw [List.map_cons]
    by_cases hk : a.keyEq k = true
    · simp only [hk, if_true]
      rw [lookup_cons, if_pos hk]
    · rw [if_neg hk] at hh
      simp only [hk, Bool.false_eq_true, if_false]
      rw [lookup_cons, if_neg hk]
      exact ih hh

/-- overwrite in place: looking another key up -/
theorem lookup_map_other (h : GoMap) (k k' v : GoVal)
    (hd : ∀ a : GoVal, a.keyEq k = true → a.keyEq k' = false) :
    GoMap.lookup (h.map (fun e => if e.1.keyEq k then (e.1, v) else e)) k' = GoMap.lookup h k' := by
  induction h with
  | nil => rfl
  | cons e r ih =>
    obtain ⟨a, b⟩ := e
    rw [List.map_cons]
    by_cases hk : a.keyEq k = true
    · have hk' := hd a hk
      simp only [hk, if_true]
      rw [lookup_cons, lookup_cons, hk', ih]
      simp
    · simp only [hk, Bool.false_eq_true, if_false]
      rw [lookup_cons, lookup_cons, ih]

/-- `m[k] = v; m[k]` is `v` (for a key comparable with itself) -/
theorem lookup_set_same (h : GoMap) (k v : GoVal) (hr : k.keyEq k = true) :
    (h.set k v).lookup k = some v := by
  unfold GoMap.set GoMap.has
  cases hl : h.lookup k with
  | none =>
    simp only [Option.isSome_none, Bool.false_eq_true, if_false]
    rw [lookup_append_of_none h _ k hl, lookup_cons, if_pos hr]
  | some w =>
    simp only [Option.isSome_some, if_true]
    exact lookup_map_same h k v (by rw [hl]; simp)

/-- `m[k] = v` leaves every other key alone -/
theorem lookup_set_other (h : GoMap) (k k' v : GoVal) (hkk : k.keyEq k' = false)
    (hd : ∀ a : GoVal, a.keyEq k = true → a.keyEq k' = false) :
    (h.set k v).lookup k' = h.lookup k' := by
  unfold GoMap.set GoMap.has
  cases hl : h.lookup k with
  | none =>
    simp only [Option.isSome_none, Bool.false_eq_true, if_false]
    cases hl' : h.lookup k' with
    | none => rw [lookup_append_of_none h _ k' hl', lookup_cons, hkk]; rfl
    | some w => exact lookup_append_of_some h _ k' w hl'
  | some w =>
    simp only [Option.isSome_some, if_true]
    exact lookup_map_other h k k' v hd

theorem lookup_set_lbl_same (h : GoMap) (n : Int) (v : GoVal) :
    (h.set (lbl n) v).lookup (lbl n) = some v :=
  lookup_set_same h (lbl n) v (by simp [keyEq_lbl_lbl])

theorem lookup_set_lbl_other (h : GoMap) (n m : Int) (v : GoVal) (hne : n ≠ m) :
    (h.set (lbl n) v).lookup (lbl m) = h.lookup (lbl m) := by
  apply lookup_set_other
  · simp [keyEq_lbl_lbl, hne]
  · intro a ha
    rw [(keyEq_lbl_iff a n).mp ha]
    simp [keyEq_lbl_lbl, hne]

end C14

/-! ## C15 — gates and accepted keys -/

namespace C15

/-- what `validate` leaves of the algorithm when it accepts -/
theorem validate_alg (k : Key) (op : KOp) (h : k.validate op = none) (hz : k.alg ≠ 0) :
    k.deriveAlgorithm = some k.alg := by
  unfold Key.validate at h
  simp only [] at h
  split at h
  · cases h
  · simp only [hz, ne_eq, not_false_eq_true, if_true] at h
    split at h
    · cases h
    · rename_i a ha
      by_cases he : k.alg = a
      · rw [ha, he]
      · simp [he] at h

/-- (repair e8483d3) `validate` accepts an EC2 key only if x and d, when present, are byte strings
    and y, when present, a byte string or a boolean -/
theorem validate_ec2_typecheck (k : Key) (op : KOp) (h : k.validate op = none) (h2 : k.kty = 2) :
    (!k.paramIsBstr (-2) false || !k.paramIsBstr (-3) true || !k.paramIsBstr (-4) false)
      = false := by
  cases ht : (!k.paramIsBstr (-2) false || !k.paramIsBstr (-3) true || !k.paramIsBstr (-4) false)
  · rfl
  · unfold Key.validate at h
    simp [h2, ht] at h

/-- … and an OKP key only if x and d, when present, are byte strings -/
theorem validate_okp_typecheck (k : Key) (op : KOp) (h : k.validate op = none) (h1 : k.kty = 1) :
    (!k.paramIsBstr (-2) false || !k.paramIsBstr (-4) false) = false := by
  cases ht : (!k.paramIsBstr (-2) false || !k.paramIsBstr (-4) false)
  · rfl
  · unfold Key.validate at h
    simp [h1, ht] at h

/-- a parameter `ParamBytes` reads a non-empty string from is a byte string -/
theorem paramIsBstr_of_pbytes_pos (k : Key) (l : Int) (b : Bool) (h : 0 < (k.pbytes l).length) :
    k.paramIsBstr l b = true := by
  unfold Key.pbytes paramBytes at h
  unfold Key.paramIsBstr
  cases hl : k.params.lookup (lbl l) with
  | none => rfl
  | some v => cases v <;> simp_all [Lk.getD]

/-- an absent parameter passes the type test -/
theorem paramIsBstr_of_absent (k : Key) (l : Int) (b : Bool)
    (h : k.params.lookup (lbl l) = none) : k.paramIsBstr l b = true := by
  simp [Key.paramIsBstr, h]

/-- a byte-string parameter passes the type test -/
theorem paramIsBstr_of_bytes (k : Key) (l : Int) (b : Bool) (x : Bytes)
    (h : k.params.lookup (lbl l) = some (.bytes x)) : k.paramIsBstr l b = true := by
  simp [Key.paramIsBstr, h]

theorem verifier_gate (k : Key) (oc : Bool) (a : Int) (h : k.verifier oc = .ok a) :
    k.canOp 2 = true ∧ (k.kty = 2 ∨ k.kty = 1) ∧ k.deriveAlgorithm = some a ∧
    (k.alg = 0 ∨ k.alg = a) ∧
    (k.kty = 2 → (k.pbytes (-2)).length ≠ 0 ∧ (k.pbytes (-3)).length ≠ 0 ∧ oc = true) ∧
    (k.kty = 1 → (k.pbytes (-2)).length ≠ 0) := by
  unfold Key.verifier at h
  by_cases hc : k.canOp 2 = true
  · simp only [hc, Bool.not_true, Bool.false_eq_true, if_false] at h
    cases hp : k.publicKey with
    | some e => simp [hp] at h
    | none =>
      simp only [hp] at h
      unfold Key.publicKey at hp
      cases hv : k.validate .verify with
      | some e => simp [hv] at hp
      | none =>
        simp only [hv] at hp
        cases hd : k.deriveAlgorithm with
        | none => simp [hd] at hp
        | some d =>
          have hkty : k.kty = 2 ∨ k.kty = 1 := by
            unfold Key.deriveAlgorithm at hd
            by_cases h2 : k.kty = 2
            · exact Or.inl h2
            · by_cases h1 : k.kty = 1
              · exact Or.inr h1
              · simp [h2, h1] at hd
          have halg : k.alg = 0 ∨ k.alg = d := by
            by_cases hz : k.alg = 0
            · exact Or.inl hz
            · right
              have := validate_alg k .verify hv hz
              rw [hd] at this
              exact (Option.some.inj this).symm
          have haod : k.algorithmOrDefault = some d := by
            unfold Key.algorithmOrDefault
            rcases halg with hz | he
            · simp [hz, hd]
            · by_cases hz : k.alg = 0
              · simp [hz, hd]
              · rw [if_pos hz, he]
          simp only [haod] at h
          have ha : a = d := by
            by_cases h8 : d = -8
            · simp [h8] at h; rw [h8]; exact h.symm
            · simp only [h8, if_false] at h
              cases oc
              · simp at h
              · simp at h; exact h.symm
          subst ha
          refine ⟨hc, hkty, rfl, halg, ?_, ?_⟩
          · intro h2
            have hne8 : a ≠ -8 := by
              unfold Key.deriveAlgorithm at hd
              simp only [h2, if_true] at hd
              intro h8
              subst h8
              split at hd
              · cases hd
              · split at hd
                · cases hd
                · split at hd <;> cases hd
            have hxy : (k.pbytes (-2)).length ≠ 0 ∧ (k.pbytes (-3)).length ≠ 0 := by
              have ht := validate_ec2_typecheck k .verify hv h2
              constructor <;> intro hz <;> (unfold Key.validate at hv; simp [h2, hz, ht] at hv)
            refine ⟨hxy.1, hxy.2, ?_⟩
            simp only [hne8, if_false] at h
            cases oc
            · simp at h
            · rfl
          · intro h1 hz
            have ht := validate_okp_typecheck k .verify hv h1
            unfold Key.validate at hv
            have h12 : ¬ k.kty = 2 := by omega
            simp [h1, hz, ht] at hv
  · simp [hc] at h

/-- the three facts `Key.UnmarshalCBOR` establishes before returning a key -/
theorem ofMap_inv (tmp : GoMap) (k : Key) (h : Key.ofMap tmp = .ok k) :
    k.kty ≠ 0 ∧ k.validate .none = none ∧ ∃ rest, keyParams k.kty rest = some k.params := by
  unfold Key.ofMap at h
  split at h
  · rename_i kty hl
    by_cases hz : kty = 0
    · simp [hz] at h
    · simp only [hz, if_false] at h
      split at h <;> try (cases h)
      split at h
      · cases h
      · rename_i params hp
        split at h
        · cases h
        · rename_i hv
          cases h
          exact ⟨hz, hv, _, hp⟩
  · cases h

/-- what `validate(KeyOpReserved)` establishes for an EC2 key -/
theorem validate_ec2 (k : Key) (op : KOp) (h : k.validate op = none) (h2 : k.kty = 2) :
    k.crv ≠ 0 ∧ k.crv ≠ 4 ∧ k.crv ≠ 5 ∧ k.crv ≠ 6 ∧ k.crv ≠ 7 ∧
    (curveSize k.crv > 0 → (k.pbytes (-2)).length ≤ curveSize k.crv ∧
      (k.pbytes (-3)).length ≤ curveSize k.crv ∧ (k.pbytes (-4)).length ≤ curveSize k.crv) := by
  unfold Key.validate at h
  simp only [h2, if_true] at h
  split at h
  · cases h
  · rename_i hs
    clear h
    split at hs
    · cases hs
    split at hs
    · cases hs
    · split at hs
      · cases hs
      · split at hs
        · cases hs
        · split at hs
          · cases hs
          · split at hs
            · cases hs
            · rename_i _ _ h0 hsz hc
              refine ⟨fun e => h0 (Or.inl e), fun e => hc (Or.inl e), fun e => hc (Or.inr (Or.inl e)),
                fun e => hc (Or.inr (Or.inr (Or.inl e))), fun e => hc (Or.inr (Or.inr (Or.inr e))), ?_⟩
              intro hpos
              have hsz' := fun hh => hsz ⟨hpos, hh⟩
              refine ⟨?_, ?_, ?_⟩
              · exact Nat.le_of_not_gt (fun hh => hsz' (Or.inl hh))
              · exact Nat.le_of_not_gt (fun hh => hsz' (Or.inr (Or.inl hh)))
              · exact Nat.le_of_not_gt (fun hh => hsz' (Or.inr (Or.inr hh)))

/-- what `validate` establishes for an OKP key -/
theorem validate_okp (k : Key) (op : KOp) (h : k.validate op = none) (h1 : k.kty = 1) :
    k.crv ≠ 0 ∧ k.crv ≠ 1 ∧ k.crv ≠ 2 ∧ k.crv ≠ 3 ∧
    ((k.pbytes (-2)).length = 0 ∨ (k.pbytes (-2)).length = 32) ∧
    ((k.pbytes (-4)).length = 0 ∨ (k.pbytes (-4)).length = 32) := by
  unfold Key.validate at h
  simp only [h1, if_true] at h
  split at h
  · cases h
  · rename_i hs
    clear h
    rw [if_neg (by decide : ¬ (1 : Int) = 2)] at hs
    split at hs
    · cases hs
    split at hs
    · cases hs
    · split at hs
      · cases hs
      · split at hs
        · cases hs
        · split at hs
          · cases hs
          · split at hs
            · cases hs
            · rename_i _ _ h0 hsz hc
              refine ⟨fun e => h0 (Or.inl e), fun e => hc (Or.inl e), fun e => hc (Or.inr (Or.inl e)),
                fun e => hc (Or.inr (Or.inr e)), ?_, ?_⟩
              · omega
              · omega

/-! ### coordinate types (repair e8483d3) -/

/-- what the type test says about a present parameter -/
theorem paramIsBstr_inv (k : Key) (l : Int) (orBool : Bool) (h : k.paramIsBstr l orBool = true)
    (v : GoVal) (hl : k.params.lookup (lbl l) = some v) :
    (∃ b, v = .bytes b) ∨ v = .bytesNil ∨ (orBool = true ∧ ∃ s, v = .bool s) := by
  unfold Key.paramIsBstr at h
  rw [hl] at h
  cases v <;> simp at h
  case bytes b => exact Or.inl ⟨b, rfl⟩
  case bytesNil => exact Or.inr (Or.inl rfl)
  case bool s => exact Or.inr (Or.inr ⟨h, s, rfl⟩)

theorem pbytes_of_bytes (k : Key) (l : Int) (b : Bytes)
    (hl : k.params.lookup (lbl l) = some (.bytes b)) : k.pbytes l = b := by
  simp [Key.pbytes, paramBytes, hl, Lk.getD]

/-- a coordinate of the right type and size: a byte string no longer than `size` when `size > 0`,
    or a typed-nil `[]byte` (in-memory keys only: the decoder never yields one), or — for y only —
    a boolean -/
def CoordOK (size : Nat) (orBool : Bool) (v : GoVal) : Prop :=
  (∃ b, v = .bytes b ∧ (size > 0 → b.length ≤ size)) ∨ v = .bytesNil ∨
    (orBool = true ∧ ∃ s, v = .bool s)

/-- MAIN: an EC2 key `validate` accepts has EVERY PRESENT x, y, d of the right type — x and d byte
    strings, y a byte string or the sign bit — and within the curve's size.  (Before e8483d3 the
    size bound of `validate_ec2` spoke about `ParamBytes`, which reads a parameter of any other
    type as absent: a 100-character text string for d passed.) -/
theorem validate_ec2_coords (k : Key) (op : KOp) (h : k.validate op = none) (h2 : k.kty = 2) :
    (∀ v, k.params.lookup (lbl (-2)) = some v → CoordOK (curveSize k.crv) false v) ∧
    (∀ v, k.params.lookup (lbl (-3)) = some v → CoordOK (curveSize k.crv) true v) ∧
    (∀ v, k.params.lookup (lbl (-4)) = some v → CoordOK (curveSize k.crv) false v) := by
  have ht := validate_ec2_typecheck k op h h2
  simp only [Bool.or_eq_false_iff, Bool.not_eq_false'] at ht
  obtain ⟨_, _, _, _, _, hsz⟩ := validate_ec2 k op h h2
  have key : ∀ (l : Int) (ob : Bool), k.paramIsBstr l ob = true →
      (curveSize k.crv > 0 → (k.pbytes l).length ≤ curveSize k.crv) →
      ∀ v, k.params.lookup (lbl l) = some v → CoordOK (curveSize k.crv) ob v := by
    intro l ob hp hb v hl
    rcases paramIsBstr_inv k l ob hp v hl with ⟨b, rfl⟩ | hn | hbo
    · refine Or.inl ⟨b, rfl, fun hpos => ?_⟩
      have := hb hpos
      rwa [pbytes_of_bytes k l b hl] at this
    · exact Or.inr (Or.inl hn)
    · exact Or.inr (Or.inr hbo)
  exact ⟨key (-2) false ht.1.1 (fun hp => (hsz hp).1), key (-3) true ht.1.2 (fun hp => (hsz hp).2.1),
    key (-4) false ht.2 (fun hp => (hsz hp).2.2)⟩

/-- MAIN: an OKP key `validate` accepts has every present x and d a byte string of 32 bytes (or
    empty) -/
theorem validate_okp_coords (k : Key) (op : KOp) (h : k.validate op = none) (h1 : k.kty = 1) :
    (∀ v, k.params.lookup (lbl (-2)) = some v →
      (∃ b, v = .bytes b ∧ (b.length = 0 ∨ b.length = 32)) ∨ v = .bytesNil) ∧
    (∀ v, k.params.lookup (lbl (-4)) = some v →
      (∃ b, v = .bytes b ∧ (b.length = 0 ∨ b.length = 32)) ∨ v = .bytesNil) := by
  have ht := validate_okp_typecheck k op h h1
  simp only [Bool.or_eq_false_iff, Bool.not_eq_false'] at ht
  obtain ⟨_, _, _, _, hx, hd⟩ := validate_okp k op h h1
  have key : ∀ (l : Int), k.paramIsBstr l false = true →
      ((k.pbytes l).length = 0 ∨ (k.pbytes l).length = 32) →
      ∀ v, k.params.lookup (lbl l) = some v →
        (∃ b, v = .bytes b ∧ (b.length = 0 ∨ b.length = 32)) ∨ v = .bytesNil := by
    intro l hp hb v hl
    rcases paramIsBstr_inv k l false hp v hl with ⟨b, rfl⟩ | hn | ⟨hbo, _⟩
    · refine Or.inl ⟨b, rfl, ?_⟩
      rwa [pbytes_of_bytes k l b hl] at hb
    · exact Or.inr hn
    · cases hbo
  exact ⟨key (-2) ht.1 hx, key (-4) ht.2 hd⟩

/-- the flaw the repair closed, as a refusal: an EC2 key with a text string (any length) for d,
    or `null` for x, or an integer for y, is invalid for every operation -/
theorem validate_ec2_refuses_wrong_type (k : Key) (op : KOp) (h2 : k.kty = 2) (l : Int)
    (hl : l = -2 ∨ l = -3 ∨ l = -4) (v : GoVal) (hv : k.params.lookup (lbl l) = some v)
    (hnb : ∀ b, v ≠ .bytes b) (hnn : v ≠ .bytesNil) (hbool : l = -3 → ∀ s, v ≠ .bool s) :
    k.validate op = some .invalidKey := by
  have hp : k.paramIsBstr l (decide (l = -3)) = false := by
    unfold Key.paramIsBstr
    rw [hv]
    cases v <;> simp
    case bytes b => exact hnb b rfl
    case bytesNil => exact hnn rfl
    case bool s => intro h3; exact hbool h3 s rfl
  unfold Key.validate
  rcases hl with rfl | rfl | rfl <;> simp at hp <;> simp [h2, hp]

/-- the same for OKP keys: x or d of any type but byte string makes the key invalid -/
theorem validate_okp_refuses_wrong_type (k : Key) (op : KOp) (h1 : k.kty = 1) (l : Int)
    (hl : l = -2 ∨ l = -4) (v : GoVal) (hv : k.params.lookup (lbl l) = some v)
    (hnb : ∀ b, v ≠ .bytes b) (hnn : v ≠ .bytesNil) :
    k.validate op = some .invalidKey := by
  have hp : k.paramIsBstr l false = false := by
    unfold Key.paramIsBstr
    rw [hv]
    cases v <;> simp
    case bytes b => exact hnb b rfl
    case bytesNil => exact hnn rfl
  unfold Key.validate
  rcases hl with rfl | rfl <;> simp [h1, hp]

theorem key_accept_consistent (tmp : GoMap) (k : Key) (h : Key.ofMap tmp = .ok k) :
    k.kty ≠ 0 ∧ k.validate .none = none ∧
    (k.kty = 2 → k.crv ≠ 0 ∧ k.crv ≠ 4 ∧ k.crv ≠ 5 ∧ k.crv ≠ 6 ∧ k.crv ≠ 7 ∧
      (curveSize k.crv > 0 → (k.pbytes (-2)).length ≤ curveSize k.crv ∧
        (k.pbytes (-3)).length ≤ curveSize k.crv ∧ (k.pbytes (-4)).length ≤ curveSize k.crv)) ∧
    (k.kty = 1 → k.crv ≠ 0 ∧ k.crv ≠ 1 ∧ k.crv ≠ 2 ∧ k.crv ≠ 3 ∧
      ((k.pbytes (-2)).length = 0 ∨ (k.pbytes (-2)).length = 32) ∧
      ((k.pbytes (-4)).length = 0 ∨ (k.pbytes (-4)).length = 32)) ∧
    (k.alg ≠ 0 → k.deriveAlgorithm = some k.alg) := by
  obtain ⟨hz, hv, _⟩ := ofMap_inv tmp k h
  exact ⟨hz, hv, validate_ec2 k .none hv, validate_okp k .none hv, validate_alg k .none hv⟩

/-- the loop over the remaining entries only lets int64 and text labels through -/
theorem keyParams_labels (kty : Int) : ∀ (r p : GoMap), keyParams kty r = some p →
    ∀ e ∈ p, (∃ n, e.1 = .int .i64 n) ∨ (∃ s, e.1 = .str s)
  | [], p, h, e, he => by
    simp only [keyParams] at h
    cases h
    cases he
  | (k, v) :: r, p, h, e, he => by
    unfold keyParams at h
    split at h
    · cases h
    · rename_i rest hr
      have ih := keyParams_labels kty r rest hr
      split at h
      · rename_i l
        split at h
        · split at h
          · cases h
            rcases List.mem_cons.mp he with rfl | hm
            · exact Or.inl ⟨l, rfl⟩
            · exact ih e hm
          · cases h
        · cases h
          rcases List.mem_cons.mp he with rfl | hm
          · exact Or.inl ⟨l, rfl⟩
          · exact ih e hm
      · rename_i s
        cases h
        rcases List.mem_cons.mp he with rfl | hm
        · exact Or.inr ⟨s, rfl⟩
        · exact ih e hm
      · cases h

theorem accepted_labels (tmp : GoMap) (k : Key) (h : Key.ofMap tmp = .ok k) :
    ∀ e ∈ k.params, (∃ n, e.1 = .int .i64 n) ∨ (∃ s, e.1 = .str s) := by
  obtain ⟨_, _, rest, hp⟩ := ofMap_inv tmp k h
  exact keyParams_labels k.kty rest k.params hp

end C15

/-! ## C14 — the serialised EC2 / OKP parameters -/

namespace C14

/-! ### the serialised parameter map -/

/-- a normalised label is equal (Go `==`) only to itself -/
theorem keyEq_normal_iff {l nl : GoVal} (hn : normalizeLabel l = some nl) (a : GoVal) :
    a.keyEq nl = true ↔ a = nl := by
  cases l <;> (try (simp [normalizeLabel] at hn; done))
  · rw [normalizeLabel_int_eq_some hn]; cases a <;> simp [GoVal.keyEq]
  · simp [normalizeLabel] at hn; subst hn; cases a <;> simp [GoVal.keyEq]

theorem keyEq_normal_self {l nl : GoVal} (hn : normalizeLabel l = some nl) : nl.keyEq nl = true :=
  (keyEq_normal_iff hn nl).mpr rfl

theorem normalizeLabel_lbl_small (n : Int) (h1 : -9223372036854775808 ≤ n) (h2 : n ≤ 9223372036854775807) :
    normalizeLabel (lbl n) = some (lbl n) := by
  have : wrap64 n = n := by
    unfold wrap64
    simp only []
    split <;> omega
  simp [lbl, normalizeLabel, this]

/-- the parameter loop of `Key.MarshalCBOR` never overwrites a label it has already seen -/
theorem go_keeps : ∀ (r : GoMap) (seen : List GoVal) (acc m0 : GoMap) (l nl v : GoVal),
    Key.marshalMap.go r seen acc = some m0 → normalizeLabel l = some nl → nl ∈ seen →
    acc.lookup nl = some v → m0.lookup nl = some v
  | [], seen, acc, m0, l, nl, v, h, hn, hs, ha => by
    simp only [Key.marshalMap.go] at h
    cases h
    exact ha
  | (l', v') :: r, seen, acc, m0, l, nl, v, h, hn, hs, ha => by
    unfold Key.marshalMap.go at h
    split at h
    · cases h
    · rename_i nl' hn'
      split at h
      · cases h
      · rename_i hany
        have hne : nl.keyEq nl' = false := by
          cases hq : nl.keyEq nl' with
          | false => rfl
          | true =>
            exfalso
            apply hany
            exact List.any_eq_true.mpr ⟨nl, hs, hq⟩
        have hne' : nl'.keyEq nl = false := by
          cases hq : nl'.keyEq nl with
          | false => rfl
          | true =>
            rw [(keyEq_normal_iff hn nl').mp hq, keyEq_normal_self hn] at hne
            cases hne
        refine go_keeps r (nl' :: seen) (acc.set nl' v') m0 l nl v h hn (List.mem_cons_of_mem _ hs) ?_
        rw [lookup_set_other acc nl' nl v' hne', ha]
        intro a ha'
        rw [(keyEq_normal_iff hn' a).mp ha']
        exact hne'

/-- every parameter ends up in the serialised map under its normalised label -/
theorem go_lookup : ∀ (r : GoMap) (seen : List GoVal) (acc m0 : GoMap) (l nl v : GoVal),
    Key.marshalMap.go r seen acc = some m0 → (l, v) ∈ r → normalizeLabel l = some nl →
    m0.lookup nl = some v
  | [], _, _, _, _, _, _, _, hm, _ => by cases hm
  | (l', v') :: r, seen, acc, m0, l, nl, v, h, hm, hn => by
    unfold Key.marshalMap.go at h
    split at h
    · cases h
    · rename_i nl' hn'
      split at h
      · cases h
      · rcases List.mem_cons.mp hm with heq | hr
        · have hl : l = l' := (Prod.mk.inj heq).1
          have hv : v = v' := (Prod.mk.inj heq).2
          rw [← hl, hn] at hn'
          rw [← hv] at h
          cases hn'
          exact go_keeps r (nl :: seen) (acc.set nl v) m0 l nl v h hn (List.mem_cons_self ..)
            (lookup_set_same acc nl v (keyEq_normal_self hn))
        · exact go_lookup r (nl' :: seen) (acc.set nl' v') m0 l nl v h hr hn

/-- the parameter loop of `Key.MarshalCBOR` succeeds only if every parameter label is a label -/
theorem go_labels : ∀ (r : GoMap) (seen : List GoVal) (acc m0 : GoMap),
    Key.marshalMap.go r seen acc = some m0 → ∀ e ∈ r, normalizeLabel e.1 ≠ none
  | [], _, _, _, _, _, he => by cases he
  | (l', v') :: r, seen, acc, m0, h, e, he => by
    unfold Key.marshalMap.go at h
    split at h
    · cases h
    · rename_i nl' hn'
      split at h
      · cases h
      · rcases List.mem_cons.mp he with rfl | hr
        · rw [hn']; simp
        · exact go_labels r _ _ m0 h e hr

/-- (repair 0eeddbc) `Key.MarshalCBOR` refuses a parameter label of type `uint` / `uint64` above
    `math.MaxInt64` — it used to write it under the wrapped, negative label, so that
    `Params{uint64(2^64-2): x}` came out as the x coordinate (label -2) -/
theorem marshalMap_refuses_wide_label (k : Key) (kd : IntKind) (v : Int) (w : GoVal)
    (hk : kd = .u ∨ kd = .u64) (hv : v > maxInt64) (hm : (.int kd v, w) ∈ k.params) :
    k.marshalMap = none := by
  cases h : k.marshalMap with
  | none => rfl
  | some m =>
    exfalso
    unfold Key.marshalMap at h
    simp only [] at h
    split at h
    · cases h
    · rename_i m0 hgo
      have := go_labels _ _ _ _ hgo _ hm
      apply this
      rcases hk with rfl | rfl <;> simp [normalizeLabel, hv]

/-- every integer parameter label of a key that `Key.MarshalCBOR` serialises (the label being a
    value of its Go type) is at most `math.MaxInt64` -/
theorem marshalMap_labels_int64 (k : Key) (m : GoMap) (h : k.marshalMap = some m)
    (e : GoVal × GoVal) (he : e ∈ k.params) (kd : IntKind) (v : Int) (hl : e.1 = .int kd v)
    (hhi : v ≤ kd.hi) : v ≤ maxInt64 := by
  unfold Key.marshalMap at h
  simp only [] at h
  split at h
  · cases h
  · rename_i m0 hgo
    have hn := go_labels _ _ _ _ hgo e he
    rw [hl] at hn
    cases hw : kd.wide with
    | true =>
      rw [Ne, normalizeLabel_int_eq_none] at hn
      simp only [hw, true_and] at hn
      omega
    | false =>
      cases kd <;> simp at hw <;> simp only [IntKind.hi, maxInt64] at * <;> omega

/-- the EC2 coordinate padding at the end of `Key.MarshalCBOR` (key.go:569-578) -/
def padXY (k : Key) (m : GoMap) : GoMap :=
  let size := curveSize k.crv
  let x := k.pbytes (-2)
  let y := k.pbytes (-3)
  let m := if 0 < x.length ∧ x.length < size then m.set (lbl (-2)) (.bytes (leftPad size x)) else m
  if 0 < y.length ∧ y.length < size then m.set (lbl (-3)) (.bytes (leftPad size y)) else m

theorem marshalMap_ec2_inv (k : Key) (m : GoMap) (hm : k.marshalMap = some m) (h2 : k.kty = 2)
    (hs : curveSize k.crv > 0) :
    ∃ base m0, Key.marshalMap.go k.params [] base = some m0 ∧ m = padXY k m0 := by
  unfold Key.marshalMap at hm
  simp only [] at hm
  split at hm
  · cases hm
  · rename_i m0 hgo
    rw [if_pos h2, if_pos hs] at hm
    cases hm
    exact ⟨_, m0, hgo, rfl⟩

theorem lookup_ite_set_other (c : Prop) [Decidable c] (m : GoMap) (n n' : Int) (w : GoVal) (hne : n ≠ n') :
    (if c then m.set (lbl n) w else m).lookup (lbl n') = m.lookup (lbl n') := by
  split
  · exact lookup_set_lbl_other m n n' w hne
  · rfl

theorem lookup_pad (m : GoMap) (n : Int) (size : Nat) (b : Bytes)
    (hl : m.lookup (lbl n) = some (.bytes b)) :
    (if 0 < b.length ∧ b.length < size then m.set (lbl n) (.bytes (leftPad size b)) else m).lookup (lbl n)
      = some (.bytes (leftPad size b)) := by
  split
  · exact lookup_set_lbl_same m n _
  · rename_i hc
    rw [hl, leftPad, if_neg hc]


theorem lt_pow_of_natBytes_length_le (x size : Nat) (h : (natBytes x).length ≤ size) :
    x < 256 ^ size := (natBytes_length_le_iff x size).mp h

theorem crv_of_lookup (k : Key) (c : Int) (h : k.params.lookup (lbl (-1)) = some (.crv c)) :
    k.crv = c := by
  simp [Key.crv, paramInt, h, Lk.getD]

theorem pbytes_of_lookup (k : Key) (n : Int) (b : Bytes)
    (h : k.params.lookup (lbl n) = some (.bytes b)) : k.pbytes n = b := by
  simp [Key.pbytes, paramBytes, h, Lk.getD]

/-- the parameter list `NewKeyFromPublic` / `NewKeyFromPrivate` hand to `NewKeyEC2`: x and y as
    `ec2Coordinate` leaves them — `big.Int.Bytes()` (minimal length), except that a coordinate 0 is
    `size` zero octets rather than the empty string; d is `D.Bytes()` -/
def ecParams (crv : Int) (x y : Nat) (d : Option Nat) : GoMap :=
  let params : GoMap := [(lbl (-1), .crv crv), (lbl (-2), .bytes (ec2Coordinate x (curveSize crv))),
    (lbl (-3), .bytes (ec2Coordinate y (curveSize crv)))]
  match d with | some dv => params ++ [(lbl (-4), .bytes (natBytes dv))] | none => params

theorem keyFromEC_raw (bits x y : Nat) (d : Option Nat) (k : Key)
    (hk : keyFromEC bits x y d = .ok k) :
    (curveOfBits bits = 1 ∨ curveOfBits bits = 2 ∨ curveOfBits bits = 3) ∧
    k = { kty := 2,
          alg := (if curveOfBits bits = 1 then -7 else if curveOfBits bits = 2 then -35 else -36),
          params := ecParams (curveOfBits bits) x y d } ∧
    k.validate .none = none := by
  unfold keyFromEC at hk
  simp only [] at hk
  split at hk
  · cases hk
  · rename_i hc
    split at hk
    · cases hk
    · rename_i hv
      cases hk
      refine ⟨?_, rfl, hv⟩
      unfold curveOfBits at hc ⊢
      by_cases h1 : bits = 256
      · simp [h1]
      · by_cases h2 : bits = 384
        · simp [h2]
        · by_cases h3 : bits = 521
          · simp [h3]
          · simp [h1, h2, h3] at hc

theorem ecParams_lookups (c : Int) (x y : Nat) (d : Option Nat) :
    (ecParams c x y d).lookup (lbl (-1)) = some (.crv c) ∧
    (ecParams c x y d).lookup (lbl (-2)) = some (.bytes (ec2Coordinate x (curveSize c))) ∧
    (ecParams c x y d).lookup (lbl (-3)) = some (.bytes (ec2Coordinate y (curveSize c))) ∧
    (∀ dv, d = some dv → (ecParams c x y d).lookup (lbl (-4)) = some (.bytes (natBytes dv))) := by
  cases d <;> simp [ecParams, lookup_cons, keyEq_lbl_lbl, lookup_nil]

theorem ecParams_mem (c : Int) (x y : Nat) (d : Option Nat) :
    (lbl (-2), GoVal.bytes (ec2Coordinate x (curveSize c))) ∈ ecParams c x y d ∧
    (lbl (-3), GoVal.bytes (ec2Coordinate y (curveSize c))) ∈ ecParams c x y d ∧
    (∀ dv, d = some dv → (lbl (-4), GoVal.bytes (natBytes dv)) ∈ ecParams c x y d) := by
  cases d <;> simp [ecParams]

theorem curveSize_pos_of (c : Int) (hc : c = 1 ∨ c = 2 ∨ c = 3) : 0 < curveSize c := by
  rcases hc with h | h | h <;> rw [h] <;> decide

/-- what `NewKeyFromPublic` / `NewKeyFromPrivate` return for an EC key: the curve is one of the
    three, the parameters are `ecParams`, and both coordinates fit the field (`validate` refuses a
    stored coordinate longer than the field) -/
theorem keyFromEC_inv (bits x y : Nat) (d : Option Nat) (k : Key)
    (hk : keyFromEC bits x y d = .ok k) :
    (curveOfBits bits = 1 ∨ curveOfBits bits = 2 ∨ curveOfBits bits = 3) ∧
    k = { kty := 2,
          alg := (if curveOfBits bits = 1 then -7 else if curveOfBits bits = 2 then -35 else -36),
          params := ecParams (curveOfBits bits) x y d } ∧
    k.validate .none = none ∧
    x < 256 ^ curveSize (curveOfBits bits) ∧ y < 256 ^ curveSize (curveOfBits bits) := by
  obtain ⟨hc, hkeq, hv⟩ := keyFromEC_raw bits x y d k hk
  have hl := ecParams_lookups (curveOfBits bits) x y d
  have hpar : k.params = ecParams (curveOfBits bits) x y d := by rw [hkeq]
  have h2 : k.kty = 2 := by rw [hkeq]
  rw [← hpar] at hl
  have hcrv := crv_of_lookup k _ hl.1
  have hpx := pbytes_of_lookup k _ _ hl.2.1
  have hpy := pbytes_of_lookup k _ _ hl.2.2.1
  have hsz : curveSize k.crv > 0 := by
    rw [hcrv]
    exact curveSize_pos_of _ hc
  obtain ⟨_, _, _, _, _, hlen⟩ := C15.validate_ec2 k .none hv h2
  obtain ⟨hlx, hly, _⟩ := hlen hsz
  rw [hpx, hcrv] at hlx
  rw [hpy, hcrv] at hly
  exact ⟨hc, hkeq, hv, (ec2Coordinate_length_le_iff _ _).mp hlx, (ec2Coordinate_length_le_iff _ _).mp hly⟩

/-- the in-memory key of `NewKeyFromPublic` / `NewKeyFromPrivate`: x and y are `ec2Coordinate` of
    the coordinates — `X.Bytes()`, `Y.Bytes()`, except that 0 is `size` zero octets —, d is
    `D.Bytes()` -/
theorem keyFromEC_pbytes (bits x y : Nat) (d : Option Nat) (k : Key)
    (hk : keyFromEC bits x y d = .ok k) :
    k.crv = curveOfBits bits ∧
    k.pbytes (-2) = ec2Coordinate x (curveSize (curveOfBits bits)) ∧
    k.pbytes (-3) = ec2Coordinate y (curveSize (curveOfBits bits)) ∧
    (∀ dv, d = some dv → k.pbytes (-4) = natBytes dv) := by
  obtain ⟨_, hkeq, _⟩ := keyFromEC_raw bits x y d k hk
  have hl := ecParams_lookups (curveOfBits bits) x y d
  have hpar : k.params = ecParams (curveOfBits bits) x y d := by rw [hkeq]
  rw [← hpar] at hl
  exact ⟨crv_of_lookup k _ hl.1, pbytes_of_lookup k _ _ hl.2.1, pbytes_of_lookup k _ _ hl.2.2.1,
    fun dv hd => pbytes_of_lookup k _ _ (hl.2.2.2 dv hd)⟩

/-- the same, by cases: a non-zero coordinate is held as `big.Int.Bytes()` gives it (minimal
    length), a zero coordinate as `size` zero octets -/
theorem keyFromEC_pbytes_cases (bits x y : Nat) (d : Option Nat) (k : Key)
    (hk : keyFromEC bits x y d = .ok k) :
    (x ≠ 0 → k.pbytes (-2) = natBytes x) ∧
    (x = 0 → k.pbytes (-2) = List.replicate (curveSize (curveOfBits bits)) 0) ∧
    (y ≠ 0 → k.pbytes (-3) = natBytes y) ∧
    (y = 0 → k.pbytes (-3) = List.replicate (curveSize (curveOfBits bits)) 0) := by
  obtain ⟨_, hx, hy, _⟩ := keyFromEC_pbytes bits x y d k hk
  refine ⟨fun h => ?_, fun h => ?_, fun h => ?_, fun h => ?_⟩
  · rw [hx, ec2Coordinate_nonzero _ _ h]
  · rw [hx, h, ec2Coordinate_zero]
  · rw [hy, ec2Coordinate_nonzero _ _ h]
  · rw [hy, h, ec2Coordinate_zero]

/-- THE REPAIRED DEFECT: the key the constructor returns never holds an EMPTY x or y — for every
    coordinate value it accepts, 0 included (`big.Int.Bytes()` of 0 is the empty string, which
    `validate` / `PublicKey()` read as "x or y missing") — and neither is longer than the field -/
theorem keyFromEC_coord_nonempty (bits x y : Nat) (d : Option Nat) (k : Key)
    (hk : keyFromEC bits x y d = .ok k) :
    0 < (k.pbytes (-2)).length ∧ 0 < (k.pbytes (-3)).length ∧
    (k.pbytes (-2)).length ≤ curveSize (curveOfBits bits) ∧
    (k.pbytes (-3)).length ≤ curveSize (curveOfBits bits) := by
  obtain ⟨hc, _, _, hxlt, hylt⟩ := keyFromEC_inv bits x y d k hk
  obtain ⟨_, hx, hy, _⟩ := keyFromEC_pbytes bits x y d k hk
  have hs := curveSize_pos_of _ hc
  rw [hx, hy]
  exact ⟨ec2Coordinate_length_pos _ _ hs, ec2Coordinate_length_pos _ _ hs,
    (ec2Coordinate_length_le_iff _ _).mpr hxlt, (ec2Coordinate_length_le_iff _ _).mpr hylt⟩

/-- the coordinates of the in-memory key convert back (`SetBytes`) to the numbers put in -/
theorem keyFromEC_ecCoords (bits x y : Nat) (d : Option Nat) (k : Key)
    (hk : keyFromEC bits x y d = .ok k) :
    os2ip (k.pbytes (-2)) = x ∧ os2ip (k.pbytes (-3)) = y ∧
    (∀ dv, d = some dv → k.ecCoords = (x, y, dv)) := by
  obtain ⟨_, hx, hy, hd⟩ := keyFromEC_pbytes bits x y d k hk
  have ex : os2ip (k.pbytes (-2)) = x := by rw [hx, ec2Coordinate_roundtrip]
  have ey : os2ip (k.pbytes (-3)) = y := by rw [hy, ec2Coordinate_roundtrip]
  refine ⟨ex, ey, fun dv hdv => ?_⟩
  unfold Key.ecCoords
  rw [ex, ey, hd dv hdv, os2ip_natBytes]

/-- everything the serialised map of `NewKeyEC2(x, y, d)` holds for the coordinates; no
    hypothesis on x, y beyond the constructor having accepted them: `MarshalCBOR` left-pads the
    minimal form of a non-zero coordinate, and the zero coordinate is already at full width -/
theorem ec2_marshal_lookups (bits x y : Nat) (d : Option Nat) (k : Key) (m : GoMap)
    (hk : keyFromEC bits x y d = .ok k) (hm : k.marshalMap = some m) :
    ∃ size, size = curveSize (curveOfBits bits) ∧ size ≠ 0 ∧ x < 256 ^ size ∧ y < 256 ^ size ∧
      m.lookup (lbl (-2)) = some (.bytes (fillBytes size x)) ∧
      m.lookup (lbl (-3)) = some (.bytes (fillBytes size y)) ∧
      (∀ dv, d = some dv → m.lookup (lbl (-4)) = some (.bytes (natBytes dv))) := by
  obtain ⟨hc, hkeq, hv, hxlt, hylt⟩ := keyFromEC_inv bits x y d k hk
  obtain ⟨hcrv, hpx, hpy, _⟩ := keyFromEC_pbytes bits x y d k hk
  have hpar : k.params = ecParams (curveOfBits bits) x y d := by rw [hkeq]
  have h2 : k.kty = 2 := by rw [hkeq]
  have hsz : curveSize k.crv > 0 := by
    rw [hcrv]
    exact curveSize_pos_of _ hc
  obtain ⟨base, m0, hgo, hmeq⟩ := marshalMap_ec2_inv k m hm h2 hsz
  have hmem := ecParams_mem (curveOfBits bits) x y d
  rw [← hpar] at hmem
  have h0x := go_lookup _ _ _ _ _ _ _ hgo hmem.1 (normalizeLabel_lbl_small (-2) (by decide) (by decide))
  have h0y := go_lookup _ _ _ _ _ _ _ hgo hmem.2.1 (normalizeLabel_lbl_small (-3) (by decide) (by decide))
  rw [← hcrv] at hxlt hylt hpx hpy h0x h0y
  refine ⟨curveSize k.crv, by rw [hcrv], by omega, hxlt, hylt, ?_, ?_, ?_⟩
  · rw [hmeq, padXY]
    rw [lookup_ite_set_other _ _ (-3) (-2) _ (by decide), hpx, lookup_pad _ _ _ _ h0x,
      leftPad_ec2Coordinate _ _ hxlt]
  · rw [hmeq, padXY]
    rw [hpy, lookup_pad _ (-3) _ (ec2Coordinate y (curveSize k.crv)), leftPad_ec2Coordinate _ _ hylt]
    rw [lookup_ite_set_other _ _ (-2) (-3) _ (by decide)]
    exact h0y
  · intro dv hd
    have h0d := go_lookup _ _ _ _ _ _ _ hgo (hmem.2.2 dv hd)
      (normalizeLabel_lbl_small (-4) (by decide) (by decide))
    rw [hmeq, padXY, lookup_ite_set_other _ _ (-3) (-4) _ (by decide),
      lookup_ite_set_other _ _ (-2) (-4) _ (by decide)]
    exact h0d

/-- the serialised x and y always have exactly the curve's byte size — for every key the
    constructor accepts, the zero coordinate included -/
theorem ec2_marshal_fullwidth (bits x y : Nat) (d : Option Nat) (k : Key) (m : GoMap)
    (hk : keyFromEC bits x y d = .ok k) (hm : k.marshalMap = some m) :
    ∃ size, size = curveSize (curveOfBits bits) ∧ size ≠ 0 ∧
      m.lookup (lbl (-2)) = some (.bytes (fillBytes size x)) ∧
      m.lookup (lbl (-3)) = some (.bytes (fillBytes size y)) ∧
      (fillBytes size x).length = size ∧ (fillBytes size y).length = size := by
  obtain ⟨size, h1, h2, _, _, h3, h4, _⟩ := ec2_marshal_lookups bits x y d k m hk hm
  exact ⟨size, h1, h2, h3, h4, fillBytes_length _ _, fillBytes_length _ _⟩

/-- converting the serialised parameters back (`SetBytes`) yields the same numbers -/
theorem ecCoords_of_params (p : GoMap) (size x y dv : Nat)
    (hx : p.lookup (lbl (-2)) = some (.bytes (leftPad size (natBytes x))))
    (hy : p.lookup (lbl (-3)) = some (.bytes (leftPad size (natBytes y))))
    (hd : p.lookup (lbl (-4)) = some (.bytes (natBytes dv))) :
    ({ params := p } : Key).ecCoords = (x, y, dv) := by
  unfold Key.ecCoords
  rw [pbytes_of_lookup _ _ _ hx, pbytes_of_lookup _ _ _ hy, pbytes_of_lookup _ _ _ hd,
    os2ip_leftPad, os2ip_leftPad, os2ip_natBytes, os2ip_natBytes, os2ip_natBytes]

/-- the same for any key, whatever its other fields -/
theorem ec2_coords_roundtrip (k' : Key) (size x y dv : Nat)
    (hx : k'.params.lookup (lbl (-2)) = some (.bytes (leftPad size (natBytes x))))
    (hy : k'.params.lookup (lbl (-3)) = some (.bytes (leftPad size (natBytes y))))
    (hd : k'.params.lookup (lbl (-4)) = some (.bytes (natBytes dv))) :
    k'.ecCoords = (x, y, dv) := by
  unfold Key.ecCoords
  rw [pbytes_of_lookup _ _ _ hx, pbytes_of_lookup _ _ _ hy, pbytes_of_lookup _ _ _ hd,
    os2ip_leftPad, os2ip_leftPad, os2ip_natBytes, os2ip_natBytes, os2ip_natBytes]

/-- end to end: the coordinates read back from the serialised map of `NewKeyEC2(x, y, d)` are
    `x`, `y`, `d` -/
theorem ec2_marshal_coords (bits x y dv : Nat) (k : Key) (m : GoMap)
    (hk : keyFromEC bits x y (some dv) = .ok k) (hm : k.marshalMap = some m)
    (k' : Key) (hk' : k'.params = m) :
    k'.ecCoords = (x, y, dv) := by
  obtain ⟨size, _, _, hxlt, hylt, h3, h4, h5⟩ := ec2_marshal_lookups bits x y _ k m hk hm
  rw [← hk'] at h3 h4 h5
  unfold Key.ecCoords
  rw [pbytes_of_lookup _ _ _ h3, pbytes_of_lookup _ _ _ h4, pbytes_of_lookup _ _ _ (h5 dv rfl),
    os2ip_fillBytes _ _ hxlt, os2ip_fillBytes _ _ hylt, os2ip_natBytes]

theorem okp_params_roundtrip (xb : Bytes) (d : Option Bytes) (k : Key)
    (hk : keyFromEd xb d = .ok k) :
    k.pbytes (-2) = xb ∧ (∀ dv, d = some dv → k.pbytes (-4) = dv) ∧ k.deriveAlgorithm = some (-8) := by
  unfold keyFromEd at hk
  simp only [] at hk
  split at hk
  · cases hk
  · cases hk
    cases d <;>
      simp [Key.pbytes, paramBytes, Key.deriveAlgorithm, Key.crv, paramInt, lookup_cons, lookup_nil,
        keyEq_lbl_lbl, Lk.getD]


theorem keyFromEC_signer_alg (bits x y dv : Nat) (k : Key)
    (hk : keyFromEC bits x y (some dv) = .ok k) (a : Int) (hs : k.signer = .ok a) :
    a = (if curveOfBits bits = 1 then -7 else if curveOfBits bits = 2 then -35 else -36) ∧
    (∀ oc b, k.verifier oc = .ok b → b = a) := by
  obtain ⟨hc, hkeq, hv, _, _⟩ := keyFromEC_inv bits x y _ k hk
  have hl := ecParams_lookups (curveOfBits bits) x y (some dv)
  have hpar : k.params = ecParams (curveOfBits bits) x y (some dv) := by rw [hkeq]
  have h2 : k.kty = 2 := by rw [hkeq]
  rw [← hpar] at hl
  have hcrv := crv_of_lookup k _ hl.1
  obtain ⟨_, _, _, hda, _⟩ := C15.signer_gate k a hs
  constructor
  · unfold Key.deriveAlgorithm at hda
    rw [if_pos h2, hcrv] at hda
    rcases hc with h | h | h <;> rw [h] at hda ⊢ <;> simp at hda ⊢ <;> exact hda.symm
  · intro oc b hb
    obtain ⟨_, _, hdb, _⟩ := C15.verifier_gate k oc b hb
    rw [hda] at hdb
    exact (Option.some.inj hdb).symm

/-- the parameter loop succeeds on the list `NewKeyEC2` builds (labels -1 … -4 are distinct) -/
theorem go_ecParams (c : Int) (x y : Nat) (d : Option Nat) (base : GoMap) :
    ∃ m0, Key.marshalMap.go (ecParams c x y d) [] base = some m0 := by
  cases d <;>
    simp [ecParams, Key.marshalMap.go, normalizeLabel, lbl, GoVal.keyEq, wrap64]

theorem marshalMap_some_of_go (k : Key)
    (h : ∀ base, ∃ m0, Key.marshalMap.go k.params [] base = some m0) : ∃ m, k.marshalMap = some m := by
  have hne : ∀ base, Key.marshalMap.go k.params [] base ≠ none := by
    intro base hb
    obtain ⟨m0, h0⟩ := h base
    rw [h0] at hb
    cases hb
  unfold Key.marshalMap
  simp only []
  split
  · rename_i hgo
    exact absurd hgo (hne _)
  · split
    · split
      · exact ⟨_, rfl⟩
      · exact ⟨_, rfl⟩
    · exact ⟨_, rfl⟩

/-- non-vacuity of `ec2_marshal_fullwidth`: every key `NewKeyEC2` returns can be serialised -/
theorem keyFromEC_marshal_some (bits x y : Nat) (d : Option Nat) (k : Key)
    (hk : keyFromEC bits x y d = .ok k) : ∃ m, k.marshalMap = some m := by
  obtain ⟨_, hkeq, _⟩ := keyFromEC_inv bits x y d k hk
  apply marshalMap_some_of_go
  intro base
  have hpar : k.params = ecParams (curveOfBits bits) x y d := by rw [hkeq]
  rw [hpar]
  exact go_ecParams _ x y d base

/-- THE WIRE-LEVEL FULL WIDTH (replaces the in-memory statement, which is false for small
    non-zero coordinates — `keyFromEC_memory_not_fullwidth`): every key the constructor returns can
    be serialised, and what `MarshalCBOR` emits under x and y is the stored parameter left-padded,
    which is `FillBytes` of the coordinate at the curve's byte size and so has EXACTLY that size —
    for every coordinate value, 0 included, no `0 < x` / `0 < y` -/
theorem keyFromEC_fullwidth_wire (bits x y : Nat) (d : Option Nat) (k : Key)
    (hk : keyFromEC bits x y d = .ok k) :
    ∃ m, k.marshalMap = some m ∧
      m.lookup (lbl (-2)) = some (.bytes (leftPad (curveSize (curveOfBits bits)) (k.pbytes (-2)))) ∧
      m.lookup (lbl (-3)) = some (.bytes (leftPad (curveSize (curveOfBits bits)) (k.pbytes (-3)))) ∧
      leftPad (curveSize (curveOfBits bits)) (k.pbytes (-2)) = fillBytes (curveSize (curveOfBits bits)) x ∧
      leftPad (curveSize (curveOfBits bits)) (k.pbytes (-3)) = fillBytes (curveSize (curveOfBits bits)) y ∧
      (leftPad (curveSize (curveOfBits bits)) (k.pbytes (-2))).length = curveSize (curveOfBits bits) ∧
      (leftPad (curveSize (curveOfBits bits)) (k.pbytes (-3))).length = curveSize (curveOfBits bits) := by
  obtain ⟨m, hm⟩ := keyFromEC_marshal_some bits x y d k hk
  obtain ⟨size, rfl, _, hxlt, hylt, h3, h4, _⟩ := ec2_marshal_lookups bits x y d k m hk hm
  obtain ⟨_, hx, hy, _⟩ := keyFromEC_pbytes bits x y d k hk
  have ex := leftPad_ec2Coordinate _ _ hxlt
  have ey := leftPad_ec2Coordinate _ _ hylt
  rw [← hx] at ex
  rw [← hy] at ey
  refine ⟨m, hm, by rw [ex]; exact h3, by rw [ey]; exact h4, ex, ey, ?_, ?_⟩
  · rw [ex, fillBytes_length]
  · rw [ey, fillBytes_length]

/-! ### the constructor accepts every coordinate that fits — non-vacuity -/

theorem natBytes_one : natBytes 1 = [1] := by simp [natBytes]

/-- `validate` accepts, for every operation, an EC2 key on one of the three curves whose x and y
    are not empty and no longer than the curve's size, whose d is no longer (and present when
    signing; and, since e8483d3, a byte string whenever present: a d of another type is no longer
    read as absent), and whose algorithm is the curve's -/
theorem validate_of_ec2 (k : Key) (c : Int) (op : KOp) (h2 : k.kty = 2) (hcrv : k.crv = c)
    (hc : c = 1 ∨ c = 2 ∨ c = 3)
    (hx0 : 0 < (k.pbytes (-2)).length) (hy0 : 0 < (k.pbytes (-3)).length)
    (hx : (k.pbytes (-2)).length ≤ curveSize c) (hy : (k.pbytes (-3)).length ≤ curveSize c)
    (hd : (k.pbytes (-4)).length ≤ curveSize c)
    (hop : op = .sign → 0 < (k.pbytes (-4)).length)
    (halg : k.alg = (if c = 1 then -7 else if c = 2 then -35 else -36))
    (hdt : k.paramIsBstr (-4) false = true) :
    k.validate op = none := by
  have hsign : ¬ (op = .sign ∧ (k.pbytes (-4)).length = 0) := fun h => by
    have := hop h.1; omega
  have hxn : ¬ (k.pbytes (-2)).length = 0 := by omega
  have hyn : ¬ (k.pbytes (-3)).length = 0 := by omega
  have hxt := C15.paramIsBstr_of_pbytes_pos k (-2) false hx0
  have hyt := C15.paramIsBstr_of_pbytes_pos k (-3) true hy0
  unfold Key.validate Key.deriveAlgorithm
  simp only [h2, hcrv, halg, hsign, hxn, hyn, hxt, hyt, hdt, Bool.not_true, Bool.or_self,
    Bool.false_eq_true, if_false]
  rcases hc with h | h | h <;> subst h <;> simp [curveSize] at hx hy hd ⊢ <;> rw [if_neg (by omega)]

/-- `PublicKey()` succeeds on an EC2 key of the three curves that `validate(verify)` accepts -/
theorem publicKey_of_ec2 (k : Key) (h2 : k.kty = 2) (hc : k.crv = 1 ∨ k.crv = 2 ∨ k.crv = 3)
    (hv : k.validate .verify = none) : k.publicKey = none := by
  unfold Key.publicKey Key.deriveAlgorithm
  rw [hv, if_pos h2]
  rcases hc with h | h | h <;> rw [h] <;> rfl

/-- `validate` accepts the constructor's parameter list on the three curves, for all x and y that
    fit the field — 0 included -/
theorem validate_ecParams (c : Int) (x y : Nat) (d : Option Nat) (hc : c = 1 ∨ c = 2 ∨ c = 3)
    (hx : x < 256 ^ curveSize c) (hy : y < 256 ^ curveSize c)
    (hd : ∀ dv, d = some dv → dv < 256 ^ curveSize c) :
    ({ kty := 2, alg := (if c = 1 then -7 else if c = 2 then -35 else -36),
       params := ecParams c x y d } : Key).validate .none = none := by
  have hl := ecParams_lookups c x y d
  have hs := curveSize_pos_of c hc
  refine validate_of_ec2 _ c .none rfl (crv_of_lookup _ _ hl.1) hc ?_ ?_ ?_ ?_ ?_ (fun h => by cases h) rfl ?_
  · rw [pbytes_of_lookup _ _ _ hl.2.1]; exact ec2Coordinate_length_pos _ _ hs
  · rw [pbytes_of_lookup _ _ _ hl.2.2.1]; exact ec2Coordinate_length_pos _ _ hs
  · rw [pbytes_of_lookup _ _ _ hl.2.1]; exact (ec2Coordinate_length_le_iff _ _).mpr hx
  · rw [pbytes_of_lookup _ _ _ hl.2.2.1]; exact (ec2Coordinate_length_le_iff _ _).mpr hy
  · cases d with
    | none =>
      simp [Key.pbytes, ecParams, paramBytes, lookup_cons, keyEq_lbl_lbl, lookup_nil, Lk.getD]
    | some dv =>
      rw [pbytes_of_lookup _ _ _ (hl.2.2.2 dv rfl)]
      exact natBytes_length_le dv _ (hd dv rfl)
  · cases d with
    | none =>
      apply C15.paramIsBstr_of_absent
      simp [ecParams, lookup_cons, keyEq_lbl_lbl, lookup_nil]
    | some dv => exact C15.paramIsBstr_of_bytes _ _ _ _ (hl.2.2.2 dv rfl)

/-- `NewKeyFromPublic` / `NewKeyFromPrivate` succeed for every pair of coordinates that fit the
    field — x = 0 or y = 0 included — and return the key with the parameters `ecParams` -/
theorem keyFromEC_ok (bits x y : Nat) (d : Option Nat)
    (hc : curveOfBits bits = 1 ∨ curveOfBits bits = 2 ∨ curveOfBits bits = 3)
    (hx : x < 256 ^ curveSize (curveOfBits bits)) (hy : y < 256 ^ curveSize (curveOfBits bits))
    (hd : ∀ dv, d = some dv → dv < 256 ^ curveSize (curveOfBits bits)) :
    keyFromEC bits x y d = .ok
      { kty := 2,
        alg := (if curveOfBits bits = 1 then -7 else if curveOfBits bits = 2 then -35 else -36),
        params := ecParams (curveOfBits bits) x y d } := by
  have hv := validate_ecParams (curveOfBits bits) x y d hc hx hy hd
  have hne : ¬ curveOfBits bits = 0 := by omega
  unfold keyFromEC
  simp only []
  rw [if_neg hne]
  unfold ecParams at hv ⊢
  cases d <;> (simp only [] at hv ⊢; rw [hv])

/-- every EC2 key the constructor returns passes `validate` for verification, and `PublicKey()`
    succeeds on it — whatever the coordinates, 0 included: `ErrEC2NoPub` ("x or y missing") can no
    longer come out of a key made from a Go key -/
theorem keyFromEC_publicKey (bits x y : Nat) (d : Option Nat) (k : Key)
    (hk : keyFromEC bits x y d = .ok k) :
    k.validate .verify = none ∧ k.publicKey = none := by
  obtain ⟨hc, hkeq, hv, _, _⟩ := keyFromEC_inv bits x y d k hk
  obtain ⟨hcrv, _, _, _⟩ := keyFromEC_pbytes bits x y d k hk
  obtain ⟨hx0, hy0, hlx, hly⟩ := keyFromEC_coord_nonempty bits x y d k hk
  have h2 : k.kty = 2 := by rw [hkeq]
  have hsz : curveSize k.crv > 0 := by
    rw [hcrv]
    exact curveSize_pos_of _ hc
  obtain ⟨_, _, _, _, _, hlen⟩ := C15.validate_ec2 k .none hv h2
  obtain ⟨_, _, hld⟩ := hlen hsz
  rw [hcrv] at hld
  have hdt : k.paramIsBstr (-4) false = true := by
    have := C15.validate_ec2_typecheck k .none hv h2
    simp only [Bool.or_eq_false_iff, Bool.not_eq_false'] at this
    exact this.2
  have hver := validate_of_ec2 k (curveOfBits bits) .verify h2 hcrv hc hx0 hy0 hlx hly hld
    (fun h => by cases h) (by rw [hkeq]) hdt
  exact ⟨hver, publicKey_of_ec2 k h2 (by rw [hcrv]; exact hc) hver⟩

/-- P-256 with x = y = d = 1 is accepted structurally and yields ES256 both ways -/
example : ∃ k, keyFromEC 256 1 1 (some 1) = .ok k ∧ k.signer = .ok (-7) ∧ k.verifier true = .ok (-7) := by
  refine ⟨_, keyFromEC_ok 256 1 1 (some 1) (by decide) (by decide) (by decide)
    (by intro dv h; cases h; decide), ?_, ?_⟩
  · simp [Key.signer, Key.canOp, Key.privateKey, Key.algorithmOrDefault, Key.validate, Key.paramIsBstr, Key.pbytes,
      paramBytes, Key.crv, paramInt, lookup_cons, keyEq_lbl_lbl, Lk.getD, natBytes_one,
      curveSize, curveOfBits, ec2Coordinate_one, Key.deriveAlgorithm, ecParams]
  · simp [Key.verifier, Key.canOp, Key.publicKey, Key.algorithmOrDefault, Key.validate, Key.paramIsBstr, Key.pbytes,
      paramBytes, Key.crv, paramInt, lookup_cons, keyEq_lbl_lbl, Lk.getD, natBytes_one,
      curveSize, curveOfBits, ec2Coordinate_one, Key.deriveAlgorithm, ecParams]

/-- the repaired defect, on the in-memory key: P-256 with x = 0 is accepted, x is held as 32 zero
    octets (not the empty string), and `PublicKey()` / `Verifier()` no longer fail with
    `ErrEC2NoPub` -/
example : ∃ k, keyFromEC 256 0 1 none = .ok k ∧ k.pbytes (-2) = List.replicate 32 0 ∧
    k.publicKey = none ∧ k.verifier true = .ok (-7) := by
  refine ⟨_, keyFromEC_ok 256 0 1 none (by decide) (by decide) (by decide)
    (by intro dv h; cases h), ?_, ?_, ?_⟩
  · simp [Key.pbytes, paramBytes, lookup_cons, keyEq_lbl_lbl, Lk.getD, curveSize, curveOfBits,
      ecParams, ec2Coordinate_zero]
  · simp [Key.publicKey, Key.validate, Key.paramIsBstr, Key.pbytes,
      paramBytes, Key.crv, paramInt, lookup_cons, keyEq_lbl_lbl, lookup_nil, Lk.getD,
      curveSize, curveOfBits, ec2Coordinate_zero, ec2Coordinate_one, Key.deriveAlgorithm, ecParams]
  · simp [Key.verifier, Key.canOp, Key.publicKey, Key.algorithmOrDefault, Key.validate, Key.paramIsBstr, Key.pbytes,
      paramBytes, Key.crv, paramInt, lookup_cons, keyEq_lbl_lbl, lookup_nil, Lk.getD,
      curveSize, curveOfBits, ec2Coordinate_zero, ec2Coordinate_one, Key.deriveAlgorithm, ecParams]

/-- the in-memory x and y are NOT always at the curve's byte size: P-256 with x = 1 is accepted
    and its stored x is the single octet `[1]`, not 32 octets (`big.Int.Bytes()`; the library's
    own tests compare the parameter with `X.Bytes()`).  The full width is a property of the
    serialisation — `keyFromEC_fullwidth_wire`. -/
theorem keyFromEC_memory_not_fullwidth :
    ∃ k, keyFromEC 256 1 1 none = .ok k ∧ k.pbytes (-2) = [1] ∧
      (k.pbytes (-2)).length ≠ curveSize (curveOfBits 256) := by
  have hk := keyFromEC_ok 256 1 1 none (by decide) (by decide) (by decide) (by intro dv h; cases h)
  obtain ⟨_, hx, _, _⟩ := keyFromEC_pbytes 256 1 1 none _ hk
  rw [ec2Coordinate_one] at hx
  refine ⟨_, hk, hx, ?_⟩
  rw [hx]
  decide

end C14

/-! ## C12 — hash-envelope header rules -/

namespace C12

/-- the per-entry rules of the protected bucket of a hash envelope -/
def ProtEntryOK (e : GoVal × GoVal) : Prop :=
  (∀ k, normalizeLabel e.1 ≠ some (.int k 3)) ∧
  (∀ k, normalizeLabel e.1 = some (.int k 259) → (canUint e.2 = true ∨ canTstr e.2 = true)) ∧
  (∀ k, normalizeLabel e.1 = some (.int k 260) → canTstr e.2 = true)

/-- the entry carries a well-typed payload-hash-algorithm (258) -/
def Is258 (e : GoVal × GoVal) : Prop :=
  ∃ k, normalizeLabel e.1 = some (.int k 258) ∧ ((∃ a, e.2 = .alg a) ∨ canInt e.2 = true)

theorem hashProtLoop_step (l v : GoVal) (r : GoMap) (found : Bool)
    (h : hashProtLoop ((l, v) :: r) found = some true) :
    ProtEntryOK (l, v) ∧
    ∃ found', hashProtLoop r found' = some true ∧ (found' = found ∨ Is258 (l, v)) := by
  unfold hashProtLoop at h
  split at h
  · cases h
  · cases h
  · rename_i k hn
    have hv : (∃ a, v = .alg a) ∨ canInt v = true := by
      split at h
      · exact Or.inl ⟨_, rfl⟩
      · split at h
        · rename_i hc; exact Or.inr hc
        · cases h
    have hr : hashProtLoop r true = some true := by
      split at h
      · exact h
      · split at h
        · exact h
        · cases h
    refine ⟨⟨?_, ?_, ?_⟩, true, hr, Or.inr ⟨k, hn, hv⟩⟩
    all_goals (intro k'; simp only [hn]; intro hc; cases hc)
  · rename_i k hn
    split at h
    · rename_i hc
      refine ⟨⟨?_, ?_, ?_⟩, found, h, Or.inl rfl⟩
      · intro k'; simp only [hn]; intro hc; cases hc
      · intro k' _
        have hc' : canUint v = true ∨ canText v = true := by simpa using hc
        simpa using hc'.imp id canText_canTstr
      · intro k'; simp only [hn]; intro hc; cases hc
    · cases h
  · rename_i k hn
    split at h
    · rename_i hc
      refine ⟨⟨?_, ?_, ?_⟩, found, h, Or.inl rfl⟩
      · intro k'; simp only [hn]; intro hc; cases hc
      · intro k'; simp only [hn]; intro hc; cases hc
      · intro k' _; exact canText_canTstr hc
    · cases h
  · rename_i nl h3 h258 h259 h260 hn
    refine ⟨⟨?_, ?_, ?_⟩, found, h, Or.inl rfl⟩
    · intro k' hc
      rw [hn] at hc
      exact h3 k' (Option.some.inj hc)
    · intro k' hc
      rw [hn] at hc
      exact absurd (Option.some.inj hc) (h259 k')
    · intro k' hc
      rw [hn] at hc
      exact absurd (Option.some.inj hc) (h260 k')

theorem prot_rule_aux : ∀ (p : GoMap) (found : Bool), hashProtLoop p found = some true →
    (found = true ∨ ∃ e ∈ p, Is258 e) ∧ ∀ e ∈ p, ProtEntryOK e
  | [], found, h => by
    simp only [hashProtLoop] at h
    exact ⟨Or.inl (Option.some.inj h), fun e he => by cases he⟩
  | (l, v) :: r, found, h => by
    obtain ⟨hok, found', hr, hf⟩ := hashProtLoop_step l v r found h
    obtain ⟨ih1, ih2⟩ := prot_rule_aux r found' hr
    constructor
    · rcases hf with hf | hf
      · rcases ih1 with ih1 | ⟨e, he, h258⟩
        · exact Or.inl (hf ▸ ih1)
        · exact Or.inr ⟨e, List.mem_cons_of_mem _ he, h258⟩
      · exact Or.inr ⟨(l, v), List.mem_cons_self .., hf⟩
    · intro e he
      rcases List.mem_cons.mp he with rfl | he
      · exact hok
      · exact ih2 e he

/-- the protected bucket of an accepted / produced envelope holds a well-typed 258, no 3, and
    well-typed 259 / 260 -/
theorem prot_rule (p : GoMap) (h : hashProtLoop p false = some true) :
    (∃ e ∈ p, ∃ k, normalizeLabel e.1 = some (.int k 258) ∧ ((∃ a, e.2 = .alg a) ∨ canInt e.2 = true)) ∧
    (∀ e ∈ p, ∀ k, normalizeLabel e.1 ≠ some (.int k 3)) ∧
    (∀ e ∈ p, ∀ k, normalizeLabel e.1 = some (.int k 259) → (canUint e.2 = true ∨ canTstr e.2 = true)) ∧
    (∀ e ∈ p, ∀ k, normalizeLabel e.1 = some (.int k 260) → canTstr e.2 = true) := by
  obtain ⟨h1, h2⟩ := prot_rule_aux p false h
  refine ⟨?_, fun e he => (h2 e he).1, fun e he => (h2 e he).2.1, fun e he => (h2 e he).2.2⟩
  rcases h1 with h1 | h1
  · cases h1
  · exact h1

/-- both buckets of anything `validateHashEnvelopeHeaders` accepts -/
theorem headers_rule (p u : GoMap) (h : validateHashEnvelopeHeaders p u = true) :
    hashProtLoop p false = some true ∧ hashUnprotOK u = true := by
  unfold validateHashEnvelopeHeaders at h
  split at h
  · rename_i hp; exact ⟨hp, h⟩
  · cases h


/-- whatever `SignHashEnvelope` emits passed the digest-length rule and the header rules, and
    is the Sign1 helper's output over the hash value with the governed labels set -/
theorem sign_envelope_rules_u (s : Signer) (h : Hdrs) (p : HashPayload) (b : Bytes)
    (hs : (signHashEnvelope s h p).1 = .ok b) :
    validateHash p.alg p.value = true ∧
    ∃ u, (match h.rawU with
          | some (b :: bs) => Unprotected.unmarshal (b :: bs)
          | _ => .ok h.u) = .ok u ∧
      validateHashEnvelopeHeaders (setHashEnvelopeProtectedHeader h.p p) u = true ∧
      (sign1Helper true { h with p := setHashEnvelopeProtectedHeader h.p p, rawP := none, u := u }
        p.value none s).1 = .ok b := by
  unfold signHashEnvelope at hs
  by_cases hv : validateHash p.alg p.value = true
  · refine ⟨hv, ?_⟩
    simp only [hv, Bool.not_true, Bool.false_eq_true, if_false] at hs
    split at hs
    · rename_i u hu
      by_cases hh : validateHashEnvelopeHeaders (setHashEnvelopeProtectedHeader h.p p) u = true
      · simp only [hh, Bool.not_true, Bool.false_eq_true, if_false] at hs
        exact ⟨u, hu, hh, hs⟩
      · simp [hh] at hs
    · cases hs
    · cases hs
    · cases hs
  · simp [hv] at hs


theorem sign_envelope_rules (s : Signer) (h : Hdrs) (p : HashPayload) (b : Bytes)
    (hs : (signHashEnvelope s h p).1 = .ok b) :
    validateHash p.alg p.value = true ∧
    ∃ u, validateHashEnvelopeHeaders (setHashEnvelopeProtectedHeader h.p p) u = true ∧
      (sign1Helper true { h with p := setHashEnvelopeProtectedHeader h.p p, rawP := none, u := u }
        p.value none s).1 = .ok b := by
  obtain ⟨hv, u, _, hh, hb⟩ := sign_envelope_rules_u s h p b hs
  exact ⟨hv, u, hh, hb⟩

/-- the emitted envelope's buckets satisfy the per-label rules -/
theorem sign_envelope_conforming (s : Signer) (h : Hdrs) (p : HashPayload) (b : Bytes)
    (hs : (signHashEnvelope s h p).1 = .ok b) :
    ∃ u, (sign1Helper true { h with p := setHashEnvelopeProtectedHeader h.p p, rawP := none, u := u }
        p.value none s).1 = .ok b ∧
      (∀ e ∈ setHashEnvelopeProtectedHeader h.p p, ProtEntryOK e) ∧
      (∀ e ∈ u, ∀ n, normalizeLabel e.1 = some (.int .i64 n) → n ≠ 3 ∧ n ≠ 258 ∧ n ≠ 259 ∧ n ≠ 260) := by
  obtain ⟨_, u, hh, hb⟩ := sign_envelope_rules s h p b hs
  obtain ⟨hp, hu⟩ := headers_rule _ _ hh
  exact ⟨u, hb, (prot_rule_aux _ _ hp).2, unprot_rule u hu⟩

/-! ### the governed labels after `setHashEnvelopeProtectedHeader` -/

theorem lookupLabel_of_lookup (h : GoMap) (l v : GoVal) (hl : h.lookup l = some v) :
    lookupLabel h l = some v := by
  unfold lookupLabel
  rw [hl]

/-- label 258 always holds the payload's hash algorithm, typed `Algorithm`, whatever the caller's
    map held (the assignment overwrites the exact key, which `lookupLabel` consults first) -/
theorem set_258_eq (base : GoMap) (p : HashPayload) :
    lookupLabel (setHashEnvelopeProtectedHeader base p) (lbl 258) = some (.alg p.alg) := by
  apply lookupLabel_of_lookup
  unfold setHashEnvelopeProtectedHeader
  simp only []
  have h1 : (base.set (lbl 258) (.alg p.alg)).lookup (lbl 258) = some (.alg p.alg) :=
    C14.lookup_set_lbl_same _ _ _
  have h2 : (match p.pct with
      | some v => (base.set (lbl 258) (.alg p.alg)).set (lbl 259) v
      | none => base.set (lbl 258) (.alg p.alg)).lookup (lbl 258) = some (.alg p.alg) := by
    cases p.pct with
    | none => exact h1
    | some v => simp only []; rw [C14.lookup_set_lbl_other _ 259 258 _ (by decide)]; exact h1
  split
  · rw [C14.lookup_set_lbl_other _ 260 258 _ (by decide)]; exact h2
  · exact h2

theorem set_has_258 (base : GoMap) (p : HashPayload) :
    lookupLabel (setHashEnvelopeProtectedHeader base p) (lbl 258) ≠ none := by
  rw [set_258_eq]; simp

/-- 259 holds the preimage content type when one is given -/
theorem set_259_eq (base : GoMap) (p : HashPayload) (v : GoVal) (hp : p.pct = some v) :
    lookupLabel (setHashEnvelopeProtectedHeader base p) (lbl 259) = some v := by
  apply lookupLabel_of_lookup
  unfold setHashEnvelopeProtectedHeader
  simp only [hp]
  have h2 : ((base.set (lbl 258) (.alg p.alg)).set (lbl 259) v).lookup (lbl 259) = some v :=
    C14.lookup_set_lbl_same _ _ _
  split
  · rw [C14.lookup_set_lbl_other _ 260 259 _ (by decide)]; exact h2
  · exact h2

/-- 260 holds the location when it is non-empty -/
theorem set_260_eq (base : GoMap) (p : HashPayload) (hl : p.location.length > 0) :
    lookupLabel (setHashEnvelopeProtectedHeader base p) (lbl 260) = some (.str p.location) := by
  apply lookupLabel_of_lookup
  unfold setHashEnvelopeProtectedHeader
  simp only []
  rw [if_pos hl]
  exact C14.lookup_set_lbl_same _ _ _

/-- the residue of "the caller's headers are not modified": the model's `Hdrs` argument is
    immutable, and the retained raw protected bytes play no part in what is signed -/
theorem sign_ignores_rawP (s : Signer) (h : Hdrs) (p : HashPayload) (r : Option Bytes) :
    signHashEnvelope s { h with rawP := r } p = signHashEnvelope s h p := rfl

end C12
