/-
  CoseProofs.Deep.Keys — COSE_Key conversion at the level of the parameter map (C14), the
  consistency of accepted keys and the verifier gate (C15), and the hash-envelope header
  rules (C12).  Core Lean only.
-/
import CoseProofs.Lemmas.Ecdsa
import CoseProofs.Props.C12
import CoseProofs.Props.C14
import CoseProofs.Props.C15
open CoseModel

/-! ## C15 — gates and accepted keys -/

namespace C15

/-- what `validate` leaves of the algorithm when it accepts -/
theorem validate_alg (k : Key) (op : KOp) (h : k.validate op = none) (hz : k.alg ≠ 0) :
    k.deriveAlgorithm = some k.alg := by
  unfold Key.validate at h
  simp only [] at h
  split at h
  · cases h
  · simp only [hz, ne_eq, not_false_eq_true, if_true] at h
    split at h
    · cases h
    · rename_i a ha
      by_cases he : k.alg = a
      · rw [ha, he]
      · simp [he] at h

theorem verifier_gate (k : Key) (oc : Bool) (a : Int) (h : k.verifier oc = .ok a) :
    k.canOp 2 = true ∧ (k.kty = 2 ∨ k.kty = 1) ∧ k.deriveAlgorithm = some a ∧
    (k.alg = 0 ∨ k.alg = a) ∧
    (k.kty = 2 → (k.pbytes (-2)).length ≠ 0 ∧ (k.pbytes (-3)).length ≠ 0 ∧ oc = true) ∧
    (k.kty = 1 → (k.pbytes (-2)).length ≠ 0) := by
  unfold Key.verifier at h
  by_cases hc : k.canOp 2 = true
  · simp only [hc, Bool.not_true, Bool.false_eq_true, if_false] at h
    cases hp : k.publicKey with
    | some e => simp [hp] at h
    | none =>
      simp only [hp] at h
      unfold Key.publicKey at hp
      cases hv : k.validate .verify with
      | some e => simp [hv] at hp
      | none =>
        simp only [hv] at hp
        cases hd : k.deriveAlgorithm with
        | none => simp [hd] at hp
        | some d =>
          have hkty : k.kty = 2 ∨ k.kty = 1 := by
            unfold Key.deriveAlgorithm at hd
            by_cases h2 : k.kty = 2
            · exact Or.inl h2
            · by_cases h1 : k.kty = 1
              · exact Or.inr h1
              · simp [h2, h1] at hd
          have halg : k.alg = 0 ∨ k.alg = d := by
            by_cases hz : k.alg = 0
            · exact Or.inl hz
            · right
              have := validate_alg k .verify hv hz
              rw [hd] at this
              exact (Option.some.inj this).symm
          have haod : k.algorithmOrDefault = some d := by
            unfold Key.algorithmOrDefault
            rcases halg with hz | he
            · simp [hz, hd]
            · by_cases hz : k.alg = 0
              · simp [hz, hd]
              · rw [if_pos hz, he]
          simp only [haod] at h
          have ha : a = d := by
            by_cases h8 : d = -8
            · simp [h8] at h; rw [h8]; exact h.symm
            · simp only [h8, if_false] at h
              cases oc
              · simp at h
              · simp at h; exact h.symm
          subst ha
          refine ⟨hc, hkty, rfl, halg, ?_, ?_⟩
          · intro h2
            have hne8 : a ≠ -8 := by
              unfold Key.deriveAlgorithm at hd
              simp only [h2, if_true] at hd
              intro h8
              subst h8
              split at hd
              · cases hd
              · split at hd
                · cases hd
                · split at hd <;> cases hd
            have hxy : (k.pbytes (-2)).length ≠ 0 ∧ (k.pbytes (-3)).length ≠ 0 := by
              constructor <;> intro hz <;> (unfold Key.validate at hv; simp [h2, hz] at hv)
            refine ⟨hxy.1, hxy.2, ?_⟩
            simp only [hne8, if_false] at h
            cases oc
            · simp at h
            · rfl
          · intro h1 hz
            unfold Key.validate at hv
            have h12 : ¬ k.kty = 2 := by omega
            simp [h1, hz] at hv
  · simp [hc] at h

/-- the three facts `Key.UnmarshalCBOR` establishes before returning a key -/
theorem ofMap_inv (tmp : GoMap) (k : Key) (h : Key.ofMap tmp = .ok k) :
    k.kty ≠ 0 ∧ k.validate .none = none ∧ ∃ rest, keyParams k.kty rest = some k.params := by
  unfold Key.ofMap at h
  split at h
  · rename_i kty hl
    by_cases hz : kty = 0
    · simp [hz] at h
    · simp only [hz, if_false] at h
      split at h <;> try (cases h)
      split at h
      · cases h
      · rename_i params hp
        split at h
        · cases h
        · rename_i hv
          cases h
          exact ⟨hz, hv, _, hp⟩
  · cases h

/-- what `validate(KeyOpReserved)` establishes for an EC2 key -/
theorem validate_ec2 (k : Key) (op : KOp) (h : k.validate op = none) (h2 : k.kty = 2) :
    k.crv ≠ 0 ∧ k.crv ≠ 4 ∧ k.crv ≠ 5 ∧ k.crv ≠ 6 ∧ k.crv ≠ 7 ∧
    (curveSize k.crv > 0 → (k.pbytes (-2)).length ≤ curveSize k.crv ∧
      (k.pbytes (-3)).length ≤ curveSize k.crv ∧ (k.pbytes (-4)).length ≤ curveSize k.crv) := by
  unfold Key.validate at h
  simp only [h2, if_true] at h
  split at h
  · cases h
  · rename_i hs
    clear h
    split at hs
    · cases hs
    · split at hs
      · cases hs
      · split at hs
        · cases hs
        · split at hs
          · cases hs
          · split at hs
            · cases hs
            · rename_i _ _ h0 hsz hc
              refine ⟨fun e => h0 (Or.inl e), fun e => hc (Or.inl e), fun e => hc (Or.inr (Or.inl e)),
                fun e => hc (Or.inr (Or.inr (Or.inl e))), fun e => hc (Or.inr (Or.inr (Or.inr e))), ?_⟩
              intro hpos
              have hsz' := fun hh => hsz ⟨hpos, hh⟩
              refine ⟨?_, ?_, ?_⟩
              · exact Nat.le_of_not_gt (fun hh => hsz' (Or.inl hh))
              · exact Nat.le_of_not_gt (fun hh => hsz' (Or.inr (Or.inl hh)))
              · exact Nat.le_of_not_gt (fun hh => hsz' (Or.inr (Or.inr hh)))

/-- what `validate` establishes for an OKP key -/
theorem validate_okp (k : Key) (op : KOp) (h : k.validate op = none) (h1 : k.kty = 1) :
    k.crv ≠ 0 ∧ k.crv ≠ 1 ∧ k.crv ≠ 2 ∧ k.crv ≠ 3 ∧
    ((k.pbytes (-2)).length = 0 ∨ (k.pbytes (-2)).length = 32) ∧
    ((k.pbytes (-4)).length = 0 ∨ (k.pbytes (-4)).length = 32) := by
  unfold Key.validate at h
  simp only [h1, if_true] at h
  split at h
  · cases h
  · rename_i hs
    clear h
    rw [if_neg (by decide : ¬ (1 : Int) = 2)] at hs
    split at hs
    · cases hs
    · split at hs
      · cases hs
      · split at hs
        · cases hs
        · split at hs
          · cases hs
          · split at hs
            · cases hs
            · rename_i _ _ h0 hsz hc
              refine ⟨fun e => h0 (Or.inl e), fun e => hc (Or.inl e), fun e => hc (Or.inr (Or.inl e)),
                fun e => hc (Or.inr (Or.inr e)), ?_, ?_⟩
              · omega
              · omega

theorem key_accept_consistent (tmp : GoMap) (k : Key) (h : Key.ofMap tmp = .ok k) :
    k.kty ≠ 0 ∧ k.validate .none = none ∧
    (k.kty = 2 → k.crv ≠ 0 ∧ k.crv ≠ 4 ∧ k.crv ≠ 5 ∧ k.crv ≠ 6 ∧ k.crv ≠ 7 ∧
      (curveSize k.crv > 0 → (k.pbytes (-2)).length ≤ curveSize k.crv ∧
        (k.pbytes (-3)).length ≤ curveSize k.crv ∧ (k.pbytes (-4)).length ≤ curveSize k.crv)) ∧
    (k.kty = 1 → k.crv ≠ 0 ∧ k.crv ≠ 1 ∧ k.crv ≠ 2 ∧ k.crv ≠ 3 ∧
      ((k.pbytes (-2)).length = 0 ∨ (k.pbytes (-2)).length = 32) ∧
      ((k.pbytes (-4)).length = 0 ∨ (k.pbytes (-4)).length = 32)) ∧
    (k.alg ≠ 0 → k.deriveAlgorithm = some k.alg) := by
  obtain ⟨hz, hv, _⟩ := ofMap_inv tmp k h
  exact ⟨hz, hv, validate_ec2 k .none hv, validate_okp k .none hv, validate_alg k .none hv⟩

/-- the loop over the remaining entries only lets int64 and text labels through -/
theorem keyParams_labels (kty : Int) : ∀ (r p : GoMap), keyParams kty r = some p →
    ∀ e ∈ p, (∃ n, e.1 = .int .i64 n) ∨ (∃ s, e.1 = .str s)
  | [], p, h, e, he => by
    simp only [keyParams] at h
    cases h
    cases he
  | (k, v) :: r, p, h, e, he => by
    unfold keyParams at h
    split at h
    · cases h
    · rename_i rest hr
      have ih := keyParams_labels kty r rest hr
      split at h
      · rename_i l
        split at h
        · split at h
          · cases h
            rcases List.mem_cons.mp he with rfl | hm
            · exact Or.inl ⟨l, rfl⟩
            · exact ih e hm
          · cases h
        · cases h
          rcases List.mem_cons.mp he with rfl | hm
          · exact Or.inl ⟨l, rfl⟩
          · exact ih e hm
      · rename_i s
        cases h
        rcases List.mem_cons.mp he with rfl | hm
        · exact Or.inr ⟨s, rfl⟩
        · exact ih e hm
      · cases h

theorem accepted_labels (tmp : GoMap) (k : Key) (h : Key.ofMap tmp = .ok k) :
    ∀ e ∈ k.params, (∃ n, e.1 = .int .i64 n) ∨ (∃ s, e.1 = .str s) := by
  obtain ⟨_, _, rest, hp⟩ := ofMap_inv tmp k h
  exact keyParams_labels k.kty rest k.params hp

end C15
