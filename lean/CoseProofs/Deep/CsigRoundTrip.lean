/-
  CoseProofs.Deep.CsigRoundTrip — the encode → decode round trip of header buckets when the
  unprotected labels 7 (COSE_Countersignature, RFC 8152) and 11 (RFC 9338 version 2) carry
  COUNTERSIGNATURE values: a `*Countersignature` (`GoVal.csig`) or a `[]*Countersignature`
  (`GoVal.csigs`), to ANY nesting depth the decoder admits (a countersignature has header buckets
  of its own, whose unprotected one may again carry countersignatures).  This was the one kind of
  header value excluded from `Deep/RoundTrip.lean` (scalars), `Deep/NestedRoundTrip.lean` and
  `Deep/NestedBuckets.lean` (arrays / maps).  Core Lean only; nothing outside this file is
  modified.

  THE REGION
    `CsigOK d v` ("the countersignature value `v`, met at nesting depth `d`, is in the region";
    mutual structural recursion over `GoVal`, depth counted upwards the way the parser counts):
      * `.csig none p none u (some sig)` — a CONSTRUCTED countersignature (no retained raw buckets)
        with `sig ≠ []`, `sig.length < 2^64`, `d + 2 ≤ maxNested`,
        `ProtOK p`: the protected map is a validated `NestedMap` (flat labels, scalar / array / map
          values; every `FlatMap` is one), `UintOK`, at most `maxElems` entries, and its encoding
          is shorter than 2^64 bytes,
        the unprotected map `u` validated (`validateHeaderParameters u false`), at most `maxElems`
          entries, `ensureIV p u`, and `HMap (d + 2) u`;
      * `.csigs l` — `l ≠ []`, `l.length ≤ maxElems`, `d + 1 ≤ maxNested`, every element a `.csig`
        that is `CsigOK (d + 1)`.
    `HMap d u` (an unprotected header map whose values are met at depth `d`): every label flat, and
    every value EITHER `RTVal d` (scalar, array, map — the data model of the two earlier files)
    with `UintOK`, OR stored under a countersignature label (`isCsigLabel`: 7 or 11) and `CsigOK d`.
    `HMap.of_flat` / `HMap.of_nested`: every `FlatMap` / `NestedMapAt d` is an `HMap d`, and on
    those `umapWire` / `cnormEntry` are the `mapWireN` / `normEntryN` of `Deep/NestedBuckets.lean`
    (`umapWire_of_nested`).

  WIRE ITEM AND NORMAL FORM
    `cwire v`: a countersignature is the 3-array (immediate head)
      `[protWire p, umapWire u, bstr sig]` = `[bstr protected, map unprotected, bstr signature]`,
      a list the array of those (shortest head); any other value as `wireN`.
    `cnorm v`: what the decoder's countersignature branch returns —
      `.csig (some P) ((sortEntries p).map decEntryN) (some U) ((sortEntries u).map cnormEntry) sig`
      with `P = (protWire p).bytes`, `U = (umapWire u).bytes` the EMITTED bucket bytes (a decoded
      countersignature retains both raw buckets), the protected map sorted and retyped (labels
      `int64`, `alg` as `Algorithm`), the unprotected map sorted and entry-wise normal
      (`cnormEntry`: label `normVal`, value `cnorm` — countersignatures inside again decoded);
      a list element-wise; any other value `normValN`.

  WHAT IS PROVED, in plain words
    C08.csig_value_roundtrip          for `CsigOK d v`: the encoder emits ONE item `w = cwire v`,
                                      well formed, within the parser's limits at depth `d`, tag
                                      free, and `decCsigValue w` (`unmarshalAsCountersignature`)
                                      returns `cnorm v`
    C08.csig_value_roundtrip_single   the same spelt out for one countersignature: the item is
                                      `83 ‖ P ‖ U ‖ bstr sig` with `P`, `U` exactly what
                                      `MarshalProtected` / `MarshalUnprotected` emit for its
                                      buckets; both bucket decoders accept them; the decoded value
                                      is `.csig (some P) p' (some U) u' (some sig)`
    C08.csig_value_roundtrip_top      at depth 0 the bytes parse back to the item, either mode
    C08.csig_reencode_fixpoint        the decoded form re-encodes to the very same bytes
    C08.unprotected_bucket_roundtrip_csig   = `unprotected_bucket_roundtrip` for `HMap 1 h`:
                                      validated ⟹ `MarshalUnprotected` emits the item `umapWire h`,
                                      the bytes parse in either mode, are tag free, `decUnprot`
                                      accepts and returns `(sortEntries h).map cnormEntry`
    C08.unprotected_unmarshal_roundtrip_csig  the same through `UnprotectedHeader.UnmarshalCBOR`
    C08.bucket_encodes_csig           a validated `HMap 1` bucket IS encoded
    C01.sign1_wire_csig / C01.sign1_wire_detached_csig
                                      `sign1_wire_flat` / `sign1_wire_nested` for a COSE_Sign1 whose
                                      unprotected bucket is an `HMap 2` (countersignatures under 7 /
                                      11): Sign ok ∧ Marshal ok ⟹ Unmarshal ok ∧ Verify ok ∧ same
                                      payload and signature ∧ the decoded unprotected map is the
                                      entry-wise normal form
    non-vacuity (`CsigExamples`, by computation): `cs1 = Countersignature{protected {1: ES256},
      unprotected {4: h'32'}, signature h'0102'}`; unprotected `{4: h'3131', 11: [cs1, cs2]}` emits
      `a2 04 42 3131 0b 82 (83 43a10126 a1044132 420102) (83 43a10127 a0 4103)` and `{7: cs1}` emits
      `a1 07 83 43a10126 a1044132 420102`; both decode to the spelt-out normal forms (`cs1N`,
      `cs2N`); `cs3` = a countersignature whose unprotected bucket is `{7: cs1}` (depth 2); a signed
      COSE_Sign1 carrying `{4: h'3131', 11: [cs1, cs2]}` instantiates `sign1_wire_csig`.

  HOW.  One induction principle for `GoVal` (`cs_ind`: countersignature / list / other).  The value
  theorem `cok_of_csigOK` and the bucket lemma `ubucket_ok` feed each other: a bucket needs, per
  entry, `EOK` (encodes to `cwire`, well formed, in limits, tag free, and the decoder branch chosen
  by the DECODED label returns `cnorm`); for an `RTVal` entry that is `vok_of_rtVal` plus "validation
  keeps non-countersignatures away from labels 7 / 11" (`isCsigLabel_false_of_checkN`), for a
  countersignature entry it is the induction hypothesis.  Validation is transported across the
  decoder's retyping by `validate_cnormEntry` (`checkParam_mono` + `isCsigValue_cnorm`).  A list
  of countersignature items is never mistaken for one countersignature (`decSigFields_list_err`:
  the third field of a COSE_Signature must be a byte string), also when it has exactly 3 elements.
  The decode side reuses `C09.decSigFields_of`, `C06.decCsigList_cons`, and for (4) the message
  level of `Deep/NestedBuckets.lean` with `unprot_itemC` in place of `unprot_itemN`.

  HYPOTHESES THAT REMAIN, AND WHY
    * `rawP = rawU = none` — constructed countersignatures.  (With retained raw bytes the encoder
      emits them verbatim; that case is `csig_reencode_fixpoint` for decoded values.)
    * validated buckets and `ensureIV` inside `CsigOK`: exactly what the encoder checks; without
      them `MarshalCBOR` returns an error and nothing reaches the wire.
    * the depth clauses (`d + 2 ≤ maxNested` per countersignature, `d + 1` per list) and
      `≤ maxElems`: the decoder's `MaxNestedLevels` 32 / `MaxArrayElements` 131072; the encoder
      applies them only to each freshly encoded unprotected bucket taken on its own
      (headers.go:256, `C08.fresh_unprotected_bucket_wellformed`), not at the depth the bucket
      ends up at (same asymmetry as `value_roundtrip_nested_needs_depth`,
      `sign1_wire_nested_needs_depth2`, `signmsg_wire_flat_needs_hn`).  A countersignature adds
      TWO levels (its array and its unprotected map), so at most 15 countersignatures can be
      nested inside the unprotected bucket of a message.
    * countersignature values only under labels 7 / 11 (`isCsigLabel` in `HMap`): NEEDED —
      `unprotected_bucket_roundtrip_csig_needs_label`: `{99: cs2}` is validated and encoded
      (`a1 18 63 83 43a10127 a0 4103`), and decodes to the generic array
      `[h'a10127', {}, h'03']`, not to a `*Countersignature`.  Expected library behaviour (only 7
      and 11 are typed), not a defect.
    * `UintOK` on the non-countersignature values, `KeyDistinct` inside `RTVal` maps: as in
      `Deep/NestedBuckets.lean` (`protected_bucket_roundtrip_needs_uintOK`,
      `protected_bucket_roundtrip_nested_needs_distinct`).
    * signature / protected encoding shorter than 2^64 bytes: a CBOR head cannot say more; true of
      every Go slice.
    * (4): `Matches`, `int64Range s.alg`, payload / signature bounds, `m.h.p.length < maxElems` —
      exactly as in `sign1_wire_nested`.
    NOT needed: `l ≠ []` for lists at the value level (an empty list `80` decodes to an empty
    list); it is in `CsigOK` because header validation (`isCsigValue`) demands it anyway.
  No counterexample resembling a library defect was found: every encodable value of the region
  is accepted by the decoder and comes back as `cnorm`.
  NOT DONE: COSE_Sign / stand-alone countersignature wire theorems (`SignWireClosure`) with
  countersignature-valued parameters; a concrete 16-deep witness for the depth bound.
  Axioms: propext, Quot.sound, Classical.choice.
-/
import CoseProofs.Deep.NestedBuckets
import CoseProofs.Deep.SignWireClosure
import CoseProofs.Deep.Accept
open CoseModel CoseSpec RoundTrip NestedBuckets

namespace CsigRT

/-! ### the region -/

/-- a countersignature struct or a list of them -/
def isCs : GoVal → Bool
  | .csig .. => true
  | .csigs _ => true
  | _ => false

/-- a non-nil `*Countersignature` -/
def isCsig1 : GoVal → Bool
  | .csig .. => true
  | _ => false

/-- the protected bucket of a constructed countersignature: flat labels, nested values, validated,
    and its encoding shorter than 2^64 bytes (true of every Go slice) -/
def ProtOK (p : GoMap) : Prop :=
  NestedMap p ∧ (∀ e ∈ p, UintOK e.2) ∧ validateHeaderParameters p true = true ∧
    p.length ≤ maxElems ∧
    ∀ b, encodeBucket encCfg true none p = some b → b.length < 18446744073709551616

mutual
/-- `CsigOK d v`: the countersignature value `v`, met at nesting depth `d`, is inside the region
    the round trip is proved for. -/
def CsigOK : Nat → GoVal → Prop
  | d, .csig rp p ru u sg =>
      rp = none ∧ ru = none ∧
      (∃ s, sg = some s ∧ s ≠ [] ∧ s.length < 18446744073709551616) ∧
      d + 2 ≤ maxNested ∧ ProtOK p ∧
      validateHeaderParameters u false = true ∧ u.length ≤ maxElems ∧ ensureIV p u = true ∧
      HPairs (d + 2) u
  | d, .csigs cs =>
      cs ≠ [] ∧ cs.length ≤ maxElems ∧ d + 1 ≤ maxNested ∧ CsigElems (d + 1) cs
  | _, _ => False
def CsigElems : Nat → List GoVal → Prop
  | _, [] => True
  | d, x :: xs => isCsig1 x = true ∧ CsigOK d x ∧ CsigElems d xs
/-- the entries of an unprotected bucket whose values are met at depth `d` -/
def HPairs : Nat → List (GoVal × GoVal) → Prop
  | _, [] => True
  | d, (k, v) :: r =>
      FlatLabel k ∧ ((RTVal d v ∧ UintOK v) ∨ (isCsigLabel k = true ∧ CsigOK d v)) ∧ HPairs d r
end

/-- an unprotected header map whose values, met at depth `d`, are scalars / nested values, except
    that labels 7 and 11 may carry `CsigOK` countersignature values -/
def HMap (d : Nat) (u : GoMap) : Prop :=
  ∀ e ∈ u, FlatLabel e.1 ∧ ((RTVal d e.2 ∧ UintOK e.2) ∨ (isCsigLabel e.1 = true ∧ CsigOK d e.2))

theorem hPairs_iff (d : Nat) (u : GoMap) : HPairs d u ↔ HMap d u := by
  unfold HMap
  induction u with
  | nil => simp [HPairs]
  | cons e r ih =>
    obtain ⟨k, v⟩ := e
    simp only [HPairs, ih, List.forall_mem_cons, and_assoc]

theorem csigElems_iff (d : Nat) (l : List GoVal) :
    CsigElems d l ↔ ∀ x ∈ l, isCsig1 x = true ∧ CsigOK d x := by
  induction l with
  | nil => simp [CsigElems]
  | cons e r ih => simp only [CsigElems, ih, List.forall_mem_cons, and_assoc]

theorem CsigOK.isCs {d : Nat} {v : GoVal} (h : CsigOK d v) : isCs v = true := by
  cases v <;> simp only [CsigOK] at h <;> rfl

theorem isCs_rtVal {d : Nat} {v : GoVal} (h : RTVal d v) : isCs v = false := by
  cases v <;> (try simp only [RTVal, FlatVal] at h) <;> rfl

/-! ### induction principle -/

mutual
theorem cs_ind {P : GoVal → Prop}
    (hcsig : ∀ rp p ru (u : GoMap) sg, (∀ e ∈ u, P e.2) → P (.csig rp p ru u sg))
    (hcsigs : ∀ cs, (∀ x ∈ cs, P x) → P (.csigs cs))
    (hother : ∀ v, isCs v = false → P v) : ∀ v, P v
  | .csig rp p ru u sg => hcsig rp p ru u sg (cs_indPairs hcsig hcsigs hother u)
  | .csigs cs => hcsigs cs (cs_indList hcsig hcsigs hother cs)
  | .arr _ => hother _ rfl
  | .map _ => hother _ rfl
  | .nil => hother _ rfl
  | .int _ _ => hother _ rfl
  | .alg _ => hother _ rfl
  | .crv _ => hother _ rfl
  | .str _ => hother _ rfl
  | .bytes _ => hother _ rfl
  | .bytesNil => hother _ rfl
  | .bool _ => hother _ rfl
  | .simple _ => hother _ rfl
  | .float _ => hother _ rfl
  | .csigNil => hother _ rfl
  | .csigsNil => hother _ rfl
  | .opaque => hother _ rfl
theorem cs_indList {P : GoVal → Prop}
    (hcsig : ∀ rp p ru (u : GoMap) sg, (∀ e ∈ u, P e.2) → P (.csig rp p ru u sg))
    (hcsigs : ∀ cs, (∀ x ∈ cs, P x) → P (.csigs cs))
    (hother : ∀ v, isCs v = false → P v) : ∀ (xs : List GoVal), ∀ x ∈ xs, P x
  | [] => fun _ h => nomatch h
  | y :: ys => List.forall_mem_cons.mpr
      ⟨cs_ind hcsig hcsigs hother y, cs_indList hcsig hcsigs hother ys⟩
theorem cs_indPairs {P : GoVal → Prop}
    (hcsig : ∀ rp p ru (u : GoMap) sg, (∀ e ∈ u, P e.2) → P (.csig rp p ru u sg))
    (hcsigs : ∀ cs, (∀ x ∈ cs, P x) → P (.csigs cs))
    (hother : ∀ v, isCs v = false → P v) : ∀ (kvs : List (GoVal × GoVal)), ∀ e ∈ kvs, P e.2
  | [] => fun _ h => nomatch h
  | (_, v) :: r => List.forall_mem_cons.mpr
      ⟨cs_ind hcsig hcsigs hother v, cs_indPairs hcsig hcsigs hother r⟩
end

/-! ### the wire item and the decoded normal form -/

/-- content of the protected byte string -/
def protContent (p : GoMap) : Bytes := if p.isEmpty then [] else (mapWireN p).bytes

/-- the protected bucket as the encoder emits it: a byte string with a shortest head -/
def protWire (p : GoMap) : Wire := .bstr (HW.shortest (protContent p).length) (protContent p)

/-- the signature field -/
def sigWire (sg : Option Bytes) : Wire := .bstr (HW.shortest (sg.getD []).length) (sg.getD [])

mutual
/-- the item the encoder emits for a header value: a countersignature is the 3-array
    `[bstr protected, map unprotected, bstr signature]`, a list of them an array of those;
    everything else as in `wireN` -/
def cwire : GoVal → Wire
  | .csig _ p _ u sg =>
      .arr .imm [protWire p, .map (HW.shortest u.length) (sortWire (cwirePairs u)), sigWire sg]
  | .csigs cs => .arr (HW.shortest cs.length) (cwireList cs)
  | v => wireN v
def cwireList : List GoVal → List Wire
  | [] => []
  | x :: xs => cwire x :: cwireList xs
def cwirePairs : List (GoVal × GoVal) → List (Wire × Wire)
  | [] => []
  | (k, v) :: r => (valWire k, cwire v) :: cwirePairs r
end

def centryWire (e : GoVal × GoVal) : Wire × Wire := (valWire e.1, cwire e.2)

/-- the map item the encoder emits for an unprotected bucket -/
def umapWire (u : GoMap) : Wire := .map (HW.shortest u.length) ((sortEntries u).map centryWire)

mutual
/-- what the unprotected-bucket decoder returns for the encoding: a decoded countersignature
    retains the raw bytes of both buckets, its typed maps are the sorted retyped normal forms -/
def cnorm : GoVal → GoVal
  | .csig _ p _ u sg =>
      .csig (some (protWire p).bytes) ((sortEntries p).map decEntryN)
        (some (Wire.map (HW.shortest u.length) (sortWire (cwirePairs u))).bytes)
        (sortEntries (cnormPairs u)) sg
  | .csigs cs => .csigs (cnormList cs)
  | v => normValN v
def cnormList : List GoVal → List GoVal
  | [] => []
  | x :: xs => cnorm x :: cnormList xs
def cnormPairs : List (GoVal × GoVal) → List (GoVal × GoVal)
  | [] => []
  | (k, v) :: r => (normVal k, cnorm v) :: cnormPairs r
end

def cnormEntry (e : GoVal × GoVal) : GoVal × GoVal := (normVal e.1, cnorm e.2)

theorem cwireList_eq (xs : List GoVal) : cwireList xs = xs.map cwire := by
  induction xs with
  | nil => rfl
  | cons x r ih => simp only [cwireList, ih, List.map_cons]

theorem cwirePairs_eq (g : GoMap) : cwirePairs g = g.map centryWire := by
  induction g with
  | nil => rfl
  | cons e r ih => obtain ⟨k, v⟩ := e; simp only [cwirePairs, ih, List.map_cons, centryWire]

theorem cnormList_eq (xs : List GoVal) : cnormList xs = xs.map cnorm := by
  induction xs with
  | nil => rfl
  | cons x r ih => simp only [cnormList, ih, List.map_cons]

theorem cnormPairs_eq (g : GoMap) : cnormPairs g = g.map cnormEntry := by
  induction g with
  | nil => rfl
  | cons e r ih => obtain ⟨k, v⟩ := e; simp only [cnormPairs, ih, List.map_cons, cnormEntry]

theorem sortWire_cmap (g : GoMap) :
    sortWire (g.map centryWire) = (sortEntries g).map centryWire := by
  unfold sortWire sortEntries
  exact (List.map_mergeSort
    (r := fun (a b : GoVal × GoVal) => bytesLe (valWire a.1).bytes (valWire b.1).bytes)
    (s := fun (a b : Wire × Wire) => bytesLe a.1.bytes b.1.bytes) (f := centryWire)
    (fun _ _ _ _ => rfl)).symm

theorem sortPairs_cmap (g : GoMap) :
    sortPairs (g.map (fun e => wireBytes (centryWire e)))
      = (sortEntries g).map (fun e => wireBytes (centryWire e)) := by
  unfold sortPairs sortEntries
  exact (List.map_mergeSort
    (r := fun (a b : GoVal × GoVal) => bytesLe (valWire a.1).bytes (valWire b.1).bytes)
    (s := fun (a b : Bytes × Bytes) => bytesLe a.1 b.1) (f := fun e => wireBytes (centryWire e))
    (fun _ _ _ _ => rfl)).symm

theorem sortEntries_cmap (g : GoMap) :
    sortEntries (g.map cnormEntry) = (sortEntries g).map cnormEntry := by
  unfold sortEntries
  exact (List.map_mergeSort
    (r := fun (a b : GoVal × GoVal) => bytesLe (valWire a.1).bytes (valWire b.1).bytes)
    (s := fun (a b : GoVal × GoVal) => bytesLe (valWire a.1).bytes (valWire b.1).bytes)
    (f := cnormEntry)
    (fun a _ b _ => by simp only [cnormEntry, valWire_of_normVal])).symm

theorem cwire_csig (rp ru sg : Option Bytes) (p u : GoMap) :
    cwire (.csig rp p ru u sg) = .arr .imm [protWire p, umapWire u, sigWire sg] := by
  simp only [cwire, cwirePairs_eq, sortWire_cmap, umapWire]

theorem cwire_csigs (cs : List GoVal) :
    cwire (.csigs cs) = .arr (HW.shortest cs.length) (cs.map cwire) := by
  simp only [cwire, cwireList_eq]

theorem cwire_other {v : GoVal} (h : isCs v = false) : cwire v = wireN v := by
  cases v <;> simp only [isCs, reduceCtorEq] at h <;> simp only [cwire]

theorem cnorm_csig (rp ru sg : Option Bytes) (p u : GoMap) :
    cnorm (.csig rp p ru u sg) =
      .csig (some (protWire p).bytes) ((sortEntries p).map decEntryN)
        (some (umapWire u).bytes) ((sortEntries u).map cnormEntry) sg := by
  simp only [cnorm, cwirePairs_eq, sortWire_cmap, cnormPairs_eq, sortEntries_cmap, umapWire]

theorem cnorm_csigs (cs : List GoVal) : cnorm (.csigs cs) = .csigs (cs.map cnorm) := by
  simp only [cnorm, cnormList_eq]

theorem cnorm_other {v : GoVal} (h : isCs v = false) : cnorm v = normValN v := by
  cases v <;> simp only [isCs, reduceCtorEq] at h <;> simp only [cnorm]

/-! ### the protected bucket of a countersignature -/

theorem prot_ok {p : GoMap} (h : ProtOK p) :
    encodeBucket encCfg true none p = some (protWire p).bytes ∧ (protWire p).wf = true ∧
      decProtected (protWire p) = .ok ((sortEntries p).map decEntryN) := by
  obtain ⟨hf, hu, hv, hlen, hsz⟩ := h
  have hok := C13.validate_labels p true hv
  cases p with
  | nil =>
    have hw : protWire [] = .bstr .imm [] := by
      simp [protWire, protContent, HW.shortest]
    rw [hw]
    refine ⟨?_, rfl, ?_⟩
    · simp only [encodeBucket, if_true]; rfl
    · simp [decProtected, decProtectedContent, sortEntries]
  | cons e es =>
    have hne : (e :: es) ≠ [] := by simp
    have henc := encodeBucket_N (d := 0) hf true hv hlen (by unfold maxNested; omega) hne
    simp only [if_true] at henc
    have hpc : protContent (e :: es) = (mapWireN (e :: es)).bytes := by simp [protContent]
    have hb : encBstr (mapWireN (e :: es)).bytes = (protWire (e :: es)).bytes := by
      simp only [protWire, hpc, Wire.bytes, encBstr, encHead]
    have hsz' := hsz _ henc
    rw [hb] at henc hsz'
    have hcl : (protContent (e :: es)).length < 18446744073709551616 := by
      simp only [protWire, Wire.bytes, List.length_append] at hsz'
      omega
    have hp := sortEntries_perm (e :: es)
    have hvs : validateHeaderParameters (sortEntries (e :: es)) true = true := by
      rw [C13.validate_perm_invariant _ _ hp]; exact hv
    have hvn := validate_normEntryN true (NestedMapAt.sorted (d := 1) hf)
      (fun x hx => hu x (hp.mem_iff.mp hx)) hvs
    refine ⟨henc, ?_, ?_⟩
    · simp only [protWire, Wire.wf]
      exact C02.shortest_fits hcl
    · simp only [protWire, decProtected, hpc]
      rw [decProtectedContent_mapWireN hf hok hlen, if_pos hvn]

theorem protWire_leaf (p : GoMap) (t : Bool) (d : Nat) :
    (protWire p).inLimits t d = true ∧ (protWire p).hasTag = false := ⟨rfl, rfl⟩

theorem sigWire_bytes (s : Bytes) : (sigWire (some s)).bytes = encBstr s := by
  simp only [sigWire, Option.getD_some, Wire.bytes, encBstr, encHead]

/-! ### labels of an unprotected bucket with countersignature values -/

theorem normLabels_cnormEntry {g : GoMap} (hf : ∀ e ∈ g, FlatLabel e.1) :
    normLabels (g.map cnormEntry) = normLabels g := by
  unfold normLabels
  rw [List.map_map]
  apply List.map_congr_left
  intro e he
  exact normalizeLabel_normVal (hf e he)

theorem labelsOK_cnormEntry {g : GoMap} (hf : ∀ e ∈ g, FlatLabel e.1) (hok : LabelsOK g) :
    LabelsOK (g.map cnormEntry) := by
  rw [labelsOK_iff_normLabels, normLabels_cnormEntry hf, ← labelsOK_iff_normLabels]
  exact hok

theorem labelsOK_C : ∀ (g : GoMap) (seen : List GoVal), (∀ e ∈ g, FlatLabel e.1) →
    g.Pairwise LabelDistinct →
    (∀ e ∈ g, seen.any (fun x => x.keyEq (normVal e.1)) = false) →
    labelsOK (g.map centryWire) seen = .ok ()
  | [], _, _, _, _ => rfl
  | e :: r, seen, hf, hp, hs => by
    have h1 := hf e (List.mem_cons_self ..)
    rw [List.pairwise_cons] at hp
    rw [List.map_cons, centryWire, labelsOK_cons_flat h1, hs e (List.mem_cons_self ..)]
    simp only [Bool.false_eq_true, if_false]
    apply labelsOK_C r _ (fun x hx => hf x (List.mem_cons_of_mem _ hx)) hp.2
    intro e' he'
    rw [List.any_cons, hs e' (List.mem_cons_of_mem _ he'), Bool.or_false]
    exact hp.1 e' he' _ _ (normalizeLabel_flat h1)
      (normalizeLabel_flat (hf e' (List.mem_cons_of_mem _ he')))

theorem isCsigLabel_normVal {k : GoVal} (hk : FlatLabel k) :
    isCsigLabel (normVal k) = isCsigLabel k := by
  unfold isCsigLabel
  rw [normalizeLabel_normVal hk]

/-! ### header validation is transported across the decoder's retyping -/

theorem isCsig1_cnorm {x : GoVal} (h : isCsig1 x = true) : isCsig1 (cnorm x) = true := by
  cases x <;> simp only [isCsig1, Bool.false_eq_true] at h
  rw [cnorm_csig]; rfl

theorem isCsigValue_eq (v : GoVal) :
    isCsigValue v = match v with
      | .csig .. => true
      | .csigs cs => !cs.isEmpty && cs.all isCsig1
      | _ => false := by
  cases v <;> simp only [isCsigValue]
  congr 2

theorem isCsigValue_cnorm (v : GoVal) (h : isCsigValue v = true) :
    isCsigValue (cnorm v) = true := by
  rw [isCsigValue_eq] at h
  cases v <;> simp only [Bool.false_eq_true] at h
  case csig rp p ru u sg => rw [cnorm_csig]; rfl
  case csigs cs =>
    rw [cnorm_csigs, isCsigValue_eq]
    simp only [Bool.and_eq_true, Bool.not_eq_true', List.isEmpty_eq_false_iff, List.all_eq_true,
      ne_eq, List.map_eq_nil_iff, List.mem_map, forall_exists_index, and_imp,
      forall_apply_eq_imp_iff₂] at h ⊢
    exact ⟨h.1, fun x hx => isCsig1_cnorm (h.2 x hx)⟩

theorem checkParam_cnorm_cs (g : GoMap) (prot : Bool) (l : GoVal) {v : GoVal}
    (hcs : isCs v = true) (h : checkParam g prot l v = true) :
    checkParam g prot l (cnorm v) = true := by
  apply checkParam_mono g prot l _ _ _ _ (isCsigValue_cnorm v) h
  all_goals
    cases v <;> simp only [isCs, Bool.false_eq_true] at hcs <;>
      simp [canInt, canTstr, tstrOrUintOK, canUint, canBstr, ensureCritical]

theorem validate_cnormEntry {d : Nat} {g : GoMap} (hf : HMap d g)
    (hv : validateHeaderParameters g false = true) :
    validateHeaderParameters (g.map cnormEntry) false = true := by
  have hfl : ∀ e ∈ g, FlatLabel e.1 := fun e he => (hf e he).1
  rw [C13.validate_iff] at hv ⊢
  obtain ⟨hok, hall⟩ := hv
  refine ⟨labelsOK_cnormEntry hfl hok, ?_⟩
  intro e' he'
  obtain ⟨e, he, rfl⟩ := List.mem_map.mp he'
  obtain ⟨l, h1, h2⟩ := hall e he
  refine ⟨l, ?_, ?_⟩
  · simp only [cnormEntry]; rw [normalizeLabel_normVal (hfl e he), h1]
  · have hhas : ∀ x, normalizeLabel x ≠ none → hasLabel g x = hasLabel (g.map cnormEntry) x :=
      fun x hx => C13.hasLabel_congr_norm g _ (normLabels_cnormEntry hfl).symm x x rfl hx
    rw [← C13.checkParam_congr g _ hhas hok.1 (labelsOK_cnormEntry hfl hok).1]
    simp only [cnormEntry]
    rcases (hf e he).2 with ⟨hrt, hu⟩ | ⟨-, hc⟩
    · rw [cnorm_other (isCs_rtVal hrt)]
      exact checkParam_normValN g false l hrt hu h2
    · exact checkParam_cnorm_cs g false l hc.isCs h2

theorem HMap.perm {d : Nat} {h h' : GoMap} (hp : h.Perm h') (hf : HMap d h) : HMap d h' :=
  fun e he => hf e (hp.mem_iff.mpr he)

theorem ensureIV_cdecoded {p u : GoMap} (hfp : NestedMap p) (hfu : ∀ e ∈ u, FlatLabel e.1)
    (h : ensureIV p u = true) :
    ensureIV ((sortEntries p).map decEntryN) ((sortEntries u).map cnormEntry) = true := by
  have hp : ∀ k, hasLabel ((sortEntries p).map decEntryN) (lbl k) = hasLabel p (lbl k) :=
    WireClosure.hasLabel_sorted_map decEntryN
      (fun e he => by rw [decEntryN_fst]; exact normalizeLabel_normVal (hfp e he).1)
  have hu : ∀ k, hasLabel ((sortEntries u).map cnormEntry) (lbl k) = hasLabel u (lbl k) :=
    WireClosure.hasLabel_sorted_map cnormEntry
      (fun e he => by simp only [cnormEntry]; exact normalizeLabel_normVal (hfu e he))
  unfold ensureIV at h ⊢
  rw [hp, hp, hu, hu]
  exact h

/-! ### one unprotected bucket, given what is known of its entries -/

/-- what the round trip establishes for one countersignature value met at depth `d` -/
def COK (d : Nat) (v : GoVal) : Prop :=
  encodeAny encCfg v = some (cwire v).bytes ∧ (cwire v).wf = true ∧
  (∀ t, (cwire v).inLimits t d = true) ∧ (cwire v).hasTag = false ∧
  decCsigValue (cwire v) = .ok (cnorm v) ∧
  (isCsig1 v = true → ∃ ys, cwire v = .arr .imm ys ∧ decSigFields ys = .ok (cnorm v))

/-- … and for one entry of an unprotected bucket: the decoder chooses the countersignature
    branch by the (decoded) label -/
def EOK (d : Nat) (e : GoVal × GoVal) : Prop :=
  FlatLabel e.1 ∧ encodeAny encCfg e.2 = some (cwire e.2).bytes ∧ (cwire e.2).wf = true ∧
  (∀ t, (cwire e.2).inLimits t d = true) ∧ (cwire e.2).hasTag = false ∧
  (if isCsigLabel (normVal e.1) then decCsigValue (cwire e.2) else decodeAny (cwire e.2))
    = .ok (cnorm e.2)

theorem eok_of {d : Nat} {e : GoVal × GoVal}
    (hf : FlatLabel e.1 ∧
      ((RTVal d e.2 ∧ UintOK e.2) ∨ (isCsigLabel e.1 = true ∧ CsigOK d e.2)))
    (hcok : CsigOK d e.2 → COK d e.2)
    (hnc : RTVal d e.2 → isCsigLabel (normVal e.1) = false) : EOK d e := by
  obtain ⟨hl, hrt | hc⟩ := hf
  · have hn := isCs_rtVal hrt.1
    obtain ⟨h1, h2, h3, h4, -, h6⟩ := vok_of_rtVal encCfg e.2 d hrt.1
    unfold EOK
    rw [cwire_other hn, cnorm_other hn, hnc hrt.1]
    exact ⟨hl, h1, h2, h3, h4, by simpa using h6⟩
  · obtain ⟨h1, h2, h3, h4, h5, -⟩ := hcok hc.2
    unfold EOK
    rw [isCsigLabel_normVal hl, hc.1]
    exact ⟨hl, h1, h2, h3, h4, by simpa using h5⟩

theorem encodePairs_C (cfg : EncCfg) {g : GoMap}
    (h : ∀ e ∈ g, FlatLabel e.1 ∧ encodeAny cfg e.2 = some (cwire e.2).bytes) :
    encodePairs cfg g = some (g.map (fun e => wireBytes (centryWire e))) := by
  rw [C08.encodePairs_eq_some_iff, List.map_map]
  apply List.map_congr_left
  intro e he
  obtain ⟨h1, h2⟩ := h e he
  simp only [C08.encPair, valWire_bytes cfg h1.flatVal, h2, Function.comp, wireBytes, centryWire]

theorem concat_sortedC (g : GoMap) :
    concatPairs (sortPairs (g.map (fun e => wireBytes (centryWire e))))
      = Wire.bytesPairs ((sortEntries g).map centryWire) := by
  rw [sortPairs_cmap, ← concatPairs_wireBytes, List.map_map]
  rfl

theorem umapWire_bytes (u : GoMap) :
    (umapWire u).bytes
      = encHead 5 u.length ++ concatPairs (sortPairs (u.map (fun e => wireBytes (centryWire e)))) := by
  simp only [umapWire, Wire.bytes, List.length_map, sortEntries_length, concat_sortedC, encHead]

theorem umapWire_nil_bytes : (umapWire []).bytes = [0xa0] := by
  simp only [umapWire, sortEntries, List.mergeSort_nil, List.map_nil, Wire.bytes,
    Wire.bytesPairs, List.length_nil, List.append_nil]
  rfl

theorem decUnprotPairs_C : ∀ (g : GoMap),
    (∀ e ∈ g, FlatLabel e.1 ∧
      (if isCsigLabel (normVal e.1) then decCsigValue (cwire e.2) else decodeAny (cwire e.2))
        = .ok (cnorm e.2)) →
    decUnprotPairs (g.map centryWire) = .ok (g.map cnormEntry)
  | [], _ => by simp [decUnprotPairs]
  | e :: r, hf => by
    obtain ⟨h1, h2⟩ := hf e (List.mem_cons_self ..)
    have ih := decUnprotPairs_C r (fun x hx => hf x (List.mem_cons_of_mem _ hx))
    rw [List.map_cons, centryWire, decUnprotPairs]
    simp only [valWire_decode h1.flatVal, h2, ih, List.map_cons, cnormEntry]

/-- the unprotected bucket whose map item sits at depth `d` (values met at depth `d + 1`) -/
theorem ubucket_ok (d : Nat) (u : GoMap) (hent : ∀ e ∈ u, EOK (d + 1) e)
    (hv : validateHeaderParameters u false = true)
    (hvn : validateHeaderParameters ((sortEntries u).map cnormEntry) false = true)
    (hlen : u.length ≤ maxElems) (hd : d + 1 ≤ maxNested) :
    encodeBucket encCfg false none u = some (umapWire u).bytes ∧ (umapWire u).wf = true ∧
      (∀ t, (umapWire u).inLimits t d = true) ∧ (umapWire u).hasTag = false ∧
      decUnprot (umapWire u) = .ok ((sortEntries u).map cnormEntry) := by
  have hok := C13.validate_labels u false hv
  have hoks := labelsOK_sorted hok
  have hmem : ∀ e ∈ sortEntries u, e ∈ u := fun e he => (sortEntries_perm u).mem_iff.mp he
  have hep := encodePairs_C encCfg (g := u) (fun e he => ⟨(hent e he).1, (hent e he).2.1⟩)
  have hlab : labelsOK ((sortEntries u).map centryWire) [] = .ok () :=
    labelsOK_C (sortEntries u) [] (fun e he => (hent e (hmem e he)).1) hoks.2 (by intro e _; rfl)
  have hdec := decUnprotPairs_C (sortEntries u)
    (fun e he => ⟨(hent e (hmem e he)).1, (hent e (hmem e he)).2.2.2.2.2⟩)
  have hwf : (umapWire u).wf = true := by
    simp only [umapWire, Wire.wf, List.length_map, sortEntries_length, shortest_fits_elems hlen,
      Bool.true_and]
    rw [wfPairs_iff]
    intro w hw
    obtain ⟨e, he, rfl⟩ := List.mem_map.mp hw
    exact ⟨valWire_wf (hent e (hmem e he)).1.flatVal, (hent e (hmem e he)).2.2.1⟩
  have hlim : ∀ t, (umapWire u).inLimits t d = true := by
    intro t
    simp only [umapWire, Wire.inLimits, List.length_map, sortEntries_length, hd, hlen, decide_true,
      Bool.true_and]
    rw [inLimitsPairs_iff]
    intro w hw
    obtain ⟨e, he, rfl⟩ := List.mem_map.mp hw
    exact ⟨valWire_inLimits _ _ _, (hent e (hmem e he)).2.2.2.1 t⟩
  have hnt : (umapWire u).hasTag = false := by
    simp only [umapWire, Wire.hasTag]
    rw [hasTagPairs_iff]
    intro w hw
    obtain ⟨e, he, rfl⟩ := List.mem_map.mp hw
    exact ⟨valWire_noTag _, (hent e (hmem e he)).2.2.2.2.1⟩
  have hscan : headerLabelsUntagged (umapWire u).bytes = true :=
    ensureUntagged_bytes_noTag _ hwf (hlim true) hnt
  unfold umapWire at hscan
  refine ⟨?_, hwf, hlim, hnt, ?_⟩
  · cases u with
    | nil =>
      simp only [encodeBucket, Bool.false_eq_true, if_false, umapWire_nil_bytes]
    | cons e es =>
      have hv' : encCfg.validate (e :: es) false = true := hv
      -- `UnprotectedHeader.MarshalCBOR`'s tags-forbidden well-formedness pass, from depth 0
      have hw := wellformedNoTags_bytes_at hwf (hlim false)
      rw [umapWire_bytes] at hw
      simp only [encodeBucket, hv', Bool.not_true, Bool.false_eq_true, if_false, hep,
        umapWire_bytes, hw, if_true]
  · simp only [umapWire, decUnprot, hlab, hscan, hdec, hvn, if_true, Bool.not_true,
      Bool.false_eq_true, if_false]

/-- the entries of a validated `HMap`, given the induction hypothesis for its countersignature
    values -/
theorem hmap_entries {d : Nat} {u : GoMap} (hm : HMap d u)
    (hv : validateHeaderParameters u false = true)
    (ih : ∀ e ∈ u, CsigOK d e.2 → COK d e.2) : ∀ e ∈ u, EOK d e := by
  intro e he
  obtain ⟨l, h1, h2⟩ := ((C13.validate_iff _ _).mp hv).2 e he
  apply eok_of (hm e he) (ih e he)
  intro hrt
  exact isCsigLabel_false_of_checkN hrt
    (by rw [normalizeLabel_normVal (hm e he).1]; exact h1) h2

theorem validate_sorted_cnorm {d : Nat} {u : GoMap} (hm : HMap d u)
    (hv : validateHeaderParameters u false = true) :
    validateHeaderParameters ((sortEntries u).map cnormEntry) false = true := by
  have hp := sortEntries_perm u
  apply validate_cnormEntry (hm.perm hp.symm)
  rw [C13.validate_perm_invariant _ _ hp]; exact hv

/-! ### lists of countersignatures -/

theorem encodeList_C (cfg : EncCfg) : ∀ xs : List GoVal,
    (∀ x ∈ xs, encodeAny cfg x = some (cwire x).bytes) →
    encodeList cfg xs = some (Wire.bytesList (xs.map cwire))
  | [], _ => by simp only [encodeList, List.map_nil, Wire.bytesList]
  | x :: xs, h => by
    have h1 := h x (List.mem_cons_self ..)
    have h2 := encodeList_C cfg xs (fun y hy => h y (List.mem_cons_of_mem _ hy))
    simp only [encodeList, h1, h2, List.map_cons, Wire.bytesList]

theorem decCsigList_C : ∀ xs : List GoVal,
    (∀ x ∈ xs, ∃ ys, cwire x = .arr .imm ys ∧ decSigFields ys = .ok (cnorm x)) →
    decCsigList (xs.map cwire) = .ok (xs.map cnorm)
  | [], _ => by simp only [List.map_nil, C06.decCsigList_nil]
  | x :: xs, h => by
    obtain ⟨ys, h1, h2⟩ := h x (List.mem_cons_self ..)
    have ih := decCsigList_C xs (fun y hy => h y (List.mem_cons_of_mem _ hy))
    rw [List.map_cons, C06.decCsigList_cons, h1, ih]
    simp only [C06.csigOne, h2, C06.csigComb, List.map_cons]

/-- a list of countersignature items is never mistaken for ONE countersignature: the third field
    of a COSE_Signature must be a byte string -/
theorem decSigFields_list_err (cs : List GoVal) (h : ∀ x ∈ cs, isCsig1 x = true) :
    decSigFields (cs.map cwire) = .err .other := by
  rcases cs with _ | ⟨a, _ | ⟨b, _ | ⟨c, _ | ⟨e, r⟩⟩⟩⟩
  · simp [decSigFields]
  · simp [decSigFields]
  · simp [decSigFields]
  · have hc := h c (by simp)
    cases c <;> simp only [isCsig1, Bool.false_eq_true] at hc
    simp only [List.map_cons, List.map_nil, cwire_csig, decSigFields, decByteString]
  · simp [decSigFields]

theorem decCsigValue_list {w : HW} {xs : List Wire} {l : List GoVal}
    (h1 : decSigFields xs = .err .other) (h2 : decCsigList xs = .ok l) :
    decCsigValue (.arr w xs) = .ok (.csigs l) := by
  unfold decCsigValue
  by_cases hw : w = .imm <;> simp [hw, h1, h2]

theorem decCsigValue_single {xs : List Wire} {c : GoVal} (h : decSigFields xs = .ok c) :
    decCsigValue (.arr .imm xs) = .ok c := by
  unfold decCsigValue
  simp [h]

/-! ### the value level: every `CsigOK` value makes the round trip -/

theorem cok_csig {d : Nat} {p u : GoMap} {s : Bytes} (hsne : s ≠ [])
    (hsl : s.length < 18446744073709551616) (hd : d + 2 ≤ maxNested) (hp : ProtOK p)
    (hv : validateHeaderParameters u false = true) (hlen : u.length ≤ maxElems)
    (hiv : ensureIV p u = true) (hm : HMap (d + 2) u)
    (ih : ∀ e ∈ u, CsigOK (d + 2) e.2 → COK (d + 2) e.2) :
    COK d (.csig none p none u (some s)) := by
  obtain ⟨hpe, hpwf, hpd⟩ := prot_ok hp
  have hvn := validate_sorted_cnorm hm hv
  obtain ⟨hue, huwf, hulim, hutag, hud⟩ :=
    ubucket_ok (d + 1) u (hmap_entries hm hv ih) hv hvn hlen hd
  have hiv' := ensureIV_cdecoded hp.1 (fun e he => (hm e he).1) hiv
  have hsgfit : (HW.shortest s.length).fits s.length = true := C02.shortest_fits hsl
  have hz : blen (some s) ≠ 0 := C01.blen_some_ne hsne
  have hdsf : decSigFields [protWire p, umapWire u, sigWire (some s)]
      = .ok (cnorm (.csig none p none u (some s))) := by
    rw [cnorm_csig]
    exact C09.decSigFields_of (sg := sigWire (some s)) rfl hz hpd hud hiv'
  unfold COK
  rw [cwire_csig]
  refine ⟨?_, ?_, ?_, ?_, decCsigValue_single hdsf, fun _ => ⟨_, rfl, hdsf⟩⟩
  · cases s with
    | nil => exact absurd rfl hsne
    | cons x xs =>
      have hiv2 : encCfg.ensureIV p u = true := hiv
      simp only [encodeAny, hiv2, Bool.not_true, Bool.false_eq_true, if_false, hpe, hue,
        Accept.arr3_bytes, sigWire_bytes]
  · have h3 : HW.fits .imm 3 = true := by decide
    simp only [protWire, Wire.wf] at hpwf
    simp [Wire.wf, Wire.wfList, h3, protWire, sigWire, hpwf, huwf, hsgfit]
  · intro t
    have hd1 : d + 1 ≤ maxNested := by omega
    simp [Wire.inLimits, Wire.inLimitsList, hd1, maxElems, hulim t, protWire, sigWire]
  · simp [Wire.hasTag, Wire.hasTagList, hutag, protWire, sigWire]

theorem cok_csigs {d : Nat} {cs : List GoVal} (hlen : cs.length ≤ maxElems)
    (hd : d + 1 ≤ maxNested) (hel : ∀ x ∈ cs, isCsig1 x = true ∧ COK (d + 1) x) :
    COK d (.csigs cs) := by
  unfold COK
  rw [cwire_csigs, cnorm_csigs]
  refine ⟨?_, ?_, ?_, ?_, ?_, fun h => by simp [isCsig1] at h⟩
  · simp only [encodeAny, encodeList_C encCfg cs (fun x hx => (hel x hx).2.1), Wire.bytes,
      List.length_map, encHead]
  · simp only [Wire.wf, List.length_map, shortest_fits_elems hlen, Bool.true_and]
    rw [wfList_iff]
    intro w hw
    obtain ⟨x, hx, rfl⟩ := List.mem_map.mp hw
    exact (hel x hx).2.2.1
  · intro t
    simp only [Wire.inLimits, List.length_map, hd, hlen, decide_true, Bool.true_and]
    rw [inLimitsList_iff]
    intro w hw
    obtain ⟨x, hx, rfl⟩ := List.mem_map.mp hw
    exact (hel x hx).2.2.2.1 t
  · simp only [Wire.hasTag]
    rw [hasTagList_iff]
    intro w hw
    obtain ⟨x, hx, rfl⟩ := List.mem_map.mp hw
    exact (hel x hx).2.2.2.2.1
  · exact decCsigValue_list (decSigFields_list_err cs (fun x hx => (hel x hx).1))
      (decCsigList_C cs (fun x hx => (hel x hx).2.2.2.2.2.2 (hel x hx).1))

theorem cok_of_csigOK : ∀ (v : GoVal) (d : Nat), CsigOK d v → COK d v := by
  intro v
  induction v using cs_ind with
  | hcsig rp p ru u sg ih =>
    intro d h
    simp only [CsigOK, hPairs_iff] at h
    obtain ⟨rfl, rfl, ⟨s, rfl, hsne, hsl⟩, hd, hp, hv, hlen, hiv, hm⟩ := h
    exact cok_csig hsne hsl hd hp hv hlen hiv hm (fun e he => ih e he (d + 2))
  | hcsigs cs ih =>
    intro d h
    simp only [CsigOK, csigElems_iff] at h
    obtain ⟨hne, hlen, hd, hel⟩ := h
    exact cok_csigs hlen hd (fun x hx => ⟨(hel x hx).1, ih x hx (d + 1) (hel x hx).2⟩)
  | hother v hn =>
    intro d h
    rw [h.isCs] at hn
    cases hn

/-! ### the decoded form re-encodes verbatim -/

theorem headBytes_cons (m : Nat) (w : HW) (n : Nat) : ∃ b bs, headBytes m w n = b :: bs := by
  cases w <;> exact ⟨_, _, rfl⟩

theorem protWire_bytes_cons (p : GoMap) : ∃ b bs, (protWire p).bytes = b :: bs := by
  obtain ⟨b, bs, h⟩ := headBytes_cons 2 (HW.shortest (protContent p).length) (protContent p).length
  exact ⟨b, bs ++ protContent p, by simp only [protWire, Wire.bytes, h, List.cons_append]⟩

theorem umapWire_bytes_cons (u : GoMap) : ∃ b bs, (umapWire u).bytes = b :: bs := by
  obtain ⟨b, bs, h⟩ := headBytes_cons 5 (HW.shortest u.length)
    ((sortEntries u).map centryWire).length
  exact ⟨b, bs ++ Wire.bytesPairs ((sortEntries u).map centryWire),
    by simp only [umapWire, Wire.bytes, h, List.cons_append]⟩

theorem encodeList_cnorm (cfg : EncCfg) : ∀ xs : List GoVal,
    (∀ x ∈ xs, encodeAny cfg (cnorm x) = some (cwire x).bytes) →
    encodeList cfg (xs.map cnorm) = some (Wire.bytesList (xs.map cwire))
  | [], _ => by simp only [encodeList, List.map_nil, Wire.bytesList]
  | x :: xs, h => by
    have h1 := h x (List.mem_cons_self ..)
    have h2 := encodeList_cnorm cfg xs (fun y hy => h y (List.mem_cons_of_mem _ hy))
    simp only [List.map_cons, encodeList, h1, h2, Wire.bytesList]

/-- the decoded form re-encodes to the very same bytes (the retained raw buckets are emitted
    verbatim) -/
theorem reencode_cnorm : ∀ (v : GoVal) (d : Nat), CsigOK d v →
    encodeAny encCfg (cnorm v) = some (cwire v).bytes := by
  intro v
  induction v using cs_ind with
  | hcsig rp p ru u sg ih =>
    intro d h
    simp only [CsigOK, hPairs_iff] at h
    obtain ⟨-, -, ⟨s, rfl, hsne, -⟩, -, hp, -, -, hiv, hm⟩ := h
    have hiv' : encCfg.ensureIV ((sortEntries p).map decEntryN) ((sortEntries u).map cnormEntry)
        = true := ensureIV_cdecoded hp.1 (fun e he => (hm e he).1) hiv
    obtain ⟨b1, bs1, h1⟩ := protWire_bytes_cons p
    obtain ⟨b2, bs2, h2⟩ := umapWire_bytes_cons u
    rw [cnorm_csig, cwire_csig, Accept.arr3_bytes, sigWire_bytes, h1, h2]
    cases s with
    | nil => exact absurd rfl hsne
    | cons x xs =>
      simp only [encodeAny, hiv', Bool.not_true, Bool.false_eq_true, if_false, encodeBucket]
  | hcsigs cs ih =>
    intro d h
    simp only [CsigOK, csigElems_iff] at h
    obtain ⟨-, -, -, hel⟩ := h
    rw [cnorm_csigs, cwire_csigs]
    simp only [encodeAny, encodeList_cnorm encCfg cs (fun x hx => ih x hx (d + 1) (hel x hx).2),
      Wire.bytes, List.length_map, encHead]
  | hother v hn =>
    intro d h
    rw [h.isCs] at hn
    cases hn

/-! ### relation to the flat / nested data model -/

theorem HMap.of_nested {d : Nat} {h : GoMap} (hf : NestedMapAt d h) (hu : ∀ e ∈ h, UintOK e.2) :
    HMap d h :=
  fun e he => ⟨(hf e he).1, .inl ⟨(hf e he).2, hu e he⟩⟩

theorem HMap.of_flat (d : Nat) {h : GoMap} (hf : FlatMap h) (hu : ∀ e ∈ h, UintOK e.2) :
    HMap d h :=
  HMap.of_nested (nestedMapAt_of_flat d hf) hu

theorem centryWire_of_rt {d : Nat} {e : GoVal × GoVal} (h : RTVal d e.2) :
    centryWire e = entryWireN e := by
  simp only [centryWire, entryWireN, cwire_other (isCs_rtVal h)]

theorem cnormEntry_of_rt {d : Nat} {e : GoVal × GoVal} (h : RTVal d e.2) :
    cnormEntry e = normEntryN e := by
  simp only [cnormEntry, normEntryN, cnorm_other (isCs_rtVal h)]

/-- on a bucket without countersignature values the item and the normal form are the ones of
    `Deep/NestedBuckets.lean` -/
theorem umapWire_of_nested {d : Nat} {h : GoMap} (hf : NestedMapAt d h) :
    umapWire h = mapWireN h ∧ (sortEntries h).map cnormEntry = (sortEntries h).map normEntryN := by
  have hs := NestedMapAt.sorted hf
  constructor
  · simp only [umapWire, mapWireN]
    congr 1
    exact List.map_congr_left (fun e he => centryWire_of_rt (hs e he).2)
  · exact List.map_congr_left (fun e he => cnormEntry_of_rt (hs e he).2)

end CsigRT

/-! ## headline theorems -/

namespace C08
open CsigRT

/-- 2. COUNTERSIGNATURE VALUES: for `CsigOK d v` the encoder emits ONE item `w = cwire v` — the
    3-array `[bstr protected, map unprotected, bstr signature]`, resp. an array of those — well
    formed, within the parser's limits at depth `d`, tag-free, and the countersignature branch of
    the unprotected-bucket decoder (`unmarshalAsCountersignature`) returns the normal form
    `cnorm v`. -/
theorem csig_value_roundtrip (d : Nat) (v : GoVal) (hv : CsigOK d v) :
    ∃ w : Wire, encodeAny encCfg v = some w.bytes ∧ w = cwire v ∧ w.wf = true ∧
      (∀ t, w.inLimits t d = true) ∧ w.hasTag = false ∧ decCsigValue w = .ok (cnorm v) := by
  obtain ⟨h1, h2, h3, h4, h5, -⟩ := cok_of_csigOK v d hv
  exact ⟨cwire v, h1, rfl, h2, h3, h4, h5⟩

/-- 2, spelt out for ONE countersignature: the item is
    `[bstr P, map U, bstr sig]` where `P`, `U` are exactly the bytes `MarshalProtected` /
    `MarshalUnprotected` emit for its buckets; the decoded value is a `Countersignature` whose
    retained raw bytes are `P` and `U`, whose protected map is the sorted, retyped (`decEntryN`:
    labels `int64`, `alg` as `Algorithm`) form of `p`, whose unprotected map is the sorted
    entry-wise normal form of `u` (countersignatures inside it again in decoded form), and whose
    signature is `sig`. -/
theorem csig_value_roundtrip_single (d : Nat) (p u : GoMap) (sig : Bytes)
    (hv : CsigOK d (.csig none p none u (some sig))) :
    ∃ (P U : Bytes) (wp wu : Wire),
      encodeBucket encCfg true none p = some P ∧ encodeBucket encCfg false none u = some U ∧
      P = wp.bytes ∧ U = wu.bytes ∧ wp = protWire p ∧ wu = umapWire u ∧
      encodeAny encCfg (.csig none p none u (some sig))
        = some (Wire.arr .imm [wp, wu, .bstr (HW.shortest sig.length) sig]).bytes ∧
      (Wire.arr .imm [wp, wu, .bstr (HW.shortest sig.length) sig]).bytes
        = 0x83 :: (P ++ (U ++ encBstr sig)) ∧
      decProtected wp = .ok ((sortEntries p).map decEntryN) ∧
      decUnprot wu = .ok ((sortEntries u).map cnormEntry) ∧
      decCsigValue (.arr .imm [wp, wu, .bstr (HW.shortest sig.length) sig])
        = .ok (.csig (some P) ((sortEntries p).map decEntryN)
                 (some U) ((sortEntries u).map cnormEntry) (some sig)) := by
  obtain ⟨h1, -, -, -, h5, -⟩ := cok_of_csigOK _ d hv
  simp only [CsigOK, hPairs_iff] at hv
  obtain ⟨-, -, -, hd, hp, hvu, hlen, -, hm⟩ := hv
  obtain ⟨hpe, -, hpd⟩ := prot_ok hp
  obtain ⟨hue, -, -, -, hud⟩ := ubucket_ok (d + 1) u
    (hmap_entries hm hvu (fun e _ => cok_of_csigOK e.2 (d + 2))) hvu
    (validate_sorted_cnorm hm hvu) hlen hd
  rw [cwire_csig] at h1 h5
  rw [cnorm_csig] at h5
  refine ⟨_, _, protWire p, umapWire u, hpe, hue, rfl, rfl, rfl, rfl, h1, ?_, hpd, hud, h5⟩
  rw [Accept.arr3_bytes]
  rfl

/-- 2, at top level: the bytes of a `CsigOK 0` value parse (in either decode mode) to the item -/
theorem csig_value_roundtrip_top (v : GoVal) (hv : CsigOK 0 v) :
    ∃ w : Wire, encodeAny encCfg v = some w.bytes ∧ (∀ t, parseTop t w.bytes = some w) ∧
      decCsigValue w = .ok (cnorm v) := by
  obtain ⟨w, h1, -, h2, h3, -, h5⟩ := csig_value_roundtrip 0 v hv
  exact ⟨w, h1, fun t => parseTop_complete h2 (h3 t), h5⟩

/-- a validated bucket of the region IS encoded (`he` below is not an extra assumption) -/
theorem bucket_encodes_csig (h : GoMap) (hf : HMap 1 h)
    (hv : validateHeaderParameters h false = true) (hlen : h.length ≤ maxElems) :
    encodeBucket encCfg false none h = some (umapWire h).bytes :=
  (ubucket_ok 0 h (hmap_entries hf hv (fun e _ => cok_of_csigOK e.2 1)) hv
    (validate_sorted_cnorm hf hv) hlen (by unfold maxNested; omega)).1

/-- 3. UNPROTECTED BUCKET WITH COUNTERSIGNATURES (`unprotected_bucket_roundtrip` for a map whose
    entries are flat / nested EXCEPT that labels 7 and 11 may carry `CsigOK` values):
    `MarshalUnprotected` emits the map item `umapWire h`, which parses in either mode, is
    tag-free, and `UnprotectedHeader.UnmarshalCBOR` accepts it and returns the entry-wise normal
    form (labels normalised, scalar values as the generic decoder types them, countersignatures
    in decoded form `cnorm`), in wire order. -/
theorem unprotected_bucket_roundtrip_csig (h : GoMap) (hf : HMap 1 h)
    (hv : validateHeaderParameters h false = true) (hlen : h.length ≤ maxElems) (b : Bytes)
    (he : encodeBucket encCfg false none h = some b) :
    ∃ (w : Wire) (m : GoMap), b = w.bytes ∧ w = umapWire h ∧ (∀ t, parseTop t b = some w) ∧
      w.hasTag = false ∧ decUnprot w = .ok m ∧
      m = (sortEntries h).map cnormEntry ∧ m.Perm (h.map cnormEntry) := by
  obtain ⟨hue, hwf, hlim, htag, hdec⟩ :=
    ubucket_ok 0 h (hmap_entries hf hv (fun e _ => cok_of_csigOK e.2 1)) hv
      (validate_sorted_cnorm hf hv) hlen (by unfold maxNested; omega)
  rw [hue] at he
  cases he
  exact ⟨umapWire h, _, rfl, rfl, fun t => parseTop_complete hwf (hlim t), htag, hdec, rfl,
    (sortEntries_perm h).map cnormEntry⟩

/-- 3, for the caller-facing decoder `UnprotectedHeader.UnmarshalCBOR(data)` -/
theorem unprotected_unmarshal_roundtrip_csig (h : GoMap) (hf : HMap 1 h)
    (hv : validateHeaderParameters h false = true) (hlen : h.length ≤ maxElems) (b : Bytes)
    (he : encodeBucket encCfg false none h = some b) :
    Unprotected.unmarshal b = .ok ((sortEntries h).map cnormEntry) := by
  obtain ⟨w, m, hb, hw, hpt, htag, hdec, hm, -⟩ :=
    unprotected_bucket_roundtrip_csig h hf hv hlen b he
  subst hm
  have hb5 : ∃ b0 rest, b = b0 :: rest ∧ b0.toNat / 32 = 5 := by
    have hbb : b = headBytes 5 (HW.shortest h.length) h.length
        ++ Wire.bytesPairs ((sortEntries h).map centryWire) := by
      rw [hb, hw]
      simp only [umapWire, Wire.bytes, List.length_map, sortEntries_length]
    cases hc : b with
    | nil =>
      have h1 := congrArg List.length hbb
      rw [hc] at h1
      have h2 := headBytes_length_pos 5 (HW.shortest h.length) h.length
      simp only [List.length_nil, List.length_append] at h1
      omega
    | cons b0 rest =>
      exact ⟨b0, rest, rfl, C02.first_major (by omega) (shortest_fits_elems hlen) (hc.symm.trans hbb)⟩
  obtain ⟨b0, rest, hbc, hb0⟩ := hb5
  have hpt' := hpt true
  rw [hbc] at hpt'
  rw [hbc]
  simp only [Unprotected.unmarshal, hb0, ne_eq, not_true_eq_false, if_false, hpt', htag,
    Bool.false_eq_true, hdec]

/-- the decoded normal form of a `CsigOK` value re-encodes to the very same bytes: a decoded
    countersignature retains the raw bytes of both buckets and `MarshalCBOR` emits them verbatim
    (encode → decode → encode is the identity on the wire) -/
theorem csig_reencode_fixpoint (d : Nat) (v : GoVal) (hv : CsigOK d v) :
    encodeAny encCfg (cnorm v) = encodeAny encCfg v := by
  rw [reencode_cnorm v d hv, (cok_of_csigOK v d hv).1]

end C08

/-! ## COSE_Sign1 across the wire, countersignatures in the unprotected bucket -/

namespace CsigRT
open WireClosure

/-- the unprotected bucket inside a message: the map item sits at depth 1, so its values are met
    at depth 2 (`HMap 2`) -/
theorem unprot_itemC {u : GoMap} (hf : HMap 2 u) (hlen : u.length ≤ maxElems) {U : Bytes}
    (he : encodeBucket encCfg false none u = some U) :
    U = (umapWire u).bytes ∧ (umapWire u).wf = true ∧ (umapWire u).inLimits false 1 = true ∧
      decUnprot (umapWire u) = .ok ((sortEntries u).map cnormEntry) := by
  have hv := validate_of_encodeBucket he
  obtain ⟨hue, hwf, hlim, -, hdec⟩ :=
    ubucket_ok 1 u (hmap_entries hf hv (fun e _ => cok_of_csigOK e.2 2)) hv
      (validate_sorted_cnorm hf hv) hlen (by unfold maxNested; omega)
  rw [hue] at he
  cases he
  exact ⟨rfl, hwf, hlim false, hdec⟩

/-- CORE (the form of `NestedBuckets.sign1_decodes_nested` with countersignatures) -/
theorem sign1_decodes_csig (tagged : Bool) (p u : GoMap) (o : Option Bytes)
    (sig b P P' : Bytes)
    (hfp : NestedMap p) (hfu : HMap 2 u) (hup : ∀ e ∈ p, UintOK e.2)
    (hlp : p.length ≤ maxElems) (hlu : u.length ≤ maxElems)
    (ho : blen o < 18446744073709551616) (hsl : sig.length < 18446744073709551616)
    (hsne : sig ≠ [])
    (hP : marshalProtected { p := p, u := u } = .ok P) (hd : detBstr P = .ok P')
    (henc : Sign1.marshal tagged { h := { p := p, u := u }, payload := o, sig := some sig }
      = .ok b) :
    ∃ m2, Sign1.unmarshal tagged b = .ok m2 ∧ m2.payload = o ∧ m2.sig = some sig ∧
      marshalProtected m2.h = .ok P ∧ m2.h.p = (sortEntries p).map decEntryN ∧
      m2.h.u = (sortEntries u).map cnormEntry ∧ algorithmOf m2.h.p = algSpec p := by
  have hiv := ensureIV_of_marshal henc
  obtain ⟨P0, U, hz, hP0, hU, hb⟩ := C01.sign1_marshal_ok_inv henc
  have hP0' : marshalProtected { p := p, u := u } = .ok P0 := hP0
  rw [hP] at hP0'
  cases hP0'
  obtain ⟨-, heP⟩ := marshalProtected_ok_inv hP
  obtain ⟨-, heU⟩ := marshalUnprotected_ok_inv hU
  obtain ⟨hw, content, hPb, hpwf, hdp, halg⟩ := prot_itemN hfp hup hlp heP hd
  obtain ⟨hUb, huwf, hulim, hdu⟩ := unprot_itemC hfu hlu heU
  have hiv' := ensureIV_cdecoded hfp (fun e he => (hfu e he).1) hiv
  have hplwf := C01.shortItem_wf_of_lt o ho
  have hsgfit : (HW.shortest sig.length).fits sig.length = true := C02.shortest_fits hsl
  have hwf : (Wire.arr .imm [.bstr hw content, umapWire u, C09.shortItem o,
      .bstr (HW.shortest sig.length) sig]).wf = true := by
    have h4 : HW.fits .imm 4 = true := by decide
    simp only [Wire.wf] at hpwf
    simp [Wire.wf, Wire.wfList, h4, hpwf, huwf, hplwf, hsgfit]
  have hlim : (Wire.arr .imm [.bstr hw content, umapWire u, C09.shortItem o,
      .bstr (HW.shortest sig.length) sig]).inLimits false 0 = true := by
    simp [Wire.inLimits, Wire.inLimitsList, maxNested, maxElems, hulim, C09.shortItem_inLimits]
  have hpl : WFPayload (C09.shortItem o) := by
    cases o with
    | none => exact .inl rfl
    | some x => exact .inr ⟨_, _, rfl⟩
  have hacc := C07.wf_sign1_accepted_full tagged hwf hlim hdp hdu hiv' hpl hsne
  have hbytes : b = (if tagged then [0xd2] else []) ++ (Wire.arr .imm [.bstr hw content,
      umapWire u, C09.shortItem o, .bstr (HW.shortest sig.length) sig]).bytes := by
    rw [hb, hPb, hUb]
    have := C09.marshal_tree_bytes (.bstr hw content) (umapWire u) o (some sig) hz
    simp only [Option.getD_some] at this ⊢
    rw [this]
    rfl
  rw [← hbytes] at hacc
  refine ⟨_, hacc, ?_, rfl, ?_, rfl, rfl, halg⟩
  · cases o <;> rfl
  · exact (Verifies.marshalProtected_raw (p := .bstr hw content) rfl
      (C01.decProtected_modelled hdp)).trans (by rw [hPb])

/-- common part of the attached and the detached flow: `o` is the payload field that is emitted -/
theorem sign1_wire_csig_core (tagged : Bool) (m : Sign1Msg) (ext : Option Bytes) (s : Signer)
    (v : Verifier) (o : Option Bytes) (b : Bytes) (hm : C01.Matches s v)
    (hrp : m.h.rawP = none) (hru : m.h.rawU = none)
    (hfp : NestedMap m.h.p) (hfu : HMap 2 m.h.u) (hup : ∀ e ∈ m.h.p, UintOK e.2)
    (hlp : m.h.p.length < maxElems) (hlu : m.h.u.length ≤ maxElems)
    (ho : blen o < 18446744073709551616) (halg : int64Range s.alg)
    (hsl : ∀ t sg, s.sign t = .ok sg → sg.length < 18446744073709551616)
    (hok : (Sign1.sign m ext s).out = .ok ())
    (henc : Sign1.marshal tagged { (Sign1.sign m ext s).state with payload := o } = .ok b) :
    ∃ m2, Sign1.unmarshal tagged b = .ok m2 ∧ m2.payload = o ∧
      m2.sig = (Sign1.sign m ext s).state.sig ∧
      (Sign1.verify { m2 with payload := m.payload } ext v).1 = .ok () ∧
      m2.h.p = (sortEntries (Sign1.sign m ext s).state.h.p).map decEntryN ∧
      m2.h.u = (sortEntries m.h.u).map cnormEntry ∧
      (algorithmOf m2.h.p = .found s.alg ∨
        (algorithmOf m.h.p = .notFound ∧ (ext.getD []).length > 0 ∧
          algorithmOf m2.h.p = .notFound)) := by
  obtain ⟨p', tbs, sig, hpn, hgate, ht, hsg, hst⟩ := C01.sign1_sign_ok_inv m ext s hok
  obtain ⟨⟨rp, p, ru, u⟩, pay, sg0⟩ := m
  simp only at hrp hru hfp hfu hup hlp hlu hpn hgate ht hst
  subst hrp hru
  rw [hst] at henc ⊢
  obtain ⟨P, P', hP, hd, rfl⟩ := C01.toBeSigned1_ok_inv ht
  obtain ⟨hfp', hup', hlp', hcase⟩ := sign_gate_nested (d := 1) hgate hfp hup halg
  obtain ⟨m2, hdec, hpay, hs2, hP2, hp2, hu2, ha2⟩ :=
    sign1_decodes_csig tagged p' u o sig b P P' hfp' hfu hup' (by omega) hlu ho
      (hsl _ _ hsg) (hm.nonempty _ _ hsg) hP hd henc
  have hgv := C01.gate_after_sign _ _ _ _ _ hgate (C01.algorithmOf_set _ _)
  have hne : algorithmOf p' ≠ .failed .invalidAlg := by
    intro hc
    simp [ensureVerificationAlgorithm, hc] at hgv
  have heq : algorithmOf m2.h.p = algorithmOf p' := by
    rw [ha2, algSpec_eq_algorithmOf p' hne]
  have hgate2 : ensureVerificationAlgorithm m2.h.p v.alg ext = .ok () := by
    unfold ensureVerificationAlgorithm at hgv ⊢
    rw [heq, hm.alg]
    exact hgv
  refine ⟨m2, hdec, hpay, hs2, ?_, hp2, hu2, ?_⟩
  · exact C01.verify_of_same_tbs { m2 with payload := pay } ext s v P P' sig pay hm hP2 hd rfl hpn
      hs2 hsg hgate2
  · rw [heq]
    exact hcase

end CsigRT

namespace C01
open CsigRT

/-- 4. COSE_Sign1, END TO END (tagged or untagged), COUNTERSIGNATURES IN THE UNPROTECTED BUCKET:
    `sign1_wire_flat` / `sign1_wire_nested` for a message whose unprotected bucket carries, under
    labels 7 and / or 11, `CsigOK` countersignature values (single or list, nested to any depth
    the decoder admits): a message the library signed and encoded is decoded by the library, the
    decoded message verifies under the matching verifier with the same external data, carries the
    signed payload and the signer's signature, and its unprotected map is the entry-wise normal
    form — every countersignature in decoded form (`cnorm`). -/
theorem sign1_wire_csig (tagged : Bool) (m : Sign1Msg) (ext : Option Bytes) (s : Signer)
    (v : Verifier) (b : Bytes) (hm : Matches s v)
    (hrp : m.h.rawP = none) (hru : m.h.rawU = none)
    (hfp : NestedMap m.h.p) (hfu : HMap 2 m.h.u) (hup : ∀ e ∈ m.h.p, UintOK e.2)
    (hlp : m.h.p.length < maxElems) (hlu : m.h.u.length ≤ maxElems)
    (hpl : blen m.payload < 18446744073709551616) (halg : int64Range s.alg)
    (hsl : ∀ t sg, s.sign t = .ok sg → sg.length < 18446744073709551616)
    (hok : (Sign1.sign m ext s).out = .ok ())
    (henc : Sign1.marshal tagged (Sign1.sign m ext s).state = .ok b) :
    ∃ m2, Sign1.unmarshal tagged b = .ok m2 ∧ (Sign1.verify m2 ext v).1 = .ok () ∧
      m2.payload = m.payload ∧ m2.sig = (Sign1.sign m ext s).state.sig ∧
      m2.h.p = (sortEntries (Sign1.sign m ext s).state.h.p).map decEntryN ∧
      m2.h.u = (sortEntries m.h.u).map cnormEntry := by
  obtain ⟨_, _, _, -, -, -, -, hst⟩ := sign1_sign_ok_inv m ext s hok
  have hpayst : (Sign1.sign m ext s).state.payload = m.payload := by rw [hst]
  have henc' : Sign1.marshal tagged { (Sign1.sign m ext s).state with payload := m.payload }
      = .ok b := by
    rw [← hpayst]; exact henc
  obtain ⟨m2, hdec, hpay, hs2, hver, hp2, hu2, -⟩ :=
    sign1_wire_csig_core tagged m ext s v m.payload b hm hrp hru hfp hfu hup hlp hlu hpl
      halg hsl hok henc'
  refine ⟨m2, hdec, ?_, hpay, hs2, hp2, hu2⟩
  obtain ⟨h2, pay2, sg2⟩ := m2
  simp only at hpay
  subst hpay
  exact hver

/-- 4, detached payload -/
theorem sign1_wire_detached_csig (tagged : Bool) (m : Sign1Msg) (ext : Option Bytes)
    (s : Signer) (v : Verifier) (b : Bytes) (hm : Matches s v)
    (hrp : m.h.rawP = none) (hru : m.h.rawU = none)
    (hfp : NestedMap m.h.p) (hfu : HMap 2 m.h.u) (hup : ∀ e ∈ m.h.p, UintOK e.2)
    (hlp : m.h.p.length < maxElems) (hlu : m.h.u.length ≤ maxElems)
    (halg : int64Range s.alg)
    (hsl : ∀ t sg, s.sign t = .ok sg → sg.length < 18446744073709551616)
    (hok : (Sign1.sign m ext s).out = .ok ())
    (henc : Sign1.marshal tagged { (Sign1.sign m ext s).state with payload := none } = .ok b) :
    ∃ m2, Sign1.unmarshal tagged b = .ok m2 ∧
      (Sign1.verify { m2 with payload := m.payload } ext v).1 = .ok () ∧ m2.payload = none ∧
      m2.sig = (Sign1.sign m ext s).state.sig ∧
      m2.h.u = (sortEntries m.h.u).map cnormEntry := by
  obtain ⟨m2, hdec, hpay, hs2, hver, -, hu2, -⟩ :=
    sign1_wire_csig_core tagged m ext s v none b hm hrp hru hfp hfu hup hlp hlu
      (by simp [blen]) halg hsl hok henc
  exact ⟨m2, hdec, hver, hpay, hs2, hu2⟩

end C01

/-! ## non-vacuity -/

namespace CsigExamples
open CsigRT

def cs1 : GoVal := .csig none [(lbl 1, .alg (-7))] none [(lbl 4, .bytes [0x32])] (some [1, 2])
def cs2 : GoVal := .csig none [(lbl 1, .alg (-8))] none [] (some [3])
def exU1 : GoMap := [(lbl 4, .bytes [0x31, 0x31]), (lbl 11, .csigs [cs1, cs2])]
def exU2 : GoMap := [(lbl 7, cs1)]

theorem exP7_enc :
    encodeBucket encCfg true none [(lbl 1, .alg (-7))] = some [0x43, 0xa1, 0x01, 0x26] := by
  simp [encodeBucket, encCfg, validateHeaderParameters, validateLoop, normalizeLabel, wrap64,
    checkParam, lbl, encodePairs, encodeAny, encInt, encHead, encBstr, HW.shortest, headBytes,
    sortPairs, concatPairs]

theorem exP8_enc :
    encodeBucket encCfg true none [(lbl 1, .alg (-8))] = some [0x43, 0xa1, 0x01, 0x27] := by
  simp [encodeBucket, encCfg, validateHeaderParameters, validateLoop, normalizeLabel, wrap64,
    checkParam, lbl, encodePairs, encodeAny, encInt, encHead, encBstr, HW.shortest, headBytes,
    sortPairs, concatPairs]

theorem exU4_enc :
    encodeBucket encCfg false none [(lbl 4, .bytes [0x32])] = some [0xa1, 0x04, 0x41, 0x32] := by
  simp [encodeBucket, encCfg, validateHeaderParameters, validateLoop, normalizeLabel, wrap64,
    checkParam, lbl, canBstr, encodePairs, encodeAny, encInt, encHead, encBstr, HW.shortest, headBytes,
    sortPairs, concatPairs, wellformedNoTags, parseTop, fuelFor, parseItem, parsePairs, parseHead,
    maxNested, maxElems]

theorem protOK_alg (a : Int) (P : Bytes) (ha : int64Range a)
    (he : encodeBucket encCfg true none [(lbl 1, .alg a)] = some P)
    (hl : P.length < 18446744073709551616) : ProtOK [(lbl 1, .alg a)] := by
  refine ⟨?_, ?_, ?_, by simp [maxElems], ?_⟩
  · intro e he
    simp only [List.mem_singleton] at he
    subst he
    exact ⟨by simp [lbl, FlatLabel, int64Range], by simpa [RTVal, FlatVal] using ha⟩
  · intro e he
    simp only [List.mem_singleton] at he
    subst he
    simp [UintOK]
  · simp [validateHeaderParameters, validateLoop, normalizeLabel, wrap64, checkParam, lbl]
  · intro b hb
    rw [he] at hb
    cases hb
    exact hl

theorem cs1_ok (d : Nat) (hd : d + 2 ≤ maxNested) : CsigOK d cs1 := by
  simp only [cs1, CsigOK, hPairs_iff]
  refine ⟨trivial, trivial, ⟨_, rfl, by simp, by simp⟩, hd,
    protOK_alg _ _ (by simp [int64Range]) exP7_enc (by simp), ?_, by simp [maxElems], ?_, ?_⟩
  · simp [validateHeaderParameters, validateLoop, normalizeLabel, wrap64, checkParam, lbl, canBstr]
  · simp [ensureIV, hasLabel, lookupLabel, GoMap.lookup, lbl, GoVal.keyEq, normalizeLabel, wrap64]
  · intro e he
    simp only [List.mem_singleton] at he
    subst he
    exact ⟨by simp [lbl, FlatLabel, int64Range], .inl ⟨by simp [RTVal, FlatVal], by simp [UintOK]⟩⟩

theorem cs2_ok (d : Nat) (hd : d + 2 ≤ maxNested) : CsigOK d cs2 := by
  simp only [cs2, CsigOK, hPairs_iff]
  refine ⟨trivial, trivial, ⟨_, rfl, by simp, by simp⟩, hd,
    protOK_alg _ _ (by simp [int64Range]) exP8_enc (by simp), ?_, by simp [maxElems], ?_, ?_⟩
  · rfl
  · simp [ensureIV, hasLabel, lookupLabel, GoMap.lookup, lbl, GoVal.keyEq, normalizeLabel, wrap64]
  · intro e he
    cases he

theorem exU1_hmap (d : Nat) (hd : d + 3 ≤ maxNested) : HMap d exU1 := by
  intro e he
  simp only [exU1, List.mem_cons, List.not_mem_nil, or_false] at he
  rcases he with rfl | rfl
  · exact ⟨by simp [lbl, FlatLabel, int64Range], .inl ⟨by simp [RTVal, FlatVal], by simp [UintOK]⟩⟩
  · refine ⟨by simp [lbl, FlatLabel, int64Range],
      .inr ⟨by simp [isCsigLabel, lbl, normalizeLabel, wrap64], ?_⟩⟩
    simp only [CsigOK, csigElems_iff]
    refine ⟨by simp, by simp [maxElems], by omega, ?_⟩
    intro x hx
    simp only [List.mem_cons, List.not_mem_nil, or_false] at hx
    rcases hx with rfl | rfl
    · exact ⟨rfl, cs1_ok (d + 1) (by omega)⟩
    · exact ⟨rfl, cs2_ok (d + 1) (by omega)⟩

theorem exU2_hmap (d : Nat) (hd : d + 2 ≤ maxNested) : HMap d exU2 := by
  intro e he
  simp only [exU2, List.mem_singleton] at he
  subst he
  exact ⟨by simp [lbl, FlatLabel, int64Range],
    .inr ⟨by simp [isCsigLabel, lbl, normalizeLabel, wrap64], cs1_ok d hd⟩⟩

theorem exU1_valid : validateHeaderParameters exU1 false = true := by
  simp [exU1, cs1, cs2, validateHeaderParameters, validateLoop, normalizeLabel, wrap64, checkParam, lbl,
    canBstr, isCsigValue, GoVal.keyEq]

theorem exU2_valid : validateHeaderParameters exU2 false = true := by
  simp [exU2, cs1, validateHeaderParameters, validateLoop, normalizeLabel, wrap64, checkParam, lbl,
    isCsigValue]

def cs1Bytes : Bytes := [0x83, 0x43, 0xa1, 0x01, 0x26, 0xa1, 0x04, 0x41, 0x32, 0x42, 0x01, 0x02]
def cs2Bytes : Bytes := [0x83, 0x43, 0xa1, 0x01, 0x27, 0xa0, 0x41, 0x03]

theorem cs1_enc : encodeAny encCfg cs1 = some cs1Bytes := by
  have hiv : encCfg.ensureIV [(lbl 1, .alg (-7))] [(lbl 4, .bytes [0x32])] = true := by
    simp [encCfg, ensureIV, hasLabel, lookupLabel, GoMap.lookup, lbl, GoVal.keyEq, normalizeLabel, wrap64]
  simp only [cs1, encodeAny, hiv, exP7_enc, exU4_enc]
  simp [cs1Bytes, encBstr, encHead, HW.shortest, headBytes]

theorem cs2_enc : encodeAny encCfg cs2 = some cs2Bytes := by
  have hiv : encCfg.ensureIV [(lbl 1, .alg (-8))] [] = true := by
    simp [encCfg, ensureIV, hasLabel, lookupLabel, GoMap.lookup, lbl, GoVal.keyEq, normalizeLabel, wrap64]
  simp only [cs2, encodeAny, hiv, exP8_enc, encodeBucket]
  simp [cs2Bytes, encBstr, encHead, HW.shortest, headBytes]

def exU1Bytes : Bytes := [0xa2, 0x04, 0x42, 0x31, 0x31, 0x0b, 0x82] ++ cs1Bytes ++ cs2Bytes
def exU2Bytes : Bytes := [0xa1, 0x07] ++ cs1Bytes

theorem exU1_enc : encodeBucket encCfg false none exU1 = some exU1Bytes := by
  have hv : encCfg.validate exU1 false = true := exU1_valid
  have hs : ∀ v1 v2 : Bytes, sortPairs [([4], v1), ([11], v2)] = [([4], v1), ([11], v2)] :=
    fun _ _ => List.mergeSort_of_pairwise (by simp; decide)
  simp only [exU1, lbl] at hv
  simp [exU1, encodeBucket, hv, encodePairs, encodeAny, encodeList, cs1_enc, cs2_enc, lbl, encInt,
    encBstr, encHead, HW.shortest, headBytes, hs, concatPairs, exU1Bytes, cs1Bytes, cs2Bytes,
    wellformedNoTags, parseTop, fuelFor, parseItem, parseItems, parsePairs, parseHead, maxNested,
    maxElems]

theorem exU2_enc : encodeBucket encCfg false none exU2 = some exU2Bytes := by
  have hv : encCfg.validate exU2 false = true := exU2_valid
  simp only [exU2, lbl] at hv
  simp [exU2, encodeBucket, hv, encodePairs, encodeAny, cs1_enc, lbl, encInt,
    encHead, HW.shortest, headBytes, sortPairs, concatPairs, exU2Bytes, cs1Bytes,
    wellformedNoTags, parseTop, fuelFor, parseItem, parseItems, parsePairs, parseHead, maxNested,
    maxElems]

theorem protWire_bytes_of {p : GoMap} {P : Bytes} (hp : ProtOK p)
    (he : encodeBucket encCfg true none p = some P) : (protWire p).bytes = P := by
  have := (prot_ok hp).1
  rw [he] at this
  exact (Option.some.inj this).symm

theorem umapWire_bytes_of (d : Nat) {u : GoMap} {U : Bytes} (hm : HMap (d + 1) u)
    (hv : validateHeaderParameters u false = true) (hlen : u.length ≤ maxElems)
    (hd : d + 1 ≤ maxNested) (he : encodeBucket encCfg false none u = some U) :
    (umapWire u).bytes = U := by
  have := (ubucket_ok d u (hmap_entries hm hv (fun e _ => cok_of_csigOK e.2 (d + 1))) hv
    (validate_sorted_cnorm hm hv) hlen hd).1
  rw [he] at this
  exact (Option.some.inj this).symm

def cs1N : GoVal :=
  .csig (some [0x43, 0xa1, 0x01, 0x26]) [(lbl 1, .alg (-7))]
    (some [0xa1, 0x04, 0x41, 0x32]) [(lbl 4, .bytes [0x32])] (some [1, 2])
def cs2N : GoVal :=
  .csig (some [0x43, 0xa1, 0x01, 0x27]) [(lbl 1, .alg (-8))] (some [0xa0]) [] (some [3])

theorem sortEntries_one (e : GoVal × GoVal) : sortEntries [e] = [e] := by simp [sortEntries]

theorem normVal_lbl (n : Int) : normVal (lbl n) = lbl n := rfl

theorem cnorm_bytes (b : Bytes) : cnorm (.bytes b) = .bytes b := rfl

theorem decEntryN_alg (a : Int) : decEntryN (lbl 1, .alg a) = (lbl 1, .alg a) := by
  simp [decEntryN, castEntry, normEntryN, normVal, normValN, lbl, GoVal.keyEq, algCast,
    IntKind.signed]

theorem cs1_norm : cnorm cs1 = cs1N := by
  have hok := cs1_ok 0 (by simp [maxNested])
  simp only [cs1, CsigOK, hPairs_iff] at hok
  obtain ⟨-, -, -, -, hp, hv, hlen, -, hm⟩ := hok
  rw [cs1, cnorm_csig, protWire_bytes_of hp exP7_enc,
    umapWire_bytes_of 1 hm hv hlen (by simp [maxNested]) exU4_enc, sortEntries_one,
    sortEntries_one]
  simp [cs1N, decEntryN_alg, cnormEntry, cnorm_bytes, normVal_lbl]

theorem cs2_norm : cnorm cs2 = cs2N := by
  have hok := cs2_ok 0 (by simp [maxNested])
  simp only [cs2, CsigOK, hPairs_iff] at hok
  obtain ⟨-, -, -, -, hp, -⟩ := hok
  rw [cs2, cnorm_csig, protWire_bytes_of hp exP8_enc, umapWire_nil_bytes, sortEntries_one]
  simp [cs2N, decEntryN_alg, sortEntries]

theorem exU1_sorted : sortEntries exU1 = exU1 :=
  sortEntries_of_sorted (by simp [exU1, EntryLe]; decide)

theorem exU1_norm : (sortEntries exU1).map cnormEntry
    = [(lbl 4, .bytes [0x31, 0x31]), (lbl 11, .csigs [cs1N, cs2N])] := by
  rw [exU1_sorted]
  simp [exU1, cnormEntry, cnorm_csigs, cs1_norm, cs2_norm, cnorm_bytes, normVal_lbl]

theorem exU2_norm : (sortEntries exU2).map cnormEntry = [(lbl 7, cs1N)] := by
  rw [exU2, sortEntries_one]
  simp [cnormEntry, cs1_norm, normVal_lbl]

/-- the emitted bytes, spelt out -/
example : exU1Bytes =
    [0xa2, 0x04, 0x42, 0x31, 0x31, 0x0b, 0x82,
     0x83, 0x43, 0xa1, 0x01, 0x26, 0xa1, 0x04, 0x41, 0x32, 0x42, 0x01, 0x02,
     0x83, 0x43, 0xa1, 0x01, 0x27, 0xa0, 0x41, 0x03] := rfl

example : exU2Bytes =
    [0xa1, 0x07, 0x83, 0x43, 0xa1, 0x01, 0x26, 0xa1, 0x04, 0x41, 0x32, 0x42, 0x01, 0x02] := rfl

/-- non-vacuity of `C08.unprotected_bucket_roundtrip_csig`, `{4: h'3131', 11: [cs1, cs2]}` -/
example : encodeBucket encCfg false none exU1 = some exU1Bytes ∧
    (∃ w, exU1Bytes = w.bytes ∧ (∀ t, parseTop t exU1Bytes = some w) ∧ w.hasTag = false ∧
      decUnprot w = .ok [(lbl 4, .bytes [0x31, 0x31]), (lbl 11, .csigs [cs1N, cs2N])]) ∧
    Unprotected.unmarshal exU1Bytes
      = .ok [(lbl 4, .bytes [0x31, 0x31]), (lbl 11, .csigs [cs1N, cs2N])] := by
  have hm := exU1_hmap 1 (by simp [maxNested])
  have hl : exU1.length ≤ maxElems := by simp [exU1, maxElems]
  refine ⟨exU1_enc, ?_, ?_⟩
  · obtain ⟨w, m, hb, -, hpt, htag, hdec, hmm, -⟩ :=
      C08.unprotected_bucket_roundtrip_csig exU1 hm exU1_valid hl _ exU1_enc
    rw [hmm, exU1_norm] at hdec
    exact ⟨w, hb, hpt, htag, hdec⟩
  · rw [C08.unprotected_unmarshal_roundtrip_csig exU1 hm exU1_valid hl _ exU1_enc, exU1_norm]

/-- … and `{7: cs1}` -/
example : encodeBucket encCfg false none exU2 = some exU2Bytes ∧
    (∃ w, exU2Bytes = w.bytes ∧ (∀ t, parseTop t exU2Bytes = some w) ∧ w.hasTag = false ∧
      decUnprot w = .ok [(lbl 7, cs1N)]) ∧
    Unprotected.unmarshal exU2Bytes = .ok [(lbl 7, cs1N)] := by
  have hm := exU2_hmap 1 (by simp [maxNested])
  have hl : exU2.length ≤ maxElems := by simp [exU2, maxElems]
  refine ⟨exU2_enc, ?_, ?_⟩
  · obtain ⟨w, m, hb, -, hpt, htag, hdec, hmm, -⟩ :=
      C08.unprotected_bucket_roundtrip_csig exU2 hm exU2_valid hl _ exU2_enc
    rw [hmm, exU2_norm] at hdec
    exact ⟨w, hb, hpt, htag, hdec⟩
  · rw [C08.unprotected_unmarshal_roundtrip_csig exU2 hm exU2_valid hl _ exU2_enc, exU2_norm]

/-- the value level: `cs1` alone -/
example : encodeAny encCfg cs1 = some cs1Bytes ∧
    ∃ w, cs1Bytes = w.bytes ∧ (∀ t, parseTop t cs1Bytes = some w) ∧ decCsigValue w = .ok cs1N := by
  obtain ⟨w, h1, h2, h3⟩ := C08.csig_value_roundtrip_top cs1 (cs1_ok 0 (by simp [maxNested]))
  rw [cs1_enc] at h1
  have hb := Option.some.inj h1
  rw [cs1_norm] at h3
  exact ⟨cs1_enc, w, hb, fun t => by rw [hb]; exact h2 t, h3⟩

/-! ### depth 2: a countersignature on a countersignature -/

/-- `Countersignature{protected {1: ES256}, unprotected {7: cs1}, signature h'09'}` -/
def cs3 : GoVal := .csig none [(lbl 1, .alg (-7))] none exU2 (some [9])

theorem cs3_ok (d : Nat) (hd : d + 4 ≤ maxNested) : CsigOK d cs3 := by
  simp only [cs3, CsigOK, hPairs_iff]
  refine ⟨trivial, trivial, ⟨_, rfl, by simp, by simp⟩, by omega,
    protOK_alg _ _ (by simp [int64Range]) exP7_enc (by simp), exU2_valid,
    by simp [exU2, maxElems], ?_, exU2_hmap (d + 2) (by omega)⟩
  simp [ensureIV, exU2, hasLabel, lookupLabel, GoMap.lookup, lbl, GoVal.keyEq, normalizeLabel,
    wrap64]

def cs3N : GoVal :=
  .csig (some [0x43, 0xa1, 0x01, 0x26]) [(lbl 1, .alg (-7))] (some exU2Bytes) [(lbl 7, cs1N)]
    (some [9])

theorem cs3_norm : cnorm cs3 = cs3N := by
  have hok := cs3_ok 0 (by simp [maxNested])
  simp only [cs3, CsigOK, hPairs_iff] at hok
  obtain ⟨-, -, -, -, hp, hv, hlen, -, hm⟩ := hok
  rw [cs3, cnorm_csig, protWire_bytes_of hp exP7_enc,
    umapWire_bytes_of 1 hm hv hlen (by simp [maxNested]) exU2_enc, sortEntries_one, exU2_norm]
  simp [cs3N, decEntryN_alg]

/-- the nested countersignature makes the round trip, and what comes back is spelt out: the inner
    countersignature is again in decoded form, with its own raw buckets retained -/
example : ∃ w, encodeAny encCfg cs3 = some w.bytes ∧
    w.bytes = 0x83 :: ([0x43, 0xa1, 0x01, 0x26] ++ (exU2Bytes ++ [0x41, 0x09])) ∧
    (∀ t, parseTop t w.bytes = some w) ∧ decCsigValue w = .ok cs3N ∧
    encodeAny encCfg cs3N = some w.bytes := by
  have hok := cs3_ok 0 (by simp [maxNested])
  obtain ⟨P, U, wp, wu, hP, hU, -, -, -, -, henc, hb, -, -, -⟩ :=
    C08.csig_value_roundtrip_single 0 _ _ _ hok
  obtain ⟨w, h1, h2, h3⟩ := C08.csig_value_roundtrip_top cs3 hok
  have hre := C08.csig_reencode_fixpoint 0 cs3 hok
  rw [cs3_norm] at h3 hre
  rw [exP7_enc] at hP
  rw [exU2_enc] at hU
  cases hP
  cases hU
  refine ⟨w, h1, ?_, h2, h3, hre.trans h1⟩
  have : some w.bytes = some (0x83 :: ([0x43, 0xa1, 0x01, 0x26] ++ (exU2Bytes ++ encBstr [9]))) := by
    rw [← h1, ← hb]; exact henc
  exact Option.some.inj this

/-! ### why the label clause is needed -/

/-- why `isCsigLabel e.1` is part of the region: a `*Countersignature` stored under any OTHER label
    (here 99) is validated and encoded all the same, but the decoder only enters its
    countersignature branch for labels 7 and 11 — the value comes back as a generic array -/
theorem unprotected_bucket_roundtrip_csig_needs_label :
    validateHeaderParameters [(lbl 99, cs2)] false = true ∧
    encodeBucket encCfg false none [(lbl 99, cs2)]
      = some [0xa1, 0x18, 0x63, 0x83, 0x43, 0xa1, 0x01, 0x27, 0xa0, 0x41, 0x03] ∧
    Unprotected.unmarshal [0xa1, 0x18, 0x63, 0x83, 0x43, 0xa1, 0x01, 0x27, 0xa0, 0x41, 0x03]
      = .ok [(lbl 99, .arr [.bytes [0xa1, 0x01, 0x27], .map [], .bytes [3]])] := by
  have hv : validateHeaderParameters [(lbl 99, cs2)] false = true := by
    simp [validateHeaderParameters, validateLoop, normalizeLabel, wrap64, checkParam, lbl]
  refine ⟨hv, ?_, ?_⟩
  · have hv' : encCfg.validate [(GoVal.int .i64 99, cs2)] false = true := hv
    simp [encodeBucket, hv', encodePairs, encodeAny, cs2_enc, cs2Bytes, lbl, encInt, encHead,
      HW.shortest, headBytes, sortPairs, concatPairs, wellformedNoTags, parseTop, fuelFor,
      parseItem, parseItems, parsePairs, parseHead, maxNested, maxElems]
  · simp [Unprotected.unmarshal, parseTop, parseItem, parsePairs, parseItems, fuelFor, parseHead,
      maxNested, maxElems, Wire.hasTag, Wire.hasTagPairs, Wire.hasTagList, decUnprot, labelsOK,
      maxInt64, GoVal.keyEq, decUnprotPairs, decodeAny, decodeList, decodePairs, isCsigLabel,
      normalizeLabel, wrap64, validateHeaderParameters, validateLoop, checkParam, lbl,
      Wire.stripSelfDescribed,
      (by decide : headerLabelsUntagged (Wire.map .imm [(.uint .w1 99,
        .arr .imm [.bstr .imm [0xa1, 0x01, 0x27], .map .imm [], .bstr .imm [3]])]).bytes = true)]

end CsigExamples

namespace C01
open CsigRT CsigExamples

/-- COSE_Sign1 with protected `{1: ES256}`, unprotected `{4: h'3131', 11: [cs1, cs2]}` -/
def exCsm : Sign1Msg :=
  { h := { p := [(lbl 1, .alg (-7))], u := exU1 }, payload := some [1, 2, 3] }

theorem exCsm_mpP : marshalProtected exCsm.h = .ok [0x43, 0xa1, 0x01, 0x26] := by
  have hm : GoVal.modelledPairs [(lbl 1, .alg (-7))] = true := by
    simp [GoVal.modelledPairs, GoVal.modelled, lbl]
  simp [marshalProtected, exCsm, hm, exP7_enc]

theorem exCsm_mpU : marshalUnprotected exCsm.h = .ok exU1Bytes := by
  have hm : GoVal.modelledPairs exU1 = true := by
    simp [exU1, cs1, cs2, GoVal.modelledPairs, GoVal.modelled, GoVal.modelledList, lbl]
  simp [marshalUnprotected, exCsm, hm, exU1_enc]

theorem exCsm_det : detBstr [0x43, 0xa1, 0x01, 0x26] = .ok [0x43, 0xa1, 0x01, 0x26] := by
  simp [detBstr, parseTop, parseItem, fuelFor, parseHead]

theorem exCsm_sign : (Sign1.sign exCsm none exS7).out = .ok () ∧
    (Sign1.sign exCsm none exS7).state =
      { h := exCsm.h, payload := some [1, 2, 3], sig := some [7] } := by
  have hg : ensureSigningAlgorithm exCsm.h.rawP exCsm.h.p (-7) none = .ok exCsm.h.p := by rfl
  obtain ⟨t, ht⟩ : ∃ t, Sign1.toBeSigned
      { h := { rawP := exCsm.h.rawP, p := exCsm.h.p, rawU := exCsm.h.rawU, u := exCsm.h.u },
        payload := some [1, 2, 3] } none = .ok t :=
    ⟨_, toBeSigned1_of (m := { h := exCsm.h, payload := some [1, 2, 3] }) exCsm_mpP exCsm_det⟩
  have hp : exCsm.payload = some [1, 2, 3] := rfl
  have hs : exCsm.sig = none := rfl
  simp [Sign1.sign, hp, hs, blen, hg, ht, exS7]

theorem exCsm_marshal : Sign1.marshal true (Sign1.sign exCsm none exS7).state
    = .ok (0xd2 :: 0x84 :: ([0x43, 0xa1, 0x01, 0x26] ++ (exU1Bytes ++ [0x43, 1, 2, 3, 0x41, 7]))) := by
  have hiv : ensureIV exCsm.h.p exCsm.h.u = true := by
    simp [ensureIV, exCsm, exU1, hasLabel, lookupLabel, GoMap.lookup, GoVal.keyEq, lbl,
      normalizeLabel, wrap64]
  rw [exCsm_sign.2]
  simp [Sign1.marshal, Sign1.content, Hdrs.marshal, exCsm_mpP, exCsm_mpU, hiv, blen, bind,
    Out.bind, optBytesEnc, encBstr, encHead, HW.shortest, headBytes]

/-- non-vacuity of `sign1_wire_csig` -/
example : ∃ m2,
    Sign1.unmarshal true
      (0xd2 :: 0x84 :: ([0x43, 0xa1, 0x01, 0x26] ++ (exU1Bytes ++ [0x43, 1, 2, 3, 0x41, 7])))
      = .ok m2 ∧
    (Sign1.verify m2 none exV7).1 = .ok () ∧ m2.payload = some [1, 2, 3] ∧ m2.sig = some [7] ∧
    m2.h.u = [(lbl 4, .bytes [0x31, 0x31]), (lbl 11, .csigs [cs1N, cs2N])] := by
  obtain ⟨m2, hdec, hver, hpay, hsig, -, hu2⟩ :=
    sign1_wire_csig true exCsm none exS7 exV7 _ exSV7 rfl rfl
      (by
        intro e he
        simp only [exCsm, List.mem_singleton] at he
        subst he
        simp [lbl, FlatLabel, RTVal, FlatVal, int64Range])
      (exU1_hmap 2 (by simp [maxNested]))
      (by
        intro e he
        simp only [exCsm, List.mem_singleton] at he
        subst he
        simp [UintOK])
      (by simp [exCsm, maxElems]) (by simp [exCsm, exU1, maxElems]) (by simp [exCsm, blen])
      (by simp [exS7, int64Range]) (by intro t sg h; cases h; simp) exCsm_sign.1 exCsm_marshal
  refine ⟨m2, hdec, hver, hpay, by rw [hsig, exCsm_sign.2], ?_⟩
  rw [hu2]
  exact exU1_norm

end C01
