/-
  Deep/Chain — C01 completed: every successful signing operation is accepted by the matching
  verification operation.
  * COSE_Signature (one signer of a COSE_Sign), COSE_Sign with any number of signers,
    countersignatures (full and abbreviated) on every parent kind — in memory;
  * COSE_Sign1 and the hash envelope after a wire round trip.
  Crypto is the parameter `C01.Matches`.
-/
import CoseModel.Messages
import CoseModel.HashEnvelope
import CoseProofs.Props.C01
import CoseProofs.Props.C11
import CoseProofs.Deep.Reencode
import CoseProofs.Deep.Tbs
open CoseModel
namespace C01

/-! ### helpers -/

theorem blen_some_ne {sig : Bytes} (h : sig ≠ []) : blen (some sig) ≠ 0 := by
  cases sig with
  | nil => exact absurd rfl h
  | cons a r => simp [blen]

theorem isNone_false_of_not {o : Option Bytes} (h : ¬ o.isNone = true) : o.isNone = false := by
  cases o <;> simp_all

/-- what a successful `Signature.sign` did -/
theorem signature_sign_ok_inv (sg : SigV) (s : Signer) (bprot : Bytes) (payload ext : Option Bytes)
    (hok : (Signature.sign sg s bprot payload ext).out = .ok ()) :
    ∃ p' tbs sig, payload.isNone = false ∧ bodyProtOK bprot = true ∧
      ensureSigningAlgorithm sg.h.rawP sg.h.p s.alg ext = .ok p' ∧
      Signature.toBeSigned { sg with h := { sg.h with p := p' } } bprot payload ext = .ok tbs ∧
      s.sign tbs = .ok sig ∧
      (Signature.sign sg s bprot payload ext).state =
        { h := { sg.h with p := p' }, sig := some sig } := by
  have hdef := hok
  unfold Signature.sign at hok
  by_cases hp : payload.isNone
  · simp [hp] at hok
  · by_cases hg : blen sg.sig > 0
    · simp [hp, hg] at hok
    · by_cases hb : bodyProtOK bprot
      · simp only [hp, hg, hb, if_false, Bool.false_eq_true, Bool.not_true] at hok
        cases hgate : ensureSigningAlgorithm sg.h.rawP sg.h.p s.alg ext with
        | ok p' =>
          simp only [hgate] at hok
          cases ht : Signature.toBeSigned { sg with h := { sg.h with p := p' } } bprot payload ext with
          | ok tbs =>
            simp only [ht] at hok
            cases hsg : s.sign tbs with
            | ok sig =>
              by_cases hz : sig.length = 0
              · simp [hsg, hz] at hok
              · refine ⟨p', tbs, sig, isNone_false_of_not hp, hb, rfl, ht, hsg, ?_⟩
                simp only [Signature.sign, hp, hg, hb, hgate, ht, hsg, hz, if_false,
                  Bool.false_eq_true, Bool.not_true]
            | err e => simp [hsg] at hok
            | panic => simp [hsg] at hok
            | unmodelled => simp [hsg] at hok
          | err e => simp [ht] at hok
          | panic => simp [ht] at hok
          | unmodelled => simp [ht] at hok
        | err e => simp [hgate] at hok
        | panic => simp [hgate] at hok
        | unmodelled => simp [hgate] at hok
      · simp [hp, hg, hb] at hok

/-- 1. COSE_Signature (one signer of a COSE_Sign), in memory -/
theorem signature_then_verify (sg : SigV) (s : Signer) (v : Verifier) (bprot : Bytes)
    (payload ext : Option Bytes) (hm : Matches s v)
    (hok : (Signature.sign sg s bprot payload ext).out = .ok ()) :
    (Signature.verify (Signature.sign sg s bprot payload ext).state v bprot payload ext).1
      = .ok () := by
  obtain ⟨p', tbs, sig, hp, hb, hgate, ht, hsg, hst⟩ :=
    signature_sign_ok_inv sg s bprot payload ext hok
  rw [hst]
  have hv := gate_after_sign _ _ _ _ _ hgate (algorithmOf_set _ _)
  have hlen := blen_some_ne (hm.nonempty tbs sig hsg)
  have ht' : Signature.toBeSigned { h := { sg.h with p := p' }, sig := some sig } bprot payload ext
      = .ok tbs := ht
  simp only [Signature.verify, hp, hb, Bool.false_eq_true, if_false, hlen, hm.alg, hv, ht',
    Bool.not_true]
  simpa using hm.correct tbs sig hsg

/-! ### countersignatures -/

/-- what a successful `Countersignature.sign` did -/
theorem countersignature_sign_ok_inv (cs : SigV) (s : Signer) (parent : Parent) (ext : Option Bytes)
    (hok : (Countersignature.sign cs s parent ext).out = .ok ()) :
    ∃ p' tbs sig,
      ensureSigningAlgorithm cs.h.rawP cs.h.p s.alg ext = .ok p' ∧
      Countersignature.toBeSigned { cs with h := { cs.h with p := p' } } parent ext = .ok tbs ∧
      s.sign tbs = .ok sig ∧
      (Countersignature.sign cs s parent ext).state =
        { h := { cs.h with p := p' }, sig := some sig } := by
  unfold Countersignature.sign at hok
  by_cases hg : blen cs.sig > 0
  · simp [hg] at hok
  · simp only [hg, if_false] at hok
    cases hgate : ensureSigningAlgorithm cs.h.rawP cs.h.p s.alg ext with
    | ok p' =>
      simp only [hgate] at hok
      cases ht : Countersignature.toBeSigned { cs with h := { cs.h with p := p' } } parent ext with
      | ok tbs =>
        simp only [ht] at hok
        cases hsg : s.sign tbs with
        | ok sig =>
          by_cases hz : sig.length = 0
          · simp [hsg, hz] at hok
          · refine ⟨p', tbs, sig, rfl, ht, hsg, ?_⟩
            simp only [Countersignature.sign, hg, hgate, ht, hsg, hz, if_false]
        | err e => simp [hsg] at hok
        | panic => simp [hsg] at hok
        | unmodelled => simp [hsg] at hok
      | err e => simp [ht] at hok
      | panic => simp [ht] at hok
      | unmodelled => simp [ht] at hok
    | err e => simp [hgate] at hok
    | panic => simp [hgate] at hok
    | unmodelled => simp [hgate] at hok

/-- 3. full countersignatures, in memory, every parent kind (Sign1, Sign, Signature,
    Countersignature): whenever `Countersignature.Sign` succeeds, `Verify` on the same parent
    with the matching verifier and the same external data succeeds -/
theorem countersign_then_verify (cs : SigV) (s : Signer) (v : Verifier) (parent : Parent)
    (ext : Option Bytes) (hm : Matches s v)
    (hok : (Countersignature.sign cs s parent ext).out = .ok ()) :
    (Countersignature.verify (Countersignature.sign cs s parent ext).state v parent ext).1
      = .ok () := by
  obtain ⟨p', tbs, sig, hgate, ht, hsg, hst⟩ := countersignature_sign_ok_inv cs s parent ext hok
  rw [hst]
  have hv := gate_after_sign _ _ _ _ _ hgate (algorithmOf_set _ _)
  have hlen := blen_some_ne (hm.nonempty tbs sig hsg)
  have ht' : Countersignature.toBeSigned { h := { cs.h with p := p' }, sig := some sig } parent ext
      = .ok tbs := ht
  simp only [Countersignature.verify, hlen, if_false, hm.alg, hv, ht']
  simpa using hm.correct tbs sig hsg

/-- 3'. abbreviated countersignatures (`Countersign0` / `VerifyCountersign0`) -/
theorem countersign0_then_verify (s : Signer) (v : Verifier) (parent : Parent) (ext : Option Bytes)
    (sig : Bytes) (hm : Matches s v) (hok : (countersign0 s parent ext).1 = .ok sig) :
    (verifyCountersign0 v parent ext sig).1 = .ok () := by
  unfold countersign0 at hok
  unfold verifyCountersign0
  cases ht : countersignToBeSigned true parent [0x40] ext with
  | ok tbs =>
    simp only [ht] at hok ⊢
    cases hsg : s.sign tbs with
    | ok sg =>
      simp only [hsg] at hok
      split at hok
      · cases hok
      · cases hok; exact hm.correct tbs _ hsg
    | err e => simp [hsg] at hok
    | panic => simp [hsg] at hok
    | unmodelled => simp [hsg] at hok
  | err e => simp [ht] at hok
  | panic => simp [ht] at hok
  | unmodelled => simp [ht] at hok

/-- the abbreviated countersignature handed back is never empty -/
theorem countersign0_nonempty (s : Signer) (v : Verifier) (parent : Parent) (ext : Option Bytes)
    (sig : Bytes) (hm : Matches s v) (hok : (countersign0 s parent ext).1 = .ok sig) : sig ≠ [] := by
  unfold countersign0 at hok
  cases ht : countersignToBeSigned true parent [0x40] ext with
  | ok tbs =>
    simp only [ht] at hok
    cases hsg : s.sign tbs with
    | ok sg =>
      simp only [hsg] at hok
      split at hok
      · cases hok
      · cases hok; exact hm.nonempty tbs _ hsg
    | err e => simp [hsg] at hok
    | panic => simp [hsg] at hok
    | unmodelled => simp [hsg] at hok
  | err e => simp [ht] at hok
  | panic => simp [ht] at hok
  | unmodelled => simp [ht] at hok

/-! ### COSE_Sign, any number of signers -/

/-- when the signing loop reports success over lists of equal length, every slot holds the state
    left by `Signature.sign` on the original slot with the signer at the same position, and each
    of those calls succeeded -/
theorem signLoop_ok_inv (bprot : Bytes) (payload ext : Option Bytes) :
    ∀ (sgs : List SigV) (ss : List Signer), sgs.length = ss.length →
      (signLoop bprot payload ext sgs ss).2.1 = .ok () →
      ∃ hl : (signLoop bprot payload ext sgs ss).1.length = sgs.length,
        ∀ i (h1 : i < sgs.length) (h2 : i < ss.length),
          (signLoop bprot payload ext sgs ss).1[i]'(hl ▸ h1) =
            (Signature.sign sgs[i] ss[i] bprot payload ext).state ∧
          (Signature.sign sgs[i] ss[i] bprot payload ext).out = .ok ()
  | [], [], _, _ => by
    refine ⟨by simp [signLoop], ?_⟩
    intro i h1; simp at h1
  | sg :: sgs, s :: ss, hlen, hok => by
    unfold signLoop at hok
    cases ho : (Signature.sign sg s bprot payload ext).out with
    | ok u =>
      cases u
      simp only [ho] at hok
      obtain ⟨hl, ih⟩ := signLoop_ok_inv bprot payload ext sgs ss (by simpa using hlen) hok
      have heq : (signLoop bprot payload ext (sg :: sgs) (s :: ss)).1 =
          (Signature.sign sg s bprot payload ext).state :: (signLoop bprot payload ext sgs ss).1 := by
        rw [signLoop]; simp only [ho]
      refine ⟨by rw [heq]; simp [hl], ?_⟩
      intro i h1 h2
      cases i with
      | zero => exact ⟨by simp only [heq, List.getElem_cons_zero], ho⟩
      | succ j =>
        simp only [heq, List.getElem_cons_succ]
        exact ih j (by simpa using h1) (by simpa using h2)
    | err e => simp [ho] at hok
    | panic => simp [ho] at hok
    | unmodelled => simp [ho] at hok
  | [], _ :: _, hlen, _ => by simp at hlen
  | _ :: _, [], hlen, _ => by simp at hlen

/-- the verification loop accepts what the signing loop produced, position by position -/
theorem signLoop_then_verifyLoop (bprot : Bytes) (payload ext : Option Bytes)
    (sgs : List SigV) (signers : List Signer) (verifiers : List Verifier)
    (hl1 : sgs.length = signers.length) (hl2 : signers.length = verifiers.length)
    (hm : ∀ i (h1 : i < signers.length) (h2 : i < verifiers.length),
      Matches signers[i] verifiers[i])
    (hok : (signLoop bprot payload ext sgs signers).2.1 = .ok ()) :
    (verifyLoop bprot payload ext (signLoop bprot payload ext sgs signers).1 verifiers).1
      = .ok () := by
  obtain ⟨hl, hall⟩ := signLoop_ok_inv bprot payload ext sgs signers hl1 hok
  rw [C11.verifyLoop_ok_iff bprot payload ext _ verifiers (by omega)]
  intro i h1 h2
  have hi : i < sgs.length := by omega
  have hi' : i < signers.length := by omega
  obtain ⟨hst, hout⟩ := hall i hi hi'
  rw [hst]
  exact signature_then_verify _ _ _ _ _ _ (hm i hi' h2) hout

/-- `Sign.sign` leaves headers and payload alone; on success the signature list is the loop's -/
theorem signmsg_sign_ok_inv (m : SignMsg) (ext : Option Bytes) (signers : List Signer)
    (hok : (Sign.sign m ext signers).out = .ok ()) :
    ∃ bprot, m.payload.isNone = false ∧ m.sigs.isEmpty = false ∧
      m.sigs.length = signers.length ∧ marshalProtected m.h = .ok bprot ∧
      (signLoop bprot m.payload ext m.sigs signers).2.1 = .ok () ∧
      (Sign.sign m ext signers).state =
        { m with sigs := (signLoop bprot m.payload ext m.sigs signers).1 } := by
  unfold Sign.sign at hok
  by_cases hp : m.payload.isNone
  · simp [hp] at hok
  · by_cases he : m.sigs.isEmpty
    · simp [hp, he] at hok
    · by_cases hl : m.sigs.length = signers.length
      · have hl' : ¬ (m.sigs.length ≠ signers.length) := by simp [hl]
        simp only [hp, he, hl', if_false, Bool.false_eq_true] at hok
        cases hb : marshalProtected m.h with
        | ok bprot =>
          simp only [hb] at hok
          refine ⟨bprot, isNone_false_of_not hp, by simpa using he, hl, rfl, hok, ?_⟩
          simp [Sign.sign, hp, he, hl, hb]
        | err e => simp [hb] at hok
        | panic => simp [hb] at hok
        | unmodelled => simp [hb] at hok
      · simp [hp, he, hl] at hok

/-- 2. COSE_Sign with ANY number of signers, in memory: whenever `SignMessage.Sign` succeeds,
    `SignMessage.Verify` with the positionally matching verifiers and the same external data
    succeeds -/
theorem signmsg_then_verify (m : SignMsg) (ext : Option Bytes) (signers : List Signer)
    (verifiers : List Verifier) (hlen : signers.length = verifiers.length)
    (hm : ∀ i (h1 : i < signers.length) (h2 : i < verifiers.length),
      Matches signers[i] verifiers[i])
    (hok : (Sign.sign m ext signers).out = .ok ()) :
    (Sign.verify (Sign.sign m ext signers).state ext verifiers).1 = .ok () := by
  obtain ⟨bprot, hp, he, hl, hb, hloop, hst⟩ := signmsg_sign_ok_inv m ext signers hok
  obtain ⟨hll, -⟩ := signLoop_ok_inv bprot m.payload ext m.sigs signers hl hloop
  have hv := signLoop_then_verifyLoop bprot m.payload ext m.sigs signers verifiers hl hlen hm hloop
  rw [hst]
  have hne : (signLoop bprot m.payload ext m.sigs signers).1.isEmpty = false := by
    cases hs : (signLoop bprot m.payload ext m.sigs signers).1 with
    | nil =>
      rw [hs] at hll
      cases hms : m.sigs with
      | nil => simp [hms] at he
      | cons a r => simp [hms] at hll
    | cons a r => rfl
  have hl3 : ¬ ((signLoop bprot m.payload ext m.sigs signers).1.length ≠ verifiers.length) := by
    simp [hll, hl, hlen]
  simp only [Sign.verify, hp, hne, hl3, hb, if_false, Bool.false_eq_true]
  exact hv

/-! ### the wire: decoded header maps are in the modelled region -/

/-- every key and value of the map is a value whose encoding the model mirrors -/
def MP (l : GoMap) : Prop := ∀ e ∈ l, e.1.modelled = true ∧ e.2.modelled = true

theorem modelledPairs_iff (l : GoMap) : GoVal.modelledPairs l = true ↔ MP l := by
  induction l with
  | nil => simp [GoVal.modelledPairs, MP]
  | cons e r ih =>
    obtain ⟨k, v⟩ := e
    unfold MP at ih ⊢
    simp only [GoVal.modelledPairs, Bool.and_eq_true, ih, List.forall_mem_cons]

mutual
theorem decodeAny_modelled : ∀ (w : Wire) (v : GoVal), decodeAny w = .ok v → v.modelled = true
  | .uint _ n, v, h => by
    unfold decodeAny at h; split at h <;> cases h; simp [GoVal.modelled]
  | .nint _ n, v, h => by
    unfold decodeAny at h; split at h <;> cases h; simp [GoVal.modelled]
  | .bstr _ b, v, h => by
    unfold decodeAny at h; cases h; simp [GoVal.modelled]
  | .tstr _ b, v, h => by
    unfold decodeAny at h; split at h <;> cases h; simp [GoVal.modelled]
  | .tag _ _ _, v, h => by simp [decodeAny] at h
  | .prim hw n, v, h => by
    cases hw <;> simp only [decodeAny] at h
    · repeat' split at h
      all_goals (cases h; simp [GoVal.modelled])
    all_goals first | (cases h; simp [GoVal.modelled]) | cases h
  | .arr _ xs, v, h => by
    unfold decodeAny at h
    cases hl : decodeList xs with
    | ok l =>
      simp only [hl] at h; cases h
      simp only [GoVal.modelled]
      exact decodeList_modelled xs l hl
    | err e => simp [hl] at h
    | panic => simp [hl] at h
    | unmodelled => simp [hl] at h
  | .map _ kvs, v, h => by
    unfold decodeAny at h
    cases hl : decodePairs kvs [] with
    | ok l =>
      simp only [hl] at h; cases h
      simp only [GoVal.modelled]
      exact (modelledPairs_iff l).mpr
        (decodePairs_modelled kvs [] l hl (by intro e he; cases he))
    | err e => simp [hl] at h
    | panic => simp [hl] at h
    | unmodelled => simp [hl] at h
theorem decodeList_modelled : ∀ (xs : List Wire) (l : List GoVal), decodeList xs = .ok l →
    GoVal.modelledList l = true
  | [], l, h => by unfold decodeList at h; cases h; simp [GoVal.modelledList]
  | x :: xs, l, h => by
    unfold decodeList at h
    cases hx : decodeAny x <;> cases hxs : decodeList xs <;> simp [hx, hxs] at h
    subst h
    simp [GoVal.modelledList, decodeAny_modelled x _ hx, decodeList_modelled xs _ hxs]
theorem decodePairs_modelled : ∀ (kvs : List (Wire × Wire)) (acc out : GoMap),
    decodePairs kvs acc = .ok out → MP acc → MP out
  | [], acc, out, h, hacc => by
    unfold decodePairs at h; cases h
    intro e he; exact hacc e (List.mem_reverse.mp he)
  | (k, v) :: r, acc, out, h, hacc => by
    unfold decodePairs at h
    cases hk : decodeAny k with
    | ok key =>
      have hkm := decodeAny_modelled k key hk
      simp only [hk] at h
      split at h
      · cases h
      · cases h
      · split at h
        · cases h
        · cases hv : decodeAny v with
          | ok value =>
            have hvm := decodeAny_modelled v value hv
            simp only [hv] at h
            split at h
            · cases h
            · refine decodePairs_modelled r _ out h ?_
              intro e he
              rcases List.mem_cons.mp he with rfl | he
              · exact ⟨hkm, hvm⟩
              · exact hacc e he
          | err e => simp [hv] at h
          | panic => simp [hv] at h
          | unmodelled => simp [hv] at h
    | err e => simp [hk] at h
    | panic => simp [hk] at h
    | unmodelled => simp [hk] at h
end

theorem MP_set {h : GoMap} {k v : GoVal} (hh : MP h) (hk : k.modelled = true)
    (hv : v.modelled = true) : MP (h.set k v) := by
  unfold GoMap.set
  split
  · intro e he
    obtain ⟨e0, he0, rfl⟩ := List.mem_map.mp he
    split
    · exact ⟨(hh e0 he0).1, hv⟩
    · exact hh e0 he0
  · intro e he
    rcases List.mem_append.mp he with he | he
    · exact hh e he
    · simp only [List.mem_singleton] at he; subst he; exact ⟨hk, hv⟩

theorem castAlg_MP {m : GoMap} (h : MP m) : MP (castAlg m) := by
  unfold castAlg
  split
  · exact MP_set h (by simp [lbl, GoVal.modelled]) (by simp [GoVal.modelled])
  · exact h

/-- a protected bucket accepted by the decoder holds only values of the modelled region -/
theorem decProtected_modelled {p : Wire} {pm : GoMap} (h : decProtected p = .ok pm) :
    GoVal.modelledPairs pm = true := by
  rw [modelledPairs_iff]
  unfold decProtected at h
  split at h
  · unfold decProtectedContent at h
    split at h
    · cases h; intro e he; cases he
    · split at h
      · cases h
      · split at h
        · rename_i hw' kvs hpt
          cases hl : labelsOK kvs [] with
          | ok u =>
            simp only [hl, bind, Out.bind] at h
            split at h
            · cases h
            cases hd : decodePairs kvs [] with
            | ok m0 =>
              simp only [hd] at h
              split at h
              · cases h
              · cases h
                exact castAlg_MP (decodePairs_modelled kvs [] m0 hd (by intro e he; cases he))
            | err e => simp [hd] at h
            | panic => simp [hd] at h
            | unmodelled => simp [hd] at h
          | err e => simp [hl, bind, Out.bind] at h
          | panic => simp [hl, bind, Out.bind] at h
          | unmodelled => simp [hl, bind, Out.bind] at h
        · cases h
  · cases h

/-! ### the wire: inversion of the encoder, matching against the decoder's tree -/

theorem hdrs_marshal_ok_inv {h : Hdrs} {x : Bytes × Bytes} (he : h.marshal = .ok x) :
    marshalProtected h = .ok x.1 ∧ marshalUnprotected h = .ok x.2 := by
  unfold Hdrs.marshal at he
  split at he
  · cases he
  · cases hp : marshalProtected h with
    | ok pb =>
      cases hu : marshalUnprotected h with
      | ok ub =>
        simp only [hp, hu, bind, Out.bind] at he
        cases he; exact ⟨rfl, rfl⟩
      | err e => simp [hp, hu, bind, Out.bind] at he
      | panic => simp [hp, hu, bind, Out.bind] at he
      | unmodelled => simp [hp, hu, bind, Out.bind] at he
    | err e => simp [hp, bind, Out.bind] at he
    | panic => simp [hp, bind, Out.bind] at he
    | unmodelled => simp [hp, bind, Out.bind] at he

/-- what a successful `Sign1.marshal` emitted -/
theorem sign1_marshal_ok_inv {tagged : Bool} {m : Sign1Msg} {b : Bytes}
    (he : Sign1.marshal tagged m = .ok b) :
    ∃ P U, blen m.sig ≠ 0 ∧ marshalProtected m.h = .ok P ∧ marshalUnprotected m.h = .ok U ∧
      b = C09.pre tagged ++ 0x84 :: (P ++ (U ++ (optBytesEnc m.payload ++ encBstr (m.sig.getD [])))) := by
  unfold Sign1.marshal Sign1.content at he
  split at he
  · simp [bind, Out.bind] at he
  · rename_i hz
    cases hh : m.h.marshal with
    | ok x =>
      obtain ⟨P, U⟩ := x
      obtain ⟨h1, h2⟩ := hdrs_marshal_ok_inv hh
      simp only [hh, bind, Out.bind] at he
      refine ⟨P, U, hz, h1, h2, ?_⟩
      cases tagged <;> simp [C09.pre] at he ⊢ <;> exact he.symm
    | err e => simp [hh, bind, Out.bind] at he
    | panic => simp [hh, bind, Out.bind] at he
    | unmodelled => simp [hh, bind, Out.bind] at he

/-- a well-formed byte-string item whose bytes are an encoder-emitted byte string holds that
    string — whatever its length (an over-long string cannot be the LAST item of a parse) -/
theorem bstr_eq_encBstr {w' : HW} {c' sig : Bytes} (hf : w'.fits c'.length = true)
    (h : headBytes 2 w' c'.length ++ c' = encBstr sig) : c' = sig := by
  by_cases hl : sig.length < 18446744073709551616
  · have := Reencode.bytes_inj (x := .bstr w' c') (y := .bstr (HW.shortest sig.length) sig)
      (by simpa [Wire.wf] using hf) (by simpa [Wire.wf] using Reencode.shortest_fits hl)
      (by simpa [Wire.bytes, encBstr, encHead] using h)
    exact (Wire.bstr.inj this).2
  · exfalso
    have hs := C02.shortest_w8 (n := sig.length) (by omega)
    simp only [encBstr, encHead, hs] at h
    cases w' <;> simp only [HW.fits, decide_eq_true_eq] at hf <;>
      simp only [headBytes, List.cons_append, List.nil_append, List.cons.injEq] at h
    · have := congrArg UInt8.toNat h.1
      simp only [UInt8.toNat_ofNat', Nat.reducePow] at this
      omega
    · exact absurd h.1 (by decide)
    · exact absurd h.1 (by decide)
    · exact absurd h.1 (by decide)
    · obtain ⟨-, -, -, -, -, -, -, -, -, rfl⟩ := h
      omega

theorem shortItem_wf_of_lt (o : Option Bytes) (ho : blen o < 18446744073709551616) :
    (C09.shortItem o).wf = true := by
  cases o with
  | none => simp [C09.shortItem, Wire.wf]
  | some b =>
    simp only [blen, Option.getD_some] at ho
    simpa [C09.shortItem, Wire.wf] using Reencode.shortest_fits ho

/-- matching the emitted bytes against the tree the decoder saw: protected bytes `P` a
    byte-string item, unprotected bytes the bytes of a well-formed item, payload shorter than
    2^64 — then the decoder's four items are the emitted ones -/
theorem match_items {w : HW} {c : Bytes} {uw p u pl sg : Wire} {o o1 o2 : Option Bytes}
    {sig : Bytes} (hfc : w.fits c.length = true) (huw : uw.wf = true)
    (ho : blen o < 18446744073709551616)
    (hwf : (Wire.arr .imm [p, u, pl, sg]).wf = true)
    (hpl : decByteString pl = .ok o1) (hsg : decByteString sg = .ok o2) (hz : blen o2 ≠ 0)
    (h : (headBytes 2 w c.length ++ c) ++ (uw.bytes ++ (optBytesEnc o ++ encBstr sig))
        = p.bytes ++ (u.bytes ++ (pl.bytes ++ (sg.bytes ++ [])))) :
    p = .bstr w c ∧ u = uw ∧ o1 = o ∧ o2 = some sig := by
  simp only [Wire.wf, Wire.wfList, Bool.and_eq_true] at hwf
  obtain ⟨-, hwp, hwu, hwpl, hwsg, -⟩ := hwf
  have h0 : (Wire.bstr w c).bytes ++ (uw.bytes ++ (optBytesEnc o ++ encBstr sig))
      = p.bytes ++ (u.bytes ++ (pl.bytes ++ (sg.bytes ++ []))) := by
    simpa [Wire.bytes] using h
  obtain ⟨hp, h1⟩ := Reencode.bytes_append_inj _ _ _ _ (by simpa [Wire.wf] using hfc) hwp h0
  obtain ⟨hu, h2⟩ := Reencode.bytes_append_inj _ _ _ _ huw hwu h1
  rw [← C09.shortItem_bytes] at h2
  obtain ⟨hpl', h3⟩ := Reencode.bytes_append_inj _ _ _ _ (shortItem_wf_of_lt o ho) hwpl h2
  subst hpl'
  rw [C09.shortItem_dec] at hpl
  refine ⟨hp.symm, hu.symm, (Out.ok.inj hpl).symm, ?_⟩
  rcases Reencode.decByteString_ok hsg with ⟨rfl, rfl⟩ | ⟨w', c', rfl, rfl⟩
  · simp [blen] at hz
  · simp only [Wire.wf] at hwsg
    simp only [Wire.bytes, List.append_nil] at h3
    rw [bstr_eq_encBstr hwsg h3.symm]

/-! ### COSE_Sign1 across the wire -/

/-- what a successful `Sign1.sign` did -/
theorem sign1_sign_ok_inv (m : Sign1Msg) (ext : Option Bytes) (s : Signer)
    (hok : (Sign1.sign m ext s).out = .ok ()) :
    ∃ p' tbs sig, m.payload.isNone = false ∧
      ensureSigningAlgorithm m.h.rawP m.h.p s.alg ext = .ok p' ∧
      Sign1.toBeSigned { m with h := { m.h with p := p' } } ext = .ok tbs ∧
      s.sign tbs = .ok sig ∧
      (Sign1.sign m ext s).state =
        { h := { m.h with p := p' }, payload := m.payload, sig := some sig } := by
  unfold Sign1.sign at hok
  by_cases hp : m.payload.isNone
  · simp [hp] at hok
  · by_cases hg : blen m.sig > 0
    · simp [hp, hg] at hok
    · simp only [hp, hg, if_false, Bool.false_eq_true] at hok
      cases hgate : ensureSigningAlgorithm m.h.rawP m.h.p s.alg ext with
      | ok p' =>
        simp only [hgate] at hok
        cases ht : Sign1.toBeSigned { m with h := { m.h with p := p' } } ext with
        | ok tbs =>
          simp only [ht] at hok
          cases hsg : s.sign tbs with
          | ok sig =>
            by_cases hz : sig.length = 0
            · simp [hsg, hz] at hok
            · refine ⟨p', tbs, sig, isNone_false_of_not hp, rfl, ht, hsg, ?_⟩
              simp only [Sign1.sign, hp, hg, hgate, ht, hsg, hz, if_false, Bool.false_eq_true]
          | err e => simp [hsg] at hok
          | panic => simp [hsg] at hok
          | unmodelled => simp [hsg] at hok
        | err e => simp [ht] at hok
        | panic => simp [ht] at hok
        | unmodelled => simp [ht] at hok
      | err e => simp [hgate] at hok
      | panic => simp [hgate] at hok
      | unmodelled => simp [hgate] at hok

theorem toBeSigned1_ok_inv {m : Sign1Msg} {ext : Option Bytes} {tbs : Bytes}
    (h : Sign1.toBeSigned m ext = .ok tbs) :
    ∃ P P', marshalProtected m.h = .ok P ∧ detBstr P = .ok P' ∧
      tbs = encHead 4 4 ++ (encTstr ctxSignature1 ++ (P' ++ (encBstr (ext.getD []) ++
        optBytesEnc m.payload))) := by
  unfold Sign1.toBeSigned at h
  cases hP : marshalProtected m.h with
  | ok P =>
    cases hd : detBstr P with
    | ok P' =>
      simp only [hP, hd, bind, Out.bind] at h
      exact ⟨P, P', rfl, hd, (Out.ok.inj h).symm⟩
    | err e => simp [hP, hd, bind, Out.bind] at h
    | panic => simp [hP, hd, bind, Out.bind] at h
    | unmodelled => simp [hP, hd, bind, Out.bind] at h
  | err e => simp [hP, bind, Out.bind] at h
  | panic => simp [hP, bind, Out.bind] at h
  | unmodelled => simp [hP, bind, Out.bind] at h

theorem toBeSigned1_of {m : Sign1Msg} {ext : Option Bytes} {P P' : Bytes}
    (hP : marshalProtected m.h = .ok P) (hd : detBstr P = .ok P') :
    Sign1.toBeSigned m ext = .ok (encHead 4 4 ++ (encTstr ctxSignature1 ++ (P' ++
      (encBstr (ext.getD []) ++ optBytesEnc m.payload)))) := by
  simp [Sign1.toBeSigned, hP, hd, bind, Out.bind]

/-- core of the wire theorems: a message `st` whose protected bytes `P` are a byte-string item
    (`detBstr` accepts them) and which holds signature `sig` is emitted with payload field `o`
    (`o = st.payload` attached, `o = none` detached); whatever the decoder makes of those bytes
    re-emits exactly `P` as protected bytes, has payload `o` and signature `sig`. -/
theorem sign1_wire_core (tagged : Bool) (st : Sign1Msg) (o : Option Bytes) (b : Bytes)
    (m2 : Sign1Msg) (P P' sig : Bytes)
    (hP : marshalProtected st.h = .ok P) (hdet : detBstr P = .ok P') (hsig : st.sig = some sig)
    (henc : Sign1.marshal tagged { st with payload := o } = .ok b)
    (hdec : Sign1.unmarshal tagged b = .ok m2)
    (ho : blen o < 18446744073709551616)
    (hUwf : ∀ U, marshalUnprotected st.h = .ok U → ∃ uw : Wire, uw.wf = true ∧ U = uw.bytes) :
    marshalProtected m2.h = .ok P ∧ m2.payload = o ∧ m2.sig = some sig := by
  obtain ⟨P0, U, -, hP0, hU, hb⟩ := sign1_marshal_ok_inv henc
  have hP0' : marshalProtected st.h = .ok P0 := hP0
  rw [hP] at hP0'
  cases hP0'
  obtain ⟨uw, huw, rfl⟩ := hUwf U hU
  obtain ⟨c, ⟨w, hfc, hPeq⟩, -, -⟩ := C02.detBstr_ok_inv P P' hdet
  obtain ⟨p, u, pl, sg, hb2, -, hwf, -, hpl, hsg, hz2, hh⟩ := C09.sign1_envelope_full hdec
  obtain ⟨hdp, -, -, hrp, -⟩ := C09.decHeaders_ok hh
  have hbytes := List.append_cancel_left (hb.symm.trans hb2)
  have h84 : headBytes 4 .imm 4 = [0x84] := by decide
  simp only [hsig, Option.getD_some, Wire.bytes, Wire.bytesList, List.length_cons,
    List.length_nil, Nat.zero_add, Nat.reduceAdd, h84, List.cons_append, List.nil_append,
    List.cons.injEq, true_and] at hbytes
  obtain ⟨hpe, -, hpay, hs2⟩ := match_items hfc huw ho hwf hpl hsg hz2 (by rw [← hPeq]; exact hbytes)
  refine ⟨?_, hpay, hs2⟩
  have hmod := decProtected_modelled hdp
  have hpb : p.bytes = P := by rw [hpe, hPeq]; rfl
  obtain ⟨x, xs, hx⟩ := C09.bytes_cons p
  rw [hpb] at hrp hx
  simp [marshalProtected, hmod, hrp, hx, encodeBucket]

/-- `Sign1.sign` never touches the unprotected bucket -/
theorem marshalUnprotected_sign1_state (m : Sign1Msg) (ext : Option Bytes) (s : Signer) :
    marshalUnprotected (Sign1.sign m ext s).state.h = marshalUnprotected m.h := by
  unfold Sign1.sign
  by_cases hp : m.payload.isNone
  · simp [hp]
  · by_cases hg : blen m.sig > 0
    · simp [hp, hg]
    · simp only [hp, hg, if_false, Bool.false_eq_true]
      cases ensureSigningAlgorithm m.h.rawP m.h.p s.alg ext with
      | ok p' =>
        simp only []
        cases Sign1.toBeSigned { m with h := { m.h with p := p' } } ext with
        | ok tbs =>
          simp only []
          cases s.sign tbs with
          | ok sig => simp only []; split <;> rfl
          | err e => rfl
          | panic => rfl
          | unmodelled => rfl
        | err e => rfl
        | panic => rfl
        | unmodelled => rfl
      | err e => rfl
      | panic => rfl
      | unmodelled => rfl

/-- verification of a decoded message that re-emits the signed protected bytes, carries the
    signed payload and the signer's signature -/
theorem verify_of_same_tbs (m2 : Sign1Msg) (ext : Option Bytes) (s : Signer) (v : Verifier)
    (P P' sig : Bytes) (pay : Option Bytes) (hm : Matches s v)
    (hP : marshalProtected m2.h = .ok P) (hd : detBstr P = .ok P')
    (hpay : m2.payload = pay) (hpn : pay.isNone = false) (hs2 : m2.sig = some sig)
    (hsg : s.sign (encHead 4 4 ++ (encTstr ctxSignature1 ++ (P' ++ (encBstr (ext.getD []) ++
      optBytesEnc pay)))) = .ok sig)
    (hgate : ensureVerificationAlgorithm m2.h.p v.alg ext = .ok ()) :
    (Sign1.verify m2 ext v).1 = .ok () := by
  have hlen := blen_some_ne (hm.nonempty _ sig hsg)
  have ht := toBeSigned1_of (m := m2) (ext := ext) hP hd
  rw [hpay] at ht
  simp only [Sign1.verify, hpay, hpn, hs2, hlen, hgate, ht, if_false, Bool.false_eq_true,
    Option.getD_some]
  exact hm.correct _ sig hsg

/-- 4. COSE_Sign1 after a wire round trip (tagged or untagged): sign, encode, decode, verify.
    `_partial`:
    * `hdec`, `hgate` — the emitted bytes decode, and the decoded protected map passes the
      algorithm gate (facts about the CBOR layer / header data model taken as hypotheses);
    * `hUwf` — the unprotected bytes the encoder emits are the bytes of ONE well-formed CBOR
      item.  Needed: caller-supplied `RawUnprotected` is emitted verbatim and unvalidated; with
      `RawUnprotected = a0 43` the bytes `a0 43 | 41 xx 42 | 41 00` for payload `[xx]`,
      signature `41 00` parse as `{} , h'41xx42' , h'00'` — another payload, another signature.
    * `hpl` — payload shorter than 2^64 bytes (a CBOR head cannot say more; a Lean list can be
      longer, a Go slice cannot).
    No bound on the signature, header contents or external data. -/
theorem sign1_wire_full_partial (tagged : Bool) (m : Sign1Msg) (ext : Option Bytes) (s : Signer)
    (v : Verifier) (b : Bytes) (m2 : Sign1Msg) (hm : Matches s v)
    (hok : (Sign1.sign m ext s).out = .ok ())
    (henc : Sign1.marshal tagged (Sign1.sign m ext s).state = .ok b)
    (hdec : Sign1.unmarshal tagged b = .ok m2)
    (hgate : ensureVerificationAlgorithm m2.h.p v.alg ext = .ok ())
    (hpl : blen m.payload < 18446744073709551616)
    (hUwf : ∀ U, marshalUnprotected (Sign1.sign m ext s).state.h = .ok U →
      ∃ uw : Wire, uw.wf = true ∧ U = uw.bytes) :
    (Sign1.verify m2 ext v).1 = .ok () ∧ m2.payload = m.payload ∧
      m2.sig = (Sign1.sign m ext s).state.sig := by
  obtain ⟨p', tbs, sig, hpn, -, ht, hsg, hst⟩ := sign1_sign_ok_inv m ext s hok
  rw [hst] at henc hUwf ⊢
  obtain ⟨P, P', hP, hd, rfl⟩ := toBeSigned1_ok_inv ht
  obtain ⟨hP2, hpay, hs2⟩ :=
    sign1_wire_core tagged { h := { m.h with p := p' }, payload := m.payload, sig := some sig }
      m.payload b m2 P P' sig hP hd rfl henc hdec hpl hUwf
  exact ⟨verify_of_same_tbs m2 ext s v P P' sig m.payload hm hP2 hd hpay hpn hs2 hsg hgate,
    hpay, hs2⟩

/-- 4'. detached payload: sign, encode WITHOUT the payload (`payload := nil`), decode, put the
    original payload back, verify.  No bound on the payload is needed here. -/
theorem sign1_wire_detached_full_partial (tagged : Bool) (m : Sign1Msg) (ext : Option Bytes)
    (s : Signer) (v : Verifier) (b : Bytes) (m2 : Sign1Msg) (hm : Matches s v)
    (hok : (Sign1.sign m ext s).out = .ok ())
    (henc : Sign1.marshal tagged { (Sign1.sign m ext s).state with payload := none } = .ok b)
    (hdec : Sign1.unmarshal tagged b = .ok m2)
    (hgate : ensureVerificationAlgorithm m2.h.p v.alg ext = .ok ())
    (hUwf : ∀ U, marshalUnprotected (Sign1.sign m ext s).state.h = .ok U →
      ∃ uw : Wire, uw.wf = true ∧ U = uw.bytes) :
    (Sign1.verify { m2 with payload := m.payload } ext v).1 = .ok () ∧ m2.payload = none ∧
      m2.sig = (Sign1.sign m ext s).state.sig := by
  obtain ⟨p', tbs, sig, hpn, -, ht, hsg, hst⟩ := sign1_sign_ok_inv m ext s hok
  rw [hst] at henc hUwf ⊢
  obtain ⟨P, P', hP, hd, rfl⟩ := toBeSigned1_ok_inv ht
  obtain ⟨hP2, hpay, hs2⟩ :=
    sign1_wire_core tagged { h := { m.h with p := p' }, payload := m.payload, sig := some sig }
      none b m2 P P' sig hP hd rfl henc hdec (by simp [blen]) hUwf
  exact ⟨verify_of_same_tbs { m2 with payload := m.payload } ext s v P P' sig m.payload hm hP2 hd
    rfl hpn hs2 hsg hgate, hpay, hs2⟩

/-- 4 in the requested form -/
theorem sign1_wire_partial (tagged : Bool) (m : Sign1Msg) (ext : Option Bytes) (s : Signer)
    (v : Verifier) (b : Bytes) (m2 : Sign1Msg) (hm : Matches s v)
    (hok : (Sign1.sign m ext s).out = .ok ())
    (henc : Sign1.marshal tagged (Sign1.sign m ext s).state = .ok b)
    (hdec : Sign1.unmarshal tagged b = .ok m2)
    (hgate : ensureVerificationAlgorithm m2.h.p v.alg ext = .ok ())
    (hpl : blen m.payload < 18446744073709551616)
    (hUwf : ∀ U, marshalUnprotected (Sign1.sign m ext s).state.h = .ok U →
      ∃ uw : Wire, uw.wf = true ∧ U = uw.bytes) :
    (Sign1.verify m2 ext v).1 = .ok () :=
  (sign1_wire_full_partial tagged m ext s v b m2 hm hok henc hdec hgate hpl hUwf).1

/-- 4' in the requested form -/
theorem sign1_wire_detached_partial (tagged : Bool) (m : Sign1Msg) (ext : Option Bytes)
    (s : Signer) (v : Verifier) (b : Bytes) (m2 : Sign1Msg) (hm : Matches s v)
    (hok : (Sign1.sign m ext s).out = .ok ())
    (henc : Sign1.marshal tagged { (Sign1.sign m ext s).state with payload := none } = .ok b)
    (hdec : Sign1.unmarshal tagged b = .ok m2)
    (hgate : ensureVerificationAlgorithm m2.h.p v.alg ext = .ok ())
    (hUwf : ∀ U, marshalUnprotected (Sign1.sign m ext s).state.h = .ok U →
      ∃ uw : Wire, uw.wf = true ∧ U = uw.bytes) :
    (Sign1.verify { m2 with payload := m.payload } ext v).1 = .ok () :=
  (sign1_wire_detached_full_partial tagged m ext s v b m2 hm hok henc hdec hgate hUwf).1

/-- `hUwf` holds when no raw unprotected bytes are retained and the unprotected map is empty
    (the encoder emits `a0`) -/
theorem hUwf_of_empty (h : Hdrs) (hr : h.rawU = none) (hu : h.u = []) :
    ∀ U, marshalUnprotected h = .ok U → ∃ uw : Wire, uw.wf = true ∧ U = uw.bytes := by
  intro U hU
  refine ⟨.map .imm [], by simp [Wire.wf, Wire.wfPairs, HW.fits], ?_⟩
  simp [marshalUnprotected, hr, hu, GoVal.modelledPairs, encodeBucket] at hU
  subst hU
  decide

/-- `hUwf` holds when the retained raw unprotected bytes are those of a well-formed item —
    in particular for every message obtained from the decoder (`rawU = some u.bytes`) -/
theorem hUwf_of_raw (h : Hdrs) (uw : Wire) (hwf : uw.wf = true) (hr : h.rawU = some uw.bytes) :
    ∀ U, marshalUnprotected h = .ok U → ∃ uw : Wire, uw.wf = true ∧ U = uw.bytes := by
  intro U hU
  refine ⟨uw, hwf, ?_⟩
  obtain ⟨x, xs, hx⟩ := C09.bytes_cons uw
  unfold marshalUnprotected at hU
  split at hU
  · cases hU
  · rw [hr, hx] at hU
    simp [encodeBucket] at hU
    rw [hx]; exact hU.symm

/-! ### hash envelope -/

theorem sign1Helper_ok_inv (tagged : Bool) (h : Hdrs) (payload ext : Option Bytes) (s : Signer)
    (b : Bytes) (hok : (sign1Helper tagged h payload ext s).1 = .ok b) :
    (Sign1.sign { h := h, payload := payload, sig := none } ext s).out = .ok () ∧
    Sign1.marshal tagged (Sign1.sign { h := h, payload := payload, sig := none } ext s).state
      = .ok b := by
  unfold sign1Helper at hok
  cases ho : (Sign1.sign { h := h, payload := payload, sig := none } ext s).out with
  | ok u => cases u; simp only [ho] at hok; exact ⟨rfl, hok⟩
  | err e => simp [ho] at hok
  | panic => simp [ho] at hok
  | unmodelled => simp [ho] at hok

theorem unprotected_unmarshal_parse {d : Bytes} {u : GoMap} (h : Unprotected.unmarshal d = .ok u) :
    ∃ w, parseTop true d = some w := by
  unfold Unprotected.unmarshal at h
  split at h
  · cases h
  · split at h
    · cases h
    · split at h
      · rename_i w hw; exact ⟨w, hw⟩
      · cases h

theorem signHashEnvelope_ok_inv (s : Signer) (h : Hdrs) (p : HashPayload) (b : Bytes)
    (hsign : (signHashEnvelope s h p).1 = .ok b) :
    ∃ u, validateHash p.alg p.value = true ∧
      ((∃ x xs, h.rawU = some (x :: xs) ∧ Unprotected.unmarshal (x :: xs) = .ok u) ∨
        ((∀ x xs, h.rawU ≠ some (x :: xs)) ∧ u = h.u)) ∧
      (sign1Helper true { h with p := setHashEnvelopeProtectedHeader h.p p, rawP := none, u := u }
        p.value none s).1 = .ok b := by
  unfold signHashEnvelope at hsign
  by_cases hv : validateHash p.alg p.value = true
  · simp only [hv, Bool.not_true, Bool.false_eq_true, if_false] at hsign
    split at hsign
    · rename_i u heq
      refine ⟨u, hv, ?_, ?_⟩
      · split at heq
        · rename_i x xs hraw; exact .inl ⟨x, xs, hraw, heq⟩
        · rename_i hn; cases heq; exact .inr ⟨fun x xs hc => hn x xs hc, rfl⟩
      · split at hsign
        · cases hsign
        · exact hsign
    · cases hsign
    · cases hsign
    · cases hsign
  · simp [hv] at hsign

theorem hashSize_lt (a : Int) : hashSize a < 18446744073709551616 := by
  unfold hashSize
  repeat' split
  all_goals omega

/-- 5. hash envelope, closed loop across the wire: what `SignHashEnvelope` emits,
    `VerifyHashEnvelope` with the matching verifier accepts, returning the signed hash value.
    `_partial`: `hdec`, `hgate`, `hrules`, `halg` are facts about decoding the emitted header
    bytes, taken as hypotheses.  Extra hypotheses, as in 4:
    * `hpl` — only when the hash algorithm id is unknown to the library (`hashSize = 0`, no
      length check) the hash value is assumed shorter than 2^64 bytes;
    * `hUwf` — only when the caller did NOT supply raw unprotected bytes: the encoded
      unprotected map is the bytes of one well-formed item.  (Supplied raw bytes were decoded by
      `SignHashEnvelope`, hence are one well-formed item.) -/
theorem henv_closed_partial (s : Signer) (v : Verifier) (h : Hdrs) (p : HashPayload) (b : Bytes)
    (m2 : Sign1Msg) (hm : Matches s v)
    (hsign : (signHashEnvelope s h p).1 = .ok b)
    (hdec : Sign1.unmarshal true b = .ok m2)
    (hgate : ensureVerificationAlgorithm m2.h.p v.alg none = .ok ())
    (hrules : validateHashEnvelopeHeaders m2.h.p m2.h.u = true)
    (halg : payloadHashAlgorithm m2.h.p = .found p.alg)
    (hpl : hashSize p.alg = 0 → blen p.value < 18446744073709551616)
    (hUwf : (∀ x xs, h.rawU ≠ some (x :: xs)) → ∀ U, marshalUnprotected h = .ok U →
      ∃ uw : Wire, uw.wf = true ∧ U = uw.bytes) :
    ∃ m3, (verifyHashEnvelope v b).1 = .ok m3 ∧ m3.payload = p.value := by
  obtain ⟨u, hvh, hu, hhelp⟩ := signHashEnvelope_ok_inv s h p b hsign
  obtain ⟨hok, henc⟩ := sign1Helper_ok_inv _ _ _ _ _ _ hhelp
  have hpl' : blen p.value < 18446744073709551616 := by
    by_cases hz : hashSize p.alg = 0
    · exact hpl hz
    · have := hashSize_lt p.alg
      simp only [validateHash, hz, decide_false, Bool.false_or, decide_eq_true_eq] at hvh
      omega
  have hU' : ∀ U, marshalUnprotected (Sign1.sign
      { h := { h with p := setHashEnvelopeProtectedHeader h.p p, rawP := none, u := u },
        payload := p.value, sig := none } none s).state.h = .ok U →
      ∃ uw : Wire, uw.wf = true ∧ U = uw.bytes := by
    rw [marshalUnprotected_sign1_state]
    intro U hU
    rcases hu with ⟨x, xs, hraw, hu⟩ | ⟨hnraw, rfl⟩
    · obtain ⟨w, hw⟩ := unprotected_unmarshal_parse hu
      obtain ⟨hbytes, hwf, -⟩ := parseTop_sound hw
      refine ⟨w, hwf, ?_⟩
      unfold marshalUnprotected at hU
      split at hU
      · cases hU
      · simp only [hraw, encodeBucket] at hU
        rw [← hbytes]; exact (Out.ok.inj hU).symm
    · exact hUwf hnraw U hU
  obtain ⟨hver, hpay, -⟩ := sign1_wire_full_partial true _ none s v b m2 hm hok henc hdec hgate
    hpl' hU'
  have hpay' : m2.payload = p.value := hpay
  unfold verifyHashEnvelope
  simp only [hdec, hrules, Bool.not_true, Bool.false_eq_true, if_false]
  cases hv : Sign1.verify m2 none v with
  | mk o calls =>
    rw [hv] at hver
    simp only at hver
    subst hver
    simp only [halg, hpay', hvh, if_true]
    exact ⟨_, rfl, rfl⟩

/-! ### non-vacuity -/

/-- the transparent scheme of the harness is a matching pair -/
def exS : Signer := { alg := -7, sign := fun t => .ok (1 :: 1 :: t) }
def exV : Verifier :=
  { alg := -7, verify := fun t sg => if sg = 1 :: 1 :: t then .ok () else .err .verification }
theorem exSV : Matches exS exV where
  alg := rfl
  correct := by intro tbs sig h; cases h; simp [exV]
  nonempty := by intro tbs sig h; cases h; simp

def exSlot : SigV := { h := { rawP := some [0x43, 0xa1, 0x01, 0x26], p := [(lbl 1, .alg (-7))] } }
def exMsg : SignMsg := { payload := some [1, 2, 3], sigs := [exSlot, exSlot] }

theorem ex_det1 : detBstr [0x40] = .ok [0x40] := by
  simp [detBstr, parseTop, parseItem, fuelFor, parseHead]
theorem ex_det2 : detBstr [0x43, 0xa1, 0x01, 0x26] = .ok [0x43, 0xa1, 0x01, 0x26] := by
  simp [detBstr, parseTop, parseItem, fuelFor, parseHead]
theorem ex_gate : ensureSigningAlgorithm (some [0x43, 0xa1, 0x01, 0x26]) [(lbl 1, .alg (-7))] (-7) none
    = .ok [(lbl 1, .alg (-7))] := by rfl
theorem ex_mp : marshalProtected { rawP := some [0x43, 0xa1, 0x01, 0x26], p := [(lbl 1, .alg (-7))] }
    = .ok [0x43, 0xa1, 0x01, 0x26] := by
  simp [marshalProtected, GoVal.modelledPairs, GoVal.modelled, lbl, encodeBucket]
theorem ex_mp0 : marshalProtected {} = .ok [0x40] := by
  simp [marshalProtected, GoVal.modelledPairs, encodeBucket]
theorem ex_slot_ok : (Signature.sign exSlot exS [0x40] (some [1, 2, 3]) none).out = .ok () := by
  simp [Signature.sign, exSlot, exS, ex_gate, Signature.toBeSigned, ex_det1, ex_det2, ex_mp, blen, bodyProtOK]
theorem ex_sign_ok : (Sign.sign exMsg none [exS, exS]).out = .ok () := by
  simp [Sign.sign, exMsg, ex_mp0, signLoop, ex_slot_ok]

/-- non-vacuity of 2: a concrete two-signer COSE_Sign, signed and verified -/
example : (Sign.verify (Sign.sign exMsg none [exS, exS]).state none [exV, exV]).1 = .ok () :=
  signmsg_then_verify exMsg none [exS, exS] [exV, exV] rfl
    (by
      intro i h1 h2
      have : i = 0 ∨ i = 1 := by simp at h1; omega
      rcases this with rfl | rfl <;> exact exSV)
    ex_sign_ok

/-- a second matching pair: constant one-byte signature -/
def exS7 : Signer := { alg := -7, sign := fun _ => .ok [7] }
def exV7 : Verifier :=
  { alg := -7, verify := fun _ sg => if sg = [7] then .ok () else .err .verification }
theorem exSV7 : Matches exS7 exV7 where
  alg := rfl
  correct := by intro tbs sig h; cases h; simp [exV7]
  nonempty := by intro tbs sig h; cases h; simp

def exP : Wire := .bstr .imm [0xa1, 0x01, 0x26]
def exU : Wire := .map .imm []
def exH : Hdrs :=
  { rawP := some exP.bytes, p := [(lbl 1, .alg (-7))], rawU := some exU.bytes, u := [] }
def exM1 : Sign1Msg := { h := exH, payload := some [1, 2, 3] }

theorem exP_bytes : exP.bytes = [0x43, 0xa1, 0x01, 0x26] := by decide
theorem exU_bytes : exU.bytes = [0xa0] := by decide

theorem ex_decP : decProtected exP = .ok [(lbl 1, .alg (-7))] := by
  simp [exP, decProtected, decProtectedContent, parseTop, parseItem, parsePairs, fuelFor, parseHead,
    maxNested, maxElems, labelsOK, maxInt64, GoVal.keyEq, decodePairs, decodeAny, keyHashable,
    validateHeaderParameters, validateLoop, normalizeLabel, wrap64, checkParam, castAlg, algorithmOf,
    lookupLabel, GoMap.lookup, lbl, GoMap.set, GoMap.has, bind, Out.bind, canInt, canTstr,
    IntKind.signed, Wire.stripSelfDescribed,
    (by decide : headerLabelsUntagged [0xa1, 0x01, 0x26] = true)]

theorem ex_decU : decUnprot exU = .ok [] := by
  simp [exU, decUnprot, labelsOK, decUnprotPairs, validateHeaderParameters, validateLoop,
    (by decide : headerLabelsUntagged (Wire.map .imm []).bytes = true)]

theorem ex_hh : decHeaders exP exU = .ok exH :=
  C09.decHeaders_of ex_decP ex_decU (by decide)

theorem ex_sign1 : (Sign1.sign exM1 none exS7).out = .ok () ∧
    (Sign1.sign exM1 none exS7).state = { h := exH, payload := some [1, 2, 3], sig := some [7] } := by
  have hg : ensureSigningAlgorithm exH.rawP exH.p (-7) none = .ok exH.p := by rfl
  have hmp : marshalProtected exH = .ok [0x43, 0xa1, 0x01, 0x26] := by
    simp [marshalProtected, exH, exP_bytes, GoVal.modelledPairs, GoVal.modelled, lbl, encodeBucket]
  have hd : detBstr [0x43, 0xa1, 0x01, 0x26] = .ok [0x43, 0xa1, 0x01, 0x26] := by
    simp [detBstr, parseTop, parseItem, fuelFor, parseHead]
  have ht : ∃ t, Sign1.toBeSigned { h := { rawP := exH.rawP, p := exH.p, rawU := exH.rawU, u := exH.u }, payload := some [1, 2, 3] } none = .ok t :=
    ⟨_, toBeSigned1_of (m := { h := exH, payload := some [1, 2, 3] }) hmp hd⟩
  obtain ⟨t, ht⟩ := ht
  simp [Sign1.sign, exM1, blen, hg, ht, exS7]

def exSt : Sign1Msg := { h := exH, payload := some [1, 2, 3], sig := some [7] }

/-- non-vacuity of 4: the hypotheses of `sign1_wire_partial` are jointly satisfiable — a concrete
    COSE_Sign1 is signed, encoded (tagged), decoded, and the theorem yields its verification -/
example : ∃ b m2, Sign1.marshal true (Sign1.sign exM1 none exS7).state = .ok b ∧
    Sign1.unmarshal true b = .ok m2 ∧ (Sign1.verify m2 none exV7).1 = .ok () := by
  obtain ⟨hok, hst⟩ := ex_sign1
  have hz : blen exSt.sig ≠ 0 := by simp [exSt, blen]
  have hmod : GoVal.modelledPairs exSt.h.p = true ∧ GoVal.modelledPairs exSt.h.u = true := by
    simp [exSt, exH, GoVal.modelledPairs, GoVal.modelled, lbl]
  have henc := C09.marshal_of_decoded (tagged := true) (m := exSt) ex_hh hz hmod
  rw [C09.marshal_tree_bytes exP exU exSt.payload exSt.sig hz] at henc
  have hwf : (Wire.arr .imm [exP, exU, C09.shortItem exSt.payload, C09.shortItem exSt.sig]).wf
      = true := by
    simp [Wire.wf, Wire.wfList, Wire.wfPairs, HW.fits, exP, exU, exSt, C09.shortItem, HW.shortest]
  have hlim : (Wire.arr .imm [exP, exU, C09.shortItem exSt.payload,
      C09.shortItem exSt.sig]).inLimits false 0 = true := by
    simp [Wire.inLimits, Wire.inLimitsList, Wire.inLimitsPairs, exP, exU, exSt, C09.shortItem,
      maxNested, maxElems]
  have hdec := C09.unmarshal_marshal_tree (tagged := true) (m := exSt) hwf hlim
    (C09.shortItem_dec _) (C09.shortItem_dec _) hz ex_hh
  refine ⟨_, exSt, by rw [hst]; exact henc, hdec, ?_⟩
  exact sign1_wire_partial true exM1 none exS7 exV7 _ exSt exSV7 hok (by rw [hst]; exact henc) hdec
    (by decide) (by simp [exM1, blen])
    (by rw [hst]; exact hUwf_of_raw exH exU (by simp [exU, Wire.wf, Wire.wfPairs, HW.fits]) rfl)

/-! ### sign-then-verify needs no assumption that signatures are non-empty (repair 9ac6635)

`Matches` asks for `nonempty`: a signer that answers with no error and no bytes used to make `Sign`
report success with an unsigned message, which no verifier accepts.  Every `Sign` now turns such
an answer into `ErrEmptySignature`, so the signing functions cannot tell a signer from its
"hardened" version that reports the error itself — and a hardened signer never returns an empty
signature.  Hence every theorem of the form `Matches s v → P (sign … s)` holds under
`MatchesCore s v` (algorithm and correctness only). -/

/-- signer / verifier pair with matching keys; nothing assumed about the length of signatures -/
structure MatchesCore (s : Signer) (v : Verifier) : Prop where
  alg : v.alg = s.alg
  correct : ∀ tbs sig, s.sign tbs = .ok sig → v.verify tbs sig = .ok ()

theorem Matches.core {s : Signer} {v : Verifier} (h : Matches s v) : MatchesCore s v :=
  ⟨h.alg, h.correct⟩

/-- the signer that reports an empty answer as `ErrEmptySignature` itself -/
def hardened (s : Signer) : Signer :=
  { alg := s.alg,
    sign := fun t => match s.sign t with
      | .ok sig => if sig.length = 0 then .err .emptySig else .ok sig
      | o => o }

theorem MatchesCore.hardened {s : Signer} {v : Verifier} (h : MatchesCore s v) :
    Matches (hardened s) v where
  alg := h.alg
  correct := by
    intro tbs sig hs
    simp only [C01.hardened] at hs
    cases hsg : s.sign tbs with
    | ok sg =>
      simp only [hsg] at hs
      split at hs
      · cases hs
      · cases hs; exact h.correct tbs _ hsg
    | err e => simp [hsg] at hs
    | panic => simp [hsg] at hs
    | unmodelled => simp [hsg] at hs
  nonempty := by
    intro tbs sig hs
    simp only [C01.hardened] at hs
    cases hsg : s.sign tbs with
    | ok sg =>
      simp only [hsg] at hs
      split at hs
      · cases hs
      · rename_i hz; cases hs; intro hn; exact hz (by rw [hn]; rfl)
    | err e => simp [hsg] at hs
    | panic => simp [hsg] at hs
    | unmodelled => simp [hsg] at hs

theorem sign1_sign_hardened (m : Sign1Msg) (ext : Option Bytes) (s : Signer) :
    Sign1.sign m ext (hardened s) = Sign1.sign m ext s := by
  unfold Sign1.sign
  by_cases hp : m.payload.isNone
  · simp [hp]
  · by_cases hg : blen m.sig > 0
    · simp [hp, hg]
    · simp only [hp, hg, if_false, Bool.false_eq_true]
      rw [show (hardened s).alg = s.alg from rfl]
      cases ensureSigningAlgorithm m.h.rawP m.h.p s.alg ext with
      | ok p' =>
        simp only []
        cases Sign1.toBeSigned { m with h := { m.h with p := p' } } ext with
        | ok tbs =>
          simp only [hardened]
          cases s.sign tbs with
          | ok sig => by_cases hz : sig.length = 0 <;> simp [hz]
          | err e => rfl
          | panic => rfl
          | unmodelled => rfl
        | err e => rfl
        | panic => rfl
        | unmodelled => rfl
      | err e => rfl
      | panic => rfl
      | unmodelled => rfl

theorem signature_sign_hardened (sg : SigV) (s : Signer) (bprot : Bytes)
    (payload ext : Option Bytes) :
    Signature.sign sg (hardened s) bprot payload ext = Signature.sign sg s bprot payload ext := by
  unfold Signature.sign
  by_cases hp : payload.isNone
  · simp [hp]
  · by_cases hg : blen sg.sig > 0
    · simp [hp, hg]
    · by_cases hb : bodyProtOK bprot
      · simp only [hp, hg, hb, if_false, Bool.false_eq_true, Bool.not_true]
        rw [show (hardened s).alg = s.alg from rfl]
        cases ensureSigningAlgorithm sg.h.rawP sg.h.p s.alg ext with
        | ok p' =>
          simp only []
          cases Signature.toBeSigned { sg with h := { sg.h with p := p' } } bprot payload ext with
          | ok tbs =>
            simp only [hardened]
            cases s.sign tbs with
            | ok sig => by_cases hz : sig.length = 0 <;> simp [hz]
            | err e => rfl
            | panic => rfl
            | unmodelled => rfl
          | err e => rfl
          | panic => rfl
          | unmodelled => rfl
        | err e => rfl
        | panic => rfl
        | unmodelled => rfl
      · simp [hp, hg, hb]

theorem countersignature_sign_hardened (cs : SigV) (s : Signer) (parent : Parent)
    (ext : Option Bytes) :
    Countersignature.sign cs (hardened s) parent ext = Countersignature.sign cs s parent ext := by
  unfold Countersignature.sign
  by_cases hg : blen cs.sig > 0
  · simp [hg]
  · simp only [hg, if_false]
    rw [show (hardened s).alg = s.alg from rfl]
    cases ensureSigningAlgorithm cs.h.rawP cs.h.p s.alg ext with
    | ok p' =>
      simp only []
      cases Countersignature.toBeSigned { cs with h := { cs.h with p := p' } } parent ext with
      | ok tbs =>
        simp only [hardened]
        cases s.sign tbs with
        | ok sig => by_cases hz : sig.length = 0 <;> simp [hz]
        | err e => rfl
        | panic => rfl
        | unmodelled => rfl
      | err e => rfl
      | panic => rfl
      | unmodelled => rfl
    | err e => rfl
    | panic => rfl
    | unmodelled => rfl

theorem countersign0_hardened (s : Signer) (parent : Parent) (ext : Option Bytes) :
    countersign0 (hardened s) parent ext = countersign0 s parent ext := by
  unfold countersign0
  cases countersignToBeSigned true parent [0x40] ext with
  | ok tbs =>
    simp only [hardened]
    cases s.sign tbs with
    | ok sig => by_cases hz : sig.length = 0 <;> simp [hz]
    | err e => rfl
    | panic => rfl
    | unmodelled => rfl
  | err e => rfl
  | panic => rfl
  | unmodelled => rfl

theorem signLoop_hardened (bprot : Bytes) (payload ext : Option Bytes) :
    ∀ (sgs : List SigV) (ss : List Signer),
      signLoop bprot payload ext sgs (ss.map hardened) = signLoop bprot payload ext sgs ss
  | [], _ => by unfold signLoop; rfl
  | _ :: _, [] => by unfold signLoop; rfl
  | sg :: sgs, s :: ss => by
    rw [List.map_cons, signLoop, signLoop, signature_sign_hardened,
      signLoop_hardened bprot payload ext sgs ss]

theorem signmsg_sign_hardened (m : SignMsg) (ext : Option Bytes) (signers : List Signer) :
    Sign.sign m ext (signers.map hardened) = Sign.sign m ext signers := by
  unfold Sign.sign
  simp only [List.length_map, signLoop_hardened]

/-- COSE_Sign1 in memory, no assumption on signature lengths -/
theorem sign1_then_verify_core (m : Sign1Msg) (ext : Option Bytes) (s : Signer) (v : Verifier)
    (hm : MatchesCore s v) (hok : (Sign1.sign m ext s).out = .ok ()) :
    (Sign1.verify (Sign1.sign m ext s).state ext v).1 = .ok () := by
  rw [← sign1_sign_hardened] at hok ⊢
  exact sign1_then_verify m ext _ v hm.hardened hok

/-- COSE_Signature in memory, no assumption on signature lengths -/
theorem signature_then_verify_core (sg : SigV) (s : Signer) (v : Verifier) (bprot : Bytes)
    (payload ext : Option Bytes) (hm : MatchesCore s v)
    (hok : (Signature.sign sg s bprot payload ext).out = .ok ()) :
    (Signature.verify (Signature.sign sg s bprot payload ext).state v bprot payload ext).1
      = .ok () := by
  rw [← signature_sign_hardened] at hok ⊢
  exact signature_then_verify sg _ v bprot payload ext hm.hardened hok

/-- full countersignatures in memory, no assumption on signature lengths -/
theorem countersign_then_verify_core (cs : SigV) (s : Signer) (v : Verifier) (parent : Parent)
    (ext : Option Bytes) (hm : MatchesCore s v)
    (hok : (Countersignature.sign cs s parent ext).out = .ok ()) :
    (Countersignature.verify (Countersignature.sign cs s parent ext).state v parent ext).1
      = .ok () := by
  rw [← countersignature_sign_hardened] at hok ⊢
  exact countersign_then_verify cs _ v parent ext hm.hardened hok

/-- abbreviated countersignatures, no assumption on signature lengths -/
theorem countersign0_then_verify_core (s : Signer) (v : Verifier) (parent : Parent)
    (ext : Option Bytes) (sig : Bytes) (hm : MatchesCore s v)
    (hok : (countersign0 s parent ext).1 = .ok sig) :
    (verifyCountersign0 v parent ext sig).1 = .ok () ∧ sig ≠ [] := by
  rw [← countersign0_hardened] at hok
  exact ⟨countersign0_then_verify _ v parent ext sig hm.hardened hok,
    countersign0_nonempty _ v parent ext sig hm.hardened hok⟩

/-- COSE_Sign with any number of signers in memory, no assumption on signature lengths -/
theorem signmsg_then_verify_core (m : SignMsg) (ext : Option Bytes) (signers : List Signer)
    (verifiers : List Verifier) (hlen : signers.length = verifiers.length)
    (hm : ∀ i (h1 : i < signers.length) (h2 : i < verifiers.length),
      MatchesCore signers[i] verifiers[i])
    (hok : (Sign.sign m ext signers).out = .ok ()) :
    (Sign.verify (Sign.sign m ext signers).state ext verifiers).1 = .ok () := by
  rw [← signmsg_sign_hardened] at hok ⊢
  refine signmsg_then_verify m ext _ verifiers (by simpa using hlen) ?_ hok
  intro i h1 h2
  rw [List.getElem_map]
  exact (hm i (by simpa using h1) h2).hardened

end C01
