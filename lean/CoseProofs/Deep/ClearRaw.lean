/-
  Deep/ClearRaw — C09, second half: the CLEAR-RAW FIXPOINT for COSE_Sign1 with flat headers.

  `Deep/Reencode` shows that a decoded message re-encodes to the same header bytes as long as the
  raw bytes the decoder retained (`Hdrs.rawP`, `Hdrs.rawU`) are kept.  Here the application
  DISCARDS them (`RawProtected = nil`, `RawUnprotected = nil`) and encodes the typed maps.

  Proved, in plain words:
  3a. `C09.protected_clear_raw_fixpoint` — whatever content `ProtectedHeader.UnmarshalCBOR`
      accepted (any head widths, any key order): if the decoded parameters are flat, encoding the
      decoded MAP succeeds; the result is a byte string whose content is NOT LONGER than the
      original; it decodes to the same parameters in the encoder's canonical order
      (`sortEntries m`: a permutation of `m`, every `lookupLabel` agrees); encoding that map gives
      the same bytes again.
  3b. `C09.unprotected_clear_raw_fixpoint` — the same for `UnprotectedHeader`.
  1.  `C09.clear_raw_decodable` — `Sign1.unmarshal tagged b = .ok m`, decoded header values flat:
      the message with the raw fields cleared marshals to some `b'`; `b'` unmarshals to `m'` with
      the same payload and signature, `m'.h.p = sortEntries m.h.p`, `m'.h.u = sortEntries m.h.u`
      (hence `List.Perm`, equal `lookupLabel` for every label, equal `Algorithm()`).
  2.  `C09.clear_raw_fixpoint` — for ANY such `b'`, `m'`: clearing the raw fields of `m'` and
      marshalling gives `b'` again (canonical form reached after ONE cycle) and `b'` decodes to
      `m'` again (exactly — same bytes).  `C09.clearCycle_idempotent` is the composed form.
  1'. `C09.flat_of_scalar_items` — a WIRE-SIDE sufficient condition for the two flatness
      hypotheses: every VALUE item in the two header maps of the input is a scalar on the wire
      (`ScalarItem`: uint / nint / bstr / tstr / false / true / null / undefined, any head
      width).  Keys need no condition.
  4.  non-vacuity (`ClearRawExamples`): `exB` has protected keys out of order (`a2 04 41 31 01 26`)
      and a non-shortest value head in the unprotected map (`a1 03 18 05`); all hypotheses are
      discharged (flatness through 1'), `b' = exB' ≠ exB`, and the fixpoint holds.

  How.  The decoder's output is already in the normal form the round-trip theorems of
  `Deep/RoundTrip` (C08) map into: `decodeAny_normVal` (`normVal v = v` for every generically
  decoded value), hence `protected_decoded_fixed` (`decEntry e = e`) and
  `unprotected_decoded_fixed` (`normEntry e = e`) — no flatness needed for these.  Validation of
  the decoded maps by the ENCODER is `C13.decoded_reencodable` / `decoded_unprot_reencodable`.
  `protected_canon` / `unprotected_canon` then instantiate C08 with the identity.  The second
  cycle uses idempotence of the sort (`sortEntries_idem`).  The Sign1 level assembles the four
  items into a `WFSign1` tree and applies `C07.wf_sign1_accepted_full` (`clear_raw_core`).

  Hypotheses that REMAIN, and why:
  * `FlatMap m.h.p`, `FlatMap m.h.u` — the scope (scalar header values; C08 is proved for these).
    Excluded: arrays (so a message with `crit`, label 2), maps (CWT claims, label 15), floats,
    simple values, countersignatures (labels 7, 11).  1' replaces them by a condition on the input.
  * 3b only: `hlim : u.inLimits t d = true` — the item came out of the parser (≤ 131072 pairs);
    `decUnprot` takes a tree, so this is not implied by `hd` alone.
  NOT needed (all derived from "the decoder accepted it"): `UintOK` (decoded integers are `int64`
  / `Algorithm`), map sizes ≤ 131072, payload / signature / protected content shorter than 2^64
  (the protected content: `protected_decoded_bytes_le` — the canonical re-encoding is never longer
  than the accepted content, whose length fitted a CBOR head), `ensureIV`, `modelledPairs`.

  No target statement turned out false in the model; no counterexample theorem was needed.  (The
  defect F9 — a decoded bignum re-encoded as a uint the decoder refuses — lives in tagged items,
  which the model answers `unmodelled`, and is outside `FlatMap` in any case.)
  Core Lean only; axioms: propext, Quot.sound, Classical.choice.
-/
import CoseModel.Messages
import CoseProofs.Deep.RoundTrip
import CoseProofs.Deep.Verifies
import CoseProofs.Deep.WireClosure
open CoseModel CoseSpec RoundTrip

namespace ClearRaw

/-! ### what the generic decoder produces is its own normal form -/

theorem decodeAny_normVal {w : Wire} {v : GoVal} (h : decodeAny w = .ok v) : normVal v = v := by
  cases w with
  | uint hw n => unfold decodeAny at h; split at h <;> cases h; rfl
  | nint hw n => unfold decodeAny at h; split at h <;> cases h; rfl
  | bstr hw b => unfold decodeAny at h; cases h; rfl
  | tstr hw b => unfold decodeAny at h; split at h <;> cases h; rfl
  | tag hw t x => unfold decodeAny at h; cases h
  | prim hw n =>
    cases hw <;> unfold decodeAny at h
    · split at h
      · cases h; rfl
      · split at h
        · cases h; rfl
        · split at h <;> cases h <;> rfl
    · cases h; rfl
    · cases h
    · cases h
    · cases h; rfl
  | arr hw xs =>
    unfold decodeAny at h
    cases hl : decodeList xs <;> simp [hl] at h
    subst h; rfl
  | map hw kvs =>
    unfold decodeAny at h
    cases hl : decodePairs kvs [] <;> simp [hl] at h
    subst h; rfl

theorem decCsigValue_normVal {w : Wire} {v : GoVal} (h : decCsigValue w = .ok v) :
    normVal v = v := by
  rcases C05.csig_value_accept w v h with ⟨xs, -, c, hc, rfl⟩ | ⟨_, _, l, -, -, rfl⟩ | ⟨-, rfl⟩
  · obtain ⟨_, _, _, _, _, _, -, -, -, -, -, -, rfl⟩ := C05.decSigFields_ok hc
    rfl
  · rfl
  · rfl

/-- pointwise relation between two lists (core Lean has no `List.Forall₂`) -/
def Rel2 {α β : Type} (R : α → β → Prop) : List α → List β → Prop
  | [], [] => True
  | a :: as, b :: bs => R a b ∧ Rel2 R as bs
  | _, _ => False

theorem Rel2.length_eq {α β : Type} {R : α → β → Prop} : ∀ {l : List α} {l' : List β},
    Rel2 R l l' → l.length = l'.length
  | [], [], _ => rfl
  | _ :: as, _ :: bs, h => by simp [Rel2.length_eq (l := as) (l' := bs) h.2]
  | [], _ :: _, h => h.elim
  | _ :: _, [], h => h.elim

theorem Rel2.mem_right {α β : Type} {R : α → β → Prop} : ∀ {l : List α} {l' : List β},
    Rel2 R l l' → ∀ b ∈ l', ∃ a ∈ l, R a b
  | [], [], _, b, hb => by cases hb
  | a :: as, b' :: bs, h, b, hb => by
    rcases List.mem_cons.mp hb with rfl | hb
    · exact ⟨a, List.mem_cons_self .., h.1⟩
    · obtain ⟨a', ha', hr⟩ := Rel2.mem_right (l := as) (l' := bs) h.2 b hb
      exact ⟨a', List.mem_cons_of_mem _ ha', hr⟩
  | [], _ :: _, h, _, _ => h.elim
  | _ :: _, [], h, _, _ => h.elim

/-- the entry relation of the generic map decoder -/
def DecRel (kv : Wire × Wire) (e : GoVal × GoVal) : Prop :=
  decodeAny kv.1 = .ok e.1 ∧ decodeAny kv.2 = .ok e.2

theorem decodePairs_rel : ∀ (kvs : List (Wire × Wire)) (acc out : GoMap),
    decodePairs kvs acc = .ok out → ∃ t, out = acc.reverse ++ t ∧ Rel2 DecRel kvs t
  | [], acc, out, h => by
    unfold decodePairs at h; cases h
    exact ⟨[], by simp, trivial⟩
  | (k, v) :: r, acc, out, h => by
    unfold decodePairs at h
    cases hk : decodeAny k with
    | ok key =>
      simp only [hk] at h
      split at h
      · cases h
      · cases h
      · split at h
        · cases h
        · cases hv : decodeAny v with
          | ok value =>
            simp only [hv] at h
            split at h
            · cases h
            · obtain ⟨t, ht, hr⟩ := decodePairs_rel r _ out h
              refine ⟨(key, value) :: t, ?_, ⟨hk, hv⟩, hr⟩
              rw [ht]; simp
          | err e => simp [hv] at h
          | panic => simp [hv] at h
          | unmodelled => simp [hv] at h
    | err e => simp [hk] at h
    | panic => simp [hk] at h
    | unmodelled => simp [hk] at h

/-- the entry relation of the unprotected-bucket decoder (countersignature labels take the typed
    decoder) -/
def DecRelU (kv : Wire × Wire) (e : GoVal × GoVal) : Prop :=
  decodeAny kv.1 = .ok e.1 ∧
    ((isCsigLabel e.1 = false ∧ decodeAny kv.2 = .ok e.2) ∨
     (isCsigLabel e.1 = true ∧ decCsigValue kv.2 = .ok e.2))

theorem decUnprotPairs_rel : ∀ (kvs : List (Wire × Wire)) (m : GoMap),
    decUnprotPairs kvs = .ok m → Rel2 DecRelU kvs m
  | [], m, h => by
    simp only [decUnprotPairs, Out.ok.injEq] at h
    subst h
    trivial
  | (k, v) :: r, m, h => by
    have ih := decUnprotPairs_rel r
    unfold decUnprotPairs at h
    cases hk : decodeAny k with
    | ok key =>
      simp only [hk] at h
      generalize hval : (if isCsigLabel key then decCsigValue v else decodeAny v) = value at h
      cases value <;> cases hr : decUnprotPairs r <;> simp [hr] at h
      subst h
      refine ⟨⟨hk, ?_⟩, ih _ hr⟩
      split at hval
      · rename_i hc; exact .inr ⟨hc, hval⟩
      · rename_i hc; exact .inl ⟨by simpa using hc, hval⟩
    | err e => simp [hk] at h
    | panic => simp [hk] at h
    | unmodelled => simp [hk] at h

/-! ### decoded entries are fixed by `normEntry` / `decEntry` -/

theorem normEntry_of_rel {kv : Wire × Wire} {e : GoVal × GoVal} (h : DecRel kv e) :
    normEntry e = e := by
  obtain ⟨k, v⟩ := e
  simp only [normEntry, decodeAny_normVal h.1, decodeAny_normVal h.2]

theorem normEntry_of_relU {kv : Wire × Wire} {e : GoVal × GoVal} (h : DecRelU kv e) :
    normEntry e = e := by
  obtain ⟨k, v⟩ := e
  have hv : normVal v = v := by
    rcases h.2 with ⟨-, h2⟩ | ⟨-, h2⟩
    · exact decodeAny_normVal h2
    · exact decCsigValue_normVal h2
  simp only [normEntry, decodeAny_normVal h.1, hv]

/-- the alg retyping commutes with the round trip: an entry the generic decoder produced, after
    the retyping of the protected-header decoder, is what `decEntry` yields for itself -/
theorem decEntry_castEntry {e : GoVal × GoVal} (h : normEntry e = e) :
    decEntry (castEntry e) = castEntry e := by
  obtain ⟨k, v⟩ := e
  simp only [normEntry, Prod.mk.injEq] at h
  obtain ⟨hk, hv⟩ := h
  unfold decEntry
  by_cases hc : k.keyEq (lbl 1) = true
  · have hk1 : k = lbl 1 :=
      eq_of_keyEq_of_normalizes' (by rw [normalizeLabel_lbl1]; simp) hc
    subst hk1
    cases v <;> simp only [normVal, reduceCtorEq, GoVal.int.injEq] at hv <;>
      first
        | rfl
        | (obtain ⟨rfl, -⟩ := hv; rfl)
  · have h1 : castEntry (k, v) = (k, v) := by simp [castEntry, hc]
    rw [h1]
    simp only [normEntry, hk, hv, h1]

/-! ### shape of an accepted protected bucket -/

/-- an accepted protected bucket: empty content, or the bytes of one well-formed map item whose
    entries the generic decoder read one by one, `alg` retyped entry-wise afterwards -/
theorem decProtectedContent_shape {enc : Bytes} {m : GoMap}
    (h : decProtectedContent enc = .ok m) :
    enc = [] ∧ m = [] ∨ ∃ hw kvs m0, enc = (Wire.map hw kvs).bytes ∧
      (Wire.map hw kvs).wf = true ∧ (Wire.map hw kvs).inLimits true 0 = true ∧
      Rel2 DecRel kvs m0 ∧ m = m0.map castEntry := by
  rcases C13.decProtectedContent_ok h with h0 | ⟨hw, kvs, m0, hpt, hd, hv, rfl⟩
  · exact .inl h0
  · right
    obtain ⟨hbytes, hwf, hlim⟩ := parseTop_sound hpt
    obtain ⟨t, ht, hrel⟩ := decodePairs_rel kvs [] m0 hd
    simp only [List.reverse_nil, List.nil_append] at ht
    subst ht
    have hok := C13.validate_labels m0 true hv
    have hkn := C13.decodePairs_keys_normal kvs [] m0 hd (by intro e he; cases he)
    have hn : ∀ e ∈ m0, normalizeLabel e.1 = some e.1 := by
      intro e he
      rcases hkn e he with h' | h'
      · exact absurd h' (hok.1 e he)
      · exact h'
    exact ⟨hw, kvs, m0, hbytes, hwf, hlim, hrel, castAlg_eq_map hok hn⟩

theorem protected_decoded_fixed {enc : Bytes} {m : GoMap} (h : decProtectedContent enc = .ok m) :
    ∀ e ∈ m, decEntry e = e := by
  rcases decProtectedContent_shape h with ⟨-, rfl⟩ | ⟨hw, kvs, m0, -, -, -, hrel, rfl⟩
  · intro e he; cases he
  · intro e he
    obtain ⟨e0, he0, rfl⟩ := List.mem_map.mp he
    obtain ⟨kv, -, hr⟩ := hrel.mem_right e0 he0
    exact decEntry_castEntry (normEntry_of_rel hr)

theorem protected_decoded_length {enc : Bytes} {m : GoMap} (h : decProtectedContent enc = .ok m) :
    m.length ≤ maxElems := by
  rcases decProtectedContent_shape h with ⟨-, rfl⟩ | ⟨hw, kvs, m0, -, -, hlim, hrel, rfl⟩
  · simp
  · simp only [Wire.inLimits, Bool.and_eq_true, decide_eq_true_eq] at hlim
    rw [List.length_map, ← hrel.length_eq]
    exact hlim.1.2

/-! ### re-encoding never lengthens -/

theorem intWire_nat (n : Nat) : intWire (n : Int) = .uint (HW.shortest n) n := by
  unfold intWire
  rw [if_pos (by omega)]
  simp

theorem intWire_neg (n : Nat) : intWire (-1 - (n : Int)) = .nint (HW.shortest n) n := by
  unfold intWire
  rw [if_neg (by omega)]
  have : (-1 - (-1 - (n : Int))).toNat = n := by omega
  rw [this]

/-- the item the encoder emits for a decoded flat value is not longer than the item it was decoded
    from -/
theorem valWire_length_le {w : Wire} {v : GoVal} (h : decodeAny w = .ok v) (hwf : w.wf = true)
    (hv : FlatVal v) : (valWire v).bytes.length ≤ w.bytes.length := by
  cases w with
  | uint hw n =>
    unfold decodeAny at h
    split at h <;> cases h
    simp only [valWire, intWire_nat, Wire.bytes]
    exact C09.shortest_head_le 0 hwf
  | nint hw n =>
    unfold decodeAny at h
    split at h <;> cases h
    simp only [valWire, intWire_neg, Wire.bytes]
    exact C09.shortest_head_le 1 hwf
  | bstr hw b =>
    unfold decodeAny at h; cases h
    have := C09.shortest_head_le 2 hwf
    simp only [valWire, Wire.bytes, List.length_append]
    omega
  | tstr hw b =>
    unfold decodeAny at h
    split at h <;> cases h
    have := C09.shortest_head_le 3 hwf
    simp only [valWire, Wire.bytes, List.length_append]
    omega
  | tag hw t x => unfold decodeAny at h; cases h
  | prim hw n =>
    cases hw <;> unfold decodeAny at h
    · split at h
      · cases h; exact hv.elim
      · split at h
        · cases h; simp [valWire, Wire.bytes, headBytes]
        · split at h <;> cases h <;> simp [valWire, Wire.bytes, headBytes]
    · cases h; exact hv.elim
    · cases h
    · cases h
    · cases h; exact hv.elim
  | arr hw xs =>
    unfold decodeAny at h
    cases hl : decodeList xs <;> simp [hl] at h
    subst h; exact hv.elim
  | map hw kvs =>
    unfold decodeAny at h
    cases hl : decodePairs kvs [] <;> simp [hl] at h
    subst h; exact hv.elim

theorem valWire_algCast (v : GoVal) : valWire (algCast v) = valWire v := by
  cases v <;> try rfl
  case int k a => cases hs : k.signed <;> simp [algCast, hs, valWire]

theorem flatVal_of_algCast {v : GoVal} (h : FlatVal (algCast v)) : FlatVal v := by
  cases v <;> try exact h
  case int k a => cases hs : k.signed <;> simpa [algCast, hs, FlatVal] using h

theorem entryWire_castEntry (e : GoVal × GoVal) : entryWire (castEntry e) = entryWire e := by
  unfold castEntry
  split
  · simp only [entryWire, valWire_algCast]
  · rfl

theorem flatVal_of_castEntry {e : GoVal × GoVal} (h : FlatVal (castEntry e).2) : FlatVal e.2 := by
  unfold castEntry at h
  split at h
  · exact flatVal_of_algCast h
  · exact h

theorem bytesPairs_length_perm {l l' : List (Wire × Wire)} (hp : l.Perm l') :
    (Wire.bytesPairs l).length = (Wire.bytesPairs l').length := by
  induction hp with
  | nil => rfl
  | cons x _ ih =>
    obtain ⟨k, v⟩ := x
    simp only [Wire.bytesPairs, List.length_append, ih]
  | swap x y l =>
    obtain ⟨k, v⟩ := x
    obtain ⟨k', v'⟩ := y
    simp only [Wire.bytesPairs, List.length_append]
    omega
  | trans _ _ ih1 ih2 => exact ih1.trans ih2

theorem bytesPairs_length_le : ∀ {kvs : List (Wire × Wire)} {m0 : GoMap},
    Rel2 DecRel kvs m0 → Wire.wfPairs kvs = true → (∀ e ∈ m0, FlatVal e.1 ∧ FlatVal e.2) →
    (Wire.bytesPairs (m0.map entryWire)).length ≤ (Wire.bytesPairs kvs).length
  | [], [], _, _, _ => Nat.le_refl _
  | (k, v) :: r, e :: m0, hrel, hwf, hf => by
    obtain ⟨⟨h1, h2⟩, hr⟩ := hrel
    simp only [Wire.wfPairs, Bool.and_eq_true] at hwf
    obtain ⟨hf1, hf2⟩ := hf e (List.mem_cons_self ..)
    have ih := bytesPairs_length_le hr hwf.2 (fun x hx => hf x (List.mem_cons_of_mem _ hx))
    have l1 := valWire_length_le (w := k) h1 hwf.1.1 hf1
    have l2 := valWire_length_le (w := v) h2 hwf.1.2 hf2
    simp only [List.map_cons, entryWire, Wire.bytesPairs, List.length_append]
    omega
  | [], _ :: _, h, _, _ => h.elim
  | _ :: _, [], h, _, _ => h.elim

/-- the canonical encoding of a decoded flat protected map is not longer than the content it was
    decoded from -/
theorem protected_decoded_bytes_le {enc : Bytes} {m : GoMap}
    (h : decProtectedContent enc = .ok m) (hf : FlatMap m) (hne : m ≠ []) :
    (mapWire m).bytes.length ≤ enc.length := by
  rcases decProtectedContent_shape h with ⟨-, rfl⟩ | ⟨hw, kvs, m0, rfl, hwf, -, hrel, rfl⟩
  · exact absurd rfl hne
  · simp only [Wire.wf, Bool.and_eq_true] at hwf
    have hlen : (m0.map castEntry).length = kvs.length := by
      rw [List.length_map, ← hrel.length_eq]
    have hhead := C09.shortest_head_le 5 hwf.1
    have hflat : ∀ e ∈ m0, FlatVal e.1 ∧ FlatVal e.2 := by
      intro e he
      obtain ⟨g1, g2⟩ := hf (castEntry e) (List.mem_map_of_mem he)
      rw [castEntry_fst] at g1
      exact ⟨g1.flatVal, flatVal_of_castEntry g2⟩
    have hbody := bytesPairs_length_le hrel hwf.2 hflat
    have hperm := bytesPairs_length_perm (wirePairs_perm (m0.map castEntry))
    have hmap : (m0.map castEntry).map entryWire = m0.map entryWire := by
      rw [List.map_map]
      apply List.map_congr_left
      intro e _
      exact entryWire_castEntry e
    rw [hmap] at hperm
    simp only [mapWire, Wire.bytes, wirePairs_length, List.length_append, hlen]
    omega

/-! ### shape of an accepted unprotected bucket -/

theorem unprotected_decoded_fixed {u : Wire} {um : GoMap} (h : decUnprot u = .ok um) :
    ∀ e ∈ um, normEntry e = e := by
  obtain ⟨hw, kvs, rfl, -, hd, -⟩ := C05.decUnprot_ok h
  intro e he
  obtain ⟨kv, -, hr⟩ := (decUnprotPairs_rel kvs um hd).mem_right e he
  exact normEntry_of_relU hr

theorem unprotected_decoded_length {u : Wire} {um : GoMap} (h : decUnprot u = .ok um)
    {t : Bool} {d : Nat} (hlim : u.inLimits t d = true) : um.length ≤ maxElems := by
  obtain ⟨hw, kvs, rfl, -, hd, -⟩ := C05.decUnprot_ok h
  simp only [Wire.inLimits, Bool.and_eq_true, decide_eq_true_eq] at hlim
  rw [← (decUnprotPairs_rel kvs um hd).length_eq]
  exact hlim.1.2

/-! ### canonical buckets: flat, already in the decoder's normal form -/

theorem map_id_of_fixed {f : GoVal × GoVal → GoVal × GoVal} {l : GoMap}
    (h : ∀ e ∈ l, f e = e) : l.map f = l := by
  conv => rhs; rw [← List.map_id l]
  apply List.map_congr_left
  intro e he
  exact h e he

theorem sortEntries_idem (h : GoMap) : sortEntries (sortEntries h) = sortEntries h :=
  List.mergeSort_of_pairwise
    (le := fun (a b : GoVal × GoVal) => bytesLe (valWire a.1).bytes (valWire b.1).bytes)
    (sortEntries_sorted h)

theorem mapWire_sortEntries (h : GoMap) : mapWire (sortEntries h) = mapWire h := by
  simp only [mapWire, wirePairs, sortEntries_idem, sortEntries_length]

theorem sortEntries_nil : sortEntries [] = [] := by simp [sortEntries]

theorem sortEntries_ne_nil {h : GoMap} (hne : h ≠ []) : sortEntries h ≠ [] := by
  intro hc
  have := sortEntries_length h
  rw [hc] at this
  cases h with
  | nil => exact hne rfl
  | cons _ _ => simp at this

theorem castEntry_snd (a v : GoVal) :
    (castEntry (a, v)).2 = algCast v ∨ (castEntry (a, v)).2 = v := by
  unfold castEntry
  split
  · exact .inl rfl
  · exact .inr rfl

/-- an entry that the protected-header decoder would reproduce does not hold an integer of an
    unsigned Go type -/
theorem uintOK_of_decEntry_fixed {e : GoVal × GoVal} (h : decEntry e = e) : UintOK e.2 := by
  obtain ⟨k, v⟩ := e
  cases v <;> try trivial
  case int ik n =>
    intro hs
    exfalso
    have h2 : (castEntry (normVal k, GoVal.int .i64 n)).2 = GoVal.int ik n := congrArg Prod.snd h
    rcases castEntry_snd (normVal k) (GoVal.int .i64 n) with h3 | h3
    · rw [h3] at h2
      simp [algCast, IntKind.signed] at h2
    · rw [h3] at h2
      simp only [GoVal.int.injEq] at h2
      rw [← h2.1] at hs
      cases hs

theorem uintOK_of_normEntry_fixed {e : GoVal × GoVal} (h : normEntry e = e) : UintOK e.2 := by
  obtain ⟨k, v⟩ := e
  cases v <;> try trivial
  case int ik n =>
    intro hs
    exfalso
    have h2 := congrArg Prod.snd h
    simp only [normEntry, normVal, GoVal.int.injEq] at h2
    rw [← h2.1] at hs
    cases hs

theorem encBstr_nil : encBstr [] = [0x40] := by decide

/-- a flat, validated protected bucket that is already in the decoder's normal form: the encoder
    emits a byte string whose content the decoder reads back as the SAME entries in canonical
    order, and encoding those gives the same bytes again -/
theorem protected_canon {m : GoMap} (hf : FlatMap m) (hfix : ∀ e ∈ m, decEntry e = e)
    (hv : validateHeaderParameters m true = true) (hlen : m.length ≤ maxElems) :
    ∃ content, encodeBucket encCfg true none m = some (encBstr content) ∧
      (m = [] → content = []) ∧ (m ≠ [] → content = (mapWire m).bytes) ∧
      decProtectedContent content = .ok (sortEntries m) ∧
      encodeBucket encCfg true none (sortEntries m) = some (encBstr content) := by
  by_cases hne : m = []
  · subst hne
    refine ⟨[], ?_, fun _ => rfl, fun h => absurd rfl h, ?_, ?_⟩
    · simp [encodeBucket, encBstr_nil]
    · simp [decProtectedContent, sortEntries_nil]
    · simp [encodeBucket, encBstr_nil, sortEntries_nil]
  · have hok := C13.validate_labels m true hv
    have hp := sortEntries_perm m
    have hvs : validateHeaderParameters (sortEntries m) true = true := by
      rw [C13.validate_perm_invariant _ _ hp]; exact hv
    have hu : ∀ e ∈ sortEntries m, UintOK e.2 :=
      fun e he => uintOK_of_decEntry_fixed (hfix e (hp.mem_iff.mp he))
    have hvn := validate_normEntry true hf.sorted hu hvs
    have hid : (sortEntries m).map decEntry = sortEntries m :=
      map_id_of_fixed (fun e he => hfix e (hp.mem_iff.mp he))
    refine ⟨(mapWire m).bytes, ?_, fun h => absurd h hne, fun _ => rfl, ?_, ?_⟩
    · rw [encodeBucket_flat hf true hv hne (fun h => Bool.noConfusion h)]; rfl
    · rw [decProtectedContent_mapWire hf hok hlen, if_pos hvn, hid]
    · rw [encodeBucket_flat hf.sorted true hvs (sortEntries_ne_nil hne) (fun h => Bool.noConfusion h), mapWire_sortEntries]; rfl

/-- the same for the unprotected bucket: the encoder emits the canonical map item -/
theorem unprotected_canon {um : GoMap} (hf : FlatMap um) (hfix : ∀ e ∈ um, normEntry e = e)
    (hv : validateHeaderParameters um false = true) (hlen : um.length ≤ maxElems) :
    encodeBucket encCfg false none um = some (mapWire um).bytes ∧ (mapWire um).wf = true ∧
      (∀ t d, d + 1 ≤ maxNested → (mapWire um).inLimits t d = true) ∧
      decUnprot (mapWire um) = .ok (sortEntries um) ∧
      encodeBucket encCfg false none (sortEntries um) = some (mapWire um).bytes := by
  have hp := sortEntries_perm um
  have hu : ∀ e ∈ um, UintOK e.2 := fun e he => uintOK_of_normEntry_fixed (hfix e he)
  have hid : (sortEntries um).map normEntry = sortEntries um :=
    map_id_of_fixed (fun e he => hfix e (hp.mem_iff.mp he))
  have hvs : validateHeaderParameters (sortEntries um) false = true := by
    rw [C13.validate_perm_invariant _ _ hp]; exact hv
  have he : ∀ g : GoMap, FlatMap g → validateHeaderParameters g false = true →
      g.length ≤ maxElems →
      encodeBucket encCfg false none g = some (mapWire g).bytes := by
    intro g hg hvg hlg
    by_cases hne : g = []
    · subst hne
      rw [mapWire_nil_bytes]
      simp [encodeBucket]
    · rw [encodeBucket_flat hg false hvg hne (fun _ => hlg)]; rfl
  refine ⟨he um hf hv hlen, mapWire_wf hf hlen, fun t d hd => mapWire_inLimits hlen t d hd, ?_, ?_⟩
  · rw [decUnprot_mapWire hf hu hv hlen, hid]
  · rw [he _ hf.sorted hvs (by rw [sortEntries_length]; exact hlen), mapWire_sortEntries]

/-! ### a wire-side condition that makes the decoded maps flat -/

/-- a header VALUE item that is a scalar on the wire: integer, byte string, text string,
    `false` / `true` / `null` / `undefined` (any head width) -/
def ScalarItem : Wire → Prop
  | .uint .. => True
  | .nint .. => True
  | .bstr .. => True
  | .tstr .. => True
  | .prim .imm n => 20 ≤ n
  | _ => False

theorem flatVal_of_scalar {w : Wire} {v : GoVal} (h : decodeAny w = .ok v) (hwf : w.wf = true)
    (hs : ScalarItem w) : FlatVal v := by
  cases w with
  | uint hw n =>
    unfold decodeAny at h
    split at h <;> cases h
    rename_i hn
    unfold maxInt64 at hn
    simp only [FlatVal, int64Range]
    omega
  | nint hw n =>
    unfold decodeAny at h
    split at h <;> cases h
    rename_i hn
    unfold maxInt64 at hn
    simp only [FlatVal, int64Range]
    omega
  | bstr hw b => unfold decodeAny at h; cases h; exact Reencode.fits_lt hwf
  | tstr hw b =>
    unfold decodeAny at h
    split at h <;> cases h
    rename_i hu
    exact ⟨hu, Reencode.fits_lt hwf⟩
  | tag hw t x => exact hs.elim
  | prim hw n =>
    cases hw
    · unfold decodeAny at h
      simp only [ScalarItem] at hs
      split at h
      · omega
      · split at h
        · cases h; trivial
        · split at h <;> cases h <;> trivial
    all_goals exact hs.elim
  | arr hw xs => exact hs.elim
  | map hw kvs => exact hs.elim

/-- a decoded key that is a label at all is a flat label -/
theorem flatLabel_of_dec {w : Wire} {v : GoVal} (h : decodeAny w = .ok v) (hwf : w.wf = true)
    (hn : normalizeLabel v ≠ none) : FlatLabel v := by
  cases w with
  | uint hw n =>
    have hf := flatVal_of_scalar h hwf trivial
    unfold decodeAny at h
    split at h <;> cases h
    exact hf
  | nint hw n =>
    have hf := flatVal_of_scalar h hwf trivial
    unfold decodeAny at h
    split at h <;> cases h
    exact hf
  | bstr hw b => unfold decodeAny at h; cases h; exact absurd rfl hn
  | tstr hw b =>
    have hf := flatVal_of_scalar h hwf trivial
    unfold decodeAny at h
    split at h <;> cases h
    exact hf
  | tag hw t x => unfold decodeAny at h; cases h
  | prim hw n =>
    cases hw <;> unfold decodeAny at h
    · split at h
      · cases h; exact absurd rfl hn
      · split at h
        · cases h; exact absurd rfl hn
        · split at h <;> cases h <;> exact absurd rfl hn
    · cases h; exact absurd rfl hn
    · cases h
    · cases h
    · cases h; exact absurd rfl hn
  | arr hw xs =>
    unfold decodeAny at h
    cases hl : decodeList xs <;> simp [hl] at h
    subst h; exact absurd rfl hn
  | map hw kvs =>
    unfold decodeAny at h
    cases hl : decodePairs kvs [] <;> simp [hl] at h
    subst h; exact absurd rfl hn

theorem wfPairs_mem : ∀ {kvs : List (Wire × Wire)}, Wire.wfPairs kvs = true →
    ∀ kv ∈ kvs, kv.1.wf = true ∧ kv.2.wf = true
  | [], _, kv, hkv => by cases hkv
  | (k, v) :: r, h, kv, hkv => by
    simp only [Wire.wfPairs, Bool.and_eq_true] at h
    rcases List.mem_cons.mp hkv with rfl | hkv
    · exact h.1
    · exact wfPairs_mem h.2 kv hkv

theorem flatVal_algCast {v : GoVal} (h : FlatVal v) : FlatVal (algCast v) := by
  cases v <;> try exact h
  case int k a => cases hs : k.signed <;> simpa [algCast, hs, FlatVal] using h

/-- PROTECTED: if every value item of the map inside the protected byte string is a scalar, the
    decoded map is flat -/
theorem protected_flat_of_scalar {enc : Bytes} {m : GoMap} (hd : decProtectedContent enc = .ok m)
    (hs : ∀ hw kvs, enc = (Wire.map hw kvs).bytes → (Wire.map hw kvs).wf = true →
      ∀ kv ∈ kvs, ScalarItem kv.2) : FlatMap m := by
  have hok := C13.validate_labels m true (C13.decoded_reencodable enc m hd)
  rcases decProtectedContent_shape hd with ⟨-, rfl⟩ | ⟨hw, kvs, m0, henc, hwf, -, hrel, rfl⟩
  · intro e he; cases he
  · have hsc := hs hw kvs henc hwf
    simp only [Wire.wf, Bool.and_eq_true] at hwf
    intro e he
    have hne := hok.1 e he
    obtain ⟨e0, he0, rfl⟩ := List.mem_map.mp he
    obtain ⟨kv, hkv, h1, h2⟩ := hrel.mem_right e0 he0
    obtain ⟨w1, w2⟩ := wfPairs_mem hwf.2 kv hkv
    rw [castEntry_fst] at hne ⊢
    refine ⟨flatLabel_of_dec h1 w1 hne, ?_⟩
    have hv := flatVal_of_scalar h2 w2 (hsc kv hkv)
    rcases castEntry_snd e0.1 e0.2 with h3 | h3
    · rw [h3]; exact flatVal_algCast hv
    · rw [h3]; exact hv

theorem csigsNil_refused {g : GoMap} {l' l : GoVal} (hc : isCsigLabel l' = true)
    (hl : normalizeLabel l' = some l) : checkParam g false l .csigsNil = false := by
  unfold isCsigLabel at hc
  rw [hl] at hc
  split at hc
  · rename_i heq; cases heq; simp [checkParam, isCsigValue]
  · rename_i heq; cases heq; simp [checkParam, isCsigValue]
  · cases hc

/-- UNPROTECTED: the same (a `null` under a countersignature label is refused by the decoder's
    validation, so scalars never reach the typed countersignature decoder successfully) -/
theorem unprotected_flat_of_scalar {hw : HW} {kvs : List (Wire × Wire)} {um : GoMap}
    (hd : decUnprot (.map hw kvs) = .ok um) (hwf : (Wire.map hw kvs).wf = true)
    (hs : ∀ kv ∈ kvs, ScalarItem kv.2) : FlatMap um := by
  obtain ⟨hw', kvs', heq, -, hdp, hv⟩ := C05.decUnprot_ok hd
  cases heq
  have hok := C13.validate_labels um false hv
  simp only [Wire.wf, Bool.and_eq_true] at hwf
  intro e he
  obtain ⟨kv, hkv, h1, h2⟩ := (decUnprotPairs_rel kvs um hdp).mem_right e he
  obtain ⟨w1, w2⟩ := wfPairs_mem hwf.2 kv hkv
  refine ⟨flatLabel_of_dec h1 w1 (hok.1 e he), ?_⟩
  rcases h2 with ⟨-, h2⟩ | ⟨hc, h2⟩
  · exact flatVal_of_scalar h2 w2 (hs kv hkv)
  · exfalso
    have hsc := hs kv hkv
    rcases C05.csig_value_accept _ _ h2 with ⟨xs, hx, -⟩ | ⟨_, xs, l, hx, -⟩ | ⟨-, hnil⟩
    · rw [hx] at hsc; exact hsc
    · rw [hx] at hsc; exact hsc
    · obtain ⟨l, hl, hchk⟩ := ((C13.validate_iff um false).mp hv).2 e he
      rw [hnil, csigsNil_refused hc hl] at hchk
      cases hchk

/-! ### assembling COSE_Sign1 -/

theorem flatVal_modelled {v : GoVal} (hv : FlatVal v) : v.modelled = true := by
  cases v <;> simp only [FlatVal] at hv <;> rfl

theorem flat_modelled {h : GoMap} (hf : FlatMap h) : GoVal.modelledPairs h = true := by
  rw [C01.modelledPairs_iff]
  intro e he
  exact ⟨flatVal_modelled (hf e he).1.flatVal, flatVal_modelled (hf e he).2⟩

theorem marshalProtected_of_bucket {h : Hdrs} {P : Bytes} (hr : h.rawP = none)
    (hm : GoVal.modelledPairs h.p = true) (he : encodeBucket encCfg true none h.p = some P) :
    marshalProtected h = .ok P := by
  simp [marshalProtected, hm, hr, he]

theorem marshalUnprotected_of_bucket {h : Hdrs} {U : Bytes} (hr : h.rawU = none)
    (hm : GoVal.modelledPairs h.u = true) (he : encodeBucket encCfg false none h.u = some U) :
    marshalUnprotected h = .ok U := by
  simp [marshalUnprotected, hm, hr, he]

theorem marshal_of_buckets {tagged : Bool} {m : Sign1Msg} {P U : Bytes} (hz : blen m.sig ≠ 0)
    (hiv : ensureIV m.h.p m.h.u = true) (hP : marshalProtected m.h = .ok P)
    (hU : marshalUnprotected m.h = .ok U) :
    Sign1.marshal tagged m = .ok (C09.pre tagged ++
      0x84 :: (P ++ (U ++ (optBytesEnc m.payload ++ encBstr (m.sig.getD []))))) := by
  cases tagged <;>
    simp [Sign1.marshal, Sign1.content, Hdrs.marshal, hz, hiv, hP, hU, bind, Out.bind, C09.pre]

/-- the IV / Partial IV cross check does not depend on the order of the entries -/
theorem ensureIV_sorted {p u : GoMap} (hokp : LabelsOK p) (hoku : LabelsOK u)
    (h : ensureIV p u = true) : ensureIV (sortEntries p) (sortEntries u) = true := by
  have hp : ∀ l, hasLabel (sortEntries p) l = hasLabel p l :=
    fun l => (C13.hasLabel_perm p _ (sortEntries_perm p).symm hokp l).symm
  have hu : ∀ l, hasLabel (sortEntries u) l = hasLabel u l :=
    fun l => (C13.hasLabel_perm u _ (sortEntries_perm u).symm hoku l).symm
  unfold ensureIV at h ⊢
  rw [hp, hp, hu, hu]
  exact h

end ClearRaw

/-! ### headline: the header buckets -/
namespace C09
open ClearRaw

/-- decoded protected maps are already normalised: `decEntry` is the identity on them -/
theorem decoded_protected_normal (enc : Bytes) (m : GoMap) (hd : decProtectedContent enc = .ok m) :
    m.map decEntry = m := map_id_of_fixed (protected_decoded_fixed hd)

/-- decoded unprotected maps are already normalised: `normEntry` is the identity on them -/
theorem decoded_unprotected_normal (u : Wire) (um : GoMap) (hd : decUnprot u = .ok um) :
    um.map normEntry = um := map_id_of_fixed (unprotected_decoded_fixed hd)

/-- every generically decoded value is its own normal form -/
theorem normVal_decoded (w : Wire) (v : GoVal) (h : decodeAny w = .ok v) : normVal v = v :=
  decodeAny_normVal h

/-- 3a. PROTECTED BUCKET, clear-raw fixpoint.  Whatever content `ProtectedHeader.UnmarshalCBOR`
    accepted (any head widths, any key order), if the decoded parameters are flat then encoding
    the decoded MAP (no retained bytes) succeeds, gives a byte string whose content is not longer
    than the original, which decodes to the same parameters in canonical order (`sortEntries m`,
    a permutation of `m`; every `lookupLabel` agrees), and encoding THAT map gives the same bytes
    again. -/
theorem protected_clear_raw_fixpoint (enc : Bytes) (m : GoMap)
    (hd : decProtectedContent enc = .ok m) (hf : FlatMap m) :
    ∃ (content : Bytes) (m' : GoMap),
      encodeBucket encCfg true none m = some (encBstr content) ∧
      content.length ≤ enc.length ∧
      decProtectedContent content = .ok m' ∧
      m' = sortEntries m ∧ m'.Perm m ∧ (∀ l, lookupLabel m' l = lookupLabel m l) ∧
      encodeBucket encCfg true none m' = some (encBstr content) := by
  have hv := C13.decoded_reencodable enc m hd
  have hok := C13.validate_labels m true hv
  obtain ⟨content, h1, h2, h3, h4, h5⟩ :=
    protected_canon hf (protected_decoded_fixed hd) hv (protected_decoded_length hd)
  refine ⟨content, sortEntries m, h1, ?_, h4, rfl, sortEntries_perm m, ?_, h5⟩
  · by_cases hne : m = []
    · rw [h2 hne]; simp
    · rw [h3 hne]; exact protected_decoded_bytes_le hd hf hne
  · intro l
    exact (C13.lookupLabel_perm m _ (sortEntries_perm m).symm hok l).symm

/-- 3b. UNPROTECTED BUCKET, clear-raw fixpoint.  `hlim`: the item came out of the parser (at most
    131072 pairs). -/
theorem unprotected_clear_raw_fixpoint (u : Wire) (um : GoMap) (hd : decUnprot u = .ok um)
    (hf : FlatMap um) {t : Bool} {d : Nat} (hlim : u.inLimits t d = true) :
    ∃ (u' : Wire) (um' : GoMap),
      encodeBucket encCfg false none um = some u'.bytes ∧
      u'.wf = true ∧ (∀ t, parseTop t u'.bytes = some u') ∧
      decUnprot u' = .ok um' ∧
      um' = sortEntries um ∧ um'.Perm um ∧ (∀ l, lookupLabel um' l = lookupLabel um l) ∧
      encodeBucket encCfg false none um' = some u'.bytes := by
  have hv := C13.decoded_unprot_reencodable u um hd
  have hok := C13.validate_labels um false hv
  obtain ⟨h1, h2, h3, h4, h5⟩ :=
    unprotected_canon hf (unprotected_decoded_fixed hd) hv (unprotected_decoded_length hd hlim)
  refine ⟨mapWire um, sortEntries um, h1, h2, ?_, h4, rfl, sortEntries_perm um, ?_, h5⟩
  · intro t
    exact parseTop_complete h2 (h3 t 0 (by unfold maxNested; omega))
  · intro l
    exact (C13.lookupLabel_perm um _ (sortEntries_perm um).symm hok l).symm

end C09

/-! ### COSE_Sign1 -/
namespace ClearRaw

/-- the message with the retained raw header bytes discarded (`RawProtected = nil`,
    `RawUnprotected = nil`) -/
def clearRaw (m : Sign1Msg) : Sign1Msg :=
  { m with h := { m.h with rawP := none, rawU := none } }

/-- the canonical form of a decoded message: both header maps in the encoder's order, no retained
    raw bytes -/
def canonMsg (m : Sign1Msg) : Sign1Msg :=
  { h := { p := sortEntries m.h.p, u := sortEntries m.h.u }, payload := m.payload, sig := m.sig }

/-- CORE: a decoded COSE_Sign1 with flat header maps, raw bytes discarded, is emitted as bytes
    `b'` that decode to the canonical message (both maps sorted, everything else as decoded), and
    that canonical message, raw bytes discarded, is emitted as `b'` again -/
theorem clear_raw_core (tagged : Bool) (b : Bytes) (m : Sign1Msg)
    (hd : Sign1.unmarshal tagged b = .ok m) (hfp : FlatMap m.h.p) (hfu : FlatMap m.h.u) :
    ∃ (b' P U : Bytes), Sign1.marshal tagged (clearRaw m) = .ok b' ∧
      Sign1.unmarshal tagged b' =
        .ok { h := { rawP := some P, p := sortEntries m.h.p, rawU := some U,
                     u := sortEntries m.h.u },
              payload := m.payload, sig := m.sig } ∧
      Sign1.marshal tagged (canonMsg m) = .ok b' := by
  obtain ⟨p, u, pl, sg, -, -, hwf, hlim, hpl, hsg, hz, hh⟩ := C09.sign1_envelope_full hd
  obtain ⟨hp, hu, hiv, -, -⟩ := C09.decHeaders_ok hh
  obtain ⟨hw, c, rfl, hc, hs⟩ := Accept.wfsig_of_dec hsg hz
  obtain ⟨hwp, enc, rfl, -⟩ := C05.protected_is_bstr_of_map p _ hp
  have hpc : decProtectedContent enc = .ok m.h.p := hp
  simp only [Wire.wf, Wire.wfList, Bool.and_eq_true] at hwf
  obtain ⟨-, hpwf, huwf, hplwf, hsgwf, -⟩ := hwf
  simp only [Wire.inLimits, Wire.inLimitsList, Bool.and_eq_true] at hlim
  obtain ⟨-, -, hulim, -⟩ := hlim
  -- the two buckets
  have hvp := C13.decoded_reencodable enc _ hpc
  have hvu := C13.decoded_unprot_reencodable u _ hu
  have hokp := C13.validate_labels _ true hvp
  have hoku := C13.validate_labels _ false hvu
  obtain ⟨content, -, hE1, hle, hD, rfl, -, -, hE2⟩ :=
    C09.protected_clear_raw_fixpoint enc _ hpc hfp
  obtain ⟨hU1, hUwf, hUlim, hDu, hU2⟩ :=
    unprotected_canon hfu (unprotected_decoded_fixed hu) hvu (unprotected_decoded_length hu hulim)
  have hiv' := ensureIV_sorted hokp hoku hiv
  -- the emitted tree
  have hclen : content.length < 18446744073709551616 := by
    have := Reencode.fits_lt hpwf
    omega
  have hPfit : (HW.shortest content.length).fits content.length = true :=
    Reencode.shortest_fits hclen
  have hsgfit : (HW.shortest c.length).fits c.length = true :=
    Reencode.shortest_fits (Reencode.fits_lt hsgwf)
  have hplwf' := C09.shortItem_wf hplwf hpl
  have hwfT : (Wire.arr .imm [.bstr (HW.shortest content.length) content, mapWire m.h.u,
      C09.shortItem m.payload, .bstr (HW.shortest c.length) c]).wf = true := by
    have h4 : HW.fits .imm 4 = true := by decide
    simp [Wire.wf, Wire.wfList, h4, hPfit, hUwf, hplwf', hsgfit]
  have hlimT : (Wire.arr .imm [.bstr (HW.shortest content.length) content, mapWire m.h.u,
      C09.shortItem m.payload, .bstr (HW.shortest c.length) c]).inLimits false 0 = true := by
    have := hUlim false 1 (by unfold maxNested; omega)
    simp [Wire.inLimits, Wire.inLimitsList, maxNested, maxElems, this, C09.shortItem_inLimits]
  have hplW : WFPayload (C09.shortItem m.payload) := by
    cases m.payload with
    | none => exact .inl rfl
    | some x => exact .inr ⟨_, _, rfl⟩
  have hacc := C07.wf_sign1_accepted_full tagged hwfT hlimT
    (p := .bstr (HW.shortest content.length) content) hD hDu hiv' hplW hc
  have hpay : Accept.payloadOf (C09.shortItem m.payload) = m.payload := by
    cases m.payload <;> rfl
  rw [hpay, ← hs] at hacc
  -- the emitted bytes
  have hbytes : ∀ (P U : Bytes), P = encBstr content → U = (mapWire m.h.u).bytes →
      C09.pre tagged ++ 0x84 :: (P ++ (U ++ (optBytesEnc m.payload ++ encBstr (m.sig.getD []))))
      = (if tagged then [0xd2] else []) ++ (Wire.arr .imm [.bstr (HW.shortest content.length)
          content, mapWire m.h.u, C09.shortItem m.payload, .bstr (HW.shortest c.length) c]).bytes := by
    intro P U hP hU
    subst hP hU
    have := C09.marshal_tree_bytes (.bstr (HW.shortest content.length) content) (mapWire m.h.u)
      m.payload m.sig hz
    have hsi : C09.shortItem m.sig = .bstr (HW.shortest c.length) c := by rw [hs]; rfl
    rw [hsi] at this
    rw [← this]
    rfl
  have hm1 : Sign1.marshal tagged (clearRaw m) = .ok (C09.pre tagged ++ 0x84 ::
      (encBstr content ++ ((mapWire m.h.u).bytes ++
        (optBytesEnc m.payload ++ encBstr (m.sig.getD []))))) :=
    marshal_of_buckets (m := clearRaw m) hz hiv
      (marshalProtected_of_bucket rfl (flat_modelled hfp) hE1)
      (marshalUnprotected_of_bucket rfl (flat_modelled hfu) hU1)
  have hm2 : Sign1.marshal tagged (canonMsg m) = .ok (C09.pre tagged ++ 0x84 ::
      (encBstr content ++ ((mapWire m.h.u).bytes ++
        (optBytesEnc m.payload ++ encBstr (m.sig.getD []))))) :=
    marshal_of_buckets (m := canonMsg m) hz hiv'
      (marshalProtected_of_bucket rfl (flat_modelled hfp.sorted) hE2)
      (marshalUnprotected_of_bucket rfl (flat_modelled hfu.sorted) hU2)
  rw [hbytes _ _ rfl rfl] at hm1 hm2
  exact ⟨_, _, _, hm1, hacc, hm2⟩

end ClearRaw

namespace C09
open ClearRaw

/-- 1. CLEAR-RAW, DECODABLE.  A COSE_Sign1 the library decoded, whose header values are flat, is
    re-encodable after the application discards the retained raw header bytes, and what is emitted
    is decodable again: same payload, same signature, the same header parameters in both buckets
    (the decoded maps are the encoder's canonical ordering `sortEntries` of the original ones: a
    permutation; every lookup, and `Algorithm()`, agree). -/
theorem clear_raw_decodable (tagged : Bool) (b : Bytes) (m : Sign1Msg)
    (hd : Sign1.unmarshal tagged b = .ok m) (hfp : FlatMap m.h.p) (hfu : FlatMap m.h.u) :
    ∃ b', Sign1.marshal tagged { m with h := { m.h with rawP := none, rawU := none } } = .ok b' ∧
      ∃ m', Sign1.unmarshal tagged b' = .ok m' ∧ m'.payload = m.payload ∧ m'.sig = m.sig ∧
        m'.h.p = sortEntries m.h.p ∧ m'.h.u = sortEntries m.h.u ∧
        m'.h.p.Perm m.h.p ∧ m'.h.u.Perm m.h.u ∧
        (∀ l, lookupLabel m'.h.p l = lookupLabel m.h.p l) ∧
        (∀ l, lookupLabel m'.h.u l = lookupLabel m.h.u l) ∧
        algorithmOf m'.h.p = algorithmOf m.h.p := by
  obtain ⟨b', P, U, h1, h2, -⟩ := clear_raw_core tagged b m hd hfp hfu
  obtain ⟨p, u, pl, sg, -, -, hp, hu, -⟩ := C05.sign1_accept_wf_full tagged b m hd
  obtain ⟨hwp, enc, rfl, -⟩ := C05.protected_is_bstr_of_map p _ hp
  have hokp := C13.validate_labels _ true (C13.decoded_reencodable enc _ hp)
  have hoku := C13.validate_labels _ false (C13.decoded_unprot_reencodable u _ hu)
  have hlp : ∀ l, lookupLabel (sortEntries m.h.p) l = lookupLabel m.h.p l :=
    fun l => (C13.lookupLabel_perm _ _ (sortEntries_perm m.h.p).symm hokp l).symm
  have hlu : ∀ l, lookupLabel (sortEntries m.h.u) l = lookupLabel m.h.u l :=
    fun l => (C13.lookupLabel_perm _ _ (sortEntries_perm m.h.u).symm hoku l).symm
  refine ⟨b', h1, _, h2, rfl, rfl, rfl, rfl, sortEntries_perm _, sortEntries_perm _, hlp, hlu, ?_⟩
  unfold algorithmOf
  rw [hlp]

/-- 2. CLEAR-RAW, FIXPOINT.  With `b'`, `m'` as in 1 (ANY result of encoding the cleared message
    and decoding that): discarding the raw bytes of `m'` and encoding again gives `b'` again — the
    canonical form is reached after ONE cycle — and decoding it gives `m'` again (exactly, raw
    fields included, because the bytes are the same). -/
theorem clear_raw_fixpoint (tagged : Bool) (b : Bytes) (m : Sign1Msg)
    (hd : Sign1.unmarshal tagged b = .ok m) (hfp : FlatMap m.h.p) (hfu : FlatMap m.h.u)
    (b' : Bytes) (m' : Sign1Msg)
    (he : Sign1.marshal tagged { m with h := { m.h with rawP := none, rawU := none } } = .ok b')
    (hd' : Sign1.unmarshal tagged b' = .ok m') :
    ∃ b'', Sign1.marshal tagged { m' with h := { m'.h with rawP := none, rawU := none } } = .ok b'' ∧
      b'' = b' ∧ Sign1.unmarshal tagged b'' = .ok m' := by
  obtain ⟨b1, P, U, h1, h2, h3⟩ := clear_raw_core tagged b m hd hfp hfu
  have hb : b1 = b' := Out.ok.inj (h1.symm.trans he)
  subst hb
  rw [h2] at hd'
  cases hd'
  exact ⟨b1, h3, rfl, h2⟩

/-- one decode / discard-raw / encode cycle -/
def clearCycle (tagged : Bool) (b : Bytes) : Out Bytes :=
  Sign1.unmarshal tagged b >>= fun m => Sign1.marshal tagged (clearRaw m)

/-- 2'. the cycle is idempotent on inputs whose decoded header values are flat -/
theorem clearCycle_idempotent (tagged : Bool) (b b1 : Bytes)
    (hflat : ∀ m, Sign1.unmarshal tagged b = .ok m → FlatMap m.h.p ∧ FlatMap m.h.u)
    (h : clearCycle tagged b = .ok b1) : clearCycle tagged b1 = .ok b1 := by
  unfold clearCycle at h ⊢
  cases hd : Sign1.unmarshal tagged b with
  | ok m =>
    simp only [hd, bind, Out.bind] at h
    obtain ⟨hfp, hfu⟩ := hflat m hd
    obtain ⟨b', P, U, h1, h2, h3⟩ := clear_raw_core tagged b m hd hfp hfu
    have hb : b' = b1 := Out.ok.inj (h1.symm.trans h)
    subst hb
    simp only [h2, bind, Out.bind]
    exact h3
  | err e => simp [hd, bind, Out.bind] at h
  | panic => simp [hd, bind, Out.bind] at h
  | unmodelled => simp [hd, bind, Out.bind] at h

/-- 1'. WIRE-SIDE sufficient condition for the flatness hypotheses of 1 and 2: the accepted input
    is the (unique) well-formed tree `[bstr enc, {kvsu}, pl, sg]`; every VALUE item of the
    unprotected map, and of the map inside the protected byte string (if any), is a scalar
    (`ScalarItem`: integer, byte string, text, false/true/null/undefined, any head width).
    Nothing is asked of the keys: the decoder already refuses everything but int / text labels. -/
theorem flat_of_scalar_items (tagged : Bool) (b : Bytes) (m : Sign1Msg)
    (hd : Sign1.unmarshal tagged b = .ok m)
    (hwp hwu : HW) (enc : Bytes) (kvsu : List (Wire × Wire)) (pl sg : Wire)
    (hb : b = (if tagged then [0xd2] else []) ++
      (Wire.arr .imm [.bstr hwp enc, .map hwu kvsu, pl, sg]).bytes)
    (hwf : (Wire.arr .imm [.bstr hwp enc, .map hwu kvsu, pl, sg]).wf = true)
    (hsp : ∀ hw kvs, enc = (Wire.map hw kvs).bytes → (Wire.map hw kvs).wf = true →
      ∀ kv ∈ kvs, ScalarItem kv.2)
    (hsu : ∀ kv ∈ kvsu, ScalarItem kv.2) : FlatMap m.h.p ∧ FlatMap m.h.u := by
  obtain ⟨p, u, pl', sg', hb', -, hwf', -, -, -, -, hh⟩ := C09.sign1_envelope_full hd
  obtain ⟨hp, hu, -, -, -⟩ := C09.decHeaders_ok hh
  have hbytes : (Wire.arr .imm [.bstr hwp enc, .map hwu kvsu, pl, sg]).bytes
      = (Wire.arr .imm [p, u, pl', sg']).bytes :=
    List.append_cancel_left (hb.symm.trans hb')
  have heq := Reencode.bytes_inj hwf hwf' hbytes
  simp only [Wire.arr.injEq, List.cons.injEq, and_true, true_and] at heq
  obtain ⟨rfl, rfl, -, -⟩ := heq
  simp only [Wire.wf, Wire.wfList, Bool.and_eq_true] at hwf
  exact ⟨protected_flat_of_scalar (enc := enc) hp hsp,
    unprotected_flat_of_scalar hu (by simpa [Wire.wf] using hwf.2.2.1) hsu⟩

end C09

/-! ### non-vacuity: a message whose header buckets are NOT canonical on the wire -/
namespace ClearRawExamples
open ClearRaw

/-- protected bucket `a2 04 41 31 01 26`: `{4: h'31', 1: -7}` with the keys OUT OF ORDER -/
def exPu : Wire := .bstr .imm [0xa2, 0x04, 0x41, 0x31, 0x01, 0x26]

/-- the map inside it -/
def exPuMap : Wire := .map .imm [(.uint .imm 4, .bstr .imm [0x31]), (.uint .imm 1, .nint .imm 6)]

/-- unprotected bucket `a1 03 18 05`: `{3: 5}` with a NON-SHORTEST head for the value -/
def exUn : Wire := .map .imm [(.uint .imm 3, .uint .w1 5)]

/-- `18([h'a20441310126', {3: 5}, h'010203', h'07'])`, encoded as described -/
def exB : Bytes :=
  [0xd2, 0x84, 0x46, 0xa2, 0x04, 0x41, 0x31, 0x01, 0x26, 0xa1, 0x03, 0x18, 0x05,
   0x43, 1, 2, 3, 0x41, 7]

/-- the same message in canonical form: protected `a2 01 26 04 41 31`, unprotected `a1 03 05` -/
def exB' : Bytes :=
  [0xd2, 0x84, 0x46, 0xa2, 0x01, 0x26, 0x04, 0x41, 0x31, 0xa1, 0x03, 0x05,
   0x43, 1, 2, 3, 0x41, 7]

def exPm : GoMap := [(lbl 4, .bytes [0x31]), (lbl 1, .alg (-7))]
def exUm : GoMap := [(lbl 3, .int .i64 5)]

theorem ex_decPu : decProtected exPu = .ok exPm := by
  simp [exPu, exPm, decProtected, decProtectedContent, parseTop, parseItem, parsePairs, fuelFor,
    parseHead, maxNested, maxElems, labelsOK, maxInt64, GoVal.keyEq, decodePairs, decodeAny,
    keyHashable, validateHeaderParameters, validateLoop, normalizeLabel, wrap64, checkParam,
    castAlg, algorithmOf, lookupLabel, GoMap.lookup, lbl, GoMap.set, GoMap.has, bind, Out.bind,
    canInt, canTstr, canBstr, IntKind.signed, Wire.stripSelfDescribed,
    (by decide : headerLabelsUntagged [0xa2, 0x04, 0x41, 0x31, 0x01, 0x26] = true)]

theorem ex_decUn : decUnprot exUn = .ok exUm := by
  simp [exUn, exUm, decUnprot, labelsOK, decUnprotPairs, decodeAny, isCsigLabel, normalizeLabel,
    wrap64, maxInt64, validateHeaderParameters, validateLoop, checkParam, tstrOrUintOK, canUint,
    IntKind.signed, GoVal.keyEq, lbl, Wire.stripSelfDescribed,
    (by decide : headerLabelsUntagged (Wire.map .imm [(.uint .imm 3, .uint .w1 5)]).bytes = true)]

theorem exB_tree : exB = (if true then [0xd2] else []) ++
    (Wire.arr .imm [exPu, exUn, .bstr .imm [1, 2, 3], .bstr .imm [7]]).bytes := by decide

theorem ex_tree_wf :
    (Wire.arr .imm [exPu, exUn, .bstr .imm [1, 2, 3], .bstr .imm [7]]).wf = true := by
  simp [Wire.wf, Wire.wfList, Wire.wfPairs, HW.fits, exPu, exUn]

theorem ex_unmarshal : Sign1.unmarshal true exB =
    .ok { h := { rawP := some exPu.bytes, p := exPm, rawU := some exUn.bytes, u := exUm },
          payload := some [1, 2, 3], sig := some [7] } := by
  rw [exB_tree]
  exact C07.wf_sign1_accepted_full true (p := exPu) (u := exUn) (pl := .bstr .imm [1, 2, 3])
    (hw := .imm) (c := [7]) ex_tree_wf
    (by simp [Wire.inLimits, Wire.inLimitsList, Wire.inLimitsPairs, exPu, exUn, maxNested,
      maxElems])
    ex_decPu ex_decUn (by decide) (.inr ⟨_, _, rfl⟩) (by decide)

/-- the flatness hypotheses follow from the wire-side condition `C09.flat_of_scalar_items` -/
theorem ex_flat : FlatMap exPm ∧ FlatMap exUm := by
  refine C09.flat_of_scalar_items true exB _ ex_unmarshal .imm .imm
    [0xa2, 0x04, 0x41, 0x31, 0x01, 0x26] [(.uint .imm 3, .uint .w1 5)] (.bstr .imm [1, 2, 3])
    (.bstr .imm [7]) exB_tree ex_tree_wf ?_ ?_
  · intro hw kvs he hwf
    have h1 : exPuMap.wf = true := by
      simp [exPuMap, Wire.wf, Wire.wfPairs, HW.fits]
    have h2 := Reencode.bytes_inj h1 hwf (by rw [← he]; decide)
    simp only [exPuMap, Wire.map.injEq] at h2
    obtain ⟨-, rfl⟩ := h2
    intro kv hkv
    simp only [List.mem_cons, List.not_mem_nil, or_false] at hkv
    rcases hkv with rfl | rfl <;> trivial
  · intro kv hkv
    simp only [List.mem_cons, List.not_mem_nil, or_false] at hkv
    subst hkv
    trivial

theorem ex_sort : sortPairs [([4], [0x41, 0x31]), ([1], [0x26])]
    = [([1], [0x26]), ([4], [0x41, 0x31])] := by
  rw [sortPairs_perm_invariant _ [([1], [0x26]), ([4], [0x41, 0x31])] (List.Perm.swap ..)
    (by decide)]
  exact sortPairs_of_sorted _ (by decide)

theorem ex_sort1 : sortPairs [([3], [5])] = [([3], [5])] :=
  sortPairs_of_sorted _ (by decide)

/-- discarding the raw bytes and encoding gives `exB'` -/
theorem ex_marshal_cleared (m : Sign1Msg) (hd : Sign1.unmarshal true exB = .ok m) :
    Sign1.marshal true { m with h := { m.h with rawP := none, rawU := none } } = .ok exB' := by
  rw [ex_unmarshal] at hd
  cases hd
  have hiv : ensureIV exPm exUm = true := by decide
  have hP : marshalProtected { p := exPm, u := exUm }
      = .ok [0x46, 0xa2, 0x01, 0x26, 0x04, 0x41, 0x31] := by
    simp [marshalProtected, exPm, GoVal.modelledPairs, GoVal.modelled, encodeBucket, encCfg,
      validateHeaderParameters, validateLoop, normalizeLabel, wrap64, checkParam, lbl, canBstr,
      GoVal.keyEq, encodePairs, encodeAny, encInt, encHead,
      encBstr, HW.shortest, headBytes, ex_sort, concatPairs]
  have hU : marshalUnprotected { p := exPm, u := exUm } = .ok [0xa1, 0x03, 0x05] := by
    simp [marshalUnprotected, exUm, GoVal.modelledPairs, GoVal.modelled, encodeBucket, encCfg,
      validateHeaderParameters, validateLoop, normalizeLabel, wrap64, checkParam, lbl,
      tstrOrUintOK, canUint, IntKind.signed, encodePairs, encodeAny, encInt, encHead,
      HW.shortest, headBytes, ex_sort1, concatPairs, wellformedNoTags, parseTop,
    fuelFor, parseItem, parsePairs, parseHead, maxNested, maxElems]
  simp [Sign1.marshal, Sign1.content, Hdrs.marshal, hP, hU, hiv, blen, bind, Out.bind, exB',
    optBytesEnc, encBstr, encHead, HW.shortest, headBytes]

/-- 4. NON-VACUITY.  `exB` decodes; its decoded header values are flat (by the wire-side
    condition); the theorems apply: the cleared message encodes to `exB' ≠ exB` (protected keys
    now sorted, unprotected value head now shortest), `exB'` decodes to a message with the same
    payload and signature whose protected map is the sorted one, and clearing and encoding THAT
    gives `exB'` again. -/
example : ∃ m m', Sign1.unmarshal true exB = .ok m ∧
    m.h.p = [(lbl 4, .bytes [0x31]), (lbl 1, .alg (-7))] ∧
    Sign1.marshal true { m with h := { m.h with rawP := none, rawU := none } } = .ok exB' ∧
    exB' ≠ exB ∧
    Sign1.unmarshal true exB' = .ok m' ∧ m'.payload = some [1, 2, 3] ∧ m'.sig = some [7] ∧
    m'.h.p.Perm m.h.p ∧ m'.h.u.Perm m.h.u ∧ algorithmOf m'.h.p = .found (-7) ∧
    Sign1.marshal true { m' with h := { m'.h with rawP := none, rawU := none } } = .ok exB' := by
  obtain ⟨hfp, hfu⟩ := ex_flat
  obtain ⟨b', h1, m', h2, hpay, hsig, -, -, hpp, hpu, -, -, halg⟩ :=
    C09.clear_raw_decodable true exB _ ex_unmarshal hfp hfu
  have hb : b' = exB' := Out.ok.inj (h1.symm.trans (ex_marshal_cleared _ ex_unmarshal))
  subst hb
  obtain ⟨b'', h3, rfl, -⟩ :=
    C09.clear_raw_fixpoint true exB _ ex_unmarshal hfp hfu _ m' h1 h2
  refine ⟨_, m', ex_unmarshal, rfl, h1, by decide, h2, hpay, hsig, hpp, hpu, ?_, h3⟩
  rw [halg]
  simp [exPm, algorithmOf, lookupLabel, GoMap.lookup, lbl, GoVal.keyEq]

/-- the bucket theorems on the same data: the non-canonical protected content re-encodes to the
    canonical `a2 01 26 04 41 31` (same length here), which is a fixpoint -/
example : ∃ content m', encodeBucket encCfg true none exPm = some (encBstr content) ∧
    decProtectedContent content = .ok m' ∧ m'.Perm exPm ∧
    encodeBucket encCfg true none m' = some (encBstr content) := by
  obtain ⟨content, m', h1, -, h2, -, h3, -, h4⟩ :=
    C09.protected_clear_raw_fixpoint [0xa2, 0x04, 0x41, 0x31, 0x01, 0x26] exPm ex_decPu ex_flat.1
  exact ⟨content, m', h1, h2, h3, h4⟩

end ClearRawExamples
