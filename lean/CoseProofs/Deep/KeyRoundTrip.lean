/-
  CoseProofs.Deep.KeyRoundTrip — the CBOR-level round trip of COSE_Key in the model:
  `Key.marshal` (key.go `MarshalCBOR`) followed by `Key.unmarshal` (`UnmarshalCBOR`), and the
  idempotence of re-encoding an accepted key.  Backs C14 ("COSE_Key conversion round-trips every
  key, coordinates at full length") and C15 ("re-encoding an accepted COSE_Key yields a key that
  decodes to the same canonical bytes").  Core Lean only; axioms: propext, Quot.sound,
  Classical.choice.

  WHAT IS PROVED (plain words)

  * `C14.key_marshal_unmarshal` — if `k` lies in the flat data model, its parameters do not use
    the labels 1 … 5 of the common fields, `validate` accepts it and `MarshalCBOR` returns `b`, then
    `UnmarshalCBOR(b)` succeeds with a key `k'` that has EXACTLY the same kty, kid, alg, key_ops
    and Base IV (the model performs no nil/empty normalisation on these: `some []` stays
    `some []`, `none` stays `none`), and whose parameter under every label `l` is `wireParam k l`:
    the parameter of `k`, typed as the generic decoder types it (`kNorm`: every Go integer kind /
    `Algorithm` / `Curve` becomes `int64`, `[]byte(nil)` becomes nil), with EC2 x / y left-padded
    to the curve size, and the curve of an EC2 / OKP key retyped to `Curve`.  Consequences stated
    in the theorem: `k'.pbytes n = wirePbytes k n` (the byte-string accessors agree, x / y at full
    length), `k'.crv = k.crv` for EC2 / OKP, `k'` is valid, is again in the data model, and has no
    parameter under 1 … 5.  key_ops (an array value) is included.
  * `C14.ec2_key_wire_roundtrip`, `C14.okp_key_wire_roundtrip` — every key `NewKeyFromPublic /
    NewKeyFromPrivate` builds (`keyFromEC`, `keyFromEd`) marshals, the bytes unmarshal, kty / alg /
    curve are preserved, `ecCoords` of the result are the numbers put in, and x and y are stored
    at exactly `curveSize` bytes — for EVERY coordinate value, 0 included: they are `FillBytes` of
    the coordinates, i.e. the in-memory parameter (`X.Bytes()`, or `curveSize` zero octets for 0)
    left-padded by `MarshalCBOR` (`C14.keyFromEC_fullwidth_wire` in Deep/Keys.lean; the in-memory
    parameter itself is NOT always at full width, `C14.keyFromEC_memory_not_fullwidth`, but it is
    never empty, `C14.keyFromEC_coord_nonempty`); OKP x and d come back unchanged.  No hypothesis
    beyond `keyFrom… = .ok k` (coordinate bounds follow from it).  `C14.ec2_key_wire_publicKey`: `PublicKey()` succeeds on
    the key before and after the wire; `C14.ec2_zero_coordinate_roundtrip`: the P-256 key with
    x = 0 is accepted, holds and emits 32 zero octets for x, is re-parsed, and converts back
    without `ErrEC2NoPub` (the defect of an EMPTY `big.Int.Bytes()` coordinate, repaired).
  * `C15.reencode_idempotent` — if `UnmarshalCBOR(b) = k` and every parameter VALUE of `k` is a
    `KVal`, then `MarshalCBOR(k) = b'` succeeds, `UnmarshalCBOR(b') = k2` succeeds, and
    `MarshalCBOR(k2) = b'` again: decode → encode → decode → encode is a fixpoint of canonical
    bytes.  `k2` has the same common fields as `k` and the parameters `wireParam k`.  `k2 = k` is
    NOT claimed and is false in general: `k2.params` is in canonical (sorted) order and carries
    x / y at full length, while `k.params` is in the order and length of the input `b`.
    `C15.reencode_stable`: all further cycles return `b'` and `k2`; `C15.accepted_marshals`.
  * `KeyRT.accepted_flat` — for ANY accepted key the ranges of the common fields, the shape of
    the labels (`int64` in range or valid UTF-8 text) and the size of the re-encoded map follow
    from the decoder; only the shape of the parameter values has to be assumed.
  * building blocks of independent use: `KeyRT.kmap_roundtrip` (encoder / parser / generic decoder
    round trip for maps whose values are flat or arrays of flat values — the extension of
    `C08.flat_map_roundtrip` needed for key_ops), `KeyRT.marshalMap_lookup` (what `MarshalCBOR`
    stores under each label), `KeyRT.decoded_lookup`, `KeyRT.validate_transfer`.

  HYPOTHESES THAT REMAIN, AND WHY

  * `KeyFlat k` (decidable; theorem 1): kty / alg / key_ops entries in the int64 range, kid /
    Base IV / byte strings / text shorter than 2^64 (true of every Go value; the model's `Int` and
    lists do not enforce it), text valid UTF-8 (Go strings with invalid UTF-8 are emitted as is and
    refused by the decoder), parameter values in `KVal` (integers, `Algorithm`, `Curve`, text, byte
    strings, `[]byte(nil)`, booleans, nil, arrays of such scalars — no nested maps, floats, simple
    values, countersignatures), and parameter labels spelt `int64` or text (`KeyLabel`).
    The `int64` spelling is needed: `key_marshal_unmarshal_needs_int64_labels` (a 33 byte `d`
    under the Go key `int8(-4)` is invisible to `validate`, is emitted under -4 and refused by
    `UnmarshalCBOR`; go-cose behaves the same).
  * `k.validate .none = none` (theorem 1): `MarshalCBOR` does not validate, `UnmarshalCBOR` does —
    `key_marshal_unmarshal_needs_validate` (`Key{Type: Symmetric}` ↦ `a1 01 04` ↦ error).
  * `ParamsDisjoint k` (decidable; theorem 1): `MarshalCBOR` lets an entry of `Params` stored
    under 1 … 5 silently overwrite the common field — `key_marshal_unmarshal_needs_disjoint`:
    `Key{Type: 4, Params: {1: 5, -1: h'01'}}` is valid, marshals to `a2 01 05 20 41 01`, and
    decodes as a key of type 5.  go-cose v1 behaves the same (checked against /repo): the
    duplicate-label check of `MarshalCBOR` only covers `Params` against itself.  Accepted keys
    never have such parameters (`KeyRT.accepted_params`), so theorem 3 does not need it.
  * `NoNilCoords k` (theorem 1; since repair e8483d3 of /repo): no EC2 / OKP coordinate is the
    typed nil `[]byte(nil)`.  `validate` takes it for a byte string, `MarshalCBOR` writes `null`,
    `UnmarshalCBOR` refuses a coordinate that is not a byte string —
    `key_marshal_unmarshal_needs_no_nil_coords`.  Constructor-built and accepted keys never have
    one (`noNilCoords_of_vals`, `accepted_noNilCoords`), so theorems 2 and 3 do not need it.
  * `KeySize k` (decidable; theorem 1): `k.params.length + 5 ≤ 131072`, the decoder's pair limit.
    A hypothesis of this kind is necessary (a larger map is emitted and then refused); the
    constant is not shown to be tight and no counterexample theorem is given (it would need a
    131068-entry key).  Theorem 3 does not need it (`accepted_flat`).
  * theorem 3: `∀ e ∈ k.params, KVal e.2` — the general decode → encode → decode theorem for
    arbitrary nested values is not available in this development (`C08.flat_map_roundtrip` covers
    scalar values, `kmap_roundtrip` adds arrays of scalars).  Tags and bignums need no clause:
    the model answers `unmodelled` for them, so they never reach `Key.unmarshal b = .ok k`.
-/
import CoseProofs.Deep.RoundTrip
import CoseProofs.Lemmas.TagScan
import CoseProofs.Deep.Keys
open CoseModel

namespace KeyRT
open RoundTrip

/-! ## A. the wire form of COSE_Key values: flat values, `[]byte(nil)`, and arrays of flat values -/

/-- values a COSE_Key map holds in the model: the flat values of `RoundTrip` (integers of any
    Go integer kind / `Algorithm` / `Curve` in the int64 range, valid UTF-8 text, byte strings,
    booleans, nil), a typed-nil `[]byte`, and arrays of flat values (`key_ops`) -/
def KVal : GoVal → Prop
  | .int _ n => int64Range n
  | .alg n => int64Range n
  | .crv n => int64Range n
  | .str b => utf8Valid b = true ∧ b.length < 18446744073709551616
  | .bytes b => b.length < 18446744073709551616
  | .bool _ => True
  | .nil => True
  | .bytesNil => True
  | .arr xs => (∀ x ∈ xs, FlatVal x) ∧ xs.length ≤ maxElems
  | _ => False

/-- the item the encoder emits for such a value -/
def kWire : GoVal → Wire
  | .arr xs => .arr (HW.shortest xs.length) (xs.map valWire)
  | v => valWire v

/-- what the generic decoder yields for that item -/
def kNorm : GoVal → GoVal
  | .arr xs => .arr (xs.map normVal)
  | .bytesNil => .nil
  | v => normVal v

/-! the predicates are decidable -/

instance : DecidablePred FlatVal := fun v =>
  match v with
  | .int _ n => inferInstanceAs (Decidable (int64Range n))
  | .alg n => inferInstanceAs (Decidable (int64Range n))
  | .crv n => inferInstanceAs (Decidable (int64Range n))
  | .str b => inferInstanceAs (Decidable (utf8Valid b = true ∧ b.length < 18446744073709551616))
  | .bytes b => inferInstanceAs (Decidable (b.length < 18446744073709551616))
  | .bool _ => isTrue trivial
  | .nil => isTrue trivial
  | .bytesNil => isFalse (fun h => h)
  | .simple _ => isFalse (fun h => h)
  | .float _ => isFalse (fun h => h)
  | .arr _ => isFalse (fun h => h)
  | .map _ => isFalse (fun h => h)
  | .csig .. => isFalse (fun h => h)
  | .csigNil => isFalse (fun h => h)
  | .csigs _ => isFalse (fun h => h)
  | .csigsNil => isFalse (fun h => h)
  | .opaque => isFalse (fun h => h)

instance : DecidablePred KVal := fun v =>
  match v with
  | .int _ n => inferInstanceAs (Decidable (int64Range n))
  | .alg n => inferInstanceAs (Decidable (int64Range n))
  | .crv n => inferInstanceAs (Decidable (int64Range n))
  | .str b => inferInstanceAs (Decidable (utf8Valid b = true ∧ b.length < 18446744073709551616))
  | .bytes b => inferInstanceAs (Decidable (b.length < 18446744073709551616))
  | .bool _ => isTrue trivial
  | .nil => isTrue trivial
  | .bytesNil => isTrue trivial
  | .arr xs => inferInstanceAs (Decidable ((∀ x ∈ xs, FlatVal x) ∧ xs.length ≤ maxElems))
  | .simple _ => isFalse (fun h => h)
  | .float _ => isFalse (fun h => h)
  | .map _ => isFalse (fun h => h)
  | .csig .. => isFalse (fun h => h)
  | .csigNil => isFalse (fun h => h)
  | .csigs _ => isFalse (fun h => h)
  | .csigsNil => isFalse (fun h => h)
  | .opaque => isFalse (fun h => h)

theorem KVal.of_flat {v : GoVal} (h : FlatVal v) : KVal v := by
  cases v <;> simp only [FlatVal] at h <;> simp only [KVal] <;> exact h

theorem kWire_flat {v : GoVal} (h : FlatVal v) : kWire v = valWire v := by
  cases v <;> simp only [FlatVal] at h <;> rfl

theorem kNorm_flat {v : GoVal} (h : FlatVal v) : kNorm v = normVal v := by
  cases v <;> simp only [FlatVal] at h <;> rfl

theorem KVal.cases {v : GoVal} (h : KVal v) :
    FlatVal v ∨ v = .bytesNil ∨
      ∃ xs, v = .arr xs ∧ (∀ x ∈ xs, FlatVal x) ∧ xs.length ≤ maxElems := by
  cases v <;> simp only [KVal] at h
  case bytesNil => exact Or.inr (Or.inl rfl)
  case arr xs => exact Or.inr (Or.inr ⟨xs, rfl, h⟩)
  all_goals (left; simp only [FlatVal]; try exact h)

theorem encodeList_flat (cfg : EncCfg) : ∀ (xs : List GoVal), (∀ x ∈ xs, FlatVal x) →
    encodeList cfg xs = some (Wire.bytesList (xs.map valWire))
  | [], _ => by simp only [encodeList, List.map_nil, Wire.bytesList]
  | x :: xs, h => by
    simp only [encodeList, valWire_bytes cfg (h x (List.mem_cons_self ..)),
      encodeList_flat cfg xs (fun y hy => h y (List.mem_cons_of_mem _ hy)), List.map_cons,
      Wire.bytesList]

theorem wfList_flat : ∀ (xs : List GoVal), (∀ x ∈ xs, FlatVal x) →
    Wire.wfList (xs.map valWire) = true
  | [], _ => by simp only [List.map_nil, Wire.wfList]
  | x :: xs, h => by
    simp only [List.map_cons, Wire.wfList, valWire_wf (h x (List.mem_cons_self ..)),
      wfList_flat xs (fun y hy => h y (List.mem_cons_of_mem _ hy)), Bool.and_self]

theorem inLimitsList_flat (t : Bool) (d : Nat) : ∀ (xs : List GoVal),
    Wire.inLimitsList t d (xs.map valWire) = true
  | [] => by simp only [List.map_nil, Wire.inLimitsList]
  | x :: xs => by
    simp only [List.map_cons, Wire.inLimitsList, valWire_inLimits, inLimitsList_flat t d xs,
      Bool.and_self]

theorem decodeList_flat : ∀ (xs : List GoVal), (∀ x ∈ xs, FlatVal x) →
    decodeList (xs.map valWire) = .ok (xs.map normVal)
  | [], _ => by simp only [List.map_nil, decodeList]
  | x :: xs, h => by
    simp only [List.map_cons, decodeList, valWire_decode (h x (List.mem_cons_self ..)),
      decodeList_flat xs (fun y hy => h y (List.mem_cons_of_mem _ hy))]

theorem kWire_bytes (cfg : EncCfg) {v : GoVal} (hv : KVal v) :
    encodeAny cfg v = some (kWire v).bytes := by
  rcases hv.cases with h | rfl | ⟨xs, rfl, h1, h2⟩
  · rw [kWire_flat h]; exact valWire_bytes cfg h
  · simp only [encodeAny, kWire, valWire, Wire.bytes, headBytes]; rfl
  · simp only [encodeAny, encodeList_flat cfg xs h1, kWire, Wire.bytes, List.length_map, encHead]

theorem kWire_wf {v : GoVal} (hv : KVal v) : (kWire v).wf = true := by
  rcases hv.cases with h | rfl | ⟨xs, rfl, h1, h2⟩
  · rw [kWire_flat h]; exact valWire_wf h
  · rfl
  · simp only [kWire, Wire.wf, List.length_map, shortest_fits_elems h2, wfList_flat xs h1,
      Bool.and_self]

theorem kWire_inLimits {v : GoVal} (hv : KVal v) (t : Bool) (d : Nat) (hd : d + 1 ≤ maxNested) :
    (kWire v).inLimits t d = true := by
  rcases hv.cases with h | rfl | ⟨xs, rfl, h1, h2⟩
  · rw [kWire_flat h]; exact valWire_inLimits _ t d
  · exact valWire_inLimits .bytesNil t d
  · simp only [kWire, Wire.inLimits, List.length_map, hd, h2, decide_true, Bool.true_and,
      inLimitsList_flat]

theorem kWire_decode {v : GoVal} (hv : KVal v) : decodeAny (kWire v) = .ok (kNorm v) := by
  rcases hv.cases with h | rfl | ⟨xs, rfl, h1, h2⟩
  · rw [kWire_flat h, kNorm_flat h]; exact valWire_decode h
  · rfl
  · simp only [kWire, decodeAny, decodeList_flat xs h1, kNorm]

/-- the encoder does not distinguish a value from its decoded form -/
theorem kNorm_kVal {v : GoVal} (hv : KVal v) : KVal (kNorm v) := by
  cases v <;> simp only [KVal] at hv <;> simp only [kNorm, normVal, KVal] <;> try exact hv
  case arr xs =>
    refine ⟨?_, by rw [List.length_map]; exact hv.2⟩
    intro x hx
    obtain ⟨y, hy, rfl⟩ := List.mem_map.mp hx
    have := hv.1 y hy
    cases y <;> simp only [FlatVal] at this <;> simp only [normVal, FlatVal] <;> exact this

theorem valWire_normVal (v : GoVal) : valWire (normVal v) = valWire v := by
  cases v <;> rfl

theorem kWire_kNorm (v : GoVal) : kWire (kNorm v) = kWire v := by
  cases v <;> try rfl
  case arr xs =>
    simp only [kNorm, kWire, List.length_map, List.map_map]
    congr 1
    apply List.map_congr_left
    intro x _
    exact valWire_normVal x

/-! ### maps of such values -/

def KMap (h : GoMap) : Prop := ∀ e ∈ h, FlatLabel e.1 ∧ KVal e.2

def kEntryWire (e : GoVal × GoVal) : Wire × Wire := (valWire e.1, kWire e.2)

def kWirePairs (h : GoMap) : List (Wire × Wire) := (sortEntries h).map kEntryWire

def kMapWire (h : GoMap) : Wire := .map (HW.shortest h.length) (kWirePairs h)

def kNormEntry (e : GoVal × GoVal) : GoVal × GoVal := (normVal e.1, kNorm e.2)

theorem KMap.perm {h h' : GoMap} (hp : h.Perm h') (hf : KMap h) : KMap h' :=
  fun e he => hf e (hp.mem_iff.mpr he)

theorem KMap.sorted {h : GoMap} (hf : KMap h) : KMap (sortEntries h) :=
  hf.perm (sortEntries_perm h).symm

theorem KMap.tail {e : GoVal × GoVal} {r : GoMap} (hf : KMap (e :: r)) : KMap r :=
  fun x hx => hf x (List.mem_cons_of_mem _ hx)

theorem kWirePairs_length (h : GoMap) : (kWirePairs h).length = h.length := by
  simp [kWirePairs, sortEntries_length]

theorem encodePairs_k (cfg : EncCfg) {h : GoMap} (hf : KMap h) :
    encodePairs cfg h = some (h.map (fun e => wireBytes (kEntryWire e))) := by
  rw [C08.encodePairs_eq_some_iff, List.map_map]
  apply List.map_congr_left
  intro e he
  obtain ⟨h1, h2⟩ := hf e he
  simp only [C08.encPair, valWire_bytes cfg h1.flatVal, kWire_bytes cfg h2, Function.comp,
    wireBytes, kEntryWire]

theorem sortPairs_map_k (h : GoMap) :
    sortPairs (h.map (fun e => wireBytes (kEntryWire e)))
      = (sortEntries h).map (fun e => wireBytes (kEntryWire e)) := by
  unfold sortPairs sortEntries
  exact (List.map_mergeSort (r := fun (a b : GoVal × GoVal) => bytesLe (valWire a.1).bytes (valWire b.1).bytes)
    (s := fun (a b : Bytes × Bytes) => bytesLe a.1 b.1) (f := fun e => wireBytes (kEntryWire e))
    (fun _ _ _ _ => rfl)).symm

theorem concat_sorted_k (h : GoMap) :
    concatPairs (sortPairs (h.map (fun e => wireBytes (kEntryWire e))))
      = Wire.bytesPairs (kWirePairs h) := by
  rw [sortPairs_map_k, ← concatPairs_wireBytes, kWirePairs, List.map_map]
  rfl

theorem wfPairs_k {g : GoMap} (hf : KMap g) : Wire.wfPairs (g.map kEntryWire) = true := by
  induction g with
  | nil => rfl
  | cons e r ih =>
    obtain ⟨h1, h2⟩ := hf e (List.mem_cons_self ..)
    simp only [List.map_cons, kEntryWire, Wire.wfPairs, valWire_wf h1.flatVal, kWire_wf h2,
      Bool.and_self, Bool.true_and]
    exact ih hf.tail

theorem inLimitsPairs_k {g : GoMap} (hf : KMap g) (t : Bool) (d : Nat) (hd : d + 1 ≤ maxNested) :
    Wire.inLimitsPairs t d (g.map kEntryWire) = true := by
  induction g with
  | nil => rfl
  | cons e r ih =>
    obtain ⟨_, h2⟩ := hf e (List.mem_cons_self ..)
    simp only [List.map_cons, kEntryWire, Wire.inLimitsPairs, valWire_inLimits,
      kWire_inLimits h2 t d hd, Bool.and_self, Bool.true_and]
    exact ih hf.tail

theorem kMapWire_wf {h : GoMap} (hf : KMap h) (hlen : h.length ≤ maxElems) :
    (kMapWire h).wf = true := by
  simp only [kMapWire, Wire.wf, kWirePairs_length, shortest_fits_elems hlen, Bool.true_and]
  exact wfPairs_k hf.sorted

theorem kMapWire_inLimits {h : GoMap} (hf : KMap h) (hlen : h.length ≤ maxElems) (t : Bool) :
    (kMapWire h).inLimits t 0 = true := by
  have h1 : (0 : Nat) + 1 ≤ maxNested := by unfold maxNested; omega
  simp only [kMapWire, Wire.inLimits, kWirePairs_length, h1, hlen, decide_true, Bool.true_and]
  exact inLimitsPairs_k hf.sorted t 1 (by unfold maxNested; omega)

theorem kMapWire_bytes (h : GoMap) :
    (kMapWire h).bytes
      = encHead 5 h.length ++ concatPairs (sortPairs (h.map (fun e => wireBytes (kEntryWire e)))) := by
  simp only [kMapWire, Wire.bytes, kWirePairs_length, concat_sorted_k, encHead]

theorem encodeAny_map_k (cfg : EncCfg) {h : GoMap} (hf : KMap h) :
    encodeAny cfg (.map h) = some (kMapWire h).bytes := by
  rw [C08.encodeAny_map, encodePairs_k cfg hf, kMapWire_bytes]

theorem decodePairs_cons_k {e : GoVal × GoVal} (h1 : FlatLabel e.1) (h2 : KVal e.2)
    (r : List (Wire × Wire)) (acc : GoMap) :
    decodePairs (kEntryWire e :: r) acc =
      if acc.any (fun x => x.1.keyEq (normVal e.1)) then .err .other
      else decodePairs r (kNormEntry e :: acc) := by
  simp only [kEntryWire, decodePairs, valWire_decode h1.flatVal, kWire_decode h2, kNormEntry]
  rcases normVal_label_normal h1 with ⟨n, hn, _⟩ | ⟨b, hb⟩
  · rw [hn]; simp only [keyHashable, Bool.not_true, Bool.false_eq_true, if_false]
  · rw [hb]; simp only [keyHashable, Bool.not_true, Bool.false_eq_true, if_false]

theorem decodePairs_k : ∀ (g : GoMap) (acc : GoMap), KMap g → g.Pairwise LabelDistinct →
    (∀ e ∈ g, acc.any (fun x => x.1.keyEq (normVal e.1)) = false) →
    decodePairs (g.map kEntryWire) acc = .ok (acc.reverse ++ g.map kNormEntry)
  | [], acc, _, _, _ => by simp [decodePairs]
  | e :: r, acc, hf, hp, hs => by
    obtain ⟨h1, h2⟩ := hf e (List.mem_cons_self ..)
    rw [List.pairwise_cons] at hp
    rw [List.map_cons, decodePairs_cons_k h1 h2, hs e (List.mem_cons_self ..)]
    simp only [Bool.false_eq_true, if_false]
    rw [decodePairs_k r _ hf.tail hp.2]
    · simp
    · intro e' he'
      rw [List.any_cons, hs e' (List.mem_cons_of_mem _ he'), Bool.or_false]
      exact hp.1 e' he' _ _ (normalizeLabel_flat h1)
        (normalizeLabel_flat (hf e' (List.mem_cons_of_mem _ he')).1)

/-- the encoder / parser / generic decoder round trip for a COSE_Key map -/
theorem kmap_roundtrip (cfg : EncCfg) {h : GoMap} (hf : KMap h) (hok : LabelsOK h)
    (hlen : h.length ≤ maxElems) :
    encodeAny cfg (.map h) = some (kMapWire h).bytes ∧
    (∀ t, parseTop t (kMapWire h).bytes = some (.map (HW.shortest h.length) (kWirePairs h))) ∧
    decodePairs (kWirePairs h) [] = .ok ((sortEntries h).map kNormEntry) := by
  refine ⟨encodeAny_map_k cfg hf, fun t => parseTop_complete (kMapWire_wf hf hlen)
    (kMapWire_inLimits hf hlen t), ?_⟩
  have hoks := labelsOK_sorted hok
  have := decodePairs_k (sortEntries h) [] hf.sorted hoks.2 (by intro e _; rfl)
  simpa [kWirePairs] using this

/-! ## B. labels and lookups -/

/-- a label as `Key.UnmarshalCBOR` stores it (and as `normalizeLabel` returns it): an `int64`
    or valid UTF-8 text -/
def KeyLabel : GoVal → Prop
  | .int k n => k = .i64 ∧ int64Range n
  | .str b => utf8Valid b = true ∧ b.length < 18446744073709551616
  | _ => False

instance : DecidablePred KeyLabel := fun l =>
  match l with
  | .int k n => inferInstanceAs (Decidable (k = .i64 ∧ int64Range n))
  | .str b => inferInstanceAs (Decidable (utf8Valid b = true ∧ b.length < 18446744073709551616))
  | .nil => isFalse (fun h => h)
  | .alg _ => isFalse (fun h => h)
  | .crv _ => isFalse (fun h => h)
  | .bytes _ => isFalse (fun h => h)
  | .bytesNil => isFalse (fun h => h)
  | .bool _ => isFalse (fun h => h)
  | .simple _ => isFalse (fun h => h)
  | .float _ => isFalse (fun h => h)
  | .arr _ => isFalse (fun h => h)
  | .map _ => isFalse (fun h => h)
  | .csig .. => isFalse (fun h => h)
  | .csigNil => isFalse (fun h => h)
  | .csigs _ => isFalse (fun h => h)
  | .csigsNil => isFalse (fun h => h)
  | .opaque => isFalse (fun h => h)

theorem KeyLabel.flat {l : GoVal} (h : KeyLabel l) : FlatLabel l := by
  cases l <;> simp only [KeyLabel] at h <;> simp only [FlatLabel]
  · exact h.2
  · exact h

theorem KeyLabel.normVal_eq {l : GoVal} (h : KeyLabel l) : normVal l = l := by
  cases l <;> simp only [KeyLabel] at h
  · rw [h.1]; rfl
  · rfl

theorem KeyLabel.normalize {l : GoVal} (h : KeyLabel l) : normalizeLabel l = some l := by
  rw [normalizeLabel_flat h.flat, h.normVal_eq]

theorem keyLabel_lbl (n : Int) (h : int64Range n) : KeyLabel (lbl n) := ⟨rfl, h⟩

/-- the map holds key labels and key values -/
def KeyMap (h : GoMap) : Prop := ∀ e ∈ h, KeyLabel e.1 ∧ KVal e.2

instance (h : GoMap) : Decidable (KeyMap h) := by unfold KeyMap; exact inferInstance

theorem KeyMap.kmap {h : GoMap} (hf : KeyMap h) : KMap h :=
  fun e he => ⟨(hf e he).1.flat, (hf e he).2⟩

theorem KeyMap.normal {h : GoMap} (hf : KeyMap h) : ∀ e ∈ h, normalizeLabel e.1 = some e.1 :=
  fun e he => (hf e he).1.normalize

theorem lookup_eq_none_iff (h : GoMap) (k : GoVal) :
    h.lookup k = none ↔ ∀ e ∈ h, e.1.keyEq k = false := by
  unfold GoMap.lookup
  cases hf : h.find? (fun e => e.1.keyEq k) with
  | none =>
    simp only [true_iff]
    intro e he
    have := List.find?_eq_none.mp hf e he
    simpa using this
  | some e =>
    simp only [reduceCtorEq, false_iff]
    intro hall
    have h1 := hall e (List.mem_of_find?_eq_some hf)
    have h2 := List.find?_some hf
    simp only [h1] at h2
    cases h2

theorem lookup_some_mem {g : GoMap} {l v : GoVal} (h : g.lookup l = some v) :
    ∃ e ∈ g, e.1.keyEq l = true ∧ e.2 = v := by
  unfold GoMap.lookup at h
  cases hf : g.find? (fun e => e.1.keyEq l) with
  | none => rw [hf] at h; cases h
  | some e =>
    rw [hf] at h
    have hk := List.find?_some hf
    exact ⟨e, List.mem_of_find?_eq_some hf, hk, Option.some.inj h⟩

theorem lookup_map_snd (f : GoVal → GoVal) (g : GoMap) (l : GoVal) :
    GoMap.lookup (g.map (fun e => (e.1, f e.2))) l = (g.lookup l).map f := by
  induction g with
  | nil => rfl
  | cons e r ih =>
    obtain ⟨a, b⟩ := e
    rw [List.map_cons, C14.lookup_cons, C14.lookup_cons]
    by_cases hk : a.keyEq l = true
    · rw [if_pos hk, if_pos hk]; rfl
    · rw [if_neg hk, if_neg hk]; exact ih

/-- in a map with normalised, pairwise distinct labels, `m[l]` is the value of the entry `l` -/
theorem lookup_iff_mem {g : GoMap} (hok : LabelsOK g)
    (hn : ∀ e ∈ g, normalizeLabel e.1 = some e.1) {l : GoVal} (v : GoVal) :
    g.lookup l = some v ↔ (l, v) ∈ g := by
  constructor
  · intro h
    obtain ⟨e, he, hk, hv⟩ := lookup_some_mem h
    have := eq_of_keyEq_of_normalizes (hok.1 e he) hk
    rw [← this, ← hv]
    exact he
  · intro hm
    have hl : normalizeLabel l = some l := hn _ hm
    cases hlk : g.lookup l with
    | none =>
      have := (lookup_eq_none_iff g l).mp hlk _ hm
      rw [keyEq_refl_of_normalizes (by rw [hl]; simp)] at this
      cases this
    | some w =>
      obtain ⟨e, he, hk, hv⟩ := lookup_some_mem hlk
      have h1 := eq_of_keyEq_of_normalizes (hok.1 e he) hk
      have h2 : e = (l, v) := entry_eq_of_labelsOK hok he hm (by rw [h1])
      rw [← hv, h2]

theorem lbl_keyEq_iff (n : Int) (a : GoVal) : (lbl n).keyEq a = true ↔ a = lbl n := by
  cases a <;> simp [lbl, GoVal.keyEq]
  rename_i k v
  constructor
  · rintro ⟨h1, h2⟩; exact ⟨h1.symm, h2.symm⟩
  · rintro ⟨h1, h2⟩; exact ⟨h1.symm, h2.symm⟩

/-- erasing one label leaves the others alone -/
theorem lookup_erase_other (g : GoMap) (n : Int) (l : GoVal) (hne : l ≠ lbl n) :
    (g.erase (lbl n)).lookup l = g.lookup l := by
  induction g with
  | nil => rfl
  | cons e r ih =>
    obtain ⟨a, b⟩ := e
    unfold GoMap.erase at ih ⊢
    rw [List.filter_cons]
    by_cases hk : a.keyEq (lbl n) = true
    · have ha := (C14.keyEq_lbl_iff a n).mp hk
      have hal : a.keyEq l = false := by
        cases hq : a.keyEq l with
        | false => rfl
        | true =>
          rw [ha] at hq
          exact absurd ((lbl_keyEq_iff n l).mp hq) hne
      simp only [hk, Bool.not_true, Bool.false_eq_true, if_false]
      rw [C14.lookup_cons, hal, ih]
      simp
    · simp only [hk, Bool.not_false, if_true]
      rw [C14.lookup_cons, C14.lookup_cons, ih]

theorem lookup_erase_same (g : GoMap) (k : GoVal) : (g.erase k).lookup k = none := by
  rw [lookup_eq_none_iff]
  intro e he
  unfold GoMap.erase at he
  have := (List.mem_filter.mp he).2
  simpa using this

theorem lookup_erase_none (g : GoMap) (k l : GoVal) (h : g.lookup l = none) :
    (g.erase k).lookup l = none := by
  rw [lookup_eq_none_iff] at h ⊢
  intro e he
  exact h e (List.mem_filter.mp he).1

/-! ## C. the map `Key.MarshalCBOR` builds -/

theorem KeyMap.set {h : GoMap} (hf : KeyMap h) {k v : GoVal} (hk : KeyLabel k) (hv : KVal v) :
    KeyMap (h.set k v) := by
  unfold GoMap.set
  split
  · intro e he
    obtain ⟨e0, he0, rfl⟩ := List.mem_map.mp he
    split
    · exact ⟨(hf e0 he0).1, hv⟩
    · exact hf e0 he0
  · intro e he
    rcases List.mem_append.mp he with h1 | h1
    · exact hf e h1
    · rw [List.mem_singleton.mp h1]; exact ⟨hk, hv⟩

theorem labelsOK_set {h : GoMap} (hok : LabelsOK h)
    (hn : ∀ e ∈ h, normalizeLabel e.1 = some e.1) {k : GoVal} (hk : normalizeLabel k = some k)
    (v : GoVal) : LabelsOK (h.set k v) := by
  unfold GoMap.set
  split
  · have : normLabels (h.map (fun e => if e.1.keyEq k then (e.1, v) else e)) = normLabels h := by
      unfold normLabels
      rw [List.map_map]
      apply List.map_congr_left
      intro e _
      simp only [Function.comp]
      split <;> rfl
    rw [labelsOK_iff_normLabels, this, ← labelsOK_iff_normLabels]
    exact hok
  · rename_i hhas
    have hnone : h.lookup k = none := by
      unfold GoMap.has at hhas
      cases hl : h.lookup k with
      | none => rfl
      | some w => rw [hl] at hhas; exact absurd rfl hhas
    have hall := (lookup_eq_none_iff h k).mp hnone
    refine ⟨?_, ?_⟩
    · intro e he
      rcases List.mem_append.mp he with h1 | h1
      · exact hok.1 e h1
      · rw [List.mem_singleton.mp h1, hk]; simp
    · rw [List.pairwise_append]
      refine ⟨hok.2, List.pairwise_singleton _ _, ?_⟩
      intro a ha b hb x y hx hy
      rw [List.mem_singleton.mp hb] at hy
      rw [hn a ha] at hx
      rw [hk] at hy
      cases hx; cases hy
      exact hall a ha

theorem length_set (h : GoMap) (k v : GoVal) : (h.set k v).length ≤ h.length + 1 := by
  unfold GoMap.set
  split
  · simp
  · simp

/-- induction over the parameter loop of `Key.MarshalCBOR` -/
theorem go_ind (P : GoMap → Prop) : ∀ (r : GoMap) (seen : List GoVal) (acc m0 : GoMap),
    Key.marshalMap.go r seen acc = some m0 → P acc →
    (∀ acc l v nl, (l, v) ∈ r → normalizeLabel l = some nl → P acc → P (acc.set nl v)) → P m0
  | [], _, acc, m0, h, ha, _ => by
    simp only [Key.marshalMap.go] at h
    cases h
    exact ha
  | (l', v') :: r, seen, acc, m0, h, ha, hstep => by
    unfold Key.marshalMap.go at h
    split at h
    · cases h
    · rename_i nl' hn'
      split at h
      · cases h
      · exact go_ind P r _ _ m0 h (hstep acc l' v' nl' (List.mem_cons_self ..) hn' ha)
          (fun acc l v nl hm => hstep acc l v nl (List.mem_cons_of_mem _ hm))

theorem go_lookup_none (r : GoMap) (seen : List GoVal) (acc m0 : GoMap) (l : GoVal)
    (h : Key.marshalMap.go r seen acc = some m0)
    (hno : ∀ e ∈ r, ∀ nl, normalizeLabel e.1 = some nl → nl.keyEq l = false) :
    m0.lookup l = acc.lookup l := by
  refine go_ind (fun a => a.lookup l = acc.lookup l) r seen acc m0 h rfl ?_
  intro a l' v nl hm hn ha
  rw [← ha]
  apply C14.lookup_set_other
  · exact hno _ hm nl hn
  · intro x hx
    rw [(C14.keyEq_normal_iff hn x).mp hx]
    exact hno _ hm nl hn

/-- what the serialised map holds under a normalised label: the parameter, else the common field -/
theorem go_lookup_full (r : GoMap) (acc m0 : GoMap) (l : GoVal)
    (hn : ∀ e ∈ r, normalizeLabel e.1 = some e.1)
    (h : Key.marshalMap.go r [] acc = some m0) :
    m0.lookup l = match r.lookup l with | some v => some v | none => acc.lookup l := by
  cases hl : r.lookup l with
  | some v =>
    obtain ⟨e, he, hk, hv⟩ := lookup_some_mem hl
    have h1 := eq_of_keyEq_of_normalizes (by rw [hn e he]; simp) hk
    have hm : (l, v) ∈ r := by rw [← h1, ← hv]; exact he
    exact C14.go_lookup r [] acc m0 l l v h hm (hn _ hm)
  | none =>
    simp only
    apply go_lookup_none r [] acc m0 l h
    intro e he nl hnl
    rw [hn e he] at hnl
    cases hnl
    exact (lookup_eq_none_iff r l).mp hl e he

/-- the five common fields as `Key.MarshalCBOR` enters them -/
def baseMap (k : Key) : GoMap :=
  [(lbl 1, .int .i64 k.kty)]
  ++ (match k.id with | some b => [(lbl 2, GoVal.bytes b)] | none => [])
  ++ (if k.alg ≠ 0 then [(lbl 3, GoVal.alg k.alg)] else [])
  ++ (match k.ops with
      | some l => [(lbl 4, GoVal.arr (l.map (fun o => GoVal.int .i64 o)))]
      | none => [])
  ++ (match k.baseIV with | some b => [(lbl 5, GoVal.bytes b)] | none => [])

theorem marshalMap_eq (k : Key) :
    k.marshalMap = (Key.marshalMap.go k.params [] (baseMap k)).map
      (fun m0 => if k.kty = 2 then C14.padXY k m0 else m0) := by
  have hb : baseMap k =
      (let base : GoMap := [(lbl 1, .int .i64 k.kty)]
       let base := match k.id with | some b => base.set (lbl 2) (.bytes b) | none => base
       let base := if k.alg ≠ 0 then base.set (lbl 3) (.alg k.alg) else base
       let base := match k.ops with
         | some l => base.set (lbl 4) (.arr (l.map (fun o => .int .i64 o)))
         | none => base
       match k.baseIV with | some b => base.set (lbl 5) (.bytes b) | none => base) := by
    unfold baseMap
    cases k.id <;> cases k.ops <;> cases k.baseIV <;> by_cases hz : k.alg = 0 <;>
      simp [hz, GoMap.set, GoMap.has, C14.lookup_cons, C14.lookup_nil, C14.keyEq_lbl_lbl]
  unfold Key.marshalMap
  simp only []
  split
  · rename_i heq
    have h' : Key.marshalMap.go k.params [] (baseMap k) = none := by rw [hb]; exact heq
    rw [h']; rfl
  · rename_i m0 heq
    have h' : Key.marshalMap.go k.params [] (baseMap k) = some m0 := by rw [hb]; exact heq
    rw [h']
    simp only [Option.map_some]
    by_cases h2 : k.kty = 2
    · simp only [h2, if_true]
      by_cases hs : curveSize k.crv > 0
      · simp only [hs, if_true]; rfl
      · simp only [hs, if_false]
        have h0 : curveSize k.crv = 0 := by omega
        simp [C14.padXY, h0]
    · simp only [h2, if_false]

/-- the labels of the five common COSE_Key fields -/
def isCommon (l : GoVal) : Prop := l = lbl 1 ∨ l = lbl 2 ∨ l = lbl 3 ∨ l = lbl 4 ∨ l = lbl 5

theorem baseMap_lookup (k : Key) :
    (baseMap k).lookup (lbl 1) = some (.int .i64 k.kty) ∧
    (baseMap k).lookup (lbl 2) = k.id.map GoVal.bytes ∧
    (baseMap k).lookup (lbl 3) = (if k.alg = 0 then none else some (.alg k.alg)) ∧
    (baseMap k).lookup (lbl 4) = k.ops.map (fun l => GoVal.arr (l.map (fun o => GoVal.int .i64 o))) ∧
    (baseMap k).lookup (lbl 5) = k.baseIV.map GoVal.bytes := by
  unfold baseMap
  cases k.id <;> cases k.ops <;> cases k.baseIV <;> by_cases hz : k.alg = 0 <;>
    simp [hz, C14.lookup_cons, C14.lookup_nil, C14.keyEq_lbl_lbl]

theorem baseMap_lookup_other (k : Key) (l : GoVal) (h : ¬ isCommon l) :
    (baseMap k).lookup l = none := by
  unfold isCommon at h
  have h1 : ¬ l = lbl 1 := fun e => h (Or.inl e)
  have h2 : ¬ l = lbl 2 := fun e => h (Or.inr (Or.inl e))
  have h3 : ¬ l = lbl 3 := fun e => h (Or.inr (Or.inr (Or.inl e)))
  have h4 : ¬ l = lbl 4 := fun e => h (Or.inr (Or.inr (Or.inr (Or.inl e))))
  have h5 : ¬ l = lbl 5 := fun e => h (Or.inr (Or.inr (Or.inr (Or.inr e))))
  unfold baseMap
  cases k.id <;> cases k.ops <;> cases k.baseIV <;> by_cases hz : k.alg = 0 <;>
    simp [hz, C14.lookup_cons, C14.lookup_nil, lbl_keyEq_iff, h1, h2, h3, h4, h5]

/-- the bytes `Key.ParamBytes` extracts from a stored value -/
def optBytes : Option GoVal → Bytes
  | some (.bytes b) => b
  | _ => []

theorem pbytes_eq (k : Key) (n : Int) : k.pbytes n = optBytes (k.params.lookup (lbl n)) := by
  unfold Key.pbytes paramBytes
  cases k.params.lookup (lbl n) with
  | none => rfl
  | some v => cases v <;> rfl

/-- the EC2 coordinate padding applied to a stored value -/
def padVal (size : Nat) : GoVal → GoVal
  | .bytes b => .bytes (leftPad size b)
  | v => v

theorem lookup_pad' (m : GoMap) (n : Int) (size : Nat) :
    (if 0 < (optBytes (m.lookup (lbl n))).length ∧ (optBytes (m.lookup (lbl n))).length < size
      then m.set (lbl n) (.bytes (leftPad size (optBytes (m.lookup (lbl n))))) else m).lookup (lbl n)
      = (m.lookup (lbl n)).map (padVal size) := by
  cases h : m.lookup (lbl n) with
  | none => simp [optBytes, h]
  | some v =>
    cases v
    case bytes b => simp only [optBytes, Option.map_some, padVal]; exact C14.lookup_pad m n size b h
    all_goals simp [optBytes, h, padVal]

theorem lookup_ite_set_other' (c : Prop) [Decidable c] (m : GoMap) (n : Int) (l w : GoVal)
    (hne : l ≠ lbl n) : (if c then m.set (lbl n) w else m).lookup l = m.lookup l := by
  split
  · apply C14.lookup_set_other
    · cases hq : (lbl n).keyEq l with
      | false => rfl
      | true => exact absurd ((lbl_keyEq_iff n l).mp hq) hne
    · intro a ha
      rw [(C14.keyEq_lbl_iff a n).mp ha]
      cases hq : (lbl n).keyEq l with
      | false => rfl
      | true => exact absurd ((lbl_keyEq_iff n l).mp hq) hne
  · rfl

/-- what `Key.MarshalCBOR` stores under a label: the parameter (which overrides a common field
    of the same label), else the common field; EC2 x / y left-padded to the curve size -/
def wireLookup (k : Key) (l : GoVal) : Option GoVal :=
  let o := match k.params.lookup l with | some v => some v | none => (baseMap k).lookup l
  if k.kty = 2 ∧ ((lbl (-2)).keyEq l = true ∨ (lbl (-3)).keyEq l = true)
    then o.map (padVal (curveSize k.crv)) else o

theorem not_common_neg (n : Int) (hn : n < 0) : ¬ isCommon (lbl n) := by
  unfold isCommon lbl
  simp only [GoVal.int.injEq, true_and]
  omega

theorem marshalMap_lookup (k : Key) (m : GoMap) (hm : k.marshalMap = some m)
    (hn : ∀ e ∈ k.params, normalizeLabel e.1 = some e.1) (l : GoVal) :
    m.lookup l = wireLookup k l := by
  rw [marshalMap_eq] at hm
  cases hgo : Key.marshalMap.go k.params [] (baseMap k) with
  | none => rw [hgo] at hm; cases hm
  | some m0 =>
    rw [hgo] at hm
    simp only [Option.map_some, Option.some.injEq] at hm
    have h0 := fun l => go_lookup_full k.params (baseMap k) m0 l hn hgo
    have hneg : ∀ n : Int, n < 0 → m0.lookup (lbl n) = k.params.lookup (lbl n) := by
      intro n hlt
      rw [h0]
      cases k.params.lookup (lbl n) with
      | some v => rfl
      | none => exact baseMap_lookup_other k _ (not_common_neg n hlt)
    have key : ∀ (n : Int) (m1 : GoMap), n < 0 → m1.lookup (lbl n) = k.params.lookup (lbl n) →
        (if 0 < (k.pbytes n).length ∧ (k.pbytes n).length < curveSize k.crv
          then m1.set (lbl n) (.bytes (leftPad (curveSize k.crv) (k.pbytes n))) else m1).lookup (lbl n)
          = Option.map (padVal (curveSize k.crv))
              (match k.params.lookup (lbl n) with
               | some v => some v
               | none => (baseMap k).lookup (lbl n)) := by
      intro n m1 hlt h
      have e : (match k.params.lookup (lbl n) with
               | some v => some v
               | none => (baseMap k).lookup (lbl n)) = k.params.lookup (lbl n) := by
        cases k.params.lookup (lbl n) with
        | some v => rfl
        | none => exact baseMap_lookup_other k _ (not_common_neg n hlt)
      rw [e, pbytes_eq, ← h]
      exact lookup_pad' m1 n _
    unfold wireLookup
    simp only []
    by_cases h2 : k.kty = 2
    · simp only [h2, if_true, true_and] at hm ⊢
      subst hm
      by_cases hx : l = lbl (-2)
      · subst hx
        have hc : (lbl (-2)).keyEq (lbl (-2)) = true := by simp [C14.keyEq_lbl_lbl]
        simp only [hc, true_or, if_true]
        unfold C14.padXY
        simp only []
        rw [C14.lookup_ite_set_other _ _ (-3) (-2) _ (by decide)]
        exact key (-2) m0 (by decide) (hneg (-2) (by decide))
      · by_cases hy : l = lbl (-3)
        · subst hy
          have hc : (lbl (-3)).keyEq (lbl (-3)) = true := by simp [C14.keyEq_lbl_lbl]
          simp only [hc, or_true, if_true]
          unfold C14.padXY
          simp only []
          apply key (-3) _ (by decide)
          rw [C14.lookup_ite_set_other _ _ (-2) (-3) _ (by decide)]
          exact hneg (-3) (by decide)
        · have hcx : (lbl (-2)).keyEq l = false := by
            cases hq : (lbl (-2)).keyEq l with
            | false => rfl
            | true => exact absurd ((lbl_keyEq_iff _ l).mp hq) hx
          have hcy : (lbl (-3)).keyEq l = false := by
            cases hq : (lbl (-3)).keyEq l with
            | false => rfl
            | true => exact absurd ((lbl_keyEq_iff _ l).mp hq) hy
          simp only [hcx, hcy, Bool.false_eq_true, or_self, if_false]
          unfold C14.padXY
          simp only []
          rw [lookup_ite_set_other' _ _ (-3) l _ hy, lookup_ite_set_other' _ _ (-2) l _ hx, h0]
    · simp only [h2, if_false, false_and] at hm ⊢
      subst hm
      exact h0 l

/-! ### the data model of keys -/

/-- keys of the flat data model: the common fields fit the CBOR integer / length ranges, every
    parameter label is an `int64` or valid text (the form `Key.UnmarshalCBOR` produces) and every
    parameter value is a `KVal` -/
structure KeyFlat (k : Key) : Prop where
  kty : int64Range k.kty
  alg : int64Range k.alg
  id : ∀ b, k.id = some b → b.length < 18446744073709551616
  ops : ∀ l, k.ops = some l → (∀ o ∈ l, int64Range o) ∧ l.length ≤ maxElems
  baseIV : ∀ b, k.baseIV = some b → b.length < 18446744073709551616
  params : KeyMap k.params

/-- the serialised map stays below the decoder's limit of 131072 pairs (five common fields) -/
def KeySize (k : Key) : Prop := k.params.length + 5 ≤ maxElems

/-- no parameter is stored under the label of a common field (1 … 5) -/
def ParamsDisjoint (k : Key) : Prop :=
  k.params.lookup (lbl 1) = none ∧ k.params.lookup (lbl 2) = none ∧
  k.params.lookup (lbl 3) = none ∧ k.params.lookup (lbl 4) = none ∧
  k.params.lookup (lbl 5) = none

instance (k : Key) : Decidable (KeySize k) := by unfold KeySize; exact inferInstance

instance (k : Key) : Decidable (ParamsDisjoint k) := by unfold ParamsDisjoint; exact inferInstance

/-- `KeyFlat` as a conjunction of decidable checks -/
def keyFlatB (k : Key) : Prop :=
  int64Range k.kty ∧ int64Range k.alg ∧
  (match k.id with | some b => b.length < 18446744073709551616 | none => True) ∧
  (match k.ops with | some l => (∀ o ∈ l, int64Range o) ∧ l.length ≤ maxElems | none => True) ∧
  (match k.baseIV with | some b => b.length < 18446744073709551616 | none => True) ∧
  KeyMap k.params

instance (k : Key) : Decidable (keyFlatB k) := by
  unfold keyFlatB
  cases k.id <;> cases k.ops <;> cases k.baseIV <;> exact inferInstance

theorem keyFlat_iff (k : Key) : KeyFlat k ↔ keyFlatB k := by
  unfold keyFlatB
  constructor
  · intro h
    refine ⟨h.kty, h.alg, ?_, ?_, ?_, h.params⟩
    · cases hid : k.id with
      | none => trivial
      | some b => exact h.id b hid
    · cases ho : k.ops with
      | none => trivial
      | some l => exact h.ops l ho
    · cases hb : k.baseIV with
      | none => trivial
      | some b => exact h.baseIV b hb
  · intro ⟨h1, h2, h3, h4, h5, h6⟩
    refine { kty := h1, alg := h2, id := ?_, ops := ?_, baseIV := ?_, params := h6 }
    · intro b hb; rw [hb] at h3; exact h3
    · intro l hl; rw [hl] at h4; exact h4
    · intro b hb; rw [hb] at h5; exact h5

instance (k : Key) : Decidable (KeyFlat k) := decidable_of_iff _ (keyFlat_iff k).symm

theorem int64Range_small (n : Int) (h1 : -100 ≤ n) (h2 : n ≤ 100) : int64Range n := by
  unfold int64Range; omega

theorem baseMap_keyMap {k : Key} (hk : KeyFlat k) : KeyMap (baseMap k) := by
  have h1 : KeyLabel (lbl 1) ∧ KVal (.int .i64 k.kty) := ⟨keyLabel_lbl 1 (by decide), hk.kty⟩
  have h2 : ∀ b, k.id = some b → KeyLabel (lbl 2) ∧ KVal (.bytes b) :=
    fun b hb => ⟨keyLabel_lbl 2 (by decide), hk.id b hb⟩
  have h3 : KeyLabel (lbl 3) ∧ KVal (.alg k.alg) := ⟨keyLabel_lbl 3 (by decide), hk.alg⟩
  have h4 : ∀ l, k.ops = some l →
      KeyLabel (lbl 4) ∧ KVal (.arr (l.map (fun o => GoVal.int .i64 o))) := by
    intro l hl
    refine ⟨keyLabel_lbl 4 (by decide), ?_, by rw [List.length_map]; exact (hk.ops l hl).2⟩
    intro x hx
    obtain ⟨o, ho, rfl⟩ := List.mem_map.mp hx
    exact (hk.ops l hl).1 o ho
  have h5 : ∀ b, k.baseIV = some b → KeyLabel (lbl 5) ∧ KVal (.bytes b) :=
    fun b hb => ⟨keyLabel_lbl 5 (by decide), hk.baseIV b hb⟩
  intro e he
  unfold baseMap at he
  simp only [List.mem_append, List.mem_singleton] at he
  rcases he with (((he | he) | he) | he) | he
  · rw [he]; exact h1
  · cases hid : k.id with
    | none => rw [hid] at he; cases he
    | some b => rw [hid] at he; rw [List.mem_singleton.mp he]; exact h2 b hid
  · split at he
    · rw [List.mem_singleton.mp he]; exact h3
    · cases he
  · cases hops : k.ops with
    | none => rw [hops] at he; cases he
    | some l => rw [hops] at he; rw [List.mem_singleton.mp he]; exact h4 l hops
  · cases hb : k.baseIV with
    | none => rw [hb] at he; cases he
    | some b => rw [hb] at he; rw [List.mem_singleton.mp he]; exact h5 b hb

theorem baseMap_labelsOK (k : Key) : LabelsOK (baseMap k) := by
  have e1 := C14.normalizeLabel_lbl_small 1 (by decide) (by decide)
  have e2 := C14.normalizeLabel_lbl_small 2 (by decide) (by decide)
  have e3 := C14.normalizeLabel_lbl_small 3 (by decide) (by decide)
  have e4 := C14.normalizeLabel_lbl_small 4 (by decide) (by decide)
  have e5 := C14.normalizeLabel_lbl_small 5 (by decide) (by decide)
  simp only [lbl] at e1 e2 e3 e4 e5
  rw [labelsOK_iff_normLabels]
  unfold baseMap normLabels
  cases k.id <;> cases k.ops <;> cases k.baseIV <;> by_cases hz : k.alg = 0 <;>
    simp [hz, e1, e2, e3, e4, e5, lbl]

theorem baseMap_length (k : Key) : (baseMap k).length ≤ 5 := by
  unfold baseMap
  cases k.id <;> cases k.ops <;> cases k.baseIV <;> by_cases hz : k.alg = 0 <;> simp [hz]

theorem go_length : ∀ (r : GoMap) (seen : List GoVal) (acc m0 : GoMap),
    Key.marshalMap.go r seen acc = some m0 → m0.length ≤ acc.length + r.length
  | [], _, acc, m0, h => by
    simp only [Key.marshalMap.go] at h
    cases h
    simp
  | (l', v') :: r, seen, acc, m0, h => by
    unfold Key.marshalMap.go at h
    split at h
    · cases h
    · split at h
      · cases h
      · have := go_length r _ _ m0 h
        have := length_set acc ‹_› v'
        simp only [List.length_cons]
        omega

theorem curveSize_le (c : Int) : curveSize c ≤ 66 := by
  unfold curveSize
  split
  · omega
  · split
    · omega
    · split <;> omega

theorem leftPad_length (size : Nat) (x : Bytes) :
    (leftPad size x).length = if 0 < x.length ∧ x.length < size then size else x.length := by
  unfold leftPad
  split
  · simp only [List.length_append, List.length_replicate]; omega
  · rfl

theorem length_set_has (h : GoMap) (k v : GoVal) (hh : h.lookup k ≠ none) :
    (h.set k v).length = h.length := by
  unfold GoMap.set GoMap.has
  cases hl : h.lookup k with
  | none => exact absurd hl hh
  | some w => simp

theorem padStep_inv (m : GoMap) (n : Int) (hn : int64Range n) (size : Nat) (hs : size ≤ 66)
    (x : Bytes) (hx : x = optBytes (m.lookup (lbl n)))
    (hf : KeyMap m) (hok : LabelsOK m) :
    let m' := if 0 < x.length ∧ x.length < size then m.set (lbl n) (.bytes (leftPad size x)) else m
    KeyMap m' ∧ LabelsOK m' ∧ m'.length = m.length := by
  simp only []
  split
  · rename_i hc
    refine ⟨hf.set (keyLabel_lbl n hn) ?_, labelsOK_set hok hf.normal (keyLabel_lbl n hn).normalize _, ?_⟩
    · simp only [KVal]
      rw [leftPad_length, if_pos hc]
      omega
    · apply length_set_has
      intro hnone
      rw [hnone] at hx
      rw [hx] at hc
      simp [optBytes] at hc
  · exact ⟨hf, hok, rfl⟩

/-- the map `Key.MarshalCBOR` hands to the encoder is a key map with pairwise distinct labels -/
theorem marshalMap_inv {k : Key} (hk : KeyFlat k) {m : GoMap} (hm : k.marshalMap = some m) :
    KeyMap m ∧ LabelsOK m ∧ m.length ≤ k.params.length + 5 := by
  have hn := hk.params.normal
  have hlk := marshalMap_lookup k m hm hn
  rw [marshalMap_eq] at hm
  cases hgo : Key.marshalMap.go k.params [] (baseMap k) with
  | none => rw [hgo] at hm; cases hm
  | some m0 =>
    rw [hgo] at hm
    simp only [Option.map_some, Option.some.injEq] at hm
    have h0 : KeyMap m0 ∧ LabelsOK m0 := by
      refine go_ind (fun a => KeyMap a ∧ LabelsOK a) k.params [] (baseMap k) m0 hgo
        ⟨baseMap_keyMap hk, baseMap_labelsOK k⟩ ?_
      intro a l v nl hmem hnl ⟨ha1, ha2⟩
      have hl := hk.params _ hmem
      rw [hl.1.normalize] at hnl
      cases hnl
      exact ⟨ha1.set hl.1 hl.2, labelsOK_set ha2 ha1.normal hl.1.normalize v⟩
    have hlen : m0.length ≤ k.params.length + 5 := by
      have := go_length _ _ _ _ hgo
      have := baseMap_length k
      omega
    by_cases h2 : k.kty = 2
    · simp only [h2, if_true] at hm
      subst hm
      have hneg : ∀ n : Int, n < 0 → m0.lookup (lbl n) = k.params.lookup (lbl n) := by
        intro n hlt
        rw [go_lookup_full k.params (baseMap k) m0 _ hn hgo]
        cases k.params.lookup (lbl n) with
        | some v => rfl
        | none => exact baseMap_lookup_other k _ (not_common_neg n hlt)
      have s1 := padStep_inv m0 (-2) (by decide) (curveSize k.crv) (curveSize_le _) (k.pbytes (-2))
        (by rw [pbytes_eq, hneg _ (by decide)]) h0.1 h0.2
      have s2 := padStep_inv _ (-3) (by decide) (curveSize k.crv) (curveSize_le _) (k.pbytes (-3))
        (by rw [pbytes_eq, C14.lookup_ite_set_other _ _ (-2) (-3) _ (by decide), hneg _ (by decide)])
        s1.1 s1.2.1
      refine ⟨s2.1, s2.2.1, ?_⟩
      unfold C14.padXY
      simp only []
      rw [s2.2.2, s1.2.2]
      exact hlen
    · simp only [h2, if_false] at hm
      subst hm
      exact ⟨h0.1, h0.2, hlen⟩

/-! ## D. `Key.UnmarshalCBOR` on the decoded map -/

/-- the entries left for the parameter loop -/
def erase5 (tmp : GoMap) : GoMap :=
  ((((tmp.erase (lbl 1)).erase (lbl 2)).erase (lbl 3)).erase (lbl 4)).erase (lbl 5)

theorem lookup_erase5_other (tmp : GoMap) (l : GoVal) (h : ¬ isCommon l) :
    (erase5 tmp).lookup l = tmp.lookup l := by
  unfold isCommon at h
  unfold erase5
  rw [lookup_erase_other _ 5 l (fun e => h (Or.inr (Or.inr (Or.inr (Or.inr e))))),
    lookup_erase_other _ 4 l (fun e => h (Or.inr (Or.inr (Or.inr (Or.inl e))))),
    lookup_erase_other _ 3 l (fun e => h (Or.inr (Or.inr (Or.inl e)))),
    lookup_erase_other _ 2 l (fun e => h (Or.inr (Or.inl e))),
    lookup_erase_other _ 1 l (fun e => h (Or.inl e))]

theorem lookup_erase5_common (tmp : GoMap) (l : GoVal) (h : isCommon l) :
    (erase5 tmp).lookup l = none := by
  unfold erase5
  rcases h with h | h | h | h | h <;> subst h
  · exact lookup_erase_none _ _ _ (lookup_erase_none _ _ _ (lookup_erase_none _ _ _
      (lookup_erase_none _ _ _ (lookup_erase_same _ _))))
  · exact lookup_erase_none _ _ _ (lookup_erase_none _ _ _ (lookup_erase_none _ _ _
      (lookup_erase_same _ _)))
  · exact lookup_erase_none _ _ _ (lookup_erase_none _ _ _ (lookup_erase_same _ _))
  · exact lookup_erase_none _ _ _ (lookup_erase_same _ _)
  · exact lookup_erase_same _ _

theorem mem_erase5 {tmp : GoMap} {e : GoVal × GoVal} (h : e ∈ erase5 tmp) : e ∈ tmp := by
  unfold erase5 GoMap.erase at h
  exact (List.mem_filter.mp (List.mem_filter.mp (List.mem_filter.mp (List.mem_filter.mp
    (List.mem_filter.mp h).1).1).1).1).1

/-- the retyping of the curve parameter of EC2 / OKP keys (key.go:637) -/
def retypeVal (kty : Int) (l v : GoVal) : GoVal :=
  if (kty = 2 ∨ kty = 1) ∧ (lbl (-1)).keyEq l = true then
    (match v with
     | .int .i64 c => .crv c
     | v => v)
  else v

def retypeEntry (kty : Int) (e : GoVal × GoVal) : GoVal × GoVal := (e.1, retypeVal kty e.1 e.2)

theorem keyParams_eq_map (kty : Int) : ∀ (rest : GoMap), (∀ e ∈ rest, KeyLabel e.1) →
    (∀ e ∈ rest, (kty = 2 ∨ kty = 1) → e.1 = lbl (-1) → ∃ c, e.2 = .int .i64 c) →
    keyParams kty rest = some (rest.map (retypeEntry kty))
  | [], _, _ => by simp only [keyParams, List.map_nil]
  | (k, v) :: r, hl, hc => by
    have ih := keyParams_eq_map kty r (fun e he => hl e (List.mem_cons_of_mem _ he))
      (fun e he => hc e (List.mem_cons_of_mem _ he))
    have hk := hl (k, v) (List.mem_cons_self ..)
    have hcv := hc (k, v) (List.mem_cons_self ..)
    unfold keyParams
    rw [ih]
    simp only [List.map_cons, retypeEntry]
    cases k <;> simp only [KeyLabel] at hk
    case str b =>
      simp only [retypeVal, lbl, GoVal.keyEq, Bool.false_eq_true, and_false, if_false]
    case int kd l =>
      obtain ⟨rfl, _⟩ := hk
      by_cases hcond : (kty = 2 ∨ kty = 1) ∧ l = -1
      · obtain ⟨hk12, rfl⟩ := hcond
        obtain ⟨c, hcv'⟩ := hcv hk12 rfl
        simp only at hcv'
        subst hcv'
        have : (lbl (-1)).keyEq (.int .i64 (-1)) = true := rfl
        simp only [hk12, retypeVal, this, and_self, if_true]
      · have : ¬ ((kty = 2 ∨ kty = 1) ∧ (lbl (-1)).keyEq (.int .i64 l) = true) := by
          intro hh
          apply hcond
          refine ⟨hh.1, ?_⟩
          have := (lbl_keyEq_iff (-1) _).mp hh.2
          simp only [lbl, GoVal.int.injEq, true_and] at this
          exact this
        simp only [hcond, retypeVal, this, if_false]

theorem lookup_retype (kty : Int) (rest : GoMap) (l : GoVal) (hl : normalizeLabel l ≠ none) :
    GoMap.lookup (rest.map (retypeEntry kty)) l = (rest.lookup l).map (retypeVal kty l) := by
  induction rest with
  | nil => rfl
  | cons e r ih =>
    obtain ⟨a, b⟩ := e
    simp only [List.map_cons, retypeEntry]
    rw [C14.lookup_cons, C14.lookup_cons]
    by_cases hk : a.keyEq l = true
    · rw [if_pos hk, if_pos hk, eq_of_keyEq_of_normalizes' hl hk]; rfl
    · rw [if_neg hk, if_neg hk]; exact ih

theorem decodeOps_ints (l : List Int) : decodeOps (l.map (fun o => GoVal.int .i64 o)) = some l := by
  induction l with
  | nil => rfl
  | cons o r ih => simp only [List.map_cons, decodeOps, ih, Option.map_some]

/-- `Key.UnmarshalCBOR` succeeds on a map that holds the common fields in their wire types -/
theorem ofMap_ok (tmp : GoMap) (kty : Int) (id : Option Bytes) (alg : Int)
    (ops : Option (List Int)) (biv : Option Bytes) (params : GoMap)
    (h1 : tmp.lookup (lbl 1) = some (.int .i64 kty)) (hz : kty ≠ 0)
    (h2 : tmp.lookup (lbl 2) = id.map GoVal.bytes)
    (h3 : tmp.lookup (lbl 3) = if alg = 0 then none else some (.int .i64 alg))
    (h4 : tmp.lookup (lbl 4) = ops.map (fun l => GoVal.arr (l.map (fun o => GoVal.int .i64 o))))
    (h5 : tmp.lookup (lbl 5) = biv.map GoVal.bytes)
    (hp : keyParams kty (erase5 tmp) = some params)
    (hv : ({ kty := kty, id := id, alg := alg, ops := ops, baseIV := biv, params := params } : Key).validate
            .none = none) :
    Key.ofMap tmp
      = .ok { kty := kty, id := id, alg := alg, ops := ops, baseIV := biv, params := params } := by
  unfold erase5 at hp
  unfold Key.ofMap
  rw [h1]
  simp only [hz, if_false, paramBytes, h2, h3, h4, h5]
  cases id <;> cases ops <;> cases biv <;> by_cases ha : alg = 0
  all_goals first
    | (subst ha; simp [Lk.getD, decodeOps_ints, hp, hv]; done)
    | (simp [ha, Lk.getD, decodeOps_ints, hp, hv]; done)

/-! ## E. validation survives the round trip -/

theorem leftPad_len_zero (s : Nat) (x : Bytes) : ((leftPad s x).length = 0) = (x.length = 0) := by
  rw [leftPad_length]
  apply propext
  split <;> omega

theorem leftPad_len_gt (s : Nat) (x : Bytes) : ((leftPad s x).length > s) = (x.length > s) := by
  rw [leftPad_length]
  apply propext
  split <;> omega

/-- what the decoded key's `ParamBytes` return, relative to the encoded key's -/
def wirePbytes (k : Key) (n : Int) : Bytes :=
  if k.kty = 2 ∧ (n = -2 ∨ n = -3) then leftPad (curveSize k.crv) (k.pbytes n) else k.pbytes n

/-- `validate` only looks at kty, alg, the curve (EC2 / OKP), the lengths of the byte-string
    parameters -1 … -4, in a way the EC2 coordinate padding does not disturb, and (since e8483d3)
    the type class of the EC2 / OKP parameters -2 … -4: absent, byte string, boolean, other -/
theorem validate_transfer (k k' : Key) (op : KOp) (hkty : k'.kty = k.kty) (halg : k'.alg = k.alg)
    (hcrv : k.kty = 1 ∨ k.kty = 2 → k'.crv = k.crv)
    (hp : ∀ n : Int, -4 ≤ n → n < 0 → k'.pbytes n = wirePbytes k n)
    (ht : k.kty = 1 ∨ k.kty = 2 → ∀ n : Int, -4 ≤ n → n < -1 → ∀ b,
      k'.paramIsBstr n b = k.paramIsBstr n b) :
    k'.validate op = k.validate op := by
  have p1 := hp (-1) (by decide) (by decide)
  have p2 := hp (-2) (by decide) (by decide)
  have p3 := hp (-3) (by decide) (by decide)
  have p4 := hp (-4) (by decide) (by decide)
  unfold wirePbytes at p1 p2 p3 p4
  unfold Key.validate Key.deriveAlgorithm
  by_cases h2 : k.kty = 2
  · have hc := hcrv (Or.inr h2)
    have t2 := ht (Or.inr h2) (-2) (by decide) (by decide) false
    have t3 := ht (Or.inr h2) (-3) (by decide) (by decide) true
    have t4 := ht (Or.inr h2) (-4) (by decide) (by decide) false
    rw [if_pos ⟨h2, Or.inl rfl⟩] at p2
    rw [if_pos ⟨h2, Or.inr rfl⟩] at p3
    rw [if_neg (fun h => by have := h.2; omega)] at p4
    simp only [hkty, halg, hc, h2, if_true, p2, p3, p4, t2, t3, t4, leftPad_len_zero,
      leftPad_len_gt]
  · rw [if_neg (fun h => h2 h.1)] at p1 p2 p3 p4
    by_cases h1 : k.kty = 1
    · have hc := hcrv (Or.inl h1)
      have t2 := ht (Or.inl h1) (-2) (by decide) (by decide) false
      have t4 := ht (Or.inl h1) (-4) (by decide) (by decide) false
      simp only [hkty, halg, hc, h1, p2, p4, t2, t4, show ((1 : Int) = 2) = False from by decide,
        if_false, if_true]
    · simp only [hkty, halg, h2, h1, p1, if_false]

/-! ## F. assembling the round trip -/

/-- the parameter `Key.UnmarshalCBOR` stores under label `l` after a round trip: what
    `Key.MarshalCBOR` put on the wire (`wireLookup`), as the generic decoder types it (`kNorm`),
    the curve of an EC2 / OKP key retyped to `Curve` (`retypeVal`) -/
def wireParam (k : Key) (l : GoVal) : Option GoVal :=
  (wireLookup k l).map (fun v => retypeVal k.kty l (kNorm v))

theorem optBytes_retype_norm (kty : Int) (l : GoVal) (o : Option GoVal) :
    optBytes (o.map (fun v => retypeVal kty l (kNorm v))) = optBytes o := by
  cases o with
  | none => rfl
  | some v =>
    simp only [Option.map_some, retypeVal]
    split
    · cases v <;> rfl
    · cases v <;> rfl

theorem optBytes_pad (s : Nat) (o : Option GoVal) :
    optBytes (o.map (padVal s)) = leftPad s (optBytes o) := by
  have h0 : leftPad s [] = [] := by simp [leftPad]
  cases o with
  | none => exact h0.symm
  | some v => cases v <;> first | rfl | exact h0.symm

theorem wireLookup_neg (k : Key) (n : Int) (hn : n < 0) :
    wireLookup k (lbl n) =
      if k.kty = 2 ∧ (n = -2 ∨ n = -3)
        then (k.params.lookup (lbl n)).map (padVal (curveSize k.crv)) else k.params.lookup (lbl n) := by
  have e : (match k.params.lookup (lbl n) with
            | some v => some v
            | none => (baseMap k).lookup (lbl n)) = k.params.lookup (lbl n) := by
    cases k.params.lookup (lbl n) with
    | some v => rfl
    | none => exact baseMap_lookup_other k _ (not_common_neg n hn)
  unfold wireLookup
  simp only [e, C14.keyEq_lbl_lbl, decide_eq_true_eq]
  by_cases hc : k.kty = 2 ∧ (n = -2 ∨ n = -3)
  · rw [if_pos hc, if_pos ⟨hc.1, by have := hc.2; omega⟩]
  · rw [if_neg hc, if_neg (fun h => hc ⟨h.1, by have := h.2; omega⟩)]

theorem wireLookup_common (k : Key) (hd : ParamsDisjoint k) (i : Int) (hi : 1 ≤ i ∧ i ≤ 5) :
    wireLookup k (lbl i) = (baseMap k).lookup (lbl i) := by
  have hp : k.params.lookup (lbl i) = none := by
    obtain ⟨h1, h2, h3, h4, h5⟩ := hd
    have : i = 1 ∨ i = 2 ∨ i = 3 ∨ i = 4 ∨ i = 5 := by omega
    rcases this with rfl | rfl | rfl | rfl | rfl <;> assumption
  unfold wireLookup
  simp only [hp, C14.keyEq_lbl_lbl, decide_eq_true_eq]
  rw [if_neg (fun h => by have := h.2; omega)]

/-- a non-zero `crv` means label -1 holds a signed integer, an `Algorithm` or a `Curve` -/
theorem crv_lookup (k : Key) (h : k.crv ≠ 0) :
    ∃ v, k.params.lookup (lbl (-1)) = some v ∧ kNorm v = .int .i64 k.crv := by
  unfold Key.crv paramInt at h ⊢
  cases hl : k.params.lookup (lbl (-1)) with
  | none => rw [hl] at h; exact absurd rfl h
  | some v =>
    rw [hl] at h
    refine ⟨v, rfl, ?_⟩
    cases v <;> try (exact absurd rfl h)
    case int kd n =>
      cases hs : kd.signed
      · simp only [hs] at h; exact absurd rfl h
      · simp only [hs, if_true, Lk.getD, kNorm, normVal]
    case alg n => rfl
    case crv n => rfl

theorem crv_ne_zero (k : Key) (hv : k.validate .none = none) (h12 : k.kty = 1 ∨ k.kty = 2) :
    k.crv ≠ 0 := by
  rcases h12 with h | h
  · exact (C15.validate_okp k .none hv h).1
  · exact (C15.validate_ec2 k .none hv h).1

theorem kNorm_ops (l : List Int) :
    kNorm (.arr (l.map (fun o => GoVal.int .i64 o))) = .arr (l.map (fun o => GoVal.int .i64 o)) := by
  simp only [kNorm, List.map_map]
  congr 1

/-- the generically decoded map holds, under every label, what `Key.MarshalCBOR` stored there, as
    the decoder types it (needs no hypothesis on the common labels or on validity) -/
theorem decoded_lookup {k : Key} (hk : KeyFlat k) {m : GoMap} (hm : k.marshalMap = some m)
    (l : GoVal) :
    GoMap.lookup ((sortEntries m).map kNormEntry) l = (wireLookup k l).map kNorm := by
  obtain ⟨hkm, hok, _⟩ := marshalMap_inv hk hm
  have hsm : ∀ e ∈ sortEntries m, e ∈ m := fun e he => (sortEntries_perm m).mem_iff.mp he
  have hm'eq : (sortEntries m).map kNormEntry = (sortEntries m).map (fun e => (e.1, kNorm e.2)) := by
    apply List.map_congr_left
    intro e he
    simp only [kNormEntry, (hkm e (hsm e he)).1.normVal_eq]
  rw [hm'eq, lookup_map_snd, ← C13.goLookup_perm m (sortEntries m) (sortEntries_perm m).symm hok l,
    marshalMap_lookup k m hm hk.params.normal]

/-- the parameter loop of `Key.MarshalCBOR` succeeds on normalised, pairwise distinct labels -/
theorem go_some : ∀ (r : GoMap) (seen : List GoVal) (acc : GoMap),
    (∀ e ∈ r, normalizeLabel e.1 = some e.1) → r.Pairwise LabelDistinct →
    (∀ e ∈ r, seen.any (fun s => s.keyEq e.1) = false) →
    ∃ m0, Key.marshalMap.go r seen acc = some m0
  | [], _, acc, _, _, _ => ⟨acc, by simp only [Key.marshalMap.go]⟩
  | (l, v) :: r, seen, acc, hn, hp, hs => by
    rw [List.pairwise_cons] at hp
    have hl := hn (l, v) (List.mem_cons_self ..)
    simp only at hl
    unfold Key.marshalMap.go
    simp only [hl, hs (l, v) (List.mem_cons_self ..), Bool.false_eq_true, if_false]
    apply go_some r _ _ (fun e he => hn e (List.mem_cons_of_mem _ he)) hp.2
    intro e he
    rw [List.any_cons, hs e (List.mem_cons_of_mem _ he), Bool.or_false]
    exact hp.1 e he l e.1 hl (hn e (List.mem_cons_of_mem _ he))

/-- labels already seen do not occur again in a successful run of the parameter loop -/
theorem go_seen_fresh : ∀ (r : GoMap) (seen : List GoVal) (acc m0 : GoMap),
    Key.marshalMap.go r seen acc = some m0 → ∀ s ∈ seen, ∀ e ∈ r, ∀ b,
    normalizeLabel e.1 = some b → s.keyEq b = false
  | [], _, _, _, _, _, _, _, he, _, _ => by cases he
  | (l, v) :: r, seen, acc, m0, h, s, hs, e, he, b, hb => by
    unfold Key.marshalMap.go at h
    split at h
    · cases h
    · rename_i nl hnl
      split at h
      · cases h
      · rename_i hany
        rcases List.mem_cons.mp he with rfl | hm
        · simp only at hb
          rw [hnl] at hb
          cases hb
          cases hq : s.keyEq b with
          | false => rfl
          | true => exact absurd (List.any_eq_true.mpr ⟨s, hs, hq⟩) hany
        · exact go_seen_fresh r (nl :: seen) _ m0 h s (List.mem_cons_of_mem _ hs) e hm b hb

/-- … and only on pairwise distinct labels -/
theorem go_distinct : ∀ (r : GoMap) (seen : List GoVal) (acc m0 : GoMap),
    Key.marshalMap.go r seen acc = some m0 → r.Pairwise LabelDistinct
  | [], _, _, _, _ => List.Pairwise.nil
  | (l, v) :: r, seen, acc, m0, h => by
    unfold Key.marshalMap.go at h
    split at h
    · cases h
    · rename_i nl hnl
      split at h
      · cases h
      · rw [List.pairwise_cons]
        refine ⟨?_, go_distinct r _ _ m0 h⟩
        intro e he a b ha hb
        simp only at ha
        rw [hnl] at ha
        cases ha
        exact go_seen_fresh r (nl :: seen) _ m0 h nl (List.mem_cons_self ..) e he b hb

theorem marshalMap_some (k : Key) (hn : ∀ e ∈ k.params, normalizeLabel e.1 = some e.1)
    (hok : LabelsOK k.params) : ∃ m, k.marshalMap = some m := by
  obtain ⟨m0, h0⟩ := go_some k.params [] (baseMap k) hn hok.2 (fun _ _ => rfl)
  rw [marshalMap_eq, h0]
  exact ⟨_, rfl⟩

theorem retype_kval (kty : Int) (l : GoVal) {v : GoVal} (hv : KVal v) : KVal (retypeVal kty l v) := by
  unfold retypeVal
  split
  · split
    · simp only [KVal] at hv ⊢; exact hv
    · exact hv
  · exact hv

theorem KeyMap.normEntry {g : GoMap} (hkm : KeyMap g) : KeyMap (g.map kNormEntry) := by
  intro e he
  obtain ⟨e0, he0, rfl⟩ := List.mem_map.mp he
  simp only [kNormEntry, (hkm e0 he0).1.normVal_eq]
  exact ⟨(hkm e0 he0).1, kNorm_kVal (hkm e0 he0).2⟩

/-- no EC2 / OKP coordinate is a typed-nil `[]byte`: `Key.validate` takes `[]byte(nil)` for a byte
    string (an absent one), `MarshalCBOR` writes it as `null`, and `UnmarshalCBOR` refuses a `null`
    coordinate since e8483d3 — see `key_marshal_unmarshal_needs_no_nil_coords` -/
def NoNilCoords (k : Key) : Prop :=
  k.kty = 1 ∨ k.kty = 2 → ∀ n : Int, -4 ≤ n → n < -1 → k.params.lookup (lbl n) ≠ some .bytesNil

/-- the type class `paramIsBstr` tests survives serialisation and parsing, a typed-nil `[]byte`
    (which comes back as `nil`) excepted -/
theorem paramIsBstr_wire (k k' : Key) (n : Int) (hn : n < -1) (b : Bool)
    (hnn : k.params.lookup (lbl n) ≠ some .bytesNil)
    (hl : k'.params.lookup (lbl n) = wireParam k (lbl n)) :
    k'.paramIsBstr n b = k.paramIsBstr n b := by
  have hne : (lbl (-1)).keyEq (lbl n) = false := by
    rw [C14.keyEq_lbl_lbl]; simp; omega
  unfold Key.paramIsBstr
  rw [hl, wireParam, wireLookup_neg k n (by omega)]
  have hrt : ∀ v, retypeVal k.kty (lbl n) v = v := by
    intro v; simp [retypeVal, hne]
  cases hlk : k.params.lookup (lbl n) with
  | none => by_cases hc : (k.kty = 2 ∧ (n = -2 ∨ n = -3)) <;> simp [hc]
  | some v =>
    have hv : v ≠ .bytesNil := fun h => hnn (by rw [hlk, h])
    by_cases hc : (k.kty = 2 ∧ (n = -2 ∨ n = -3))
    · simp only [if_pos hc, Option.map_some, hrt]
      cases v <;> first | exact absurd rfl hv | rfl
    · simp only [if_neg hc, Option.map_some, hrt]
      cases v <;> first | exact absurd rfl hv | rfl

/-- a key none of whose parameters is a typed-nil `[]byte` (every key built by the constructors,
    every key the decoder returns) -/
theorem noNilCoords_of_vals {k : Key} (h : ∀ e ∈ k.params, e.2 ≠ .bytesNil) : NoNilCoords k := by
  intro _ n _ _ hl
  unfold GoMap.lookup at hl
  cases hf : k.params.find? (fun e => e.1.keyEq (lbl n)) with
  | none => rw [hf] at hl; cases hl
  | some e => rw [hf] at hl; exact h e (List.mem_of_find?_eq_some hf) (Option.some.inj hl)

/-- MAIN (map level): `Key.UnmarshalCBOR` on the decoded form of the map `Key.MarshalCBOR`
    built returns a key with the same common fields and the parameters of `wireParam` -/
theorem key_roundtrip_core (k : Key) (hk : KeyFlat k) (hd : ParamsDisjoint k)
    (hnn : NoNilCoords k)
    (hv : k.validate .none = none) (m : GoMap) (hm : k.marshalMap = some m) :
    ∃ k', Key.ofMap ((sortEntries m).map kNormEntry) = .ok k' ∧
      k'.kty = k.kty ∧ k'.id = k.id ∧ k'.alg = k.alg ∧ k'.ops = k.ops ∧ k'.baseIV = k.baseIV ∧
      k'.params = (erase5 ((sortEntries m).map kNormEntry)).map (retypeEntry k.kty) ∧
      (∀ l, normalizeLabel l = some l → ¬ isCommon l → k'.params.lookup l = wireParam k l) ∧
      (∀ l, isCommon l → k'.params.lookup l = none) ∧
      (∀ n : Int, int64Range n → n < 0 → k'.pbytes n = wirePbytes k n) ∧
      (k.kty = 1 ∨ k.kty = 2 → k'.crv = k.crv) ∧
      KeyFlat k' ∧ k'.params.length ≤ k.params.length + 5 := by
  obtain ⟨hkm, hok, hlen⟩ := marshalMap_inv hk hm
  have hn := hk.params.normal
  have hwl := marshalMap_lookup k m hm hn
  have hsm : ∀ e ∈ sortEntries m, e ∈ m := fun e he => (sortEntries_perm m).mem_iff.mp he
  have hm'eq : (sortEntries m).map kNormEntry = (sortEntries m).map (fun e => (e.1, kNorm e.2)) := by
    apply List.map_congr_left
    intro e he
    simp only [kNormEntry, (hkm e (hsm e he)).1.normVal_eq]
  have hlk' : ∀ l, GoMap.lookup ((sortEntries m).map kNormEntry) l = (wireLookup k l).map kNorm := by
    intro l
    rw [hm'eq, lookup_map_snd, ← C13.goLookup_perm m (sortEntries m) (sortEntries_perm m).symm hok l,
      hwl]
  obtain ⟨b1, b2, b3, b4, b5⟩ := baseMap_lookup k
  have c1 := hlk' (lbl 1)
  have c2 := hlk' (lbl 2)
  have c3 := hlk' (lbl 3)
  have c4 := hlk' (lbl 4)
  have c5 := hlk' (lbl 5)
  rw [wireLookup_common k hd 1 (by decide), b1] at c1
  rw [wireLookup_common k hd 2 (by decide), b2] at c2
  rw [wireLookup_common k hd 3 (by decide), b3] at c3
  rw [wireLookup_common k hd 4 (by decide), b4] at c4
  rw [wireLookup_common k hd 5 (by decide), b5] at c5
  have c2' : GoMap.lookup ((sortEntries m).map kNormEntry) (lbl 2) = k.id.map GoVal.bytes := by
    rw [c2]; cases k.id <;> rfl
  have c3' : GoMap.lookup ((sortEntries m).map kNormEntry) (lbl 3)
      = if k.alg = 0 then none else some (.int .i64 k.alg) := by
    rw [c3]; split <;> rfl
  have c4' : GoMap.lookup ((sortEntries m).map kNormEntry) (lbl 4)
      = k.ops.map (fun l => GoVal.arr (l.map (fun o => GoVal.int .i64 o))) := by
    rw [c4]
    cases k.ops with
    | none => rfl
    | some l => simp only [Option.map_some, kNorm_ops]
  have c5' : GoMap.lookup ((sortEntries m).map kNormEntry) (lbl 5) = k.baseIV.map GoVal.bytes := by
    rw [c5]; cases k.baseIV <;> rfl
  have hkz : k.kty ≠ 0 := by
    intro h0
    unfold Key.validate at hv
    simp [h0] at hv
  -- the parameter loop
  have hrl : ∀ e ∈ erase5 ((sortEntries m).map kNormEntry), KeyLabel e.1 := by
    intro e he
    obtain ⟨e0, he0, rfl⟩ := List.mem_map.mp (mem_erase5 he)
    simp only [kNormEntry, (hkm e0 (hsm e0 he0)).1.normVal_eq]
    exact (hkm e0 (hsm e0 he0)).1
  have hrc : ∀ e ∈ erase5 ((sortEntries m).map kNormEntry), (k.kty = 2 ∨ k.kty = 1) →
      e.1 = lbl (-1) → ∃ c, e.2 = .int .i64 c := by
    intro e he h12 hl1
    obtain ⟨e0, he0, rfl⟩ := List.mem_map.mp (mem_erase5 he)
    have hmem := hsm e0 he0
    simp only [kNormEntry, (hkm e0 hmem).1.normVal_eq] at hl1 ⊢
    have h1 : m.lookup e0.1 = some e0.2 := (lookup_iff_mem hok hkm.normal e0.2).mpr hmem
    rw [hl1, hwl, wireLookup_neg k (-1) (by decide), if_neg (fun h => by have := h.2; omega)] at h1
    obtain ⟨v, hv1, hv2⟩ := crv_lookup k (crv_ne_zero k hv h12.symm)
    rw [hv1] at h1
    cases h1
    exact ⟨k.crv, hv2⟩
  have hkp := keyParams_eq_map k.kty _ hrl hrc
  -- lookups in the decoded parameters
  have hplk : ∀ l, normalizeLabel l = some l → ¬ isCommon l →
      GoMap.lookup ((erase5 ((sortEntries m).map kNormEntry)).map (retypeEntry k.kty)) l
        = wireParam k l := by
    intro l hl hc
    rw [lookup_retype _ _ _ (by rw [hl]; simp), lookup_erase5_other _ _ hc, hlk', wireParam,
      Option.map_map]
    rfl
  have hplc : ∀ l, isCommon l →
      GoMap.lookup ((erase5 ((sortEntries m).map kNormEntry)).map (retypeEntry k.kty)) l = none := by
    intro l hc
    have hl : normalizeLabel l ≠ none := by
      rcases hc with h | h | h | h | h <;> subst h <;>
        rw [C14.normalizeLabel_lbl_small _ (by decide) (by decide)] <;> simp
    rw [lookup_retype _ _ _ hl, lookup_erase5_common _ _ hc]
    rfl
  have hex : ∃ k' : Key, k'.kty = k.kty ∧ k'.id = k.id ∧ k'.alg = k.alg ∧ k'.ops = k.ops ∧
      k'.baseIV = k.baseIV ∧
      k'.params = (erase5 ((sortEntries m).map kNormEntry)).map (retypeEntry k.kty) :=
    ⟨{ kty := k.kty, id := k.id, alg := k.alg, ops := k.ops, baseIV := k.baseIV,
       params := (erase5 ((sortEntries m).map kNormEntry)).map (retypeEntry k.kty) },
      rfl, rfl, rfl, rfl, rfl, rfl⟩
  obtain ⟨k', e1, e2, e3, e4, e5, e6⟩ := hex
  rw [← e6] at hplk hplc hkp
  have hpb : ∀ n : Int, int64Range n → n < 0 → k'.pbytes n = wirePbytes k n := by
    intro n hr hlt
    rw [pbytes_eq, hplk (lbl n) (keyLabel_lbl n hr).normalize (not_common_neg n hlt), wireParam,
      optBytes_retype_norm, wireLookup_neg k n hlt]
    unfold wirePbytes
    split
    · rw [optBytes_pad, pbytes_eq]
    · rw [pbytes_eq]
  have hcrv : k.kty = 1 ∨ k.kty = 2 → k'.crv = k.crv := by
    intro h12
    obtain ⟨v, hv1, hv2⟩ := crv_lookup k (crv_ne_zero k hv h12)
    have hl : k'.params.lookup (lbl (-1)) = some (.crv k.crv) := by
      rw [hplk (lbl (-1)) (keyLabel_lbl _ (by decide)).normalize (not_common_neg _ (by decide)),
        wireParam, wireLookup_neg k (-1) (by decide), if_neg (fun h => by have := h.2; omega), hv1,
        Option.map_some, hv2]
      have hc : (lbl (-1)).keyEq (lbl (-1)) = true := by simp [C14.keyEq_lbl_lbl]
      simp only [retypeVal, h12.symm, hc, and_self, if_true]
    exact C14.crv_of_lookup k' _ hl
  have hv' : k'.validate .none = none := by
    rw [validate_transfer k k' .none e1 e3 hcrv
      (fun n h1 h2 => hpb n (int64Range_small n (by omega) (by omega)) h2)
      (fun h12 n h1 h2 b => paramIsBstr_wire k k' n h2 b (hnn h12 n h1 h2)
        (hplk (lbl n) (keyLabel_lbl n (int64Range_small n (by omega) (by omega))).normalize
          (not_common_neg n (by omega))))]
    exact hv
  have hk'eq : k' = { kty := k.kty, id := k.id, alg := k.alg, ops := k.ops, baseIV := k.baseIV,
                      params := k'.params } := by
    cases k'
    simp only at e1 e2 e3 e4 e5
    rw [e1, e2, e3, e4, e5]
  have hkm' : KeyMap ((sortEntries m).map kNormEntry) :=
    KeyMap.normEntry (fun e he => hkm e (hsm e he))
  have hf2 : KeyFlat k' := by
    refine { kty := by rw [e1]; exact hk.kty, alg := by rw [e3]; exact hk.alg,
             id := by rw [e2]; exact hk.id, ops := by rw [e4]; exact hk.ops,
             baseIV := by rw [e5]; exact hk.baseIV, params := ?_ }
    rw [e6]
    intro e he
    obtain ⟨e0, he0, rfl⟩ := List.mem_map.mp he
    have := hkm' e0 (mem_erase5 he0)
    exact ⟨this.1, retype_kval _ _ this.2⟩
  have hlen2 : k'.params.length ≤ k.params.length + 5 := by
    rw [e6, List.length_map]
    have h1 : (erase5 ((sortEntries m).map kNormEntry)).length
        ≤ ((sortEntries m).map kNormEntry).length := by
      unfold erase5 GoMap.erase
      exact Nat.le_trans (List.length_filter_le _ _) (Nat.le_trans (List.length_filter_le _ _)
        (Nat.le_trans (List.length_filter_le _ _) (Nat.le_trans (List.length_filter_le _ _)
          (List.length_filter_le _ _))))
    rw [List.length_map, sortEntries_length] at h1
    omega
  refine ⟨k', ?_, e1, e2, e3, e4, e5, e6, hplk, hplc, hpb, hcrv, hf2, hlen2⟩
  rw [hk'eq]
  rw [hk'eq] at hv'
  exact ofMap_ok _ k.kty k.id k.alg k.ops k.baseIV k'.params c1 hkz c2' c3' c4' c5' hkp hv'

/-! ### bytes -/

theorem flat_modelled {v : GoVal} (h : FlatVal v) : v.modelled = true := by
  cases v <;> simp only [FlatVal] at h <;> rfl

theorem modelledList_flat : ∀ (xs : List GoVal), (∀ x ∈ xs, FlatVal x) →
    GoVal.modelledList xs = true
  | [], _ => by simp only [GoVal.modelledList]
  | x :: xs, h => by
    simp only [GoVal.modelledList, flat_modelled (h x (List.mem_cons_self ..)),
      modelledList_flat xs (fun y hy => h y (List.mem_cons_of_mem _ hy)), Bool.and_self]

theorem kval_modelled {v : GoVal} (h : KVal v) : v.modelled = true := by
  rcases h.cases with h | rfl | ⟨xs, rfl, h1, _⟩
  · exact flat_modelled h
  · rfl
  · simp only [GoVal.modelled, modelledList_flat xs h1]

theorem modelledPairs_k : ∀ (g : GoMap), KMap g → GoVal.modelledPairs g = true
  | [], _ => by simp only [GoVal.modelledPairs]
  | (a, b) :: r, h => by
    have := h (a, b) (List.mem_cons_self ..)
    simp only [GoVal.modelledPairs, flat_modelled this.1.flatVal, kval_modelled this.2,
      modelledPairs_k r h.tail, Bool.and_self]

theorem marshalAny_k {m : GoMap} (hf : KMap m) : marshalAny (.map m) = .ok (kMapWire m).bytes := by
  have : (GoVal.map m).modelled = true := by simp only [GoVal.modelled, modelledPairs_k m hf]
  simp only [marshalAny, this, Bool.not_true, Bool.false_eq_true, if_false, encodeAny_map_k encCfg hf]

/-- the bytes `Key.MarshalCBOR` returns are those of the wire map `kMapWire` of `marshalMap` -/
theorem marshal_bytes {k : Key} (hk : KeyFlat k) (b : Bytes) :
    k.marshal = .ok b ↔ ∃ m, k.marshalMap = some m ∧ b = (kMapWire m).bytes := by
  unfold Key.marshal
  cases hm : k.marshalMap with
  | none => simp
  | some m =>
    simp only [marshalAny_k (marshalMap_inv hk hm).1.kmap, Out.ok.injEq, Option.some.injEq,
      exists_eq_left']
    exact eq_comm

theorem unmarshal_bytes {m : GoMap} (hf : KMap m) (hok : LabelsOK m) (hlen : m.length ≤ maxElems) :
    Key.unmarshal (kMapWire m).bytes = Key.ofMap ((sortEntries m).map kNormEntry) := by
  obtain ⟨_, hp, hd⟩ := kmap_roundtrip encCfg hf hok hlen
  have htag := isTagByte_of_parse_map (hp true)
  have hscan : ensureUntaggedHeaderLabels (kMapWire m).bytes none = true :=
    ensureUntagged_of_parse_false none (hp false)
  simp only [Key.unmarshal, htag, hscan, Bool.false_eq_true, if_false, Bool.not_true, hp true, hd]

end KeyRT

/-! ## C14 — the COSE_Key wire round trip -/

namespace C14
open KeyRT RoundTrip

/-- `wireParam` spelt out for a parameter label: the parameter of `k` itself — x / y of an EC2 key
    left-padded — as the decoder types it, the curve retyped -/
theorem wireParam_eq (k : Key) (l : GoVal) (hc : ¬ isCommon l) :
    wireParam k l =
      (if k.kty = 2 ∧ ((lbl (-2)).keyEq l = true ∨ (lbl (-3)).keyEq l = true)
        then (k.params.lookup l).map (padVal (curveSize k.crv)) else k.params.lookup l).map
        (fun v => retypeVal k.kty l (kNorm v)) := by
  have eta : ∀ o : Option GoVal, (match o with | some v => some v | none => none) = o := by
    intro o; cases o <;> rfl
  unfold wireParam wireLookup
  simp only [baseMap_lookup_other k l hc, eta]

/-- 1. MAIN: for a key of the flat data model whose parameters avoid the labels of the common
    fields and which `validate` accepts, `UnmarshalCBOR(MarshalCBOR(k))` succeeds and returns the
    same kty, kid, alg, key_ops and Base IV (exactly — no nil/empty normalisation occurs in the
    model) and, under every parameter label, the value `wireParam k l`: the parameter of `k` as
    the generic decoder types it, the EC2 coordinates x / y left-padded to the curve size, the
    curve of EC2 / OKP keys retyped to `Curve`. -/
theorem key_marshal_unmarshal (k : Key) (hk : KeyFlat k) (hs : KeySize k) (hd : ParamsDisjoint k)
    (hnn : NoNilCoords k)
    (hv : k.validate .none = none) (b : Bytes) (hb : k.marshal = .ok b) :
    ∃ k', Key.unmarshal b = .ok k' ∧
      k'.kty = k.kty ∧ k'.id = k.id ∧ k'.alg = k.alg ∧ k'.ops = k.ops ∧ k'.baseIV = k.baseIV ∧
      (∀ l, normalizeLabel l = some l → ¬ isCommon l → k'.params.lookup l = wireParam k l) ∧
      (∀ l, isCommon l → k'.params.lookup l = none) ∧
      (∀ n : Int, int64Range n → n < 0 → k'.pbytes n = wirePbytes k n) ∧
      (k.kty = 1 ∨ k.kty = 2 → k'.crv = k.crv) ∧
      k'.validate .none = none ∧ KeyFlat k' ∧ k'.params.length ≤ k.params.length + 5 := by
  obtain ⟨m, hm, rfl⟩ := (marshal_bytes hk b).mp hb
  obtain ⟨hkm, hok, hlen⟩ := marshalMap_inv hk hm
  obtain ⟨k', h0, h1, h2, h3, h4, h5, _, h7, h8, h9, h10, h11, h12⟩ :=
    key_roundtrip_core k hk hd hnn hv m hm
  refine ⟨k', ?_, h1, h2, h3, h4, h5, h7, h8, h9, h10, (C15.ofMap_inv _ k' h0).2.1, h11, h12⟩
  rw [unmarshal_bytes hkm.kmap hok (Nat.le_trans hlen hs)]
  exact h0

/-- 1'. the same, for one parameter that is not an EC2 coordinate: it comes back under its label
    as the decoder types it (curve retyped) -/
theorem key_param_roundtrip (k : Key) (hk : KeyFlat k) (hs : KeySize k) (hd : ParamsDisjoint k)
    (hnn : NoNilCoords k)
    (hv : k.validate .none = none) (b : Bytes) (hb : k.marshal = .ok b) (k' : Key)
    (hu : Key.unmarshal b = .ok k') (l v : GoVal) (hm : (l, v) ∈ k.params)
    (hxy : k.kty = 2 → l ≠ lbl (-2) ∧ l ≠ lbl (-3)) :
    k'.params.lookup l = some (retypeVal k.kty l (kNorm v)) := by
  obtain ⟨k'', hu', _, _, _, _, _, hplk, _⟩ := key_marshal_unmarshal k hk hs hd hnn hv b hb
  rw [hu] at hu'
  cases hu'
  have hl := (hk.params _ hm).1.normalize
  have hokp : LabelsOK k.params := by
    obtain ⟨m, hmm, _⟩ := (marshal_bytes hk b).mp hb
    rw [marshalMap_eq] at hmm
    cases hgo : Key.marshalMap.go k.params [] (baseMap k) with
    | none => rw [hgo] at hmm; cases hmm
    | some m0 =>
      refine ⟨fun e he => by rw [hk.params.normal e he]; simp, ?_⟩
      exact go_distinct k.params [] (baseMap k) m0 hgo
  have hlk : k.params.lookup l = some v := (lookup_iff_mem hokp hk.params.normal v).mpr hm
  have hc : ¬ isCommon l := by
    intro hc
    obtain ⟨h1, h2, h3, h4, h5⟩ := hd
    rcases hc with h | h | h | h | h <;> subst h <;> simp_all
  rw [hplk l hl hc, wireParam_eq k l hc, if_neg, hlk]
  · rfl
  · intro ⟨h2, h⟩
    obtain ⟨n2, n3⟩ := hxy h2
    rcases h with h | h
    · exact n2 ((lbl_keyEq_iff _ l).mp h)
    · exact n3 ((lbl_keyEq_iff _ l).mp h)

/-! ### keys built from Go keys -/

theorem ecParams_disjoint (c : Int) (x y : Nat) (d : Option Nat) (i : Int) (hi : 1 ≤ i) :
    (ecParams c x y d).lookup (lbl i) = none := by
  have h1 : (-1 : Int) ≠ i := by omega
  have h2 : (-2 : Int) ≠ i := by omega
  have h3 : (-3 : Int) ≠ i := by omega
  have h4 : (-4 : Int) ≠ i := by omega
  cases d <;> simp [ecParams, lookup_cons, keyEq_lbl_lbl, lookup_nil, h1, h2, h3, h4]

/-- every key `NewKeyEC2` returns lies in the flat data model -/
theorem keyFromEC_flat (bits x y : Nat) (d : Option Nat) (k : Key)
    (hk : keyFromEC bits x y d = .ok k) : KeyFlat k ∧ KeySize k ∧ ParamsDisjoint k := by
  obtain ⟨hc, hkeq, hv, hxlt, hylt⟩ := keyFromEC_inv bits x y d k hk
  have hlx := (ec2Coordinate_length_le_iff _ _).mpr hxlt
  have hly := (ec2Coordinate_length_le_iff _ _).mpr hylt
  have hl := ecParams_lookups (curveOfBits bits) x y d
  have hpar : k.params = ecParams (curveOfBits bits) x y d := by rw [hkeq]
  have h2 : k.kty = 2 := by rw [hkeq]
  rw [← hpar] at hl
  have hcrv := crv_of_lookup k _ hl.1
  have hsz : curveSize k.crv > 0 := by
    rw [hcrv]; rcases hc with h | h | h <;> rw [h] <;> decide
  obtain ⟨_, _, _, _, _, hlen⟩ := C15.validate_ec2 k .none hv h2
  obtain ⟨_, _, hld⟩ := hlen hsz
  have h66 := curveSize_le k.crv
  have h66' := curveSize_le (curveOfBits bits)
  have hcr : int64Range (curveOfBits bits) := by
    rcases hc with h | h | h <;> rw [h] <;> decide
  have hpm : KeyMap (ecParams (curveOfBits bits) x y d) := by
    have e1 : KeyLabel (lbl (-1)) ∧ KVal (.crv (curveOfBits bits)) := ⟨keyLabel_lbl _ (by decide), hcr⟩
    have e2 : KeyLabel (lbl (-2)) ∧ KVal (.bytes (ec2Coordinate x (curveSize (curveOfBits bits)))) :=
      ⟨keyLabel_lbl _ (by decide), by simp only [KVal]; omega⟩
    have e3 : KeyLabel (lbl (-3)) ∧ KVal (.bytes (ec2Coordinate y (curveSize (curveOfBits bits)))) :=
      ⟨keyLabel_lbl _ (by decide), by simp only [KVal]; omega⟩
    intro e he
    cases d with
    | none =>
      simp only [ecParams, List.mem_cons, List.not_mem_nil, or_false] at he
      rcases he with rfl | rfl | rfl
      · exact e1
      · exact e2
      · exact e3
    | some dv =>
      have hd4 := pbytes_of_lookup k _ _ (hl.2.2.2 dv rfl)
      rw [hd4] at hld
      simp only [ecParams, List.cons_append, List.nil_append, List.mem_cons, List.not_mem_nil,
        or_false] at he
      rcases he with rfl | rfl | rfl | rfl
      · exact e1
      · exact e2
      · exact e3
      · exact ⟨keyLabel_lbl _ (by decide), by simp only [KVal]; omega⟩
  have hsize : (ecParams (curveOfBits bits) x y d).length + 5 ≤ maxElems := by
    cases d <;> simp [ecParams, maxElems]
  refine ⟨?_, by rw [hkeq]; exact hsize, ?_⟩
  · rw [hkeq]
    refine { kty := ?_, alg := ?_, id := ?_, ops := ?_, baseIV := ?_, params := hpm }
    · show int64Range 2
      decide
    · show int64Range (if curveOfBits bits = 1 then -7 else if curveOfBits bits = 2 then -35 else -36)
      rcases hc with h | h | h <;> rw [h] <;> decide
    · intro b hb; cases hb
    · intro l hl; cases hl
    · intro b hb; cases hb
  · rw [hkeq]
    exact ⟨ecParams_disjoint _ _ _ _ 1 (by decide), ecParams_disjoint _ _ _ _ 2 (by decide),
      ecParams_disjoint _ _ _ _ 3 (by decide), ecParams_disjoint _ _ _ _ 4 (by decide),
      ecParams_disjoint _ _ _ _ 5 (by decide)⟩

theorem marshal_of_marshalMap {k : Key} (hk : KeyFlat k) {m : GoMap} (hm : k.marshalMap = some m) :
    k.marshal = .ok (kMapWire m).bytes :=
  (marshal_bytes hk _).mpr ⟨m, hm, rfl⟩

/-- 2. an EC2 key built from a Go key (`NewKeyEC2` via `NewKeyFromPublic/Private`) survives
    `MarshalCBOR` / `UnmarshalCBOR`: same kty, alg and curve, the coordinates read back are the
    numbers put in, and x and y are stored at exactly the curve's byte size — for EVERY key the
    constructor accepts, a zero coordinate included (no `0 < x`, `0 < y` hypotheses): the re-parsed
    x and y are `FillBytes` of the coordinates — those of the in-memory key (`X.Bytes()`, or
    `curveSize` zero octets for 0) left-padded to the curve size by `MarshalCBOR`. -/
theorem ec2_key_wire_roundtrip (bits x y : Nat) (d : Option Nat) (k : Key)
    (hk : keyFromEC bits x y d = .ok k) :
    ∃ b k', k.marshal = .ok b ∧ Key.unmarshal b = .ok k' ∧
      k'.kty = 2 ∧ k'.alg = k.alg ∧ k'.id = none ∧ k'.ops = none ∧ k'.baseIV = none ∧
      k'.crv = curveOfBits bits ∧
      k'.ecCoords = (x, y, d.getD 0) ∧
      k'.pbytes (-2) = fillBytes (curveSize (curveOfBits bits)) x ∧
      k'.pbytes (-3) = fillBytes (curveSize (curveOfBits bits)) y ∧
      k'.pbytes (-4) = (d.map natBytes).getD [] ∧
      (k'.pbytes (-2)).length = curveSize (curveOfBits bits) ∧
      (k'.pbytes (-3)).length = curveSize (curveOfBits bits) ∧
      k'.pbytes (-2) = leftPad (curveSize (curveOfBits bits)) (k.pbytes (-2)) ∧
      k'.pbytes (-3) = leftPad (curveSize (curveOfBits bits)) (k.pbytes (-3)) ∧
      k'.validate .none = none ∧
      (∀ op, k'.validate op = k.validate op) := by
  obtain ⟨hflat, hsize, hdis⟩ := keyFromEC_flat bits x y d k hk
  obtain ⟨hc, hkeq, hv, hxlt, hylt⟩ := keyFromEC_inv bits x y d k hk
  obtain ⟨hcrv, hpx, hpy, hpd⟩ := keyFromEC_pbytes bits x y d k hk
  have hpar : k.params = ecParams (curveOfBits bits) x y d := by rw [hkeq]
  have h2 : k.kty = 2 := by rw [hkeq]
  obtain ⟨m, hm⟩ := keyFromEC_marshal_some bits x y d k hk
  have hb := marshal_of_marshalMap hflat hm
  have hnn : NoNilCoords k := by
    apply noNilCoords_of_vals
    rw [hpar]
    intro e he
    cases d <;> simp [ecParams] at he <;> rcases he with rfl | rfl | rfl | rfl <;> simp
  obtain ⟨k', hu, e1, e2, e3, e4, e5, hplk, _, hpb, hcr, hv', _, _⟩ :=
    key_marshal_unmarshal k hflat hsize hdis hnn hv _ hb
  have q2 : k'.pbytes (-2) = fillBytes (curveSize (curveOfBits bits)) x := by
    rw [hpb (-2) (by decide) (by decide), wirePbytes, if_pos ⟨h2, Or.inl rfl⟩, hpx, hcrv,
      leftPad_ec2Coordinate _ _ hxlt]
  have q3 : k'.pbytes (-3) = fillBytes (curveSize (curveOfBits bits)) y := by
    rw [hpb (-3) (by decide) (by decide), wirePbytes, if_pos ⟨h2, Or.inr rfl⟩, hpy, hcrv,
      leftPad_ec2Coordinate _ _ hylt]
  have q4 : k'.pbytes (-4) = (d.map natBytes).getD [] := by
    rw [hpb (-4) (by decide) (by decide), wirePbytes, if_neg (fun h => by have := h.2; omega)]
    cases d with
    | some dv => exact hpd dv rfl
    | none =>
      rw [pbytes_eq, hpar]
      simp [ecParams, lookup_cons, keyEq_lbl_lbl, lookup_nil, optBytes]
  refine ⟨_, k', hb, hu, by rw [e1, h2], e3, by rw [e2, hkeq], by rw [e4, hkeq], by rw [e5, hkeq],
    by rw [hcr (Or.inr h2), hcrv], ?_, q2, q3, q4, by rw [q2, fillBytes_length],
    by rw [q3, fillBytes_length], by rw [q2, hpx, leftPad_ec2Coordinate _ _ hxlt],
    by rw [q3, hpy, leftPad_ec2Coordinate _ _ hylt], hv', ?_⟩
  · unfold Key.ecCoords
    rw [q2, q3, q4, os2ip_fillBytes _ _ hxlt, os2ip_fillBytes _ _ hylt]
    cases d with
    | none => rfl
    | some dv => simp only [Option.map_some, Option.getD_some, os2ip_natBytes]
  · intro op
    have hplk' : ∀ n : Int, -4 ≤ n → n < -1 → k'.params.lookup (lbl n) = wireParam k (lbl n) :=
      fun n h1 h0 => hplk (lbl n) (keyLabel_lbl n (by unfold int64Range; omega)).normalize
        (not_common_neg n (by omega))
    exact validate_transfer k k' op e1 e3 (fun _ => hcr (Or.inr h2))
      (fun n h1 h0 => hpb n (by unfold int64Range; omega) h0)
      (fun h12 n h1 h0 b => paramIsBstr_wire k k' n h0 b (hnn h12 n h1 h0) (hplk' n h1 h0))

/-- 2a. converting back: `PublicKey()` succeeds on every EC2 key built from a Go key, both on the
    in-memory key and on the key re-parsed from its serialisation — whatever the coordinates.  In
    particular neither fails with `ErrEC2NoPub`. -/
theorem ec2_key_wire_publicKey (bits x y : Nat) (d : Option Nat) (k : Key)
    (hk : keyFromEC bits x y d = .ok k) (b : Bytes) (hb : k.marshal = .ok b) (k' : Key)
    (hu : Key.unmarshal b = .ok k') :
    k.publicKey = none ∧ k'.validate .verify = none ∧ k'.publicKey = none := by
  obtain ⟨hc, _, _, _, _⟩ := keyFromEC_inv bits x y d k hk
  obtain ⟨hver, hpub⟩ := keyFromEC_publicKey bits x y d k hk
  obtain ⟨b0, k0, hb0, hu0, h2, _, _, _, _, hcrv, _, _, _, _, _, _, _, _, _, hval⟩ :=
    ec2_key_wire_roundtrip bits x y d k hk
  rw [hb] at hb0
  cases hb0
  rw [hu] at hu0
  cases hu0
  have hv' : k'.validate .verify = none := by rw [hval, hver]
  exact ⟨hpub, hv', publicKey_of_ec2 k' h2 (by rw [hcrv]; exact hc) hv'⟩

/-- 2b. NON-VACUITY, and the repaired defect end to end: the P-256 key with x = 0 (y = 1; the
    model's `validate`, like go-cose's, does not check the curve equation).  The constructor
    accepts it and holds x as 32 zero octets; `MarshalCBOR` succeeds; `UnmarshalCBOR` accepts the
    bytes; the re-parsed x is again 32 zero octets and y has 32 octets; the coordinates read back
    are (0, 1); and `PublicKey()` returns no error — before the repair x was the EMPTY string
    (`big.Int.Bytes()` of 0) and the conversion back failed with `ErrEC2NoPub`. -/
theorem ec2_zero_coordinate_roundtrip :
    ∃ k b k', keyFromEC 256 0 1 none = .ok k ∧
      k.pbytes (-2) = List.replicate 32 0 ∧
      k.marshal = .ok b ∧ Key.unmarshal b = .ok k' ∧
      k'.pbytes (-2) = List.replicate 32 0 ∧ (k'.pbytes (-3)).length = 32 ∧
      k'.ecCoords = (0, 1, 0) ∧
      k.publicKey = none ∧
      k'.validate .verify = none ∧ k'.publicKey = none ∧ k'.publicKey ≠ some .ec2NoPub := by
  have hk := keyFromEC_ok 256 0 1 none (by decide) (by decide) (by decide) (by intro dv h; cases h)
  obtain ⟨b, k', hb, hu, _, _, _, _, _, _, hco, q2, _, _, _, l3, _, _, _, _⟩ :=
    ec2_key_wire_roundtrip 256 0 1 none _ hk
  obtain ⟨_, hx0, _, _⟩ := keyFromEC_pbytes 256 0 1 none _ hk
  obtain ⟨p0, pv, p1⟩ := ec2_key_wire_publicKey 256 0 1 none _ hk b hb k' hu
  have e32 : curveSize (curveOfBits 256) = 32 := by decide
  rw [e32] at q2 l3
  rw [fillBytes_zero] at q2
  refine ⟨_, b, k', hk, ?_, hb, hu, q2, l3, hco, p0, pv, p1, ?_⟩
  · rw [hx0, e32, ec2Coordinate_zero]
  · rw [p1]; intro h; cases h

/-- the parameter list `NewKeyOKP` builds for Ed25519 -/
def edParams (x : Bytes) (d : Option Bytes) : GoMap :=
  let params : GoMap := [(lbl (-1), .crv 6), (lbl (-2), .bytes x)]
  match d with | some dv => params ++ [(lbl (-4), .bytes dv)] | none => params

theorem keyFromEd_inv (x : Bytes) (d : Option Bytes) (k : Key) (hk : keyFromEd x d = .ok k) :
    k = { kty := 1, alg := -8, params := edParams x d } ∧ k.validate .none = none := by
  unfold keyFromEd at hk
  simp only [] at hk
  split at hk
  · cases hk
  · rename_i hv
    cases hk
    exact ⟨rfl, hv⟩

theorem edParams_lookups (x : Bytes) (d : Option Bytes) :
    (edParams x d).lookup (lbl (-1)) = some (.crv 6) ∧
    (edParams x d).lookup (lbl (-2)) = some (.bytes x) ∧
    (edParams x d).lookup (lbl (-4)) = d.map GoVal.bytes ∧
    (∀ i : Int, 1 ≤ i → (edParams x d).lookup (lbl i) = none) := by
  refine ⟨?_, ?_, ?_, ?_⟩
  · cases d <;> simp [edParams, lookup_cons, keyEq_lbl_lbl]
  · cases d <;> simp [edParams, lookup_cons, keyEq_lbl_lbl]
  · cases d <;> simp [edParams, lookup_cons, keyEq_lbl_lbl, lookup_nil]
  · intro i hi
    have h1 : (-1 : Int) ≠ i := by omega
    have h2 : (-2 : Int) ≠ i := by omega
    have h4 : (-4 : Int) ≠ i := by omega
    cases d <;> simp [edParams, lookup_cons, keyEq_lbl_lbl, lookup_nil, h1, h2, h4]

theorem edParams_labelsOK (x : Bytes) (d : Option Bytes) : LabelsOK (edParams x d) := by
  have e1 := normalizeLabel_lbl_small (-1) (by decide) (by decide)
  have e2 := normalizeLabel_lbl_small (-2) (by decide) (by decide)
  have e4 := normalizeLabel_lbl_small (-4) (by decide) (by decide)
  simp only [lbl] at e1 e2 e4
  rw [labelsOK_iff_normLabels]
  unfold edParams normLabels
  cases d <;> simp [e1, e2, e4, lbl]

/-- 2'. an Ed25519 key built from a Go key survives `MarshalCBOR` / `UnmarshalCBOR`: same kty,
    alg, curve, and the same x and d byte strings. -/
theorem okp_key_wire_roundtrip (x : Bytes) (d : Option Bytes) (k : Key)
    (hk : keyFromEd x d = .ok k) :
    ∃ b k', k.marshal = .ok b ∧ Key.unmarshal b = .ok k' ∧
      k'.kty = 1 ∧ k'.alg = -8 ∧ k'.id = none ∧ k'.ops = none ∧ k'.baseIV = none ∧
      k'.crv = 6 ∧ k'.pbytes (-2) = x ∧ k'.pbytes (-4) = d.getD [] ∧
      k'.deriveAlgorithm = some (-8) ∧ k'.validate .none = none := by
  obtain ⟨hkeq, hv⟩ := keyFromEd_inv x d k hk
  obtain ⟨l1, l2, l4, ldis⟩ := edParams_lookups x d
  have hpar : k.params = edParams x d := by rw [hkeq]
  have h1 : k.kty = 1 := by rw [hkeq]
  rw [← hpar] at l1 l2 l4 ldis
  have hcrv := crv_of_lookup k _ l1
  have hpx := pbytes_of_lookup k _ _ l2
  have hpd : k.pbytes (-4) = d.getD [] := by
    rw [pbytes_eq, l4]; cases d <;> rfl
  obtain ⟨_, _, _, _, hx32, hd32⟩ := C15.validate_okp k .none hv h1
  rw [hpx] at hx32
  rw [hpd] at hd32
  have hpm : KeyMap (edParams x d) := by
    have e1 : KeyLabel (lbl (-1)) ∧ KVal (.crv 6) :=
      ⟨keyLabel_lbl _ (by decide), show int64Range 6 by decide⟩
    have e2 : KeyLabel (lbl (-2)) ∧ KVal (.bytes x) :=
      ⟨keyLabel_lbl _ (by decide), by simp only [KVal]; omega⟩
    intro e he
    cases d with
    | none =>
      simp only [edParams, List.mem_cons, List.not_mem_nil, or_false] at he
      rcases he with rfl | rfl
      · exact e1
      · exact e2
    | some dv =>
      simp only [Option.getD_some] at hd32
      simp only [edParams, List.cons_append, List.nil_append, List.mem_cons, List.not_mem_nil,
        or_false] at he
      rcases he with rfl | rfl | rfl
      · exact e1
      · exact e2
      · exact ⟨keyLabel_lbl _ (by decide), by simp only [KVal]; omega⟩
  have hflat : KeyFlat k := by
    rw [hkeq]
    refine { kty := ?_, alg := ?_, id := ?_, ops := ?_, baseIV := ?_, params := hpm }
    · show int64Range 1
      decide
    · show int64Range (-8)
      decide
    · intro b hb; cases hb
    · intro l hl; cases hl
    · intro b hb; cases hb
  have hsize : KeySize k := by
    rw [hkeq]
    show (edParams x d).length + 5 ≤ maxElems
    cases d <;> simp [edParams, maxElems]
  have hdis : ParamsDisjoint k :=
    ⟨ldis 1 (by decide), ldis 2 (by decide), ldis 3 (by decide), ldis 4 (by decide),
      ldis 5 (by decide)⟩
  obtain ⟨m, hm⟩ := marshalMap_some k hflat.params.normal (by rw [hpar]; exact edParams_labelsOK x d)
  have hb := marshal_of_marshalMap hflat hm
  have hnn : NoNilCoords k := by
    apply noNilCoords_of_vals
    rw [hpar]
    intro e he
    cases d <;> simp [edParams] at he <;> rcases he with rfl | rfl | rfl <;> simp
  obtain ⟨k', hu, e1, e2, e3, e4, e5, _, _, hpb, hcr, hv', _, _⟩ :=
    key_marshal_unmarshal k hflat hsize hdis hnn hv _ hb
  have hne : ¬ (k.kty = 2 ∧ ((-2 : Int) = -2 ∨ (-2 : Int) = -3)) := fun h => by
    rw [h1] at h; exact absurd h.1 (by decide)
  have hne4 : ¬ (k.kty = 2 ∧ ((-4 : Int) = -2 ∨ (-4 : Int) = -3)) := fun h => by
    rw [h1] at h; exact absurd h.1 (by decide)
  have hc6 : k'.crv = 6 := by rw [hcr (Or.inl h1), hcrv]
  have hk1 : k'.kty = 1 := by rw [e1, h1]
  refine ⟨_, k', hb, hu, hk1, by rw [e3, hkeq], by rw [e2, hkeq], by rw [e4, hkeq],
    by rw [e5, hkeq], hc6, ?_, ?_, ?_, hv'⟩
  · rw [hpb (-2) (by decide) (by decide), wirePbytes, if_neg hne, hpx]
  · rw [hpb (-4) (by decide) (by decide), wirePbytes, if_neg hne4, hpd]
  · unfold Key.deriveAlgorithm
    rw [hk1, hc6]
    decide

end C14

/-! ## G. decode → encode → decode → encode -/

namespace KeyRT
open RoundTrip

theorem normVal_idem (v : GoVal) : normVal (normVal v) = normVal v := by
  cases v <;> rfl

theorem kNorm_idem (v : GoVal) : kNorm (kNorm v) = kNorm v := by
  cases v <;> try rfl
  case arr xs =>
    simp only [kNorm, List.map_map]
    congr 1
    apply List.map_congr_left
    intro x _
    exact normVal_idem x

/-- retyping the curve is invisible to the encoder -/
theorem kNorm_retype_norm (kty : Int) (l v : GoVal) :
    kNorm (retypeVal kty l (kNorm v)) = kNorm v := by
  unfold retypeVal
  split
  · cases v <;> try exact kNorm_idem _
    all_goals rfl
  · exact kNorm_idem v

theorem leftPad_idem (s : Nat) (b : Bytes) : leftPad s (leftPad s b) = leftPad s b := by
  generalize hc' : leftPad s b = c
  have hl : c.length = if 0 < b.length ∧ b.length < s then s else b.length := by
    rw [← hc']; exact leftPad_length s b
  by_cases hc : 0 < b.length ∧ b.length < s
  · rw [if_pos hc] at hl
    unfold leftPad
    rw [if_neg (by omega)]
  · have hcb : c = b := by rw [← hc']; unfold leftPad; rw [if_neg hc]
    subst hcb
    unfold leftPad
    rw [if_neg hc]

/-- what `Key.UnmarshalCBOR` establishes: the parameters are the remaining entries, retyped -/
theorem ofMap_params (tmp : GoMap) (k : Key) (h : Key.ofMap tmp = .ok k) :
    keyParams k.kty (erase5 tmp) = some k.params ∧
    tmp.lookup (lbl 1) = some (.int .i64 k.kty) := by
  unfold Key.ofMap at h
  split at h
  · rename_i kty hl
    by_cases hz : kty = 0
    · simp [hz] at h
    · simp only [hz, if_false] at h
      split at h <;> try (cases h)
      split at h
      · cases h
      · rename_i params hp
        split at h
        · cases h
        · cases h
          exact ⟨hp, hl⟩
  · cases h

theorem keyParams_inv (kty : Int) : ∀ (r p : GoMap), keyParams kty r = some p →
    p = r.map (retypeEntry kty)
  | [], p, h => by
    simp only [keyParams] at h
    cases h
    rfl
  | (k, v) :: r, p, h => by
    unfold keyParams at h
    split at h
    · cases h
    · rename_i rest hr
      have ih := keyParams_inv kty r rest hr
      split at h
      · rename_i l
        split at h
        · rename_i hc
          split at h
          · cases h
            have hk : (lbl (-1)).keyEq (.int .i64 l) = true := by rw [hc.2]; rfl
            simp only [List.map_cons, retypeEntry, retypeVal, hc.1, hk, and_self, if_true, ih]
          · cases h
        · rename_i hc
          cases h
          have hk : ¬ ((kty = 2 ∨ kty = 1) ∧ (lbl (-1)).keyEq (.int .i64 l) = true) := by
            intro hh
            apply hc
            refine ⟨hh.1, ?_⟩
            have := (lbl_keyEq_iff (-1) _).mp hh.2
            simp only [lbl, GoVal.int.injEq, true_and] at this
            exact this
          simp only [List.map_cons, retypeEntry, retypeVal, hk, if_false, ih]
      · rename_i s
        cases h
        simp only [List.map_cons, retypeEntry, retypeVal, lbl, GoVal.keyEq, Bool.false_eq_true,
          and_false, if_false, ih]
      · cases h

/-- an accepted COSE_Key was decoded from a map item -/
theorem unmarshal_inv (b : Bytes) (k : Key) (h : Key.unmarshal b = .ok k) :
    ∃ w kvs tmp, parseTop true b = some (.map w kvs) ∧ decodePairs kvs [] = .ok tmp ∧
      Key.ofMap tmp = .ok k := by
  unfold Key.unmarshal at h
  split at h
  · cases h
  split at h
  · cases h
  · rename_i w kvs hp
    split at h
    · cases h
    split at h
    · rename_i tmp hd
      exact ⟨w, kvs, tmp, hp, hd, h⟩
    · cases h
    · cases h
    · cases h
  · cases h

/-- the generic decoder refuses duplicate keys: the decoded entries are pairwise different -/
theorem decodePairs_pairwise : ∀ (kvs : List (Wire × Wire)) (acc tmp : GoMap),
    decodePairs kvs acc = .ok tmp → acc.Pairwise (fun a b => b.1.keyEq a.1 = false) →
    tmp.Pairwise (fun a b => a.1.keyEq b.1 = false)
  | [], acc, tmp, h, hp => by
    simp only [decodePairs, Out.ok.injEq] at h
    rw [← h, List.pairwise_reverse]
    exact hp
  | (k, v) :: r, acc, tmp, h, hp => by
    unfold decodePairs at h
    split at h
    · rename_i key hk
      split at h
      · cases h
      · cases h
      · split at h
        · cases h
        · split at h
          · rename_i value hv
            split at h
            · cases h
            · rename_i hany
              apply decodePairs_pairwise r _ tmp h
              rw [List.pairwise_cons]
              refine ⟨?_, hp⟩
              intro e he
              cases hq : e.1.keyEq key with
              | false => rfl
              | true => exact absurd (List.any_eq_true.mpr ⟨e, he, hq⟩) hany
          · cases h
          · cases h
          · cases h
    · cases h
    · cases h
    · cases h

theorem labelsOK_of_keyMap_pairwise {g : GoMap} (hn : ∀ e ∈ g, normalizeLabel e.1 = some e.1)
    (hp : g.Pairwise (fun a b => a.1.keyEq b.1 = false)) : LabelsOK g := by
  refine ⟨fun e he => by rw [hn e he]; simp, ?_⟩
  have hp' : g.Pairwise (fun a b => a ∈ g ∧ b ∈ g ∧ a.1.keyEq b.1 = false) := by
    rw [List.pairwise_iff_forall_sublist] at hp ⊢
    intro a b hs
    exact ⟨hs.subset (List.mem_cons_self ..),
      hs.subset (List.mem_cons_of_mem _ (List.mem_cons_self ..)), hp hs⟩
  refine hp'.imp ?_
  intro a b ⟨ha, hb, hab⟩ x y hx hy
  rw [hn a ha] at hx
  rw [hn b hb] at hy
  cases hx; cases hy
  exact hab

theorem retype_keys (kty : Int) (g : GoMap) :
    (g.map (retypeEntry kty)).map Prod.fst = g.map Prod.fst := by
  rw [List.map_map]
  rfl

theorem pairwise_keys {g g' : GoMap} (h : g'.map Prod.fst = g.map Prod.fst)
    (hp : g.Pairwise (fun a b => a.1.keyEq b.1 = false)) :
    g'.Pairwise (fun a b => a.1.keyEq b.1 = false) := by
  have h1 : (g.map Prod.fst).Pairwise (fun a b => a.keyEq b = false) := by
    rw [List.pairwise_map]; exact hp
  rw [← h, List.pairwise_map] at h1
  exact h1

theorem erase5_pairwise {g : GoMap} (hp : g.Pairwise (fun a b => a.1.keyEq b.1 = false)) :
    (erase5 g).Pairwise (fun a b => a.1.keyEq b.1 = false) := by
  unfold erase5 GoMap.erase
  exact ((((hp.filter _).filter _).filter _).filter _).filter _

/-- the parameters of an accepted key carry pairwise distinct labels, none of them common -/
theorem accepted_params (b : Bytes) (k : Key) (h : Key.unmarshal b = .ok k) :
    k.params.Pairwise (fun a b => a.1.keyEq b.1 = false) ∧ ParamsDisjoint k ∧
    k.validate .none = none := by
  obtain ⟨w, kvs, tmp, _, hd, ho⟩ := unmarshal_inv b k h
  obtain ⟨hp, _⟩ := ofMap_params tmp k ho
  have hpe := keyParams_inv _ _ _ hp
  have hpw := decodePairs_pairwise kvs [] tmp hd List.Pairwise.nil
  refine ⟨?_, ?_, (C15.ofMap_inv tmp k ho).2.1⟩
  · rw [hpe]
    exact pairwise_keys (retype_keys _ _) (erase5_pairwise hpw)
  · have hc : ∀ i : Int, 1 ≤ i ∧ i ≤ 5 → k.params.lookup (lbl i) = none := by
      intro i hi
      have hcm : isCommon (lbl i) := by
        unfold isCommon
        have : i = 1 ∨ i = 2 ∨ i = 3 ∨ i = 4 ∨ i = 5 := by omega
        rcases this with rfl | rfl | rfl | rfl | rfl <;> simp
      rw [hpe, lookup_retype _ _ _ (by
        rw [C14.normalizeLabel_lbl_small i (by omega) (by omega)]; simp),
        lookup_erase5_common _ _ hcm]
      rfl
    exact ⟨hc 1 (by decide), hc 2 (by decide), hc 3 (by decide), hc 4 (by decide),
      hc 5 (by decide)⟩

/-- the generic decoder never yields a typed-nil `[]byte` (`null` decodes to an untyped nil) -/
theorem decodeAny_ne_bytesNil (w : Wire) (v : GoVal) (h : decodeAny w = .ok v) :
    v ≠ .bytesNil := by
  intro hv
  subst hv
  cases w with
  | uint _ n => unfold decodeAny at h; split at h <;> cases h
  | nint _ n => unfold decodeAny at h; split at h <;> cases h
  | bstr _ b => unfold decodeAny at h; cases h
  | tstr _ b => unfold decodeAny at h; split at h <;> cases h
  | tag _ _ _ => simp [decodeAny] at h
  | prim hw n =>
    cases hw <;> simp only [decodeAny] at h
    · repeat' split at h
      all_goals cases h
    all_goals cases h
  | arr _ xs =>
    unfold decodeAny at h
    cases hl : decodeList xs <;> simp [hl] at h
  | map _ kvs =>
    unfold decodeAny at h
    cases hl : decodePairs kvs [] <;> simp [hl] at h

theorem decodePairs_no_bytesNil : ∀ (kvs : List (Wire × Wire)) (acc out : GoMap),
    decodePairs kvs acc = .ok out → (∀ e ∈ acc, e.2 ≠ .bytesNil) → ∀ e ∈ out, e.2 ≠ .bytesNil
  | [], acc, out, h, hacc => by
    unfold decodePairs at h; cases h
    intro e he; exact hacc e (List.mem_reverse.mp he)
  | (k, v) :: r, acc, out, h, hacc => by
    unfold decodePairs at h
    cases hk : decodeAny k with
    | ok key =>
      simp only [hk] at h
      split at h
      · cases h
      · cases h
      · split at h
        · cases h
        · cases hv : decodeAny v with
          | ok value =>
            have hvm := decodeAny_ne_bytesNil v value hv
            simp only [hv] at h
            split at h
            · cases h
            · refine decodePairs_no_bytesNil r _ out h ?_
              intro e he
              rcases List.mem_cons.mp he with rfl | he
              · exact hvm
              · exact hacc e he
          | err e => simp [hv] at h
          | panic => simp [hv] at h
          | unmodelled => simp [hv] at h
    | err e => simp [hk] at h
    | panic => simp [hk] at h
    | unmodelled => simp [hk] at h

/-- no parameter of an accepted key is a typed-nil `[]byte` -/
theorem accepted_no_bytesNil (b : Bytes) (k : Key) (h : Key.unmarshal b = .ok k) :
    ∀ e ∈ k.params, e.2 ≠ .bytesNil := by
  obtain ⟨w, kvs, tmp, _, hd, ho⟩ := unmarshal_inv b k h
  obtain ⟨hp, _⟩ := ofMap_params tmp k ho
  have hpe := keyParams_inv _ _ _ hp
  have hno := decodePairs_no_bytesNil kvs [] tmp hd (by intro e he; cases he)
  intro e he
  rw [hpe] at he
  obtain ⟨e0, he0, rfl⟩ := List.mem_map.mp he
  have h0 := hno e0 (mem_erase5 he0)
  simp only [retypeEntry, retypeVal]
  split
  · split
    · intro hc; cases hc
    · exact h0
  · exact h0

theorem accepted_noNilCoords (b : Bytes) (k : Key) (h : Key.unmarshal b = .ok k) :
    NoNilCoords k := noNilCoords_of_vals (accepted_no_bytesNil b k h)

/-- two maps with normalised, pairwise distinct labels that agree on every lookup hold the same
    entries -/
theorem perm_of_lookup_eq {g g' : GoMap} (hok : LabelsOK g)
    (hn : ∀ e ∈ g, normalizeLabel e.1 = some e.1) (hok' : LabelsOK g')
    (hn' : ∀ e ∈ g', normalizeLabel e.1 = some e.1)
    (h : ∀ l, normalizeLabel l = some l → g.lookup l = g'.lookup l) : g.Perm g' := by
  have nodup : ∀ {x : GoMap}, LabelsOK x → x.Nodup := by
    intro x hx
    have hp' : x.Pairwise (fun a b => a ∈ x ∧ LabelDistinct a b) := by
      have := hx.2
      rw [List.pairwise_iff_forall_sublist] at this ⊢
      intro a b hs
      exact ⟨hs.subset (List.mem_cons_self ..), this hs⟩
    refine hp'.imp ?_
    intro a b ⟨ha, hab⟩ heq
    subst heq
    cases hna : normalizeLabel a.1 with
    | none => exact hx.1 a ha hna
    | some y =>
      have := hab y y hna hna
      rw [(keyEq_normalize_iff hna hna).mpr rfl] at this
      cases this
  rw [List.perm_ext_iff_of_nodup (nodup hok) (nodup hok')]
  intro e
  obtain ⟨l, v⟩ := e
  constructor
  · intro he
    have hl := hn _ he
    rw [← lookup_iff_mem hok' hn' v, ← h l hl]
    exact (lookup_iff_mem hok hn v).mpr he
  · intro he
    have hl := hn' _ he
    rw [← lookup_iff_mem hok hn v, h l hl]
    exact (lookup_iff_mem hok' hn' v).mpr he

theorem KMap.normEntry {h : GoMap} (hf : KMap h) : KMap (h.map kNormEntry) := by
  intro e he
  obtain ⟨e0, he0, rfl⟩ := List.mem_map.mp he
  exact ⟨flatLabel_normVal (hf e0 he0).1, kNorm_kVal (hf e0 he0).2⟩

/-- the encoder does not distinguish a map from its decoded form -/
theorem encode_kNormEntry (cfg : EncCfg) {h : GoMap} (hf : KMap h) :
    encodeAny cfg (.map (h.map kNormEntry)) = encodeAny cfg (.map h) := by
  rw [C08.encodeAny_map, C08.encodeAny_map, encodePairs_k cfg hf, encodePairs_k cfg hf.normEntry,
    List.map_map, List.length_map]
  have : (fun e => wireBytes (kEntryWire e)) ∘ kNormEntry = fun e => wireBytes (kEntryWire e) := by
    funext e
    simp only [Function.comp, kEntryWire, kNormEntry, valWire_normVal, kWire_kNorm]
  rw [this]

theorem lookup_kNormEntry {g : GoMap} (hkm : KeyMap g) (l : GoVal) :
    GoMap.lookup (g.map kNormEntry) l = (g.lookup l).map kNorm := by
  have : g.map kNormEntry = g.map (fun e => (e.1, kNorm e.2)) := by
    apply List.map_congr_left
    intro e he
    simp only [kNormEntry, (hkm e he).1.normVal_eq]
  rw [this, lookup_map_snd]

theorem labelsOK_kNormEntry {g : GoMap} (hkm : KeyMap g) (hok : LabelsOK g) :
    LabelsOK (g.map kNormEntry) := by
  have : normLabels (g.map kNormEntry) = normLabels g := by
    unfold normLabels
    rw [List.map_map]
    apply List.map_congr_left
    intro e he
    simp only [Function.comp, kNormEntry, (hkm e he).1.normVal_eq]
  rw [labelsOK_iff_normLabels, this, ← labelsOK_iff_normLabels]
  exact hok

theorem baseMap_congr (k k2 : Key) (e1 : k2.kty = k.kty) (e2 : k2.id = k.id) (e3 : k2.alg = k.alg)
    (e4 : k2.ops = k.ops) (e5 : k2.baseIV = k.baseIV) : baseMap k2 = baseMap k := by
  unfold baseMap
  rw [e1, e2, e3, e4, e5]

theorem padVal_nonbytes_norm (s : Nat) (v : GoVal) (h : ∀ b, v ≠ .bytes b) :
    padVal s (kNorm v) = kNorm v := by
  cases v <;> first | rfl | exact absurd rfl (h _)

/-- padding, decoding, retyping and padding again changes nothing the encoder can see -/
theorem pad_cycle (s : Nat) (kty : Int) (l v : GoVal) (hl : (lbl (-1)).keyEq l = false) :
    kNorm (padVal s (retypeVal kty l (kNorm (padVal s v)))) = kNorm (padVal s v) := by
  have hr : ∀ x, retypeVal kty l x = x := by
    intro x
    unfold retypeVal
    rw [if_neg (fun h => by rw [hl] at h; exact absurd h.2 (by decide))]
  rw [hr]
  by_cases hb : ∃ b, v = .bytes b
  · obtain ⟨b, rfl⟩ := hb
    simp only [padVal, kNorm, normVal, leftPad_idem]
  · have hnb : ∀ b, v ≠ .bytes b := fun b e => hb ⟨b, e⟩
    have hp : padVal s v = v := by
      cases v <;> first | rfl | exact absurd rfl (hnb _)
    rw [hp, padVal_nonbytes_norm s v hnb, kNorm_idem]

/-- after one round trip the serialised map is, up to the decoder's typing, the same -/
theorem wireLookup_roundtrip (k k2 : Key) (hd : ParamsDisjoint k)
    (e1 : k2.kty = k.kty) (e2 : k2.id = k.id) (e3 : k2.alg = k.alg) (e4 : k2.ops = k.ops)
    (e5 : k2.baseIV = k.baseIV)
    (hplk : ∀ l, normalizeLabel l = some l → ¬ isCommon l → k2.params.lookup l = wireParam k l)
    (hplc : ∀ l, isCommon l → k2.params.lookup l = none)
    (hcrv : k.kty = 1 ∨ k.kty = 2 → k2.crv = k.crv) (l : GoVal) (hl : normalizeLabel l = some l) :
    (wireLookup k2 l).map kNorm = (wireLookup k l).map kNorm := by
  by_cases hc : isCommon l
  · have hd2 : ParamsDisjoint k2 :=
      ⟨hplc _ (Or.inl rfl), hplc _ (Or.inr (Or.inl rfl)), hplc _ (Or.inr (Or.inr (Or.inl rfl))),
        hplc _ (Or.inr (Or.inr (Or.inr (Or.inl rfl)))), hplc _ (Or.inr (Or.inr (Or.inr (Or.inr rfl))))⟩
    have hi : ∃ i : Int, (1 ≤ i ∧ i ≤ 5) ∧ l = lbl i := by
      rcases hc with h | h | h | h | h
      · exact ⟨1, by decide, h⟩
      · exact ⟨2, by decide, h⟩
      · exact ⟨3, by decide, h⟩
      · exact ⟨4, by decide, h⟩
      · exact ⟨5, by decide, h⟩
    obtain ⟨i, hi, rfl⟩ := hi
    rw [wireLookup_common k2 hd2 i hi, wireLookup_common k hd i hi, baseMap_congr k k2 e1 e2 e3 e4 e5]
  · have hk2 : k2.params.lookup l = wireParam k l := hplk l hl hc
    have eta : ∀ o : Option GoVal, (match o with | some v => some v | none => none) = o := by
      intro o; cases o <;> rfl
    have w2 : wireLookup k2 l =
        if k.kty = 2 ∧ ((lbl (-2)).keyEq l = true ∨ (lbl (-3)).keyEq l = true)
          then (wireParam k l).map (padVal (curveSize k2.crv)) else wireParam k l := by
      unfold wireLookup
      simp only [hk2, baseMap_lookup_other k2 l hc, eta, e1]
    have w1 : wireLookup k l =
        if k.kty = 2 ∧ ((lbl (-2)).keyEq l = true ∨ (lbl (-3)).keyEq l = true)
          then (k.params.lookup l).map (padVal (curveSize k.crv)) else k.params.lookup l := by
      unfold wireLookup
      simp only [baseMap_lookup_other k l hc, eta]
    rw [w2]
    unfold wireParam
    rw [w1]
    by_cases hcond : k.kty = 2 ∧ ((lbl (-2)).keyEq l = true ∨ (lbl (-3)).keyEq l = true)
    · simp only [if_pos hcond, hcrv (Or.inr hcond.1)]
      have hl1 : (lbl (-1)).keyEq l = false := by
        rcases hcond.2 with h | h <;> rw [(lbl_keyEq_iff _ l).mp h] <;> simp [C14.keyEq_lbl_lbl]
      cases k.params.lookup l with
      | none => rfl
      | some v =>
        simp only [Option.map_some]
        rw [pad_cycle _ _ _ _ hl1]
    · simp only [if_neg hcond]
      cases k.params.lookup l with
      | none => rfl
      | some v =>
        simp only [Option.map_some]
        rw [kNorm_retype_norm]

/-- MAIN (fixpoint): a flat key accepted by `UnmarshalCBOR` re-encodes, the re-encoding decodes
    again, and encoding that key reproduces the same bytes -/
theorem reencode_core (b : Bytes) (k : Key) (hu : Key.unmarshal b = .ok k) (hf : KeyFlat k)
    (hs : ∀ m, k.marshalMap = some m → m.length ≤ maxElems) :
    ∃ m k2, k.marshalMap = some m ∧ k.marshal = .ok (kMapWire m).bytes ∧
      Key.unmarshal (kMapWire m).bytes = .ok k2 ∧ k2.marshal = .ok (kMapWire m).bytes ∧
      k2.kty = k.kty ∧ k2.id = k.id ∧ k2.alg = k.alg ∧ k2.ops = k.ops ∧ k2.baseIV = k.baseIV ∧
      (∀ l, normalizeLabel l = some l → ¬ isCommon l → k2.params.lookup l = wireParam k l) ∧
      (∀ l, isCommon l → k2.params.lookup l = none) ∧
      (∀ n : Int, int64Range n → n < 0 → k2.pbytes n = wirePbytes k n) ∧
      (k.kty = 1 ∨ k.kty = 2 → k2.crv = k.crv) ∧ KeyFlat k2 := by
  obtain ⟨hpw, hd, hv⟩ := accepted_params b k hu
  have hokp : LabelsOK k.params := labelsOK_of_keyMap_pairwise hf.params.normal hpw
  obtain ⟨m, hm⟩ := marshalMap_some k hf.params.normal hokp
  obtain ⟨hkm, hok, hlen⟩ := marshalMap_inv hf hm
  obtain ⟨k2, h0, e1, e2, e3, e4, e5, e6, hplk, hplc, hpb, hcrv, hf2, _⟩ :=
    key_roundtrip_core k hf hd (accepted_noNilCoords b k hu) hv m hm
  have hb := C14.marshal_of_marshalMap hf hm
  have hu2 : Key.unmarshal (kMapWire m).bytes = .ok k2 := by
    rw [unmarshal_bytes hkm.kmap hok (hs m hm)]; exact h0
  obtain ⟨hpw2, _, _⟩ := accepted_params _ k2 hu2
  have hokp2 : LabelsOK k2.params := labelsOK_of_keyMap_pairwise hf2.params.normal hpw2
  obtain ⟨m2, hm2⟩ := marshalMap_some k2 hf2.params.normal hokp2
  obtain ⟨hkm2, hok2, _⟩ := marshalMap_inv hf2 hm2
  have hperm : (m2.map kNormEntry).Perm (m.map kNormEntry) := by
    apply perm_of_lookup_eq (labelsOK_kNormEntry hkm2 hok2) (KeyMap.normEntry hkm2).normal
      (labelsOK_kNormEntry hkm hok) (KeyMap.normEntry hkm).normal
    intro l hl
    rw [lookup_kNormEntry hkm2, lookup_kNormEntry hkm, marshalMap_lookup k2 m2 hm2 hf2.params.normal,
      marshalMap_lookup k m hm hf.params.normal]
    exact wireLookup_roundtrip k k2 hd e1 e2 e3 e4 e5 hplk hplc hcrv l hl
  have henc : encodeAny encCfg (.map m2) = encodeAny encCfg (.map m) := by
    rw [← encode_kNormEntry encCfg hkm2.kmap, ← encode_kNormEntry encCfg hkm.kmap]
    exact C08.encode_map_perm_invariant encCfg _ _ hperm
      (fun ps hps => (C08.keys_nodup_of_labelsOK encCfg _ (labelsOK_kNormEntry hkm2 hok2) ps hps).1)
  have hb2 : k2.marshal = .ok (kMapWire m).bytes := by
    rw [C14.marshal_of_marshalMap hf2 hm2]
    rw [encodeAny_map_k encCfg hkm2.kmap, encodeAny_map_k encCfg hkm.kmap] at henc
    rw [Option.some.inj henc]
  exact ⟨m, k2, hm, hb, hu2, hb2, e1, e2, e3, e4, e5, hplk, hplc, hpb, hcrv, hf2⟩

end KeyRT

/-! ## H. what the decoder guarantees about an accepted key -/

namespace KeyRT
open RoundTrip

theorem fits_lt {w : HW} {n : Nat} (h : w.fits n = true) : n < 18446744073709551616 := by
  cases w <;> simp only [HW.fits, decide_eq_true_eq] at h <;> omega

/-- decoded integers are `int64` in range -/
theorem dec_int {w : Wire} {kd : IntKind} {n : Int} (h : decodeAny w = .ok (.int kd n)) :
    kd = .i64 ∧ int64Range n := by
  unfold int64Range
  cases w
  case uint hw a =>
    simp only [decodeAny] at h
    split at h
    · rename_i hle
      cases h
      unfold maxInt64 at hle
      exact ⟨rfl, by omega, by omega⟩
    · cases h
  case nint hw a =>
    simp only [decodeAny] at h
    split at h
    · rename_i hle
      cases h
      unfold maxInt64 at hle
      exact ⟨rfl, by omega, by omega⟩
    · cases h
  case bstr => simp only [decodeAny] at h; cases h
  case tstr => simp only [decodeAny] at h; split at h <;> cases h
  case tag => simp only [decodeAny] at h; cases h
  case arr => simp only [decodeAny] at h; split at h <;> cases h
  case map => simp only [decodeAny] at h; split at h <;> cases h
  case prim hw a =>
    cases hw <;> simp only [decodeAny] at h
    · split at h
      · cases h
      · split at h
        · cases h
        · split at h <;> cases h
    all_goals cases h

theorem dec_bytes {w : Wire} {b : Bytes} (h : decodeAny w = .ok (.bytes b)) (hwf : w.wf = true) :
    b.length < 18446744073709551616 := by
  cases w
  case bstr hw c =>
    simp only [decodeAny] at h
    cases h
    exact fits_lt (by simpa [Wire.wf] using hwf)
  case uint => simp only [decodeAny] at h; split at h <;> cases h
  case nint => simp only [decodeAny] at h; split at h <;> cases h
  case tstr => simp only [decodeAny] at h; split at h <;> cases h
  case tag => simp only [decodeAny] at h; cases h
  case arr => simp only [decodeAny] at h; split at h <;> cases h
  case map => simp only [decodeAny] at h; split at h <;> cases h
  case prim hw a =>
    cases hw <;> simp only [decodeAny] at h
    · split at h
      · cases h
      · split at h
        · cases h
        · split at h <;> cases h
    all_goals cases h

theorem dec_str {w : Wire} {s : Bytes} (h : decodeAny w = .ok (.str s)) (hwf : w.wf = true) :
    utf8Valid s = true ∧ s.length < 18446744073709551616 := by
  cases w
  case tstr hw c =>
    simp only [decodeAny] at h
    split at h
    · rename_i hu
      cases h
      exact ⟨hu, fits_lt (by simpa [Wire.wf] using hwf)⟩
    · cases h
  case uint => simp only [decodeAny] at h; split at h <;> cases h
  case nint => simp only [decodeAny] at h; split at h <;> cases h
  case bstr => simp only [decodeAny] at h; cases h
  case tag => simp only [decodeAny] at h; cases h
  case arr => simp only [decodeAny] at h; split at h <;> cases h
  case map => simp only [decodeAny] at h; split at h <;> cases h
  case prim hw a =>
    cases hw <;> simp only [decodeAny] at h
    · split at h
      · cases h
      · split at h
        · cases h
        · split at h <;> cases h
    all_goals cases h

theorem wfList_mem : ∀ {xs : List Wire}, Wire.wfList xs = true → ∀ x ∈ xs, x.wf = true
  | [], _, _, hx => by cases hx
  | y :: ys, h, x, hx => by
    simp only [Wire.wfList, Bool.and_eq_true] at h
    rcases List.mem_cons.mp hx with rfl | hm
    · exact h.1
    · exact wfList_mem h.2 x hm

theorem wfPairs_mem : ∀ {kvs : List (Wire × Wire)}, Wire.wfPairs kvs = true →
    ∀ p ∈ kvs, p.1.wf = true ∧ p.2.wf = true
  | [], _, _, hp => by cases hp
  | (a, b) :: r, h, p, hp => by
    simp only [Wire.wfPairs, Bool.and_eq_true] at h
    rcases List.mem_cons.mp hp with rfl | hm
    · exact ⟨h.1.1, h.1.2⟩
    · exact wfPairs_mem h.2 p hm

theorem decodeList_inv : ∀ (xs : List Wire) (l : List GoVal), decodeList xs = .ok l →
    l.length = xs.length ∧ ∀ v ∈ l, ∃ x ∈ xs, decodeAny x = .ok v
  | [], l, h => by
    simp only [decodeList, Out.ok.injEq] at h
    subst h
    exact ⟨rfl, fun v hv => by cases hv⟩
  | x :: xs, l, h => by
    unfold decodeList at h
    split at h <;> try (cases h; done)
    rename_i a bs ha hb
    cases h
    obtain ⟨ih1, ih2⟩ := decodeList_inv xs bs hb
    refine ⟨by simp [ih1], ?_⟩
    intro v hv
    rcases List.mem_cons.mp hv with rfl | hm
    · exact ⟨x, List.mem_cons_self .., ha⟩
    · obtain ⟨y, hy, hd⟩ := ih2 v hm
      exact ⟨y, List.mem_cons_of_mem _ hy, hd⟩

/-- a decoded array: as long as the array item, every element decoded from a well-formed item -/
theorem dec_arr {w : Wire} {l : List GoVal} (h : decodeAny w = .ok (.arr l)) (hwf : w.wf = true)
    (t : Bool) (d : Nat) (hlim : w.inLimits t d = true) :
    l.length ≤ maxElems ∧ ∀ v ∈ l, ∃ x, x.wf = true ∧ decodeAny x = .ok v := by
  cases w
  case arr hw xs =>
    simp only [decodeAny] at h
    split at h <;> try (cases h; done)
    rename_i l' hl
    cases h
    obtain ⟨h1, h2⟩ := decodeList_inv xs l hl
    simp only [Wire.wf, Bool.and_eq_true] at hwf
    simp only [Wire.inLimits, Bool.and_eq_true, decide_eq_true_eq] at hlim
    refine ⟨by rw [h1]; exact hlim.1.2, ?_⟩
    intro v hv
    obtain ⟨x, hx, hd⟩ := h2 v hv
    exact ⟨x, wfList_mem hwf.2 x hx, hd⟩
  case uint => simp only [decodeAny] at h; split at h <;> cases h
  case nint => simp only [decodeAny] at h; split at h <;> cases h
  case bstr => simp only [decodeAny] at h; cases h
  case tstr => simp only [decodeAny] at h; split at h <;> cases h
  case tag => simp only [decodeAny] at h; cases h
  case map => simp only [decodeAny] at h; split at h <;> cases h
  case prim hw a =>
    cases hw <;> simp only [decodeAny] at h
    · split at h
      · cases h
      · split at h
        · cases h
        · split at h <;> cases h
    all_goals cases h

/-- every decoded entry comes from a wire pair; nothing is dropped -/
theorem decodePairs_mem : ∀ (kvs : List (Wire × Wire)) (acc tmp : GoMap),
    decodePairs kvs acc = .ok tmp →
    tmp.length = acc.length + kvs.length ∧
    ∀ e ∈ tmp, e ∈ acc ∨ ∃ p ∈ kvs, decodeAny p.1 = .ok e.1 ∧ decodeAny p.2 = .ok e.2
  | [], acc, tmp, h => by
    simp only [decodePairs, Out.ok.injEq] at h
    subst h
    exact ⟨by simp, fun e he => Or.inl (List.mem_reverse.mp he)⟩
  | (k, v) :: r, acc, tmp, h => by
    unfold decodePairs at h
    split at h
    · rename_i key hk
      split at h
      · cases h
      · cases h
      · split at h
        · cases h
        · split at h
          · rename_i value hv
            split at h
            · cases h
            · obtain ⟨ih1, ih2⟩ := decodePairs_mem r _ tmp h
              refine ⟨by rw [ih1]; simp only [List.length_cons]; omega, ?_⟩
              intro e he
              rcases ih2 e he with h1 | ⟨p, hp, hd⟩
              · rcases List.mem_cons.mp h1 with rfl | h2
                · exact Or.inr ⟨(k, v), List.mem_cons_self .., hk, hv⟩
                · exact Or.inl h2
              · exact Or.inr ⟨p, List.mem_cons_of_mem _ hp, hd⟩
          · cases h
          · cases h
          · cases h
    · cases h
    · cases h
    · cases h

theorem keyOp_range (s : Bytes) (v : Int) (h : keyOpFromString s = some v) : int64Range v := by
  unfold keyOpFromString at h
  unfold int64Range
  repeat' (split at h)
  all_goals first | (cases h; omega) | cases h

theorem decodeOps_range : ∀ (l : List GoVal) (o : List Int), decodeOps l = some o →
    (∀ x ∈ l, ∀ n, x = .int .i64 n → int64Range n) →
    (∀ x ∈ o, int64Range x) ∧ o.length = l.length
  | [], o, h, _ => by
    simp only [decodeOps, Option.some.injEq] at h
    subst h
    exact ⟨fun x hx => (by cases hx), rfl⟩
  | x :: r, o, h, hr => by
    unfold decodeOps at h
    split at h
    · rename_i heq
      cases heq
    · rename_i v r' heq
      cases heq
      cases hd : decodeOps r with
      | none => rw [hd] at h; cases h
      | some o' =>
        rw [hd] at h
        simp only [Option.map_some, Option.some.injEq] at h
        subst h
        obtain ⟨ih1, ih2⟩ := decodeOps_range r o' hd (fun y hy => hr y (List.mem_cons_of_mem _ hy))
        refine ⟨?_, by simp [ih2]⟩
        intro y hy
        rcases List.mem_cons.mp hy with rfl | hm
        · exact hr _ (List.mem_cons_self ..) _ rfl
        · exact ih1 y hm
    · rename_i s r' heq
      cases heq
      split at h
      · rename_i v o' hv hd
        cases h
        obtain ⟨ih1, ih2⟩ := decodeOps_range r o' hd (fun y hy => hr y (List.mem_cons_of_mem _ hy))
        refine ⟨?_, by simp [ih2]⟩
        intro y hy
        rcases List.mem_cons.mp hy with rfl | hm
        · exact keyOp_range s _ hv
        · exact ih1 y hm
      · cases h
    · cases h

theorem paramBytes_some {tmp : GoMap} {n : Int} {b : Bytes}
    (h : (paramBytes tmp n).getD none = some b) : tmp.lookup (lbl n) = some (.bytes b) := by
  unfold paramBytes at h
  cases hl : tmp.lookup (lbl n) with
  | none => rw [hl] at h; cases h
  | some v =>
    rw [hl] at h
    cases v <;> simp only [Lk.getD] at h <;> try (cases h; done)
    case bytes c => cases h; rfl

/-- the common fields of an accepted key, read off the decoded map -/
theorem ofMap_fields (tmp : GoMap) (k : Key) (h : Key.ofMap tmp = .ok k) :
    (∀ b, k.id = some b → tmp.lookup (lbl 2) = some (.bytes b)) ∧
    (k.alg ≠ 0 → tmp.lookup (lbl 3) = some (.int .i64 k.alg)) ∧
    (∀ o, k.ops = some o → ∃ l, tmp.lookup (lbl 4) = some (.arr l) ∧ decodeOps l = some o) ∧
    (∀ b, k.baseIV = some b → tmp.lookup (lbl 5) = some (.bytes b)) := by
  unfold Key.ofMap at h
  split at h
  · rename_i kty hl
    by_cases hz : kty = 0
    · simp [hz] at h
    · simp only [hz, if_false] at h
      split at h <;> try (cases h)
      split at h
      · cases h
      · rename_i params hp
        split at h
        · cases h
        · cases h
          refine ⟨fun b hb => paramBytes_some hb, ?_, ?_, fun b hb => paramBytes_some hb⟩
          · intro ha
            simp only [] at ha ⊢
            cases h3 : tmp.lookup (lbl 3) with
            | none => rw [h3] at ha; exact absurd rfl ha
            | some v =>
              rw [h3] at ha
              cases v <;> try (exact absurd rfl ha)
              case int kd a =>
                cases kd <;> first
                  | (exact absurd rfl ha)
                  | (by_cases ha0 : a = 0
                     · simp [ha0, Lk.getD] at ha
                     · simp [ha0, Lk.getD])
          · intro o ho
            simp only [] at ho
            cases h4 : tmp.lookup (lbl 4) with
            | none => rw [h4] at ho; cases ho
            | some v =>
              rw [h4] at ho
              cases v <;> try (cases ho; done)
              case arr l =>
                refine ⟨l, rfl, ?_⟩
                simp only [] at ho
                cases hd : decodeOps l with
                | none => rw [hd] at ho; cases ho
                | some o' => rw [hd] at ho; exact ho
  · cases h

theorem inLimitsPairs_mem (t : Bool) (d : Nat) : ∀ {kvs : List (Wire × Wire)},
    Wire.inLimitsPairs t d kvs = true → ∀ p ∈ kvs, p.1.inLimits t d = true ∧ p.2.inLimits t d = true
  | [], _, _, hp => by cases hp
  | (a, b) :: r, h, p, hp => by
    simp only [Wire.inLimitsPairs, Bool.and_eq_true] at h
    rcases List.mem_cons.mp hp with rfl | hm
    · exact ⟨h.1.1, h.1.2⟩
    · exact inLimitsPairs_mem t d h.2 p hm

theorem lookup_erase5_some (tmp : GoMap) (l : GoVal) (h : (erase5 tmp).lookup l ≠ none) :
    tmp.lookup l ≠ none := by
  intro hn
  apply h
  unfold erase5
  exact lookup_erase_none _ _ _ (lookup_erase_none _ _ _ (lookup_erase_none _ _ _
    (lookup_erase_none _ _ _ (lookup_erase_none _ _ _ hn))))

theorem keys_nodup {g : GoMap} (hok : LabelsOK g) (hn : ∀ e ∈ g, normalizeLabel e.1 = some e.1) :
    (g.map Prod.fst).Nodup := by
  have hp' : g.Pairwise (fun a b => a ∈ g ∧ b ∈ g ∧ LabelDistinct a b) := by
    have := hok.2
    rw [List.pairwise_iff_forall_sublist] at this ⊢
    intro a b hs
    exact ⟨hs.subset (List.mem_cons_self ..),
      hs.subset (List.mem_cons_of_mem _ (List.mem_cons_self ..)), this hs⟩
  unfold List.Nodup
  rw [List.pairwise_map]
  refine hp'.imp ?_
  intro a b ⟨ha, hb, hab⟩ heq
  have h1 := hab a.1 b.1 (hn a ha) (hn b hb)
  rw [heq, keyEq_refl_of_normalizes (by rw [hn b hb]; simp)] at h1
  cases h1

/-- everything `KeyFlat` asks of the common fields and of the labels holds of any accepted key:
    the generic decoder only produces `int64` integers in range, valid text, and byte strings and
    arrays within the CBOR length limits.  What remains open is the shape of the parameter
    values. -/
theorem accepted_flat (b : Bytes) (k : Key) (hu : Key.unmarshal b = .ok k)
    (hvals : ∀ e ∈ k.params, KVal e.2) :
    KeyFlat k ∧ ∀ m, k.marshalMap = some m → m.length ≤ maxElems := by
  obtain ⟨w, kvs, tmp, hp, hd, ho⟩ := unmarshal_inv b k hu
  obtain ⟨_, hwf, hlim⟩ := parseTop_sound hp
  simp only [Wire.wf, Bool.and_eq_true] at hwf
  simp only [Wire.inLimits, Bool.and_eq_true, decide_eq_true_eq] at hlim
  obtain ⟨hlen_tmp, hmem⟩ := decodePairs_mem kvs [] tmp hd
  have src : ∀ e ∈ tmp, ∃ p ∈ kvs, decodeAny p.1 = .ok e.1 ∧ decodeAny p.2 = .ok e.2 ∧
      p.1.wf = true ∧ p.2.wf = true ∧ p.2.inLimits true 1 = true := by
    intro e he
    rcases hmem e he with h | ⟨p, hp, h1, h2⟩
    · cases h
    · exact ⟨p, hp, h1, h2, (wfPairs_mem hwf.2 p hp).1, (wfPairs_mem hwf.2 p hp).2,
        (inLimitsPairs_mem true 1 hlim.2 p hp).2⟩
  have vsrc : ∀ l v, tmp.lookup l = some v →
      ∃ x : Wire, decodeAny x = .ok v ∧ x.wf = true ∧ x.inLimits true 1 = true := by
    intro l v hl
    obtain ⟨e, he, _, hv⟩ := lookup_some_mem hl
    obtain ⟨p, _, _, h2, _, h4, h5⟩ := src e he
    exact ⟨p.2, by rw [h2, hv], h4, h5⟩
  obtain ⟨hpar, hkty⟩ := ofMap_params tmp k ho
  obtain ⟨fid, falg, fops, fbiv⟩ := ofMap_fields tmp k ho
  have hpe := keyParams_inv _ _ _ hpar
  have hflat : KeyFlat k := by
    refine { kty := ?_, alg := ?_, id := ?_, ops := ?_, baseIV := ?_, params := ?_ }
    · obtain ⟨x, hx, _, _⟩ := vsrc _ _ hkty
      exact (dec_int hx).2
    · by_cases ha : k.alg = 0
      · rw [ha]; decide
      · obtain ⟨x, hx, _, _⟩ := vsrc _ _ (falg ha)
        exact (dec_int hx).2
    · intro c hc
      obtain ⟨x, hx, hxw, _⟩ := vsrc _ _ (fid c hc)
      exact dec_bytes hx hxw
    · intro o ho'
      obtain ⟨l, hl, hdo⟩ := fops o ho'
      obtain ⟨x, hx, hxw, hxl⟩ := vsrc _ _ hl
      obtain ⟨h1, h2⟩ := dec_arr hx hxw true 1 hxl
      obtain ⟨r1, r2⟩ := decodeOps_range l o hdo (by
        intro y hy n hyn
        obtain ⟨z, _, hz⟩ := h2 y hy
        rw [hyn] at hz
        exact (dec_int hz).2)
      exact ⟨r1, by rw [r2]; exact h1⟩
    · intro c hc
      obtain ⟨x, hx, hxw, _⟩ := vsrc _ _ (fbiv c hc)
      exact dec_bytes hx hxw
    · intro e he
      refine ⟨?_, hvals e he⟩
      have hlab := C15.keyParams_labels k.kty _ _ hpar e he
      rw [hpe] at he
      obtain ⟨e0, he0, rfl⟩ := List.mem_map.mp he
      obtain ⟨p, _, h1, _, hw1, _, _⟩ := src e0 (mem_erase5 he0)
      simp only [retypeEntry] at hlab ⊢
      rcases hlab with ⟨n, hn⟩ | ⟨s, hs⟩
      · rw [hn] at h1 ⊢
        exact ⟨rfl, (dec_int h1).2⟩
      · rw [hs] at h1 ⊢
        exact dec_str h1 hw1
  refine ⟨hflat, ?_⟩
  intro m hm
  obtain ⟨hkm, hok, _⟩ := marshalMap_inv hflat hm
  have hsub : m.map Prod.fst ⊆ tmp.map Prod.fst := by
    intro l hl
    obtain ⟨e, he, rfl⟩ := List.mem_map.mp hl
    have hnl := hkm.normal e he
    have h1 : m.lookup e.1 = some e.2 := (lookup_iff_mem hok hkm.normal e.2).mpr he
    rw [marshalMap_lookup k m hm hflat.params.normal] at h1
    have h2 : tmp.lookup e.1 ≠ none := by
      unfold wireLookup at h1
      simp only [] at h1
      cases hpl : k.params.lookup e.1 with
      | some v =>
        apply lookup_erase5_some
        intro hne
        rw [hpe, lookup_retype _ _ _ (by rw [hnl]; simp), hne] at hpl
        cases hpl
      | none =>
        rw [hpl] at h1
        simp only [] at h1
        have hb : (baseMap k).lookup e.1 ≠ none := by
          intro hne
          rw [hne] at h1
          split at h1 <;> cases h1
        have hc : isCommon e.1 := by
          cases Classical.em (isCommon e.1) with
          | inl h => exact h
          | inr h => exact absurd (baseMap_lookup_other k _ h) hb
        obtain ⟨b1, b2, b3, b4, b5⟩ := baseMap_lookup k
        rcases hc with h | h | h | h | h <;> rw [h] at hb ⊢
        · rw [hkty]; simp
        · rw [b2] at hb
          cases hid : k.id with
          | none => rw [hid] at hb; exact absurd rfl hb
          | some c => rw [fid c hid]; simp
        · rw [b3] at hb
          by_cases ha : k.alg = 0
          · rw [if_pos ha] at hb; exact absurd rfl hb
          · rw [falg ha]; simp
        · rw [b4] at hb
          cases hop : k.ops with
          | none => rw [hop] at hb; exact absurd rfl hb
          | some o =>
            obtain ⟨l, hl4, _⟩ := fops o hop
            rw [hl4]; simp
        · rw [b5] at hb
          cases hbv : k.baseIV with
          | none => rw [hbv] at hb; exact absurd rfl hb
          | some c => rw [fbiv c hbv]; simp
    cases hl2 : tmp.lookup e.1 with
    | none => exact absurd hl2 h2
    | some v =>
      obtain ⟨e', he', hk', _⟩ := lookup_some_mem hl2
      have := eq_of_keyEq_of_normalizes' (by rw [hnl]; simp) hk'
      exact List.mem_map.mpr ⟨e', he', this⟩
  have := List.Nodup.length_le_of_subset (keys_nodup hok hkm.normal) hsub
  simp only [List.length_map] at this
  simp only [List.length_nil, Nat.zero_add] at hlen_tmp
  omega

end KeyRT

/-! ## C15 — re-encoding an accepted COSE_Key -/

namespace C15
open KeyRT RoundTrip

/-- 3. MAIN: a COSE_Key that `UnmarshalCBOR` accepts and whose parameter values lie in the flat
    data model (`KVal`: no nested maps, floats, simple values, or arrays of non-scalars — tags and
    bignums are `unmodelled` and never reach an accepted key) can be re-encoded; the re-encoding
    `b'` is accepted again, and encoding the key decoded from `b'` yields `b'` byte for byte:
    decode → encode → decode → encode is a fixpoint after the first encode.  The key `k2` decoded
    from `b'` has the same common fields as `k`; its parameters are those of `k` with EC2 x / y at
    full length (`wireParam`), in canonical (wire) order.  Nothing else is assumed: the ranges of
    the common fields, the shape of the labels and the size of the map follow from the decoder
    (`accepted_flat`). -/
theorem reencode_idempotent (b : Bytes) (k : Key) (hu : Key.unmarshal b = .ok k)
    (hvals : ∀ e ∈ k.params, KVal e.2) :
    ∃ b', k.marshal = .ok b' ∧ ∃ k2, Key.unmarshal b' = .ok k2 ∧ k2.marshal = .ok b' ∧
      k2.kty = k.kty ∧ k2.id = k.id ∧ k2.alg = k.alg ∧ k2.ops = k.ops ∧ k2.baseIV = k.baseIV ∧
      (∀ l, normalizeLabel l = some l → ¬ isCommon l → k2.params.lookup l = wireParam k l) ∧
      (∀ l, isCommon l → k2.params.lookup l = none) ∧
      (∀ n : Int, int64Range n → n < 0 → k2.pbytes n = wirePbytes k n) ∧
      (k.kty = 1 ∨ k.kty = 2 → k2.crv = k.crv) := by
  obtain ⟨hf, hs⟩ := accepted_flat b k hu hvals
  obtain ⟨m, k2, _, h1, h2, h3, e1, e2, e3, e4, e5, h4, h5, h6, h7, _⟩ := reencode_core b k hu hf hs
  exact ⟨_, h1, k2, h2, h3, e1, e2, e3, e4, e5, h4, h5, h6, h7⟩

/-- 3'. every further cycle returns the same bytes and the same key -/
theorem reencode_stable (b : Bytes) (k : Key) (hu : Key.unmarshal b = .ok k)
    (hvals : ∀ e ∈ k.params, KVal e.2) (b' : Bytes) (hb : k.marshal = .ok b') :
    ∃ k2, Key.unmarshal b' = .ok k2 ∧ k2.marshal = .ok b' ∧
      (Key.unmarshal b' >>= Key.marshal) = .ok b' := by
  obtain ⟨hf, hs⟩ := accepted_flat b k hu hvals
  obtain ⟨m, k2, _, h1, h2, h3, _⟩ := reencode_core b k hu hf hs
  rw [h1] at hb
  cases hb
  exact ⟨k2, h2, h3, by rw [h2]; exact h3⟩

/-- 3''. an accepted key always re-encodes when its parameter values are flat: `MarshalCBOR`
    cannot fail on it -/
theorem accepted_marshals (b : Bytes) (k : Key) (hu : Key.unmarshal b = .ok k)
    (hvals : ∀ e ∈ k.params, KVal e.2) : ∃ b', k.marshal = .ok b' := by
  obtain ⟨b', h, _⟩ := reencode_idempotent b k hu hvals
  exact ⟨b', h⟩

/-- a value found under a label is a parameter of the key -/
theorem mem_of_lookup {h : GoMap} {l v : GoVal} (hl : h.lookup l = some v) :
    ∃ e ∈ h, e.2 = v := by
  unfold GoMap.lookup at hl
  cases hf : h.find? (fun e => e.1.keyEq l) with
  | none => rw [hf] at hl; cases hl
  | some e => rw [hf] at hl; exact ⟨e, List.mem_of_find?_eq_some hf, Option.some.inj hl⟩

/-- MAIN (repair e8483d3), on accepted keys: every COSE_Key `UnmarshalCBOR` accepts with key type
    EC2 has EVERY PRESENT x (-2) and d (-4) a byte string and every present y (-3) a byte string
    or a boolean, each byte string within the curve's size; with key type OKP every present x and
    d is a byte string of 32 bytes (or empty).  "Coordinates within the curve's size" thus speaks
    about every coordinate on the wire, not only about those that happen to be byte strings:
    before the repair `a4 01 02 20 01 21 78 64 …` (x a 100-character text string) was accepted. -/
theorem accepted_coords (data : Bytes) (k : Key) (h : Key.unmarshal data = .ok k) :
    (k.kty = 2 →
      (∀ v, k.params.lookup (lbl (-2)) = some v →
        ∃ b, v = .bytes b ∧ (curveSize k.crv > 0 → b.length ≤ curveSize k.crv)) ∧
      (∀ v, k.params.lookup (lbl (-3)) = some v →
        (∃ b, v = .bytes b ∧ (curveSize k.crv > 0 → b.length ≤ curveSize k.crv)) ∨
          ∃ s, v = .bool s) ∧
      (∀ v, k.params.lookup (lbl (-4)) = some v →
        ∃ b, v = .bytes b ∧ (curveSize k.crv > 0 → b.length ≤ curveSize k.crv))) ∧
    (k.kty = 1 →
      (∀ v, k.params.lookup (lbl (-2)) = some v →
        ∃ b, v = .bytes b ∧ (b.length = 0 ∨ b.length = 32)) ∧
      (∀ v, k.params.lookup (lbl (-4)) = some v →
        ∃ b, v = .bytes b ∧ (b.length = 0 ∨ b.length = 32))) := by
  obtain ⟨_, _, hv⟩ := accepted_params data k h
  have hnil := accepted_no_bytesNil data k h
  have hne : ∀ (l v : GoVal), k.params.lookup l = some v → v ≠ .bytesNil := by
    intro l v hl
    obtain ⟨e, he, rfl⟩ := mem_of_lookup hl
    exact hnil e he
  constructor
  · intro h2
    obtain ⟨hx, hy, hd⟩ := validate_ec2_coords k .none hv h2
    refine ⟨?_, ?_, ?_⟩
    · intro v hl
      rcases hx v hl with hb | hn | ⟨hf, _⟩
      · exact hb
      · exact absurd hn (hne _ v hl)
      · cases hf
    · intro v hl
      rcases hy v hl with hb | hn | ⟨_, hs⟩
      · exact Or.inl hb
      · exact absurd hn (hne _ v hl)
      · exact Or.inr hs
    · intro v hl
      rcases hd v hl with hb | hn | ⟨hf, _⟩
      · exact hb
      · exact absurd hn (hne _ v hl)
      · cases hf
  · intro h1
    obtain ⟨hx, hd⟩ := validate_okp_coords k .none hv h1
    refine ⟨?_, ?_⟩
    · intro v hl
      rcases hx v hl with hb | hn
      · exact hb
      · exact absurd hn (hne _ v hl)
    · intro v hl
      rcases hd v hl with hb | hn
      · exact hb
      · exact absurd hn (hne _ v hl)

/-- … so for an accepted EC2 / OKP key the accessor `ParamBytes` loses nothing: a coordinate it
    reads as empty is absent, an empty byte string, or (y only) the sign bit -/
theorem accepted_pbytes_faithful (data : Bytes) (k : Key) (h : Key.unmarshal data = .ok k)
    (h12 : k.kty = 2 ∨ k.kty = 1) (n : Int) (hn : n = -2 ∨ n = -4 ∨ (n = -3 ∧ k.kty = 2))
    (v : GoVal) (hl : k.params.lookup (lbl n) = some v) :
    v = .bytes (k.pbytes n) ∨ (n = -3 ∧ ∃ s, v = .bool s) := by
  obtain ⟨hec, hokp⟩ := accepted_coords data k h
  have fin : ∀ b, v = .bytes b → v = .bytes (k.pbytes n) := by
    intro b hb
    subst hb
    rw [pbytes_of_bytes k n b hl]
  rcases h12 with h2 | h1
  · obtain ⟨hx, hy, hd⟩ := hec h2
    rcases hn with rfl | rfl | ⟨rfl, _⟩
    · obtain ⟨b, hb, _⟩ := hx v hl; exact Or.inl (fin b hb)
    · obtain ⟨b, hb, _⟩ := hd v hl; exact Or.inl (fin b hb)
    · rcases hy v hl with ⟨b, hb, _⟩ | hs
      · exact Or.inl (fin b hb)
      · exact Or.inr ⟨rfl, hs⟩
  · obtain ⟨hx, hd⟩ := hokp h1
    rcases hn with rfl | rfl | ⟨_, h2⟩
    · obtain ⟨b, hb, _⟩ := hx v hl; exact Or.inl (fin b hb)
    · obtain ⟨b, hb, _⟩ := hd v hl; exact Or.inl (fin b hb)
    · omega

end C15

/-! ## the hypotheses are needed; non-vacuity -/

namespace C14
open KeyRT RoundTrip

/-- `validate` is needed: `MarshalCBOR` does not validate, `UnmarshalCBOR` does.  The symmetric key
    without its `k` parameter is emitted as `a1 01 04` and refused on the way back. -/
theorem key_marshal_unmarshal_needs_validate :
    ∃ k : Key, KeyFlat k ∧ KeySize k ∧ ParamsDisjoint k ∧ k.validate .none ≠ none ∧
      k.marshal = .ok [0xa1, 0x01, 0x04] ∧ Key.unmarshal [0xa1, 0x01, 0x04] = .err .other := by
  have hf : KeyFlat { kty := 4 } := by decide
  have hm : ({ kty := 4 } : Key).marshalMap = some [(lbl 1, .int .i64 4)] := rfl
  have hbytes : (kMapWire [(lbl 1, .int .i64 4)]).bytes = [0xa1, 0x01, 0x04] := by
    simp [kMapWire, kWirePairs, sortEntries]
    rfl
  obtain ⟨hkm, hok, hlen⟩ := marshalMap_inv hf hm
  refine ⟨{ kty := 4 }, hf, by simp [KeySize, maxElems], ⟨rfl, rfl, rfl, rfl, rfl⟩,
    by simp [Key.validate, Key.pbytes, paramBytes, lookup_nil, Lk.getD], ?_, ?_⟩
  · rw [← hbytes]
    exact marshal_of_marshalMap hf hm
  · rw [← hbytes, unmarshal_bytes hkm.kmap hok (by simp [maxElems])]
    simp [sortEntries, kNormEntry, normVal, kNorm, Key.ofMap, lookup_cons, lookup_nil,
      paramBytes, keyParams, GoMap.erase, Key.validate, Key.pbytes, Lk.getD, lbl, GoVal.keyEq]

/-- a key whose `Params` hold an entry under label 1 -/
def overrideKey : Key := { kty := 4, params := [(lbl 1, .int .i64 5), (lbl (-1), .bytes [1])] }

/-- `ParamsDisjoint` is needed: `MarshalCBOR` lets a parameter stored under the label of a common
    field overwrite that field.  `Key{Type: 4, Params: {1: 5, -1: h'01'}}` is valid, is emitted
    as `a2 01 05 20 41 01`, and decodes as a key of type 5.  (go-cose behaves the same.) -/
theorem key_marshal_unmarshal_needs_disjoint :
    KeyFlat overrideKey ∧ KeySize overrideKey ∧ overrideKey.validate .none = none ∧
    ¬ ParamsDisjoint overrideKey ∧
    ∃ b k', overrideKey.marshal = .ok b ∧ Key.unmarshal b = .ok k' ∧ k'.kty = 5 := by
  have hf : KeyFlat overrideKey := by decide
  have hm : overrideKey.marshalMap = some [(lbl 1, .int .i64 5), (lbl (-1), .bytes [1])] := rfl
  have hsrt : sortEntries [(lbl 1, .int .i64 5), (lbl (-1), .bytes [1])]
      = [(lbl 1, .int .i64 5), (lbl (-1), .bytes [1])] := by
    apply List.mergeSort_of_pairwise
    simp [valWire, intWire, lbl, Wire.bytes]
    decide
  obtain ⟨hkm, hok, hlen⟩ := marshalMap_inv hf hm
  refine ⟨hf, by simp [KeySize, overrideKey, maxElems], ?_, ?_, _,
    { kty := 5, params := [(lbl (-1), .bytes [1])] }, marshal_of_marshalMap hf hm, ?_, rfl⟩
  · simp [overrideKey, Key.validate, Key.pbytes, paramBytes, lookup_cons, keyEq_lbl_lbl, Lk.getD]
  · intro h
    have := h.1
    simp [overrideKey, lookup_cons, keyEq_lbl_lbl] at this
  · rw [unmarshal_bytes hkm.kmap hok (by simp [maxElems]), hsrt]
    simp [kNormEntry, normVal, kNorm, Key.ofMap, lookup_cons, lookup_nil,
      paramBytes, keyParams, GoMap.erase, Key.validate, Lk.getD, lbl, GoVal.keyEq]

/-- a valid EC2 key whose private scalar is stored under the Go key `int8(-4)` -/
def int8Key : Key :=
  { kty := 2, params := [(lbl (-1), .crv 1), (lbl (-2), .bytes [1]),
                         (.int .i8 (-4), .bytes (List.replicate 33 0))] }

/-- the int64 spelling of integer labels (`KeyLabel`) is needed: the accessors and `validate` look
    parameters up under the `int64` key only, `MarshalCBOR` normalises every integer label.  A 33
    byte `d` under `int8(-4)` is invisible to `validate`, is emitted under -4, and is refused
    on the way back (coordinate too long for P-256).  (go-cose behaves the same.) -/
theorem key_marshal_unmarshal_needs_int64_labels :
    (∀ e ∈ int8Key.params, FlatLabel e.1 ∧ KVal e.2) ∧ LabelsOK int8Key.params ∧
    int8Key.validate .none = none ∧ ParamsDisjoint int8Key ∧
    ∃ b, int8Key.marshal = .ok b ∧ Key.unmarshal b = .err .other := by
  let M : GoMap := [(lbl 1, .int .i64 2), (lbl (-1), .crv 1), (lbl (-2), .bytes (leftPad 32 [1])),
    (lbl (-4), .bytes (List.replicate 33 0))]
  have hm : int8Key.marshalMap = some M := rfl
  have hkm : KMap M := by
    intro e he
    simp only [M, List.mem_cons, List.not_mem_nil, or_false] at he
    rcases he with rfl | rfl | rfl | rfl
    · exact ⟨show int64Range 1 by decide, show int64Range 2 by decide⟩
    · exact ⟨show int64Range (-1) by decide, show int64Range 1 by decide⟩
    · exact ⟨show int64Range (-2) by decide, by simp [KVal, leftPad]⟩
    · exact ⟨show int64Range (-4) by decide, by simp [KVal]⟩
  have hok : LabelsOK M := by
    rw [labelsOK_iff_normLabels]
    simp [M, normLabels, normalizeLabel, lbl, wrap64]
  have hsrt : sortEntries M = M := by
    apply List.mergeSort_of_pairwise
    simp [M, valWire, intWire, lbl, Wire.bytes]
    decide
  refine ⟨?_, ?_, ?_, ?_, (kMapWire M).bytes, ?_, ?_⟩
  · intro e he
    simp only [int8Key, List.mem_cons, List.not_mem_nil, or_false] at he
    rcases he with rfl | rfl | rfl
    · exact ⟨show int64Range (-1) by decide, show int64Range 1 by decide⟩
    · exact ⟨show int64Range (-2) by decide, by simp [KVal]⟩
    · exact ⟨show int64Range (-4) by decide, by simp [KVal]⟩
  · rw [labelsOK_iff_normLabels]
    simp [int8Key, normLabels, normalizeLabel, lbl, wrap64]
  · simp [int8Key, Key.validate, Key.paramIsBstr, Key.pbytes, paramBytes, Key.crv, paramInt,
      lookup_cons, lookup_nil, Lk.getD, curveSize, lbl, GoVal.keyEq]
  · refine ⟨?_, ?_, ?_, ?_, ?_⟩ <;>
      simp [int8Key, lookup_cons, lookup_nil, lbl, GoVal.keyEq]
  · unfold Key.marshal
    rw [hm]
    exact marshalAny_k hkm
  · rw [unmarshal_bytes hkm hok (by simp [M, maxElems]), hsrt]
    simp [M, kNormEntry, normVal, kNorm, Key.ofMap, lookup_cons, lookup_nil, leftPad,
      paramBytes, keyParams, GoMap.erase, Key.validate, Key.pbytes, Key.crv, paramInt, Lk.getD, lbl,
      GoVal.keyEq, curveSize]

/-- a P-256 key whose private scalar is the typed nil `[]byte(nil)` -/
def nilDKey : Key :=
  { kty := 2, params := [(lbl (-1), .crv 1), (lbl (-2), .bytes [1]), (lbl (-3), .bytes [1]),
                         (lbl (-4), .bytesNil)] }

/-- `NoNilCoords` is needed (since e8483d3): `validate` takes the typed nil `[]byte(nil)` under d
    for a byte string (an empty one: the key is a valid public key), `MarshalCBOR` writes it as
    `null` (`a5 01 02 20 01 21 58 20 … 22 58 20 … 23 f6`), and `UnmarshalCBOR` now refuses a d
    that is not a byte string.  Before the repair the `null` was read back as "absent" and the
    round trip went through.  /repo behaves the same (`enc key K(2;…;{…,i64:-4=bn})`: `redec=err`). -/
theorem key_marshal_unmarshal_needs_no_nil_coords :
    KeyFlat nilDKey ∧ KeySize nilDKey ∧ ParamsDisjoint nilDKey ∧ nilDKey.validate .none = none ∧
    ¬ NoNilCoords nilDKey ∧
    ∃ b, nilDKey.marshal = .ok b ∧ Key.unmarshal b = .err .other := by
  let M : GoMap := [(lbl 1, .int .i64 2), (lbl (-1), .crv 1), (lbl (-2), .bytes (leftPad 32 [1])),
    (lbl (-3), .bytes (leftPad 32 [1])), (lbl (-4), .bytesNil)]
  have hm : nilDKey.marshalMap = some M := rfl
  have hkm : KMap M := by
    intro e he
    simp only [M, List.mem_cons, List.not_mem_nil, or_false] at he
    rcases he with rfl | rfl | rfl | rfl | rfl
    · exact ⟨show int64Range 1 by decide, show int64Range 2 by decide⟩
    · exact ⟨show int64Range (-1) by decide, show int64Range 1 by decide⟩
    · exact ⟨show int64Range (-2) by decide, by simp [KVal, leftPad]⟩
    · exact ⟨show int64Range (-3) by decide, by simp [KVal, leftPad]⟩
    · exact ⟨show int64Range (-4) by decide, by simp [KVal]⟩
  have hok : LabelsOK M := by
    rw [labelsOK_iff_normLabels]
    simp [M, normLabels, normalizeLabel, lbl, wrap64]
  have hsrt : sortEntries M = M := by
    apply List.mergeSort_of_pairwise
    simp [M, valWire, intWire, lbl, Wire.bytes]
    decide
  have hflat : KeyFlat nilDKey := by
    refine { kty := by decide, alg := by decide, id := ?_, ops := ?_, baseIV := ?_, params := ?_ }
    · intro b hb; cases hb
    · intro l hl; cases hl
    · intro b hb; cases hb
    · intro e he
      simp only [nilDKey, List.mem_cons, List.not_mem_nil, or_false] at he
      rcases he with rfl | rfl | rfl | rfl
      · exact ⟨keyLabel_lbl _ (by decide), show int64Range 1 by decide⟩
      · exact ⟨keyLabel_lbl _ (by decide), by simp [KVal]⟩
      · exact ⟨keyLabel_lbl _ (by decide), by simp [KVal]⟩
      · exact ⟨keyLabel_lbl _ (by decide), by simp [KVal]⟩
  refine ⟨hflat, by simp [KeySize, nilDKey, maxElems], ?_, ?_, ?_, (kMapWire M).bytes, ?_, ?_⟩
  · refine ⟨?_, ?_, ?_, ?_, ?_⟩ <;>
      simp [nilDKey, lookup_cons, lookup_nil, lbl, GoVal.keyEq]
  · simp [nilDKey, Key.validate, Key.paramIsBstr, Key.pbytes, paramBytes, Key.crv, paramInt,
      lookup_cons, Lk.getD, curveSize, lbl, GoVal.keyEq]
  · intro h
    have := h (Or.inr rfl) (-4) (by decide) (by decide)
    simp [nilDKey, lookup_cons, lbl, GoVal.keyEq] at this
  · unfold Key.marshal
    rw [hm]
    exact marshalAny_k hkm
  · rw [unmarshal_bytes hkm hok (by simp [M, maxElems]), hsrt]
    simp [M, kNormEntry, normVal, kNorm, Key.ofMap, lookup_cons, lookup_nil, leftPad,
      paramBytes, keyParams, GoMap.erase, Key.validate, Key.paramIsBstr, lbl, GoVal.keyEq]

end C14

/-! ### non-vacuity: a P-256 public key with kid, alg and key_ops -/

namespace C14
open KeyRT RoundTrip

/-- `{1: 2, 2: h'3131', 3: -7, 4: [2], -1: 1, -2: h'010203', -3: h'0405'}` (short coordinates, to
    exercise the padding) -/
def exKey : Key :=
  { kty := 2, id := some [0x31, 0x31], alg := -7, ops := some [2],
    params := [(lbl (-1), .crv 1), (lbl (-2), .bytes [1, 2, 3]), (lbl (-3), .bytes [4, 5])] }

theorem exKey_flat : KeyFlat exKey ∧ KeySize exKey ∧ ParamsDisjoint exKey ∧
    exKey.validate .none = none := by
  refine ⟨by decide, by decide, by decide, ?_⟩
  · simp [exKey, Key.validate, Key.paramIsBstr, Key.pbytes, paramBytes, Key.crv, paramInt,
      lookup_cons, lookup_nil, keyEq_lbl_lbl, Lk.getD, curveSize, Key.deriveAlgorithm]

/-- theorem 1 on `exKey`: it marshals, the bytes unmarshal, all common fields come back, and the
    coordinates come back at the full 32 bytes with the same value -/
example : ∃ b k', exKey.marshal = .ok b ∧ Key.unmarshal b = .ok k' ∧
    k'.kty = 2 ∧ k'.id = some [0x31, 0x31] ∧ k'.alg = -7 ∧ k'.ops = some [2] ∧ k'.baseIV = none ∧
    k'.crv = 1 ∧ (k'.pbytes (-2)).length = 32 ∧ (k'.pbytes (-3)).length = 32 ∧
    k'.ecCoords = (0x010203, 0x0405, 0) := by
  obtain ⟨hf, hs, hd, hv⟩ := exKey_flat
  obtain ⟨m, hm⟩ := marshalMap_some exKey hf.params.normal (by
    rw [labelsOK_iff_normLabels]
    simp [exKey, normLabels, normalizeLabel, lbl, wrap64])
  have hb := marshal_of_marshalMap hf hm
  obtain ⟨k', hu, e1, e2, e3, e4, e5, _, _, hpb, hcr, _⟩ := key_marshal_unmarshal exKey hf hs hd (noNilCoords_of_vals (by simp [exKey])) hv _ hb
  have hc : exKey.crv = 1 := crv_of_lookup exKey 1 (by simp [exKey, lookup_cons, keyEq_lbl_lbl])
  have hx : exKey.pbytes (-2) = [1, 2, 3] :=
    pbytes_of_lookup exKey _ _ (by simp [exKey, lookup_cons, keyEq_lbl_lbl])
  have hy : exKey.pbytes (-3) = [4, 5] :=
    pbytes_of_lookup exKey _ _ (by simp [exKey, lookup_cons, keyEq_lbl_lbl])
  have hdd : exKey.pbytes (-4) = [] := by
    simp [exKey, Key.pbytes, paramBytes, lookup_cons, lookup_nil, keyEq_lbl_lbl, Lk.getD]
  have q2 : k'.pbytes (-2) = leftPad 32 [1, 2, 3] := by
    rw [hpb (-2) (by decide) (by decide), wirePbytes, if_pos ⟨rfl, Or.inl rfl⟩, hx, hc]; rfl
  have q3 : k'.pbytes (-3) = leftPad 32 [4, 5] := by
    rw [hpb (-3) (by decide) (by decide), wirePbytes, if_pos ⟨rfl, Or.inr rfl⟩, hy, hc]; rfl
  have q4 : k'.pbytes (-4) = [] := by
    rw [hpb (-4) (by decide) (by decide), wirePbytes, if_neg (fun h => by have := h.2; omega), hdd]
  refine ⟨_, k', hb, hu, e1, e2, e3, e4, e5, by rw [hcr (Or.inr rfl), hc], ?_, ?_, ?_⟩
  · rw [q2, leftPad_length]; decide
  · rw [q3, leftPad_length]; decide
  · unfold Key.ecCoords
    rw [q2, q3, q4, os2ip_leftPad, os2ip_leftPad]
    decide

/-- theorem 3 on the bytes of `exKey`: decode → encode → decode → encode reaches a fixpoint -/
example : ∃ b k b' k2, exKey.marshal = .ok b ∧ Key.unmarshal b = .ok k ∧ k.marshal = .ok b' ∧
    Key.unmarshal b' = .ok k2 ∧ k2.marshal = .ok b' ∧ k2.kty = 2 ∧ k2.id = some [0x31, 0x31] ∧
    k2.alg = -7 ∧ k2.ops = some [2] := by
  obtain ⟨hf, hs, hd, hv⟩ := exKey_flat
  obtain ⟨m, hm⟩ := marshalMap_some exKey hf.params.normal (by
    rw [labelsOK_iff_normLabels]
    simp [exKey, normLabels, normalizeLabel, lbl, wrap64])
  have hb := marshal_of_marshalMap hf hm
  obtain ⟨k, hu, e1, e2, e3, e4, _, _, _, _, _, _, hf', hlen⟩ :=
    key_marshal_unmarshal exKey hf hs hd (noNilCoords_of_vals (by simp [exKey])) hv _ hb
  obtain ⟨b', h1, k2, h2, h3, f1, f2, f3, f4, _⟩ :=
    C15.reencode_idempotent _ k hu (fun e he => (hf'.params e he).2)
  exact ⟨_, k, b', k2, hb, hu, h1, h2, h3, by rw [f1, e1]; rfl, by rw [f2, e2]; rfl,
    by rw [f3, e3]; rfl, by rw [f4, e4]; rfl⟩

end C14

