/-
  CoseProofs.Deep.NestedBuckets — the header-BUCKET round trip and the COSE_Sign1 wire round trip
  for header maps whose VALUES are nested (arrays and maps of any shape: `crit` = array of labels,
  CWT claims = map, application parameters holding arrays of maps of arrays …).
  `Deep/RoundTrip.lean` + `Deep/WireClosure.lean` did this for scalar values (`FlatMap`);
  `Deep/NestedRoundTrip.lean` supplied the value level (`RTVal`, `normValN`, `wireN`).  This file
  adds the missing middle: header VALIDATION transported across the decoder's retyping, the two
  bucket decoders, and on top of them the end-to-end theorem.  Core Lean only; nothing outside this
  file is modified.

  DATA MODEL.  `NestedMap h` (from NestedRoundTrip): every label flat (integer in int64 / valid
  UTF-8 text), every value `RTVal 1` (scalar, or array / map with distinct-after-encoding keys,
  within the parser's size and depth limits counted from depth 1).  `NestedMapAt d h`: the same
  with values met at depth `d` (`NestedMapAt 1 = NestedMap`; every `FlatMap` is `NestedMapAt d`
  for every `d`: `nestedMapAt_of_flat`).  EXCLUDED, as in the value-level file: floats, simple
  values, `[]byte(nil)`, opaque values and COUNTERSIGNATURE values (`csig` / `csigs`, labels 7 and
  11): they are not `RTVal`; header validation of a `NestedMap` refuses labels 7 / 11 outright
  (`isCsigValue_rtVal`), so the unprotected decoder never enters its countersignature branch.

  WHAT IS PROVED, in plain words
    validation transport (the crux)
      NestedBuckets.checkParam_normValN   a per-label check that accepted a value accepts its decoded
                                     normal form `normValN v` (scalars: `checkParam_normVal`; arrays
                                     / maps: only `crit` and the unconstrained labels can accept
                                     them at all — `checkParam_mono`)
      NestedBuckets.ensureCritical_normValN  `crit`: each entry stays an integer / text after
                                     decoding (`int` → `int64`) and is found in the bucket under
                                     the same normalised label (`critLabel_normValN`, via
                                     `C13.hasLabel_congr_norm`)
      NestedBuckets.validate_normEntryN / C08.validate_decoded_nested
                                     `validateHeaderParameters h prot = true` ⟹ the same for
                                     `h.map normEntryN` and for the sorted form the decoder builds
    buckets (item 1)
      C08.protected_bucket_roundtrip_nested       = `protected_bucket_roundtrip` with `NestedMap`:
                                     `MarshalProtected` emits a shortest-head byte string whose
                                     content `decProtectedContent` reads back as
                                     `(sortEntries h).map decEntryN` (labels normalised, values
                                     `normValN`, `alg` retyped); `algorithmOf` of it is `algSpec h`
      C08.protected_bucket_wire_roundtrip_nested  the same on the parsed item (`decProtected`)
      C08.unprotected_bucket_roundtrip_nested     = `unprotected_bucket_roundtrip`: the emitted
                                     bytes are the item `mapWireN h`, parse in either mode, are
                                     tag-free, and `decUnprot` returns `(sortEntries h).map normEntryN`
      C08.decoded_alg_nested, C08.protected_lookup_roundtrip_nested,
      C08.unprotected_lookup_roundtrip_nested, C08.bucket_encodes_nested (a validated `NestedMap`
                                     bucket IS encoded: `he` is not an extra assumption)
    COSE_Sign1 end to end (item 2) — complete, not `_partial`
      C01.sign1_wire_nested          `sign1_wire_flat` with `NestedMap` / `NestedMapAt 2`: Sign ok ∧
                                     Marshal ok ⟹ Unmarshal ok ∧ Verify ok ∧ same payload and
                                     signature; additionally names the decoded header maps
      C01.sign1_wire_detached_nested, C01.sign1_wire_nested_alg_cases, C01.sign1_wire_nested_alg
    non-vacuity (item 3)
      `C01.exNest`: protected `{1: ES256, 2: [int(-70001)], -70001: [1, {2: true}]}`, unprotected
      `{15: {4: 1700000000, 1: "iss"}}` (label 15 is unconstrained in `checkParam`, so it is allowed
      in either bucket); signed with `exS7`, the emitted bytes are spelt out (`exNestP`, `exNestU`),
      `sign1_wire_nested` is instantiated with every hypothesis discharged by computation, and the
      decoded maps are spelt out (`exNest_decP`, `exNest_decU`).

  HYPOTHESES THAT REMAIN, AND WHY
    * `NestedMap` / `NestedMapAt 2` — the scope.  Inside it, `Pairwise KeyDistinct` for nested maps
      is needed at bucket level too: `protected_bucket_roundtrip_nested_needs_distinct`
      (`SetCWTClaims` accepts `{int64(1): "a", int(1): "b"}`, validation accepts, `MarshalProtected`
      emits `49 a1 0f a2 01 61 61 01 61 62`, `UnmarshalCBOR` refuses: duplicate key).  Already listed
      as an out-of-model observation in DESIGN (nested duplicate keys); restated here at bucket level.
    * unprotected values at depth 2 in `sign1_wire_nested` (one level stricter than the bucket
      theorem): inside a message the unprotected map is itself one level down.  Needed:
      `sign1_wire_nested_needs_depth2` — unprotected `{99: [[…[nil]…]]}` with 31 nested arrays makes
      the stand-alone bucket round trip, the library signs and encodes the message, and
      `Sign1.unmarshal` refuses the bytes (nesting 33 > 32).  The decoder has `MaxNestedLevels`
      32; the encoder of the unprotected bucket checks its fresh bytes with the same limit
      (headers.go:256) but counted from the bucket's own map, not from the enclosing message, so
      this bucket (map + 31 arrays = 32 levels) passes it — `C08.unprotected_depth_gate` shows
      where that gate bites (32 arrays) and that the protected bucket has none.  The protected
      bucket is a byte string parsed on its own, so depth 1 suffices there.
    * `UintOK` on the TOP-LEVEL values only (a value of an unsigned Go integer type is not
      negative; `C08.protected_bucket_roundtrip_needs_uintOK`).  No recursive `UintOKN` is needed:
      validation inspects the integer kind of a value only at the top level (labels 3, 16, 1);
      inside `crit` only `canInt` (any kind) and the wrapped label are used, and `UintOK` of an
      array / map is `True`.
    * `h.length ≤ maxElems`, payload / signature shorter than 2^64, `int64Range s.alg`, `Matches`,
      no retained raw buckets — exactly as in `sign1_wire_flat` (see `Deep/WireClosure.lean`).
    * the validation transport is ONE-directional (accepted ⟹ decoded form accepted), which is what
      the round trip needs.  The converse fails harmlessly
      (`C08.validate_decoded_nested_converse_counterexample`: a `crit` entry of Go type `Algorithm`
      is refused by the encoder — nothing reaches the wire — while `[int64(4)]` would pass).

  NOT DONE: countersignature-valued parameters (labels 7, 11) — outside `RTVal`; COSE_Sign /
  countersignature / hash-envelope wire theorems with nested values (`SignWireClosure`,
  `henv_closed_flat` analogues) — the bucket lemmas here (`prot_itemN`, `unprot_itemN`,
  `ensureIV_decodedN`, `sign_gate_nested`) are what they would need.
  Axioms: propext, Quot.sound, Classical.choice.
-/
import CoseProofs.Deep.NestedRoundTrip
import CoseProofs.Deep.WireClosure
open CoseModel CoseSpec RoundTrip

namespace NestedBuckets

/-! ### the data model at a given depth -/

/-- a header map with flat labels whose values fit when met at depth `d` (the bucket item itself
    sits at depth `d - 1`) -/
def NestedMapAt (d : Nat) (h : GoMap) : Prop := ∀ e ∈ h, FlatLabel e.1 ∧ RTVal d e.2

theorem nestedMapAt_one {h : GoMap} : NestedMapAt 1 h ↔ NestedMap h := Iff.rfl

theorem NestedMapAt.mono {d d' : Nat} {h : GoMap} (hle : d' ≤ d) (hf : NestedMapAt d h) :
    NestedMapAt d' h :=
  fun e he => ⟨(hf e he).1, RTVal.mono e.2 d d' hle (hf e he).2⟩

/-- every flat header map is a nested header map at every depth -/
theorem nestedMapAt_of_flat (d : Nat) {h : GoMap} (hf : FlatMap h) : NestedMapAt d h :=
  fun e he => ⟨(hf e he).1, RTVal.of_flat d (hf e he).2⟩

theorem NestedMapAt.perm {d : Nat} {h h' : GoMap} (hp : h.Perm h') (hf : NestedMapAt d h) :
    NestedMapAt d h' :=
  fun e he => hf e (hp.mem_iff.mpr he)

theorem NestedMapAt.sorted {d : Nat} {h : GoMap} (hf : NestedMapAt d h) :
    NestedMapAt d (sortEntries h) :=
  hf.perm (sortEntries_perm h).symm

/-- the map item the encoder emits for a header map with nested values -/
def mapWireN (h : GoMap) : Wire := .map (HW.shortest h.length) ((sortEntries h).map entryWireN)

theorem wireN_map_eq (h : GoMap) : wireN (.map h) = mapWireN h := wireN_map h

/-- the entry the protected-header decoder produces: label normalised, value in decoded normal
    form, an integer `alg` retyped to `Algorithm` -/
def decEntryN (e : GoVal × GoVal) : GoVal × GoVal := castEntry (normEntryN e)

theorem decEntryN_fst (e : GoVal × GoVal) : (decEntryN e).1 = normVal e.1 := by
  unfold decEntryN; rw [castEntry_fst]; rfl

/-! ### labels -/

theorem normLabels_normEntryN {d : Nat} {g : GoMap} (hf : NestedMapAt d g) :
    normLabels (g.map normEntryN) = normLabels g := by
  unfold normLabels
  rw [List.map_map]
  apply List.map_congr_left
  intro e he
  exact normalizeLabel_normVal (hf e he).1

theorem labelsOK_normEntryN {d : Nat} {g : GoMap} (hf : NestedMapAt d g) (hok : LabelsOK g) :
    LabelsOK (g.map normEntryN) := by
  rw [labelsOK_iff_normLabels, normLabels_normEntryN hf, ← labelsOK_iff_normLabels]
  exact hok

theorem normLabels_decEntryN {d : Nat} {g : GoMap} (hf : NestedMapAt d g) :
    normLabels (g.map decEntryN) = normLabels g := by
  unfold normLabels
  rw [List.map_map]
  apply List.map_congr_left
  intro e he
  simp only [Function.comp, decEntryN_fst]
  exact normalizeLabel_normVal (hf e he).1

theorem labelsOK_decEntryN {d : Nat} {g : GoMap} (hf : NestedMapAt d g) (hok : LabelsOK g) :
    LabelsOK (g.map decEntryN) := by
  rw [labelsOK_iff_normLabels, normLabels_decEntryN hf, ← labelsOK_iff_normLabels]
  exact hok

theorem normEntryN_normal {d : Nat} {g : GoMap} (hf : NestedMapAt d g) :
    ∀ e ∈ g.map normEntryN, normalizeLabel e.1 = some e.1 := by
  intro e' he'
  obtain ⟨e, he, rfl⟩ := List.mem_map.mp he'
  simp only [normEntryN]
  rw [normalizeLabel_flat (flatLabel_normVal (hf e he).1), normVal_idem_label (hf e he).1]

theorem castAlg_normEntryN {d : Nat} {g : GoMap} (hf : NestedMapAt d g) (hok : LabelsOK g) :
    castAlg (g.map normEntryN) = g.map decEntryN := by
  rw [castAlg_eq_map (labelsOK_normEntryN hf hok) (normEntryN_normal hf), List.map_map]
  rfl

/-! ### header validation is transported across the decoder's retyping -/

/-- `checkParam` looks at the value only through these five tests, monotonically -/
theorem checkParam_mono (g : GoMap) (prot : Bool) (l : GoVal) {v v' : GoVal}
    (h1 : (match v with | .alg _ => true | _ => canInt v || canTstr v) = true →
          (match v' with | .alg _ => true | _ => canInt v' || canTstr v') = true)
    (h2 : ensureCritical v g = true → ensureCritical v' g = true)
    (h3 : tstrOrUintOK v = true → tstrOrUintOK v' = true)
    (h4 : canBstr v = true → canBstr v' = true)
    (h5 : isCsigValue v = true → isCsigValue v' = true)
    (h : checkParam g prot l v = true) : checkParam g prot l v' = true := by
  unfold checkParam at h ⊢
  split at h <;> try simp only [Bool.and_eq_true] at h ⊢
  · exact h1 h
  · exact ⟨h.1, h2 h.2⟩
  · exact h3 h
  · exact h3 h
  · exact h4 h
  · exact ⟨h4 h.1, h.2⟩
  · exact ⟨h4 h.1, h.2⟩
  · exact ⟨h.1, h5 h.2⟩
  · exact ⟨h.1, h4 h.2⟩
  · exact ⟨h.1, h5 h.2⟩
  · exact ⟨h.1, h4 h.2⟩

/-- a `crit` entry (an integer one within int64: a `uint64` above that is not a label since
    0eeddbc, and its decoded form `int64`-typed with the same out-of-range value is not a Go
    value at all) and its decoded form: still an integer / text, and present in the bucket under
    the same normalised label -/
theorem critLabel_normValN (g : GoMap) {l : GoVal} (hl : (canInt l || canTstr l) = true)
    (hr : ∀ k n, l = .int k n → n ≤ maxInt64) :
    (canInt (normValN l) || canTstr (normValN l)) = true ∧
      hasLabel g (normValN l) = hasLabel g l := by
  cases l <;> simp [canInt, canTstr] at hl
  case int k n =>
    refine ⟨rfl, ?_⟩
    have hle := hr k n rfl
    have h1 : normalizeLabel (normValN (.int k n)) = normalizeLabel (.int k n) := by
      show normalizeLabel (.int .i64 n) = _
      rw [normalizeLabel_int_of_le _ hle, normalizeLabel_int_of_le _ hle]
    exact C13.hasLabel_congr_norm g g rfl _ _ h1 (by rw [h1, normalizeLabel_int_of_le _ hle]; simp)
  case str b =>
    refine ⟨?_, rfl⟩
    show (canInt (.str b) || canTstr (.str b)) = true
    simpa [canInt, canTstr] using hl

/-- `ensureCritical` passes on the decoded form of a `crit` value it passed on (integer entries
    within int64) -/
theorem ensureCritical_normValN (g : GoMap) (v : GoVal)
    (hr : ∀ ls, v = .arr ls → ∀ x ∈ ls, ∀ k n, x = .int k n → n ≤ maxInt64)
    (h : ensureCritical v g = true) :
    ensureCritical (normValN v) g = true := by
  cases v <;> simp only [ensureCritical, Bool.false_eq_true] at h
  case arr ls =>
    rw [normValN_arr]
    simp only [ensureCritical, Bool.and_eq_true, Bool.not_eq_true', List.all_eq_true,
      List.isEmpty_eq_false_iff] at h ⊢
    refine ⟨by simpa using h.1, ?_⟩
    intro y hy
    obtain ⟨x, hx, rfl⟩ := List.mem_map.mp hy
    obtain ⟨hc, hh⟩ := h.2 x hx
    obtain ⟨hc', hh'⟩ := critLabel_normValN g hc (hr ls rfl x hx)
    exact ⟨hc', by rw [hh']; exact hh⟩

/-- the per-label checks give the same (accepting) verdict on the decoded normal form -/
theorem checkParam_normValN (g : GoMap) (prot : Bool) (l : GoVal) {d : Nat} {v : GoVal}
    (hv : RTVal d v) (hu : UintOK v) (h : checkParam g prot l v = true) :
    checkParam g prot l (normValN v) = true := by
  cases hn : isNode v with
  | false =>
    rw [normValN_leaf hn]
    exact checkParam_normVal g prot l ((rtVal_leaf d hn).mp hv) hu h
  | true =>
    have hr : ∀ ls, v = .arr ls → ∀ x ∈ ls, ∀ k n, x = .int k n → n ≤ maxInt64 := by
      rintro ls rfl x hx k n rfl
      simp only [RTVal] at hv
      have := (rtList_iff _ _).mp hv.2.2 _ hx
      simp only [RTVal, FlatVal, int64Range] at this
      simp only [maxInt64]; omega
    apply checkParam_mono g prot l _ (ensureCritical_normValN g v hr) _ _ _ h
    all_goals
      cases v <;> simp only [isNode, reduceCtorEq] at hn <;>
        simp [canInt, canTstr, tstrOrUintOK, canUint, canBstr, isCsigValue]

theorem validate_normEntryN {d : Nat} {g : GoMap} (prot : Bool) (hf : NestedMapAt d g)
    (hu : ∀ e ∈ g, UintOK e.2) (hv : validateHeaderParameters g prot = true) :
    validateHeaderParameters (g.map normEntryN) prot = true := by
  rw [C13.validate_iff] at hv ⊢
  obtain ⟨hok, hall⟩ := hv
  refine ⟨labelsOK_normEntryN hf hok, ?_⟩
  intro e' he'
  obtain ⟨e, he, rfl⟩ := List.mem_map.mp he'
  obtain ⟨l, h1, h2⟩ := hall e he
  refine ⟨l, ?_, ?_⟩
  · simp only [normEntryN]; rw [normalizeLabel_normVal (hf e he).1, h1]
  · have hhas : ∀ x, normalizeLabel x ≠ none → hasLabel g x = hasLabel (g.map normEntryN) x :=
      fun x hx => C13.hasLabel_congr_norm g _ (normLabels_normEntryN hf).symm x x rfl hx
    rw [← C13.checkParam_congr g _ hhas hok.1 (labelsOK_normEntryN hf hok).1]
    exact checkParam_normValN g prot l (hf e he).2 (hu e he) h2

/-! ### the wire item of a header map with nested values -/

theorem NestedMapAt.rtVal {d : Nat} {h : GoMap} (hf : NestedMapAt (d + 1) h) (hok : LabelsOK h)
    (hlen : h.length ≤ maxElems) (hd : d + 1 ≤ maxNested) : RTVal d (.map h) := by
  simp only [RTVal, rtPairs_iff]
  refine ⟨hd, hlen, ?_, fun e he => ⟨(hf e he).1.rtKey, (hf e he).2⟩⟩
  exact hok.2.imp_of_mem
    (fun ha hb hab => keyDistinct_of_labelDistinct (hf _ ha).1 (hf _ hb).1 hab)

theorem mapWireN_bytes (h : GoMap) :
    (mapWireN h).bytes
      = encHead 5 h.length ++ concatPairs (sortPairs (h.map (fun e => wireBytes (entryWireN e)))) := by
  simp only [mapWireN, Wire.bytes, List.length_map, sortEntries_length, concat_sortedN, encHead]

/-- everything the round trip establishes for the map item of a bucket met at depth `d` -/
theorem mapWireN_ok (cfg : EncCfg) {d : Nat} {h : GoMap} (hf : NestedMapAt (d + 1) h)
    (hok : LabelsOK h) (hlen : h.length ≤ maxElems) (hd : d + 1 ≤ maxNested) :
    encodePairs cfg h = some (h.map (fun e => wireBytes (entryWireN e))) ∧
    (mapWireN h).wf = true ∧ (∀ t, (mapWireN h).inLimits t d = true) ∧
    (mapWireN h).hasTag = false ∧
    labelsOK ((sortEntries h).map entryWireN) [] = .ok () ∧
    decodePairs ((sortEntries h).map entryWireN) [] = .ok ((sortEntries h).map normEntryN) ∧
    (∀ e ∈ h, decodeAny (wireN e.2) = .ok (normValN e.2)) := by
  have hrt := hf.rtVal hok hlen hd
  obtain ⟨-, h2, h3, h4, -, -⟩ := vok_of_rtVal cfg (.map h) d hrt
  rw [wireN_map_eq] at h2 h3 h4
  have hoks := labelsOK_sorted hok
  have hmem : ∀ e ∈ sortEntries h, e ∈ h := fun e he => (sortEntries_perm h).mem_iff.mp he
  have hent : ∀ e ∈ h, RTKey e.1 ∧ VOK cfg (d + 1) e.2 :=
    fun e he => ⟨(hf e he).1.rtKey, vok_of_rtVal cfg e.2 (d + 1) (hf e he).2⟩
  have hdec : decodePairs ((sortEntries h).map entryWireN) []
      = .ok ((sortEntries h).map normEntryN) := by
    have := decodePairs_N (sortEntries h) []
      (fun e he => ⟨(hent e (hmem e he)).1, (hent e (hmem e he)).2.2.2.2.2.2⟩)
      (keyDistinct_sorted (by simpa [RTVal] using hrt.2.2.1)) (by intro e _; rfl)
    simpa using this
  exact ⟨encodePairs_N cfg (fun e he => ⟨(hent e he).1, (hent e he).2.1⟩), h2, h3, h4,
    labelsOK_N (sortEntries h) [] (fun e he => (hf e (hmem e he)).1) hoks.2 (by intro e _; rfl),
    hdec, fun e he => (hent e he).2.2.2.2.2.2⟩

theorem encodeBucket_N {d : Nat} {h : GoMap} (hf : NestedMapAt (d + 1) h) (prot : Bool)
    (hv : validateHeaderParameters h prot = true) (hlen : h.length ≤ maxElems)
    (hd : d + 1 ≤ maxNested) (hne : h ≠ []) :
    encodeBucket encCfg prot none h
      = some (if prot then encBstr (mapWireN h).bytes else (mapWireN h).bytes) := by
  have hok := C13.validate_labels h prot hv
  obtain ⟨hep, hwf, hlim, -⟩ := mapWireN_ok encCfg hf hok hlen hd
  -- the tags-forbidden well-formedness pass of `UnprotectedHeader.MarshalCBOR` (it starts at
  -- depth 0, whatever depth `d` the bucket is later met at)
  have hw := wellformedNoTags_bytes_at hwf (hlim false)
  rw [mapWireN_bytes] at hw
  cases h with
  | nil => exact absurd rfl hne
  | cons e es =>
    have hv' : encCfg.validate (e :: es) prot = true := hv
    cases prot with
    | true =>
      simp only [encodeBucket, hv', Bool.not_true, Bool.false_eq_true, if_false, if_true, hep,
        mapWireN_bytes]
    | false =>
      simp only [encodeBucket, hv', Bool.not_true, Bool.false_eq_true, if_false, if_true, hep,
        mapWireN_bytes, hw]

theorem sortPairs_one (x : Bytes × Bytes) : sortPairs [x] = [x] := by
  simp [sortPairs]

theorem mapWireN_nil_bytes : (mapWireN []).bytes = [0xa0] := by
  simp only [mapWireN, sortEntries, List.mergeSort_nil, List.map_nil, Wire.bytes,
    Wire.bytesPairs, List.length_nil, List.append_nil]
  rfl

/-! ### the unprotected bucket -/

/-- no value of the nested data model is a countersignature -/
theorem isCsigValue_rtVal {d : Nat} {v : GoVal} (hv : RTVal d v) : isCsigValue v = false := by
  cases v <;> (try simp only [RTVal, FlatVal] at hv) <;> simp [isCsigValue]

theorem isCsigLabel_false_of_checkN {g : GoMap} {l' l v : GoVal} {d : Nat} (hv : RTVal d v)
    (hl : normalizeLabel l' = some l) (h : checkParam g false l v = true) :
    isCsigLabel l' = false := by
  unfold isCsigLabel
  rw [hl]
  split
  · simp only [Option.some.injEq] at *
    rename_i heq
    subst heq
    simp [checkParam, isCsigValue_rtVal hv] at h
  · simp only [Option.some.injEq] at *
    rename_i heq
    subst heq
    simp [checkParam, isCsigValue_rtVal hv] at h
  · rfl

theorem decUnprotPairs_N : ∀ (g : GoMap),
    (∀ e ∈ g, FlatLabel e.1 ∧ decodeAny (wireN e.2) = .ok (normValN e.2)) →
    (∀ e ∈ g, isCsigLabel (normVal e.1) = false) →
    decUnprotPairs (g.map entryWireN) = .ok (g.map normEntryN)
  | [], _, _ => by simp [decUnprotPairs]
  | e :: r, hf, hc => by
    obtain ⟨h1, h2⟩ := hf e (List.mem_cons_self ..)
    have ih := decUnprotPairs_N r (fun x hx => hf x (List.mem_cons_of_mem _ hx))
      (fun x hx => hc x (List.mem_cons_of_mem _ hx))
    rw [List.map_cons, entryWireN, decUnprotPairs]
    simp only [valWire_decode h1.flatVal, hc e (List.mem_cons_self ..), Bool.false_eq_true,
      if_false, h2, ih, List.map_cons, normEntryN]

/-- `UnprotectedHeader.UnmarshalCBOR` on the map item of a validated bucket met at depth `d` -/
theorem decUnprot_mapWireN {d : Nat} {h : GoMap} (hf : NestedMapAt (d + 1) h)
    (hu : ∀ e ∈ h, UintOK e.2) (hv : validateHeaderParameters h false = true)
    (hlen : h.length ≤ maxElems) (hd : d + 1 ≤ maxNested) :
    decUnprot (mapWireN h) = .ok ((sortEntries h).map normEntryN) := by
  have hok := C13.validate_labels h false hv
  have hp := sortEntries_perm h
  obtain ⟨-, hwf, hlim, hnt, hlab, -, hdv⟩ := mapWireN_ok encCfg hf hok hlen hd
  have hscan : headerLabelsUntagged (mapWireN h).bytes = true :=
    ensureUntagged_bytes_noTag _ hwf (hlim true) hnt
  unfold mapWireN at hscan
  have hvs : validateHeaderParameters (sortEntries h) false = true := by
    rw [C13.validate_perm_invariant _ _ hp]; exact hv
  have hcs : ∀ e ∈ sortEntries h, isCsigLabel (normVal e.1) = false := by
    intro e he
    obtain ⟨l, h1, h2⟩ := ((C13.validate_iff _ _).mp hvs).2 e he
    have hfe := hf.sorted e he
    exact isCsigLabel_false_of_checkN hfe.2 (by rw [normalizeLabel_normVal hfe.1]; exact h1) h2
  have hdec := decUnprotPairs_N (sortEntries h)
    (fun e he => ⟨(hf.sorted e he).1, hdv e (hp.mem_iff.mp he)⟩) hcs
  have hvn := validate_normEntryN false hf.sorted (fun e he => hu e (hp.mem_iff.mp he)) hvs
  simp only [mapWireN, decUnprot, hlab, hscan, hdec, hvn, if_true, Bool.not_true,
    Bool.false_eq_true, if_false]

/-! ### the protected bucket -/

theorem mapWireN_bytes_cons {h : GoMap} (hlen : h.length ≤ maxElems) :
    ∃ b0 rest, (mapWireN h).bytes = b0 :: rest ∧ b0.toNat / 32 = 5 := by
  have hb : (mapWireN h).bytes
      = headBytes 5 (HW.shortest h.length) h.length
          ++ Wire.bytesPairs ((sortEntries h).map entryWireN) := by
    simp only [mapWireN, Wire.bytes, List.length_map, sortEntries_length]
  cases hc : (mapWireN h).bytes with
  | nil =>
    have h1 := congrArg List.length hb
    rw [hc] at h1
    have h2 := headBytes_length_pos 5 (HW.shortest h.length) h.length
    simp only [List.length_nil, List.length_append] at h1
    omega
  | cons b0 rest =>
    exact ⟨b0, rest, rfl,
      C02.first_major (by omega) (shortest_fits_elems hlen) (hc.symm.trans hb)⟩

theorem decProtectedContent_mapWireN {h : GoMap} (hf : NestedMap h) (hok : LabelsOK h)
    (hlen : h.length ≤ maxElems) :
    decProtectedContent (mapWireN h).bytes =
      if validateHeaderParameters ((sortEntries h).map normEntryN) true = true
      then .ok ((sortEntries h).map decEntryN) else .err .other := by
  obtain ⟨b0, rest, hc, hb0⟩ := mapWireN_bytes_cons hlen
  obtain ⟨-, hwf, hlim, hnt, hlab, hdec, -⟩ :=
    mapWireN_ok encCfg (d := 0) hf hok hlen (by unfold maxNested; omega)
  have hparse : parseTop true (b0 :: rest)
      = some (.map (HW.shortest h.length) ((sortEntries h).map entryWireN)) := by
    rw [← hc]
    exact parseTop_complete hwf (hlim true)
  have hscan : headerLabelsUntagged (b0 :: rest) = true :=
    ensureUntagged_of_parse_noTag _ hparse hnt
  have hoks := labelsOK_sorted hok
  rw [hc]
  simp only [decProtectedContent, hb0, ne_eq, not_true_eq_false, if_false, hparse, hlab, hdec,
    hscan, Bool.not_true, Bool.false_eq_true, Out.bind_ok, castAlg_normEntryN (NestedMapAt.sorted (d := 1) hf) hoks]
  cases validateHeaderParameters ((sortEntries h).map normEntryN) true <;> rfl

theorem algorithmOf_decEntryN {d : Nat} {g : GoMap} (hf : NestedMapAt d g) (hok : LabelsOK g) :
    algorithmOf (g.map decEntryN) = algSpec g := by
  have hokd := labelsOK_decEntryN hf hok
  by_cases hex : ∃ e0 ∈ g, normalizeLabel e0.1 = some (lbl 1)
  · obtain ⟨e0, he0, hn0⟩ := hex
    obtain ⟨hl0, hv0⟩ := hf e0 he0
    have hk0 : normVal e0.1 = lbl 1 := by
      rw [normalizeLabel_flat hl0] at hn0; exact Option.some.inj hn0
    have h1 : lookupLabel g (lbl 1) = some e0.2 :=
      lookupLabel_of_mem hok he0 normalizeLabel_lbl1 hn0
    have hde : decEntryN e0 = (lbl 1, algCast (normValN e0.2)) := by
      simp only [decEntryN, castEntry, normEntryN, hk0]
      rw [if_pos (by simp [lbl, GoVal.keyEq])]
    have h2 : lookupLabel (g.map decEntryN) (lbl 1) = some (algCast (normValN e0.2)) := by
      have := lookupLabel_of_mem hokd (List.mem_map_of_mem (f := decEntryN) he0)
        normalizeLabel_lbl1 (by rw [hde]; exact normalizeLabel_lbl1)
      rw [this, hde]
    unfold algorithmOf algSpec
    rw [h1, h2]
    cases hv : e0.2 <;> rw [hv] at hv0 <;> (try simp only [RTVal, FlatVal] at hv0) <;>
      simp [normValN, normVal, algCast, IntKind.signed]
  · have hno : ∀ e ∈ g, normalizeLabel e.1 ≠ some (lbl 1) := fun e he hc => hex ⟨e, he, hc⟩
    have h1 : lookupLabel g (lbl 1) = none := lookupLabel_none normalizeLabel_lbl1 hno
    have h2 : lookupLabel (g.map decEntryN) (lbl 1) = none := by
      apply lookupLabel_none normalizeLabel_lbl1
      intro e' he'
      obtain ⟨e, he, rfl⟩ := List.mem_map.mp he'
      rw [decEntryN_fst, normalizeLabel_normVal (hf e he).1]
      exact hno e he
    unfold algorithmOf algSpec
    rw [h1, h2]

end NestedBuckets

/-! ## headline theorems: the buckets -/

namespace C08
open NestedBuckets

/-- 4N. PROTECTED BUCKET WITH NESTED VALUES (the nested form of `protected_bucket_roundtrip`):
    what `MarshalProtected` emits for a validated bucket with flat labels and nested values
    (`crit` arrays, CWT-claims maps, application arrays / maps) is a byte string with a shortest
    head whose content `ProtectedHeader.UnmarshalCBOR` reads back as the same parameters — labels
    normalised, values in decoded normal form (`normValN`), `alg` retyped to `Algorithm`
    (`decEntryN`) — in wire order; `Algorithm()` on the result is `algSpec h`. -/
theorem protected_bucket_roundtrip_nested (h : GoMap) (hf : NestedMap h)
    (hu : ∀ e ∈ h, UintOK e.2) (hv : validateHeaderParameters h true = true)
    (hlen : h.length ≤ maxElems) (b : Bytes)
    (he : encodeBucket encCfg true none h = some b) :
    ∃ (hw : HW) (content : Bytes) (m : GoMap),
      b = headBytes 2 hw content.length ++ content ∧ hw = HW.shortest content.length ∧
      (h ≠ [] → content = (mapWireN h).bytes) ∧
      decProtectedContent content = .ok m ∧
      m = (sortEntries h).map decEntryN ∧ m.Perm (h.map decEntryN) ∧
      algorithmOf m = algSpec h := by
  have hok := C13.validate_labels h true hv
  have hp := sortEntries_perm h
  by_cases hne : h = []
  · subst hne
    simp only [encodeBucket, if_true, Option.some.injEq] at he
    subst he
    refine ⟨.imm, [], [], by decide, by decide, fun hc => absurd rfl hc,
      by simp [decProtectedContent], by simp [sortEntries], by simp,
      by simp [algorithmOf, algSpec, lookupLabel, GoMap.lookup, lbl, normalizeLabel]⟩
  · rw [encodeBucket_N (d := 0) hf true hv hlen (by unfold maxNested; omega) hne] at he
    simp only [if_true, Option.some.injEq] at he
    have hvs : validateHeaderParameters (sortEntries h) true = true := by
      rw [C13.validate_perm_invariant _ _ hp]; exact hv
    have hvn := validate_normEntryN true (NestedMapAt.sorted (d := 1) hf)
      (fun e he => hu e (hp.mem_iff.mp he)) hvs
    refine ⟨HW.shortest (mapWireN h).bytes.length, (mapWireN h).bytes,
      (sortEntries h).map decEntryN, ?_, rfl, fun _ => rfl, ?_, rfl, hp.map decEntryN, ?_⟩
    · rw [← he]; rfl
    · rw [decProtectedContent_mapWireN hf hok hlen, if_pos hvn]
    · rw [algorithmOf_decEntryN (NestedMapAt.sorted (d := 1) hf) (labelsOK_sorted hok),
        algSpec_perm hp (labelsOK_sorted hok)]

/-- 4N on the wire item: the bytes `MarshalProtected` returns parse (in either decode mode) to a
    byte-string item that `ProtectedHeader.UnmarshalCBOR` accepts.  `hb64`: the encoding is
    shorter than 2^64 bytes (true of every Go slice). -/
theorem protected_bucket_wire_roundtrip_nested (h : GoMap) (hf : NestedMap h)
    (hu : ∀ e ∈ h, UintOK e.2) (hv : validateHeaderParameters h true = true)
    (hlen : h.length ≤ maxElems) (b : Bytes)
    (he : encodeBucket encCfg true none h = some b) (hb64 : b.length < 18446744073709551616) :
    ∃ (w : Wire) (m : GoMap), b = w.bytes ∧ (∀ t, parseTop t b = some w) ∧ w.hasTag = false ∧
      decProtected w = .ok m ∧ m = (sortEntries h).map decEntryN ∧ m.Perm (h.map decEntryN) ∧
      algorithmOf m = algSpec h := by
  obtain ⟨hw, content, m, hb, hhw, -, hd, hm, hp, ha⟩ :=
    protected_bucket_roundtrip_nested h hf hu hv hlen b he
  have hfit : hw.fits content.length = true := by
    rw [hhw]
    apply C02.shortest_fits
    have := congrArg List.length hb
    simp only [List.length_append] at this
    omega
  refine ⟨.bstr hw content, m, by rw [hb]; rfl, ?_, rfl, hd, hm, hp, ha⟩
  intro t
  rw [hb]
  exact parseTop_complete (w := .bstr hw content) hfit rfl

/-- 6N. UNPROTECTED BUCKET WITH NESTED VALUES (the nested form of `unprotected_bucket_roundtrip`):
    `MarshalUnprotected` emits the map item `mapWireN h`, which `UnprotectedHeader.UnmarshalCBOR`
    reads back as the same parameters, labels normalised, values in decoded normal form, in wire
    order.  Validation already excludes the countersignature labels 7 and 11 (their values are
    not in the nested data model). -/
theorem unprotected_bucket_roundtrip_nested (h : GoMap) (hf : NestedMap h)
    (hu : ∀ e ∈ h, UintOK e.2) (hv : validateHeaderParameters h false = true)
    (hlen : h.length ≤ maxElems) (b : Bytes)
    (he : encodeBucket encCfg false none h = some b) :
    ∃ (w : Wire) (m : GoMap), b = w.bytes ∧ w = mapWireN h ∧ (∀ t, parseTop t b = some w) ∧
      w.hasTag = false ∧ decUnprot w = .ok m ∧
      m = (sortEntries h).map normEntryN ∧ m.Perm (h.map normEntryN) := by
  have hd0 : 0 + 1 ≤ maxNested := by unfold maxNested; omega
  have hok := C13.validate_labels h false hv
  have hb : b = (mapWireN h).bytes := by
    by_cases hne : h = []
    · subst hne
      simp only [encodeBucket, Bool.false_eq_true, if_false, Option.some.injEq] at he
      rw [mapWireN_nil_bytes, ← he]
    · rw [encodeBucket_N (d := 0) hf false hv hlen hd0 hne] at he
      simpa using he.symm
  subst hb
  obtain ⟨-, hwf, hlim, htag, -⟩ := mapWireN_ok encCfg (d := 0) hf hok hlen hd0
  exact ⟨mapWireN h, _, rfl, rfl, fun t => parseTop_complete hwf (hlim t), htag,
    decUnprot_mapWireN (d := 0) hf hu hv hlen hd0, rfl, (sortEntries_perm h).map normEntryN⟩

/-- 5N. the algorithm found in the decoded protected bucket is the integer stored under label 1
    of the encoded bucket (`algSpec`), for ANY decomposition of the emitted bytes into a fitting
    byte-string head and content.  No `UintOK` hypothesis: that the decoder's validation passed
    is part of `hd`. -/
theorem decoded_alg_nested (h : GoMap) (hne : h ≠ []) (hf : NestedMap h)
    (hv : validateHeaderParameters h true = true) (hlen : h.length ≤ maxElems)
    (b content : Bytes) (hw : HW) (hfit : hw = .imm → content.length < 24)
    (he : encodeBucket encCfg true none h = some b)
    (hb : b = headBytes 2 hw content.length ++ content) (m : GoMap)
    (hd : decProtectedContent content = .ok m) :
    content = (mapWireN h).bytes ∧ m = (sortEntries h).map decEntryN ∧
      m.Perm (h.map decEntryN) ∧ algorithmOf m = algSpec h := by
  have hok := C13.validate_labels h true hv
  have hp := sortEntries_perm h
  rw [encodeBucket_N (d := 0) hf true hv hlen (by unfold maxNested; omega) hne] at he
  simp only [if_true, Option.some.injEq] at he
  have hc : content = (mapWireN h).bytes := by
    have h1 : headBytes 2 (HW.shortest (mapWireN h).bytes.length) (mapWireN h).bytes.length
        ++ (mapWireN h).bytes = headBytes 2 hw content.length ++ content := by
      rw [← hb, ← he]; rfl
    exact (bstr_split_inj h1 (imm_of_shortest _) hfit).2.symm
  subst hc
  rw [decProtectedContent_mapWireN hf hok hlen] at hd
  split at hd
  · simp only [Out.ok.injEq] at hd
    subst hd
    refine ⟨rfl, rfl, hp.map decEntryN, ?_⟩
    rw [algorithmOf_decEntryN (NestedMapAt.sorted (d := 1) hf) (labelsOK_sorted hok),
      algSpec_perm hp (labelsOK_sorted hok)]
  · cases hd

/-- every parameter of the encoded bucket is found again, under any spelling of its label, in
    the decoded protected bucket -/
theorem protected_lookup_roundtrip_nested (h : GoMap) (hf : NestedMap h)
    (hv : validateHeaderParameters h true = true) (e : GoVal × GoVal) (he : e ∈ h) (l : GoVal)
    (hl : normalizeLabel l = normalizeLabel e.1) :
    lookupLabel h l = some e.2 ∧
      lookupLabel ((sortEntries h).map decEntryN) l = some (decEntryN e).2 := by
  have hok := C13.validate_labels h true hv
  have hn := normalizeLabel_flat (hf e he).1
  refine ⟨lookupLabel_of_mem hok he (hl.trans hn) hn, ?_⟩
  have hes : e ∈ sortEntries h := (sortEntries_perm h).mem_iff.mpr he
  exact lookupLabel_of_mem
    (labelsOK_decEntryN (NestedMapAt.sorted (d := 1) hf) (labelsOK_sorted hok))
    (List.mem_map_of_mem (f := decEntryN) hes) (hl.trans hn)
    (by rw [decEntryN_fst, normalizeLabel_normVal (hf e he).1, hn])

/-- the same for the unprotected bucket -/
theorem unprotected_lookup_roundtrip_nested (h : GoMap) (hf : NestedMap h)
    (hv : validateHeaderParameters h false = true) (e : GoVal × GoVal) (he : e ∈ h) (l : GoVal)
    (hl : normalizeLabel l = normalizeLabel e.1) :
    lookupLabel h l = some e.2 ∧
      lookupLabel ((sortEntries h).map normEntryN) l = some (normValN e.2) := by
  have hok := C13.validate_labels h false hv
  have hn := normalizeLabel_flat (hf e he).1
  refine ⟨lookupLabel_of_mem hok he (hl.trans hn) hn, ?_⟩
  have hes : e ∈ sortEntries h := (sortEntries_perm h).mem_iff.mpr he
  exact lookupLabel_of_mem
    (labelsOK_normEntryN (NestedMapAt.sorted (d := 1) hf) (labelsOK_sorted hok))
    (List.mem_map_of_mem (f := normEntryN) hes) (hl.trans hn)
    (by simp only [normEntryN]; rw [normalizeLabel_normVal (hf e he).1, hn])

/-- a validated bucket of the nested data model IS encoded (the `he` premise of 4N / 6N is not
    an extra assumption): the encoder's only other failure causes are values outside the model -/
theorem bucket_encodes_nested (h : GoMap) (prot : Bool) (hf : NestedMap h)
    (hv : validateHeaderParameters h prot = true) (hlen : h.length ≤ maxElems) :
    ∃ b, encodeBucket encCfg prot none h = some b := by
  by_cases hne : h = []
  · subst hne; exact ⟨if prot then [0x40] else [0xa0], by simp only [encodeBucket]⟩
  · exact ⟨_, encodeBucket_N (d := 0) hf prot hv hlen (by unfold maxNested; omega) hne⟩

/-- HEADER VALIDATION ACROSS THE DECODER'S RETYPING: a validated bucket of the nested data model
    is still valid after every label is normalised and every value replaced by its decoded normal
    form — `crit` included, whose entries change Go type (`int` → `int64`) and are looked up
    through `normalizeLabel`. -/
theorem validate_decoded_nested (h : GoMap) (prot : Bool) (hf : NestedMap h)
    (hu : ∀ e ∈ h, UintOK e.2) (hv : validateHeaderParameters h prot = true) :
    validateHeaderParameters (h.map normEntryN) prot = true ∧
      validateHeaderParameters ((sortEntries h).map normEntryN) prot = true := by
  have hp := sortEntries_perm h
  refine ⟨validate_normEntryN (d := 1) prot hf hu hv, ?_⟩
  exact validate_normEntryN prot (NestedMapAt.sorted (d := 1) hf)
    (fun e he => hu e (hp.mem_iff.mp he))
    (by rw [C13.validate_perm_invariant _ _ hp]; exact hv)

/-- the transport is one-directional by nature: a `crit` entry of Go type `Algorithm` is refused
    by `ensureCritical` (not an integer kind), so the bucket is never encoded; its "decoded form"
    `[int64(4)]` would be accepted.  Nothing reaches the wire, so this is not a round-trip
    failure. -/
theorem validate_decoded_nested_converse_counterexample :
    validateHeaderParameters [(lbl 2, .arr [.alg 4]), (lbl 4, .bytes [1])] true = false ∧
    encodeBucket encCfg true none [(lbl 2, .arr [.alg 4]), (lbl 4, .bytes [1])] = none ∧
    validateHeaderParameters
      ([(lbl 2, .arr [.alg 4]), (lbl 4, .bytes [1])].map normEntryN) true = true := by
  have h1 : validateHeaderParameters [(lbl 2, .arr [.alg 4]), (lbl 4, .bytes [1])] true = false := by
    simp [validateHeaderParameters, validateLoop, normalizeLabel, wrap64, checkParam, lbl,
      ensureCritical, canInt, canTstr]
  refine ⟨h1, ?_, ?_⟩
  · simp [encodeBucket, encCfg, h1]
  · simp [normEntryN, normValN, normListN, normVal, validateHeaderParameters, validateLoop,
      normalizeLabel, wrap64, checkParam, lbl, ensureCritical, canInt, canBstr, hasLabel,
      lookupLabel, GoMap.lookup, GoVal.keyEq]

end C08

/-! ## COSE_Sign1 across the wire, nested header values -/

namespace NestedBuckets
open WireClosure

/-- the protected bucket as ONE well-formed byte-string item (nested form of
    `WireClosure.prot_item`) -/
theorem prot_itemN {p : GoMap} (hf : NestedMap p) (hu : ∀ e ∈ p, UintOK e.2)
    (hlen : p.length ≤ maxElems) {P P' : Bytes}
    (he : encodeBucket encCfg true none p = some P) (hd : detBstr P = .ok P') :
    ∃ (hw : HW) (content : Bytes), P = (Wire.bstr hw content).bytes ∧
      (Wire.bstr hw content).wf = true ∧
      decProtected (.bstr hw content) = .ok ((sortEntries p).map decEntryN) ∧
      algorithmOf ((sortEntries p).map decEntryN) = algSpec p := by
  have hv := validate_of_encodeBucket he
  obtain ⟨hw, content, m, hb, hhw, -, hdc, hm, -, ha⟩ :=
    C08.protected_bucket_roundtrip_nested p hf hu hv hlen P he
  obtain ⟨c, ⟨w, hfc, hPeq⟩, -, -⟩ := C02.detBstr_ok_inv P P' hd
  subst hm
  have hPenc : P = encBstr content := by rw [hb, hhw]; rfl
  have hcc : c = content := C01.bstr_eq_encBstr hfc (hPeq.symm.trans hPenc)
  subst hcc
  have hfit : hw.fits c.length = true := by
    rw [hhw]; exact C02.shortest_fits (Reencode.fits_lt hfc)
  exact ⟨hw, c, hb, by simpa [Wire.wf] using hfit, hdc, ha⟩

/-- the unprotected bucket inside a message: the map item sits at depth 1, so its values are met
    at depth 2 (`NestedMapAt 2`) -/
theorem unprot_itemN {u : GoMap} (hf : NestedMapAt 2 u) (hu : ∀ e ∈ u, UintOK e.2)
    (hlen : u.length ≤ maxElems) {U : Bytes}
    (he : encodeBucket encCfg false none u = some U) :
    U = (mapWireN u).bytes ∧ (mapWireN u).wf = true ∧ (mapWireN u).inLimits false 1 = true ∧
      decUnprot (mapWireN u) = .ok ((sortEntries u).map normEntryN) := by
  have hd1 : 1 + 1 ≤ maxNested := by unfold maxNested; omega
  have hv := validate_of_encodeBucket he
  have hok := C13.validate_labels u false hv
  have hb : U = (mapWireN u).bytes := by
    by_cases hne : u = []
    · subst hne
      simp only [encodeBucket, Bool.false_eq_true, if_false, Option.some.injEq] at he
      rw [mapWireN_nil_bytes, ← he]
    · rw [encodeBucket_N (d := 1) hf false hv hlen hd1 hne] at he
      simpa using he.symm
  obtain ⟨-, hwf, hlim, -, -⟩ := mapWireN_ok encCfg (d := 1) hf hok hlen hd1
  exact ⟨hb, hwf, hlim false, decUnprot_mapWireN (d := 1) hf hu hv hlen hd1⟩

theorem ensureIV_decodedN {dp du : Nat} {p u : GoMap} (hfp : NestedMapAt dp p)
    (hfu : NestedMapAt du u) (h : ensureIV p u = true) :
    ensureIV ((sortEntries p).map decEntryN) ((sortEntries u).map normEntryN) = true := by
  have hp : ∀ k, hasLabel ((sortEntries p).map decEntryN) (lbl k) = hasLabel p (lbl k) :=
    hasLabel_sorted_map decEntryN
      (fun e he => by rw [decEntryN_fst]; exact normalizeLabel_normVal (hfp e he).1)
  have hu : ∀ k, hasLabel ((sortEntries u).map normEntryN) (lbl k) = hasLabel u (lbl k) :=
    hasLabel_sorted_map normEntryN
      (fun e he => by simp only [normEntryN]; exact normalizeLabel_normVal (hfu e he).1)
  unfold ensureIV at h ⊢
  rw [hp, hp, hu, hu]
  exact h

/-- CORE (nested form of `WireClosure.sign1_decodes_flat`) -/
theorem sign1_decodes_nested (tagged : Bool) (p u : GoMap) (o : Option Bytes)
    (sig b P P' : Bytes)
    (hfp : NestedMap p) (hfu : NestedMapAt 2 u)
    (hup : ∀ e ∈ p, UintOK e.2) (huu : ∀ e ∈ u, UintOK e.2)
    (hlp : p.length ≤ maxElems) (hlu : u.length ≤ maxElems)
    (ho : blen o < 18446744073709551616) (hsl : sig.length < 18446744073709551616)
    (hsne : sig ≠ [])
    (hP : marshalProtected { p := p, u := u } = .ok P) (hd : detBstr P = .ok P')
    (henc : Sign1.marshal tagged { h := { p := p, u := u }, payload := o, sig := some sig }
      = .ok b) :
    ∃ m2, Sign1.unmarshal tagged b = .ok m2 ∧ m2.payload = o ∧ m2.sig = some sig ∧
      marshalProtected m2.h = .ok P ∧ m2.h.p = (sortEntries p).map decEntryN ∧
      m2.h.u = (sortEntries u).map normEntryN ∧ algorithmOf m2.h.p = algSpec p := by
  have hiv := ensureIV_of_marshal henc
  obtain ⟨P0, U, hz, hP0, hU, hb⟩ := C01.sign1_marshal_ok_inv henc
  have hP0' : marshalProtected { p := p, u := u } = .ok P0 := hP0
  rw [hP] at hP0'
  cases hP0'
  obtain ⟨-, heP⟩ := marshalProtected_ok_inv hP
  obtain ⟨-, heU⟩ := marshalUnprotected_ok_inv hU
  obtain ⟨hw, content, hPb, hpwf, hdp, halg⟩ := prot_itemN hfp hup hlp heP hd
  obtain ⟨hUb, huwf, hulim, hdu⟩ := unprot_itemN hfu huu hlu heU
  have hiv' := ensureIV_decodedN (dp := 1) hfp hfu hiv
  have hplwf := C01.shortItem_wf_of_lt o ho
  have hsgfit : (HW.shortest sig.length).fits sig.length = true := C02.shortest_fits hsl
  have hwf : (Wire.arr .imm [.bstr hw content, mapWireN u, C09.shortItem o,
      .bstr (HW.shortest sig.length) sig]).wf = true := by
    have h4 : HW.fits .imm 4 = true := by decide
    simp only [Wire.wf] at hpwf
    simp [Wire.wf, Wire.wfList, h4, hpwf, huwf, hplwf, hsgfit]
  have hlim : (Wire.arr .imm [.bstr hw content, mapWireN u, C09.shortItem o,
      .bstr (HW.shortest sig.length) sig]).inLimits false 0 = true := by
    simp [Wire.inLimits, Wire.inLimitsList, maxNested, maxElems, hulim, C09.shortItem_inLimits]
  have hpl : WFPayload (C09.shortItem o) := by
    cases o with
    | none => exact .inl rfl
    | some x => exact .inr ⟨_, _, rfl⟩
  have hacc := C07.wf_sign1_accepted_full tagged hwf hlim hdp hdu hiv' hpl hsne
  have hbytes : b = (if tagged then [0xd2] else []) ++ (Wire.arr .imm [.bstr hw content,
      mapWireN u, C09.shortItem o, .bstr (HW.shortest sig.length) sig]).bytes := by
    rw [hb, hPb, hUb]
    have := C09.marshal_tree_bytes (.bstr hw content) (mapWireN u) o (some sig) hz
    simp only [Option.getD_some] at this ⊢
    rw [this]
    rfl
  rw [← hbytes] at hacc
  refine ⟨_, hacc, ?_, rfl, ?_, rfl, rfl, halg⟩
  · cases o <;> rfl
  · exact (Verifies.marshalProtected_raw (p := .bstr hw content) rfl
      (C01.decProtected_modelled hdp)).trans (by rw [hPb])

/-! ### what signing leaves in the protected map is still in the nested data model -/

theorem nestedMapAt_set {d : Nat} {h : GoMap} {k v : GoVal} (hf : NestedMapAt d h)
    (hk : FlatLabel k) (hv : RTVal d v) : NestedMapAt d (h.set k v) := by
  unfold GoMap.set
  split
  · intro e he
    obtain ⟨e0, he0, rfl⟩ := List.mem_map.mp he
    split
    · exact ⟨(hf e0 he0).1, hv⟩
    · exact hf e0 he0
  · intro e he
    rcases List.mem_append.mp he with he | he
    · exact hf e he
    · simp only [List.mem_singleton] at he; subst he; exact ⟨hk, hv⟩

theorem sign_gate_nested {d : Nat} {p p' : GoMap} {alg : Int} {ext : Option Bytes}
    (hg : ensureSigningAlgorithm none p alg ext = .ok p')
    (hf : NestedMapAt d p) (hu : ∀ e ∈ p, UintOK e.2) (ha : int64Range alg) :
    NestedMapAt d p' ∧ (∀ e ∈ p', UintOK e.2) ∧ p'.length ≤ p.length + 1 ∧
      (algorithmOf p' = .found alg ∨
        (algorithmOf p = .notFound ∧ (ext.getD []).length > 0 ∧ algorithmOf p' = .notFound)) := by
  rcases C04.sign_gate_cases none p p' alg ext hg with ⟨hfd, rfl⟩ | ⟨hn, he, rfl⟩ | ⟨hn, _, _, rfl⟩
  · exact ⟨hf, hu, by omega, .inl hfd⟩
  · exact ⟨hf, hu, by omega, .inr ⟨hn, he, hn⟩⟩
  · exact ⟨nestedMapAt_set hf (by simp [lbl, FlatLabel, int64Range])
        (RTVal.of_flat d (v := .alg alg) ha),
      uintOK_set hu (by simp [UintOK]), length_set_le _ _ _, .inl (C01.algorithmOf_set p alg hn)⟩

/-- common part of the attached and the detached flow: `o` is the payload field that is emitted -/
theorem sign1_wire_nested_core (tagged : Bool) (m : Sign1Msg) (ext : Option Bytes) (s : Signer)
    (v : Verifier) (o : Option Bytes) (b : Bytes) (hm : C01.Matches s v)
    (hrp : m.h.rawP = none) (hru : m.h.rawU = none)
    (hfp : NestedMap m.h.p) (hfu : NestedMapAt 2 m.h.u)
    (hup : ∀ e ∈ m.h.p, UintOK e.2) (huu : ∀ e ∈ m.h.u, UintOK e.2)
    (hlp : m.h.p.length < maxElems) (hlu : m.h.u.length ≤ maxElems)
    (ho : blen o < 18446744073709551616) (halg : int64Range s.alg)
    (hsl : ∀ t sg, s.sign t = .ok sg → sg.length < 18446744073709551616)
    (hok : (Sign1.sign m ext s).out = .ok ())
    (henc : Sign1.marshal tagged { (Sign1.sign m ext s).state with payload := o } = .ok b) :
    ∃ m2, Sign1.unmarshal tagged b = .ok m2 ∧ m2.payload = o ∧
      m2.sig = (Sign1.sign m ext s).state.sig ∧
      (Sign1.verify { m2 with payload := m.payload } ext v).1 = .ok () ∧
      m2.h.p = (sortEntries (Sign1.sign m ext s).state.h.p).map decEntryN ∧
      m2.h.u = (sortEntries m.h.u).map normEntryN ∧
      (algorithmOf m2.h.p = .found s.alg ∨
        (algorithmOf m.h.p = .notFound ∧ (ext.getD []).length > 0 ∧
          algorithmOf m2.h.p = .notFound)) := by
  obtain ⟨p', tbs, sig, hpn, hgate, ht, hsg, hst⟩ := C01.sign1_sign_ok_inv m ext s hok
  obtain ⟨⟨rp, p, ru, u⟩, pay, sg0⟩ := m
  simp only at hrp hru hfp hfu hup huu hlp hlu hpn hgate ht hst
  subst hrp hru
  rw [hst] at henc ⊢
  obtain ⟨P, P', hP, hd, rfl⟩ := C01.toBeSigned1_ok_inv ht
  obtain ⟨hfp', hup', hlp', hcase⟩ := sign_gate_nested (d := 1) hgate hfp hup halg
  obtain ⟨m2, hdec, hpay, hs2, hP2, hp2, hu2, ha2⟩ :=
    sign1_decodes_nested tagged p' u o sig b P P' hfp' hfu hup' huu (by omega) hlu ho
      (hsl _ _ hsg) (hm.nonempty _ _ hsg) hP hd henc
  have hgv := C01.gate_after_sign _ _ _ _ _ hgate (C01.algorithmOf_set _ _)
  have hne : algorithmOf p' ≠ .failed .invalidAlg := by
    intro hc
    simp [ensureVerificationAlgorithm, hc] at hgv
  have heq : algorithmOf m2.h.p = algorithmOf p' := by
    rw [ha2, algSpec_eq_algorithmOf p' hne]
  have hgate2 : ensureVerificationAlgorithm m2.h.p v.alg ext = .ok () := by
    unfold ensureVerificationAlgorithm at hgv ⊢
    rw [heq, hm.alg]
    exact hgv
  refine ⟨m2, hdec, hpay, hs2, ?_, hp2, hu2, ?_⟩
  · exact C01.verify_of_same_tbs { m2 with payload := pay } ext s v P P' sig pay hm hP2 hd rfl hpn
      hs2 hsg hgate2
  · rw [heq]
    exact hcase

end NestedBuckets

namespace C01
open NestedBuckets

/-- 1N. COSE_Sign1, END TO END (tagged or untagged), NESTED HEADER VALUES: a message whose header
    maps have flat labels and values in the nested data model (scalars, arrays, maps: `crit`, CWT
    claims, application parameters) that the library signed and encoded is decoded by the
    library, the decoded message verifies under the matching verifier with the same external
    data, and carries the signed payload and the signer's signature. -/
theorem sign1_wire_nested (tagged : Bool) (m : Sign1Msg) (ext : Option Bytes) (s : Signer)
    (v : Verifier) (b : Bytes) (hm : Matches s v)
    (hrp : m.h.rawP = none) (hru : m.h.rawU = none)
    (hfp : NestedMap m.h.p) (hfu : NestedMapAt 2 m.h.u)
    (hup : ∀ e ∈ m.h.p, UintOK e.2) (huu : ∀ e ∈ m.h.u, UintOK e.2)
    (hlp : m.h.p.length < maxElems) (hlu : m.h.u.length ≤ maxElems)
    (hpl : blen m.payload < 18446744073709551616) (halg : int64Range s.alg)
    (hsl : ∀ t sg, s.sign t = .ok sg → sg.length < 18446744073709551616)
    (hok : (Sign1.sign m ext s).out = .ok ())
    (henc : Sign1.marshal tagged (Sign1.sign m ext s).state = .ok b) :
    ∃ m2, Sign1.unmarshal tagged b = .ok m2 ∧ (Sign1.verify m2 ext v).1 = .ok () ∧
      m2.payload = m.payload ∧ m2.sig = (Sign1.sign m ext s).state.sig ∧
      m2.h.p = (sortEntries (Sign1.sign m ext s).state.h.p).map decEntryN ∧
      m2.h.u = (sortEntries m.h.u).map normEntryN := by
  obtain ⟨_, _, _, -, -, -, -, hst⟩ := sign1_sign_ok_inv m ext s hok
  have hpayst : (Sign1.sign m ext s).state.payload = m.payload := by rw [hst]
  have henc' : Sign1.marshal tagged { (Sign1.sign m ext s).state with payload := m.payload }
      = .ok b := by
    rw [← hpayst]; exact henc
  obtain ⟨m2, hdec, hpay, hs2, hver, hp2, hu2, -⟩ :=
    sign1_wire_nested_core tagged m ext s v m.payload b hm hrp hru hfp hfu hup huu hlp hlu hpl
      halg hsl hok henc'
  refine ⟨m2, hdec, ?_, hpay, hs2, hp2, hu2⟩
  obtain ⟨h2, pay2, sg2⟩ := m2
  simp only at hpay
  subst hpay
  exact hver

/-- 2N. detached payload, END TO END, nested header values -/
theorem sign1_wire_detached_nested (tagged : Bool) (m : Sign1Msg) (ext : Option Bytes)
    (s : Signer) (v : Verifier) (b : Bytes) (hm : Matches s v)
    (hrp : m.h.rawP = none) (hru : m.h.rawU = none)
    (hfp : NestedMap m.h.p) (hfu : NestedMapAt 2 m.h.u)
    (hup : ∀ e ∈ m.h.p, UintOK e.2) (huu : ∀ e ∈ m.h.u, UintOK e.2)
    (hlp : m.h.p.length < maxElems) (hlu : m.h.u.length ≤ maxElems)
    (halg : int64Range s.alg)
    (hsl : ∀ t sg, s.sign t = .ok sg → sg.length < 18446744073709551616)
    (hok : (Sign1.sign m ext s).out = .ok ())
    (henc : Sign1.marshal tagged { (Sign1.sign m ext s).state with payload := none } = .ok b) :
    ∃ m2, Sign1.unmarshal tagged b = .ok m2 ∧
      (Sign1.verify { m2 with payload := m.payload } ext v).1 = .ok () ∧ m2.payload = none ∧
      m2.sig = (Sign1.sign m ext s).state.sig := by
  obtain ⟨m2, hdec, hpay, hs2, hver, -⟩ :=
    sign1_wire_nested_core tagged m ext s v none b hm hrp hru hfp hfu hup huu hlp hlu
      (by simp [blen]) halg hsl hok henc
  exact ⟨m2, hdec, hver, hpay, hs2⟩

/-- 3N. the algorithm `Algorithm()` reports on the DECODED message is the signer's — except when
    the caller's protected map names none and external data is supplied (then go-cose signs
    without inserting one, and the decoded message names none either) -/
theorem sign1_wire_nested_alg_cases (tagged : Bool) (m : Sign1Msg) (ext : Option Bytes)
    (s : Signer) (v : Verifier) (b : Bytes) (hm : Matches s v)
    (hrp : m.h.rawP = none) (hru : m.h.rawU = none)
    (hfp : NestedMap m.h.p) (hfu : NestedMapAt 2 m.h.u)
    (hup : ∀ e ∈ m.h.p, UintOK e.2) (huu : ∀ e ∈ m.h.u, UintOK e.2)
    (hlp : m.h.p.length < maxElems) (hlu : m.h.u.length ≤ maxElems)
    (hpl : blen m.payload < 18446744073709551616) (halg : int64Range s.alg)
    (hsl : ∀ t sg, s.sign t = .ok sg → sg.length < 18446744073709551616)
    (hok : (Sign1.sign m ext s).out = .ok ())
    (henc : Sign1.marshal tagged (Sign1.sign m ext s).state = .ok b) :
    ∃ m2, Sign1.unmarshal tagged b = .ok m2 ∧
      (algorithmOf m2.h.p = .found s.alg ∨
        (algorithmOf m.h.p = .notFound ∧ (ext.getD []).length > 0 ∧
          algorithmOf m2.h.p = .notFound)) := by
  obtain ⟨_, _, _, -, -, -, -, hst⟩ := sign1_sign_ok_inv m ext s hok
  have hpayst : (Sign1.sign m ext s).state.payload = m.payload := by rw [hst]
  have henc' : Sign1.marshal tagged { (Sign1.sign m ext s).state with payload := m.payload }
      = .ok b := by
    rw [← hpayst]; exact henc
  obtain ⟨m2, hdec, -, -, -, -, -, hcase⟩ :=
    sign1_wire_nested_core tagged m ext s v m.payload b hm hrp hru hfp hfu hup huu hlp hlu hpl
      halg hsl hok henc'
  exact ⟨m2, hdec, hcase⟩

/-- 3N. C04 across the wire: `hnx` — no external data, or the caller's protected map already
    names an algorithm (needed: `C01.sign1_wire_flat_alg_needs_hnx`) -/
theorem sign1_wire_nested_alg (tagged : Bool) (m : Sign1Msg) (ext : Option Bytes)
    (s : Signer) (v : Verifier) (b : Bytes) (hm : Matches s v)
    (hrp : m.h.rawP = none) (hru : m.h.rawU = none)
    (hfp : NestedMap m.h.p) (hfu : NestedMapAt 2 m.h.u)
    (hup : ∀ e ∈ m.h.p, UintOK e.2) (huu : ∀ e ∈ m.h.u, UintOK e.2)
    (hlp : m.h.p.length < maxElems) (hlu : m.h.u.length ≤ maxElems)
    (hpl : blen m.payload < 18446744073709551616) (halg : int64Range s.alg)
    (hsl : ∀ t sg, s.sign t = .ok sg → sg.length < 18446744073709551616)
    (hnx : (ext.getD []).length = 0 ∨ algorithmOf m.h.p ≠ .notFound)
    (hok : (Sign1.sign m ext s).out = .ok ())
    (henc : Sign1.marshal tagged (Sign1.sign m ext s).state = .ok b) :
    ∃ m2, Sign1.unmarshal tagged b = .ok m2 ∧ algorithmOf m2.h.p = .found s.alg := by
  obtain ⟨m2, hdec, hcase⟩ := sign1_wire_nested_alg_cases tagged m ext s v b hm hrp hru hfp hfu
    hup huu hlp hlu hpl halg hsl hok henc
  refine ⟨m2, hdec, ?_⟩
  rcases hcase with h | ⟨hn, hx, -⟩
  · exact h
  · rcases hnx with h0 | h0
    · omega
    · exact absurd hn h0

end C01

/-! ## why the hypotheses are needed -/

namespace NestedBuckets
open NestedExamples

/-- CWT claims `{int64(1): "a", int(1): "b"}`: two different Go map keys -/
def exDupClaims : GoMap := [(.int .i64 1, .str [0x61]), (.int .i 1, .str [0x62])]

/-- `Pairwise KeyDistinct` inside `RTVal` (keys of a map-valued parameter distinct AFTER encoding)
    cannot be dropped from the bucket theorems: `SetCWTClaims` accepts `exDupClaims`, header
    validation accepts the bucket (it only looks at top-level labels), `MarshalProtected` emits
    `49 a1 0f a2 01 61 61 01 61 62`, and `ProtectedHeader.UnmarshalCBOR` refuses the content
    (duplicate key inside the claims map). -/
theorem protected_bucket_roundtrip_nested_needs_distinct :
    setCWTClaims [] exDupClaims = .ok [(lbl 15, .map exDupClaims)] ∧
    validateHeaderParameters [(lbl 15, .map exDupClaims)] true = true ∧
    encodeBucket encCfg true none [(lbl 15, .map exDupClaims)]
      = some [0x49, 0xa1, 0x0f, 0xa2, 0x01, 0x61, 0x61, 0x01, 0x61, 0x62] ∧
    decProtectedContent [0xa1, 0x0f, 0xa2, 0x01, 0x61, 0x61, 0x01, 0x61, 0x62] = .err .other := by
  have hs : sortPairs [([1], [0x61, 0x61]), ([1], [0x61, 0x62])]
      = [([1], [0x61, 0x61]), ([1], [0x61, 0x62])] :=
    List.mergeSort_of_pairwise (by decide)
  have hv : validateHeaderParameters [(GoVal.int .i64 15, .map exDupClaims)] true = true := by
    simp [validateHeaderParameters, validateLoop, normalizeLabel, wrap64, checkParam]
  refine ⟨?_, hv, ?_, ?_⟩
  · simp [setCWTClaims, exDupClaims, GoMap.lookup, GoVal.keyEq, canTstr, utf8Valid, GoMap.set,
      GoMap.has, lbl]
  · simp only [exDupClaims] at hv
    simp [encodeBucket, encCfg, hv, exDupClaims, lbl, encodePairs, encodeAny, encInt, encTstr,
      encHead, encBstr, HW.shortest, headBytes, hs, sortPairs_one, concatPairs]
  · simp [decProtectedContent, parseTop, parseItem, parsePairs, fuelFor, parseHead,
      maxNested, maxElems, labelsOK, maxInt64, GoVal.keyEq, decodePairs, decodeAny, keyHashable,
      utf8Valid, bind, Out.bind, Wire.stripSelfDescribed,
      (by decide : headerLabelsUntagged [0xa1, 0x0f, 0xa2, 0x01, 0x61, 0x61, 0x01, 0x61, 0x62] = true)]

/-- unprotected `{99: [[…[nil]…]]}` with 31 nested arrays -/
def exDeep : Sign1Msg :=
  { h := { p := [(lbl 1, .alg (-7))], u := [(lbl 99, nestArr 31)] }, payload := some [1, 2, 3] }

def exDeepU : Bytes := 0xa1 :: 0x18 :: 0x63 :: (List.replicate 31 0x81 ++ [0xf6])

theorem exDeep_nested : NestedMap exDeep.h.p ∧ NestedMap exDeep.h.u ∧
    (∀ e ∈ exDeep.h.p, UintOK e.2) ∧ (∀ e ∈ exDeep.h.u, UintOK e.2) := by
  refine ⟨?_, ?_, ?_, ?_⟩ <;> intro e he <;>
    simp only [exDeep, List.mem_cons, List.not_mem_nil, or_false] at he <;> subst he
  · simp [lbl, FlatLabel, RTVal, FlatVal, int64Range]
  · exact ⟨by simp [lbl, FlatLabel, int64Range], nestArr_rt 31 1 (by unfold maxNested; omega)⟩
  · simp [UintOK]
  · simp [UintOK, nestArr]

theorem nestArr_modelled : ∀ n, (nestArr n).modelled = true
  | 0 => rfl
  | n + 1 => by simp [nestArr, GoVal.modelled, GoVal.modelledList, nestArr_modelled n]

theorem exDeep_mpP : marshalProtected exDeep.h = .ok [0x43, 0xa1, 0x01, 0x26] := by
  simp [marshalProtected, exDeep, GoVal.modelledPairs, GoVal.modelled, encodeBucket, encCfg,
    validateHeaderParameters, validateLoop, normalizeLabel, wrap64, checkParam, lbl, encodePairs,
    encodeAny, encInt, encHead, encBstr, HW.shortest, headBytes, sortPairs, concatPairs]

set_option maxRecDepth 8192 in
theorem exDeep_mpU : marshalUnprotected exDeep.h = .ok exDeepU := by
  simp [marshalUnprotected, exDeep, exDeepU, GoVal.modelledPairs, GoVal.modelled,
    nestArr_modelled, encodeBucket,
    encCfg, validateHeaderParameters, validateLoop, normalizeLabel, wrap64, checkParam, lbl,
    encodePairs, nestArr_enc, encodeAny, encInt, encHead, HW.shortest, headBytes, sortPairs_one,
    concatPairs, wellformedNoTags, parseTop,
    fuelFor, parseItem, parseItems, parsePairs, parseHead, maxNested, maxElems]

/-- arrays nested beyond the limit are refused, whatever follows -/
theorem parseItem_too_deep (t : Bool) (r : Bytes) : ∀ (n fuel d : Nat), d + n > maxNested →
    d ≤ maxNested → parseItem t fuel d (List.replicate n 0x81 ++ r) = none
  | 0, _, _, h1, h2 => by omega
  | _, 0, _, _, _ => by simp [parseItem]
  | n + 1, fuel + 1, d, h1, h2 => by
    have hh : parseHead (0x81 :: (List.replicate n 0x81 ++ r))
        = some (4, .imm, 1, List.replicate n 0x81 ++ r) := by
      simp [parseHead]
    rw [List.replicate_succ, List.cons_append, parseItem, hh]
    simp only [Nat.reduceEqDiff, if_false]
    by_cases hd : d + 1 > maxNested
    · simp [hd]
    · have ih := fun f => parseItem_too_deep t r n f (d + 1) (by omega) (by omega)
      cases fuel with
      | zero => simp [hd, maxElems, parseItems]
      | succ f => simp [hd, maxElems, parseItems, ih f]

theorem exDeep_parse (tail : Bytes) (hdeep : ∀ f, parseItem false f 2 tail = none) (f : Nat) :
    parseItem false (f + 6) 0
      (0x84 :: 0x43 :: 0xa1 :: 0x01 :: 0x26 :: 0xa1 :: 0x18 :: 0x63 :: tail) = none := by
  simp [parseItem, parseItems, parsePairs, parseHead, maxNested, maxElems, hdeep]

theorem exDeep_sign : (Sign1.sign exDeep none C01.exS7).out = .ok () ∧
    (Sign1.sign exDeep none C01.exS7).state =
      { h := exDeep.h, payload := some [1, 2, 3], sig := some [7] } := by
  have hg : ensureSigningAlgorithm exDeep.h.rawP exDeep.h.p (-7) none = .ok exDeep.h.p := by rfl
  obtain ⟨t, ht⟩ : ∃ t, Sign1.toBeSigned
      { h := { rawP := exDeep.h.rawP, p := exDeep.h.p, rawU := exDeep.h.rawU, u := exDeep.h.u },
        payload := some [1, 2, 3] } none = .ok t :=
    ⟨_, C01.toBeSigned1_of (m := { h := exDeep.h, payload := some [1, 2, 3] }) exDeep_mpP
      C01.ex_det2⟩
  have hp : exDeep.payload = some [1, 2, 3] := rfl
  have hs : exDeep.sig = none := rfl
  simp [Sign1.sign, hp, hs, blen, hg, ht, C01.exS7]

/-- In `sign1_wire_nested` the unprotected values must fit at depth 2 (`NestedMapAt 2`), one level
    less than what the bucket theorems allow (`NestedMap` = depth 1): inside a message the
    unprotected map is itself one level down.  `exDeep` satisfies every hypothesis of
    `sign1_wire_nested` with `NestedMap` in place of `NestedMapAt 2` (its unprotected bucket makes
    the stand-alone round trip `C08.unprotected_bucket_roundtrip_nested`), the library signs and
    encodes it, and `UnmarshalCBOR` refuses the bytes (nesting level 33 > 32). -/
theorem sign1_wire_nested_needs_depth2 :
    NestedMap exDeep.h.p ∧ NestedMap exDeep.h.u ∧
    (∃ w m, encodeBucket encCfg false none exDeep.h.u = some w.bytes ∧
      (∀ t, parseTop t w.bytes = some w) ∧ decUnprot w = .ok m) ∧
    (Sign1.sign exDeep none C01.exS7).out = .ok () ∧
    Sign1.marshal true (Sign1.sign exDeep none C01.exS7).state
      = .ok (0xd2 :: 0x84 :: ([0x43, 0xa1, 0x01, 0x26] ++ (exDeepU ++ [0x43, 1, 2, 3, 0x41, 7]))) ∧
    Sign1.unmarshal true
      (0xd2 :: 0x84 :: ([0x43, 0xa1, 0x01, 0x26] ++ (exDeepU ++ [0x43, 1, 2, 3, 0x41, 7])))
      = .err .other := by
  obtain ⟨h1, h2, -, h4⟩ := exDeep_nested
  refine ⟨h1, h2, ?_, exDeep_sign.1, ?_, ?_⟩
  · obtain ⟨-, heU⟩ := WireClosure.marshalUnprotected_ok_inv exDeep_mpU
    have heU' : encodeBucket encCfg false none exDeep.h.u = some exDeepU := heU
    obtain ⟨w, m, hb, -, hpt, -, hdu, -⟩ :=
      C08.unprotected_bucket_roundtrip_nested exDeep.h.u h2 h4
        (WireClosure.validate_of_encodeBucket heU') (by simp [exDeep, maxElems]) _ heU'
    exact ⟨w, m, by rw [heU', hb], fun t => by rw [← hb]; exact hpt t, hdu⟩
  · have hiv : ensureIV exDeep.h.p exDeep.h.u = true := by
      simp [ensureIV, exDeep, hasLabel, lookupLabel, GoMap.lookup, GoVal.keyEq, lbl,
        normalizeLabel, wrap64]
    rw [exDeep_sign.2]
    simp [Sign1.marshal, Sign1.content, Hdrs.marshal, exDeep_mpP, exDeep_mpU, hiv, blen, bind,
      Out.bind, optBytesEnc, encBstr, encHead, HW.shortest, headBytes]
  · have hdeep := fun f => parseItem_too_deep false [0xf6, 0x43, 1, 2, 3, 0x41, 7] 31 f 2
      (by unfold maxNested; omega) (by unfold maxNested; omega)
    have hbytes : (0xd2 :: 0x84 :: ([0x43, 0xa1, 0x01, 0x26] ++
        (exDeepU ++ [0x43, 1, 2, 3, 0x41, 7])) : Bytes)
        = 0xd2 :: 0x84 :: 0x43 :: 0xa1 :: 0x01 :: 0x26 :: 0xa1 :: 0x18 :: 0x63 ::
          (List.replicate 31 0x81 ++ [0xf6, 0x43, 1, 2, 3, 0x41, 7]) := by
      simp [exDeepU]
    have hf : fuelFor (0x84 :: 0x43 :: 0xa1 :: 0x01 :: 0x26 :: 0xa1 :: 0x18 :: 0x63 ::
        (List.replicate 31 0x81 ++ [0xf6, 0x43, 1, 2, 3, 0x41, 7])) = 88 + 6 := by
      simp [fuelFor]
    rw [hbytes]
    simp only [Sign1.unmarshal, if_true, Sign1.decodeArr, parseTop, hf, exDeep_parse _ hdeep]

end NestedBuckets

namespace C08
open NestedBuckets NestedExamples

set_option maxRecDepth 8192 in
/-- The depth face of the gate in `UnprotectedHeader.MarshalCBOR` (headers.go:256, the
    tags-forbidden well-formedness pass on the freshly encoded bytes; general statement:
    `C08.fresh_unprotected_bucket_wellformed`).  Unprotected `{99: [[…[nil]…]]}`: with 31 nested
    arrays (32 levels with the map) it is encoded, with 32 it is refused; the protected bucket has
    no such gate and still encodes 32; and the gate is run by every `UnprotectedHeader` on its own
    bytes, so a countersignature whose unprotected bucket is too deep makes the encoding fail also
    where no enclosing unprotected bucket exists (here: stored in a protected bucket) — which is
    why the model has the check in `encodeBucket` and not only in `marshalUnprotected`. -/
theorem unprotected_depth_gate :
    marshalUnprotected exDeep.h = .ok exDeepU ∧
    marshalUnprotected { u := [(lbl 99, nestArr 32)] } = .err .other ∧
    marshalProtected { p := [(lbl 99, nestArr 32)] }
      = .ok (0x58 :: 0x24 :: 0xa1 :: 0x18 :: 0x63 :: (List.replicate 32 0x81 ++ [0xf6])) ∧
    marshalProtected { p := [(lbl 99, .csig none [] none [(lbl 99, nestArr 31)] (some [1]))] }
      = .ok (0x58 :: 0x2a :: 0xa1 :: 0x18 :: 0x63 :: 0x83 :: 0x40 :: (exDeepU ++ [0x41, 0x01])) ∧
    marshalProtected { p := [(lbl 99, .csig none [] none [(lbl 99, nestArr 32)] (some [1]))] }
      = .err .other := by
  have hiv : ∀ u : GoMap, ensureIV [] u = true := by
    intro u
    simp [ensureIV, hasLabel, lookupLabel, GoMap.lookup, lbl, normalizeLabel, wrap64, GoVal.keyEq]
  refine ⟨exDeep_mpU, ?_, ?_, ?_, ?_⟩
  · simp [marshalUnprotected, GoVal.modelledPairs, GoVal.modelled, nestArr_modelled, encodeBucket,
      encCfg, validateHeaderParameters, validateLoop, normalizeLabel, wrap64, checkParam, lbl,
      encodePairs, nestArr_enc, encodeAny, encInt, encHead, HW.shortest, headBytes, sortPairs_one,
      concatPairs, wellformedNoTags, parseTop, fuelFor, parseItem, parseItems, parsePairs,
      parseHead, maxNested, maxElems]
  · simp [marshalProtected, GoVal.modelledPairs, GoVal.modelled, nestArr_modelled, encodeBucket,
      encCfg, validateHeaderParameters, validateLoop, normalizeLabel, wrap64, checkParam, lbl,
      encodePairs, nestArr_enc, encodeAny, encInt, encHead, encBstr, HW.shortest, headBytes,
      sortPairs_one, concatPairs]
  · simp [marshalProtected, GoVal.modelledPairs, GoVal.modelled, nestArr_modelled, encodeBucket,
      encCfg, hiv, validateHeaderParameters, validateLoop, normalizeLabel, wrap64, checkParam, lbl,
      encodePairs, nestArr_enc, encodeAny, encInt, encHead, encBstr, HW.shortest, headBytes,
      sortPairs_one, concatPairs, exDeepU, wellformedNoTags, parseTop, fuelFor, parseItem,
      parseItems, parsePairs, parseHead, maxNested, maxElems]
  · simp [marshalProtected, GoVal.modelledPairs, GoVal.modelled, nestArr_modelled, encodeBucket,
      encCfg, hiv, validateHeaderParameters, validateLoop, normalizeLabel, wrap64, checkParam, lbl,
      encodePairs, nestArr_enc, encodeAny, encInt, encHead, HW.shortest, headBytes,
      sortPairs_one, concatPairs, wellformedNoTags, parseTop, fuelFor, parseItem,
      parseItems, parsePairs, parseHead, maxNested, maxElems]

end C08

/-! ## non-vacuity -/

namespace C01
open NestedBuckets

/-- protected `{1: ES256, 2: [int(-70001)], -70001: [1, {2: true}]}` — a `crit` parameter naming
    an application parameter (the entry of `crit` is spelt with Go `int`, the bucket key with
    `int64`), whose value is an array holding a map — unprotected `{15: {4: 1700000000, 1: "iss"}}`
    (CWT claims, keys given out of order), payload `010203`; nothing retained from a decoder -/
def exNest : Sign1Msg :=
  { h := { p := [(lbl 1, .alg (-7)), (lbl 2, .arr [.int .i (-70001)]),
                 (lbl (-70001), .arr [.int .i 1, .map [(.int .i 2, .bool true)]])],
           u := [(lbl 15, .map [(.int .i 4, .int .i 1700000000),
                                (.int .i 1, .str [0x69, 0x73, 0x73])])] },
    payload := some [1, 2, 3] }

def exNestP : Bytes :=
  [0x54, 0xa3, 0x01, 0x26, 0x02, 0x81, 0x3a, 0x00, 0x01, 0x11, 0x70, 0x3a, 0x00, 0x01, 0x11, 0x70,
   0x82, 0x01, 0xa1, 0x02, 0xf5]

def exNestU : Bytes :=
  [0xa1, 0x0f, 0xa2, 0x01, 0x63, 0x69, 0x73, 0x73, 0x04, 0x1a, 0x65, 0x53, 0xf1, 0x00]

theorem exNest_model : NestedMap exNest.h.p ∧ NestedMapAt 2 exNest.h.u ∧
    (∀ e ∈ exNest.h.p, UintOK e.2) ∧ (∀ e ∈ exNest.h.u, UintOK e.2) := by
  refine ⟨?_, ?_, ?_, ?_⟩ <;> intro e he <;>
    simp only [exNest, List.mem_cons, List.not_mem_nil, or_false] at he
  · rcases he with rfl | rfl | rfl <;>
      simp [lbl, FlatLabel, RTVal, RTList, RTPairs, RTKey, FlatVal, int64Range, maxNested,
        maxElems]
  · subst he
    simp [lbl, FlatLabel, RTVal, RTPairs, RTKey, FlatVal, int64Range, maxNested,
      maxElems, utf8Valid, KeyDistinct, normVal, GoVal.keyEq]
  · rcases he with rfl | rfl | rfl <;> simp [UintOK]
  · subst he; simp [UintOK]

theorem exNest_sortP :
    sortPairs [([1], [38]), ([2], [129, 58, 0, 1, 17, 112]),
               ([58, 0, 1, 17, 112], [130, 1, 161, 2, 245])]
      = [([1], [38]), ([2], [129, 58, 0, 1, 17, 112]),
         ([58, 0, 1, 17, 112], [130, 1, 161, 2, 245])] :=
  List.mergeSort_of_pairwise (by decide)

theorem exNest_valP : validateHeaderParameters exNest.h.p true = true := by
  simp [exNest, validateHeaderParameters, validateLoop, normalizeLabel, wrap64, checkParam, lbl,
    ensureCritical, canInt, canTstr, hasLabel, lookupLabel, GoMap.lookup, GoVal.keyEq]

theorem exNest_mpP : marshalProtected exNest.h = .ok exNestP := by
  have hv : validateHeaderParameters exNest.h.p true = true := exNest_valP
  simp only [exNest, lbl] at hv
  simp [marshalProtected, exNest, exNestP, GoVal.modelledPairs, GoVal.modelled,
    GoVal.modelledList, encodeBucket, encCfg, hv, lbl, encodePairs, encodeAny, encodeList, encInt,
    encHead, encBstr, HW.shortest, headBytes, sortPairs_one, exNest_sortP, concatPairs]

theorem exNest_mpU : marshalUnprotected exNest.h = .ok exNestU := by
  simp [marshalUnprotected, exNest, exNestU, GoVal.modelledPairs, GoVal.modelled, encodeBucket,
    encCfg, validateHeaderParameters, validateLoop, normalizeLabel, wrap64, checkParam, lbl,
    encodePairs, encodeAny, encInt, encTstr, encHead, HW.shortest, headBytes, sortPairs,
    concatPairs, List.mergeSort, List.MergeSort.Internal.splitInTwo, bytesLe, bytesLt,
    wellformedNoTags, parseTop, fuelFor, parseItem, parsePairs, parseHead, maxNested, maxElems]

theorem exNest_det : detBstr exNestP = .ok exNestP := by
  simp [exNestP, detBstr, parseTop, parseItem, fuelFor, parseHead]

theorem exNest_sign : (Sign1.sign exNest none exS7).out = .ok () ∧
    (Sign1.sign exNest none exS7).state =
      { h := exNest.h, payload := some [1, 2, 3], sig := some [7] } := by
  have hg : ensureSigningAlgorithm exNest.h.rawP exNest.h.p (-7) none = .ok exNest.h.p := by rfl
  obtain ⟨t, ht⟩ : ∃ t, Sign1.toBeSigned
      { h := { rawP := exNest.h.rawP, p := exNest.h.p, rawU := exNest.h.rawU, u := exNest.h.u },
        payload := some [1, 2, 3] } none = .ok t :=
    ⟨_, toBeSigned1_of (m := { h := exNest.h, payload := some [1, 2, 3] }) exNest_mpP exNest_det⟩
  have hp : exNest.payload = some [1, 2, 3] := rfl
  have hs : exNest.sig = none := rfl
  simp [Sign1.sign, hp, hs, blen, hg, ht, exS7]

theorem exNest_marshal : Sign1.marshal true (Sign1.sign exNest none exS7).state
    = .ok (0xd2 :: 0x84 :: (exNestP ++ (exNestU ++ [0x43, 1, 2, 3, 0x41, 7]))) := by
  have hiv : ensureIV exNest.h.p exNest.h.u = true := by decide
  rw [exNest_sign.2]
  simp [Sign1.marshal, Sign1.content, Hdrs.marshal, exNest_mpP, exNest_mpU, hiv, blen, bind,
    Out.bind, optBytesEnc, encBstr, encHead, HW.shortest, headBytes]

/-- what the decoder makes of the two buckets of `exNest`: every integer typed `int64` at every
    depth (the `crit` entry included), `alg` retyped to `Algorithm`, the claims sorted -/
theorem exNest_decP : (sortEntries exNest.h.p).map decEntryN =
    [(lbl 1, .alg (-7)), (lbl 2, .arr [.int .i64 (-70001)]),
     (lbl (-70001), .arr [.int .i64 1, .map [(.int .i64 2, .bool true)]])] := by
  simp [exNest, decEntryN, castEntry, normEntryN, normValN, normListN, normPairsN, normVal,
    algCast, lbl, GoVal.keyEq, sortEntries, List.mergeSort, List.MergeSort.Internal.splitInTwo,
    valWire, intWire, Wire.bytes, headBytes, HW.shortest, bytesLe, bytesLt, IntKind.signed]

theorem exNest_decU : (sortEntries exNest.h.u).map normEntryN =
    [(lbl 15, .map [(.int .i64 1, .str [0x69, 0x73, 0x73]),
                    (.int .i64 4, .int .i64 1700000000)])] := by
  simp [exNest, normEntryN, normValN, normPairsN, normVal, lbl, sortEntries, List.mergeSort,
    List.MergeSort.Internal.splitInTwo, valWire, intWire, Wire.bytes, headBytes, HW.shortest,
    bytesLe, bytesLt]

/-- non-vacuity of `sign1_wire_nested`: every hypothesis holds for `exNest` (a `crit` parameter, an
    array-of-map application parameter, CWT claims) with the matching pair `exS7`/`exV7`; the
    theorem yields the decoded, verified message and its header maps -/
example : ∃ m2,
    Sign1.unmarshal true (0xd2 :: 0x84 :: (exNestP ++ (exNestU ++ [0x43, 1, 2, 3, 0x41, 7])))
      = .ok m2 ∧
    (Sign1.verify m2 none exV7).1 = .ok () ∧ m2.payload = some [1, 2, 3] ∧ m2.sig = some [7] ∧
    m2.h.p = (sortEntries exNest.h.p).map decEntryN ∧
    m2.h.u = (sortEntries exNest.h.u).map normEntryN := by
  obtain ⟨h1, h2, h3, h4⟩ := exNest_model
  obtain ⟨m2, hdec, hver, hpay, hsig, hp2, hu2⟩ :=
    sign1_wire_nested true exNest none exS7 exV7 _ exSV7 rfl rfl h1 h2 h3 h4
      (by simp [exNest, maxElems]) (by simp [exNest, maxElems]) (by simp [exNest, blen])
      (by simp [exS7, int64Range]) (by intro t sg h; cases h; simp) exNest_sign.1 exNest_marshal
  refine ⟨m2, hdec, hver, hpay, by rw [hsig, exNest_sign.2], ?_, hu2⟩
  rw [hp2, exNest_sign.2]

end C01
