/-
  CoseProofs.Deep.CsigClosures — the remaining END-TO-END theorems for header buckets that carry
  COUNTERSIGNATURE VALUES (unprotected labels 7 / 11, `GoVal.csig` / `GoVal.csigs`, to any nesting
  depth the decoder admits).  `Deep/CsigRoundTrip` did the value, the bucket and COSE_Sign1; this
  file does COSE_Sign (body AND signer slots), the stand-alone countersignature, and the clear-raw
  fixpoint for a DECODED COSE_Sign1 whose unprotected bucket holds decoded countersignatures.
  Core Lean only; nothing outside this file is modified.

  DEPTHS (as in `Deep/NestedClosures`; a countersignature adds TWO levels: its 3-array and its
  unprotected map).  `HMap d u`: the values of `u` are met at depth `d`.
    COSE_Sign body / stand-alone COSE_Countersignature, unprotected      `HMap 2`
    signer slot of a COSE_Sign, unprotected                               `HMap 4` (`CsigSlot`)
  so a countersignature in a slot has its own unprotected values at depth 6, and at most 14
  countersignatures can be nested inside a slot (15 inside the body).  Every `NestedMapAt d` is an
  `HMap d`, every `NestedSlot` a `CsigSlot` (`csigSlot_of_nested`): each theorem implies its
  `_nested` original.

  WHAT IS PROVED, in plain words
    1. C01.signmsg_wire_csig            = `signmsg_wire_nested` with `HMap 2` for the body's
         unprotected bucket and `CsigSlot` (`HMap 4`) for every signer slot: `SignMessage.Sign` ok
         ∧ `MarshalCBOR` ok ⟹ `UnmarshalCBOR` ok ∧ `Verify` ok with the positionally matching
         verifiers ∧ same payload, as many signer entries, the signers' signatures ∧ the decoded
         unprotected maps of the body AND OF EVERY SIGNER SLOT are the entry-wise normal forms
         `(sortEntries u).map cnormEntry` (countersignatures in decoded form `cnorm`).
         C01.signmsg_wire_detached_csig: the detached-payload flow.
    2. C01.countersignature_wire_csig   = `countersignature_wire_nested`, every parent kind, for a
         stand-alone countersignature whose OWN unprotected bucket is an `HMap 2` — a
         countersignature carrying countersignatures.
    3. clear-raw: the application discards the retained raw bytes of a DECODED COSE_Sign1 AT EVERY
       LEVEL — `clearRawDeep m`: `RawProtected = RawUnprotected = nil` of the message and,
       recursively, of every countersignature in its unprotected bucket (`clearV` / `clearPairs`,
       identical to `clearRawVal none` / `Hdrs.clearRawTo none` of the differential-test driver).
       C09.clear_raw_decodable_csig     decoded header values in the data model (`NestedMap
         m.h.p`, `DMap 2 m.h.u`) ⟹ `clearRawDeep m` marshals to `b'`, which unmarshals to `m'`
         with the same payload and signature, `m'.h.p = (sortEntries m.h.p).map decEntryN`,
         `m'.h.u = (sortEntries m.h.u).map cnormEntry` — every countersignature decoded again from
         its canonical bytes (`cnorm_csig`: raw buckets = the re-emitted bucket bytes, protected
         map canonical, unprotected map sorted and normal, same signature) — `Perm`, lookups under
         any spelling of a label, equal `Algorithm()`, and `m'` is again in the data model.
       C09.clear_raw_fixpoint_csig      for ANY such `b'`, `m'`: `clearRawDeep m'` marshals to
         `b'` again and `b'` decodes to `m'` again: ONE cycle reaches the fixpoint at every level
         of nesting.  C09.clearCycleDeep_idempotent_csig is the composed form.
       C09.unprotected_clear_raw_fixpoint_csig   the stand-alone bucket level.
       C08.csig_value_clear_raw_fixpoint          the value level: one decoded countersignature
         value `v`; `clearV v` is encoded as one item `w'` within the limits at the same depth,
         `w'` decodes to `cnorm v`, and `cnorm v` / `clearV (cnorm v)` are encoded as the same
         bytes.
       The value-level reasons: `pc_all` (MAIN LEMMA: a decoded, validated countersignature value
       of the data model, raw bytes discarded, is in the region `CsigOK` of `Deep/CsigRoundTrip`
       — validation, `ensureIV`, sizes, depths, non-empty signature are all DERIVED from "the
       decoder accepted it"), `cnorm_clearV` / `cwire_clearV` (normal form and emitted item do not
       depend on retained raw bytes), `cwire_clear_cnorm` (`clearV (cnorm v)` is emitted as the
       same item as `v`), `decOK_cnorm` (what the decoder returns is again in the data model).
    4. non-vacuity, every hypothesis discharged by computation:
       `C01.exMsgCs` — COSE_Sign, body unprotected `{4: h'3131', 11: [cs1, cs2]}`, TWO slots, the
         second with unprotected `{7: cs1}`; emitted bytes `exMsgCsBytes` spelt out; decoded body
         map `{4: h'3131', 11: [cs1N, cs2N]}`, decoded slot map `{7: cs1N}` — for 1;
       a stand-alone countersignature with unprotected `{7: cs1}`
         (`83 43a10126 (a1 07 83 43a10126 a1044132 420102) 4107`) on a signed COSE_Sign1 — for 2;
       `CsigClearRawExamples.exBC` — a COSE_Sign1 on the wire with unprotected `{11: [cs1, cs2]}`
         whose first countersignature has a NON-CANONICAL protected bucket (`58 03 a10126`): it
         decodes to `{11: [cs1D, cs2N]}` (`cs1D` retains `58 03 a1 01 26`), `clearRawDeep` +
         encode gives `exBC' ≠ exBC` (shortest head `43 a10126` inside the countersignature),
         `exBC'` decodes to `{11: [cs1N, cs2N]}`, and clearing + encoding THAT gives `exBC'`
         again — for 3.

  HYPOTHESES THAT REMAIN, AND WHY
    * 1, 2: exactly those of `signmsg_wire_nested` / `countersignature_wire_nested` with `HMap` in
      place of `NestedMapAt` + `UintOK` for the unprotected buckets (`HMap` contains `UintOK` for
      the plain values and everything the encoder checks for a countersignature: `CsigOK`); the
      reasons are given in `Deep/CsigRoundTrip` and `Deep/NestedClosures`.
    * 3: ONLY the two data-model hypotheses on the decoded maps.  `DMap d u`: every value is
      `RTVal d` (the nested data model, at the depth the parser met it) or a decoded
      countersignature value `DecOK d`: protected map a `NestedMap`, unprotected map a `DMap`
      again (depth + 2), and — the one clause that is not about header VALUES — the retained
      `RawProtected` of every countersignature is shorter than 2^64 bytes.  That clause is true of
      every Go slice; it is there only because `CsigRT.ProtOK` (reused unchanged) asks for the
      whole re-encoded protected ITEM, head included, to be shorter than 2^64 bytes, and the
      re-encoding is never longer than the raw bytes it replaces (`protOK_of_decoded`,
      `shortest_head_mono`); the content bound alone is derivable from well-formedness.  Labels
      need NO hypothesis (`FlatLabel` is derived from the wire), nor do validation, `ensureIV`,
      `isCsigLabel`, sizes, depths, signatures.
  No target statement turned out false in the model, and no counterexample resembling a library
  defect was found: inside the data model every decoded countersignature value, raw bytes
  discarded at every level, is re-encoded to bytes the decoder accepts and reads back with the
  same content (up to the documented normalisation).  (As for the message itself, re-encoding a
  countersignature whose protected bucket was not canonical changes its protected bytes, hence
  its `ToBeSigned`: expected clear-raw behaviour, outside these statements.)
  NOT DONE: the driver's `r = some []` variant (`RawX = RawX[:0]`; `encodeBucket` treats it like
  `none`, but `CsigOK` asks for `none`); a wire-side sufficient condition for `DMap` in the style
  of `C09.nested_of_plain_items`; clear-raw for COSE_Sign / stand-alone countersignatures;
  `_alg` variants.
  Axioms: propext, Quot.sound, Classical.choice.
-/
import CoseProofs.Deep.CsigRoundTrip
import CoseProofs.Deep.NestedClosures
open CoseModel CoseSpec RoundTrip NestedBuckets

namespace CsigClosures
open CsigRT WireClosure ClearRaw NestedClosures

/-! ### discarding the retained raw bytes, at every level -/

mutual
/-- `RawProtected = nil`, `RawUnprotected = nil` in every countersignature inside the value
    (`clearRawVal none` of the differential-test driver) -/
def clearV : GoVal → GoVal
  | .csig _ p _ u sg => .csig none p none (clearPairs u) sg
  | .csigs cs => .csigs (clearList cs)
  | v => v
def clearList : List GoVal → List GoVal
  | [] => []
  | x :: xs => clearV x :: clearList xs
def clearPairs : List (GoVal × GoVal) → List (GoVal × GoVal)
  | [] => []
  | (k, v) :: r => (k, clearV v) :: clearPairs r
end

def clearEntry (e : GoVal × GoVal) : GoVal × GoVal := (e.1, clearV e.2)

/-- the decoded message with ALL retained raw header bytes discarded: its own two buckets and,
    recursively, those of every countersignature in its unprotected bucket
    (`Hdrs.clearRawTo none` of the driver) -/
def clearRawDeep (m : Sign1Msg) : Sign1Msg :=
  { h := { rawP := none, p := m.h.p, rawU := none, u := clearPairs m.h.u },
    payload := m.payload, sig := m.sig }

theorem clearList_eq (xs : List GoVal) : clearList xs = xs.map clearV := by
  induction xs with
  | nil => rfl
  | cons x r ih => simp only [clearList, ih, List.map_cons]

theorem clearPairs_eq (g : GoMap) : clearPairs g = g.map clearEntry := by
  induction g with
  | nil => rfl
  | cons e r ih => obtain ⟨k, v⟩ := e; simp only [clearPairs, ih, List.map_cons, clearEntry]

theorem clearV_csig (rp ru sg : Option Bytes) (p u : GoMap) :
    clearV (.csig rp p ru u sg) = .csig none p none (u.map clearEntry) sg := by
  simp only [clearV, clearPairs_eq]

theorem clearV_csigs (cs : List GoVal) : clearV (.csigs cs) = .csigs (cs.map clearV) := by
  simp only [clearV, clearList_eq]

theorem clearV_other {v : GoVal} (h : isCs v = false) : clearV v = v := by
  cases v <;> simp only [isCs, reduceCtorEq] at h <;> simp only [clearV]

theorem isCs_clearV (v : GoVal) : isCs (clearV v) = isCs v := by
  cases v <;> simp only [clearV, isCs]

theorem isCs_normValN {v : GoVal} (h : isCs v = false) : isCs (normValN v) = false := by
  cases v <;> simp only [isCs, reduceCtorEq] at h <;> simp [normValN, normVal, isCs]

/-! ### entry-wise maps that keep what is emitted -/

theorem umapWire_sortEntries (g : GoMap) : umapWire (sortEntries g) = umapWire g := by
  unfold umapWire
  rw [sortEntries_sortEntries, sortEntries_length]

/-- an entry-wise map that keeps the emitted entry keeps the emitted map item -/
theorem umapWire_map (f : GoVal × GoVal → GoVal × GoVal)
    (hk : ∀ e, valWire (f e).1 = valWire e.1) (g : GoMap)
    (hf : ∀ e ∈ g, centryWire (f e) = centryWire e) : umapWire (g.map f) = umapWire g := by
  unfold umapWire
  rw [sortEntries_map_key f hk, List.length_map, List.map_map]
  congr 1
  apply List.map_congr_left
  intro e he
  exact hf e ((sortEntries_perm g).mem_iff.mp he)

theorem cnormSorted_map (f : GoVal × GoVal → GoVal × GoVal)
    (hk : ∀ e, valWire (f e).1 = valWire e.1) (g : GoMap)
    (hf : ∀ e ∈ g, cnormEntry (f e) = cnormEntry e) :
    (sortEntries (g.map f)).map cnormEntry = (sortEntries g).map cnormEntry := by
  rw [sortEntries_map_key f hk, List.map_map]
  apply List.map_congr_left
  intro e he
  exact hf e ((sortEntries_perm g).mem_iff.mp he)

/-- the emitted item does not depend on the retained raw bytes … -/
theorem cwire_clearV : ∀ v : GoVal, cwire (clearV v) = cwire v := by
  intro v
  induction v using cs_ind with
  | hcsig rp p ru u sg ih =>
    rw [clearV_csig, cwire_csig, cwire_csig,
      umapWire_map clearEntry (fun _ => rfl) u
        (fun e he => by simp only [centryWire, clearEntry, ih e he])]
  | hcsigs cs ih =>
    rw [clearV_csigs, cwire_csigs, cwire_csigs, List.length_map, List.map_map]
    congr 1
    exact List.map_congr_left (fun x hx => ih x hx)
  | hother v hn => rw [clearV_other hn]

/-- … nor does the decoded normal form -/
theorem cnorm_clearV : ∀ v : GoVal, cnorm (clearV v) = cnorm v := by
  intro v
  induction v using cs_ind with
  | hcsig rp p ru u sg ih =>
    rw [clearV_csig, cnorm_csig, cnorm_csig,
      umapWire_map clearEntry (fun _ => rfl) u
        (fun e he => by simp only [centryWire, clearEntry, cwire_clearV]),
      cnormSorted_map clearEntry (fun _ => rfl) u
        (fun e he => by simp only [cnormEntry, clearEntry, ih e he])]
  | hcsigs cs ih =>
    rw [clearV_csigs, cnorm_csigs, cnorm_csigs, List.map_map]
    congr 1
    exact List.map_congr_left (fun x hx => ih x hx)
  | hother v hn => rw [clearV_other hn]

theorem cnormEntry_clearEntry (e : GoVal × GoVal) : cnormEntry (clearEntry e) = cnormEntry e := by
  simp only [cnormEntry, clearEntry, cnorm_clearV]

theorem centryWire_clearEntry (e : GoVal × GoVal) : centryWire (clearEntry e) = centryWire e := by
  simp only [centryWire, clearEntry, cwire_clearV]

theorem umapWire_clear (u : GoMap) : umapWire (u.map clearEntry) = umapWire u :=
  umapWire_map clearEntry (fun _ => rfl) u (fun e _ => centryWire_clearEntry e)

theorem cnormSorted_clear (u : GoMap) :
    (sortEntries (u.map clearEntry)).map cnormEntry = (sortEntries u).map cnormEntry :=
  cnormSorted_map clearEntry (fun _ => rfl) u (fun e _ => cnormEntry_clearEntry e)

theorem protWire_canonP (p : GoMap) : protWire ((sortEntries p).map decEntryN) = protWire p := by
  have hc : protContent ((sortEntries p).map decEntryN) = protContent p := by
    unfold protContent
    cases p with
    | nil => simp [sortEntries_nil]
    | cons e es =>
      have hne : ((sortEntries (e :: es)).map decEntryN).isEmpty = false := by
        rw [List.isEmpty_eq_false_iff]
        intro hc
        have := congrArg List.length hc
        simp [sortEntries_length] at this
      rw [hne, mapWireN_canonP]
      rfl
  unfold protWire
  rw [hc]

/-- the decoded form, raw bytes discarded at every level, is emitted as the very same item: the
    value-level reason why ONE clear-raw cycle reaches the fixpoint -/
theorem cwire_clear_cnorm : ∀ v : GoVal, cwire (clearV (cnorm v)) = cwire v := by
  intro v
  induction v using cs_ind with
  | hcsig rp p ru u sg ih =>
    rw [cnorm_csig, clearV_csig, cwire_csig, cwire_csig, protWire_canonP, List.map_map,
      umapWire_map (clearEntry ∘ cnormEntry)
        (fun e => by simp only [Function.comp, clearEntry, cnormEntry, valWire_of_normVal])
        (sortEntries u)
        (fun e he => by
          simp only [Function.comp, centryWire, clearEntry, cnormEntry, valWire_of_normVal,
            ih e ((sortEntries_perm u).mem_iff.mp he)]),
      umapWire_sortEntries]
  | hcsigs cs ih =>
    rw [cnorm_csigs, clearV_csigs, cwire_csigs, cwire_csigs, List.length_map, List.length_map,
      List.map_map, List.map_map]
    congr 1
    exact List.map_congr_left (fun x hx => ih x hx)
  | hother v hn =>
    rw [cnorm_other hn, clearV_other (isCs_normValN hn), cwire_other (isCs_normValN hn),
      cwire_other hn, wireN_normValN]

/-! ### the data model for DECODED unprotected buckets -/

mutual
/-- `DecOK d v`: the DECODED countersignature value `v`, met at nesting depth `d`, has its header
    values in the data model: the protected map of every countersignature is a `NestedMap`, the
    values of its unprotected map are `RTVal` at the depth the parser met them or again decoded
    countersignature values; and the retained `RawProtected` is shorter than 2^64 bytes (true of
    every Go slice).  Everything else `CsigOK` demands is DERIVED from "the decoder accepted". -/
def DecOK : Nat → GoVal → Prop
  | d, .csig rp p _ u _ =>
      (∀ r, rp = some r → r.length < 18446744073709551616) ∧ NestedMap p ∧ DPairs (d + 2) u
  | d, .csigs cs => DElems (d + 1) cs
  | _, _ => False
def DElems : Nat → List GoVal → Prop
  | _, [] => True
  | d, x :: xs => DecOK d x ∧ DElems d xs
def DPairs : Nat → List (GoVal × GoVal) → Prop
  | _, [] => True
  | d, (_, v) :: r => (RTVal d v ∨ DecOK d v) ∧ DPairs d r
end

/-- a decoded unprotected map whose values, met at depth `d`, are in the nested data model or are
    decoded countersignature values with headers in the data model -/
def DMap (d : Nat) (u : GoMap) : Prop := ∀ e ∈ u, RTVal d e.2 ∨ DecOK d e.2

theorem dPairs_iff (d : Nat) (u : GoMap) : DPairs d u ↔ DMap d u := by
  unfold DMap
  induction u with
  | nil => simp [DPairs]
  | cons e r ih =>
    obtain ⟨k, v⟩ := e
    simp only [DPairs, ih, List.forall_mem_cons]

theorem dElems_iff (d : Nat) (l : List GoVal) : DElems d l ↔ ∀ x ∈ l, DecOK d x := by
  induction l with
  | nil => simp [DElems]
  | cons e r ih => simp only [DElems, ih, List.forall_mem_cons]

theorem DecOK.isCs {d : Nat} {v : GoVal} (h : DecOK d v) : isCs v = true := by
  cases v <;> simp only [DecOK] at h <;> rfl

/-- every decoded map of the nested data model is a `DMap` -/
theorem DMap.of_nested {d : Nat} {u : GoMap} (hf : NestedMapAt d u) : DMap d u :=
  fun e he => .inl (hf e he).2

/-! ### header validation does not look at retained raw bytes -/

theorem isCsig1_clearV (x : GoVal) : isCsig1 (clearV x) = isCsig1 x := by
  cases x <;> simp only [clearV, isCsig1]

theorem isCsigValue_clearV (v : GoVal) (h : isCsigValue v = true) :
    isCsigValue (clearV v) = true := by
  rw [isCsigValue_eq] at h
  cases v <;> simp only [Bool.false_eq_true] at h
  case csig rp p ru u sg => rw [clearV_csig]; rfl
  case csigs cs =>
    rw [clearV_csigs, isCsigValue_eq]
    simp only [Bool.and_eq_true, Bool.not_eq_true', List.isEmpty_eq_false_iff, List.all_eq_true,
      ne_eq, List.map_eq_nil_iff, List.mem_map, forall_exists_index, and_imp,
      forall_apply_eq_imp_iff₂] at h ⊢
    exact ⟨h.1, fun x hx => by rw [isCsig1_clearV]; exact h.2 x hx⟩

theorem checkParam_clearV (g : GoMap) (prot : Bool) (l v : GoVal)
    (h : checkParam g prot l v = true) : checkParam g prot l (clearV v) = true := by
  cases hcs : isCs v with
  | false => rw [clearV_other hcs]; exact h
  | true =>
    apply checkParam_mono g prot l _ _ _ _ (isCsigValue_clearV v) h
    all_goals
      cases v <;> simp only [isCs, Bool.false_eq_true] at hcs <;>
        simp [canInt, canTstr, tstrOrUintOK, canUint, canBstr, ensureCritical]

theorem normLabels_clear (g : GoMap) : normLabels (g.map clearEntry) = normLabels g := by
  unfold normLabels
  rw [List.map_map]
  rfl

theorem hasLabel_clear (g : GoMap) (x : GoVal) (hx : normalizeLabel x ≠ none) :
    hasLabel (g.map clearEntry) x = hasLabel g x :=
  C13.hasLabel_congr_norm _ _ (normLabels_clear g) x x rfl hx

theorem validate_clear {g : GoMap} (hv : validateHeaderParameters g false = true) :
    validateHeaderParameters (g.map clearEntry) false = true := by
  rw [C13.validate_iff] at hv ⊢
  obtain ⟨hok, hall⟩ := hv
  have hok' : LabelsOK (g.map clearEntry) := by
    rw [labelsOK_iff_normLabels, normLabels_clear, ← labelsOK_iff_normLabels]
    exact hok
  refine ⟨hok', ?_⟩
  · intro e' he'
    obtain ⟨e, he, rfl⟩ := List.mem_map.mp he'
    obtain ⟨l, h1, h2⟩ := hall e he
    refine ⟨l, h1, ?_⟩
    rw [C13.checkParam_congr _ g (fun x hx => hasLabel_clear g x hx) hok'.1 hok.1]
    exact checkParam_clearV g false l e.2 h2

theorem ensureIV_clear (p u : GoMap) : ensureIV p (u.map clearEntry) = ensureIV p u := by
  have h5 : hasLabel (u.map clearEntry) (lbl 5) = hasLabel u (lbl 5) :=
    hasLabel_clear u _ (by simp [lbl, normalizeLabel])
  have h6 : hasLabel (u.map clearEntry) (lbl 6) = hasLabel u (lbl 6) :=
    hasLabel_clear u _ (by simp [lbl, normalizeLabel])
  unfold ensureIV
  rw [h5, h6]

/-- under a countersignature label validation demands a countersignature value -/
theorem isCsigValue_of_check {g : GoMap} {l' l v : GoVal} (hc : isCsigLabel l' = true)
    (hl : normalizeLabel l' = some l) (h : checkParam g false l v = true) :
    isCsigValue v = true := by
  unfold isCsigLabel at hc
  rw [hl] at hc
  split at hc
  · rename_i heq; cases heq; simpa [checkParam] using h
  · rename_i heq; cases heq; simpa [checkParam] using h
  · cases hc

/-- the generic decoder never produces a countersignature object -/
theorem decodeAny_not_cs {w : Wire} {v : GoVal} (h : decodeAny w = .ok v) : isCs v = false := by
  cases hn : isNode v with
  | true => cases v <;> simp only [isNode, reduceCtorEq] at hn <;> rfl
  | false =>
    cases w with
    | arr hw xs => obtain ⟨l, -, rfl⟩ := decodeAny_arr_ok h; rfl
    | map hw kvs => obtain ⟨l, -, rfl⟩ := decodeAny_map_ok h; rfl
    | uint hw n => unfold decodeAny at h; split at h <;> cases h; rfl
    | nint hw n => unfold decodeAny at h; split at h <;> cases h; rfl
    | bstr hw b => unfold decodeAny at h; cases h; rfl
    | tstr hw b => unfold decodeAny at h; split at h <;> cases h; rfl
    | tag hw t x => unfold decodeAny at h; cases h
    | prim hw n =>
      cases hw <;> unfold decodeAny at h
      · (repeat' split at h) <;> cases h <;> rfl
      · cases h; rfl
      · cases h
      · cases h
      · cases h; rfl

/-! ### the protected bucket of a decoded countersignature -/

theorem shortest_head_mono (m : Nat) {n n' : Nat} {w : HW} (hle : n ≤ n')
    (hf : w.fits n' = true) :
    (headBytes m (HW.shortest n) n).length ≤ (headBytes m w n').length := by
  unfold HW.shortest
  cases w <;> simp only [HW.fits, decide_eq_true_eq] at hf <;>
    (repeat' split) <;> simp only [headBytes, List.length_cons, List.length_nil] <;> omega

/-- a decoded protected bucket of the data model, re-encoded from its map, is a `ProtOK` bucket;
    the re-encoding is not longer than the retained raw bytes -/
theorem protOK_of_decoded {hw : HW} {enc : Bytes} {p : GoMap}
    (hd : decProtectedContent enc = .ok p) (hwf : hw.fits enc.length = true) (hf : NestedMap p)
    (hsz : (Wire.bstr hw enc).bytes.length < 18446744073709551616) : ProtOK p := by
  have hv := C13.decoded_reencodable enc p hd
  have hu := protected_decoded_uintOK hd
  have hlen := protected_decoded_length hd
  refine ⟨hf, hu, hv, hlen, ?_⟩
  intro b hb
  obtain ⟨content, hE1, hc0, hc1, -, -⟩ := protected_canonN hf hu hv hlen
  rw [hE1] at hb
  cases hb
  have hle : content.length ≤ enc.length := by
    by_cases hne : p = []
    · rw [hc0 hne]; simp
    · rw [hc1 hne]; exact protected_decoded_bytes_leN hd hf hne
  have hh := shortest_head_mono 2 hle hwf
  simp only [Wire.bytes, List.length_append] at hsz
  simp only [encBstr, encHead, List.length_append]
  omega

/-! ### the decoded value, raw bytes discarded, is in the region of `Deep/CsigRoundTrip` -/

/-- what is shown, by induction, of one decoded countersignature value -/
def PC (v : GoVal) : Prop :=
  ∀ (d : Nat) (w : Wire) (t : Bool), decCsigValue w = .ok v → w.wf = true →
    w.inLimits t d = true → DecOK d v → isCsigValue v = true → CsigOK d (clearV v)

/-- one decoded unprotected bucket whose map item was met at depth `d`: with the raw bytes inside
    discarded it is a validated `HMap (d + 1)` within the decoder's size limits -/
theorem dbucket {d : Nat} {t : Bool} {uw : Wire} {u : GoMap} (hd : decUnprot uw = .ok u)
    (hwf : uw.wf = true) (hlim : uw.inLimits t d = true) (hm : DMap (d + 1) u)
    (ih : ∀ e ∈ u, PC e.2) :
    HMap (d + 1) (u.map clearEntry) ∧
      validateHeaderParameters (u.map clearEntry) false = true ∧
      (u.map clearEntry).length ≤ maxElems ∧ d + 1 ≤ maxNested := by
  have hlen := unprotected_decoded_length hd hlim
  have huok := unprotected_decoded_uintOK hd
  obtain ⟨hw, kvs, rfl, -, hdp, hv⟩ := C05.decUnprot_ok hd
  have hok := C13.validate_labels u false hv
  simp only [Wire.wf, Bool.and_eq_true, wfPairs_iff] at hwf
  simp only [Wire.inLimits, Bool.and_eq_true, decide_eq_true_eq, inLimitsPairs_iff] at hlim
  refine ⟨?_, validate_clear hv, by rw [List.length_map]; exact hlen, hlim.1.1⟩
  intro e' he'
  obtain ⟨e, he, rfl⟩ := List.mem_map.mp he'
  obtain ⟨kv, hkv, h1, h2⟩ := (decUnprotPairs_rel kvs u hdp).mem_right e he
  refine ⟨flatLabel_of_dec h1 (hwf.2 kv hkv).1 (hok.1 e he), ?_⟩
  simp only [clearEntry]
  rcases hm e he with hrt | hdo
  · rw [clearV_other (isCs_rtVal hrt)]
    exact .inl ⟨hrt, huok e he⟩
  · rcases h2 with ⟨-, h2⟩ | ⟨hc, h2⟩
    · have := hdo.isCs
      rw [decodeAny_not_cs h2] at this
      cases this
    · obtain ⟨l, hl, hchk⟩ := ((C13.validate_iff u false).mp hv).2 e he
      exact .inr ⟨hc, ih e he (d + 1) kv.2 t h2 (hwf.2 kv hkv).2 (hlim.2 kv hkv).2 hdo
        (isCsigValue_of_check hc hl hchk)⟩

theorem pc_csig (rp ru sg : Option Bytes) (p u : GoMap) (ih : ∀ e ∈ u, PC e.2) :
    PC (.csig rp p ru u sg) := by
  intro d w t hdec hwf hlim hdo _
  simp only [DecOK, dPairs_iff] at hdo
  obtain ⟨hraw, hfp, hmu⟩ := hdo
  have hc : ∃ xs, w = .arr .imm xs ∧ decSigFields xs = .ok (.csig rp p ru u sg) := by
    rcases C05.csig_value_accept w _ hdec with ⟨xs, hx, c, hc, hv⟩ | ⟨_, _, l, -, -, hv⟩ | ⟨-, hv⟩
    · exact ⟨xs, hx, hv ▸ hc⟩
    · cases hv
    · cases hv
  obtain ⟨xs, rfl, hsf⟩ := hc
  obtain ⟨pw, uw, sgw, sig, pm, um, rfl, hsg, hz, hp, hu, hiv, hv⟩ := C05.decSigFields_ok hsf
  cases hv
  obtain ⟨hws, c, rfl, hcne, rfl⟩ := Accept.wfsig_of_dec hsg hz
  obtain ⟨hwp, enc, rfl, -⟩ := C05.protected_is_bstr_of_map pw _ hp
  have hpc : decProtectedContent enc = .ok p := hp
  simp only [Wire.wf, Wire.wfList, Bool.and_eq_true] at hwf
  obtain ⟨-, hpwf, huwf, hsgwf, -⟩ := hwf
  simp only [Wire.inLimits, Wire.inLimitsList, Bool.and_eq_true, decide_eq_true_eq] at hlim
  obtain ⟨⟨hd1, -⟩, -, hulim, -⟩ := hlim
  obtain ⟨hmap, hval, hlen, hd2⟩ := dbucket hu huwf hulim hmu ih
  rw [clearV_csig]
  simp only [CsigOK, hPairs_iff]
  refine ⟨trivial, trivial, ⟨c, rfl, hcne, Reencode.fits_lt hsgwf⟩, hd2,
    protOK_of_decoded hpc hpwf hfp (hraw _ rfl), hval, hlen, ?_, hmap⟩
  rw [ensureIV_clear]
  exact hiv

theorem pc_csigs (cs : List GoVal) (ih : ∀ x ∈ cs, PC x) : PC (.csigs cs) := by
  intro d w t hdec hwf hlim hdo hcv
  simp only [DecOK, dElems_iff] at hdo
  rw [isCsigValue_eq] at hcv
  simp only [Bool.and_eq_true, Bool.not_eq_true', List.isEmpty_eq_false_iff,
    List.all_eq_true] at hcv
  obtain ⟨hne, hall⟩ := hcv
  have hc : ∃ hw xs, w = .arr hw xs ∧ decCsigList xs = .ok cs := by
    rcases C05.csig_value_accept w _ hdec with ⟨xs, -, c, hc, hv⟩ | ⟨hw, xs, l, hx, hl, hv⟩ | ⟨-, hv⟩
    · obtain ⟨_, _, _, _, _, _, -, -, -, -, -, -, rfl⟩ := C05.decSigFields_ok hc
      cases hv
    · cases hv
      exact ⟨hw, xs, hx, hl⟩
    · cases hv
  obtain ⟨hw, xs, rfl, hl⟩ := hc
  obtain ⟨hlen, hidx⟩ := C05.csig_list_accept xs cs hl
  simp only [Wire.wf, Bool.and_eq_true, wfList_iff] at hwf
  simp only [Wire.inLimits, Bool.and_eq_true, decide_eq_true_eq, inLimitsList_iff] at hlim
  rw [clearV_csigs]
  simp only [CsigOK, csigElems_iff]
  refine ⟨by simpa using hne, by rw [List.length_map, hlen]; exact hlim.1.2, hlim.1.1, ?_⟩
  intro x' hx'
  obtain ⟨x, hx, rfl⟩ := List.mem_map.mp hx'
  obtain ⟨i, hi, rfl⟩ := List.getElem_of_mem hx
  have hi' : i < xs.length := by omega
  have h1 := hall _ hx
  rw [isCsig1_clearV]
  refine ⟨h1, ?_⟩
  rcases hidx i hi' hi with ⟨-, hnil⟩ | ⟨ys, hys, hsf⟩
  · rw [hnil] at h1; cases h1
  · have hmem : xs[i] ∈ xs := List.getElem_mem hi'
    have hcv : isCsigValue cs[i] = true := by
      generalize cs[i] = y at h1
      cases y <;> simp only [isCsig1, Bool.false_eq_true] at h1
      rfl
    have hw1 := hwf.2 _ hmem
    have hl1 := hlim.2 _ hmem
    rw [hys] at hw1 hl1
    exact ih _ hx (d + 1) (.arr .imm ys) t (decCsigValue_single hsf) hw1 hl1 (hdo _ hx) hcv

/-- MAIN LEMMA.  A countersignature value the decoder returned (under label 7 / 11, so validated:
    `isCsigValue`) for a well-formed item within the parser's limits at depth `d`, whose header
    values are in the data model, is — once ALL its retained raw bytes are discarded — a value of
    the region `CsigOK d` of `Deep/CsigRoundTrip`: the encoder accepts it and the round-trip
    theorems there apply. -/
theorem pc_all : ∀ v : GoVal, PC v := by
  intro v
  induction v using cs_ind with
  | hcsig rp p ru u sg ih => exact pc_csig rp ru sg p u ih
  | hcsigs cs ih => exact pc_csigs cs ih
  | hother v hn =>
    intro d w t _ _ _ hdo _
    rw [hdo.isCs] at hn
    cases hn

/-! ### what the decoder returns for the region is again a decoded value of the data model -/

theorem dmap_cnorm_of {d : Nat} {u : GoMap} (hm : HMap d u)
    (ih : ∀ e ∈ u, CsigOK d e.2 → DecOK d (cnorm e.2)) :
    DMap d ((sortEntries u).map cnormEntry) := by
  intro e' he'
  obtain ⟨e, he, rfl⟩ := List.mem_map.mp he'
  have hem : e ∈ u := (sortEntries_perm u).mem_iff.mp he
  simp only [cnormEntry]
  rcases (hm e hem).2 with ⟨hrt, -⟩ | ⟨-, hc⟩
  · rw [cnorm_other (isCs_rtVal hrt)]
    exact .inl (C08.normValN_closed encCfg e.2 d hrt).1
  · exact .inr (ih e hem hc)

theorem decOK_cnorm : ∀ (v : GoVal) (d : Nat), CsigOK d v → DecOK d (cnorm v) := by
  intro v
  induction v using cs_ind with
  | hcsig rp p ru u sg ih =>
    intro d h
    simp only [CsigOK, hPairs_iff] at h
    obtain ⟨-, -, -, -, hp, -, -, -, hm⟩ := h
    rw [cnorm_csig]
    simp only [DecOK, dPairs_iff]
    refine ⟨?_, nestedMapAt_decEntryN (NestedMapAt.sorted (d := 1) hp.1),
      dmap_cnorm_of hm (fun e he => ih e he (d + 2))⟩
    intro r hr
    cases hr
    exact hp.2.2.2.2 _ (prot_ok hp).1
  | hcsigs cs ih =>
    intro d h
    simp only [CsigOK, csigElems_iff] at h
    obtain ⟨-, -, -, hel⟩ := h
    rw [cnorm_csigs]
    simp only [DecOK, dElems_iff]
    intro x' hx'
    obtain ⟨x, hx, rfl⟩ := List.mem_map.mp hx'
    exact ih x hx (d + 1) (hel x hx).2
  | hother v hn =>
    intro d h
    rw [h.isCs] at hn
    cases hn

theorem dmap_cnorm {d : Nat} {u : GoMap} (hm : HMap d u) :
    DMap d ((sortEntries u).map cnormEntry) :=
  dmap_cnorm_of hm (fun e _ => decOK_cnorm e.2 d)

/-! ### every value of the region is a value whose encoding the model mirrors -/

theorem csigOK_modelled : ∀ (v : GoVal) (d : Nat), CsigOK d v → v.modelled = true := by
  intro v
  induction v using cs_ind with
  | hcsig rp p ru u sg ih =>
    intro d h
    simp only [CsigOK, hPairs_iff] at h
    obtain ⟨-, -, -, -, hp, -, -, -, hm⟩ := h
    simp only [GoVal.modelled, Bool.and_eq_true]
    refine ⟨nested_modelled hp.1, ?_⟩
    rw [C01.modelledPairs_iff]
    intro e he
    refine ⟨flatVal_modelled (hm e he).1.flatVal, ?_⟩
    rcases (hm e he).2 with ⟨hrt, -⟩ | ⟨-, hc⟩
    · exact rtVal_modelled e.2 _ hrt
    · exact ih e he _ hc
  | hcsigs cs ih =>
    intro d h
    simp only [CsigOK, csigElems_iff] at h
    obtain ⟨-, -, -, hel⟩ := h
    simp only [GoVal.modelled]
    rw [modelledList_iff]
    exact fun x hx => ih x hx _ (hel x hx).2
  | hother v hn =>
    intro d h
    rw [h.isCs] at hn
    cases hn

theorem hmap_modelled {d : Nat} {u : GoMap} (hm : HMap d u) : GoVal.modelledPairs u = true := by
  rw [C01.modelledPairs_iff]
  intro e he
  refine ⟨flatVal_modelled (hm e he).1.flatVal, ?_⟩
  rcases (hm e he).2 with ⟨hrt, -⟩ | ⟨-, hc⟩
  · exact rtVal_modelled e.2 _ hrt
  · exact csigOK_modelled e.2 _ hc

/-! ### the unprotected bucket of a decoded layer: one clear-raw cycle -/

/-- what one clear-raw cycle makes of a decoded unprotected map: entries in the encoder's order,
    every value in the decoder's normal form (`cnorm`: countersignatures decoded again from the
    canonical bytes, retaining THOSE as their raw buckets) -/
def canonUC (u : GoMap) : GoMap := (sortEntries u).map cnormEntry

theorem umapWire_clear_canonUC (u : GoMap) :
    umapWire ((canonUC u).map clearEntry) = umapWire u := by
  unfold canonUC
  rw [List.map_map,
    umapWire_map (clearEntry ∘ cnormEntry)
      (fun e => by simp only [Function.comp, clearEntry, cnormEntry, valWire_of_normVal])
      (sortEntries u)
      (fun e _ => by
        simp only [Function.comp, centryWire, clearEntry, cnormEntry, valWire_of_normVal,
          cwire_clear_cnorm]),
    umapWire_sortEntries]

/-- CORE of the bucket level: a decoded unprotected bucket (map item met at depth `d`) of the data
    model.  With all raw bytes discarded it is encoded as the item `umapWire u`, which the decoder
    accepts and reads back as `canonUC u`; and `canonUC u`, raw bytes discarded again, is encoded
    as the very same bytes. -/
theorem unprotected_canonC {d : Nat} {t : Bool} {uw : Wire} {u : GoMap}
    (hd : decUnprot uw = .ok u) (hwf : uw.wf = true) (hlim : uw.inLimits t d = true)
    (hm : DMap (d + 1) u) :
    HMap (d + 1) (u.map clearEntry) ∧ HMap (d + 1) ((canonUC u).map clearEntry) ∧
      encodeBucket encCfg false none (u.map clearEntry) = some (umapWire u).bytes ∧
      (umapWire u).wf = true ∧ (∀ t, (umapWire u).inLimits t d = true) ∧
      (umapWire u).hasTag = false ∧
      decUnprot (umapWire u) = .ok (canonUC u) ∧ DMap (d + 1) (canonUC u) ∧
      encodeBucket encCfg false none ((canonUC u).map clearEntry) = some (umapWire u).bytes := by
  obtain ⟨hmap, hval, hlen, hd1⟩ := dbucket hd hwf hlim hm (fun e _ => pc_all e.2)
  obtain ⟨hE, hWf, hLim, hTag, hDec⟩ :=
    ubucket_ok d _ (hmap_entries hmap hval (fun e _ => cok_of_csigOK e.2 (d + 1))) hval
      (validate_sorted_cnorm hmap hval) hlen hd1
  rw [umapWire_clear] at hE hWf hLim hTag hDec
  rw [cnormSorted_clear] at hDec
  have hDec : decUnprot (umapWire u) = .ok (canonUC u) := hDec
  have hdm : DMap (d + 1) (canonUC u) := by
    have := dmap_cnorm hmap
    rw [cnormSorted_clear] at this
    exact this
  obtain ⟨hmap2, hval2, hlen2, -⟩ :=
    dbucket (t := t) hDec hWf (hLim t) hdm (fun e _ => pc_all e.2)
  obtain ⟨hE2, -, -, -, -⟩ :=
    ubucket_ok d _ (hmap_entries hmap2 hval2 (fun e _ => cok_of_csigOK e.2 (d + 1))) hval2
      (validate_sorted_cnorm hmap2 hval2) hlen2 hd1
  rw [umapWire_clear_canonUC] at hE2
  exact ⟨hmap, hmap2, hE, hWf, hLim, hTag, hDec, hdm, hE2⟩

/-! ### COSE_Sign1 -/

theorem clearRawDeep_u (m : Sign1Msg) : (clearRawDeep m).h.u = m.h.u.map clearEntry :=
  clearPairs_eq _

/-- the message the decoder returns for the bytes of the first clear-raw cycle -/
def canonMsgC (P U : Bytes) (m : Sign1Msg) : Sign1Msg :=
  { h := { rawP := some P, p := canonP m.h.p, rawU := some U, u := canonUC m.h.u },
    payload := m.payload, sig := m.sig }

/-- CORE (the form of `NestedClosures.clear_raw_core_nested` with countersignatures): a decoded
    COSE_Sign1 whose header values are in the data model, ALL raw bytes discarded, is emitted as
    bytes `b'` that decode to the canonical message, and that canonical message, all raw bytes
    discarded, is emitted as `b'` again -/
theorem clear_raw_core_csig (tagged : Bool) (b : Bytes) (m : Sign1Msg)
    (hd : Sign1.unmarshal tagged b = .ok m) (hfp : NestedMap m.h.p) (hfu : DMap 2 m.h.u) :
    ∃ (b' P U : Bytes), Sign1.marshal tagged (clearRawDeep m) = .ok b' ∧
      Sign1.unmarshal tagged b' = .ok (canonMsgC P U m) ∧
      Sign1.marshal tagged (clearRawDeep (canonMsgC P U m)) = .ok b' ∧
      DMap 2 (canonUC m.h.u) := by
  obtain ⟨p, u, pl, sg, -, -, hwf, hlim, hpl, hsg, hz, hh⟩ := C09.sign1_envelope_full hd
  obtain ⟨hp, hu, hiv, -, -⟩ := C09.decHeaders_ok hh
  obtain ⟨hw, c, rfl, hc, hs⟩ := Accept.wfsig_of_dec hsg hz
  obtain ⟨hwp, enc, rfl, -⟩ := C05.protected_is_bstr_of_map p _ hp
  have hpc : decProtectedContent enc = .ok m.h.p := hp
  simp only [Wire.wf, Wire.wfList, Bool.and_eq_true] at hwf
  obtain ⟨-, hpwf, huwf, hplwf, hsgwf, -⟩ := hwf
  simp only [Wire.inLimits, Wire.inLimitsList, Bool.and_eq_true] at hlim
  obtain ⟨-, -, hulim, -⟩ := hlim
  -- the two buckets
  have hvp := C13.decoded_reencodable enc _ hpc
  obtain ⟨content, hE1, hc0, hc1, hD, hE2⟩ :=
    protected_canonN hfp (protected_decoded_uintOK hpc) hvp (protected_decoded_length hpc)
  have hle : content.length ≤ enc.length := by
    by_cases hne : m.h.p = []
    · rw [hc0 hne]; simp
    · rw [hc1 hne]; exact protected_decoded_bytes_leN hpc hfp hne
  obtain ⟨hmap1, hmap2, hU1, hUwf, hUlim, -, hDu, hdm, hU2⟩ :=
    unprotected_canonC (d := 1) hu huwf hulim hfu
  have hflu : ∀ e ∈ m.h.u, FlatLabel e.1 :=
    fun e he => (hmap1 (clearEntry e) (List.mem_map_of_mem he)).1
  have hiv' : ensureIV (canonP m.h.p) (canonUC m.h.u) = true :=
    ensureIV_cdecoded hfp hflu hiv
  -- the emitted tree
  have hclen : content.length < 18446744073709551616 := by
    have := Reencode.fits_lt hpwf
    omega
  have hPfit : (HW.shortest content.length).fits content.length = true :=
    Reencode.shortest_fits hclen
  have hsgfit : (HW.shortest c.length).fits c.length = true :=
    Reencode.shortest_fits (Reencode.fits_lt hsgwf)
  have hplwf' := C09.shortItem_wf hplwf hpl
  have hwfT : (Wire.arr .imm [.bstr (HW.shortest content.length) content, umapWire m.h.u,
      C09.shortItem m.payload, .bstr (HW.shortest c.length) c]).wf = true := by
    have h4 : HW.fits .imm 4 = true := by decide
    simp [Wire.wf, Wire.wfList, h4, hPfit, hUwf, hplwf', hsgfit]
  have hlimT : (Wire.arr .imm [.bstr (HW.shortest content.length) content, umapWire m.h.u,
      C09.shortItem m.payload, .bstr (HW.shortest c.length) c]).inLimits false 0 = true := by
    have := hUlim false
    simp [Wire.inLimits, Wire.inLimitsList, maxNested, maxElems, this, C09.shortItem_inLimits]
  have hplW : WFPayload (C09.shortItem m.payload) := by
    cases m.payload with
    | none => exact .inl rfl
    | some x => exact .inr ⟨_, _, rfl⟩
  have hacc := C07.wf_sign1_accepted_full tagged hwfT hlimT
    (p := .bstr (HW.shortest content.length) content) hD hDu hiv' hplW hc
  have hpay : Accept.payloadOf (C09.shortItem m.payload) = m.payload := by
    cases m.payload <;> rfl
  rw [hpay, ← hs] at hacc
  -- the emitted bytes
  have hbytes : ∀ (P U : Bytes), P = encBstr content → U = (umapWire m.h.u).bytes →
      C09.pre tagged ++ 0x84 :: (P ++ (U ++ (optBytesEnc m.payload ++ encBstr (m.sig.getD []))))
      = (if tagged then [0xd2] else []) ++ (Wire.arr .imm [.bstr (HW.shortest content.length)
          content, umapWire m.h.u, C09.shortItem m.payload,
          .bstr (HW.shortest c.length) c]).bytes := by
    intro P U hP hU
    subst hP hU
    have := C09.marshal_tree_bytes (.bstr (HW.shortest content.length) content) (umapWire m.h.u)
      m.payload m.sig hz
    have hsi : C09.shortItem m.sig = .bstr (HW.shortest c.length) c := by rw [hs]; rfl
    rw [hsi] at this
    rw [← this]
    rfl
  have hfp1 : NestedMap (canonP m.h.p) := nestedMapAt_decEntryN (NestedMapAt.sorted (d := 1) hfp)
  have hiv1 : ensureIV (clearRawDeep m).h.p (clearRawDeep m).h.u = true := by
    rw [clearRawDeep_u, ensureIV_clear]; exact hiv
  have hm1 : Sign1.marshal tagged (clearRawDeep m) = .ok (C09.pre tagged ++ 0x84 ::
      (encBstr content ++ ((umapWire m.h.u).bytes ++
        (optBytesEnc m.payload ++ encBstr (m.sig.getD []))))) :=
    marshal_of_buckets (m := clearRawDeep m) hz hiv1
      (marshalProtected_of_bucket rfl (nested_modelled hfp) hE1)
      (marshalUnprotected_of_bucket rfl (by rw [clearRawDeep_u]; exact hmap_modelled hmap1)
        (by rw [clearRawDeep_u]; exact hU1))
  refine ⟨_, (Wire.bstr (HW.shortest content.length) content).bytes, (umapWire m.h.u).bytes,
    hm1.trans (by rw [hbytes _ _ rfl rfl]), hacc, ?_, hdm⟩
  have hu2 : (clearRawDeep (canonMsgC (Wire.bstr (HW.shortest content.length) content).bytes
      (umapWire m.h.u).bytes m)).h.u = (canonUC m.h.u).map clearEntry := clearPairs_eq _
  have hiv2 : ensureIV (clearRawDeep (canonMsgC (Wire.bstr (HW.shortest content.length)
      content).bytes (umapWire m.h.u).bytes m)).h.p
      (clearRawDeep (canonMsgC (Wire.bstr (HW.shortest content.length) content).bytes
      (umapWire m.h.u).bytes m)).h.u = true := by
    rw [hu2, ensureIV_clear]; exact hiv'
  have hm2 := marshal_of_buckets (tagged := tagged)
    (m := clearRawDeep (canonMsgC (Wire.bstr (HW.shortest content.length) content).bytes
      (umapWire m.h.u).bytes m)) hz hiv2
    (marshalProtected_of_bucket rfl (nested_modelled hfp1) hE2)
    (marshalUnprotected_of_bucket rfl (by rw [hu2]; exact hmap_modelled hmap2)
      (by rw [hu2]; exact hU2))
  exact hm2.trans (by rw [← hbytes _ _ rfl rfl]; rfl)

end CsigClosures

/-! ## COSE_Sign and stand-alone countersignatures: tools -/

namespace CsigClosures
open CsigRT WireClosure SignWireClosure NestedClosures

/-- the region is downward closed in the depth -/
theorem CsigOK.mono : ∀ (v : GoVal) (d d' : Nat), d' ≤ d → CsigOK d v → CsigOK d' v := by
  intro v
  induction v using cs_ind with
  | hcsig rp p ru u sg ih =>
    intro d d' hle h
    simp only [CsigOK, hPairs_iff] at h ⊢
    obtain ⟨h1, h2, h3, hd, hp, hv, hlen, hiv, hm⟩ := h
    refine ⟨h1, h2, h3, by omega, hp, hv, hlen, hiv, ?_⟩
    intro e he
    refine ⟨(hm e he).1, ?_⟩
    rcases (hm e he).2 with ⟨hrt, hu⟩ | ⟨hl, hc⟩
    · exact .inl ⟨RTVal.mono e.2 _ _ (by omega) hrt, hu⟩
    · exact .inr ⟨hl, ih e he _ _ (by omega) hc⟩
  | hcsigs cs ih =>
    intro d d' hle h
    simp only [CsigOK, csigElems_iff] at h ⊢
    obtain ⟨h1, h2, hd, hel⟩ := h
    exact ⟨h1, h2, by omega, fun x hx => ⟨(hel x hx).1, ih x hx _ _ (by omega) (hel x hx).2⟩⟩
  | hother v hn =>
    intro d d' _ h
    rw [h.isCs] at hn
    cases hn

theorem HMap.mono {d d' : Nat} {u : GoMap} (hle : d' ≤ d) (hm : HMap d u) : HMap d' u := by
  intro e he
  refine ⟨(hm e he).1, ?_⟩
  rcases (hm e he).2 with ⟨hrt, hu⟩ | ⟨hl, hc⟩
  · exact .inl ⟨RTVal.mono e.2 _ _ hle hrt, hu⟩
  · exact .inr ⟨hl, CsigOK.mono e.2 _ _ hle hc⟩

/-- the unprotected bucket whose map item is met at depth `d` (values at depth `d + 1`),
    countersignature values allowed: the form of `NestedClosures.unprot_itemAt` -/
theorem unprot_itemAtC {d : Nat} {u : GoMap} (hf : HMap (d + 1) u) (hlen : u.length ≤ maxElems)
    (hd : d + 1 ≤ maxNested) {U : Bytes} (he : encodeBucket encCfg false none u = some U) :
    U = (umapWire u).bytes ∧ (umapWire u).wf = true ∧
      (∀ t d', d' ≤ d → (umapWire u).inLimits t d' = true) ∧
      decUnprot (umapWire u) = .ok ((sortEntries u).map cnormEntry) := by
  have hv := validate_of_encodeBucket he
  obtain ⟨hue, hwf, -, -, hdec⟩ :=
    ubucket_ok d u (hmap_entries hf hv (fun e _ => cok_of_csigOK e.2 (d + 1))) hv
      (validate_sorted_cnorm hf hv) hlen hd
  rw [hue] at he
  cases he
  refine ⟨rfl, hwf, ?_, hdec⟩
  intro t d' hle
  have hf' : HMap (d' + 1) u := HMap.mono (by omega) hf
  exact (ubucket_ok d' u (hmap_entries hf' hv (fun e _ => cok_of_csigOK e.2 (d' + 1))) hv
    (validate_sorted_cnorm hf' hv) hlen (by omega)).2.2.1 t

/-- one header layer whose unprotected bucket may carry countersignatures: the form of
    `NestedClosures.layer_itemsN` -/
theorem layer_itemsC {d : Nat} {p u : GoMap} (hfp : NestedMap p) (hfu : HMap (d + 1) u)
    (hd : d + 1 ≤ maxNested) (hup : ∀ e ∈ p, UintOK e.2)
    (hlp : p.length ≤ maxElems) (hlu : u.length ≤ maxElems) {P P' U : Bytes}
    (hP : marshalProtected { p := p, u := u } = .ok P) (hdet : detBstr P = .ok P')
    (hU : marshalUnprotected { p := p, u := u } = .ok U) (hiv : ensureIV p u = true) :
    ∃ (hw : HW) (content : Bytes), P = (Wire.bstr hw content).bytes ∧ U = (umapWire u).bytes ∧
      (Wire.bstr hw content).wf = true ∧ (umapWire u).wf = true ∧
      (∀ t d', d' ≤ d → (umapWire u).inLimits t d' = true) ∧
      decProtected (.bstr hw content) = .ok ((sortEntries p).map decEntryN) ∧
      decUnprot (umapWire u) = .ok ((sortEntries u).map cnormEntry) ∧
      ensureIV ((sortEntries p).map decEntryN) ((sortEntries u).map cnormEntry) = true ∧
      algorithmOf ((sortEntries p).map decEntryN) = algSpec p := by
  obtain ⟨-, heP⟩ := marshalProtected_ok_inv hP
  obtain ⟨-, heU⟩ := marshalUnprotected_ok_inv hU
  obtain ⟨hw, content, hPb, hpwf, hdp, halg⟩ := prot_itemN hfp hup hlp heP hdet
  obtain ⟨hUb, huwf, hulim, hdu⟩ := unprot_itemAtC hfu hlu hd heU
  exact ⟨hw, content, hPb, hUb, hpwf, huwf, hulim, hdp, hdu,
    ensureIV_cdecoded hfp (fun e he => (hfu e he).1) hiv, halg⟩

/-- CORE (the form of `NestedClosures.sigv_decodes_nested` with countersignatures): an entry whose
    3-array is met at depth `d` — its unprotected map item at depth `d + 1`, the values in it,
    countersignatures included, at depth `d + 2` -/
theorem sigv_decodes_csig (d : Nat) (p u : GoMap) (sig b P P' : Bytes)
    (hfp : NestedMap p) (hfu : HMap (d + 2) u) (hd : d + 2 ≤ maxNested)
    (hup : ∀ e ∈ p, UintOK e.2) (hlp : p.length ≤ maxElems) (hlu : u.length ≤ maxElems)
    (hsl : sig.length < 18446744073709551616) (hsne : sig ≠ [])
    (hP : marshalProtected { p := p, u := u } = .ok P) (hdet : detBstr P = .ok P')
    (henc : Signature.marshal { h := { p := p, u := u }, sig := some sig } = .ok b) :
    ∃ (x : Wire) (s2 : SigV), b = x.bytes ∧ x.wf = true ∧
      (∀ d', d' ≤ d → x.inLimits false d' = true) ∧ C05.SigElem x s2 ∧
      Signature.unmarshal b = .ok s2 ∧
      Same { h := { p := p, u := u }, sig := some sig } s2 ∧
      s2.h.p = (sortEntries p).map decEntryN ∧ s2.h.u = (sortEntries u).map cnormEntry := by
  obtain ⟨P0, U, hz, hiv, hP0, hU, hb⟩ := signature_marshal_ok_inv henc
  have hP0' : marshalProtected { p := p, u := u } = .ok P0 := hP0
  rw [hP] at hP0'
  cases hP0'
  obtain ⟨hw, content, hPb, hUb, hpwf, huwf, hulim, hdp, hdu, hiv', halg⟩ :=
    layer_itemsC (d := d + 1) hfp hfu hd hup hlp hlu hP hdet hU hiv
  have hsgfit : (HW.shortest sig.length).fits sig.length = true := C02.shortest_fits hsl
  have hwf : (Wire.arr .imm [.bstr hw content, umapWire u,
      .bstr (HW.shortest sig.length) sig]).wf = true := by
    have h3 : HW.fits .imm 3 = true := by decide
    simp only [Wire.wf] at hpwf
    simp [Wire.wf, Wire.wfList, h3, hpwf, huwf, hsgfit]
  have hlim : ∀ d', d' ≤ d → (Wire.arr .imm [.bstr hw content, umapWire u,
      .bstr (HW.shortest sig.length) sig]).inLimits false d' = true := by
    intro d' hdd
    have hu1 := hulim false (d' + 1) (by omega)
    have hd1 : d' + 1 ≤ maxNested := by omega
    simp [Wire.inLimits, Wire.inLimitsList, hd1, maxElems, hu1]
  have hbytes : b = (Wire.arr .imm [.bstr hw content, umapWire u,
      .bstr (HW.shortest sig.length) sig]).bytes := by
    rw [hb, hPb, hUb, Accept.arr3_bytes]
    rfl
  have hacc := C07.wf_signature_accepted_full hwf (hlim 0 (by omega)) hdp hdu hiv' hsne
  rw [← hbytes] at hacc
  have hmp : marshalProtected (Hdrs.mk (some (Wire.bstr hw content).bytes)
      ((sortEntries p).map decEntryN) (some (umapWire u).bytes)
      ((sortEntries u).map cnormEntry)) = .ok P :=
    (Verifies.marshalProtected_raw (p := .bstr hw content) rfl
      (C01.decProtected_modelled hdp)).trans (by rw [hPb])
  refine ⟨_, _, hbytes, hwf, hlim, ?_, hacc, ⟨rfl, ?_, halg⟩, rfl, rfl⟩
  · exact ⟨_, _, _, rfl, hdp, hdu, hiv', rfl, rfl, rfl, C01.blen_some_ne hsne⟩
  · exact hmp.trans hP.symm

/-- `SignWireClosure.marshalSigs_decodes` with an arbitrary entry relation `R` in place of
    `Same` (used to carry the decoded unprotected map of every signer slot) -/
theorem marshalSigs_decodesR (R : SigV → SigV → Prop) : ∀ (l : List SigV) (ss : Bytes),
    (∀ st ∈ l, ∀ b, Signature.marshal st = .ok b →
      ∃ (x : Wire) (s2 : SigV), b = x.bytes ∧ x.wf = true ∧ x.inLimits false 2 = true ∧
        C05.SigElem x s2 ∧ R st s2) →
    marshalSigs l = .ok ss →
    ∃ (xs : List Wire) (l2 : List SigV), ss = Wire.bytesList xs ∧ Wire.wfList xs = true ∧
      Wire.inLimitsList false 2 xs = true ∧ decSigList xs = .ok l2 ∧ xs.length = l.length ∧
      l2.length = l.length ∧ ∀ i (h1 : i < l.length) (h2 : i < l2.length), R l[i] l2[i]
  | [], ss, _, h => by
    simp only [marshalSigs, Out.ok.injEq] at h
    subst h
    exact ⟨[], [], rfl, rfl, rfl, C05.decSigList_nil, rfl, rfl, fun i h1 => absurd h1 (by simp)⟩
  | st :: r, ss, hall, h => by
    unfold marshalSigs at h
    cases ha : Signature.marshal st with
    | ok a =>
      cases hr : marshalSigs r with
      | ok rb =>
        simp only [ha, hr, bind, Out.bind, Out.ok.injEq] at h
        subst h
        obtain ⟨x, s2, hb, hwf, hlim, hel, hsame⟩ := hall st (List.mem_cons_self ..) a ha
        obtain ⟨xs, l2, hbs, hwfs, hlims, hdec, hlx, hl2, hidx⟩ :=
          marshalSigs_decodesR R r rb (fun t ht => hall t (List.mem_cons_of_mem _ ht)) hr
        refine ⟨x :: xs, s2 :: l2, by simp [Wire.bytesList, hb, hbs],
          by simp [Wire.wfList, hwf, hwfs],
          by simp [Wire.inLimitsList, hlim, hlims], C09.decSigList_cons_of hel hdec,
          by simp [hlx], by simp [hl2], ?_⟩
        intro i h1 h2
        cases i with
        | zero => simpa using hsame
        | succ j =>
          simp only [List.getElem_cons_succ]
          exact hidx j (by simpa using h1) (by simpa using h2)
      | err e => simp [ha, hr, bind, Out.bind] at h
      | panic => simp [ha, hr, bind, Out.bind] at h
      | unmodelled => simp [ha, hr, bind, Out.bind] at h
    | err e => simp [ha, bind, Out.bind] at h
    | panic => simp [ha, bind, Out.bind] at h
    | unmodelled => simp [ha, bind, Out.bind] at h

/-- what the wire theorem establishes for one signer slot: `Same`, and the decoded unprotected
    map is the entry-wise normal form -/
def SameC (st s2 : SigV) : Prop :=
  Same st s2 ∧ s2.h.u = (sortEntries st.h.u).map cnormEntry

/-- the scope for one signer slot of a COSE_Sign whose unprotected bucket may carry
    countersignatures: `NestedClosures.NestedSlot` with `HMap 4` (the slot's unprotected values are
    met at depth 4, so a countersignature there has its own unprotected values at depth 6) -/
def CsigSlot (sg : SigV) : Prop :=
  sg.h.rawP = none ∧ sg.h.rawU = none ∧ NestedMap sg.h.p ∧ HMap 4 sg.h.u ∧
    (∀ e ∈ sg.h.p, UintOK e.2) ∧ sg.h.p.length < maxElems ∧ sg.h.u.length ≤ maxElems

/-- every nested slot is a `CsigSlot` -/
theorem csigSlot_of_nested {sg : SigV} (h : NestedSlot sg) : CsigSlot sg := by
  obtain ⟨h1, h2, h3, h4, h5, h6, h7, h8⟩ := h
  exact ⟨h1, h2, h3, HMap.of_nested h4 h6, h5, h7, h8⟩

/-- one signer slot (the form of `NestedClosures.slot_wireN`) -/
theorem slot_wireC (sg : SigV) (s : Signer) (bprot : Bytes) (payload ext : Option Bytes)
    (b : Bytes) (hne : ∀ t x, s.sign t = .ok x → x ≠ []) (hslot : CsigSlot sg)
    (hgs : GoSigner s) (hok : (Signature.sign sg s bprot payload ext).out = .ok ())
    (henc : Signature.marshal (Signature.sign sg s bprot payload ext).state = .ok b) :
    ∃ (x : Wire) (s2 : SigV), b = x.bytes ∧ x.wf = true ∧ x.inLimits false 2 = true ∧
      C05.SigElem x s2 ∧ SameC (Signature.sign sg s bprot payload ext).state s2 := by
  obtain ⟨p', tbs, sig, -, -, hgate, ht, hsg, hst⟩ :=
    C01.signature_sign_ok_inv sg s bprot payload ext hok
  obtain ⟨hrp, hru, hfp, hfu, hup, hlp, hlu⟩ := hslot
  obtain ⟨⟨rp, p, ru, u⟩, sg0⟩ := sg
  simp only at hrp hru hfp hfu hup hlp hlu hgate ht hst
  subst hrp hru
  rw [hst] at henc ⊢
  obtain ⟨-, P, P', -, hP, hd⟩ := sigTbs_ok_inv ht
  obtain ⟨hfp', hup', hlp', -⟩ := sign_gate_nested (d := 1) hgate hfp hup hgs.1
  obtain ⟨x, s2, hb, hwf, hlim, hel, -, hsame, -, hu2⟩ :=
    sigv_decodes_csig 2 p' u sig b P P' hfp' hfu (by unfold maxNested; omega) hup'
      (by omega) hlu (hgs.2 _ _ hsg) (hne _ _ hsg) hP hd henc
  exact ⟨x, s2, hb, hwf, hlim 2 (Nat.le_refl _), hel, hsame, hu2⟩

/-- CORE (the form of `NestedClosures.signmsg_decodes_nested`) -/
theorem signmsg_decodes_csig (p u : GoMap) (o : Option Bytes) (l : List SigV) (b P P' : Bytes)
    (hfp : NestedMap p) (hfu : HMap 2 u) (hup : ∀ e ∈ p, UintOK e.2)
    (hlp : p.length ≤ maxElems) (hlu : u.length ≤ maxElems)
    (ho : blen o < 18446744073709551616) (hn : l.length ≤ maxElems)
    (hall : ∀ st ∈ l, ∀ b, Signature.marshal st = .ok b →
      ∃ (x : Wire) (s2 : SigV), b = x.bytes ∧ x.wf = true ∧ x.inLimits false 2 = true ∧
        C05.SigElem x s2 ∧ SameC st s2)
    (hP : marshalProtected { p := p, u := u } = .ok P) (hd : detBstr P = .ok P')
    (henc : Sign.marshal { h := { p := p, u := u }, payload := o, sigs := l } = .ok b) :
    ∃ m2, Sign.unmarshal b = .ok m2 ∧ m2.payload = o ∧ marshalProtected m2.h = .ok P ∧
      m2.h.p = (sortEntries p).map decEntryN ∧ m2.h.u = (sortEntries u).map cnormEntry ∧
      m2.sigs.length = l.length ∧
      ∀ i (h1 : i < l.length) (h2 : i < m2.sigs.length), SameC l[i] m2.sigs[i] := by
  obtain ⟨P0, U, ssb, hne, hiv, hP0, hU, hms, hb⟩ := sign_marshal_ok_inv henc
  have hP0' : marshalProtected { p := p, u := u } = .ok P0 := hP0
  rw [hP] at hP0'
  cases hP0'
  simp only at hne hiv hU hms hb
  obtain ⟨hw, content, hPb, hUb, hpwf, huwf, hulim, hdp, hdu, hiv', -⟩ :=
    layer_itemsC (d := 1) hfp hfu (by unfold maxNested; omega) hup hlp hlu hP hd hU hiv
  obtain ⟨xs, l2, hbs, hwfs, hlims, hdec, hlx, hl2, hidx⟩ := marshalSigs_decodesR SameC l ssb hall hms
  have hxn : xs ≠ [] := by
    intro hc
    rw [hc] at hlx
    exact hne (List.eq_nil_of_length_eq_zero hlx.symm)
  have hwf : (signTree (.bstr hw content) (umapWire u) o xs).wf = true := by
    have h4 : HW.fits .imm 4 = true := by decide
    have hnf : (HW.shortest xs.length).fits xs.length = true :=
      shortest_fits_elems (by omega)
    simp only [Wire.wf] at hpwf
    simp [signTree, Wire.wf, Wire.wfList, h4, hpwf, huwf, C01.shortItem_wf_of_lt o ho, hnf, hwfs]
  have hlim : (signTree (.bstr hw content) (umapWire u) o xs).inLimits false 0 = true := by
    have hu1 := hulim false 1 (Nat.le_refl _)
    have hxl : xs.length ≤ maxElems := by omega
    simp [signTree, Wire.inLimits, Wire.inLimitsList, maxNested, hu1, C09.shortItem_inLimits,
      hlims]
    constructor
    · unfold maxElems; omega
    · exact hxl
  have hpt := parseTop_complete hwf hlim
  have hbytes : b = 0xd8 :: 0x62 :: (signTree (.bstr hw content) (umapWire u) o xs).bytes := by
    rw [hb, signTree_bytes, hPb, hUb, hbs, hlx]
  rw [signTree_bytes] at hpt hbytes
  have hacc := C09.sign_unmarshal_of hpt (C09.shortItem_dec o) hxn hdec
    (C09.decHeaders_of hdp hdu hiv')
  rw [← hbytes] at hacc
  refine ⟨_, hacc, rfl, ?_, rfl, rfl, hl2, ?_⟩
  · exact (Verifies.marshalProtected_raw (p := .bstr hw content) rfl
      (C01.decProtected_modelled hdp)).trans (by rw [hPb])
  · intro i h1 h2
    exact hidx i h1 h2

end CsigClosures

/-! ## headline theorems: COSE_Sign and stand-alone countersignatures, countersignature values -/

namespace C01
open CsigRT WireClosure SignWireClosure NestedBuckets NestedClosures CsigClosures

/-- 2. STAND-ALONE COUNTERSIGNATURE, END TO END, every parent kind, ITS OWN UNPROTECTED BUCKET
    CARRYING COUNTERSIGNATURES (`countersignature_wire_nested` with `HMap 2`): a countersignature on
    a countersignature is a legal parent / child arrangement, and the child may be stored in the
    parent's unprotected bucket under label 7 / 11.  A stand-alone COSE_Countersignature is a
    top-level 3-array, so its unprotected values are met at depth 2.  The decoded unprotected map
    is the entry-wise normal form (`cnormEntry`: countersignatures in decoded form). -/
theorem countersignature_wire_csig (cs : SigV) (s : Signer) (v : Verifier) (parent : Parent)
    (ext : Option Bytes) (b : Bytes) (hm : Matches s v)
    (hrp : cs.h.rawP = none) (hru : cs.h.rawU = none)
    (hfp : NestedMap cs.h.p) (hfu : HMap 2 cs.h.u) (hup : ∀ e ∈ cs.h.p, UintOK e.2)
    (hlp : cs.h.p.length < maxElems) (hlu : cs.h.u.length ≤ maxElems)
    (halg : int64Range s.alg)
    (hsl : ∀ t sg, s.sign t = .ok sg → sg.length < 18446744073709551616)
    (hok : (Countersignature.sign cs s parent ext).out = .ok ())
    (henc : Signature.marshal (Countersignature.sign cs s parent ext).state = .ok b) :
    ∃ c2, Signature.unmarshal b = .ok c2 ∧ (Countersignature.verify c2 v parent ext).1 = .ok () ∧
      c2.sig = (Countersignature.sign cs s parent ext).state.sig ∧
      c2.h.p = (sortEntries (Countersignature.sign cs s parent ext).state.h.p).map decEntryN ∧
      c2.h.u = (sortEntries cs.h.u).map cnormEntry := by
  obtain ⟨p', tbs, sig, hgate, ht, hsg, hst⟩ := countersignature_sign_ok_inv cs s parent ext hok
  obtain ⟨⟨rp, p, ru, u⟩, sg0⟩ := cs
  simp only at hrp hru hfp hfu hup hlp hlu hgate ht hst
  subst hrp hru
  rw [hst] at henc ⊢
  obtain ⟨P, P', hP, hd⟩ := csTbs_ok_inv ht
  obtain ⟨hfp', hup', hlp', -⟩ := sign_gate_nested (d := 1) hgate hfp hup halg
  obtain ⟨x, c2, -, -, -, -, hdec, ⟨hs2, hP2, ha2⟩, hp2, hu2⟩ :=
    sigv_decodes_csig 0 p' u sig b P P' hfp' hfu (by unfold maxNested; omega) hup'
      (by omega) hlu (hsl _ _ hsg) (hm.nonempty _ _ hsg) hP hd henc
  refine ⟨c2, hdec, ?_, hs2, hp2, hu2⟩
  rw [C03.verifyCsig_iff]
  simp only at hs2 hP2 ha2
  refine ⟨by rw [hs2]; exact blen_some_ne (hm.nonempty _ _ hsg),
    gate_decoded hgate ha2 hm.alg, tbs, ?_, ?_⟩
  · rw [csTbs_congr (c := { h := { p := p', u := u }, sig := sg0 }) hP2]
    exact ht
  · rw [hs2]
    exact hm.correct _ _ hsg

/-- common part of the attached and the detached flow of COSE_Sign, countersignature values in the
    unprotected buckets: `o` is the payload field that is emitted -/
theorem signmsg_wire_csig_core (m : SignMsg) (ext : Option Bytes) (ss : List Signer)
    (vs : List Verifier) (o : Option Bytes) (b : Bytes) (hlen : ss.length = vs.length)
    (hm : ∀ i (h1 : i < ss.length) (h2 : i < vs.length), Matches ss[i] vs[i])
    (hrp : m.h.rawP = none) (hru : m.h.rawU = none)
    (hfp : NestedMap m.h.p) (hfu : HMap 2 m.h.u) (hup : ∀ e ∈ m.h.p, UintOK e.2)
    (hlp : m.h.p.length ≤ maxElems) (hlu : m.h.u.length ≤ maxElems)
    (hslots : ∀ sg ∈ m.sigs, CsigSlot sg) (hn : m.sigs.length ≤ maxElems)
    (ho : blen o < 18446744073709551616) (hgs : ∀ s ∈ ss, GoSigner s)
    (hok : (Sign.sign m ext ss).out = .ok ())
    (henc : Sign.marshal { (Sign.sign m ext ss).state with payload := o } = .ok b) :
    ∃ m2, Sign.unmarshal b = .ok m2 ∧ m2.payload = o ∧
      (Sign.verify { m2 with payload := m.payload } ext vs).1 = .ok () ∧
      m2.sigs.length = m.sigs.length ∧
      (∀ i (h1 : i < m2.sigs.length) (h2 : i < (Sign.sign m ext ss).state.sigs.length),
        m2.sigs[i].sig = (Sign.sign m ext ss).state.sigs[i].sig) ∧
      m2.h.p = (sortEntries m.h.p).map decEntryN ∧ m2.h.u = (sortEntries m.h.u).map cnormEntry ∧
      (∀ i (h1 : i < m2.sigs.length) (h2 : i < m.sigs.length),
        m2.sigs[i].h.u = (sortEntries m.sigs[i].h.u).map cnormEntry) := by
  obtain ⟨bprot, hpn, hemp, hl, hb, hloop, hst⟩ := signmsg_sign_ok_inv m ext ss hok
  obtain ⟨hll, hidx⟩ := signLoop_ok_inv bprot m.payload ext m.sigs ss hl hloop
  have hmem := signLoop_ok_mem bprot m.payload ext m.sigs ss hl hloop
  obtain ⟨⟨rp, p, ru, u⟩, pay, sgs⟩ := m
  simp only at hrp hru hfp hfu hup hlp hlu hslots hn hpn hemp hl hb hloop hll hidx hmem
  subst hrp hru
  have hsne : sgs ≠ [] := by
    intro hc
    rw [hc] at hemp
    exact absurd hemp (by simp)
  obtain ⟨bp', hd, hbok⟩ := body_det_of_loop bprot pay ext sgs ss hl hsne hloop
  rw [hst] at henc ⊢
  simp only at henc ⊢
  have hall : ∀ st ∈ (signLoop bprot pay ext sgs ss).1, ∀ b, Signature.marshal st = .ok b →
      ∃ (x : Wire) (s2 : SigV), b = x.bytes ∧ x.wf = true ∧ x.inLimits false 2 = true ∧
        C05.SigElem x s2 ∧ SameC st s2 := by
    intro st hstm bb hbb
    obtain ⟨i, h1, h2, rfl, hout⟩ := hmem st hstm
    exact slot_wireC sgs[i] ss[i] bprot pay ext bb (hm i h2 (hlen ▸ h2)).nonempty
      (hslots _ (List.getElem_mem h1)) (hgs _ (List.getElem_mem h2)) hout hbb
  obtain ⟨m2, hdec, hpay, hP2, hp2, hu2, hl2, hsame⟩ :=
    signmsg_decodes_csig p u o (signLoop bprot pay ext sgs ss).1 b bprot bp' hfp hfu hup
      hlp hlu ho (by omega) hall hb hd henc
  refine ⟨m2, hdec, hpay, ?_, by omega, ?_, hp2, hu2, ?_⟩
  · rw [C11.signmsg_verify_iff]
    refine ⟨by cases pay <;> simp_all, ?_, by simp only; omega, bprot, hP2, ?_⟩
    · intro hc
      simp only at hc
      rw [hc] at hl2
      simp only [List.length_nil] at hl2
      exact hsne (List.eq_nil_of_length_eq_zero (by omega))
    · intro i h1 h2
      simp only at h1 ⊢
      have hi : i < sgs.length := by omega
      have hi' : i < ss.length := by omega
      obtain ⟨hsti, hout⟩ := hidx i hi hi'
      obtain ⟨p', tbs, sig, -, -, hgate, ht, hsg, hstate⟩ :=
        signature_sign_ok_inv sgs[i] ss[i] bprot pay ext hout
      obtain ⟨⟨hs2, hmp2, ha2⟩, -⟩ := hsame i (by omega) h1
      rw [hsti, hstate] at hs2 hmp2 ha2
      simp only at hs2 hmp2 ha2
      have hmi := hm i hi' h2
      have hrpi : sgs[i].h.rawP = none := (hslots _ (List.getElem_mem hi)).1
      rw [hrpi] at hgate
      rw [C03.verifySig_iff]
      refine ⟨by cases pay <;> simp_all, by rw [hs2]; exact blen_some_ne (hmi.nonempty _ _ hsg),
        hbok, gate_decoded hgate ha2 hmi.alg, tbs, ?_, ?_⟩
      · rw [sigTbs_congr (c := { sgs[i] with h := { sgs[i].h with p := p' } }) hmp2]
        exact ht
      · rw [hs2]
        exact hmi.correct _ _ hsg
  · intro i h1 h2
    exact (hsame i h2 h1).1.1
  · intro i h1 h2
    have hi' : i < ss.length := by omega
    obtain ⟨hsti, hout⟩ := hidx i h2 hi'
    obtain ⟨p', tbs, sig, -, -, -, -, -, hstate⟩ :=
      signature_sign_ok_inv sgs[i] ss[i] bprot pay ext hout
    have hu := (hsame i (by omega) h1).2
    rw [hsti, hstate] at hu
    exact hu

/-- 1. COSE_Sign (any number n ≥ 1 of signers), END TO END, COUNTERSIGNATURE VALUES IN THE
    UNPROTECTED BUCKETS (`signmsg_wire_nested` with `HMap` for the unprotected buckets): the body's
    unprotected bucket (`HMap 2`: its values are met at depth 2, so a countersignature there has
    its own unprotected values at depth 4) and every signer slot's unprotected bucket
    (`CsigSlot`: `HMap 4`) may carry, under labels 7 / 11, `CsigOK` countersignature values —
    single or list, nested to any depth the decoder admits.  A message the library signed and
    encoded is decoded by the library, the decoded message verifies under the positionally
    matching verifiers with the same external data, carries the signed payload, as many signer
    entries and the signers' signatures; the decoded unprotected maps of the body AND of every
    signer slot are the entry-wise normal forms — every countersignature in decoded form
    (`cnorm`). -/
theorem signmsg_wire_csig (m : SignMsg) (ext : Option Bytes) (ss : List Signer)
    (vs : List Verifier) (b : Bytes) (hlen : ss.length = vs.length)
    (hm : ∀ i (h1 : i < ss.length) (h2 : i < vs.length), Matches ss[i] vs[i])
    (hrp : m.h.rawP = none) (hru : m.h.rawU = none)
    (hfp : NestedMap m.h.p) (hfu : HMap 2 m.h.u) (hup : ∀ e ∈ m.h.p, UintOK e.2)
    (hlp : m.h.p.length ≤ maxElems) (hlu : m.h.u.length ≤ maxElems)
    (hslots : ∀ sg ∈ m.sigs, CsigSlot sg) (hn : m.sigs.length ≤ maxElems)
    (hpl : blen m.payload < 18446744073709551616) (hgs : ∀ s ∈ ss, GoSigner s)
    (hok : (Sign.sign m ext ss).out = .ok ())
    (henc : Sign.marshal (Sign.sign m ext ss).state = .ok b) :
    ∃ m2, Sign.unmarshal b = .ok m2 ∧ (Sign.verify m2 ext vs).1 = .ok () ∧
      m2.payload = m.payload ∧ m2.sigs.length = m.sigs.length ∧
      (∀ i (h1 : i < m2.sigs.length) (h2 : i < (Sign.sign m ext ss).state.sigs.length),
        m2.sigs[i].sig = (Sign.sign m ext ss).state.sigs[i].sig) ∧
      m2.h.p = (sortEntries m.h.p).map decEntryN ∧ m2.h.u = (sortEntries m.h.u).map cnormEntry ∧
      (∀ i (h1 : i < m2.sigs.length) (h2 : i < m.sigs.length),
        m2.sigs[i].h.u = (sortEntries m.sigs[i].h.u).map cnormEntry) := by
  obtain ⟨_, -, -, -, -, -, hst⟩ := signmsg_sign_ok_inv m ext ss hok
  have hpayst : (Sign.sign m ext ss).state.payload = m.payload := by rw [hst]
  have henc' : Sign.marshal { (Sign.sign m ext ss).state with payload := m.payload } = .ok b := by
    rw [← hpayst]; exact henc
  obtain ⟨m2, hdec, hpay, hver, hl2, hsigs, hp2, hu2, hsu⟩ :=
    signmsg_wire_csig_core m ext ss vs m.payload b hlen hm hrp hru hfp hfu hup hlp hlu hslots
      hn hpl hgs hok henc'
  refine ⟨m2, hdec, ?_, hpay, hl2, hsigs, hp2, hu2, hsu⟩
  obtain ⟨h2, pay2, sg2⟩ := m2
  simp only at hpay
  subst hpay
  exact hver

/-- 1'. COSE_Sign with DETACHED payload, END TO END, countersignature values in the unprotected
    buckets -/
theorem signmsg_wire_detached_csig (m : SignMsg) (ext : Option Bytes) (ss : List Signer)
    (vs : List Verifier) (b : Bytes) (hlen : ss.length = vs.length)
    (hm : ∀ i (h1 : i < ss.length) (h2 : i < vs.length), Matches ss[i] vs[i])
    (hrp : m.h.rawP = none) (hru : m.h.rawU = none)
    (hfp : NestedMap m.h.p) (hfu : HMap 2 m.h.u) (hup : ∀ e ∈ m.h.p, UintOK e.2)
    (hlp : m.h.p.length ≤ maxElems) (hlu : m.h.u.length ≤ maxElems)
    (hslots : ∀ sg ∈ m.sigs, CsigSlot sg) (hn : m.sigs.length ≤ maxElems)
    (hgs : ∀ s ∈ ss, GoSigner s)
    (hok : (Sign.sign m ext ss).out = .ok ())
    (henc : Sign.marshal { (Sign.sign m ext ss).state with payload := none } = .ok b) :
    ∃ m2, Sign.unmarshal b = .ok m2 ∧
      (Sign.verify { m2 with payload := m.payload } ext vs).1 = .ok () ∧ m2.payload = none ∧
      m2.sigs.length = m.sigs.length ∧ m2.h.u = (sortEntries m.h.u).map cnormEntry ∧
      (∀ i (h1 : i < m2.sigs.length) (h2 : i < m.sigs.length),
        m2.sigs[i].h.u = (sortEntries m.sigs[i].h.u).map cnormEntry) := by
  obtain ⟨m2, hdec, hpay, hver, hl2, -, -, hu2, hsu⟩ :=
    signmsg_wire_csig_core m ext ss vs none b hlen hm hrp hru hfp hfu hup hlp hlu hslots
      hn (by simp [blen]) hgs hok henc
  exact ⟨m2, hdec, hver, hpay, hl2, hu2, hsu⟩

end C01

/-! ## headline theorems: clear-raw with countersignatures in the unprotected bucket -/

namespace C08
open CsigRT CsigClosures

/-- 3-V. ONE DECODED COUNTERSIGNATURE VALUE, clear-raw fixpoint.  `v` is what the unprotected-bucket
    decoder returned under label 7 / 11 (`decCsigValue w = .ok v`, validated: `isCsigValue`) for a
    well-formed item `w` within the parser's limits at depth `d`, and its header values are in the
    data model (`DecOK d v`).  Then `v` with all retained raw bytes discarded is encoded as ONE
    item `w'`, well formed and within the limits at the same depth; the decoder reads `w'` back as
    the normal form `cnorm v`; `cnorm v` itself (raw bytes retained) and `cnorm v` with its raw
    bytes discarded again are both encoded as the very same bytes: ONE cycle is enough. -/
theorem csig_value_clear_raw_fixpoint (d : Nat) (w : Wire) (t : Bool) (v : GoVal)
    (hd : decCsigValue w = .ok v) (hwf : w.wf = true) (hlim : w.inLimits t d = true)
    (hm : DecOK d v) (hcv : isCsigValue v = true) :
    ∃ w' : Wire, encodeAny encCfg (clearV v) = some w'.bytes ∧ w'.wf = true ∧
      (∀ t, w'.inLimits t d = true) ∧ w'.hasTag = false ∧ decCsigValue w' = .ok (cnorm v) ∧
      DecOK d (cnorm v) ∧
      encodeAny encCfg (cnorm v) = some w'.bytes ∧
      encodeAny encCfg (clearV (cnorm v)) = some w'.bytes := by
  have hok := pc_all v d w t hd hwf hlim hm hcv
  obtain ⟨h1, h2, h3, h4, h5, -⟩ := cok_of_csigOK _ d hok
  rw [cnorm_clearV] at h5
  have hdo : DecOK d (cnorm v) := by
    have := decOK_cnorm _ d hok
    rwa [cnorm_clearV] at this
  have hcv' : isCsigValue (cnorm v) = true := by
    have := isCsigValue_cnorm _ (isCsigValue_clearV v hcv)
    rwa [cnorm_clearV] at this
  have hok2 := pc_all (cnorm v) d _ t h5 h2 (h3 t) hdo hcv'
  have h6 := (cok_of_csigOK _ d hok2).1
  have h7 := reencode_cnorm _ d hok
  rw [cnorm_clearV] at h7
  rw [cwire_clear_cnorm, ← cwire_clearV] at h6
  exact ⟨cwire (clearV v), h1, h2, h3, h4, h5, hdo, h7, h6⟩

end C08

namespace C09
open CsigRT WireClosure ClearRaw NestedClosures CsigClosures

/-- 3-B. STAND-ALONE UNPROTECTED BUCKET WITH COUNTERSIGNATURES, clear-raw fixpoint (the form of
    `unprotected_clear_raw_fixpoint_nested`).  Whatever map item `UnprotectedHeader.UnmarshalCBOR`
    accepted, if the decoded values are in the data model then encoding the decoded map with all
    raw bytes inside discarded succeeds, the bytes parse in either mode, decode to
    `um' = (sortEntries um).map cnormEntry`, which is again in the data model, and encoding `um'`
    with its raw bytes discarded gives the same bytes again. -/
theorem unprotected_clear_raw_fixpoint_csig (u : Wire) (um : GoMap) (hd : decUnprot u = .ok um)
    (hwf : u.wf = true) {t : Bool} (hlim : u.inLimits t 0 = true) (hm : DMap 1 um) :
    ∃ (u' : Wire) (um' : GoMap),
      encodeBucket encCfg false none (clearPairs um) = some u'.bytes ∧
      u'.wf = true ∧ (∀ t, parseTop t u'.bytes = some u') ∧ u'.hasTag = false ∧
      decUnprot u' = .ok um' ∧
      um' = (sortEntries um).map cnormEntry ∧ um'.Perm (um.map cnormEntry) ∧ DMap 1 um' ∧
      encodeBucket encCfg false none (clearPairs um') = some u'.bytes := by
  obtain ⟨-, -, h1, h2, h3, h4, h5, h6, h7⟩ := unprotected_canonC (d := 0) hd hwf hlim hm
  rw [← clearPairs_eq] at h1 h7
  exact ⟨umapWire um, _, h1, h2, fun t => parseTop_complete h2 (h3 t), h4, h5, rfl,
    (sortEntries_perm um).map cnormEntry, h6, h7⟩

/-- 3a. CLEAR-RAW, DECODABLE, COUNTERSIGNATURES IN THE UNPROTECTED BUCKET (`clear_raw_decodable_nested`
    for a decoded COSE_Sign1 whose unprotected bucket holds, under labels 7 / 11, decoded
    countersignature values — each retaining its own raw buckets, to any depth).  If the decoded
    header values are in the data model (`NestedMap` for the protected map; `DMap 2` for the
    unprotected one: plain values `RTVal` at the depth the parser met them, countersignatures with
    `NestedMap` protected / `DMap` unprotected maps again), then after the application discards
    the retained raw bytes AT EVERY LEVEL (`clearRawDeep`) the message is encoded, the bytes are
    decoded again, with the same payload and signature, the protected map in canonical form, and
    the unprotected map in the entry-wise normal form `cnormEntry` — every countersignature
    decoded again from its canonical bytes (`cnorm_csig`: raw buckets = the re-emitted bucket
    bytes, protected map `canonP`, unprotected map sorted and normal, same signature).  Lookups
    under any spelling of a label and `Algorithm()` agree, and the result is again in the data
    model. -/
theorem clear_raw_decodable_csig (tagged : Bool) (b : Bytes) (m : Sign1Msg)
    (hd : Sign1.unmarshal tagged b = .ok m) (hfp : NestedMap m.h.p) (hfu : DMap 2 m.h.u) :
    ∃ b', Sign1.marshal tagged (clearRawDeep m) = .ok b' ∧
      ∃ m', Sign1.unmarshal tagged b' = .ok m' ∧ m'.payload = m.payload ∧ m'.sig = m.sig ∧
        m'.h.p = (sortEntries m.h.p).map decEntryN ∧
        m'.h.u = (sortEntries m.h.u).map cnormEntry ∧
        m'.h.p.Perm (m.h.p.map decEntryN) ∧ m'.h.u.Perm (m.h.u.map cnormEntry) ∧
        (∀ e ∈ m.h.p, ∀ l, normalizeLabel l = normalizeLabel e.1 →
          lookupLabel m.h.p l = some e.2 ∧ lookupLabel m'.h.p l = some (decEntryN e).2) ∧
        (∀ e ∈ m.h.u, ∀ l, normalizeLabel l = normalizeLabel e.1 →
          lookupLabel m.h.u l = some e.2 ∧ lookupLabel m'.h.u l = some (cnorm e.2)) ∧
        algorithmOf m'.h.p = algorithmOf m.h.p ∧
        NestedMap m'.h.p ∧ DMap 2 m'.h.u := by
  obtain ⟨b', P, U, h1, h2, -, hdm⟩ := clear_raw_core_csig tagged b m hd hfp hfu
  obtain ⟨p, u, pl, sg, -, -, hwf, hlim, -, -, -, hh⟩ := C09.sign1_envelope_full hd
  obtain ⟨hp, hu, -, -, -⟩ := C09.decHeaders_ok hh
  obtain ⟨hwp, enc, rfl, -⟩ := C05.protected_is_bstr_of_map p _ hp
  have hpc : decProtectedContent enc = .ok m.h.p := hp
  have hvp := C13.decoded_reencodable enc _ hpc
  have hvu := C13.decoded_unprot_reencodable u _ hu
  simp only [Wire.wf, Wire.wfList, Bool.and_eq_true] at hwf
  simp only [Wire.inLimits, Wire.inLimitsList, Bool.and_eq_true] at hlim
  obtain ⟨hmap1, -⟩ := unprotected_canonC (d := 1) hu hwf.2.2.1 hlim.2.2.1 hfu
  have hflu : ∀ e ∈ m.h.u, FlatLabel e.1 :=
    fun e he => (hmap1 (clearEntry e) (List.mem_map_of_mem he)).1
  refine ⟨b', h1, _, h2, rfl, rfl, rfl, rfl, (sortEntries_perm _).map decEntryN,
    (sortEntries_perm _).map cnormEntry, ?_, ?_, algorithmOf_canonP hpc hfp,
    nestedMapAt_decEntryN (NestedMapAt.sorted (d := 1) hfp), hdm⟩
  · intro e he l hl
    exact C08.protected_lookup_roundtrip_nested m.h.p hfp hvp e he l hl
  · intro e he l hl
    have hok := C13.validate_labels m.h.u false hvu
    have hn := normalizeLabel_flat (hflu e he)
    refine ⟨lookupLabel_of_mem hok he (hl.trans hn) hn, ?_⟩
    have hes : e ∈ sortEntries m.h.u := (sortEntries_perm m.h.u).mem_iff.mpr he
    have hfls : ∀ x ∈ sortEntries m.h.u, FlatLabel x.1 :=
      fun x hx => hflu x ((sortEntries_perm m.h.u).mem_iff.mp hx)
    exact lookupLabel_of_mem (labelsOK_cnormEntry hfls (labelsOK_sorted hok))
      (List.mem_map_of_mem (f := cnormEntry) hes) (hl.trans hn)
      (by simp only [cnormEntry]; rw [normalizeLabel_normVal (hflu e he), hn])

/-- 3b. CLEAR-RAW, FIXPOINT, COUNTERSIGNATURES IN THE UNPROTECTED BUCKET (`clear_raw_fixpoint_nested`).
    With `b'`, `m'` as in 3a (ANY result of encoding the deeply cleared message and decoding
    that): discarding all raw bytes of `m'` — its own and those the decoder retained inside every
    countersignature — and encoding again gives `b'` again, and decoding it gives `m'` again: the
    canonical form is reached after ONE cycle, at every level of nesting. -/
theorem clear_raw_fixpoint_csig (tagged : Bool) (b : Bytes) (m : Sign1Msg)
    (hd : Sign1.unmarshal tagged b = .ok m) (hfp : NestedMap m.h.p) (hfu : DMap 2 m.h.u)
    (b' : Bytes) (m' : Sign1Msg)
    (he : Sign1.marshal tagged (clearRawDeep m) = .ok b')
    (hd' : Sign1.unmarshal tagged b' = .ok m') :
    ∃ b'', Sign1.marshal tagged (clearRawDeep m') = .ok b'' ∧ b'' = b' ∧
      Sign1.unmarshal tagged b'' = .ok m' := by
  obtain ⟨b1, P, U, h1, h2, h3, -⟩ := clear_raw_core_csig tagged b m hd hfp hfu
  have hb : b1 = b' := Out.ok.inj (h1.symm.trans he)
  subst hb
  rw [h2] at hd'
  cases hd'
  exact ⟨b1, h3, rfl, h2⟩

/-- the decode / discard-all-raw / encode cycle -/
def clearCycleDeep (tagged : Bool) (b : Bytes) : Out Bytes := do
  let m ← Sign1.unmarshal tagged b
  Sign1.marshal tagged (clearRawDeep m)

/-- 3b'. the cycle is idempotent on inputs whose decoded header values are in the data model -/
theorem clearCycleDeep_idempotent_csig (tagged : Bool) (b b1 : Bytes)
    (hdm : ∀ m, Sign1.unmarshal tagged b = .ok m → NestedMap m.h.p ∧ DMap 2 m.h.u)
    (h : clearCycleDeep tagged b = .ok b1) : clearCycleDeep tagged b1 = .ok b1 := by
  unfold clearCycleDeep at h ⊢
  cases hd : Sign1.unmarshal tagged b with
  | ok m =>
    simp only [hd, bind, Out.bind] at h
    obtain ⟨hfp, hfu⟩ := hdm m hd
    obtain ⟨b', P, U, h1, h2, h3, -⟩ := clear_raw_core_csig tagged b m hd hfp hfu
    have hb : b' = b1 := Out.ok.inj (h1.symm.trans h)
    subst hb
    simp only [h2, bind, Out.bind]
    exact h3
  | err e => simp [hd, bind, Out.bind] at h
  | panic => simp [hd, bind, Out.bind] at h
  | unmodelled => simp [hd, bind, Out.bind] at h

end C09

/-! ## non-vacuity: clear-raw on a decoded COSE_Sign1 with `{11: [cs1, cs2]}` -/

namespace CsigClearRawExamples
open CsigRT CsigExamples CsigClosures WireClosure ClearRaw NestedClosures

/-- the first countersignature AS SENT: its protected bucket has a NON-SHORTEST head
    (`58 03 a10126` instead of `43 a10126`): `83 5803a10126 a1044132 420102` -/
def cs1W : Wire :=
  .arr .imm [.bstr .w1 [0xa1, 0x01, 0x26], .map .imm [(.uint .imm 4, .bstr .imm [0x32])],
    .bstr .imm [1, 2]]

/-- the second one, canonical: `83 43a10127 a0 4103` -/
def cs2W : Wire := .arr .imm [.bstr .imm [0xa1, 0x01, 0x27], .map .imm [], .bstr .imm [3]]

/-- the unprotected bucket `{11: [cs1, cs2]}` as sent -/
def exUnC : Wire := .map .imm [(.uint .imm 11, .arr .imm [cs1W, cs2W])]

def exPuC : Wire := .bstr .imm [0xa1, 0x01, 0x26]

/-- `18([h'a10126', {11: [[h'a10126' (long head), {4: h'32'}, h'0102'], [h'a10127', {}, h'03']]},
    h'010203', h'07'])` -/
def exBC : Bytes :=
  [0xd2, 0x84, 0x43, 0xa1, 0x01, 0x26,
   0xa1, 0x0b, 0x82,
   0x83, 0x58, 0x03, 0xa1, 0x01, 0x26, 0xa1, 0x04, 0x41, 0x32, 0x42, 0x01, 0x02,
   0x83, 0x43, 0xa1, 0x01, 0x27, 0xa0, 0x41, 0x03,
   0x43, 1, 2, 3, 0x41, 7]

/-- the same message after one deep clear-raw cycle: the inner protected bucket re-encoded with
    the shortest head -/
def exBC' : Bytes :=
  [0xd2, 0x84, 0x43, 0xa1, 0x01, 0x26,
   0xa1, 0x0b, 0x82,
   0x83, 0x43, 0xa1, 0x01, 0x26, 0xa1, 0x04, 0x41, 0x32, 0x42, 0x01, 0x02,
   0x83, 0x43, 0xa1, 0x01, 0x27, 0xa0, 0x41, 0x03,
   0x43, 1, 2, 3, 0x41, 7]

/-- the first countersignature as DECODED: its `RawProtected` is the 5 bytes as sent -/
def cs1D : GoVal :=
  .csig (some [0x58, 0x03, 0xa1, 0x01, 0x26]) [(lbl 1, .alg (-7))]
    (some [0xa1, 0x04, 0x41, 0x32]) [(lbl 4, .bytes [0x32])] (some [1, 2])

def exUmC : GoMap := [(lbl 11, .csigs [cs1D, cs2N])]

/-- what `clearRawDeep` leaves of it: the constructed `{11: [cs1, cs2]}` -/
def exU3 : GoMap := [(lbl 11, .csigs [cs1, cs2])]

theorem exC_decP7 (hw : HW) :
    decProtected (.bstr hw [0xa1, 0x01, 0x26]) = .ok [(lbl 1, .alg (-7))] := by
  simp [decProtected, decProtectedContent, parseTop, parseItem, parsePairs, fuelFor,
    parseHead, maxNested, maxElems, labelsOK, maxInt64, GoVal.keyEq, decodePairs, decodeAny,
    keyHashable, validateHeaderParameters, validateLoop, normalizeLabel, wrap64, checkParam,
    castAlg, algorithmOf, lookupLabel, GoMap.lookup, lbl, GoMap.set, GoMap.has, bind, Out.bind,
    canInt, canTstr, IntKind.signed, Wire.stripSelfDescribed,
    (by decide : headerLabelsUntagged [0xa1, 0x01, 0x26] = true)]

theorem exC_decP8 (hw : HW) :
    decProtected (.bstr hw [0xa1, 0x01, 0x27]) = .ok [(lbl 1, .alg (-8))] := by
  simp [decProtected, decProtectedContent, parseTop, parseItem, parsePairs, fuelFor,
    parseHead, maxNested, maxElems, labelsOK, maxInt64, GoVal.keyEq, decodePairs, decodeAny,
    keyHashable, validateHeaderParameters, validateLoop, normalizeLabel, wrap64, checkParam,
    castAlg, algorithmOf, lookupLabel, GoMap.lookup, lbl, GoMap.set, GoMap.has, bind, Out.bind,
    canInt, canTstr, IntKind.signed, Wire.stripSelfDescribed,
    (by decide : headerLabelsUntagged [0xa1, 0x01, 0x27] = true)]

theorem exC_decU4 : decUnprot (.map .imm [(.uint .imm 4, .bstr .imm [0x32])])
    = .ok [(lbl 4, .bytes [0x32])] := by
  simp [decUnprot, labelsOK, decUnprotPairs, decodeAny, isCsigLabel, normalizeLabel, wrap64,
    maxInt64, validateHeaderParameters, validateLoop, checkParam, canBstr, GoVal.keyEq, lbl,
    Wire.stripSelfDescribed,
    (by decide : headerLabelsUntagged (Wire.map .imm [(.uint .imm 4, .bstr .imm [0x32])]).bytes = true)]

theorem exC_decU0 : decUnprot (.map .imm []) = .ok [] := by
  simp [decUnprot, labelsOK, decUnprotPairs, validateHeaderParameters, validateLoop,
    (by decide : headerLabelsUntagged (Wire.map .imm []).bytes = true)]

theorem exC_cs1 : decSigFields [.bstr .w1 [0xa1, 0x01, 0x26],
    .map .imm [(.uint .imm 4, .bstr .imm [0x32])], .bstr .imm [1, 2]] = .ok cs1D :=
  C09.decSigFields_of (sg := .bstr .imm [1, 2]) rfl (by simp [blen])
    (exC_decP7 .w1) exC_decU4 (by decide)

theorem exC_cs2 : decSigFields [.bstr .imm [0xa1, 0x01, 0x27], .map .imm [], .bstr .imm [3]]
    = .ok cs2N :=
  C09.decSigFields_of (sg := .bstr .imm [3]) rfl (by simp [blen])
    (exC_decP8 .imm) exC_decU0 (by decide)

theorem exC_decUn : decUnprot exUnC = .ok exUmC := by
  have hl : decCsigList [cs1W, cs2W] = .ok [cs1D, cs2N] := by
    rw [C06.decCsigList_cons, C06.decCsigList_cons, C06.decCsigList_nil]
    simp only [cs1W, cs2W, C06.csigOne, exC_cs1, exC_cs2, C06.csigComb]
  have hv : decCsigValue (.arr .imm [cs1W, cs2W]) = .ok (.csigs [cs1D, cs2N]) :=
    decCsigValue_list (by simp [decSigFields]) hl
  simp [exUnC, exUmC, decUnprot, labelsOK, decUnprotPairs, decodeAny, isCsigLabel, normalizeLabel,
    wrap64, maxInt64, hv, validateHeaderParameters, validateLoop, checkParam, isCsigValue, cs1D,
    cs2N, GoVal.keyEq, lbl, Wire.stripSelfDescribed,
    (by decide : headerLabelsUntagged
      (Wire.map .imm [(.uint .imm 11, .arr .imm [cs1W, cs2W])]).bytes = true)]

theorem exBC_tree : exBC = (if true then [0xd2] else []) ++
    (Wire.arr .imm [exPuC, exUnC, .bstr .imm [1, 2, 3], .bstr .imm [7]]).bytes := by decide

theorem exC_tree_wf :
    (Wire.arr .imm [exPuC, exUnC, .bstr .imm [1, 2, 3], .bstr .imm [7]]).wf = true := by
  simp [Wire.wf, Wire.wfList, Wire.wfPairs, HW.fits, exPuC, exUnC, cs1W, cs2W]

/-- the decoded message -/
def exMC : Sign1Msg :=
  { h := { rawP := some exPuC.bytes, p := [(lbl 1, .alg (-7))], rawU := some exUnC.bytes,
           u := exUmC },
    payload := some [1, 2, 3], sig := some [7] }

theorem exC_unmarshal : Sign1.unmarshal true exBC = .ok exMC := by
  rw [exBC_tree]
  exact C07.wf_sign1_accepted_full true (p := exPuC) (u := exUnC) (pl := .bstr .imm [1, 2, 3])
    (hw := .imm) (c := [7]) exC_tree_wf
    (by simp [Wire.inLimits, Wire.inLimitsList, Wire.inLimitsPairs, exPuC, exUnC, cs1W, cs2W,
      maxNested, maxElems])
    (exC_decP7 .imm) exC_decUn (by decide) (.inr ⟨_, _, rfl⟩)
    (by decide)

/-- the data-model hypotheses -/
theorem exC_model : NestedMap exMC.h.p ∧ DMap 2 exMC.h.u := by
  have hp : ∀ a : Int, int64Range a → NestedMap [(lbl 1, .alg a)] := by
    intro a ha e he
    simp only [List.mem_singleton] at he
    subst he
    exact ⟨by simp [lbl, FlatLabel, int64Range], by simpa [RTVal, FlatVal] using ha⟩
  refine ⟨hp _ (by simp [int64Range]), ?_⟩
  intro e he
  simp only [exMC, exUmC, List.mem_singleton] at he
  subst he
  refine .inr ?_
  simp only [DecOK, dElems_iff]
  intro x hx
  simp only [List.mem_cons, List.not_mem_nil, or_false] at hx
  rcases hx with rfl | rfl
  · simp only [cs1D, DecOK, dPairs_iff]
    refine ⟨by intro r hr; cases hr; simp, hp _ (by simp [int64Range]), ?_⟩
    intro e he
    simp only [List.mem_singleton] at he
    subst he
    exact .inl (by simp [RTVal, FlatVal])
  · simp only [cs2N, DecOK, dPairs_iff]
    exact ⟨by intro r hr; cases hr; simp, hp _ (by simp [int64Range]), by intro e he; cases he⟩

theorem exC_clear : clearPairs exUmC = exU3 := by
  simp [exUmC, exU3, clearPairs, clearV, clearList, cs1D, cs2N, cs1, cs2]

theorem exU3_valid : validateHeaderParameters exU3 false = true := by
  simp [exU3, cs1, cs2, validateHeaderParameters, validateLoop, normalizeLabel, wrap64, checkParam,
    lbl, isCsigValue]

theorem exU3_enc : encodeBucket encCfg false none exU3
    = some ([0xa1, 0x0b, 0x82] ++ cs1Bytes ++ cs2Bytes) := by
  have hv : encCfg.validate exU3 false = true := exU3_valid
  simp only [exU3, lbl] at hv
  simp [exU3, encodeBucket, hv, encodePairs, encodeAny, encodeList, cs1_enc, cs2_enc, lbl, encInt,
    encHead, HW.shortest, headBytes, sortPairs, concatPairs, cs1Bytes, cs2Bytes,
    wellformedNoTags, parseTop, fuelFor, parseItem, parseItems, parsePairs, parseHead, maxNested,
    maxElems]

/-- discarding ALL raw bytes and encoding gives `exBC'` -/
theorem exC_marshal_cleared : Sign1.marshal true (clearRawDeep exMC) = .ok exBC' := by
  have hu : (clearRawDeep exMC).h.u = exU3 := exC_clear
  have hiv : ensureIV (clearRawDeep exMC).h.p (clearRawDeep exMC).h.u = true := by
    rw [hu]
    simp [clearRawDeep, exMC, exU3, ensureIV, hasLabel, lookupLabel, GoMap.lookup, GoVal.keyEq,
      lbl, normalizeLabel, wrap64]
  have hP : marshalProtected (clearRawDeep exMC).h = .ok [0x43, 0xa1, 0x01, 0x26] := by
    have hm : GoVal.modelledPairs [(lbl 1, .alg (-7))] = true := by
      simp [GoVal.modelledPairs, GoVal.modelled, lbl]
    simp [marshalProtected, clearRawDeep, exMC, hm, exP7_enc]
  have hU : marshalUnprotected (clearRawDeep exMC).h
      = .ok ([0xa1, 0x0b, 0x82] ++ cs1Bytes ++ cs2Bytes) := by
    have hm : GoVal.modelledPairs exU3 = true := by
      simp [exU3, cs1, cs2, GoVal.modelledPairs, GoVal.modelled, GoVal.modelledList, lbl]
    unfold marshalUnprotected
    rw [hu]
    simp [hm, clearRawDeep, exU3_enc]
  rw [marshal_of_buckets (m := clearRawDeep exMC) (by simp [clearRawDeep, exMC, blen]) hiv hP hU]
  simp [C09.pre, clearRawDeep, exMC, exBC', cs1Bytes, cs2Bytes, optBytesEnc, encBstr, encHead,
    HW.shortest, headBytes]

theorem exC_norm : (sortEntries exUmC).map cnormEntry = [(lbl 11, .csigs [cs1N, cs2N])] := by
  have h1 : cnorm cs1D = cs1N := by
    rw [← cnorm_clearV, ← cs1_norm]
    congr 1
  have h2 : cnorm cs2N = cs2N := by
    rw [← cnorm_clearV]
    exact cs2_norm
  rw [exUmC, sortEntries_one]
  simp [cnormEntry, cnorm_csigs, h1, h2, normVal_lbl]

/-- NON-VACUITY of `clear_raw_decodable_csig` / `clear_raw_fixpoint_csig`.  `exBC` decodes to a
    message whose unprotected bucket is `{11: [cs1D, cs2N]}` — two decoded countersignatures, each
    retaining its own raw buckets, the first with a non-canonical protected bucket; the
    data-model hypotheses hold; the theorems apply: clearing the raw bytes AT EVERY LEVEL and
    encoding gives `exBC' ≠ exBC` (the inner protected bucket now has the shortest head), `exBC'`
    decodes to a message with the same payload and signature whose unprotected map is
    `{11: [cs1N, cs2N]}` (the decoded normal forms of `Deep/CsigRoundTrip`, raw buckets = the
    canonical bytes), and clearing and encoding THAT gives `exBC'` again. -/
example : ∃ m', Sign1.unmarshal true exBC = .ok exMC ∧ exMC.h.u = [(lbl 11, .csigs [cs1D, cs2N])] ∧
    Sign1.marshal true (clearRawDeep exMC) = .ok exBC' ∧ exBC' ≠ exBC ∧
    Sign1.unmarshal true exBC' = .ok m' ∧ m'.payload = some [1, 2, 3] ∧ m'.sig = some [7] ∧
    m'.h.p = [(lbl 1, .alg (-7))] ∧ m'.h.u = [(lbl 11, .csigs [cs1N, cs2N])] ∧
    Sign1.marshal true (clearRawDeep m') = .ok exBC' := by
  obtain ⟨hfp, hfu⟩ := exC_model
  obtain ⟨b', h1, m', h2, hpay, hsig, hp', hu', -⟩ :=
    C09.clear_raw_decodable_csig true exBC _ exC_unmarshal hfp hfu
  have hb : b' = exBC' := Out.ok.inj (h1.symm.trans exC_marshal_cleared)
  subst hb
  obtain ⟨b'', h3, rfl, -⟩ :=
    C09.clear_raw_fixpoint_csig true exBC _ exC_unmarshal hfp hfu _ m' h1 h2
  refine ⟨m', exC_unmarshal, rfl, h1, by decide, h2, hpay, hsig, ?_, hu'.trans exC_norm, h3⟩
  rw [hp']
  simp [exMC, sortEntries_one, decEntryN_alg]

end CsigClearRawExamples

/-! ## non-vacuity: COSE_Sign and a stand-alone countersignature carrying countersignatures -/

namespace C01
open CsigRT CsigExamples WireClosure SignWireClosure NestedBuckets NestedClosures CsigClosures

/-- headers with a COUNTERSIGNATURE in the unprotected bucket: protected `{1: ES256}`, unprotected
    `{7: cs1}` -/
def exHdC : Hdrs := { p := [(lbl 1, .alg (-7))], u := exU2 }

theorem exHdC_mpP : marshalProtected exHdC = .ok [0x43, 0xa1, 0x01, 0x26] := exF_mpP

theorem exHdC_mpU : marshalUnprotected exHdC = .ok exU2Bytes := by
  have hm : GoVal.modelledPairs exU2 = true := by
    simp [exU2, cs1, GoVal.modelledPairs, GoVal.modelled, lbl]
  simp [marshalUnprotected, exHdC, hm, exU2_enc]

theorem exHdC_iv : ensureIV exHdC.p exHdC.u = true := by
  simp [ensureIV, exHdC, exU2, hasLabel, lookupLabel, GoMap.lookup, GoVal.keyEq, lbl,
    normalizeLabel, wrap64]

theorem exHdC_marshal : exHdC.marshal = .ok ([0x43, 0xa1, 0x01, 0x26], exU2Bytes) := by
  simp [Hdrs.marshal, exHdC_iv, exHdC_mpP, exHdC_mpU, bind, Out.bind]

theorem exP7_nested : NestedMap [(lbl 1, GoVal.alg (-7))] ∧
    ∀ e ∈ [(lbl 1, GoVal.alg (-7))], UintOK e.2 := by
  constructor <;> intro e he <;> simp only [List.mem_singleton] at he <;> subst he
  · simp [lbl, FlatLabel, RTVal, FlatVal, int64Range]
  · simp [UintOK]

theorem exHdC_slot : CsigSlot { h := exHdC } :=
  ⟨rfl, rfl, exP7_nested.1, exU2_hmap 4 (by simp [maxNested]), exP7_nested.2,
    by simp [exHdC, maxElems], by simp [exHdC, exU2, maxElems]⟩

/-- a COSE_Sign whose BODY is `exCsm.h` — protected `{1: ES256}`, unprotected
    `{4: h'3131', 11: [cs1, cs2]}` (a LIST of two countersignatures) — with TWO signer slots: the
    flat `exHd` and `exHdC`, whose unprotected bucket is `{7: cs1}` (ONE countersignature) -/
def exMsgCs : SignMsg :=
  { h := exCsm.h, payload := some [1, 2, 3], sigs := [{ h := exHd }, { h := exHdC }] }

theorem exSlotC_sign (hd : Hdrs) (hrp : hd.rawP = none) (hp : hd.p = [(lbl 1, .alg (-7))])
    (hmp : marshalProtected hd = .ok [0x43, 0xa1, 0x01, 0x26]) :
    (Signature.sign { h := hd } exS7 [0x43, 0xa1, 0x01, 0x26] (some [1, 2, 3]) none).out = .ok () ∧
    (Signature.sign { h := hd } exS7 [0x43, 0xa1, 0x01, 0x26] (some [1, 2, 3]) none).state
      = { h := hd, sig := some [7] } := by
  obtain ⟨rp, p, ru, u⟩ := hd
  simp only at hrp hp
  subst hrp hp
  have hg : ensureSigningAlgorithm none [(lbl 1, .alg (-7))] (-7) none
      = .ok [(lbl 1, .alg (-7))] := by rfl
  have hb : bodyProtOK [0x43, 0xa1, 0x01, 0x26] = true := by decide
  obtain ⟨t, ht⟩ : ∃ t, Signature.toBeSigned
      { h := { rawP := none, p := [(lbl 1, .alg (-7))], rawU := ru, u := u }, sig := none }
      [0x43, 0xa1, 0x01, 0x26] (some [1, 2, 3]) none = .ok t := by
    simp [Signature.toBeSigned, hmp, ex_det2, bind, Out.bind]
  simp [Signature.sign, blen, hb, hg, ht, exS7]

theorem exMsgCs_sign : (Sign.sign exMsgCs none [exS7, exS7]).out = .ok () ∧
    (Sign.sign exMsgCs none [exS7, exS7]).state =
      { h := exCsm.h, payload := some [1, 2, 3],
        sigs := [{ h := exHd, sig := some [7] }, { h := exHdC, sig := some [7] }] } := by
  have hp : exMsgCs.payload = some [1, 2, 3] := rfl
  have hh : exMsgCs.h = exCsm.h := rfl
  have hsg : exMsgCs.sigs = [{ h := exHd }, { h := exHdC }] := rfl
  have s1 := exSlotC_sign exHd rfl rfl exHd_mpP
  have s2 := exSlotC_sign exHdC rfl rfl exHdC_mpP
  simp [Sign.sign, hp, hh, hsg, exCsm_mpP, signLoop, s1.1, s1.2, s2.1, s2.2]

/-- the bytes `MarshalCBOR` emits for the signed `exMsgCs` -/
def exMsgCsBytes : Bytes :=
  0xd8 :: 0x62 :: 0x84 :: ([0x43, 0xa1, 0x01, 0x26] ++ (exU1Bytes ++ ([0x43, 1, 2, 3] ++ (0x82 ::
    ((0x83 :: ([0x43, 0xa1, 0x01, 0x26] ++ ([0xa1, 0x04, 0x42, 0x31, 0x31] ++ [0x41, 7]))) ++
     (0x83 :: ([0x43, 0xa1, 0x01, 0x26] ++ (exU2Bytes ++ [0x41, 7]))))))))

theorem exMsgCs_marshal :
    Sign.marshal (Sign.sign exMsgCs none [exS7, exS7]).state = .ok exMsgCsBytes := by
  rw [exMsgCs_sign.2]
  have hiv : ensureIV exCsm.h.p exCsm.h.u = true := by
    simp [ensureIV, exCsm, exU1, hasLabel, lookupLabel, GoMap.lookup, GoVal.keyEq, lbl,
      normalizeLabel, wrap64]
  have hbm : exCsm.h.marshal = .ok ([0x43, 0xa1, 0x01, 0x26], exU1Bytes) := by
    simp [Hdrs.marshal, hiv, exCsm_mpP, exCsm_mpU, bind, Out.bind]
  have hs1 : Signature.marshal { h := exHd, sig := some [7] }
      = .ok (0x83 :: ([0x43, 0xa1, 0x01, 0x26] ++ ([0xa1, 0x04, 0x42, 0x31, 0x31] ++ encBstr [7]))) := by
    simp [Signature.marshal, exHd_marshal, blen, bind, Out.bind]
  have hs2 : Signature.marshal { h := exHdC, sig := some [7] }
      = .ok (0x83 :: ([0x43, 0xa1, 0x01, 0x26] ++ (exU2Bytes ++ encBstr [7]))) := by
    simp [Signature.marshal, exHdC_marshal, blen, bind, Out.bind]
  simp [Sign.marshal, marshalSigs, hbm, hs1, hs2, bind, Out.bind, exMsgCsBytes, optBytesEnc,
    encBstr, encHead, HW.shortest, headBytes]

/-- NON-VACUITY of `signmsg_wire_csig`: every hypothesis holds for `exMsgCs` — a list of two
    countersignatures under label 11 in the BODY's unprotected bucket AND one countersignature
    under label 7 in the second SIGNER SLOT's unprotected bucket — with the matching pairs
    `exS7`/`exV7`; the theorem yields the decoded message, which verifies, carries the payload and
    two signer entries, whose body unprotected map is `{4: h'3131', 11: [cs1N, cs2N]}` and whose
    second slot's unprotected map is `{7: cs1N}` (`cs1N`, `cs2N`: the decoded forms spelt out in
    `Deep/CsigRoundTrip`, each retaining its raw buckets). -/
example : ∃ m2, Sign.marshal (Sign.sign exMsgCs none [exS7, exS7]).state = .ok exMsgCsBytes ∧
    Sign.unmarshal exMsgCsBytes = .ok m2 ∧ (Sign.verify m2 none [exV7, exV7]).1 = .ok () ∧
    m2.payload = some [1, 2, 3] ∧ m2.sigs.length = 2 ∧
    m2.h.u = [(lbl 4, .bytes [0x31, 0x31]), (lbl 11, .csigs [cs1N, cs2N])] ∧
    ∃ (h : 1 < m2.sigs.length), m2.sigs[1].h.u = [(lbl 7, cs1N)] := by
  obtain ⟨m2, hdec, hver, hpay, hl2, -, -, hu2, hsu⟩ :=
    signmsg_wire_csig exMsgCs none [exS7, exS7] [exV7, exV7] exMsgCsBytes rfl
      (by
        intro i h1 h2
        have : i = 0 ∨ i = 1 := by simp at h1; omega
        rcases this with rfl | rfl <;> exact exSV7)
      rfl rfl exP7_nested.1 (exU1_hmap 2 (by simp [maxNested])) exP7_nested.2
      (by simp [exMsgCs, exCsm, maxElems]) (by simp [exMsgCs, exCsm, exU1, maxElems])
      (by
        intro sg hsg
        simp only [exMsgCs, List.mem_cons, List.not_mem_nil, or_false] at hsg
        rcases hsg with rfl | rfl
        · exact csigSlot_of_nested (nestedSlot_of_flat exHd_flatSlot)
        · exact exHdC_slot)
      (by simp [exMsgCs, maxElems]) (by simp [exMsgCs, blen])
      (by
        intro s hs
        simp only [List.mem_cons, List.not_mem_nil, or_false, or_self] at hs
        subst hs
        exact exS7_go)
      exMsgCs_sign.1 exMsgCs_marshal
  have h1 : 1 < m2.sigs.length := by rw [hl2]; decide
  exact ⟨m2, exMsgCs_marshal, hdec, hver, hpay, hl2, hu2.trans exU1_norm, h1,
    (hsu 1 h1 (by decide)).trans exU2_norm⟩

theorem exCsC_sign :
    (Countersignature.sign { h := exHdC } exS7 (.sign1 exPar) none).out = .ok () ∧
    (Countersignature.sign { h := exHdC } exS7 (.sign1 exPar) none).state
      = { h := exHdC, sig := some [7] } := by
  have hps : exPar.sig = some [7] := rfl
  have hph : exPar.h = exHd := rfl
  have hpp : exPar.payload = some [1, 2, 3] := rfl
  have hg : ensureSigningAlgorithm exHdC.rawP exHdC.p (-7) none = .ok exHdC.p := by rfl
  have hmp : marshalProtected
      { rawP := exHdC.rawP, p := exHdC.p, rawU := exHdC.rawU, u := exHdC.u }
      = .ok [0x43, 0xa1, 0x01, 0x26] := exHdC_mpP
  obtain ⟨t, ht⟩ : ∃ t, Countersignature.toBeSigned
      { h := { rawP := exHdC.rawP, p := exHdC.p, rawU := exHdC.rawU, u := exHdC.u },
        sig := none } (.sign1 exPar) none = .ok t := by
    simp [Countersignature.toBeSigned, countersignToBeSigned, hmp, exHd_mpP, hps, hph, hpp, blen,
      ex_det2, bind, Out.bind]
  simp [Countersignature.sign, blen, hg, ht, exS7]

/-- NON-VACUITY of `countersignature_wire_csig`: a fresh stand-alone countersignature on a signed
    COSE_Sign1 whose OWN unprotected bucket is `{7: cs1}` — a countersignature carrying a
    countersignature — with the matching pair `exS7`/`exV7`: the emitted bytes
    `83 43a10126 (a1 07 83 43a10126 a1044132 420102) 4107` decode, the decoded countersignature
    verifies on the same parent, and its unprotected map is `{7: cs1N}` -/
example : ∃ c2,
    Signature.marshal (Countersignature.sign { h := exHdC } exS7 (.sign1 exPar) none).state
      = .ok (0x83 :: ([0x43, 0xa1, 0x01, 0x26] ++ (exU2Bytes ++ [0x41, 7]))) ∧
    Signature.unmarshal (0x83 :: ([0x43, 0xa1, 0x01, 0x26] ++ (exU2Bytes ++ [0x41, 7]))) = .ok c2 ∧
    (Countersignature.verify c2 exV7 (.sign1 exPar) none).1 = .ok () ∧ c2.sig = some [7] ∧
    c2.h.p = [(lbl 1, .alg (-7))] ∧ c2.h.u = [(lbl 7, cs1N)] := by
  have hb : Signature.marshal
      (Countersignature.sign { h := exHdC } exS7 (.sign1 exPar) none).state
      = .ok (0x83 :: ([0x43, 0xa1, 0x01, 0x26] ++ (exU2Bytes ++ [0x41, 7]))) := by
    rw [exCsC_sign.2]
    simp [Signature.marshal, exHdC_marshal, blen, bind, Out.bind, encBstr, encHead, HW.shortest,
      headBytes]
  obtain ⟨c2, hdec, hver, hsig, hp2, hu2⟩ :=
    countersignature_wire_csig { h := exHdC } exS7 exV7 (.sign1 exPar) none _ exSV7 rfl rfl
      exP7_nested.1 (exU2_hmap 2 (by simp [maxNested])) exP7_nested.2
      (by simp [exHdC, maxElems]) (by simp [exHdC, exU2, maxElems])
      exS7_go.1 exS7_go.2 exCsC_sign.1 hb
  refine ⟨c2, hb, hdec, hver, by rw [hsig, exCsC_sign.2], ?_, hu2.trans exU2_norm⟩
  rw [hp2, exCsC_sign.2]
  simp [exHdC, sortEntries_one, decEntryN_alg]

end C01
